import OxiVerif.Lemmas.C23
import OxiVerif.Lemmas.C23Aes
import OxiVerif.Model.C23
set_option linter.unusedSimpArgs false
set_option linter.unusedVariables false
/-!
# C23 — cryptographic building blocks match their reference definitions

What is *proved* here (for every key, IV, data, password — no bound) is invertibility and the
algebra around the reference definitions of `Spec/Crypto*.lean`, and that the model of the Rust
code (`Model/C23.lean`) coincides with those definitions where the code follows the standard.
"The library's RC4 / AES-CBC / MD5 / SHA-2 *equal* the reference" is a correspondence claim
(checked on every run by `drv_c23` against `harness/src/bin/c23.rs`), not a theorem.

The CBC / ECB theorems are stated for any pair of functions that are mutually inverse on
16-byte blocks (`BlockInverse`); that the FIPS-197 transcription in `Spec/CryptoAes.lean` is such
a pair — for every round-key list, hence every key — is **proved** (`C23_aes_block_inverse`,
algebraically: S-box tables, ShiftRows, the GF(2^8) MixColumns matrices, AddRoundKey), so the
AES-CBC round trips below carry no hypothesis about the cipher.
-/
namespace OxiVerif.C23
open OxiVerif.Crypto

/-! ## RC4 -/

/-- The key-scheduling loop only swaps: the state is a permutation of 0…255, for every key. -/
theorem C23_rc4_ksa_permutation (key : Bytes) : (ksa key).Perm rc4Identity := ksa_perm key

example : (ksa [1, 2, 3]).size = 256 := by
  rw [(C23_rc4_ksa_permutation _).size_eq]; simp [rc4Identity]

/-- … and so does every step of the generator. -/
theorem C23_rc4_prga_permutation (st : Rc4State) : (prgaStep st).1.s.Perm st.s :=
  swapIfInBounds_perm _ _ _

/-- RC4 is an involution: decrypting is encrypting again (every key, every data). -/
theorem C23_rc4_involutive (k d : Bytes) : rc4 k (rc4 k d) = d := rc4_involutive k d

example : rc4 [1, 2] (rc4 [1, 2] [10, 20, 30]) = [10, 20, 30] := C23_rc4_involutive _ _

theorem C23_rc4_length (k d : Bytes) : (rc4 k d).length = d.length := rc4_length k d

/-- The keystream position carries over between calls (`Rc4::process` twice = once on the
concatenation), stated on the generator. -/
theorem C23_rc4_prga_append (st : Rc4State) (a b : Bytes) :
    prga st (a ++ b) = prga st a ++ prga ((a.foldl (fun s _ => (prgaStep s).1) st)) b := by
  induction a generalizing st with
  | nil => rfl
  | cons x xs ih => simp [prga, ih]

/-- After the key schedule and any amount of processed data the state array is still a
permutation of 0…255 — for every key and every input length. -/
theorem C23_rc4_state_permutation (key data : Bytes) :
    (data.foldl (fun s _ => (prgaStep s).1) (rc4Init key)).s.Perm rc4Identity := by
  have h : ∀ (d : Bytes) (st : Rc4State), (d.foldl (fun s _ => (prgaStep s).1) st).s.Perm st.s := by
    intro d
    induction d with
    | nil => intro st; exact Array.Perm.refl _
    | cons b rest ih =>
      intro st
      simp only [List.foldl_cons]
      exact (ih _).trans (C23_rc4_prga_permutation st)
  have h1 := h data (rc4Init key)
  have e : (rc4Init key).s = ksa key := by simp only [rc4Init]
  rw [e] at h1
  exact h1.trans (C23_rc4_ksa_permutation key)

example (key data : Bytes) :
    (data.foldl (fun s _ => (prgaStep s).1) (rc4Init key)).s.size = rc4Identity.size :=
  (C23_rc4_state_permutation key data).size_eq

/-! ## PKCS#7 and CBC -/

/-- Padding adds 1…16 bytes and makes the length a multiple of 16. -/
theorem C23_pkcs7_pad_length (d : Bytes) :
    (pkcs7Pad d).length % 16 = 0 ∧ d.length < (pkcs7Pad d).length ∧ (pkcs7Pad d).length ≤ d.length + 16 :=
  pkcs7Pad_length d

theorem C23_pkcs7_unpad_pad (d : Bytes) : pkcs7Unpad (pkcs7Pad d) = some d := pkcs7_unpad_pad d

example : pkcs7Unpad (pkcs7Pad [1, 2, 3]) = some [1, 2, 3] := C23_pkcs7_unpad_pad _

/-- CBC decryption inverts CBC encryption for EVERY block-function pair that is mutually
inverse on 16-byte blocks. -/
theorem C23_cbc_roundtrip (E D : Bytes → Bytes) (h : BlockInverse E D) (iv data : Bytes)
    (hiv : iv.length = 16) (hd : data.length % 16 = 0) :
    cbcDec D iv (cbcEnc E iv data) = data := cbc_roundtrip E D h iv data hiv hd

/-- the hypothesis is inhabited, e.g. by the identity and by byte-wise complement -/
example : BlockInverse id id := fun b hb => ⟨hb, rfl⟩
example : BlockInverse (fun b => b.map (· ^^^ 0xFF)) (fun b => b.map (· ^^^ 0xFF)) := by
  intro b hb
  refine ⟨by simpa using hb, ?_⟩
  simp only [List.map_map]
  conv => rhs; rw [← List.map_id b]
  apply List.map_congr_left
  intro a _
  exact xor_cancel a 0xFF

/-- CBC + PKCS#7 (what `Aes::encrypt_cbc` / `decrypt_cbc` compute) round-trips every byte string,
including the empty one and those whose length is already a multiple of 16. -/
theorem C23_cbc_pkcs7_roundtrip (E D : Bytes → Bytes) (h : BlockInverse E D) (iv data : Bytes)
    (hiv : iv.length = 16) :
    pkcs7Unpad (cbcDec D iv (cbcEnc E iv (pkcs7Pad data))) = some data := by
  rw [cbc_roundtrip E D h iv _ hiv (pkcs7Pad_length data).1]
  exact pkcs7_unpad_pad data

/-- the ciphertext is one to sixteen bytes longer than the plaintext and block aligned -/
theorem C23_cbc_pkcs7_length (E D : Bytes → Bytes) (h : BlockInverse E D) (iv data : Bytes)
    (hiv : iv.length = 16) :
    (cbcEnc E iv (pkcs7Pad data)).length = (data.length / 16 + 1) * 16 := by
  rw [cbcEnc_length E D h iv _ hiv (pkcs7Pad_length data).1]
  simp only [pkcs7Pad, List.length_append, List.length_replicate]
  omega

/-- ECB over whole blocks is inverted block by block. -/
theorem C23_ecb_roundtrip (E D : Bytes → Bytes) (h : BlockInverse E D) (data : Bytes)
    (hd : data.length % 16 = 0) : ecb D (ecb E data) = data := by
  have key : ∀ n (data : Bytes), data.length = 16 * n →
      (ecbGo E n data).length = 16 * n ∧ ecbGo D n (ecbGo E n data) = data := by
    intro n
    induction n with
    | zero => intro data hd; simp at hd; simp [ecbGo, hd]
    | succ n ih =>
      intro data hd
      have ht : (data.take 16).length = 16 := by simp; omega
      obtain ⟨hl, hinv⟩ := h _ ht
      obtain ⟨l2, r2⟩ := ih (data.drop 16) (by simp; omega)
      constructor
      · simp only [ecbGo, List.length_append, hl, l2]; omega
      · simp only [ecbGo]
        rw [List.take_left' hl, List.drop_left' hl, hinv, r2, List.take_append_drop]
  have hd' : data.length = 16 * (data.length / 16) := by omega
  obtain ⟨l, r⟩ := key _ data hd'
  unfold ecb
  rw [l]
  have : 16 * (data.length / 16) / 16 = data.length / 16 := by omega
  rw [this]
  exact r

/-! ## The wrappers of aes.rs (model) in terms of the reference -/

/-- FIPS-197 InvCipher ∘ Cipher = id and Cipher ∘ InvCipher = id, for EVERY list of round keys
and every block: the AES block function is a permutation of the 2^128 blocks. -/
theorem C23_aes_block_permutation (ks : KeySched) (x : Blk) :
    invCipher ks (cipher ks x) = x ∧ cipher ks (invCipher ks x) = x :=
  ⟨invCipher_cipher ks x, cipher_invCipher ks x⟩

example : invCipher ⟨⟨1,2,3,4,5,6,7,8,9,10,11,12,13,14,15,16⟩, [⟨9,9,9,9,9,9,9,9,9,9,9,9,9,9,9,9⟩], ⟨0,0,0,0,0,0,0,0,0,0,0,0,0,0,0,7⟩⟩
    (cipher ⟨⟨1,2,3,4,5,6,7,8,9,10,11,12,13,14,15,16⟩, [⟨9,9,9,9,9,9,9,9,9,9,9,9,9,9,9,9⟩], ⟨0,0,0,0,0,0,0,0,0,0,0,0,0,0,0,7⟩⟩
      ⟨0,1,2,3,4,5,6,7,8,9,10,11,12,13,14,15⟩) = ⟨0,1,2,3,4,5,6,7,8,9,10,11,12,13,14,15⟩ :=
  (C23_aes_block_permutation _ _).1

/-- The S-box and MixColumns facts the permutation rests on. -/
theorem C23_aes_sbox_inverse (x : UInt8) : invSubByte (subByte x) = x ∧ subByte (invSubByte x) = x :=
  ⟨invSubByte_subByte x, subByte_invSubByte x⟩

theorem C23_aes_xtime_additive (a b : UInt8) : xtime (a ^^^ b) = xtime a ^^^ xtime b := xtime_xor a b

theorem C23_aes_mixColumns_inverse (s : Blk) :
    s.mixColumns.invMixColumns = s ∧ s.invMixColumns.mixColumns = s :=
  ⟨Blk.invMixColumns_mixColumns s, Blk.mixColumns_invMixColumns s⟩

/-- The hypothesis of the mode theorems holds for the FIPS-197 transcription (both directions). -/
theorem C23_aes_block_inverse (ks : KeySched) :
    BlockInverse (aesEncBlock ks) (aesDecBlock ks) ∧ BlockInverse (aesDecBlock ks) (aesEncBlock ks) :=
  ⟨aes_blockInverse ks, aes_blockInverse' ks⟩

/-- a 16- or 32-byte key has a key schedule (AES-128 / AES-256), no other length has -/
theorem C23_keySched_isSome (key : Bytes) : (keySched key).isSome ↔ (key.length = 16 ∨ key.length = 32) := by
  unfold keySched
  by_cases h : key.length = 16 ∨ key.length = 32 <;> simp [h]

/-- the key schedule has Nr + 1 round keys: 11 for a 16-byte key, 15 for a 32-byte key -/
theorem C23_keySched_rounds (key : Bytes) (ks : KeySched) (h : keySched key = some ks) :
    ks.mids.length + 2 = key.length / 4 + 7 := by
  unfold keySched at h
  split at h
  · simp only [Option.some.injEq] at h
    subst h
    simp only [List.length_map, List.length_range]
    omega
  · cases h

/-- AES-CBC with PKCS#7 (reference): decryption returns the plaintext, for every 16- or 32-byte
key, 16-byte IV and byte string — no hypothesis about the cipher. -/
theorem C23_aes_cbc_pkcs7_roundtrip (key iv data : Bytes) (hk : key.length = 16 ∨ key.length = 32)
    (hiv : iv.length = 16) :
    ∃ c, aesCbcPadEnc key iv data = some c ∧ aesCbcPadDec key iv c = some data ∧
      c.length = (data.length / 16 + 1) * 16 := by
  obtain ⟨ks, hks⟩ := Option.isSome_iff_exists.1 ((C23_keySched_isSome key).2 hk)
  have hinv := aes_blockInverse ks
  have hl := C23_cbc_pkcs7_length _ _ hinv iv data hiv
  refine ⟨cbcEnc (aesEncBlock ks) iv (pkcs7Pad data), by simp [aesCbcPadEnc, hks], ?_, hl⟩
  simp only [aesCbcPadDec, hks]
  rw [if_neg (by rw [hl]; omega)]
  exact C23_cbc_pkcs7_roundtrip _ _ hinv iv data hiv

example : ∃ c, aesCbcPadEnc (List.replicate 16 1) (List.replicate 16 2) [1, 2, 3] = some c ∧
    aesCbcPadDec (List.replicate 16 1) (List.replicate 16 2) c = some [1, 2, 3] ∧ c.length = 16 :=
  C23_aes_cbc_pkcs7_roundtrip _ _ _ (by simp) (by simp)

/-- `Aes::decrypt_cbc ∘ Aes::encrypt_cbc` (model of aes.rs) gives the plaintext back for every
16- or 32-byte key, every 16-byte IV and every byte string. -/
theorem C23_model_aes_cbc_roundtrip (key iv data : Bytes) (hk : key.length = 16 ∨ key.length = 32)
    (hiv : iv.length = 16) :
    ∃ c, aesEncryptCbc key iv data = .ok c ∧ aesDecryptCbc key iv c = .ok data := by
  obtain ⟨ks, hks⟩ := Option.isSome_iff_exists.1 ((C23_keySched_isSome key).2 hk)
  have hinv := aes_blockInverse ks
  refine ⟨cbcEnc (aesEncBlock ks) iv (pkcs7Pad data), ?_, ?_⟩
  · simp [aesEncryptCbc, aesCbcPadEnc, hks, hiv]
  · have hl := C23_cbc_pkcs7_length _ _ hinv iv data hiv
    have hr := C23_cbc_pkcs7_roundtrip _ _ hinv iv data hiv
    simp only [aesDecryptCbc, hks, hiv]
    rw [if_neg (by simp), if_neg (by rw [hl]; omega)]
    simp [hr]

example : ∃ c, aesEncryptCbc (List.replicate 32 7) (List.replicate 16 0) [] = .ok c ∧
    aesDecryptCbc (List.replicate 32 7) (List.replicate 16 0) c = .ok [] :=
  C23_model_aes_cbc_roundtrip _ _ _ (by simp) (by simp)

/-- `decrypt_aes` inverts `encrypt_aes` whatever IV the latter drew: for R4 (AESV2, per-object
key with the `sAlT` suffix) and R5/R6 (AESV3, the 32-byte file key), every object number,
generation and byte string. `c` is what `encrypt_aes` appends after the IV. -/
theorem C23_model_decrypt_aes_inverts (rev : Nat) (key : Bytes) (num gen : Nat) (iv data k : Bytes)
    (hk : aesObjKey rev key num gen = some k) (hiv : iv.length = 16) :
    ∃ c, aesEncryptCbc k iv data = .ok c ∧ decryptAes rev key num gen (iv ++ c) = some data := by
  have hkl : k.length = 16 ∨ k.length = 32 := by
    unfold aesObjKey at hk
    split at hk
    · simp only at hk
      split at hk
      · rename_i h16; simp only [Option.some.injEq] at hk; subst hk; exact Or.inl h16
      · cases hk
    · split at hk
      · split at hk
        · rename_i h32; simp only [Option.some.injEq] at hk; subst hk; exact Or.inr h32
        · cases hk
      · cases hk
  obtain ⟨c, hc, hd⟩ := C23_model_aes_cbc_roundtrip k iv data hkl hiv
  refine ⟨c, hc, ?_⟩
  unfold decryptAes
  rw [if_neg (by simp only [List.length_append, hiv]; omega)]
  simp only [hk, List.take_left' hiv, List.drop_left' hiv, hd, bind, Option.bind]

example : ∃ c, aesEncryptCbc (List.replicate 32 3) (List.replicate 16 9) [1, 2] = .ok c ∧
    decryptAes 6 (List.replicate 32 3) 12 0 (List.replicate 16 9 ++ c) = some [1, 2] :=
  C23_model_decrypt_aes_inverts 6 _ 12 0 _ _ _ (by simp [aesObjKey]) (by simp)

/-! ## Algorithms 2–7 (revisions 2–4) -/

/-- The 19 extra RC4 passes of Algorithm 3 (g) / 5 (e) are undone by the passes of Algorithm 7
(b) taken in the reverse order. -/
theorem C23_rc4_chain_undone (k d : Bytes) : rc4Unchain k (rc4Chain k d) = d := rc4Unchain_chain k d

/-- Algorithm 7 (a)–(b) applied to the /O entry of Algorithm 3 recovers the padded user
password, for every revision, key length and pair of passwords. -/
theorem C23_alg7_recovers_user_password (rev n : Nat) (ownerPw userPw : Bytes) :
    alg7recover rev n ownerPw (alg3 rev n ownerPw userPw) = padPassword userPw :=
  alg7recover_alg3 rev n ownerPw userPw

example : alg7recover 3 16 [0x6F] (alg3 3 16 [0x6F] [0x75]) = padPassword [0x75] :=
  C23_alg7_recovers_user_password _ _ _ _

theorem C23_pad_password_length (pw : Bytes) : (padPassword pw).length = 32 := padPassword_length pw

/-- Algorithm 6 accepts the password /U was computed from and yields the Algorithm 2 key. -/
theorem C23_alg6_accepts (rev n : Nat) (pw o : Bytes) (p : Nat) (id : Bytes) (em : Bool) (hn : 16 ≤ n ∨ rev = 2) :
    alg6 rev n pw o (computeU rev n pw o p id em) p id em = some (alg2 rev n pw o p id em) := by
  apply alg6_accepts
  intro _
  simp [alg5core, rc4Chain_length, rc4_length, md5_length]

/-- Algorithm 7 accepts the owner password /O was computed from and yields the same file key as
the user password does. -/
theorem C23_alg7_accepts (rev n : Nat) (opw upw : Bytes) (p : Nat) (id : Bytes) (em : Bool) :
    alg7 rev n opw (alg3 rev n opw upw) (computeU rev n upw (alg3 rev n opw upw) p id em) p id em
      = some (alg2 rev n upw (alg3 rev n opw upw) p id em) := by
  apply alg7_accepts
  intro _
  simp [alg5core, rc4Chain_length, rc4_length, md5_length]

example : (alg7 2 5 [1] (alg3 2 5 [1] [2]) (computeU 2 5 [2] (alg3 2 5 [1] [2]) 0 [] true) 0 [] true).isSome := by
  rw [C23_alg7_accepts]; rfl

/-! ## Model = reference where the code follows the standard -/

theorem C23_model_owner_hash_is_alg3 (rev n : Nat) (o u : Bytes) :
    computeOwnerHash rev n o u = alg3 rev n o u := rfl

/-- `compute_encryption_key` (public: metadata flag true) is Algorithm 2 -/
theorem C23_model_key_is_alg2 (rev n : Nat) (hr : rev ≤ 4) (pw o id : Bytes) (p : Nat) :
    computeEncryptionKey rev n pw o p (some id) true = alg2 rev n pw o p id true := by
  have : ¬ rev ≥ 5 := by omega
  simp [computeEncryptionKey, computeKeyFromPadded, alg2, this, padPw]

/-- with `/EncryptMetadata false` the code's key is Algorithm 2's exactly when the revision
gate (R ≥ 4) holds — the gate is applied by the reader (`unlockUser`), see `C23_unlock_user_is_alg6` -/
theorem C23_model_key_is_alg2_nometa (rev n : Nat) (hr : rev = 4) (pw o id : Bytes) (p : Nat) :
    computeEncryptionKey rev n pw o p (some id) false = alg2 rev n pw o p id false := by
  subst hr
  simp [computeEncryptionKey, computeKeyFromPadded, alg2, padPw]

/-- `compute_user_hash` is Algorithm 4 / Algorithm 5 with zero padding -/
theorem C23_model_user_hash_is_alg45 (rev n : Nat) (hr : rev ≤ 4) (pw o id : Bytes) (p : Nat) :
    computeUserHash rev n pw o p (some id) true = computeU rev n pw o p id true := by
  have : ¬ rev ≥ 5 := by omega
  have hk := C23_model_key_is_alg2 rev n hr pw o id p
  simp only [computeEncryptionKey, this, if_false] at hk
  simp only [computeUserHash, this, if_false, computeUserHashFromPadded, computeU, hk]
  split <;> simp [alg4, alg5, alg5core]

theorem alg5core_length (k id : Bytes) : (alg5core k id).length = 16 := by
  simp [alg5core, rc4Chain_length, rc4_length, md5_length]

theorem keyFromPadded_eq_alg2 (hr n r : Nat) (pw o id : Bytes) (p : Nat) (em : Bool)
    (h3 : (hr ≥ 3) ↔ (r ≥ 3)) :
    computeKeyFromPadded hr n (padPw pw) o p (some id) (em || decide (r < 4)) = alg2 r n pw o p id em := by
  unfold computeKeyFromPadded alg2 padPw
  have e1 : (if (em || decide (r < 4)) = true then ([] : Bytes) else [0xFF, 0xFF, 0xFF, 0xFF]) =
      (if r ≥ 4 ∧ (!em) = true then [0xFF, 0xFF, 0xFF, 0xFF] else []) := by
    by_cases h : r < 4
    · have : ¬ r ≥ 4 := by omega
      simp [h, this]
    · have : r ≥ 4 := by omega
      cases em <;> simp [this, h]
  simp only [Option.getD_some, e1]
  by_cases h : hr ≥ 3
  · have := h3.1 h; simp [h, this]
  · have : ¬ r ≥ 3 := fun x => h (h3.2 x)
    simp [h, this]

theorem unlock_core (r hr n : Nat) (pw o u id : Bytes) (p : Nat) (em : Bool)
    (hc : (hr = 2 ∧ r = 2) ∨ (3 ≤ hr ∧ hr ≤ 4 ∧ 3 ≤ r)) :
    (let em' := em || decide (r < 4)
     let cu := computeUserHash hr n pw o p (some id) em'
     let len := if r ≥ 3 then 16 else 32
     if cu.length < len ∨ u.length < len then Unlock.refused
     else if cu.take len = u.take len then .key (computeEncryptionKey hr n pw o p (some id) em')
     else .refused) =
    (match alg6 r n pw o u p id em with
      | some k => Unlock.key k
      | none => .refused) := by
  have hn5 : ¬ hr ≥ 5 := by omega
  have h3 : (hr ≥ 3) ↔ (r ≥ 3) := by omega
  have hk := keyFromPadded_eq_alg2 hr n r pw o id p em h3
  simp only [computeUserHash, computeEncryptionKey, hn5, if_false, computeUserHashFromPadded, hk, alg6]
  rcases hc with ⟨hr2, r2⟩ | ⟨ha, hb, hc⟩
  · subst hr2; subst r2
    have hl : (rc4 (alg2 2 n pw o p id em) pwPadding).length = 32 := by simp [rc4_length, pwPadding]
    have e : ¬ (2 ≥ 3) := by omega
    simp only [e, if_false, if_true, hl, alg4]
    by_cases hu : u.length < 32
    · have : ¬ u.length ≥ 32 := by omega
      simp [hu, this]
    · have hu' : u.length ≥ 32 := by omega
      rw [List.take_of_length_le (Nat.le_of_eq hl)]
      simp only [hu, hu', and_true, Nat.lt_irrefl, or_self, if_false]
      split <;> simp_all
  · have e1 : ¬ hr = 2 := by omega
    have e2 : ¬ r = 2 := by omega
    have hl := alg5core_length (alg2 r n pw o p id em) id
    unfold alg5core at hl
    simp only [e1, e2, hc, ge_iff_le, if_true, if_false, alg5core, Option.getD_some]
    rw [List.take_left' hl]
    simp only [List.length_append, hl, List.length_replicate]
    by_cases hu : u.length < 16
    · have : ¬ u.length ≥ 16 := by omega
      simp [hu, this]
    · have hu' : u.length ≥ 16 := by omega
      simp only [hu, hu', and_true, if_false]
      have : ¬ (16 + 16 < 16) := by omega
      simp only [this, false_or, if_false]
      split <;> simp_all

/-- The reader's user-password path (`unlock_with_user_password`) on a revision 2–4 dictionary
with a file identifier IS Algorithm 6 with the key length the reader assumes (5 bytes for R2, 16
otherwise — `/Length` is not consulted), for every password, every /O, /U, /P, /ID, crypt
filter and `/EncryptMetadata` value. -/
theorem C23_unlock_user_is_alg6 (d : EncDict) (pw id : Bytes) (hr : d.r = 2 ∨ d.r = 3 ∨ d.r = 4)
    (hid : d.id = some id) :
    unlockUser d pw =
      match alg6 d.r (if d.r = 2 then 5 else 16) pw d.o d.u d.p id (d.em.getD true) with
      | some k => .key k
      | none => .refused := by
  rcases hr with h | h | h
  · have := unlock_core 2 2 5 pw d.o d.u id d.p (d.em.getD true) (Or.inl ⟨rfl, rfl⟩)
    dsimp only at this
    simp only [unlockUser, handlerOf, h, hid]
    rw [if_neg (by omega : ¬ (2:Nat) ≥ 5), if_pos trivial]
    exact this
  · have := unlock_core 3 3 16 pw d.o d.u id d.p (d.em.getD true) (Or.inr ⟨by omega, by omega, by omega⟩)
    dsimp only at this
    simp only [unlockUser, handlerOf, h, hid]
    rw [if_neg (by omega : ¬ (3:Nat) ≥ 5), if_neg (by omega : ¬ (3:Nat) = 2)]
    exact this
  · by_cases hv : d.v ≥ 4 ∧ d.cfm = some "V2"
    · have := unlock_core 4 3 16 pw d.o d.u id d.p (d.em.getD true) (Or.inr ⟨by omega, by omega, by omega⟩)
      dsimp only at this
      simp only [unlockUser, handlerOf, h, hid, hv, and_self, if_true]
      rw [if_neg (by omega : ¬ (4:Nat) ≥ 5), if_neg (by omega : ¬ (4:Nat) = 2)]
      exact this
    · have := unlock_core 4 4 16 pw d.o d.u id d.p (d.em.getD true) (Or.inr ⟨by omega, by omega, by omega⟩)
      dsimp only at this
      simp only [unlockUser, handlerOf, h, hid, hv, if_false]
      rw [if_neg (by omega : ¬ (4:Nat) ≥ 5), if_neg (by omega : ¬ (4:Nat) = 2)]
      exact this

/-! ## Algorithm 2.B -/

/-- The selector the code computes (sum of the 16 bytes mod 3) is the standard's (the 16 bytes
as a big-endian integer mod 3). -/
theorem C23_alg2b_selector (l : Bytes) : beNat l % 3 = (l.map UInt8.toNat).sum % 3 := beNat_mod3 l

/-- Algorithm 2.B terminates: whatever the inputs, the loop stops after at most 287 rounds
(the last byte of E is ≤ 255 = 287 − 32) and never before 64. -/
theorem C23_alg2b_terminates (pw u k : Bytes) (fuel : Nat) (hf : fuel ≥ 287) :
    (alg2bLoop pw u fuel 0 k).2 ≤ 287 ∧ 64 ≤ (alg2bLoop pw u fuel 0 k).2 :=
  alg2bLoop_rounds pw u fuel 0 k (by omega) (by omega)

/-- … therefore the `ALGORITHM_2B_MAX_ROUNDS = 2048` cut-off of the code is never reached and
`compute_hash_r6_algorithm_2b` equals Algorithm 2.B on every password of at most 127 bytes. -/
theorem C23_alg2b_code_is_spec (pw salt u : Bytes) (h : pw.length ≤ 127) :
    alg2bCode pw salt u = some (alg2b pw salt u) := by
  have : ¬ pw.length > 127 := by omega
  simp only [alg2bCode, this, if_false, alg2b]
  rw [alg2bLoop_fuel pw (u.take 48) 2048 288 0 _ (by omega) (by omega) (by omega)]

example : alg2bCode [] [1, 2, 3, 4, 5, 6, 7, 8] [] = some (alg2b [] [1, 2, 3, 4, 5, 6, 7, 8] []) :=
  C23_alg2b_code_is_spec _ _ _ (by simp)

/-! ## Permissions (ISO 32000-1 Table 22) -/

/-- Every combination of the eight flags reads back, each flag sits at its Table 22 position
(bit 3 print, 4 modify, 5 copy, 6 annotate, 9 fill forms, 10 accessibility, 11 assemble, 12
high-quality print), bits 1–2 are 0 and bits 7–8, 13–32 are 1. -/
theorem C23_permissions_layout (b0 b1 b2 b3 b4 b5 b6 b7 : Bool) :
    let fl := [b0, b1, b2, b3, b4, b5, b6, b7]
    let w := permFromFlags fl
    permFlags w = fl ∧
    (w.testBit 2 = b0 ∧ w.testBit 3 = b1 ∧ w.testBit 4 = b2 ∧ w.testBit 5 = b3 ∧
     w.testBit 8 = b4 ∧ w.testBit 9 = b5 ∧ w.testBit 10 = b6 ∧ w.testBit 11 = b7) ∧
    w % 4 = 0 ∧ w.testBit 6 = true ∧ w.testBit 7 = true ∧ w / 4096 = 0xFFFFF ∧ w < 2 ^ 32 := by
  revert b0 b1 b2 b3 b4 b5 b6 b7
  decide

/-- `from_bits (bits p) = p`: the word is stored verbatim, so reading the flags of any 32-bit
word and rebuilding from them reproduces the eight defined bits. -/
theorem C23_permissions_flags_of_word (w : Nat) (i : Nat) (hi : i ∈ permBitIdx) :
    (permFromFlags (permFlags w)).testBit i = w.testBit i := by
  simp only [permBitIdx, List.mem_cons, List.not_mem_nil, or_false] at hi
  have hw : ∀ j, j ∈ permBitIdx → (w.testBit j = true ∨ w.testBit j = false) := by
    intro j _; cases w.testBit j <;> simp
  simp only [permFlags, permBitIdx, List.map_cons, List.map_nil]
  have := C23_permissions_layout (w.testBit 2) (w.testBit 3) (w.testBit 4) (w.testBit 5)
    (w.testBit 8) (w.testBit 9) (w.testBit 10) (w.testBit 11)
  simp only at this
  obtain ⟨_, ⟨h2, h3, h4, h5, h8, h9, h10, h11⟩, _⟩ := this
  rcases hi with h | h | h | h | h | h | h | h <;> subst h <;> first | assumption | skip

example : permFromFlags [true, true, true, true, true, true, true, true] = permAll := by decide
example : permFromFlags [false, false, false, false, false, false, false, false] = permNew := by decide

/-! ## `validate_owner_password` (R2–R4)

### With the /U entry: Algorithm 7 exactly (C23-F2 repaired)

FULL (the function's contract and Algorithm 7), now a theorem: for every revision, key length,
owner / user password, /P and /ID

  validateOwnerPassword rev n opw (alg3 rev n opw upw) p (some id) (some (computeU …)) = true

and, more generally, the verdict IS Algorithm 7's on every /O of at least 32 bytes and every /U
(`C23_owner_validation_is_alg7`).

### Without the /U entry (and, before the repair, always): the plausibility check

`validateOwnerPasswordLegacy` accepts exactly when the padded user password survives "cut at the
first `(`, decode lossily, pad again" (`C23_legacy_owner_validation_iff`); it rejects the
authentic owner password e.g. when the user password is empty (`_witness`): the recovered bytes
are then the 32 padding bytes themselves, which start with `(` = 0x28 and are not UTF-8. These
statements are the regression the check must keep catching.
-/

theorem rc4Down20_eq (k d : Bytes) : rc4Down20 k d = rc4 k (rc4Unchain k d) := by
  unfold rc4Down20 rc4Unchain
  have hx : xorKey k 0 = k := by
    unfold xorKey
    conv => rhs; rw [← List.map_id k]
    apply List.map_congr_left
    intro a _
    show a ^^^ UInt8.ofNat 0 = a
    simp
  rw [show (20 : Nat) = 19 + 1 from rfl, List.range_succ_eq_map, List.foldr_cons, List.foldr_map, hx]

theorem alg3_injective (rev n : Nat) (opw a b : Bytes) (h : alg3 rev n opw a = alg3 rev n opw b) :
    padPassword a = padPassword b := by
  have := congrArg (alg7recover rev n opw) h
  rwa [alg7recover_alg3, alg7recover_alg3] at this

/-- the bytes the legacy validator feeds back into Algorithm 3 -/
def legacyRecovered (upw : Bytes) : Bytes :=
  let dec := padPassword upw
  utf8Lossy (if pwPadding.isPrefixOf dec then dec else dec.takeWhile (· ≠ 0x28))

theorem C23_legacy_owner_validation_iff (rev n : Nat) (opw upw : Bytes) :
    validateOwnerPasswordLegacy rev n opw (alg3 rev n opw upw) = true ↔
      padPassword (legacyRecovered upw) = padPassword upw := by
  have hl := alg3_length rev n opw upw
  have hdec : (if rev ≥ 3 then rc4Down20 (ownerRc4Key rev n opw) ((alg3 rev n opw upw).take 32)
      else rc4 (ownerRc4Key rev n opw) ((alg3 rev n opw upw).take 32)) = padPassword upw := by
    have := alg7recover_alg3 rev n opw upw
    unfold alg7recover at this
    simp only [ownerRc4Key, rc4Down20_eq]
    exact this
  unfold validateOwnerPasswordLegacy
  simp only [hdec, decide_eq_true_eq, computeOwnerHash]
  rw [List.take_of_length_le (by rw [alg3_length]; omega), List.take_of_length_le (by omega)]
  constructor
  · intro h; exact alg3_injective rev n opw _ _ h
  · intro h
    unfold alg3
    unfold legacyRecovered at h
    simp only [h]

/-- partial: a user password of printable ASCII without `(`, shorter than 32 bytes … -/
theorem C23_legacy_owner_validation_partial (rev n : Nat) (opw upw : Bytes)
    (h : padPassword (legacyRecovered upw) = padPassword upw) :
    validateOwnerPasswordLegacy rev n opw (alg3 rev n opw upw) = true :=
  (C23_legacy_owner_validation_iff rev n opw upw).2 h

example : padPassword (legacyRecovered [0x75, 0x73, 0x65, 0x72]) = padPassword [0x75, 0x73, 0x65, 0x72] := by decide

/-- witness: with an EMPTY user password the authentic owner password is rejected — for every
revision, key length and owner password. -/
theorem C23_witness_legacy_owner_rejects_empty_user (rev n : Nat) (opw : Bytes) :
    ¬ (validateOwnerPasswordLegacy rev n opw (alg3 rev n opw []) = true) := by
  rw [C23_legacy_owner_validation_iff]
  decide

/-- witness: a user password containing `(` is cut there -/
theorem C23_witness_legacy_owner_rejects_paren (rev n : Nat) (opw : Bytes) :
    ¬ (validateOwnerPasswordLegacy rev n opw (alg3 rev n opw [0x61, 0x28, 0x62]) = true) := by
  rw [C23_legacy_owner_validation_iff]
  decide

theorem alg7recover_length (rev n : Nat) (opw o : Bytes) (ho : 32 ≤ o.length) :
    (alg7recover rev n opw o).length = 32 := by
  have h32 : (o.take 32).length = 32 := by simp; omega
  have hun : ∀ k d, (rc4Unchain k d).length = d.length := by
    intro k d
    unfold rc4Unchain
    generalize List.range 19 = l
    induction l with
    | nil => rfl
    | cons i rest ih => simp only [List.foldr_cons]; rw [rc4_length, ih]
  unfold alg7recover
  simp only
  split
  · rw [rc4_length, hun, h32]
  · rw [rc4_length, h32]

theorem keyFromPadded_of_padded (rev n : Nat) (padded o id : Bytes) (p : Nat) (hl : padded.length = 32) :
    computeKeyFromPadded rev n padded o p (some id) true = alg2 rev n padded o p id true := by
  have hp : padPassword padded = padded := by
    unfold padPassword; exact List.take_left' hl
  unfold computeKeyFromPadded alg2
  simp [hp]

/-- **C23-F2 repaired.** With the /U entry, `validate_owner_password` (R2–R4) IS Algorithm 7:
for every revision ≥ 2, key length, owner password, /O of at least 32 bytes, /U, /P and /ID
it accepts exactly when Algorithm 7 authenticates. -/
theorem C23_owner_validation_is_alg7 (rev n : Nat) (opw o u id : Bytes) (p : Nat) (hr : 2 ≤ rev)
    (ho : 32 ≤ o.length) :
    validateOwnerPassword rev n opw o p (some id) (some u) = (alg7 rev n opw o u p id true).isSome := by
  have hdec : (if rev ≥ 3 then rc4Down20 (ownerRc4Key rev n opw) (o.take 32)
      else rc4 (ownerRc4Key rev n opw) (o.take 32)) = alg7recover rev n opw o := by
    unfold alg7recover
    simp only [ownerRc4Key, rc4Down20_eq]
  have hl := alg7recover_length rev n opw o ho
  have hk := keyFromPadded_of_padded rev n _ o id p hl
  have hpad : padPassword (alg7recover rev n opw o) = alg7recover rev n opw o := by
    unfold padPassword; exact List.take_left' hl
  simp only [validateOwnerPassword, hdec, computeUserHashFromPadded, hk, alg7, alg6]
  generalize alg2 rev n (alg7recover rev n opw o) o p id true = key
  by_cases h2 : rev = 2
  · subst h2
    have hl4 : (rc4 key pwPadding).length = 32 := by simp [rc4_length, pwPadding]
    simp only [show ¬ (2 ≥ 3) by omega, if_true, if_false, alg4, hl4, Option.getD_some]
    rw [List.take_of_length_le (Nat.le_of_eq hl4)]
    by_cases hu : u.length ≥ 32 <;> by_cases he : rc4 key pwPadding = u.take 32 <;> simp [hu, he]
  · have h3 : rev ≥ 3 := by omega
    have hc := alg5core_length key id
    simp only [h2, h3, if_false, if_true, Option.getD_some]
    have e : rc4Chain key (rc4 key (md5 (pwPadding ++ id))) = alg5core key id := rfl
    rw [e, List.take_left' hc]
    simp only [List.length_append, hc, List.length_replicate]
    by_cases hu : u.length ≥ 16 <;> by_cases he : alg5core key id = u.take 16 <;> simp [hu, he]

example : validateOwnerPassword 3 16 [0x6F] (alg3 3 16 [0x6F] []) 0xFFFFFFFC (some [1, 2])
    (some (computeU 3 16 [] (alg3 3 16 [0x6F] []) 0xFFFFFFFC [1, 2] true)) =
    (alg7 3 16 [0x6F] (alg3 3 16 [0x6F] []) (computeU 3 16 [] (alg3 3 16 [0x6F] []) 0xFFFFFFFC [1, 2] true)
      0xFFFFFFFC [1, 2] true).isSome :=
  C23_owner_validation_is_alg7 3 16 _ _ _ _ _ (by omega) (by rw [alg3_length]; omega)

/-- FULL statement of the former finding: the authentic owner password is accepted — for every
revision ≥ 2, key length, owner password, user password (empty, with `(`, of any length and
encoding), /P and /ID. -/
theorem C23_owner_validation_accepts_authentic (rev n : Nat) (hr : 2 ≤ rev) (opw upw id : Bytes) (p : Nat) :
    validateOwnerPassword rev n opw (alg3 rev n opw upw) p (some id)
      (some (computeU rev n upw (alg3 rev n opw upw) p id true)) = true := by
  rw [C23_owner_validation_is_alg7 rev n opw _ _ id p hr (by rw [alg3_length]; omega), C23_alg7_accepts]
  rfl

/-- the three shapes the unrepaired function refused -/
example : validateOwnerPassword 2 5 [0x6F] (alg3 2 5 [0x6F] []) 0 (some [])
    (some (computeU 2 5 [] (alg3 2 5 [0x6F] []) 0 [] true)) = true :=
  C23_owner_validation_accepts_authentic 2 5 (by omega) _ _ _ _
example : validateOwnerPassword 4 16 [0x6F] (alg3 4 16 [0x6F] [0x61, 0x28, 0x62]) 7 (some [9])
    (some (computeU 4 16 [0x61, 0x28, 0x62] (alg3 4 16 [0x6F] [0x61, 0x28, 0x62]) 7 [9] true)) = true :=
  C23_owner_validation_accepts_authentic 4 16 (by omega) _ _ _ _

/-! ### C23-F1 — passwords reach Algorithms 2/3 as UTF-8, the standard says PDFDocEncoding

Algorithm 2 (a) / 3 (a) operate on the PDFDocEncoding of the password. The library passes
`str::as_bytes()`. For ASCII the two coincide; for "é" the padded strings — the MD5 input —
already differ (C3 A9 … vs E9 …). -/
theorem C23_witness_password_bytes : padPassword [0xC3, 0xA9] ≠ padPassword [0xE9] := by decide

end OxiVerif.C23
