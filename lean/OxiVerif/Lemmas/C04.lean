import OxiVerif.Model.C04
/-!
Helper lemmas for C04: what the per-section table, the merged table and the recovery table hold
for one object number, in closed form.
-/
namespace OxiVerif.C04

/-- `XRefEntry` stored for an entry (a type-2 entry leaves the dummy `{0,0,in_use}`) -/
def toBasic : Ent → Basic
  | .free next gen => ⟨next, gen, false⟩
  | .inuse off gen => ⟨off, gen, true⟩
  | .comp _ _ => ⟨0, 0, true⟩

theorem insertEnt_entries (t : Table) (k n : Nat) (e : Ent) :
    (insertEnt t k e).entries n = if n = k then some (toBasic e) else t.entries n := by
  cases e <;> simp [insertEnt, Map.insert, toBasic]

theorem insertEnt_ext (t : Table) (k n : Nat) (e : Ent) :
    (insertEnt t k e).ext n =
      if n = k then
        (match e with
         | .comp a b => some (a, b)
         | _ => t.ext n)
      else t.ext n := by
  cases e <;> simp [insertEnt, Map.insert]

theorem foldl_insertEnt_entries (s : Sect) (t : Table) (n : Nat) :
    (s.foldl (fun t p => insertEnt t p.1 p.2) t).entries n =
      match lastOf s n with
      | some e => some (toBasic e)
      | none => t.entries n := by
  induction s generalizing t with
  | nil => simp [lastOf]
  | cons p r ih =>
    obtain ⟨k, e⟩ := p
    simp only [List.foldl_cons, ih, lastOf]
    cases h : lastOf r n with
    | some x => simp
    | none =>
      simp only [insertEnt_entries]
      by_cases hk : k = n
      · simp [hk]
      · have : ¬ n = k := fun h => hk h.symm
        simp [hk, this]

theorem foldl_insertEnt_ext (s : Sect) (t : Table) (n : Nat) :
    (s.foldl (fun t p => insertEnt t p.1 p.2) t).ext n =
      match lastComp s n with
      | some c => some c
      | none => t.ext n := by
  induction s generalizing t with
  | nil => simp [lastComp]
  | cons p r ih =>
    obtain ⟨k, e⟩ := p
    simp only [List.foldl_cons, ih, lastComp]
    cases h : lastComp r n with
    | some x => simp
    | none =>
      simp only [insertEnt_ext]
      by_cases hk : k = n
      · subst hk
        cases e <;> simp
      · have : ¬ n = k := fun h => hk h.symm
        simp [hk, this]

theorem secTable_entries (s : Sect) (n : Nat) :
    (secTable s).entries n = (lastOf s n).map toBasic := by
  unfold secTable
  rw [foldl_insertEnt_entries]
  cases lastOf s n <;> simp [Table.empty, Map.empty]

theorem secTable_ext (s : Sect) (n : Nat) : (secTable s).ext n = lastComp s n := by
  unfold secTable
  rw [foldl_insertEnt_ext]
  cases lastComp s n <;> simp [Table.empty, Map.empty]

/-- a section whose last entry for `n` is compressed has that entry as its last compressed one -/
theorem lastComp_of_lastOf_comp (s : Sect) (n a b : Nat) (h : lastOf s n = some (.comp a b)) :
    lastComp s n = some (a, b) := by
  induction s with
  | nil => simp [lastOf] at h
  | cons p r ih =>
    obtain ⟨k, e⟩ := p
    simp only [lastOf] at h
    simp only [lastComp]
    cases hr : lastOf r n with
    | some x =>
      rw [hr] at h
      simp only [Option.some.injEq] at h
      subst h
      simp [ih hr]
    | none =>
      rw [hr] at h
      have hc : lastComp r n = none := by
        clear ih h
        induction r with
        | nil => simp [lastComp]
        | cons q r' ih' =>
          obtain ⟨k', e'⟩ := q
          simp only [lastOf] at hr
          cases hr' : lastOf r' n with
          | some y => simp [hr'] at hr
          | none =>
            simp only [hr'] at hr
            by_cases hk' : k' = n
            · simp [hk'] at hr
            · simp [lastComp, ih' hr', hk']
      by_cases hk : k = n
      · simp only [hk, if_true, Option.some.injEq] at h
        subst h
        simp [hc, hk]
      · simp [hk] at h

theorem lastComp_none_of_lastOf_none (s : Sect) (n : Nat) (h : lastOf s n = none) :
    lastComp s n = none := by
  induction s with
  | nil => simp [lastComp]
  | cons p r ih =>
    obtain ⟨k, e⟩ := p
    simp only [lastOf] at h
    cases hr : lastOf r n with
    | some y => simp [hr] at h
    | none =>
      simp only [hr] at h
      by_cases hk : k = n
      · simp [hk] at h
      · simp [lastComp, ih hr, hk]

theorem foldl_merge_entries (chain : List Sect) (m : Table) (n : Nat) :
    (chain.foldl (fun m s => mergeInto m (secTable s)) m).entries n =
      match m.entries n with
      | some b => some b
      | none => (newest chain n).map toBasic := by
  induction chain generalizing m with
  | nil => cases h : m.entries n <;> simp [newest, h]
  | cons s r ih =>
    rw [List.foldl_cons, ih]
    simp only [mergeInto, Map.orMerge, newest, secTable_entries]
    cases h : m.entries n with
    | some b => simp
    | none =>
      cases h2 : lastOf s n <;> simp

theorem foldl_merge_ext (chain : List Sect) (m : Table) (n : Nat) :
    (chain.foldl (fun m s => mergeInto m (secTable s)) m).ext n =
      match m.ext n with
      | some c => some c
      | none => if (m.entries n).isSome then none else extOf chain n := by
  induction chain generalizing m with
  | nil => cases h : m.ext n <;> simp [extOf, h]
  | cons s r ih =>
    rw [List.foldl_cons, ih]
    simp only [mergeInto, Map.orMerge, extOf, secTable_ext, secTable_entries]
    cases h : m.ext n with
    | some b => cases h1 : m.entries n <;> simp
    | none =>
      cases h1 : m.entries n with
      | some b => simp
      | none =>
        cases h2 : lastOf s n with
        | none => simp [lastComp_none_of_lastOf_none s n h2]
        | some e => cases h3 : lastComp s n <;> simp

/-- the merge before the repair: both maps independently -/
theorem foldl_mergeOld_entries (chain : List Sect) (m : Table) (n : Nat) :
    (chain.foldl (fun m s => mergeIntoOld m (secTable s)) m).entries n =
      match m.entries n with
      | some b => some b
      | none => (newest chain n).map toBasic := by
  induction chain generalizing m with
  | nil => cases h : m.entries n <;> simp [newest, h]
  | cons s r ih =>
    rw [List.foldl_cons, ih]
    simp only [mergeIntoOld, Map.orMerge, newest, secTable_entries]
    cases h : m.entries n with
    | some b => simp
    | none =>
      cases h2 : lastOf s n <;> simp

theorem foldl_mergeOld_ext (chain : List Sect) (m : Table) (n : Nat) :
    (chain.foldl (fun m s => mergeIntoOld m (secTable s)) m).ext n =
      match m.ext n with
      | some c => some c
      | none => firstComp chain n := by
  induction chain generalizing m with
  | nil => cases h : m.ext n <;> simp [firstComp, h]
  | cons s r ih =>
    rw [List.foldl_cons, ih]
    simp only [mergeIntoOld, Map.orMerge, firstComp, secTable_ext]
    cases h : m.ext n with
    | some b => simp
    | none =>
      cases h2 : lastComp s n <;> simp

theorem mergeOld_entries (chain : List Sect) (n : Nat) :
    (mergeOld chain).entries n = (newest chain n).map toBasic := by
  unfold mergeOld; rw [foldl_mergeOld_entries]; simp [Table.empty, Map.empty]

theorem mergeOld_ext (chain : List Sect) (n : Nat) : (mergeOld chain).ext n = firstComp chain n := by
  unfold mergeOld; rw [foldl_mergeOld_ext]; simp [Table.empty, Map.empty]

theorem merge_entries (chain : List Sect) (n : Nat) :
    (merge chain).entries n = (newest chain n).map toBasic := by
  unfold merge; rw [foldl_merge_entries]; simp [Table.empty, Map.empty]

theorem merge_ext (chain : List Sect) (n : Nat) : (merge chain).ext n = extOf chain n := by
  unfold merge; rw [foldl_merge_ext]; simp [Table.empty, Map.empty]

/-- closed form of the first loop of `add_headers_latest_wins` -/
theorem foldl_insert_latest (hs : List Header) (m : Map Header) (k : Nat) :
    (hs.foldl (fun m h => m.insert h.num h) m) k =
      match (hs.filter (fun h => h.num = k)).getLast? with
      | some h => some h
      | none => m k := by
  induction hs generalizing m with
  | nil => simp
  | cons h r ih =>
    simp only [List.foldl_cons, ih, List.filter_cons]
    by_cases hk : h.num = k
    · simp only [hk, decide_true, if_true]
      cases hr : (r.filter (fun h => h.num = k)).getLast? with
      | some x =>
        have : (h :: r.filter (fun h => decide (h.num = k))).getLast? = some x := by
          rw [List.getLast?_cons]; simp [hr]
        simp [this]
      | none =>
        have hnil : r.filter (fun h => decide (h.num = k)) = [] := by
          simpa using hr
        simp [hnil, Map.insert]
    · have hk' : ¬ k = h.num := fun e => hk e.symm
      simp only [hk, decide_false, Bool.false_eq_true, if_false, Map.insert, hk']

theorem latestOf_eq (hs : List Header) (k : Nat) :
    latestOf hs k = (hs.filter (fun h => h.num = k)).getLast? := by
  unfold latestOf
  rw [foldl_insert_latest]
  cases (hs.filter (fun h => h.num = k)).getLast? <;> simp [Map.empty]

/-- a number listed at most once: the section's last compressed entry for it is its (only) entry
    when that one is compressed, and there is none otherwise -/
theorem lastComp_of_listedOnce (s : Sect) (n : Nat) (h : ListedOnce s n) :
    lastComp s n =
      match lastOf s n with
      | some (.comp a b) => some (a, b)
      | _ => none := by
  induction s with
  | nil => simp [lastComp, lastOf]
  | cons p r ih =>
    obtain ⟨k, e⟩ := p
    unfold ListedOnce at h ih
    by_cases hk : k = n
    · subst hk
      simp only [List.filter_cons, decide_true, if_true, List.length_cons] at h
      have hnil : r.filter (fun p => decide (p.1 = k)) = [] := by
        apply List.eq_nil_of_length_eq_zero; omega
      have hlo : lastOf r k = none := by
        clear ih h
        induction r with
        | nil => rfl
        | cons q r' ih' =>
          obtain ⟨k', e'⟩ := q
          simp only [List.filter_cons] at hnil
          by_cases hk' : k' = k
          · simp [hk'] at hnil
          · simp only [hk', decide_false, Bool.false_eq_true, if_false] at hnil
            simp [lastOf, ih' hnil, hk']
      simp only [lastComp, lastOf, hlo, lastComp_none_of_lastOf_none r k hlo, if_true]
      cases e <;> rfl
    · have hr : (r.filter (fun p => decide (p.1 = n))).length ≤ 1 := by
        simpa [List.filter_cons, hk] using h
      have := ih hr
      simp only [lastComp, lastOf, hk, if_false]
      rw [this]
      cases lastOf r n with
      | none => rfl
      | some x => cases x <;> rfl

/-- over valid sections the kept compressed entry is the newest mention, when that is compressed -/
theorem extOf_of_listedOnce (chain : List Sect) (n : Nat) (h : ∀ s ∈ chain, ListedOnce s n) :
    extOf chain n =
      match newest chain n with
      | some (.comp a b) => some (a, b)
      | _ => none := by
  induction chain with
  | nil => rfl
  | cons s r ih =>
    have hs := h s (List.mem_cons_self ..)
    have hr := ih (fun t ht => h t (List.mem_cons_of_mem _ ht))
    simp only [extOf, newest]
    cases hl : lastOf s n with
    | none => simpa using hr
    | some e =>
      have := lastComp_of_listedOnce s n hs
      rw [hl] at this
      simpa using this

/-- sections whose numbers are pairwise distinct list every number at most once -/
theorem listedOnce_of_nodup (s : Sect) (h : (s.map Prod.fst).Nodup) (m : Nat) : ListedOnce s m := by
  unfold ListedOnce
  induction s with
  | nil => simp
  | cons p r ih =>
    obtain ⟨k, e⟩ := p
    simp only [List.map_cons, List.nodup_cons] at h
    have hr := ih h.2
    by_cases hk : k = m
    · subst hk
      have hnil : r.filter (fun p => decide (p.1 = k)) = [] := by
        rw [List.filter_eq_nil_iff]
        intro q hq hqk
        apply h.1
        simp only [decide_eq_true_eq] at hqk
        rw [← hqk]
        exact List.mem_map_of_mem hq
      simp [hnil]
    · simpa [List.filter_cons, hk] using hr

/-! ### hybrid-reference sections -/

theorem lastOf_append (a b : Sect) (n : Nat) :
    lastOf (a ++ b) n =
      match lastOf b n with
      | some x => some x
      | none => lastOf a n := by
  induction a with
  | nil => cases h : lastOf b n <;> simp [lastOf, h]
  | cons p r ih =>
    obtain ⟨k, e⟩ := p
    simp only [List.cons_append, lastOf, ih]
    cases lastOf b n with
    | some x => rfl
    | none => rfl

/-- filtering a section by a predicate on the NUMBER keeps or drops all entries of a number -/
theorem lastOf_filter_key (s : Sect) (P : Nat → Bool) (n : Nat) :
    lastOf (s.filter (fun p => P p.1)) n = if P n then lastOf s n else none := by
  induction s with
  | nil => simp [lastOf]
  | cons p r ih =>
    obtain ⟨k, e⟩ := p
    by_cases hP : P k = true
    · simp only [List.filter_cons, hP, if_true, lastOf, ih]
      by_cases hn : P n = true
      · simp [hn]
      · have hkn : k ≠ n := fun h => hn (h ▸ hP)
        simp [hn, hkn]
    · have hP' : P k = false := by simpa using hP
      simp only [List.filter_cons, hP', Bool.false_eq_true, if_false, ih, lastOf]
      by_cases hn : P n = true
      · have hkn : k ≠ n := fun h => by rw [h] at hP'; rw [hP'] at hn; exact absurd hn (by simp)
        cases hr : lastOf r n <;> simp [hn, hkn]
      · simp [hn]

end OxiVerif.C04
