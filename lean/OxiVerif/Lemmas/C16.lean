import OxiVerif.Model.C16
/-!
Helper lemmas for C16: selections, index ranges, the sorted key list.
-/
namespace OxiVerif.C16

/-! ### `pick` -/

theorem pick_nil (ps : List Src) : pick ps [] = [] := rfl

theorem pick_cons_valid (ps : List Src) (i : Nat) (r : List Nat) (h : i < ps.length) :
    pick ps (i :: r) = copyPage ps[i] :: pick ps r := by
  simp [pick, List.filterMap_cons, List.getElem?_eq_getElem h]

theorem pick_append (ps : List Src) (a b : List Nat) : pick ps (a ++ b) = pick ps a ++ pick ps b := by
  simp [pick, List.filterMap_append]

/-- a valid selection yields exactly the selected pages, copied, in the requested order -/
theorem pick_eq_map (ps : List Src) (idx : List Nat) (h : ∀ i ∈ idx, i < ps.length) :
    pick ps idx = idx.map fun i => copyPage (ps.getD i default) := by
  induction idx with
  | nil => rfl
  | cons i r ih =>
    have hi : i < ps.length := h i List.mem_cons_self
    rw [pick_cons_valid ps i r hi, ih (fun j hj => h j (List.mem_cons_of_mem _ hj))]
    simp [List.getD_eq_getElem?_getD, List.getElem?_eq_getElem hi]

theorem pick_length (ps : List Src) (idx : List Nat) (h : ∀ i ∈ idx, i < ps.length) :
    (pick ps idx).length = idx.length := by
  rw [pick_eq_map ps idx h]; simp

theorem pick_range_from (ps : List Src) :
    ∀ (k : Nat) (pre : List Src), pick (pre ++ ps) ((List.range k).map (· + pre.length)) = ((pre ++ ps).drop pre.length |>.take k).map copyPage := by
  intro k
  induction k with
  | zero => intro pre; simp [pick]
  | succ k ih =>
    intro pre
    rw [List.range_succ, List.map_append, pick_append, ih pre]
    simp only [List.map_cons, List.map_nil, List.drop_left]
    by_cases hk : k < ps.length
    · have hlt : k + pre.length < (pre ++ ps).length := by simp; omega
      rw [pick_cons_valid _ _ _ hlt, pick_nil]
      have e : (pre ++ ps)[k + pre.length] = ps[k] := by
        rw [List.getElem_append_right (by omega)]
        simp
      rw [e, List.take_succ, List.map_append]
      simp [List.getElem?_eq_getElem hk]
    · have hge : ps.length ≤ k := by omega
      have : (pre ++ ps)[k + pre.length]? = none := by
        apply List.getElem?_eq_none; simp; omega
      simp [pick, this, List.take_of_length_le hge, List.take_of_length_le (by omega : ps.length ≤ k + 1)]

/-- selecting `0..n` copies the whole document -/
theorem pick_range (ps : List Src) : pick ps (List.range ps.length) = ps.map copyPage := by
  have := pick_range_from ps ps.length []
  simpa using this

/-! ### `rangeIncl` -/

theorem rangeIncl_eq (a b : Nat) : rangeIncl a b = (List.range (b + 1 - a)).map (· + a) := rfl

theorem mem_rangeIncl (a b i : Nat) : i ∈ rangeIncl a b ↔ a ≤ i ∧ i ≤ b := by
  simp [rangeIncl]
  constructor
  · rintro ⟨k, hk, rfl⟩; omega
  · intro h; exact ⟨i - a, by omega, by omega⟩

theorem rangeIncl_append (a b c : Nat) (h1 : a ≤ b + 1) (h2 : b ≤ c) :
    rangeIncl a b ++ rangeIncl (b + 1) c = rangeIncl a c := by
  simp only [rangeIncl]
  have e : c + 1 - a = (b + 1 - a) + (c + 1 - (b + 1)) := by omega
  rw [e, List.range_add, List.map_append]
  congr 1
  simp only [List.map_map]
  apply List.map_congr_left
  intro x _
  simp; omega

theorem rangeIncl_zero (n : Nat) : rangeIncl 0 n = List.range (n + 1) := by
  simp [rangeIncl]

/-! ### sorted keys -/

theorem mem_insertSorted (s x : String) (l : List String) :
    x ∈ insertSorted s l ↔ x = s ∨ x ∈ l := by
  induction l with
  | nil => simp [insertSorted]
  | cons a r ih =>
    simp only [insertSorted]
    split
    · simp
    · split
      · rename_i h; subst h; simp
      · simp [ih]; constructor
        · rintro (h | h | h) <;> simp [h]
        · rintro (h | h | h) <;> simp [h]

theorem mem_sortKeys (x : String) (l : List String) : x ∈ sortKeys l ↔ x ∈ l := by
  induction l with
  | nil => simp [sortKeys]
  | cons a r ih =>
    simp only [sortKeys, List.foldr_cons] at ih ⊢
    rw [mem_insertSorted, ih]; simp

/-! ### `mapM'` -/

theorem mapM'_ok_map {α β : Type} (f : α → Outcome β) (g : α → β) (l : List α)
    (h : ∀ a ∈ l, f a = .ok (g a)) : mapM' f l = .ok (l.map g) := by
  induction l with
  | nil => rfl
  | cons a r ih =>
    simp [mapM', h a List.mem_cons_self, ih (fun b hb => h b (List.mem_cons_of_mem _ hb))]

theorem firstGe_none (l : List Nat) (n : Nat) : firstGe l n = none ↔ ∀ i ∈ l, i < n := by
  simp [firstGe, List.find?_eq_none]

theorem firstGe_none_of (l : List Nat) (n : Nat) (h : ∀ i ∈ l, i < n) : firstGe l n = none :=
  (firstGe_none l n).mpr h

end OxiVerif.C16
