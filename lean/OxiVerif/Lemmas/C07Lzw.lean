import OxiVerif.Lemmas.C07LzwBits
/-!
C07 helper lemmas, LZW layer 2 (codes): the decoder `decode_lzw_with_limit` (Model/C08.lean `lzwGo`)
follows the reference encoder (Spec/C07Codecs.lean `lzwCodes`) code by code — dictionary lag by one
entry incl. the "code = next entry" (KwKwK) case, the synchronised width schedule for both EarlyChange
values, Clear, the full table, EOD.
-/
namespace OxiVerif.Flt
open OxiVerif.Codec

/-! ### the tail-recursive encoder is the forward recursion -/

theorem lzwGoAcc_eq (early : Bool) (clearAt : Nat) : ∀ (data : List Nat) (st : EncSt) (acc : List (Nat × Nat)),
    lzwGoAcc early clearAt st acc data = acc.reverse ++ lzwGoEnc early clearAt st data := by
  intro data
  induction data with
  | nil =>
    intro st acc
    simp only [lzwGoAcc, lzwGoEnc]
    cases st.cur <;> simp
  | cons c rest ih =>
    intro st acc
    simp only [lzwGoAcc, lzwGoEnc]
    cases st.cur with
    | none => simp only [ih]
    | some cur =>
      simp only
      cases trieFind st.trie cur c with
      | some code => simp only [ih]
      | none =>
        simp only
        by_cases hc : clearAt ≠ 0 ∧ (if st.nx < 4096 then (trieAdd st.trie cur c st.nx, st.nx + 1) else (st.trie, st.nx)).2 ≥ clearAt
        · rw [if_pos hc, if_pos hc, ih]; simp
        · rw [if_neg hc, if_neg hc, ih]; simp

theorem lzwCodes_eq_spec (early : Bool) (clearAt : Nat) (data : List Nat) :
    lzwCodes early clearAt data = lzwCodesSpec early clearAt data := by
  simp [lzwCodes, lzwCodesSpec, lzwGoAcc_eq]

/-! ### arrays -/

theorem getD_push_lt (a : Array (List Nat)) (x : List Nat) (i : Nat) (h : i < a.size) :
    (a.push x).getD i [] = a.getD i [] := by
  have h2 : i < (a.push x).size := by simp; omega
  simp only [Array.getD, h, h2, dif_pos]
  exact Array.getElem_push_lt h

theorem getD_push_eq (a : Array (List Nat)) (x : List Nat) : (a.push x).getD a.size [] = x := by
  simp [Array.getD]

theorem getD_extract (a : Array (List Nat)) (i : Nat) (h : i < 258) (h2 : 258 ≤ a.size) :
    (a.extract 0 258).getD i [] = a.getD i [] := by
  have h3 : i < (a.extract 0 258).size := by simp; omega
  have h4 : i < a.size := by omega
  simp only [Array.getD, h3, h4, dif_pos]
  simp

theorem extract_push (a : Array (List Nat)) (x : List Nat) (h : 258 ≤ a.size) :
    (a.push x).extract 0 258 = a.extract 0 258 := by
  apply Array.ext
  · simp; omega
  · intro i h1 h2
    simp at h1 h2 ⊢
    rw [Array.getElem_push_lt]

theorem initDict_size : lzwInitDict.size = 258 := by simp [lzwInitDict]

theorem initDict_byte (i : Nat) (h : i < 256) : lzwInitDict.getD i [] = [i] := by
  simp only [Array.getD_eq_getD_getElem?, lzwInitDict]
  simp only [List.append_toArray, List.getElem?_toArray]
  rw [List.getElem?_append_left (by simp; omega)]
  simp [h]

theorem initDict_extract : lzwInitDict.extract 0 258 = lzwInitDict := by
  apply Array.ext
  · simp [initDict_size]
  · intro i h1 h2
    simp

/-! ### the ghost dictionary -/

structure DictOK (D : Array (List Nat)) : Prop where
  size_ge : 258 ≤ D.size
  size_le : D.size ≤ 4096
  pre : D.extract 0 258 = lzwInitDict
  nonempty : ∀ i, 258 ≤ i → i < D.size → D.getD i [] ≠ []

/-- a data code: a byte or a table entry -/
def VC (D : Array (List Nat)) (c : Nat) : Prop := c < 256 ∨ (258 ≤ c ∧ c < D.size)

theorem DictOK.byte {D} (h : DictOK D) (i : Nat) (hi : i < 256) : D.getD i [] = [i] := by
  rw [← getD_extract D i (by omega) h.size_ge, h.pre, initDict_byte i hi]

theorem DictOK.ne_nil {D} (h : DictOK D) (c : Nat) (hc : VC D c) : D.getD c [] ≠ [] := by
  rcases hc with hc | ⟨h1, h2⟩
  · rw [h.byte c hc]; simp
  · exact h.nonempty c h1 h2

theorem DictOK.init : DictOK lzwInitDict :=
  ⟨by rw [initDict_size]; omega, by rw [initDict_size]; omega, initDict_extract,
   fun i h1 h2 => by rw [initDict_size] at h2; omega⟩

theorem DictOK.push {D} (h : DictOK D) (x : List Nat) (hx : x ≠ []) (hs : D.size < 4096) : DictOK (D.push x) := by
  refine ⟨by simp; have := h.size_ge; omega, by simp; omega, by rw [extract_push _ _ h.size_ge, h.pre], ?_⟩
  intro i h1 h2
  simp at h2
  by_cases hi : i < D.size
  · rw [getD_push_lt _ _ _ hi]; exact h.nonempty i h1 hi
  · have : i = D.size := by omega
    subst this
    rw [getD_push_eq]; exact hx

theorem VC.push {D c} (h : VC D c) (x : List Nat) : VC (D.push x) c := by
  rcases h with h | ⟨h1, h2⟩
  · exact Or.inl h
  · exact Or.inr ⟨h1, by simp; omega⟩

/-! ### the width schedule -/

/-- relation between the next free code and the code width that both sides maintain -/
def WInv (early : Bool) (nx w : Nat) : Prop :=
  9 ≤ w ∧ w ≤ 12 ∧ 258 ≤ nx ∧ nx ≤ 4096 ∧
  (w = 12 ∨ nx ≤ 2 ^ w - (if early then 1 else 0))

theorem WInv.init (early : Bool) : WInv early 258 9 := by
  refine ⟨by omega, by omega, by omega, by omega, Or.inr ?_⟩
  cases early <;> simp

theorem pow_cases (w : Nat) (h1 : 9 ≤ w) (h2 : w ≤ 12) :
    (w = 9 ∧ 2 ^ w = 512) ∨ (w = 10 ∧ 2 ^ w = 1024) ∨ (w = 11 ∧ 2 ^ w = 2048) ∨ (w = 12 ∧ 2 ^ w = 4096) := by
  have : w = 9 ∨ w = 10 ∨ w = 11 ∨ w = 12 := by omega
  rcases this with rfl | rfl | rfl | rfl <;> simp

theorem WInv.code_lt {early nx w} (h : WInv early nx w) : nx ≤ 2 ^ w := by
  obtain ⟨h1, h2, _, h4, h5⟩ := h
  rcases pow_cases w h1 h2 with ⟨rfl, hp⟩ | ⟨rfl, hp⟩ | ⟨rfl, hp⟩ | ⟨rfl, hp⟩ <;> rw [hp] at * <;>
    (rcases h5 with h5 | h5 <;> first | omega | (cases early <;> simp at h5 <;> omega))

theorem WInv.step {early nx w} (h : WInv early nx w) (hn : nx < 4096) :
    WInv early (nx + 1) (widthAfter early nx w) := by
  obtain ⟨h1, h2, h3, h4, h5⟩ := h
  unfold widthAfter
  by_cases h12 : w = 12
  · subst h12
    rw [if_neg (by omega)]
    exact ⟨by omega, by omega, by omega, by omega, Or.inl rfl⟩
  · have h5' : nx ≤ 2 ^ w - (if early then 1 else 0) := by
      rcases h5 with h5 | h5
      · exact absurd h5 h12
      · exact h5
    rcases pow_cases w h1 h2 with ⟨rfl, hp⟩ | ⟨rfl, hp⟩ | ⟨rfl, hp⟩ | ⟨rfl, hp⟩
    all_goals (try (exact absurd rfl h12))
    all_goals
      rw [hp] at h5' ⊢
      cases early <;> simp at h5' ⊢ <;> split <;>
        (refine ⟨by omega, by omega, by omega, by omega, ?_⟩) <;>
        (first | (left; omega) | (right; simp; omega) | (right; omega))

theorem WInv.full {early w} (h : WInv early 4096 w) : widthAfter early 4096 w = w ∧ w = 12 := by
  obtain ⟨h1, h2, h3, h4, h5⟩ := h
  unfold widthAfter
  rcases pow_cases w h1 h2 with ⟨rfl, hp⟩ | ⟨rfl, hp⟩ | ⟨rfl, hp⟩ | ⟨rfl, hp⟩ <;> rw [hp] at * <;>
    cases early <;> simp at h5 ⊢

/-- the decoder's "Increase code size if necessary" is the encoder's `widthAfter` on the table size after
the push -/
theorem lzwGrow_width (early : Bool) (dict : Array (List Nat)) (w prev : Nat) (s : List Nat)
    (h : dict.size < 4096) :
    lzwGrow early dict w prev s = (dict.push (dict.getD prev [] ++ [s.headD 0]), widthAfter early (dict.size + 1) w) := by
  unfold lzwGrow widthAfter
  rw [if_pos h]
  cases early <;> simp

theorem lzwGrow_full (early : Bool) (dict : Array (List Nat)) (w prev : Nat) (s : List Nat)
    (h : ¬ dict.size < 4096) : lzwGrow early dict w prev s = (dict, w) := by
  unfold lzwGrow
  rw [if_neg h]

/-! ### the encoder's trie -/

def TrieSound (t : Trie) (D : Array (List Nat)) : Prop :=
  ∀ code byte c', trieFind t code byte = some c' →
    code < D.size ∧ 258 ≤ c' ∧ c' < D.size ∧ D.getD c' [] = D.getD code [] ++ [byte]

theorem trieFind_empty (code byte : Nat) : trieFind trieEmpty code byte = none := by
  have : (Array.replicate 4096 ([] : List (Nat × Nat)))[code]?.getD [] = [] := by
    by_cases h : code < 4096 <;> simp [h]
  simp [trieFind, trieEmpty, Array.getD_eq_getD_getElem?, this]

theorem TrieSound.empty (D : Array (List Nat)) : TrieSound trieEmpty D := by
  intro code byte c' h
  rw [trieFind_empty] at h
  cases h

theorem trieFind_add (t : Trie) (cur c nx code byte : Nat) (hcur : cur < t.size) :
    trieFind (trieAdd t cur c nx) code byte =
      if code = cur then (if c = byte then some nx else trieFind t code byte)
      else trieFind t code byte := by
  unfold trieFind trieAdd
  by_cases hc : code = cur
  · subst hc
    have : (t.setIfInBounds code ((c, nx) :: t.getD code [])).getD code [] = (c, nx) :: t.getD code [] := by
      simp [Array.getD_eq_getD_getElem?, hcur]
    rw [this, if_pos rfl]
    simp only [List.find?_cons]
    by_cases hb : c = byte
    · simp [hb]
    · have : ((c, nx).1 == byte) = false := by simp [hb]
      simp [this, hb]
  · rw [if_neg hc]
    have : (t.setIfInBounds cur ((c, nx) :: t.getD cur [])).getD code [] = t.getD code [] := by
      simp [Array.getD_eq_getD_getElem?, Ne.symm hc]
    rw [this]

theorem TrieSound.add {t D} (h : TrieSound t D) (hD : DictOK D) (cur c : Nat) (hcur : cur < D.size)
    (ht : cur < t.size) :
    TrieSound (trieAdd t cur c D.size) (D.push (D.getD cur [] ++ [c])) := by
  intro code byte c' hf
  rw [trieFind_add _ _ _ _ _ _ ht] at hf
  have old : trieFind t code byte = some c' →
      code < (D.push (D.getD cur [] ++ [c])).size ∧ 258 ≤ c' ∧ c' < (D.push (D.getD cur [] ++ [c])).size ∧
      (D.push (D.getD cur [] ++ [c])).getD c' [] = (D.push (D.getD cur [] ++ [c])).getD code [] ++ [byte] := by
    intro hf
    obtain ⟨h0, h1, h2, h3⟩ := h code byte c' hf
    refine ⟨by simp; omega, h1, by simp; omega, ?_⟩
    rw [getD_push_lt _ _ _ h2, h3, getD_push_lt _ _ _ h0]
  split at hf
  · rename_i hc
    split at hf
    · rename_i hb
      cases hf
      subst hc
      subst hb
      refine ⟨by simp; omega, hD.size_ge, by simp, ?_⟩
      rw [getD_push_eq, getD_push_lt _ _ _ hcur]
    · exact old hf
  · exact old hf

theorem trieSize_empty : trieEmpty.size = 4096 := by simp [trieEmpty]

theorem trieSize_add (t : Trie) (a b c : Nat) : (trieAdd t a b c).size = t.size := by simp [trieAdd]

/-! ### one turn of the decoder loop -/

theorem lzwGo_eod (L : Nat) (early : Bool) (fuel n : Nat) (dst : LzwSt) (rd' : BitReader)
    (hr : readBits dst.rd dst.codeSize = some (257, rd')) : lzwGo L early (fuel + 1) n dst = .ok [] := by
  simp [lzwGo, hr]

theorem lzwGo_clear (L : Nat) (early : Bool) (fuel n : Nat) (dst : LzwSt) (rd' : BitReader)
    (hr : readBits dst.rd dst.codeSize = some (256, rd')) :
    lzwGo L early (fuel + 1) n dst =
      lzwGo L early fuel n { rd := rd', dict := dst.dict.extract 0 258, codeSize := 9, prev := none } := by
  simp [lzwGo, hr]

theorem lzwGo_first (L : Nat) (early : Bool) (fuel n : Nat) (dst : LzwSt) (rd' : BitReader) (code : Nat)
    (hp : dst.prev = none) (hr : readBits dst.rd dst.codeSize = some (code, rd'))
    (h1 : code ≠ 257) (h2 : code ≠ 256) (h3 : code < dst.dict.size) :
    lzwGo L early (fuel + 1) n dst =
      (lzwGo L early fuel (n + (dst.dict.getD code []).length)
        { rd := rd', dict := dst.dict, codeSize := dst.codeSize, prev := some code }).pre (dst.dict.getD code []) := by
  simp [lzwGo, hr, h1, h2, hp, h3]

theorem lzwGo_next (L : Nat) (early : Bool) (fuel n : Nat) (dst : LzwSt) (rd' : BitReader) (code pc : Nat)
    (hp : dst.prev = some pc) (hr : readBits dst.rd dst.codeSize = some (code, rd'))
    (h1 : code ≠ 257) (h2 : code ≠ 256) (h3 : code ≤ dst.dict.size)
    (h4 : n + (lzwString dst.dict pc code).length ≤ L) :
    lzwGo L early (fuel + 1) n dst =
      (lzwGo L early fuel (n + (lzwString dst.dict pc code).length)
        { rd := rd'
          dict := (lzwGrow early dst.dict dst.codeSize pc (lzwString dst.dict pc code)).1
          codeSize := (lzwGrow early dst.dict dst.codeSize pc (lzwString dst.dict pc code)).2
          prev := some code }).pre (lzwString dst.dict pc code) := by
  simp only [lzwGo, hr, h1, h2, hp, if_false]
  rw [if_pos h3, if_neg (by omega)]

/-! ### encoder invariant, decoder relation -/

structure EncOK (early : Bool) (st : EncSt) (D : Array (List Nat)) : Prop where
  size : D.size = st.nx
  dict : DictOK D
  trie : TrieSound st.trie D
  tsize : st.trie.size = 4096
  winv : WInv early st.nx st.w
  cur : ∀ c, st.cur = some c → VC D c

/-- the string matched so far -/
def curStr (st : EncSt) (D : Array (List Nat)) : List Nat :=
  match st.cur with
  | some c => D.getD c []
  | none => []

/-- decoder state vs. encoder state: same width; the decoder's table is the encoder's, or lags by
exactly the entry the encoder added at its last emission (whose last byte is the first byte of the
string being matched now), or both are full -/
def Rel (st : EncSt) (D : Array (List Nat)) (dst : LzwSt) : Prop :=
  dst.codeSize = st.w ∧ dst.rd.WF ∧
  match dst.prev with
  | none => dst.dict = D ∧ D.size = 258 ∧ st.w = 9
  | some pc => VC dst.dict pc ∧ 258 ≤ dst.dict.size ∧
      ((D = dst.dict.push (dst.dict.getD pc [] ++ [(curStr st D).headD 0]) ∧ st.cur ≠ none) ∨
       (D = dst.dict ∧ D.size = 4096))

def bitsOf (cs : List (Nat × Nat)) : List Bool := cs.flatMap fun (c, w) => codeBits w c

theorem headD_append_of_ne (x : List Nat) (y : Nat) (h : x ≠ []) : (x ++ [y]).headD 0 = x.headD 0 := by
  cases x with
  | nil => exact absurd rfl h
  | cons a t => rfl

theorem pow_ge_512 (w : Nat) (h : 9 ≤ w) : 512 ≤ 2 ^ w := by
  have : 2 ^ 9 ≤ 2 ^ w := Nat.pow_le_pow_right (by omega) h
  simpa using this

/-- **the decoder follows one emission**: when the encoder (state `st`, matched code `cur`) emits `cur` in
its current width, the decoder reads it, appends exactly the matched string, and arrives at the
encoder's table (all of it) and the encoder's next width. -/
theorem emit_step (L : Nat) (early : Bool) (st : EncSt) (D : Array (List Nat)) (dst : LzwSt) (cur : Nat)
    (fuel n : Nat) (restBits : List Bool)
    (hE : EncOK early st D) (hR : Rel st D dst) (hcur : st.cur = some cur)
    (hs : stream dst.rd = codeBits st.w cur ++ restBits) (hL : n + (D.getD cur []).length ≤ L) :
    ∃ rd', rd'.WF ∧ stream rd' = restBits ∧
      lzwGo L early (fuel + 1) n dst =
        (lzwGo L early fuel (n + (D.getD cur []).length)
          { rd := rd', dict := D, codeSize := widthAfter early st.nx st.w, prev := some cur }).pre (D.getD cur []) := by
  obtain ⟨hw, hwf, hrel⟩ := hR
  have hvc := hE.cur cur hcur
  obtain ⟨hw9, hw12, hnx1, hnx2, _⟩ := hE.winv
  have hpow := pow_ge_512 st.w hw9
  have hcurlt : cur < D.size := by
    rcases hvc with h | ⟨_, h⟩
    · have := hE.dict.size_ge; omega
    · exact h
  have hcode : cur < 2 ^ st.w := by
    have := hE.winv.code_lt
    rw [← hE.size] at this
    omega
  have h257 : cur ≠ 257 := by rcases hvc with h | ⟨h, _⟩ <;> omega
  have h256 : cur ≠ 256 := by rcases hvc with h | ⟨h, _⟩ <;> omega
  obtain ⟨rd', hread, hwf', hs'⟩ := readBits_spec dst.rd st.w cur restBits ⟨by omega, by omega⟩ hcode hwf hs
  rw [← hw] at hread
  refine ⟨rd', hwf', hs', ?_⟩
  cases hprev : dst.prev with
  | none =>
    rw [hprev] at hrel
    obtain ⟨hd, hsz, hw9'⟩ := hrel
    rw [lzwGo_first L early fuel n dst rd' cur hprev hread h257 h256 (by rw [hd]; exact hcurlt)]
    have hwa : widthAfter early st.nx st.w = dst.codeSize := by
      rw [hw, hw9', ← hE.size, hsz]
      unfold widthAfter
      cases early <;> simp
    rw [hd, hwa]
  | some pc =>
    rw [hprev] at hrel
    obtain ⟨hpc, hdsz, hcase⟩ := hrel
    rcases hcase with ⟨hlag, _⟩ | ⟨heq, hfull⟩
    · -- the decoder lags by one entry
      have hcs : curStr st D = D.getD cur [] := by simp [curStr, hcur]
      rw [hcs] at hlag
      have hDsize : D.size = dst.dict.size + 1 := by rw [hlag]; simp
      have hx : dst.dict.getD pc [] ≠ [] := by
        rcases hpc with h | ⟨h1, h2⟩
        · have : dst.dict.getD pc [] = D.getD pc [] := by
            rw [hlag, getD_push_lt _ _ _ (by omega)]
          rw [this, hE.dict.byte pc h]; simp
        · have : dst.dict.getD pc [] = D.getD pc [] := by
            rw [hlag, getD_push_lt _ _ _ h2]
          rw [this]; exact hE.dict.nonempty pc h1 (by omega)
      have hstr : lzwString dst.dict pc cur = D.getD cur [] := by
        unfold lzwString
        by_cases hlt : cur < dst.dict.size
        · rw [if_pos hlt]
          conv => rhs; rw [hlag]
          rw [getD_push_lt _ _ _ hlt]
        · rw [if_neg hlt]
          have hce : cur = dst.dict.size := by omega
          have hDc : D.getD cur [] = dst.dict.getD pc [] ++ [(D.getD cur []).headD 0] := by
            have h1 : D.getD dst.dict.size [] = dst.dict.getD pc [] ++ [(D.getD cur []).headD 0] := by
              conv => lhs; rw [hlag, getD_push_eq]
            rw [hce]; rw [hce] at h1; exact h1
          have hhd : (D.getD cur []).headD 0 = (dst.dict.getD pc []).headD 0 := by
            conv => lhs; rw [hDc]
            exact headD_append_of_ne _ _ hx
          rw [hDc, hhd]
      have hlt4096 : dst.dict.size < 4096 := by have := hE.dict.size_le; omega
      rw [lzwGo_next L early fuel n dst rd' cur pc hprev hread h257 h256 (by omega) (by rw [hstr]; exact hL)]
      rw [hstr, lzwGrow_width early _ _ _ _ hlt4096]
      simp only
      rw [← hlag, hw, ← hE.size, hDsize]
    · -- both tables are full
      have hstr : lzwString dst.dict pc cur = D.getD cur [] := by
        unfold lzwString
        rw [if_pos (by rw [← heq]; exact hcurlt), heq]
      have hnot : ¬ dst.dict.size < 4096 := by rw [← heq]; omega
      rw [lzwGo_next L early fuel n dst rd' cur pc hprev hread h257 h256 (by rw [← heq]; omega)
        (by rw [hstr]; exact hL)]
      rw [hstr, lzwGrow_full early _ _ _ _ hnot]
      simp only
      have hnx : st.nx = 4096 := by rw [← hE.size]; exact hfull
      have := hE.winv
      rw [hnx] at this
      rw [← heq, hw, hnx, this.full.1]

/-! ### the whole stream -/

theorem widthAfter_bounds (early : Bool) (nx w : Nat) (h1 : 9 ≤ w) (h2 : w ≤ 12) :
    9 ≤ widthAfter early nx w ∧ widthAfter early nx w ≤ 12 := by
  unfold widthAfter
  by_cases h : nx ≥ 2 ^ w - (if early then 1 else 0) ∧ w < 12
  · rw [if_pos h]; omega
  · rw [if_neg h]; omega

theorem EncOK.fresh (early : Bool) (c : Option Nat) (hc : ∀ x, c = some x → x < 256) :
    EncOK early { trie := trieEmpty, nx := 258, w := 9, cur := c } lzwInitDict :=
  ⟨initDict_size, DictOK.init, TrieSound.empty _, trieSize_empty, WInv.init early,
   fun x hx => Or.inl (hc x hx)⟩

theorem bitsOf_cons (c w : Nat) (cs : List (Nat × Nat)) : bitsOf ((c, w) :: cs) = codeBits w c ++ bitsOf cs := by
  simp [bitsOf]

/-- **the decoder follows the encoder to the end of the data** -/
theorem lzw_sync (L : Nat) (early : Bool) (clearAt : Nat) :
    ∀ (rest : List Nat) (st : EncSt) (D : Array (List Nat)) (dst : LzwSt) (n fuel pad : Nat),
      EncOK early st D → Rel st D dst → Bytes rest →
      stream dst.rd = bitsOf (lzwGoEnc early clearAt st rest) ++ List.replicate pad false →
      (lzwGoEnc early clearAt st rest).length ≤ fuel →
      n + (curStr st D).length + rest.length ≤ L →
      lzwGo L early fuel n dst = .ok (curStr st D ++ rest) := by
  intro rest
  induction rest with
  | nil =>
    intro st D dst n fuel pad hE hR _ hs hf hL
    obtain ⟨hw9, hw12, _, _, _⟩ := hE.winv
    cases hcur : st.cur with
    | none =>
      simp only [lzwGoEnc, hcur] at hs hf
      obtain ⟨fuel, rfl⟩ : ∃ f, fuel = f + 1 := ⟨fuel - 1, by simp at hf; omega⟩
      obtain ⟨hw, hwf, _⟩ := hR
      rw [bitsOf_cons, List.append_assoc] at hs
      have hp := pow_ge_512 st.w hw9
      obtain ⟨rd', hread, _, _⟩ := readBits_spec dst.rd st.w 257 _ ⟨by omega, by omega⟩ (by omega) hwf hs
      rw [← hw] at hread
      rw [lzwGo_eod L early fuel n dst rd' hread]
      simp [curStr, hcur]
    | some cur =>
      simp only [lzwGoEnc, hcur] at hs hf
      obtain ⟨fuel, rfl⟩ : ∃ f, fuel = f + 2 := ⟨fuel - 2, by simp at hf; omega⟩
      rw [bitsOf_cons, List.append_assoc] at hs
      have hcs : curStr st D = D.getD cur [] := by simp [curStr, hcur]
      rw [hcs] at hL ⊢
      obtain ⟨rd', hwf', hs', hgo⟩ := emit_step L early st D dst cur (fuel + 1) n _ hE hR hcur hs (by omega)
      rw [hgo]
      obtain ⟨hb1, hb2⟩ := widthAfter_bounds early st.nx st.w hw9 hw12
      have hp := pow_ge_512 _ hb1
      rw [bitsOf_cons, List.append_assoc] at hs'
      obtain ⟨rd'', hread, _, _⟩ := readBits_spec rd' (widthAfter early st.nx st.w) 257 _ ⟨by omega, by omega⟩
        (by omega) hwf' hs'
      rw [lzwGo_eod L early fuel _ _ rd'' hread]
      simp [Res.pre]
  | cons c rest ih =>
    intro st D dst n fuel pad hE hR hb hs hf hL
    rw [Bytes.cons] at hb
    obtain ⟨hc256, hb⟩ := hb
    obtain ⟨hw9, hw12, hnx1, hnx2, _⟩ := hE.winv
    cases hcur : st.cur with
    | none =>
      simp only [lzwGoEnc, hcur] at hs hf
      have hE' : EncOK early { st with cur := some c } D :=
        ⟨hE.size, hE.dict, hE.trie, hE.tsize, hE.winv, fun x hx => by cases hx; exact Or.inl hc256⟩
      have hR' : Rel { st with cur := some c } D dst := by
        obtain ⟨hw, hwf, hrel⟩ := hR
        refine ⟨hw, hwf, ?_⟩
        cases hprev : dst.prev with
        | none => rw [hprev] at hrel; exact hrel
        | some pc =>
          rw [hprev] at hrel
          obtain ⟨h1, h2, h3⟩ := hrel
          refine ⟨h1, h2, ?_⟩
          rcases h3 with ⟨_, hne⟩ | h3
          · exact absurd hcur hne
          · exact Or.inr h3
      have hcs' : curStr { st with cur := some c } D = [c] := by
        simp only [curStr]; exact hE.dict.byte c hc256
      have hcs : curStr st D = [] := by simp [curStr, hcur]
      have := ih { st with cur := some c } D dst n fuel pad hE' hR' hb hs hf
        (by rw [hcs']; rw [hcs] at hL; simp at hL ⊢; omega)
      rw [this, hcs', hcs]; rfl
    | some cur =>
      have hcs : curStr st D = D.getD cur [] := by simp [curStr, hcur]
      have hvc := hE.cur cur hcur
      have hne := hE.dict.ne_nil cur hvc
      cases hfind : trieFind st.trie cur c with
      | some code =>
        simp only [lzwGoEnc, hcur, hfind] at hs hf
        obtain ⟨_, hc1, hc2, hc3⟩ := hE.trie cur c code hfind
        have hE' : EncOK early { st with cur := some code } D :=
          ⟨hE.size, hE.dict, hE.trie, hE.tsize, hE.winv, fun x hx => by cases hx; exact Or.inr ⟨hc1, hc2⟩⟩
        have hcs' : curStr { st with cur := some code } D = D.getD cur [] ++ [c] := by
          simp only [curStr]; exact hc3
        have hR' : Rel { st with cur := some code } D dst := by
          obtain ⟨hw, hwf, hrel⟩ := hR
          refine ⟨hw, hwf, ?_⟩
          cases hprev : dst.prev with
          | none => rw [hprev] at hrel; exact hrel
          | some pc =>
            rw [hprev] at hrel
            obtain ⟨h1, h2, h3⟩ := hrel
            refine ⟨h1, h2, ?_⟩
            rcases h3 with ⟨hlag, _⟩ | h3
            · left
              refine ⟨?_, by simp⟩
              rw [hcs', headD_append_of_ne _ _ hne, ← hcs]
              exact hlag
            · exact Or.inr h3
        have := ih { st with cur := some code } D dst n fuel pad hE' hR' hb hs hf
          (by rw [hcs']; rw [hcs] at hL; simp at hL ⊢; omega)
        rw [this, hcs', hcs]; simp
      | none =>
        simp only [lzwGoEnc, hcur, hfind] at hs hf
        rw [hcs] at hL ⊢
        have hcurlt : cur < D.size := by
          rcases hvc with h | ⟨_, h⟩
          · have := hE.dict.size_ge; omega
          · exact h
        -- the new table entry (when there is room)
        by_cases hroom : st.nx < 4096
        · -- there is room: the encoder adds `D[cur] ++ [c]`
          simp only [hroom, if_true] at hs hf
          have hD2 : DictOK (D.push (D.getD cur [] ++ [c])) :=
            hE.dict.push _ (by simp) (by rw [hE.size]; exact hroom)
          by_cases hclr : clearAt ≠ 0 ∧ st.nx + 1 ≥ clearAt
          · -- Clear follows
            rw [if_pos hclr] at hs hf
            simp only [List.length_cons] at hf
            obtain ⟨fuel, rfl⟩ : ∃ f, fuel = f + 2 := ⟨fuel - 2, by omega⟩
            rw [bitsOf_cons, List.append_assoc] at hs
            obtain ⟨rd', hwf', hs', hgo⟩ := emit_step L early st D dst cur (fuel + 1) n _ hE hR hcur hs (by omega)
            rw [hgo]
            obtain ⟨hb1, hb2⟩ := widthAfter_bounds early st.nx st.w hw9 hw12
            have hp := pow_ge_512 _ hb1
            rw [bitsOf_cons, List.append_assoc] at hs'
            obtain ⟨rd'', hread, hwf'', hs''⟩ := readBits_spec rd' (widthAfter early st.nx st.w) 256 _
              ⟨by omega, by omega⟩ (by omega) hwf' hs'
            rw [lzwGo_clear L early fuel _ _ rd'' hread]
            simp only
            rw [hE.dict.pre]
            have hE3 := EncOK.fresh early (some c) (fun x hx => by cases hx; exact hc256)
            have hR3 : Rel { trie := trieEmpty, nx := 258, w := 9, cur := some c } lzwInitDict
                { rd := rd'', dict := lzwInitDict, codeSize := 9, prev := none } :=
              ⟨rfl, hwf'', rfl, initDict_size, rfl⟩
            have hcs3 : curStr { trie := trieEmpty, nx := 258, w := 9, cur := some c } lzwInitDict = [c] := by
              simp only [curStr]; exact initDict_byte c hc256
            have := ih _ lzwInitDict _ (n + (D.getD cur []).length) fuel pad hE3 hR3 hb hs'' (by omega)
              (by rw [hcs3]; simp at hL ⊢; omega)
            rw [this, hcs3]; simp [Res.pre]
          · -- no Clear
            rw [if_neg hclr] at hs hf
            simp only [List.length_cons] at hf
            obtain ⟨fuel, rfl⟩ : ∃ f, fuel = f + 1 := ⟨fuel - 1, by omega⟩
            rw [bitsOf_cons, List.append_assoc] at hs
            obtain ⟨rd', hwf', hs', hgo⟩ := emit_step L early st D dst cur fuel n _ hE hR hcur hs (by omega)
            rw [hgo]
            have hE2 : EncOK early { trie := trieAdd st.trie cur c st.nx, nx := st.nx + 1, w := widthAfter early st.nx st.w, cur := some c } (D.push (D.getD cur [] ++ [c])) := by
              refine ⟨by simp [hE.size], hD2, ?_, by rw [trieSize_add]; exact hE.tsize, hE.winv.step hroom,
                fun x hx => by cases hx; exact Or.inl hc256⟩
              have := hE.trie.add hE.dict cur c hcurlt (by rw [hE.tsize]; have := hE.dict.size_le; omega)
              rw [hE.size] at this
              exact this
            have hcs2 : curStr { trie := trieAdd st.trie cur c st.nx, nx := st.nx + 1, w := widthAfter early st.nx st.w, cur := some c } (D.push (D.getD cur [] ++ [c])) = [c] := by
              simp only [curStr]; exact hD2.byte c hc256
            have hR2 : Rel { trie := trieAdd st.trie cur c st.nx, nx := st.nx + 1, w := widthAfter early st.nx st.w, cur := some c } (D.push (D.getD cur [] ++ [c]))
                { rd := rd', dict := D, codeSize := widthAfter early st.nx st.w, prev := some cur } := by
              refine ⟨rfl, hwf', hvc, hE.dict.size_ge, Or.inl ⟨?_, by simp⟩⟩
              rw [hcs2]; rfl
            have := ih _ _ _ (n + (D.getD cur []).length) fuel pad hE2 hR2 hb hs' (by omega)
              (by rw [hcs2]; simp at hL ⊢; omega)
            rw [this, hcs2]; simp [Res.pre]
        · -- the table is full: nothing is added
          simp only [hroom, if_false] at hs hf
          have hnx : st.nx = 4096 := by omega
          by_cases hclr : clearAt ≠ 0 ∧ st.nx ≥ clearAt
          · rw [if_pos hclr] at hs hf
            simp only [List.length_cons] at hf
            obtain ⟨fuel, rfl⟩ : ∃ f, fuel = f + 2 := ⟨fuel - 2, by omega⟩
            rw [bitsOf_cons, List.append_assoc] at hs
            obtain ⟨rd', hwf', hs', hgo⟩ := emit_step L early st D dst cur (fuel + 1) n _ hE hR hcur hs (by omega)
            rw [hgo]
            obtain ⟨hb1, hb2⟩ := widthAfter_bounds early st.nx st.w hw9 hw12
            have hp := pow_ge_512 _ hb1
            rw [bitsOf_cons, List.append_assoc] at hs'
            obtain ⟨rd'', hread, hwf'', hs''⟩ := readBits_spec rd' (widthAfter early st.nx st.w) 256 _
              ⟨by omega, by omega⟩ (by omega) hwf' hs'
            rw [lzwGo_clear L early fuel _ _ rd'' hread]
            simp only
            rw [hE.dict.pre]
            have hE3 := EncOK.fresh early (some c) (fun x hx => by cases hx; exact hc256)
            have hR3 : Rel { trie := trieEmpty, nx := 258, w := 9, cur := some c } lzwInitDict
                { rd := rd'', dict := lzwInitDict, codeSize := 9, prev := none } :=
              ⟨rfl, hwf'', rfl, initDict_size, rfl⟩
            have hcs3 : curStr { trie := trieEmpty, nx := 258, w := 9, cur := some c } lzwInitDict = [c] := by
              simp only [curStr]; exact initDict_byte c hc256
            have := ih _ lzwInitDict _ (n + (D.getD cur []).length) fuel pad hE3 hR3 hb hs'' (by omega)
              (by rw [hcs3]; simp at hL ⊢; omega)
            rw [this, hcs3]; simp [Res.pre]
          · rw [if_neg hclr] at hs hf
            simp only [List.length_cons] at hf
            obtain ⟨fuel, rfl⟩ : ∃ f, fuel = f + 1 := ⟨fuel - 1, by omega⟩
            rw [bitsOf_cons, List.append_assoc] at hs
            obtain ⟨rd', hwf', hs', hgo⟩ := emit_step L early st D dst cur fuel n _ hE hR hcur hs (by omega)
            rw [hgo]
            have hwfull := hE.winv
            rw [hnx] at hwfull
            have hwa : widthAfter early st.nx st.w = st.w := by rw [hnx]; exact hwfull.full.1
            have hE2 : EncOK early { trie := st.trie, nx := st.nx, w := widthAfter early st.nx st.w, cur := some c } D :=
              ⟨hE.size, hE.dict, hE.trie, hE.tsize, by rw [hwa]; exact hE.winv,
                fun x hx => by cases hx; exact Or.inl hc256⟩
            have hcs2 : curStr { trie := st.trie, nx := st.nx, w := widthAfter early st.nx st.w, cur := some c } D = [c] := by
              simp only [curStr]; exact hE.dict.byte c hc256
            have hR2 : Rel { trie := st.trie, nx := st.nx, w := widthAfter early st.nx st.w, cur := some c } D
                { rd := rd', dict := D, codeSize := widthAfter early st.nx st.w, prev := some cur } :=
              ⟨rfl, hwf', hvc, hE.dict.size_ge, Or.inr ⟨rfl, by rw [hE.size]; exact hnx⟩⟩
            have := ih _ _ _ (n + (D.getD cur []).length) fuel pad hE2 hR2 hb hs' (by omega)
              (by rw [hcs2]; simp at hL ⊢; omega)
            rw [this, hcs2]; simp [Res.pre]

/-! ### assembling: `lzwDec (lzwEnc data) = data` -/

theorem widthAfter_ge (early : Bool) (nx w : Nat) : w ≤ widthAfter early nx w := by
  unfold widthAfter
  by_cases h : nx ≥ 2 ^ w - (if early then 1 else 0) ∧ w < 12
  · rw [if_pos h]; omega
  · rw [if_neg h]; omega

theorem lzwGoEnc_widths (early : Bool) (clearAt : Nat) : ∀ (rest : List Nat) (st : EncSt), 9 ≤ st.w →
    ∀ p ∈ lzwGoEnc early clearAt st rest, 9 ≤ p.2 := by
  intro rest
  induction rest with
  | nil =>
    intro st hw p hp
    have := widthAfter_ge early st.nx st.w
    cases hc : st.cur with
    | none =>
      simp only [lzwGoEnc, hc, List.mem_singleton] at hp
      subst hp; exact hw
    | some cur =>
      simp only [lzwGoEnc, hc, List.mem_cons, List.not_mem_nil, or_false] at hp
      rcases hp with rfl | rfl
      · exact hw
      · show 9 ≤ widthAfter early st.nx st.w; omega
  | cons c rest ih =>
    intro st hw p hp
    have hwa := widthAfter_ge early st.nx st.w
    cases hc : st.cur with
    | none =>
      simp only [lzwGoEnc, hc] at hp
      exact ih { st with cur := some c } hw p hp
    | some cur =>
      cases hf : trieFind st.trie cur c with
      | some code =>
        simp only [lzwGoEnc, hc, hf] at hp
        exact ih { st with cur := some code } hw p hp
      | none =>
        simp only [lzwGoEnc, hc, hf] at hp
        by_cases hclr : clearAt ≠ 0 ∧
            (if st.nx < 4096 then (trieAdd st.trie cur c st.nx, st.nx + 1) else (st.trie, st.nx)).2 ≥ clearAt
        · rw [if_pos hclr] at hp
          simp only [List.mem_cons] at hp
          rcases hp with rfl | rfl | hp
          · exact hw
          · show 9 ≤ widthAfter early st.nx st.w; omega
          · exact ih _ (Nat.le_refl 9) p hp
        · rw [if_neg hclr] at hp
          simp only [List.mem_cons] at hp
          rcases hp with rfl | hp
          · exact hw
          · exact ih _ (show 9 ≤ widthAfter early st.nx st.w by omega) p hp

theorem bitsOf_length_ge : ∀ (cs : List (Nat × Nat)), (∀ p ∈ cs, 9 ≤ p.2) → 9 * cs.length ≤ (bitsOf cs).length := by
  intro cs
  induction cs with
  | nil => intro _; simp [bitsOf]
  | cons p cs ih =>
    intro h
    obtain ⟨c, w⟩ := p
    rw [bitsOf_cons, List.length_append, codeBits_length, List.length_cons]
    have := ih (fun q hq => h q (by simp [hq]))
    have := h (c, w) (by simp)
    simp at this
    omega

theorem flatMap_byteBits_length : ∀ l : List Nat, (l.flatMap byteBits).length = l.length * 8 := by
  intro l
  induction l with
  | nil => simp
  | cons x xs ih => simp [List.flatMap_cons, ih, byteBits_length, Nat.succ_mul, Nat.add_comm]

/-- **LZW round trip**: `decode_lzw_with_limit` inverts the reference encoder — both EarlyChange values,
every Clear policy (`clearAt` = any number, 0 = never), every byte string, every limit it fits in. -/
theorem lzwDec_lzwEnc (L : Nat) (early : Bool) (clearAt : Nat) (data : List Nat) (hb : Bytes data)
    (hL : data.length ≤ L) : lzwDec L early (lzwEnc early clearAt data) = .ok data := by
  unfold lzwDec lzwEnc
  rw [lzwCodes_eq_spec]
  obtain ⟨⟨pad, hstream⟩, hwf⟩ := lzwPack_stream (lzwCodesSpec early clearAt data)
  have hst : stream ⟨lzwPack (lzwCodesSpec early clearAt data), 0⟩ =
      bitsOf (lzwCodesSpec early clearAt data) ++ List.replicate pad false := hstream
  generalize hbytes : lzwPack (lzwCodesSpec early clearAt data) = bytes at *
  -- enough fuel: every code has at least 9 bits
  have hwid : ∀ p ∈ lzwCodesSpec early clearAt data, 9 ≤ p.2 := by
    intro p hp
    simp only [lzwCodesSpec, List.mem_cons] at hp
    rcases hp with rfl | hp
    · simp
    · exact lzwGoEnc_widths early clearAt data _ (by simp) p hp
  have hcount : (lzwCodesSpec early clearAt data).length ≤ bytes.length := by
    have h1 := bitsOf_length_ge _ hwid
    have h2 := congrArg List.length hst
    simp only [stream, List.drop_zero, List.length_append, List.length_replicate, flatMap_byteBits_length] at h2
    omega
  simp only [lzwCodesSpec] at hst hcount
  rw [bitsOf_cons, List.append_assoc] at hst
  obtain ⟨rd', hread, hwf', hs'⟩ := readBits_spec ⟨bytes, 0⟩ 9 256 _ ⟨by omega, by omega⟩ (by decide) hwf hst
  simp only [List.length_cons] at hcount
  rw [lzwGo_clear L early bytes.length 0 _ rd' hread]
  simp only
  rw [initDict_extract]
  have hE := EncOK.fresh early none (fun x hx => by cases hx)
  have hR : Rel { trie := trieEmpty, nx := 258, w := 9, cur := none } lzwInitDict
      { rd := rd', dict := lzwInitDict, codeSize := 9, prev := none } := ⟨rfl, hwf', rfl, initDict_size, rfl⟩
  have := lzw_sync L early clearAt data _ lzwInitDict _ 0 bytes.length pad hE hR hb hs' (by omega)
    (by simp [curStr]; exact hL)
  rw [this]
  simp [curStr]

end OxiVerif.Flt
