import OxiVerif.Lemmas.C21
/-!
C21, parser level: `parse_operators` on a token list that contains no `BI` is a structural
function (`parseOps'`); operators are parsed independently of each other (the operand stack is
cleared after every operator), so the parse of a concatenation of operator groups is the
concatenation of the parses; piece lists that end in a line end can be concatenated.
-/
namespace OxiVerif.C21
open OxiVerif.Spec.Syntax (isDigit allDigits digitsVal)

/-- `parse_operators` without inline images, structurally -/
def parseOps' : List Token → Stack → List Parsed
  | [], _ => []
  | t :: r, S =>
    match t with
    | .operator op =>
      (match parseOp op S with
       | some p => p :: parseOps' r []
       | none => parseOps' r [])
    | t => parseOps' r (t :: S)

def noBI (ts : List Token) : Prop := ∀ t ∈ ts, t ≠ .operator kBI

theorem parseOperators_eq (ts : List Token) (h : noBI ts) :
    ∀ (S : Stack) (f : Nat), f ≥ ts.length + 1 → parseOperators f ts S = some (parseOps' ts S) := by
  induction ts with
  | nil =>
    intro S f hf
    cases f with
    | zero => simp at hf
    | succ f => simp [parseOperators, parseOps']
  | cons t r ih =>
    intro S f hf
    have hr : noBI r := fun x hx => h x (by simp [hx])
    cases f with
    | zero => simp at hf
    | succ f =>
      simp only [List.length_cons] at hf
      have ihf := fun S => ih hr S f (by omega)
      cases t with
      | operator op =>
        have hne : op ≠ kBI := fun e => h (.operator op) (by simp) (by rw [e])
        have hb : (op == kBI) = false := by simp [hne]
        simp only [parseOperators, parseOps', hb, Bool.false_eq_true, if_false]
        cases parseOp op S <;> simp [ihf]
      | _ => simp [parseOperators, parseOps', ihf]

/-- an operator clears the stack: what follows it is parsed on its own -/
theorem parseOps'_append (A : List Token) (op : List Nat) (T : List Token) :
    ∀ S, parseOps' (A ++ .operator op :: T) S = parseOps' (A ++ [.operator op]) S ++ parseOps' T [] := by
  induction A with
  | nil =>
    intro S
    simp only [List.nil_append, parseOps']
    cases parseOp op S <;> simp
  | cons t r ih =>
    intro S
    cases t with
    | operator o =>
      simp only [List.cons_append, parseOps']
      cases parseOp o S <;> simp [ih]
    | _ => simp [parseOps', ih]

/-- a token group: ends with an operator -/
def EndsOp (ts : List Token) : Prop := ∃ A op, ts = A ++ [.operator op]

theorem parseOps'_group (G T : List Token) (h : EndsOp G) :
    parseOps' (G ++ T) [] = parseOps' G [] ++ parseOps' T [] := by
  obtain ⟨A, op, rfl⟩ := h
  simp only [List.append_assoc, List.singleton_append]
  exact parseOps'_append A op T []

/-! ### concatenating piece lists -/

def EndsNl (ps : List Piece) : Prop := ∃ a, ps = a ++ [.nl]

theorem Reads_append (a : List Piece) (ta : List Token) (b : List Piece) (tb : List Token)
    (ha : Reads a ta) (hb : Reads b tb) (hn : EndsNl a) : Reads (a ++ b) (ta ++ tb) := by
  induction ha with
  | nil =>
    obtain ⟨x, hx⟩ := hn
    cases x <;> simp at hx
  | tok p t ps ts hp hterm hrest ih =>
    obtain ⟨x, hx⟩ := hn
    cases x with
    | nil =>
      simp only [List.nil_append, List.cons.injEq] at hx
      obtain ⟨rfl, _⟩ := hx
      cases hp
    | cons y x =>
      simp only [List.cons_append, List.cons.injEq] at hx
      obtain ⟨rfl, rfl⟩ := hx
      refine Reads.tok p t _ _ hp ?_ (ih ⟨x, rfl⟩)
      intro hnt
      rcases hterm hnt with h0 | ⟨q, r, hq, hqt⟩
      · cases x <;> simp at h0
      · exact Or.inr ⟨q, r ++ b, by rw [hq]; rfl, hqt⟩
  | skip p ps ts hp hc hrest ih =>
    obtain ⟨x, hx⟩ := hn
    cases x with
    | nil =>
      simp only [List.nil_append, List.cons.injEq] at hx
      obtain ⟨rfl, rfl⟩ := hx
      cases hrest
      exact Reads.skip .nl b tb .nl (fun t e => by cases e) hb
    | cons y x =>
      simp only [List.cons_append, List.cons.injEq] at hx
      obtain ⟨rfl, rfl⟩ := hx
      refine Reads.skip p _ _ hp ?_ (ih ⟨x, rfl⟩)
      intro t e
      obtain ⟨r, hr⟩ := hc t e
      exact ⟨r ++ b, by rw [hr]; rfl⟩

/-- per-operator obligation: the pieces of `o` are read as `ts`, a group that ends with its
    operator and has no `BI` -/
structure OpOk (fmt : Fmt) (o : Op) (ts : List Token) : Prop where
  reads : Reads (pieces fmt o) ts
  endsNl : EndsNl (pieces fmt o)
  endsOp : ts = [] ∨ EndsOp ts
  nobi : noBI ts

def allToks (toks : Op → List Token) : List Op → List Token
  | [] => []
  | o :: r => toks o ++ allToks toks r

def allParsed (toks : Op → List Token) : List Op → List Parsed
  | [] => []
  | o :: r => parseOps' (toks o) [] ++ allParsed toks r

theorem Reads_ops (fmt : Fmt) (toks : Op → List Token) (ops : List Op)
    (h : ∀ o ∈ ops, OpOk fmt o (toks o)) : Reads (opPieces fmt ops) (allToks toks ops) := by
  induction ops with
  | nil => exact Reads.nil
  | cons o r ih =>
    have ho := h o (by simp)
    exact Reads_append _ _ _ _ ho.reads (ih (fun x hx => h x (by simp [hx]))) ho.endsNl

theorem noBI_ops (fmt : Fmt) (toks : Op → List Token) (ops : List Op)
    (h : ∀ o ∈ ops, OpOk fmt o (toks o)) : noBI (allToks toks ops) := by
  induction ops with
  | nil => intro t ht; simp [allToks] at ht
  | cons o r ih =>
    intro t ht
    simp only [allToks, List.mem_append] at ht
    rcases ht with ht | ht
    · exact (h o (by simp)).nobi t ht
    · exact ih (fun x hx => h x (by simp [hx])) t ht

theorem parseOps'_ops (fmt : Fmt) (toks : Op → List Token) (ops : List Op)
    (h : ∀ o ∈ ops, OpOk fmt o (toks o)) :
    parseOps' (allToks toks ops) [] = allParsed toks ops := by
  induction ops with
  | nil => simp [allToks, allParsed, parseOps']
  | cons o r ih =>
    have ho := h o (by simp)
    have ih' := ih (fun x hx => h x (by simp [hx]))
    simp only [allToks, allParsed]
    rcases ho.endsOp with h0 | hE
    · rw [h0]; simp [parseOps', ih']
    · rw [parseOps'_group _ _ hE, ih']

/-- **compositional round trip**: every operator group is parsed on its own, nothing leaks between
    operators and nothing of the tail is lost -/
theorem parseContent_ops (fmt : Fmt) (toks : Op → List Token) (ops : List Op)
    (h : ∀ o ∈ ops, OpOk fmt o (toks o)) :
    parseContent (serializeOps fmt ops) = some (allParsed toks ops) := by
  unfold parseContent serializeOps
  rw [tokenize_render _ _ (Reads_ops fmt toks ops h) _ (Nat.le_refl _)]
  rw [parseOperators_eq _ (noBI_ops fmt toks ops h) [] _ (Nat.le_refl _)]
  rw [parseOps'_ops fmt toks ops h]

end OxiVerif.C21
