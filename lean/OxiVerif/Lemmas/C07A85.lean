import OxiVerif.Lemmas.C07
/-!
C07 helper lemmas, ASCII85: the reference encoder's groups (Spec/C07Codecs.lean `a85Enc`) through the
model of `decode_ascii85_with_limit` (Model/C08.lean `a85Go`, `a85Fin`, `a85Value` = the checked Horner
sum of `ascii85_group_value`).

All base-85 arithmetic is done on explicit quotients/remainders (`v = 85·q + r`), never by asking a
decision procedure about `v / 52200625`.
-/
namespace OxiVerif.Flt
open OxiVerif.Codec

theorem a85Horner_step (v c : Nat) (g : List Nat) (w : Nat) (hw : v * 85 + (c - 33) = w) (h : w < 4294967296) :
    a85Horner v (c :: g) = a85Horner w g := by
  simp only [a85Horner, hw, two32]
  rw [if_neg (by omega)]

/-- `ascii85_group_value` over five digits `e₀ … e₄` (as characters `eᵢ + 33`) whose base-85 value fits
32 bits: no overflow error, result = the value -/
theorem a85Value_five (e0 e1 e2 e3 e4 : Nat)
    (h : 52200625 * e0 + 614125 * e1 + 7225 * e2 + 85 * e3 + e4 < 4294967296) :
    a85Value [e0 + 33, e1 + 33, e2 + 33, e3 + 33, e4 + 33] =
      .ok (52200625 * e0 + 614125 * e1 + 7225 * e2 + 85 * e3 + e4) := by
  unfold a85Value
  rw [a85Horner_step 0 _ _ e0 (by omega) (by omega),
    a85Horner_step e0 _ _ (85 * e0 + e1) (by omega) (by omega),
    a85Horner_step _ _ _ (7225 * e0 + 85 * e1 + e2) (by omega) (by omega),
    a85Horner_step _ _ _ (614125 * e0 + 7225 * e1 + 85 * e2 + e3) (by omega) (by omega),
    a85Horner_step _ _ _ (52200625 * e0 + 614125 * e1 + 7225 * e2 + 85 * e3 + e4) (by omega) (by omega)]
  rfl

/-- base-85 decomposition of a 32-bit value: quotient chain `v = 85 q₁ + r₀`, `q₁ = 85 q₂ + r₁`, … -/
theorem a85_decomp (v : Nat) (hv : v < 4294967296) :
    ∃ q4 r3 r2 r1 r0, a85Digits v = [q4 + 33, r3 + 33, r2 + 33, r1 + 33, r0 + 33] ∧
      q4 < 85 ∧ r3 < 85 ∧ r2 < 85 ∧ r1 < 85 ∧ r0 < 85 ∧
      v = 52200625 * q4 + 614125 * r3 + 7225 * r2 + 85 * r1 + r0 := by
  refine ⟨v / 85 / 85 / 85 / 85, v / 85 / 85 / 85 % 85, v / 85 / 85 % 85, v / 85 % 85, v % 85, ?_, ?_,
    Nat.mod_lt _ (by omega), Nat.mod_lt _ (by omega), Nat.mod_lt _ (by omega), Nat.mod_lt _ (by omega), ?_⟩
  · have : v / 85 / 85 / 85 / 85 < 85 := by omega
    simp only [a85Digits, Nat.mod_eq_of_lt this]
  · omega
  · omega

/-- the five digits of a 32-bit value decode to it -/
theorem a85Value_digits (v : Nat) (hv : v < two32) : a85Value (a85Digits v) = .ok v := by
  unfold two32 at hv
  obtain ⟨q4, r3, r2, r1, r0, hd, _, _, _, _, _, hval⟩ := a85_decomp v hv
  rw [hd, a85Value_five _ _ _ _ _ (by omega), ← hval]

theorem a85Go_step (L n : Nat) (g rest : List Nat) (c : Nat) (h1 : 33 ≤ c) (h2 : c ≤ 117)
    (hg : g.length < 4) : a85Go L n g (c :: rest) = a85Go L n (g ++ [c]) rest := by
  simp only [a85Go]
  rw [if_neg (by omega), if_neg (by intro h; omega), if_pos ⟨h1, h2⟩, if_neg (by simp; omega)]

theorem a85Go_step5 (L n : Nat) (g rest : List Nat) (c : Nat) (h1 : 33 ≤ c) (h2 : c ≤ 117)
    (hg : g.length = 4) (v : Nat) (hv : a85Value (g ++ [c]) = .ok v) (hL : n + 4 ≤ L) :
    a85Go L n g (c :: rest) = (a85Go L (n + 4) [] rest).pre (be4 v) := by
  simp only [a85Go]
  rw [if_neg (by omega), if_neg (by intro h; omega), if_pos ⟨h1, h2⟩, if_pos (by simp; omega), hv]
  simp only
  rw [if_neg (by omega)]

theorem a85Digits_range (v : Nat) : ∀ c ∈ a85Digits v, 33 ≤ c ∧ c ≤ 117 := by
  intro c hc
  simp only [a85Digits, List.mem_cons, List.not_mem_nil, or_false] at hc
  rcases hc with h | h | h | h | h <;> omega

theorem a85Digits_take_range (v k : Nat) : ∀ c ∈ (a85Digits v).take k, 33 ≤ c ∧ c ≤ 117 :=
  fun c hc => a85Digits_range v c (List.mem_of_mem_take hc)

/-- feeding fewer than five digits just collects them -/
theorem a85Go_collect (L n : Nat) : ∀ (ds g rest : List Nat), (∀ c ∈ ds, 33 ≤ c ∧ c ≤ 117) →
    g.length + ds.length ≤ 4 → a85Go L n g (ds ++ rest) = a85Go L n (g ++ ds) rest := by
  intro ds
  induction ds with
  | nil => intro g rest _ _; simp
  | cons d ds ih =>
    intro g rest hr hl
    simp only [List.length_cons] at hl
    have hd := hr d (by simp)
    rw [List.cons_append, a85Go_step _ _ _ _ _ hd.1 hd.2 (by omega)]
    rw [ih (g ++ [d]) rest (fun c hc => hr c (by simp [hc])) (by simp; omega)]
    simp

/-- a full group -/
theorem a85Go_group (L n v : Nat) (hv : v < two32) (rest : List Nat) (hL : n + 4 ≤ L) :
    a85Go L n [] (a85Digits v ++ rest) = (a85Go L (n + 4) [] rest).pre (be4 v) := by
  have hval := a85Value_digits v hv
  have hr := a85Digits_range v
  generalize hds : a85Digits v = ds at hval hr
  have hlen : ds.length = 5 := by rw [← hds]; rfl
  match ds, hlen with
  | [d0, d1, d2, d3, d4], _ =>
    have h0 := hr d0 (by simp)
    have h1 := hr d1 (by simp)
    have h2 := hr d2 (by simp)
    have h3 := hr d3 (by simp)
    have h4 := hr d4 (by simp)
    simp only [List.cons_append, List.nil_append]
    rw [a85Go_step _ _ _ _ _ h0.1 h0.2 (by simp), a85Go_step _ _ _ _ _ h1.1 h1.2 (by simp),
      a85Go_step _ _ _ _ _ h2.1 h2.2 (by simp), a85Go_step _ _ _ _ _ h3.1 h3.2 (by simp),
      a85Go_step5 _ _ _ _ _ h4.1 h4.2 (by simp) v (by simpa using hval) hL]

theorem be4_be32 (a b c d : Nat) (ha : a < 256) (hb : b < 256) (hc : c < 256) (hd : d < 256) :
    be4 (be32 a b c d) = [a, b, c, d] := by
  unfold be4 be32
  simp only [List.cons.injEq, and_true]
  refine ⟨?_, ?_, ?_, ?_⟩ <;> omega

theorem be32_lt (a b c d : Nat) (ha : a < 256) (hb : b < 256) (hc : c < 256) (hd : d < 256) :
    be32 a b c d < two32 := by
  unfold be32 two32; omega

theorem a85Go_end (L n : Nat) (g t : List Nat) : a85Go L n g (126 :: 62 :: t) = a85Fin L n g := by
  simp [a85Go]

theorem a85Fin_eq (L n : Nat) (g : List Nat) (v : Nat) (bs : List Nat) (hg : g.isEmpty = false)
    (hv : a85Value (g ++ List.replicate (5 - g.length) 117) = .ok v)
    (hbs : (be4 v).take (g.length - 1) = bs) (hL : n + bs.length ≤ L) : a85Fin L n g = .ok bs := by
  unfold a85Fin
  rw [hg, hv]
  simp only [Bool.false_eq_true, if_false]
  rw [hbs, if_neg (by omega)]

theorem be4_top3 (a b c dl : Nat) (ha : a < 256) (hb : b < 256) (hc : c < 256) (hd : dl < 256) :
    (be4 (((a * 256 + b) * 256 + c) * 256 + dl)).take 3 = [a, b, c] := by
  have := be4_be32 a b c dl ha hb hc hd
  unfold be32 at this
  rw [this]; rfl

theorem be4_top2 (a b dl : Nat) (ha : a < 256) (hb : b < 256) (hd : dl < 65536) :
    (be4 (65536 * (a * 256 + b) + dl)).take 2 = [a, b] := by
  have := be4_be32 a b (dl / 256) (dl % 256) ha hb (by omega) (by omega)
  unfold be32 at this
  have e : 65536 * (a * 256 + b) + dl = ((a * 256 + b) * 256 + dl / 256) * 256 + dl % 256 := by omega
  rw [e, this]; rfl

theorem be4_top1 (a dl : Nat) (ha : a < 256) (hd : dl < 16777216) :
    (be4 (16777216 * a + dl)).take 1 = [a] := by
  have := be4_be32 a (dl / 65536) (dl / 256 % 256) (dl % 256) ha (by omega) (by omega) (by omega)
  unfold be32 at this
  have e : 16777216 * a + dl = ((a * 256 + dl / 65536) * 256 + dl / 256 % 256) * 256 + dl % 256 := by omega
  rw [e, this]; rfl

/-- "Handle incomplete final group" on `k + 1` digits (`k` = 1, 2, 3) of a value `v` whose low
`4 - k` bytes are zero: the `u` padding only changes those low bytes, the checked sum cannot
overflow, and the first `k` bytes come back.  `x` = the top `k` bytes as a number. -/
theorem a85Fin_tail3 (L n a b c : Nat) (ha : a < 256) (hb : b < 256) (hc : c < 256) (hL : n + 3 ≤ L) :
    a85Fin L n ((a85Digits (be32 a b c 0)).take 4) = .ok [a, b, c] := by
  have hv : be32 a b c 0 < 4294967296 := be32_lt _ _ _ _ ha hb hc (by omega)
  obtain ⟨q4, r3, r2, r1, r0, hd, _, _, _, _, _, hval⟩ := a85_decomp _ hv
  unfold be32 at hval
  rw [hd]
  clear hd hv
  have htot : 52200625 * q4 + 614125 * r3 + 7225 * r2 + 85 * r1 + 84 = ((a * 256 + b) * 256 + c) * 256 + (84 - r0) := by omega
  have hdl : 84 - r0 < 256 := by omega
  have hfit : 52200625 * q4 + 614125 * r3 + 7225 * r2 + 85 * r1 + 84 < 4294967296 := by omega
  refine a85Fin_eq L n _ (52200625 * q4 + 614125 * r3 + 7225 * r2 + 85 * r1 + 84) _ rfl ?_ ?_ (by simpa using hL)
  · exact a85Value_five _ _ _ _ _ hfit
  · rw [htot]
    exact be4_top3 a b c _ ha hb hc hdl

theorem a85Fin_tail2 (L n a b : Nat) (ha : a < 256) (hb : b < 256) (hL : n + 2 ≤ L) :
    a85Fin L n ((a85Digits (be32 a b 0 0)).take 3) = .ok [a, b] := by
  have hv : be32 a b 0 0 < 4294967296 := be32_lt _ _ _ _ ha hb (by omega) (by omega)
  obtain ⟨q4, r3, r2, r1, r0, hd, _, _, _, _, _, hval⟩ := a85_decomp _ hv
  unfold be32 at hval
  rw [hd]
  clear hd hv
  have htot : 52200625 * q4 + 614125 * r3 + 7225 * r2 + 85 * 84 + 84 = 65536 * (a * 256 + b) + (7224 - (85 * r1 + r0)) := by omega
  have hdl : 7224 - (85 * r1 + r0) < 65536 := by omega
  have hfit : 52200625 * q4 + 614125 * r3 + 7225 * r2 + 85 * 84 + 84 < 4294967296 := by omega
  refine a85Fin_eq L n _ (52200625 * q4 + 614125 * r3 + 7225 * r2 + 85 * 84 + 84) _ rfl ?_ ?_ (by simpa using hL)
  · exact a85Value_five _ _ _ _ _ hfit
  · rw [htot]
    exact be4_top2 a b _ ha hb hdl

theorem a85Fin_tail1 (L n a : Nat) (ha : a < 256) (hL : n + 1 ≤ L) :
    a85Fin L n ((a85Digits (be32 a 0 0 0)).take 2) = .ok [a] := by
  have hv : be32 a 0 0 0 < 4294967296 := be32_lt _ _ _ _ ha (by omega) (by omega) (by omega)
  obtain ⟨q4, r3, r2, r1, r0, hd, _, _, _, _, _, hval⟩ := a85_decomp _ hv
  unfold be32 at hval
  rw [hd]
  clear hd hv
  have htot : 52200625 * q4 + 614125 * r3 + 7225 * 84 + 85 * 84 + 84 = 16777216 * a + (614124 - (7225 * r2 + 85 * r1 + r0)) := by omega
  have hdl : 614124 - (7225 * r2 + 85 * r1 + r0) < 16777216 := by omega
  have hfit : 52200625 * q4 + 614125 * r3 + 7225 * 84 + 85 * 84 + 84 < 4294967296 := by omega
  refine a85Fin_eq L n _ (52200625 * q4 + 614125 * r3 + 7225 * 84 + 85 * 84 + 84) _ rfl ?_ ?_ (by simpa using hL)
  · exact a85Value_five _ _ _ _ _ hfit
  · rw [htot]
    exact be4_top1 a _ ha hdl

theorem be32_eq_zero (a b c d : Nat) (h : be32 a b c d = 0) : a = 0 ∧ b = 0 ∧ c = 0 ∧ d = 0 := by
  unfold be32 at h; omega

theorem a85Go_z (L n : Nat) (rest : List Nat) (hL : n + 4 ≤ L) :
    a85Go L n [] (122 :: rest) = (a85Go L (n + 4) [] rest).pre [0, 0, 0, 0] := by
  simp only [a85Go]
  rw [if_neg (by omega), if_pos (by simp), if_neg (by omega)]

/-- the model decoder inverts the reference encoder followed by `~>` (and anything after it) -/
theorem a85Go_a85Enc (L : Nat) (t : List Nat) : ∀ (bs : List Nat) (n : Nat), Bytes bs → n + bs.length ≤ L →
    a85Go L n [] (a85Enc bs ++ 126 :: 62 :: t) = .ok bs
  | a :: b :: c :: d :: rest, n, hb, hl => by
    simp only [Bytes.cons] at hb
    obtain ⟨ha, hb', hc, hd, hrest⟩ := hb
    simp only [List.length_cons] at hl
    have ih := a85Go_a85Enc L t rest (n + 4) hrest (by omega)
    simp only [a85Enc]
    split
    · rename_i hz
      obtain ⟨rfl, rfl, rfl, rfl⟩ := be32_eq_zero _ _ _ _ hz
      rw [List.append_assoc, List.singleton_append, a85Go_z _ _ _ (by omega), ih]; rfl
    · rw [List.append_assoc, a85Go_group _ _ _ (be32_lt _ _ _ _ ha hb' hc hd) _ (by omega), ih,
        be4_be32 _ _ _ _ ha hb' hc hd]; rfl
  | [a, b, c], n, hb, hl => by
    simp only [Bytes.cons] at hb
    obtain ⟨ha, hb', hc, _⟩ := hb
    simp only [List.length_cons, List.length_nil] at hl
    simp only [a85Enc]
    rw [a85Go_collect _ _ _ _ _ (a85Digits_take_range _ _) (by simp [a85Digits]), a85Go_end, List.nil_append]
    exact a85Fin_tail3 L n a b c ha hb' hc (by omega)
  | [a, b], n, hb, hl => by
    simp only [Bytes.cons] at hb
    obtain ⟨ha, hb', _⟩ := hb
    simp only [List.length_cons, List.length_nil] at hl
    simp only [a85Enc]
    rw [a85Go_collect _ _ _ _ _ (a85Digits_take_range _ _) (by simp [a85Digits]), a85Go_end, List.nil_append]
    exact a85Fin_tail2 L n a b ha hb' (by omega)
  | [a], n, hb, hl => by
    simp only [Bytes.cons] at hb
    obtain ⟨ha, _⟩ := hb
    simp only [List.length_cons, List.length_nil] at hl
    simp only [a85Enc]
    rw [a85Go_collect _ _ _ _ _ (a85Digits_take_range _ _) (by simp [a85Digits]), a85Go_end, List.nil_append]
    exact a85Fin_tail1 L n a ha (by omega)
  | [], n, _, _ => by
    simp only [a85Enc, List.nil_append, a85Go_end]; rfl

/-- every byte the reference encoder writes is `z` or a digit `!`…`u` -/
theorem a85Enc_range : ∀ (bs : List Nat), ∀ c ∈ a85Enc bs, c = 122 ∨ (33 ≤ c ∧ c ≤ 117)
  | a :: b :: c :: d :: rest, x, hx => by
    simp only [a85Enc, List.mem_append] at hx
    rcases hx with hx | hx
    · split at hx
      · simp at hx; exact Or.inl hx
      · exact Or.inr (a85Digits_range _ _ hx)
    · exact a85Enc_range rest x hx
  | [a, b, c], x, hx => Or.inr (a85Digits_take_range _ _ x (by simpa [a85Enc] using hx))
  | [a, b], x, hx => Or.inr (a85Digits_take_range _ _ x (by simpa [a85Enc] using hx))
  | [a], x, hx => Or.inr (a85Digits_take_range _ _ x (by simpa [a85Enc] using hx))
  | [], x, hx => by simp [a85Enc] at hx

end OxiVerif.Flt
