import OxiVerif.Lemmas.C09Lib
/-!
# Lemmas for C09 — the tree-level round trip through the library's parser model
-/
namespace OxiVerif.C09
open OxiVerif.Spec.Syntax (Obj)
open OxiVerif.Model
open OxiVerif.Model.Lexer (Token)
open OxiVerif.Spec

mutual
/-- fuel sufficient for `parse_from_token` on the first token of a written value -/
def needFT : Obj → Nat
  | .arr xs => 1 + needArr xs
  | .dict kvs => 2 + needDict kvs
  | _ => 1
def needArr : List Obj → Nat
  | [] => 1
  | x :: xs => 1 + needFT x + needArr xs
def needDict : List (List Nat × Obj) → Nat
  | [] => 1
  | (_, v) :: rest => 2 + needFT v + needDict rest
end

/-- the integer look-ahead finds nothing: the integer stays an integer, nothing is consumed -/
theorem lib_pft_int (f : Nat) (i : Int) (rest : List Nat)
    (h : (!(0 ≤ i && i ≤ 4294967295) || libIntFollowOk rest) = true) :
    ObjParser.parseFromToken (f + 1) (.int i) rest = .ok (.int i, rest) := by
  rw [ObjParser.parseFromToken]
  unfold ObjParser.intArm ObjParser.intArmW
  by_cases hr : (0 ≤ i && i ≤ 4294967295) = true
  · simp [hr] at h
    simp only [hr, Bool.not_true, Bool.false_eq_true, if_false]
    unfold libIntFollowOk at h
    cases hn : Lexer.next rest with
    | error e => simp [hn] at h
    | ok p =>
      obtain ⟨tok, r2⟩ := p
      rw [hn] at h
      cases tok <;> try rfl
      rename_i g
      simp only at h ⊢
      by_cases hg : (0 ≤ g && g ≤ 65535) = true
      · simp only [hg, if_true] at h ⊢
        cases hn2 : Lexer.next r2 with
        | error e => simp [hn2] at h
        | ok p2 =>
          obtain ⟨tok2, r3⟩ := p2
          rw [hn2] at h
          cases tok2 <;> try rfl
          rename_i cs
          split
          · rename_i heq
            simp at heq
          · rename_i heq
            injection heq with heq
            injection heq with h1 h2
            injection h1 with h1
            subst h1
            simp at h
            simp [h]
          · rfl
      · simp only [hg, Bool.false_eq_true, if_false]
  · simp [hr]

theorem lib_next_R (rest : List Nat) : Lexer.next (32 :: 82 :: rest) = .ok (.name [82], rest) := by
  simp [Lexer.next, Lexer.nextToken, Lexer.isAsciiWs, Lexer.isDigit]

/-- `n g R` is recognised by the look-ahead when `n ≤ u32::MAX` and `g ≤ 65535` -/
theorem lib_pft_ref (f n g : Nat) (rest : List Nat) (hn : n ≤ 4294967295) (hg : g ≤ 65535) :
    ObjParser.parseFromToken (f + 1) (.int (Int.ofNat n)) (32 :: (showNat g ++ 32 :: 82 :: rest))
      = .ok (.ref n g, rest) := by
  obtain ⟨b, r, hbr, hbd⟩ := allDigits_head _ (showNat_digits g) (showNat_ne_nil g)
  have h1 : Lexer.next (32 :: (showNat g ++ 32 :: 82 :: rest)) = .ok (.int (Int.ofNat g), 32 :: 82 :: rest) := by
    rw [lib_next_ws 32 _ (by decide), hbr]
    simp only [List.cons_append]
    rw [lib_next_number b _ (Or.inl hbd)]
    have := lib_readNumber_int false (showNat g) (32 :: 82 :: rest) (showNat_digits g) (showNat_ne_nil g)
      (by simp [libEnds, Lexer.isBreak, Lexer.isAsciiWs]) (by simp [showNat_val]; omega)
    simp only [Bool.false_eq_true, if_false, List.nil_append, showNat_val] at this
    rw [hbr] at this
    simpa using this
  rw [ObjParser.parseFromToken]
  unfold ObjParser.intArm ObjParser.intArmW
  have hr1 : (0 ≤ (Int.ofNat n) && (Int.ofNat n) ≤ 4294967295) = true := by simp; omega
  have hr2 : (0 ≤ (Int.ofNat g) && (Int.ofNat g) ≤ 65535) = true := by simp; omega
  have hb : Lexer.bareRAhead (32 :: 82 :: rest) = true := by
    simp [Lexer.bareRAhead, Lexer.isAsciiWs]
  simp only [hr1, Bool.not_true, Bool.false_eq_true, if_false, h1, hr2, if_true, lib_next_R]
  simp [hb]

theorem lib_afterDict (f : Nat) (rest : List Nat) (h : libDictFollowOk rest = true) :
    ObjParser.afterDict (f + 1) rest = .ok rest := by
  rw [ObjParser.afterDict]
  unfold libDictFollowOk at h
  cases hn : Lexer.next rest with
  | error e => simp [hn] at h
  | ok p =>
    obtain ⟨tok, r2⟩ := p
    rw [hn] at h
    cases tok <;> first | rfl | simp at h


theorem intVal_digits (a : List Nat) (ha : Syntax.allDigits a = true) :
    Syntax.intVal a = Int.ofNat (Syntax.digitsVal a 0) := by
  simp [Syntax.intVal, stripSign_digits a ha]

theorem intVal_neg (a : List Nat) : Syntax.intVal (45 :: a) = - Int.ofNat (Syntax.digitsVal a 0) := by
  simp [Syntax.intVal, Syntax.stripSign]

/-- a decimal token through `next_token` + `parse_from_token`: an integer token inside `i64` is an
    integer, any other decimal token (fraction part, or digits outside `i64`) a real carrying it -/
theorem lib_dectok (f : Nat) (tok rest : List Nat) (hdec : IsDecTok tok = true)
    (hr : libEnds rest = true)
    (hint : Syntax.isIntTok tok = true →
        (!(0 ≤ Syntax.intVal tok && Syntax.intVal tok ≤ 4294967295) || libIntFollowOk rest) = true) :
    ∃ t r1, Lexer.next (tok ++ rest) = .ok (t, r1) ∧ (t == Token.arrayEnd) = false ∧
      t.isComment = false ∧
      ObjParser.parseFromToken (f + 1) t r1 =
        .ok (if Syntax.isIntTok tok && inI64 (Syntax.intVal tok) then Obj.int (Syntax.intVal tok)
             else Obj.real tok, rest) := by
  obtain ⟨_, b, r, hbr, hb⟩ := IsDecTok_regular tok hdec
  have hnext : Lexer.next (tok ++ rest) = Lexer.readNumber (tok ++ rest) := by
    rw [hbr]; exact lib_next_number b _ hb
  obtain ⟨neg, a, hane, ha, hshape⟩ := IsDecTok_shape tok hdec
  rcases hshape with ht | ⟨fr, _, hf, ht⟩
  · -- integer token
    have hit : Syntax.isIntTok tok = true := by
      subst ht
      cases neg with
      | false => simp [Syntax.isIntTok, stripSign_digits a ha, ha, hane]
      | true => simp [Syntax.isIntTok, Syntax.stripSign, ha, hane]
    have hfollow := hint hit
    have hiv : Syntax.intVal tok =
        (if neg then - Int.ofNat (Syntax.digitsVal a 0) else Int.ofNat (Syntax.digitsVal a 0)) := by
      subst ht
      cases neg with
      | false => simpa using intVal_digits a ha
      | true => simpa using intVal_neg a
    by_cases hfit : inI64 (Syntax.intVal tok) = true
    · have hfit' : if neg then Syntax.digitsVal a 0 ≤ 9223372036854775808
          else Syntax.digitsVal a 0 ≤ 9223372036854775807 := by
        rw [hiv] at hfit
        cases neg with
        | false => simp [inI64] at hfit ⊢; omega
        | true => simp [inI64] at hfit ⊢; omega
      have hrn := lib_readNumber_int neg a rest ha hane hr hfit'
      rw [← ht, ← hiv] at hrn
      refine ⟨.int (Syntax.intVal tok), rest, by rw [hnext, hrn], rfl, rfl, ?_⟩
      rw [lib_pft_int f _ rest hfollow]
      simp [hit, hfit]
    · have hbig : if neg then 9223372036854775808 < Syntax.digitsVal a 0
          else 9223372036854775807 < Syntax.digitsVal a 0 := by
        rw [hiv] at hfit
        cases neg with
        | false => simp [inI64] at hfit ⊢; omega
        | true => simp [inI64] at hfit ⊢; omega
      have hrn := lib_readNumber_int_big neg a rest ha hane hr hbig
      rw [← ht] at hrn
      refine ⟨.real tok, rest, by rw [hnext, hrn], rfl, rfl, ?_⟩
      rw [ObjParser.parseFromToken]
      simp [hfit]
  · have hrn := lib_readNumber_frac neg a fr rest ha hane hf hr
    rw [← ht] at hrn
    have hni : Syntax.isIntTok tok = false := by
      rw [ht]; exact (classify_frac neg a fr rest ha hane hf).1
    refine ⟨.real tok, rest, by rw [hnext, hrn], rfl, rfl, ?_⟩
    rw [ObjParser.parseFromToken]
    simp [hni]

theorem showInt_isDecTok (i : Int) : IsDecTok (showInt i) = true ∧ Syntax.isIntTok (showInt i) = true ∧
    Syntax.intVal (showInt i) = i := by
  cases i with
  | ofNat n =>
    have hd := showNat_digits n
    have hne := showNat_ne_nil n
    obtain ⟨b, r, hbr, hbd⟩ := allDigits_head _ hd hne
    refine ⟨?_, ?_, ?_⟩
    · show IsDecTok (showNat n) = true
      have h45 : b ≠ 45 := by simp [Syntax.isDigit] at hbd; omega
      have hnd : ∀ l : List Nat, Syntax.allDigits l = true → Syntax.splitDot l = (l, none) := by
        intro l hl
        induction l with
        | nil => rfl
        | cons x xs ih =>
          simp [Syntax.allDigits, Syntax.isDigit] at hl
          have hx : x ≠ 46 := by omega
          simp [Syntax.splitDot, hx, ih hl.2]
      have hdm : dropMinus (showNat n) = showNat n := by
        rw [hbr]
        unfold dropMinus
        split
        · rename_i heq; injection heq with e _; exact absurd e h45
        · rfl
      unfold IsDecTok
      rw [hdm, hnd _ hd]
      simp [hd, hne]
    · show Syntax.isIntTok (showNat n) = true
      simp [Syntax.isIntTok, stripSign_digits _ hd, hd, hne]
    · show Syntax.intVal (showNat n) = _
      rw [intVal_digits _ hd, showNat_val]
  | negSucc n =>
    have hd := showNat_digits (n + 1)
    have hne := showNat_ne_nil (n + 1)
    have hnd : ∀ l : List Nat, Syntax.allDigits l = true → Syntax.splitDot l = (l, none) := by
      intro l hl
      induction l with
      | nil => rfl
      | cons x xs ih =>
        simp [Syntax.allDigits, Syntax.isDigit] at hl
        have hx : x ≠ 46 := by omega
        simp [Syntax.splitDot, hx, ih hl.2]
    refine ⟨?_, ?_, ?_⟩
    · show IsDecTok (45 :: showNat (n + 1)) = true
      simp [IsDecTok, dropMinus, hnd _ hd, hd, hne]
    · show Syntax.isIntTok (45 :: showNat (n + 1)) = true
      simp [Syntax.isIntTok, Syntax.stripSign, hd, hne]
    · show Syntax.intVal (45 :: showNat (n + 1)) = _
      rw [intVal_neg, showNat_val]; rfl


theorem lib_next_lbracket (r : List Nat) : Lexer.next (91 :: r) = .ok (.arrayStart, r) := by
  simp [Lexer.next, Lexer.nextToken, Lexer.isAsciiWs]

theorem lib_next_rbracket (r : List Nat) : Lexer.next (93 :: r) = .ok (.arrayEnd, r) := by
  simp [Lexer.next, Lexer.nextToken, Lexer.isAsciiWs]

theorem lib_next_dictStart (r : List Nat) : Lexer.next (60 :: 60 :: r) = .ok (.dictStart, r) := by
  simp [Lexer.next, Lexer.nextToken, Lexer.isAsciiWs]

theorem lib_next_dictEnd (r : List Nat) : Lexer.next (10 :: 62 :: 62 :: r) = .ok (.dictEnd, r) := by
  simp [Lexer.next, Lexer.nextToken, Lexer.isAsciiWs]

theorem parseObj_of_first (f : Nat) (inp : List Nat) (t : Token) (r1 : List Nat)
    (res : Lexer.Res (Obj × List Nat))
    (h1 : Lexer.next inp = .ok (t, r1)) (h2 : ObjParser.parseFromToken f t r1 = res) :
    ObjParser.parseObj (f + 1) inp = res := by
  rw [ObjParser.parseObj, h1]; exact h2

mutual
/-- first token + `parse_from_token`: the written value comes back, exactly `rest` is left -/
theorem lib_first_roundtrip : ∀ (v : Obj) (rest : List Nat) (fuel : Nat),
    SafeLib v rest = true → needFT v ≤ fuel →
    ∃ t r1, Lexer.next (serRaw v ++ rest) = .ok (t, r1) ∧ (t == Token.arrayEnd) = false ∧
      t.isComment = false ∧ ObjParser.parseFromToken fuel t r1 = .ok (readBackLib v, rest)
  | .null, rest, fuel, hs, hf => by
    obtain ⟨f, rfl⟩ : ∃ f, fuel = f + 1 := ⟨fuel - 1, by simp [needFT] at hf; omega⟩
    exact ⟨.null, rest, lib_next_null rest (by simpa [SafeLib] using hs), rfl, rfl,
      by rw [ObjParser.parseFromToken]; rfl⟩
  | .bool b, rest, fuel, hs, hf => by
    obtain ⟨f, rfl⟩ : ∃ f, fuel = f + 1 := ⟨fuel - 1, by simp [needFT] at hf; omega⟩
    have hr : libEnds rest = true := by simpa [SafeLib] using hs
    cases b with
    | true => exact ⟨.bool true, rest, lib_next_true rest hr, rfl, rfl, by rw [ObjParser.parseFromToken]; rfl⟩
    | false => exact ⟨.bool false, rest, lib_next_false rest hr, rfl, rfl, by rw [ObjParser.parseFromToken]; rfl⟩
  | .int i, rest, fuel, hs, hf => by
    obtain ⟨f, rfl⟩ : ∃ f, fuel = f + 1 := ⟨fuel - 1, by simp [needFT] at hf; omega⟩
    simp only [SafeLib, Bool.and_eq_true] at hs
    obtain ⟨hdec, hit, hiv⟩ := showInt_isDecTok i
    have := lib_dectok f (showInt i) rest hdec hs.1.2 (by
      intro _; rw [hiv]; exact hs.2)
    rw [hit, hiv, hs.1.1] at this
    simpa [serRaw, readBackLib] using this
  | .real t, rest, fuel, hs, hf => by
    obtain ⟨f, rfl⟩ : ∃ f, fuel = f + 1 := ⟨fuel - 1, by simp [needFT] at hf; omega⟩
    simp only [SafeLib, Bool.and_eq_true] at hs
    have := lib_dectok f (trimReal t) rest hs.1.1 hs.1.2 (by
      intro hit
      have h2 := hs.2
      rw [if_pos hit] at h2
      simpa using h2)
    simpa [serRaw, readBackLib, readBackRealLib] using this
  | .str s, rest, fuel, _, hf => by
    obtain ⟨f, rfl⟩ : ∃ f, fuel = f + 1 := ⟨fuel - 1, by simp [needFT] at hf; omega⟩
    exact ⟨.str s, rest, lib_next_str s rest, rfl, rfl, by rw [ObjParser.parseFromToken]; rfl⟩
  | .hexstr s, rest, fuel, hs, hf => by
    obtain ⟨f, rfl⟩ : ∃ f, fuel = f + 1 := ⟨fuel - 1, by simp [needFT] at hf; omega⟩
    have hb : allB (fun b => b < 256) s = true := by simpa [SafeLib] using hs
    exact ⟨.str s, rest, lib_next_hexstr s rest hb, rfl, rfl, by rw [ObjParser.parseFromToken]; rfl⟩
  | .name n, rest, fuel, hs, hf => by
    obtain ⟨f, rfl⟩ : ∃ f, fuel = f + 1 := ⟨fuel - 1, by simp [needFT] at hf; omega⟩
    simp only [SafeLib, Bool.and_eq_true] at hs
    exact ⟨.name n, rest, lib_next_name n rest hs.1 hs.2, rfl, rfl, by rw [ObjParser.parseFromToken]; rfl⟩
  | .ref n g, rest, fuel, hs, hf => by
    obtain ⟨f, rfl⟩ : ∃ f, fuel = f + 1 := ⟨fuel - 1, by simp [needFT] at hf; omega⟩
    simp only [SafeLib, Bool.and_eq_true, decide_eq_true_eq] at hs
    obtain ⟨b, r, hbr, hbd⟩ := allDigits_head _ (showNat_digits n) (showNat_ne_nil n)
    have h1 : Lexer.next (serRaw (.ref n g) ++ rest)
        = .ok (.int (Int.ofNat n), 32 :: (showNat g ++ 32 :: 82 :: rest)) := by
      have e : serRaw (.ref n g) ++ rest = showNat n ++ (32 :: (showNat g ++ 32 :: 82 :: rest)) := by
        simp [serRaw]
      rw [e, hbr]
      simp only [List.cons_append]
      rw [lib_next_number b _ (Or.inl hbd)]
      have := lib_readNumber_int false (showNat n) (32 :: (showNat g ++ 32 :: 82 :: rest))
        (showNat_digits n) (showNat_ne_nil n)
        (by simp [libEnds, Lexer.isBreak, Lexer.isAsciiWs]) (by simp [showNat_val]; omega)
      simp only [Bool.false_eq_true, if_false, List.nil_append, showNat_val] at this
      rw [hbr] at this
      simpa using this
    exact ⟨_, _, h1, rfl, rfl, lib_pft_ref f n g rest hs.1.1 hs.1.2⟩
  | .arr xs, rest, fuel, hs, hf => by
    obtain ⟨f, rfl⟩ : ∃ f, fuel = f + 1 := ⟨fuel - 1, by simp [needFT] at hf; omega⟩
    have hsl : SafeLibElems true xs (93 :: rest) = true := by simpa [SafeLib] using hs
    have hfl : needArr xs ≤ f := by simp [needFT] at hf; omega
    have := lib_elems_roundtrip xs true rest f hsl hfl
    refine ⟨.arrayStart, serElems true xs ++ 93 :: rest, ?_, rfl, rfl, ?_⟩
    · have e : serRaw (.arr xs) ++ rest = 91 :: (serElems true xs ++ 93 :: rest) := by simp [serRaw]
      rw [e, lib_next_lbracket]
    · rw [ObjParser.parseFromToken]
      simp [this, readBackLib]
  | .dict kvs, rest, fuel, hs, hf => by
    obtain ⟨f, rfl⟩ : ∃ f, fuel = f + 1 := ⟨fuel - 1, by simp [needFT] at hf; omega⟩
    simp only [SafeLib, Bool.and_eq_true] at hs
    have hfl : needDict kvs ≤ f := by simp [needFT] at hf; omega
    obtain ⟨f', rfl⟩ : ∃ f', f = f' + 1 := ⟨f - 1, by simp [needFT] at hf; omega⟩
    have := lib_entries_roundtrip kvs rest (f' + 1) hs.1 hfl
    refine ⟨.dictStart, serEntries kvs ++ 10 :: 62 :: 62 :: rest, ?_, rfl, rfl, ?_⟩
    · have e : serRaw (.dict kvs) ++ rest = 60 :: 60 :: (serEntries kvs ++ 10 :: 62 :: 62 :: rest) := by
        simp [serRaw]
      rw [e, lib_next_dictStart]
    · rw [ObjParser.parseFromToken]
      simp [this, lib_afterDict f' rest hs.2, readBackLib]

theorem lib_elems_roundtrip : ∀ (xs : List Obj) (first : Bool) (rest : List Nat) (fuel : Nat),
    SafeLibElems first xs (93 :: rest) = true → needArr xs ≤ fuel →
    ObjParser.parseArray fuel (serElems first xs ++ 93 :: rest) = .ok (readBackLibList xs, rest)
  | [], first, rest, fuel, _, hf => by
    obtain ⟨f, rfl⟩ : ∃ f, fuel = f + 1 := ⟨fuel - 1, by simp [needArr] at hf; omega⟩
    rw [ObjParser.parseArray]
    simp [serElems, lib_next_rbracket, readBackLibList]
  | x :: xs, first, rest, fuel, hs, hf => by
    obtain ⟨f, rfl⟩ : ∃ f, fuel = f + 1 := ⟨fuel - 1, by simp [needArr] at hf; omega⟩
    simp only [SafeLibElems, Bool.and_eq_true] at hs
    have hfx : needFT x ≤ f := by simp [needArr] at hf; omega
    have hfl : needArr xs ≤ f := by simp [needArr] at hf; omega
    obtain ⟨t, r1, hn, hne, hnc, hp⟩ :=
      lib_first_roundtrip x (serElems false xs ++ 93 :: rest) f hs.1 hfx
    have ihl := lib_elems_roundtrip xs false rest f hs.2 hfl
    have hn' : Lexer.next (serElems first (x :: xs) ++ 93 :: rest) = .ok (t, r1) := by
      cases first with
      | true => simpa [serElems] using hn
      | false =>
        have : serElems false (x :: xs) ++ 93 :: rest
            = 32 :: (serRaw x ++ (serElems false xs ++ 93 :: rest)) := by simp [serElems]
        rw [this, lib_next_ws 32 _ (by decide)]; exact hn
    rw [ObjParser.parseArray, hn']
    simp [hne, hnc, hp, ihl, readBackLibList]

theorem lib_entries_roundtrip : ∀ (kvs : List (List Nat × Obj)) (rest : List Nat) (fuel : Nat),
    SafeLibEntries kvs (10 :: 62 :: 62 :: rest) = true → needDict kvs ≤ fuel →
    ObjParser.parseDictInner fuel (serEntries kvs ++ 10 :: 62 :: 62 :: rest)
      = .ok (readBackLibKVs kvs, rest)
  | [], rest, fuel, _, hf => by
    obtain ⟨f, rfl⟩ : ∃ f, fuel = f + 1 := ⟨fuel - 1, by simp [needDict] at hf; omega⟩
    rw [ObjParser.parseDictInner]
    simp [serEntries, lib_next_dictEnd, readBackLibKVs]
  | (k, v) :: kvs, rest, fuel, hs, hf => by
    obtain ⟨f, rfl⟩ : ∃ f, fuel = f + 1 := ⟨fuel - 1, by simp [needDict] at hf; omega⟩
    obtain ⟨f', rfl⟩ : ∃ f', f = f' + 1 := ⟨f - 1, by simp [needDict] at hf; omega⟩
    simp only [SafeLibEntries, Bool.and_eq_true] at hs
    have hfv : needFT v ≤ f' := by simp [needDict] at hf; omega
    have hfl : needDict kvs ≤ f' + 1 := by simp [needDict] at hf; omega
    obtain ⟨t, r1, hn, _, _, hp⟩ :=
      lib_first_roundtrip v (serEntries kvs ++ 10 :: 62 :: 62 :: rest) f' hs.1.2 hfv
    have ihl := lib_entries_roundtrip kvs rest (f' + 1) hs.2 hfl
    have hname := lib_next_name k (32 :: (serRaw v ++ (serEntries kvs ++ 10 :: 62 :: 62 :: rest)))
      hs.1.1 (by simp [libEnds, Lexer.isBreak, Lexer.isAsciiWs])
    have hv : ObjParser.parseObj (f' + 1) (32 :: (serRaw v ++ (serEntries kvs ++ 10 :: 62 :: 62 :: rest)))
        = .ok (readBackLib v, serEntries kvs ++ 10 :: 62 :: 62 :: rest) :=
      parseObj_of_first f' _ t r1 _ (by rw [lib_next_ws 32 _ (by decide)]; exact hn) hp
    have e : serEntries ((k, v) :: kvs) ++ 10 :: 62 :: 62 :: rest
        = 10 :: (47 :: escapeName k ++ 32 :: (serRaw v ++ (serEntries kvs ++ 10 :: 62 :: 62 :: rest))) := by
      simp [serEntries]
    rw [e, ObjParser.parseDictInner, lib_next_ws 10 _ (by decide), hname]
    simp [hv, ihl, readBackLibKVs]
end

/-- `PdfObject::parse` started on the written value -/
theorem lib_parseObj_roundtrip (v : Obj) (rest : List Nat) (fuel : Nat)
    (hs : SafeLib v rest = true) (hf : needFT v + 1 ≤ fuel) :
    ObjParser.parseObj fuel (serRaw v ++ rest) = .ok (readBackLib v, rest) := by
  obtain ⟨f, rfl⟩ : ∃ f, fuel = f + 1 := ⟨fuel - 1, by omega⟩
  obtain ⟨t, r1, hn, _, _, hp⟩ := lib_first_roundtrip v rest f hs (by omega)
  exact parseObj_of_first f _ t r1 _ hn hp

end OxiVerif.C09
