import OxiVerif.Model.C12Bytes
/-!
Helper lemmas for the byte-level part of C12 (Model/C12Bytes.lean).
-/
namespace OxiVerif.C12

/-- the glyph loop of `build_subset_font` produces exactly the offsets of the abstract
    `glyphOffsets` (running sum of the glyph lengths, each padded to even) -/
theorem buildGlyf_offsets : ∀ (gs : List Bytes) (cur : Nat),
    (buildGlyf cur gs).1 = glyphOffsets cur (gs.map List.length)
  | [], cur => rfl
  | g :: gs, cur => by
    simp only [buildGlyf, List.map_cons, glyphOffsets]
    congr 1
    rw [buildGlyf_offsets gs]
    congr 1
    unfold padEven
    split <;> simp <;> omega

/-- the unrepaired loop produces the unpadded running sum -/
theorem buildGlyfOld_offsets : ∀ (gs : List Bytes) (cur : Nat),
    (buildGlyfOld cur gs).1 = glyphOffsetsOld cur (gs.map List.length)
  | [], cur => rfl
  | g :: gs, cur => by
    simp only [buildGlyfOld, List.map_cons, glyphOffsetsOld]
    rw [buildGlyfOld_offsets gs]

end OxiVerif.C12
