import OxiVerif.Model.C12Bytes
/-!
Helper lemmas for the byte-level part of C12 (Model/C12Bytes.lean).
-/
namespace OxiVerif.C12

/-- the glyph loop of `build_subset_font` produces exactly the offsets of the abstract
    `glyphOffsets` (running sum of the glyph lengths, each padded to even) -/
theorem buildGlyf_offsets : ∀ (gs : List Bytes) (cur : Nat),
    (buildGlyf cur gs).1 = glyphOffsets cur (gs.map List.length)
  | [], cur => rfl
  | g :: gs, cur => by
    simp only [buildGlyf, List.map_cons, glyphOffsets]
    congr 1
    rw [buildGlyf_offsets gs]
    congr 1
    unfold padEven
    split <;> simp <;> omega

/-- the unrepaired loop produces the unpadded running sum -/
theorem buildGlyfOld_offsets : ∀ (gs : List Bytes) (cur : Nat),
    (buildGlyfOld cur gs).1 = glyphOffsetsOld cur (gs.map List.length)
  | [], cur => rfl
  | g :: gs, cur => by
    simp only [buildGlyfOld, List.map_cons, glyphOffsetsOld]
    rw [buildGlyfOld_offsets gs]

/-! ### `strip_glyph_instructions` -/

theorem setU16_length (d : Bytes) (o v : Nat) : (setU16 d o v).length = d.length := by
  simp [setU16]

theorem stripComposite_length_le (g : Bytes) : (stripComposite g).length ≤ g.length := by
  unfold stripComposite
  split
  · exact Nat.le_refl _
  · simp only []
    split
    · exact Nat.le_refl _
    · rw [setU16_length]; simp [List.length_take]; omega

/-- stripping never grows a glyph -/
theorem stripInstructions_length_le (g : Bytes) : (stripInstructions g).length ≤ g.length := by
  unfold stripInstructions
  split
  · exact Nat.le_refl _
  · split
    · exact stripComposite_length_le g
    · simp only []
      split
      · exact Nat.le_refl _
      · split
        · exact Nat.le_refl _
        · split
          · exact Nat.le_refl _
          · simp [List.length_append, List.length_take, List.length_drop]; omega

/-- a simple glyph with a non-empty, in-range hinting program: the result is the header and
    endPts, a zero instructionLength, and the untouched flag/coordinate bytes -/
theorem stripInstructions_simple (g : Bytes) (h12 : 12 ≤ g.length) (hs : u16At g 0 < 32768)
    (hil : u16At g (10 + u16At g 0 * 2) ≠ 0)
    (hin : 10 + u16At g 0 * 2 + 2 + u16At g (10 + u16At g 0 * 2) ≤ g.length) :
    stripInstructions g = g.take (10 + u16At g 0 * 2) ++ [0, 0] ++ g.drop (10 + u16At g 0 * 2 + 2 + u16At g (10 + u16At g 0 * 2)) := by
  unfold stripInstructions
  have h1 : ¬ g.length < 12 := by omega
  have h2 : ¬ u16At g 0 ≥ 32768 := by omega
  have h3 : ¬ (10 + u16At g 0 * 2 + 2 > g.length) := by omega
  have h4 : ¬ (10 + u16At g 0 * 2 + 2 + u16At g (10 + u16At g 0 * 2) > g.length) := by omega
  simp only [h1, h2, h3, h4, hil, if_false]

theorem u16At_append_zero (a b : Bytes) (off : Nat) (hl : a.length = off) :
    u16At (a ++ [0, 0] ++ b) off = 0 := by
  subst hl
  unfold u16At
  simp [List.getD_eq_getElem?_getD]

/-- … and stripping is idempotent there: the stripped glyph has instructionLength 0 -/
theorem stripInstructions_simple_instrLen (g : Bytes) (h12 : 12 ≤ g.length) (hs : u16At g 0 < 32768)
    (hil : u16At g (10 + u16At g 0 * 2) ≠ 0)
    (hin : 10 + u16At g 0 * 2 + 2 + u16At g (10 + u16At g 0 * 2) ≤ g.length) :
    u16At (stripInstructions g) (10 + u16At g 0 * 2) = 0 := by
  rw [stripInstructions_simple g h12 hs hil hin]
  have hl : (g.take (10 + u16At g 0 * 2)).length = 10 + u16At g 0 * 2 := by
    simp [List.length_take]; omega
  exact u16At_append_zero _ _ _ hl

end OxiVerif.C12
