import OxiVerif.Lemmas.C09
/-!
# Lemmas for C09 — the writer's tokens through the library's lexer model (`Model.Lexer`)
-/
namespace OxiVerif.C09
open OxiVerif.Spec.Syntax (Obj)
open OxiVerif.Model
open OxiVerif.Spec

/-! ## the two copies of the digit helpers agree -/

theorem lex_isDigit (b : Nat) : Lexer.isDigit b = Syntax.isDigit b := rfl

theorem lex_allDigits (t : List Nat) : Lexer.allDigits t = Syntax.allDigits t := by
  induction t with
  | nil => rfl
  | cons x xs ih => simp [Lexer.allDigits, Syntax.allDigits, ih, lex_isDigit]

theorem lex_digitsVal (t : List Nat) (acc : Nat) : Lexer.digitsVal t acc = Syntax.digitsVal t acc := by
  induction t generalizing acc with
  | nil => rfl
  | cons x xs ih => simp [Lexer.digitsVal, Syntax.digitsVal, ih]

theorem break_props (b : Nat) (h : Lexer.isBreak b = true) :
    Lexer.isDigit b = false ∧ b ≠ 46 ∧ b ≠ 101 ∧ b ≠ 69 ∧ b ≠ 43 ∧ b ≠ 45 := by
  simp [Lexer.isBreak, Lexer.isAsciiWs] at h
  simp [Lexer.isDigit]
  omega

/-! ## numbers -/

theorem takeMantissa_digits (hd : Bool) (a rest : List Nat) (ha : Syntax.allDigits a = true)
    (hr : libEnds rest = true ∨ (hd = true ∧ ∃ b r, rest = b :: r ∧ Lexer.isDigit b = false)) :
    Lexer.takeMantissa hd (a ++ rest) = (a, hd, rest) := by
  induction a with
  | nil =>
    cases rest with
    | nil => rfl
    | cons b r =>
      rcases hr with hr | ⟨hhd, b', r', e, hb'⟩
      · simp [libEnds] at hr
        have := break_props b hr
        simp [Lexer.takeMantissa, this.1, this.2.1]
      · injection e with e1 e2
        subst e1 e2 hhd
        simp [Lexer.takeMantissa, hb']
  | cons x xs ih =>
    simp [Syntax.allDigits] at ha
    simp [Lexer.takeMantissa, lex_isDigit, ha.1, ih ha.2]

theorem takeMantissa_frac (a f rest : List Nat) (ha : Syntax.allDigits a = true)
    (hf : Syntax.allDigits f = true) (hr : libEnds rest = true) :
    Lexer.takeMantissa false (a ++ 46 :: f ++ rest) = (a ++ 46 :: f, true, rest) := by
  have h2 : Lexer.takeMantissa true (f ++ rest) = (f, true, rest) :=
    takeMantissa_digits true f rest hf (Or.inl hr)
  induction a with
  | nil => simp [Lexer.takeMantissa, Lexer.isDigit, h2]
  | cons x xs ih =>
    simp [Syntax.allDigits] at ha
    have := ih ha.2
    simp only [List.cons_append, List.append_assoc] at this ⊢
    simp [Lexer.takeMantissa, lex_isDigit, ha.1, this]

theorem countDigits_pos (a : List Nat) (ha : Syntax.allDigits a = true) (hne : a ≠ []) (t : List Nat) :
    Lexer.countDigits (a ++ t) > 0 := by
  cases a with
  | nil => exact absurd rfl hne
  | cons x xs =>
    simp [Syntax.allDigits] at ha
    simp [Lexer.countDigits, lex_isDigit, ha.1]; omega

/-- what follows the number does not start an exponent -/
theorem noExp (rest : List Nat) (hr : libEnds rest = true) :
    Lexer.readExponent rest = (none, rest) := by
  cases rest with
  | nil => rfl
  | cons b r =>
    simp [libEnds] at hr
    have := break_props b hr
    simp [Lexer.readExponent, this.2.2.1, this.2.2.2.1]

theorem readSign_digit (b : Nat) (r : List Nat) (hb : Syntax.isDigit b = true) :
    Lexer.readSign (b :: r) = .ok ([], b :: r) := by
  simp [Syntax.isDigit] at hb
  have h43 : b ≠ 43 := by omega
  have h45 : b ≠ 45 := by omega
  simp [Lexer.readSign, h43, h45]

theorem readSign_minus (b : Nat) (r : List Nat) (hb : Syntax.isDigit b = true) :
    Lexer.readSign (45 :: b :: r) = .ok ([45], b :: r) := by
  simp [Lexer.readSign, lex_isDigit, hb]

theorem splitSign_digit (b : Nat) (r : List Nat) (hb : Syntax.isDigit b = true) :
    Lexer.splitSign (b :: r) = (false, b :: r) := by
  simp [Syntax.isDigit] at hb
  have h43 : b ≠ 43 := by omega
  have h45 : b ≠ 45 := by omega
  unfold Lexer.splitSign
  split
  · rename_i heq; injection heq with e _; exact absurd e h43
  · rename_i heq; injection heq with e _; exact absurd e h45
  · rfl

/-- an unsigned / signed run of digits is lexed as the integer it denotes (when it fits `i64`) -/
theorem lib_readNumber_int (neg : Bool) (a rest : List Nat) (ha : Syntax.allDigits a = true)
    (hne : a ≠ []) (hr : libEnds rest = true)
    (hfit : if neg then Syntax.digitsVal a 0 ≤ 9223372036854775808
            else Syntax.digitsVal a 0 ≤ 9223372036854775807) :
    Lexer.readNumber ((if neg then [45] else []) ++ a ++ rest) =
      .ok (.int (if neg then - Int.ofNat (Syntax.digitsVal a 0) else Int.ofNat (Syntax.digitsVal a 0)), rest) := by
  obtain ⟨b, r, hbr, hbd⟩ := allDigits_head a ha hne
  have hm := takeMantissa_digits false a rest ha (Or.inl hr)
  have hx := noExp rest hr
  have hemp : a.isEmpty = false := by
    cases a with
    | nil => exact absurd rfl hne
    | cons _ _ => rfl
  cases neg with
  | false =>
    simp only [Bool.false_eq_true, if_false, List.nil_append] at hfit ⊢
    have hp : Lexer.parseI64 a = some (Int.ofNat (Syntax.digitsVal a 0)) := by
      have hs : Lexer.splitSign a = (false, a) := by rw [hbr]; exact splitSign_digit b r hbd
      simp [Lexer.parseI64, hs, hemp, lex_allDigits, ha, lex_digitsVal, hfit]
    have hsg : Lexer.readSign (a ++ rest) = .ok ([], a ++ rest) := by
      rw [hbr]; exact readSign_digit b _ hbd
    simp [Lexer.readNumber, hsg, hm, hx, hp]
  | true =>
    simp only [if_true, List.singleton_append] at hfit ⊢
    have hp : Lexer.parseI64 (45 :: a) = some (- Int.ofNat (Syntax.digitsVal a 0)) := by
      simp [Lexer.parseI64, Lexer.splitSign, hemp, lex_allDigits, ha, lex_digitsVal, hfit]
    have hsg : Lexer.readSign (45 :: (a ++ rest)) = .ok ([45], a ++ rest) := by
      rw [hbr]; exact readSign_minus b _ hbd
    simp [Lexer.readNumber, hsg, hm, hx, hp]

/-- a run of digits outside `i64` is lexed as a real carrying exactly that token -/
theorem lib_readNumber_int_big (neg : Bool) (a rest : List Nat) (ha : Syntax.allDigits a = true)
    (hne : a ≠ []) (hr : libEnds rest = true)
    (hbig : if neg then 9223372036854775808 < Syntax.digitsVal a 0
            else 9223372036854775807 < Syntax.digitsVal a 0) :
    Lexer.readNumber ((if neg then [45] else []) ++ a ++ rest) =
      .ok (.real ((if neg then [45] else []) ++ a), rest) := by
  obtain ⟨b, r, hbr, hbd⟩ := allDigits_head a ha hne
  have hm := takeMantissa_digits false a rest ha (Or.inl hr)
  have hx := noExp rest hr
  have hemp : a.isEmpty = false := by
    cases a with
    | nil => exact absurd rfl hne
    | cons _ _ => rfl
  cases neg with
  | false =>
    simp only [Bool.false_eq_true, if_false, List.nil_append] at hbig ⊢
    have hnf : ¬ Syntax.digitsVal a 0 ≤ 9223372036854775807 := by omega
    have hs : Lexer.splitSign a = (false, a) := by rw [hbr]; exact splitSign_digit b r hbd
    have hp : Lexer.parseI64 a = none := by
      simp [Lexer.parseI64, hs, hemp, lex_allDigits, ha, lex_digitsVal, hnf]
    have ho : Lexer.overflowsI64 a = true := by
      simp [Lexer.overflowsI64, hs, hemp, lex_allDigits, ha, hp]
    have hsg : Lexer.readSign (a ++ rest) = .ok ([], a ++ rest) := by
      rw [hbr]; exact readSign_digit b _ hbd
    simp [Lexer.readNumber, hsg, hm, hx, hp, ho]
  | true =>
    simp only [if_true, List.singleton_append] at hbig ⊢
    have hnf : ¬ Syntax.digitsVal a 0 ≤ 9223372036854775808 := by omega
    have hp : Lexer.parseI64 (45 :: a) = none := by
      simp [Lexer.parseI64, Lexer.splitSign, hemp, lex_allDigits, ha, lex_digitsVal, hnf]
    have ho : Lexer.overflowsI64 (45 :: a) = true := by
      simp [Lexer.overflowsI64, Lexer.splitSign, hemp, lex_allDigits, ha, hp]
    have hsg : Lexer.readSign (45 :: (a ++ rest)) = .ok ([45], a ++ rest) := by
      rw [hbr]; exact readSign_minus b _ hbd
    simp [Lexer.readNumber, hsg, hm, hx, hp, ho]

/-- a decimal token with a fraction part is lexed as a real carrying exactly that token -/
theorem lib_readNumber_frac (neg : Bool) (a f rest : List Nat) (ha : Syntax.allDigits a = true)
    (hne : a ≠ []) (hf : Syntax.allDigits f = true) (hr : libEnds rest = true) :
    Lexer.readNumber ((if neg then [45] else []) ++ a ++ 46 :: f ++ rest) =
      .ok (.real ((if neg then [45] else []) ++ a ++ 46 :: f), rest) := by
  obtain ⟨b, r, hbr, hbd⟩ := allDigits_head a ha hne
  have hm := takeMantissa_frac a f rest ha hf hr
  have hx := noExp rest hr
  have hc := countDigits_pos a ha hne (46 :: f)
  cases neg with
  | false =>
    have hsg : Lexer.readSign (a ++ 46 :: f ++ rest) = .ok ([], a ++ 46 :: f ++ rest) := by
      rw [hbr]; exact readSign_digit b _ hbd
    simp only [Bool.false_eq_true, if_false, List.nil_append, List.append_assoc, List.cons_append] at hsg hm ⊢
    simp [Lexer.readNumber, hsg, hm, hx, Lexer.validF64, hc]
  | true =>
    have hsg : Lexer.readSign (45 :: (a ++ 46 :: f ++ rest)) = .ok ([45], a ++ 46 :: f ++ rest) := by
      rw [hbr]; exact readSign_minus b _ hbd
    simp only [if_true, List.singleton_append, List.cons_append, List.append_assoc] at hsg hm ⊢
    simp [Lexer.readNumber, hsg, hm, hx, Lexer.validF64, hc]


/-! ## `next_token` on the writer's tokens -/

theorem lib_next_ws (b : Nat) (r : List Nat) (h : Lexer.isAsciiWs b = true) :
    Lexer.next (b :: r) = Lexer.next r := by
  simp [Lexer.next, Lexer.nextToken, h]

theorem lib_next_number (b : Nat) (r : List Nat) (hb : Syntax.isDigit b = true ∨ b = 45) :
    Lexer.next (b :: r) = Lexer.readNumber (b :: r) := by
  have h : (48 ≤ b ∧ b ≤ 57) ∨ b = 45 := by
    rcases hb with hb | hb
    · simp [Syntax.isDigit] at hb; exact Or.inl hb
    · exact Or.inr hb
  have hws : Lexer.isAsciiWs b = false := by simp [Lexer.isAsciiWs]; omega
  have hnum : (b == 43 || b == 45 || Lexer.isDigit b || b == 46) = true := by
    simp [Lexer.isDigit]; omega
  have h1 : b ≠ 37 ∧ b ≠ 47 ∧ b ≠ 40 ∧ b ≠ 60 ∧ b ≠ 62 ∧ b ≠ 91 ∧ b ≠ 93 ∧ b ≠ 116 ∧ b ≠ 102 ∧ b ≠ 110 := by
    omega
  simp only [Lexer.next, Lexer.nextToken, hws, Bool.false_eq_true, if_false]
  simp [h1, hnum]

theorem readWord_of_all (w rest : List Nat) (hw : allB (fun b => !Lexer.isBreak b) w = true)
    (hr : libEnds rest = true) : Lexer.readWord (w ++ rest) = (w, rest) := by
  induction w with
  | nil =>
    cases rest with
    | nil => rfl
    | cons b r =>
      simp [libEnds] at hr
      simp [Lexer.readWord, hr]
  | cons x xs ih =>
    rw [allB_cons] at hw
    have h1 : Lexer.isBreak x = false := by simpa using hw.1
    simp [Lexer.readWord, h1, ih hw.2]

theorem lib_next_null (rest : List Nat) (hr : libEnds rest = true) :
    Lexer.next (kwNull ++ rest) = .ok (.null, rest) := by
  have := readWord_of_all kwNull rest (by decide) hr
  simp only [kwNull, List.cons_append, List.nil_append] at this
  simp [Lexer.next, Lexer.nextToken, kwNull, Lexer.isAsciiWs, this, Lexer.kwNull]

theorem lib_next_true (rest : List Nat) (hr : libEnds rest = true) :
    Lexer.next (kwTrue ++ rest) = .ok (.bool true, rest) := by
  have := readWord_of_all kwTrue rest (by decide) hr
  simp only [kwTrue, List.cons_append, List.nil_append] at this
  simp [Lexer.next, Lexer.nextToken, kwTrue, Lexer.isAsciiWs, this, Lexer.kwTrue]

theorem lib_next_false (rest : List Nat) (hr : libEnds rest = true) :
    Lexer.next (kwFalse ++ rest) = .ok (.bool false, rest) := by
  have := readWord_of_all kwFalse rest (by decide) hr
  simp only [kwFalse, List.cons_append, List.nil_append] at this
  simp [Lexer.next, Lexer.nextToken, kwFalse, Lexer.isAsciiWs, this, Lexer.kwTrue, Lexer.kwFalse]

/-- a raw ASCII name without terminators and `#` is lexed back verbatim -/
theorem lib_readName_raw (n d : List Nat) (hn : LibNameOk n = true) (hd : libEnds d = true) :
    Lexer.readName (n ++ d) = .ok (n, d) := by
  unfold Lexer.readName
  induction n with
  | nil =>
    cases d with
    | nil => rfl
    | cons b r =>
      simp [libEnds] at hd
      simp [Lexer.readNameSt, hd]
  | cons x xs ih =>
    unfold LibNameOk at hn ih
    rw [allB_cons] at hn
    have h1 := hn.1
    simp at h1
    simp [Lexer.readNameSt, h1.1.1, h1.1.2, ih hn.2, Lexer.consOut]

/-- a name written raw (the writer before commit 16fac722; content streams) -/
theorem lib_next_name_raw (n rest : List Nat) (hn : LibNameOk n = true) (hr : libEnds rest = true) :
    Lexer.next (47 :: n ++ rest) = .ok (.name n, rest) := by
  have := lib_readName_raw n rest hn hr
  simp [Lexer.next, Lexer.nextToken, Lexer.isAsciiWs, this]

/-- `escape_pdf_string_bytes` + the library's `read_literal_string`: exact for **every** byte string -/
theorem lib_readLit_escape (s rest : List Nat) :
    Lexer.readLit 0 .normal (escapePdfString s ++ 41 :: rest) = .ok (s, rest) := by
  induction s with
  | nil => simp [escapePdfString, Lexer.readLit]
  | cons x xs ih =>
    by_cases h92 : x = 92
    · subst h92
      simp [escapePdfString, Lexer.readLit, Lexer.consOut, Lexer.isOctal, ih]
    · by_cases h40 : x = 40
      · subst h40
        simp [escapePdfString, Lexer.readLit, Lexer.consOut, Lexer.isOctal, ih]
      · by_cases h41 : x = 41
        · subst h41
          simp [escapePdfString, Lexer.readLit, Lexer.consOut, Lexer.isOctal, ih]
        · by_cases h13 : x = 13
          · subst h13
            simp [escapePdfString, Lexer.readLit, Lexer.consOut, Lexer.isOctal, ih]
          · simp [escapePdfString, Lexer.readLit, Lexer.consOut, h92, h40, h41, h13, ih]

theorem lib_next_str (s rest : List Nat) :
    Lexer.next (40 :: (escapePdfString s ++ [41]) ++ rest) = .ok (.str s, rest) := by
  have := lib_readLit_escape s rest
  simp [Lexer.next, Lexer.nextToken, Lexer.isAsciiWs, this]

theorem lex_hexVal_hexDigitUpper (n : Nat) (h : n < 16) : Lexer.hexVal (hexDigitUpper n) = some n :=
  hexVal_hexDigitUpper n h

theorem lib_readHexStr (bs rest : List Nat) (hb : allB (fun b => b < 256) bs = true) :
    Lexer.readHexStr none (hexBytesUpper bs ++ 62 :: rest) = .ok (bs, rest) := by
  induction bs with
  | nil => simp [hexBytesUpper, Lexer.readHexStr]
  | cons x xs ih =>
    rw [allB_cons] at hb
    have hx : x < 256 := by simpa using hb.1
    have h1 := lex_hexVal_hexDigitUpper (x / 16 % 16) (by omega)
    have h2 := lex_hexVal_hexDigitUpper (x % 16) (by omega)
    have p1 := hexDigitUpper_plain (x / 16 % 16) (by omega)
    have p2 := hexDigitUpper_plain (x % 16) (by omega)
    simp [hexBytesUpper, Lexer.readHexStr, h1, h2, p1.1, p2.1, ih hb.2, Lexer.consOut]
    omega

theorem lib_next_hexstr (bs rest : List Nat) (hb : allB (fun b => b < 256) bs = true) :
    Lexer.next (60 :: (hexBytesUpper bs ++ [62]) ++ rest) = .ok (.str bs, rest) := by
  have := lib_readHexStr bs rest hb
  cases bs with
  | nil => simp [Lexer.next, Lexer.nextToken, Lexer.isAsciiWs, hexBytesUpper, Lexer.readHexStr]
  | cons x xs =>
    have hne : hexDigitUpper (x / 16 % 16) ≠ 60 := by
      unfold hexDigitUpper; split <;> omega
    simp [hexBytesUpper] at this
    simp [Lexer.next, Lexer.nextToken, Lexer.isAsciiWs, hexBytesUpper, hne, this]

/-! ### `escape_pdf_name_bytes` + `read_name` -/

theorem hexDigitUpper_ne_plus (k : Nat) (h : k < 16) : hexDigitUpper k ≠ 43 := by
  unfold hexDigitUpper
  by_cases h10 : k < 10
  · simp [h10]; omega
  · simp [h10]; omega

theorem nameRegular_not_break (b : Nat) (h : nameRegular b = true) :
    Lexer.isBreak b = false ∧ b ≠ 35 := by
  simp [nameRegular] at h
  simp [Lexer.isBreak, Lexer.isAsciiWs]
  omega

/-- **every** byte string: the `char`s `read_name` collects from `escape_pdf_name_bytes n` are
    exactly the bytes `n` (regular bytes `byte as char`, `#XX` decoded and pushed `value as char`) -/
theorem lib_readName_escName (n d : List Nat) (hb : NameBytes n = true) (hd : libEnds d = true) :
    Lexer.readName (escapeName n ++ d) = .ok (n, d) := by
  unfold Lexer.readName
  unfold NameBytes at hb
  induction n with
  | nil =>
    cases d with
    | nil => rfl
    | cons b r =>
      simp [libEnds] at hd
      simp [escapeName, Lexer.readNameSt, hd]
  | cons x xs ih =>
    rw [allB_cons] at hb
    have hx : x < 256 := by simpa using hb.1
    by_cases hp : nameRegular x = true
    · have := nameRegular_not_break x hp
      simp [escapeName, hp, Lexer.readNameSt, this.1, this.2, ih hb.2, Lexer.consOut]
    · simp only [Bool.not_eq_true] at hp
      have h1 := lex_hexVal_hexDigitUpper (x / 16 % 16) (by omega)
      have h2 := lex_hexVal_hexDigitUpper (x % 16) (by omega)
      have hn := hexDigitUpper_ne_plus (x / 16 % 16) (by omega)
      have h35 : Lexer.isBreak 35 = false := by decide
      simp [escapeName, hp, Lexer.readNameSt, h35, Lexer.hexPair, hn, h1, h2, ih hb.2, Lexer.consOut]
      omega

/-- the name token of the written name: `Token::Name` holds one `char` per written byte -/
theorem lib_next_name_bytes (n rest : List Nat) (hn : NameBytes n = true) (hr : libEnds rest = true) :
    Lexer.next (47 :: escapeName n ++ rest) = .ok (.name n, rest) := by
  have := lib_readName_escName n rest hn hr
  simp [Lexer.next, Lexer.nextToken, Lexer.isAsciiWs, this]

theorem NameAscii_bytes (n : List Nat) (h : NameAscii n = true) : NameBytes n = true := by
  unfold NameAscii at h
  unfold NameBytes
  induction n with
  | nil => rfl
  | cons x xs ih =>
    rw [allB_cons] at h ⊢
    refine ⟨?_, ih h.2⟩
    have := h.1
    simp at this ⊢
    omega

theorem lib_next_name (n rest : List Nat) (hn : NameAscii n = true) (hr : libEnds rest = true) :
    Lexer.next (47 :: escapeName n ++ rest) = .ok (.name n, rest) :=
  lib_next_name_bytes n rest (NameAscii_bytes n hn) hr

end OxiVerif.C09
