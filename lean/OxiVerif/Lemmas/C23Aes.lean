/-
The FIPS-197 transcription of `Spec/CryptoAes.lean` is a permutation pair:
`invCipher ks ∘ cipher ks = id = cipher ks ∘ invCipher ks` for EVERY key schedule `ks` (any list of
round keys — in particular those of every 16- or 32-byte key) and every block.

Algebraic route, no enumeration of blocks:
* SubBytes / InvSubBytes: the two 256-entry tables are mutually inverse (`decide` over the table);
* ShiftRows / InvShiftRows: field permutations (`rfl`);
* MixColumns / InvMixColumns: `xtime` is additive over `^^^` (lifted from the two possible values
  of the top bit), so both matrix products reduce to XOR-polynomials in `xtime^k` of the four
  column bytes, in which every term except the diagonal one occurs an even number of times
  (`{0e,0b,0d,09} · {02,03,01,01} = 1` needs no reduction modulo the field polynomial);
* AddRoundKey: XOR with the same key twice.
-/
import OxiVerif.Lemmas.C23
set_option linter.unusedSimpArgs false
set_option linter.unusedVariables false
namespace OxiVerif.Crypto

/-- a property of all 256 bytes follows from its 256 instances -/
theorem u8_forall (P : UInt8 → Prop) (h : ∀ n, n < 256 → P (UInt8.ofNat n)) : ∀ x, P x := by
  intro x
  have := h x.toNat (UInt8.toNat_lt x)
  simpa using this

/-! ### SubBytes -/

theorem invSubByte_subByte (x : UInt8) : invSubByte (subByte x) = x := by
  revert x; apply u8_forall; decide +kernel

theorem subByte_invSubByte (x : UInt8) : subByte (invSubByte x) = x := by
  revert x; apply u8_forall; decide +kernel

/-- the S-box is a permutation of the 256 bytes -/
theorem subByte_injective (x y : UInt8) (h : subByte x = subByte y) : x = y := by
  rw [← invSubByte_subByte x, ← invSubByte_subByte y, h]

/-! ### `xtime` is additive -/

theorem u8_and_xor_distrib_right (a b c : UInt8) : (a ^^^ b) &&& c = (a &&& c) ^^^ (b &&& c) := by
  apply UInt8.toBitVec_inj.1
  simp only [UInt8.toBitVec_and, UInt8.toBitVec_xor]
  ext i hi
  simp only [BitVec.getElem_and, BitVec.getElem_xor]
  cases a.toBitVec[i] <;> cases b.toBitVec[i] <;> cases c.toBitVec[i] <;> rfl

theorem u8_xor_left_comm (a b c : UInt8) : a ^^^ (b ^^^ c) = b ^^^ (a ^^^ c) := by
  rw [← UInt8.xor_assoc, UInt8.xor_comm a b, UInt8.xor_assoc]

theorem u8_xor_cancel_left (a b : UInt8) : a ^^^ (a ^^^ b) = b := by
  rw [← UInt8.xor_assoc, UInt8.xor_self, UInt8.zero_xor]

theorem msb_cases (x : UInt8) : x &&& 0x80 = 0 ∨ x &&& 0x80 = 0x80 := by
  revert x; apply u8_forall; decide +kernel

/-- multiplication by `x` in GF(2^8) distributes over addition (= XOR) -/
theorem xtime_xor (a b : UInt8) : xtime (a ^^^ b) = xtime a ^^^ xtime b := by
  unfold xtime
  rw [u8_and_xor_distrib_right, UInt8.shiftLeft_xor]
  rcases msb_cases a with ha | ha <;> rcases msb_cases b with hb | hb <;> rw [ha, hb] <;>
    simp [UInt8.xor_assoc, UInt8.xor_comm, u8_xor_left_comm, u8_xor_cancel_left]

theorem xtime_zero : xtime 0 = 0 := by decide

/-! ### MixColumns: the two circulant matrices are mutually inverse over GF(2^8) -/

/-- `{0e 0b 0d 09} ⊗ {02 03 01 01} = 1` on one column -/
theorem invMixColumn_mixColumn (a b c d : UInt8) :
    let e := m2 a ^^^ m3 b ^^^ c ^^^ d
    let f := a ^^^ m2 b ^^^ m3 c ^^^ d
    let g := a ^^^ b ^^^ m2 c ^^^ m3 d
    let h := m3 a ^^^ b ^^^ c ^^^ m2 d
    m14 e ^^^ m11 f ^^^ m13 g ^^^ m9 h = a ∧
    m9 e ^^^ m14 f ^^^ m11 g ^^^ m13 h = b ∧
    m13 e ^^^ m9 f ^^^ m14 g ^^^ m11 h = c ∧
    m11 e ^^^ m13 f ^^^ m9 g ^^^ m14 h = d := by
  intro e f g h
  simp only [e, f, g, h, m2, m3, m4, m8, m9, m11, m13, m14, xtime_xor]
  generalize xtime a = a1; generalize xtime a1 = a2; generalize xtime a2 = a3; generalize xtime a3 = a4
  generalize xtime b = b1; generalize xtime b1 = b2; generalize xtime b2 = b3; generalize xtime b3 = b4
  generalize xtime c = c1; generalize xtime c1 = c2; generalize xtime c2 = c3; generalize xtime c3 = c4
  generalize xtime d = d1; generalize xtime d1 = d2; generalize xtime d2 = d3; generalize xtime d3 = d4
  refine ⟨?_, ?_, ?_, ?_⟩ <;> ac_nf <;>
    simp only [u8_xor_cancel_left, UInt8.xor_self, UInt8.xor_zero]

/-- `{02 03 01 01} ⊗ {0e 0b 0d 09} = 1` on one column -/
theorem mixColumn_invMixColumn (a b c d : UInt8) :
    let e := m14 a ^^^ m11 b ^^^ m13 c ^^^ m9 d
    let f := m9 a ^^^ m14 b ^^^ m11 c ^^^ m13 d
    let g := m13 a ^^^ m9 b ^^^ m14 c ^^^ m11 d
    let h := m11 a ^^^ m13 b ^^^ m9 c ^^^ m14 d
    m2 e ^^^ m3 f ^^^ g ^^^ h = a ∧
    e ^^^ m2 f ^^^ m3 g ^^^ h = b ∧
    e ^^^ f ^^^ m2 g ^^^ m3 h = c ∧
    m3 e ^^^ f ^^^ g ^^^ m2 h = d := by
  intro e f g h
  simp only [e, f, g, h, m2, m3, m4, m8, m9, m11, m13, m14, xtime_xor]
  generalize xtime a = a1; generalize xtime a1 = a2; generalize xtime a2 = a3; generalize xtime a3 = a4
  generalize xtime b = b1; generalize xtime b1 = b2; generalize xtime b2 = b3; generalize xtime b3 = b4
  generalize xtime c = c1; generalize xtime c1 = c2; generalize xtime c2 = c3; generalize xtime c3 = c4
  generalize xtime d = d1; generalize xtime d1 = d2; generalize xtime d2 = d3; generalize xtime d3 = d4
  refine ⟨?_, ?_, ?_, ?_⟩ <;> ac_nf <;>
    simp only [u8_xor_cancel_left, UInt8.xor_self, UInt8.xor_zero]

namespace Blk

theorem invMixColumns_mixColumns (s : Blk) : s.mixColumns.invMixColumns = s := by
  obtain ⟨h0, h1, h2, h3⟩ := invMixColumn_mixColumn s.b0 s.b1 s.b2 s.b3
  obtain ⟨h4, h5, h6, h7⟩ := invMixColumn_mixColumn s.b4 s.b5 s.b6 s.b7
  obtain ⟨h8, h9, h10, h11⟩ := invMixColumn_mixColumn s.b8 s.b9 s.b10 s.b11
  obtain ⟨h12, h13, h14, h15⟩ := invMixColumn_mixColumn s.b12 s.b13 s.b14 s.b15
  cases s
  simp only [mixColumns, invMixColumns, mk.injEq]
  exact ⟨h0, h1, h2, h3, h4, h5, h6, h7, h8, h9, h10, h11, h12, h13, h14, h15⟩

theorem mixColumns_invMixColumns (s : Blk) : s.invMixColumns.mixColumns = s := by
  obtain ⟨h0, h1, h2, h3⟩ := mixColumn_invMixColumn s.b0 s.b1 s.b2 s.b3
  obtain ⟨h4, h5, h6, h7⟩ := mixColumn_invMixColumn s.b4 s.b5 s.b6 s.b7
  obtain ⟨h8, h9, h10, h11⟩ := mixColumn_invMixColumn s.b8 s.b9 s.b10 s.b11
  obtain ⟨h12, h13, h14, h15⟩ := mixColumn_invMixColumn s.b12 s.b13 s.b14 s.b15
  cases s
  simp only [mixColumns, invMixColumns, mk.injEq]
  exact ⟨h0, h1, h2, h3, h4, h5, h6, h7, h8, h9, h10, h11, h12, h13, h14, h15⟩

theorem invShiftRows_shiftRows (s : Blk) : s.shiftRows.invShiftRows = s := by cases s; rfl
theorem shiftRows_invShiftRows (s : Blk) : s.invShiftRows.shiftRows = s := by cases s; rfl

theorem invSubBytes_subBytes (s : Blk) : s.subBytes.invSubBytes = s := by
  cases s; simp only [subBytes, invSubBytes, map, invSubByte_subByte]

theorem subBytes_invSubBytes (s : Blk) : s.invSubBytes.subBytes = s := by
  cases s; simp only [subBytes, invSubBytes, map, subByte_invSubByte]

/-- AddRoundKey is an involution -/
theorem xor_xor_cancel (s k : Blk) : (s.xor k).xor k = s := by
  cases s; cases k; simp only [xor, xor_cancel]

theorem ofBytes_toBytes (s : Blk) : ofBytes s.toBytes = s := by cases s; rfl

theorem toBytes_length (s : Blk) : s.toBytes.length = 16 := rfl

theorem toBytes_ofBytes (b : Bytes) (h : b.length = 16) : (ofBytes b).toBytes = b := by
  match b, h with
  | [_, _, _, _, _, _, _, _, _, _, _, _, _, _, _, _], _ => rfl

end Blk

/-! ### Rounds and the whole cipher -/

theorem decRound_encRound (k s : Blk) : decRound k (encRound s k) = s := by
  unfold decRound encRound
  rw [Blk.xor_xor_cancel, Blk.invMixColumns_mixColumns, Blk.invShiftRows_shiftRows, Blk.invSubBytes_subBytes]

theorem encRound_decRound (k s : Blk) : encRound (decRound k s) k = s := by
  unfold decRound encRound
  rw [Blk.subBytes_invSubBytes, Blk.shiftRows_invShiftRows, Blk.mixColumns_invMixColumns, Blk.xor_xor_cancel]

theorem decFinal_encFinal (k s : Blk) : decFinal k (encFinal s k) = s := by
  unfold decFinal encFinal
  rw [Blk.xor_xor_cancel, Blk.invShiftRows_shiftRows, Blk.invSubBytes_subBytes]

theorem encFinal_decFinal (k s : Blk) : encFinal (decFinal k s) k = s := by
  unfold decFinal encFinal
  rw [Blk.subBytes_invSubBytes, Blk.shiftRows_invShiftRows, Blk.xor_xor_cancel]

theorem foldr_dec_foldl_enc (l : List Blk) (x : Blk) : l.foldr decRound (l.foldl encRound x) = x := by
  induction l generalizing x with
  | nil => rfl
  | cons k rest ih => simp only [List.foldl_cons, List.foldr_cons, ih, decRound_encRound]

theorem foldl_enc_foldr_dec (l : List Blk) (y : Blk) : l.foldl encRound (l.foldr decRound y) = y := by
  induction l generalizing y with
  | nil => rfl
  | cons k rest ih => simp only [List.foldl_cons, List.foldr_cons, encRound_decRound, ih]

/-- FIPS-197 InvCipher undoes Cipher — every round-key list, every block. -/
theorem invCipher_cipher (ks : KeySched) (x : Blk) : invCipher ks (cipher ks x) = x := by
  unfold invCipher cipher
  rw [decFinal_encFinal, foldr_dec_foldl_enc, Blk.xor_xor_cancel]

/-- … and Cipher undoes InvCipher: the block function is a permutation of the 2^128 blocks. -/
theorem cipher_invCipher (ks : KeySched) (y : Blk) : cipher ks (invCipher ks y) = y := by
  unfold invCipher cipher
  rw [Blk.xor_xor_cancel, foldl_enc_foldr_dec, encFinal_decFinal]

theorem cipher_injective (ks : KeySched) (x y : Blk) (h : cipher ks x = cipher ks y) : x = y := by
  rw [← invCipher_cipher ks x, ← invCipher_cipher ks y, h]

theorem cipher_surjective (ks : KeySched) (y : Blk) : ∃ x, cipher ks x = y :=
  ⟨invCipher ks y, cipher_invCipher ks y⟩

/-- the hypothesis of the CBC / ECB theorems holds for the FIPS-197 transcription, for every key
schedule (so in particular for the one of every 16- or 32-byte key) -/
theorem aes_blockInverse (ks : KeySched) : BlockInverse (aesEncBlock ks) (aesDecBlock ks) := by
  intro b hb
  refine ⟨Blk.toBytes_length _, ?_⟩
  unfold aesDecBlock aesEncBlock
  rw [Blk.ofBytes_toBytes, invCipher_cipher, Blk.toBytes_ofBytes b hb]

theorem aes_blockInverse' (ks : KeySched) : BlockInverse (aesDecBlock ks) (aesEncBlock ks) := by
  intro b hb
  refine ⟨Blk.toBytes_length _, ?_⟩
  unfold aesDecBlock aesEncBlock
  rw [Blk.ofBytes_toBytes, cipher_invCipher, Blk.toBytes_ofBytes b hb]

/-- the form in which C05 / C06 assume it (`AesOK`) -/
theorem aes_ok : ∀ key ks, keySched key = some ks → BlockInverse (aesEncBlock ks) (aesDecBlock ks) :=
  fun _ ks _ => aes_blockInverse ks

end OxiVerif.Crypto
