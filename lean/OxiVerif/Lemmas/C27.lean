import OxiVerif.Model.C27
/-!
Helper lemmas for C27 (no Mathlib needed).
-/
namespace OxiVerif.C27

/-! ### the sorted-list model of the `BTreeMap` -/

/-- keys strictly ascending -/
def Sorted (t : Tree) : Prop := t.Pairwise (fun a b => a.1 < b.1)

theorem sorted_nil : Sorted [] := List.Pairwise.nil

theorem mem_insert (k : Nat) (l : Label) (t : Tree) (hs : Sorted t) (e : Nat × Label) :
    e ∈ insert k l t ↔ e = (k, l) ∨ (e ∈ t ∧ e.1 ≠ k) := by
  induction t with
  | nil => simp [insert]
  | cons h t ih =>
    obtain ⟨k', l'⟩ := h
    have hs' : Sorted t := (List.pairwise_cons.1 hs).2
    have hlt : ∀ a ∈ t, k' < a.1 := fun a ha => (List.pairwise_cons.1 hs).1 a ha
    unfold insert
    by_cases h1 : k < k'
    · simp only [h1, if_true, List.mem_cons]
      constructor
      · rintro (h | h | h)
        · exact Or.inl h
        · subst h; exact Or.inr ⟨Or.inl rfl, by simp; omega⟩
        · exact Or.inr ⟨Or.inr h, by have := hlt e h; omega⟩
      · rintro (h | ⟨h | h, _⟩)
        · exact Or.inl h
        · exact Or.inr (Or.inl h)
        · exact Or.inr (Or.inr h)
    · by_cases h2 : k = k'
      · subst h2
        simp only [Nat.lt_irrefl, if_false, if_true, List.mem_cons]
        constructor
        · rintro (h | h)
          · exact Or.inl h
          · exact Or.inr ⟨Or.inr h, by have := hlt e h; omega⟩
        · rintro (h | ⟨h | h, hne⟩)
          · exact Or.inl h
          · subst h; simp at hne
          · exact Or.inr h
      · simp only [h1, h2, if_false, List.mem_cons, ih hs']
        constructor
        · rintro (h | h | ⟨h, hne⟩)
          · subst h; exact Or.inr ⟨Or.inl rfl, by simp; omega⟩
          · exact Or.inl h
          · exact Or.inr ⟨Or.inr h, hne⟩
        · rintro (h | ⟨h | h, hne⟩)
          · exact Or.inr (Or.inl h)
          · exact Or.inl h
          · exact Or.inr (Or.inr ⟨h, hne⟩)

theorem sorted_insert (k : Nat) (l : Label) (t : Tree) (hs : Sorted t) : Sorted (insert k l t) := by
  induction t with
  | nil => simp [insert, Sorted]
  | cons h t ih =>
    obtain ⟨k', l'⟩ := h
    have hs' : Sorted t := (List.pairwise_cons.1 hs).2
    have hlt : ∀ a ∈ t, k' < a.1 := fun a ha => (List.pairwise_cons.1 hs).1 a ha
    unfold insert
    by_cases h1 : k < k'
    · simp only [h1, if_true]
      refine List.pairwise_cons.2 ⟨?_, hs⟩
      intro a ha
      rcases List.mem_cons.1 ha with h | h
      · subst h; exact h1
      · have := hlt a h; simp only; omega
    · by_cases h2 : k = k'
      · subst h2
        simp only [Nat.lt_irrefl, if_false, if_true]
        exact List.pairwise_cons.2 ⟨fun a ha => hlt a ha, hs'⟩
      · simp only [h1, h2, if_false]
        refine List.pairwise_cons.2 ⟨?_, ih hs'⟩
        intro a ha
        rcases (mem_insert k l t hs' a).1 ha with h | ⟨h, _⟩
        · subst h; simp only; omega
        · exact hlt a h

theorem foldl_insert_sorted (adds : List (Nat × Label)) (t : Tree) (hs : Sorted t) :
    Sorted (adds.foldl (fun t a => insert a.1 a.2 t) t) := by
  induction adds generalizing t with
  | nil => exact hs
  | cons a r ih => exact ih _ (sorted_insert _ _ _ hs)

theorem sorted_build (adds : List (Nat × Label)) : Sorted (build adds) :=
  foldl_insert_sorted adds [] sorted_nil

/-! ### the `get_label` walk -/

theorem walk_all_gt (idx : Nat) (t : Tree) (cur : Option (Nat × Label))
    (h : ∀ e ∈ t, idx < e.1) : walk idx t cur = cur := by
  cases t with
  | nil => rfl
  | cons e t =>
    obtain ⟨s, l⟩ := e
    have : ¬ s ≤ idx := by have := h (s, l) (List.mem_cons_self); simp only at this; omega
    simp [walk, this]

theorem walk_greatest (idx : Nat) (t : Tree) (cur : Option (Nat × Label)) (hs : Sorted t)
    (s : Nat) (l : Label) (hm : (s, l) ∈ t) (hle : s ≤ idx)
    (hmax : ∀ e ∈ t, e.1 ≤ idx → e.1 ≤ s) : walk idx t cur = some (s, l) := by
  induction t generalizing cur with
  | nil => cases hm
  | cons e t ih =>
    obtain ⟨s', l'⟩ := e
    have hs' : Sorted t := (List.pairwise_cons.1 hs).2
    have hlt : ∀ a ∈ t, s' < a.1 := fun a ha => (List.pairwise_cons.1 hs).1 a ha
    rcases List.mem_cons.1 hm with h | h
    · injection h with h1 h2
      subst h1; subst h2
      simp only [walk, hle, if_true]
      apply walk_all_gt
      intro e he
      have h1 := hlt e he
      have h2 := hmax e (List.mem_cons_of_mem _ he)
      omega
    · have h1 := hlt (s, l) h
      simp only at h1
      have : s' ≤ idx := by omega
      simp only [walk, this, if_true]
      exact ih _ hs' h (fun e he => hmax e (List.mem_cons_of_mem _ he))

theorem walk_some_ne_none (idx : Nat) (t : Tree) (c : Nat × Label) :
    walk idx t (some c) ≠ none := by
  induction t generalizing c with
  | nil => simp [walk]
  | cons e t ih =>
    obtain ⟨s, l⟩ := e
    simp only [walk]
    split
    · exact ih _
    · simp

theorem walk_none_iff (idx : Nat) (t : Tree) (hs : Sorted t) :
    walk idx t none = none ↔ ∀ e ∈ t, idx < e.1 := by
  constructor
  · intro h
    cases t with
    | nil => intro e he; cases he
    | cons e t =>
      obtain ⟨s, l⟩ := e
      have hlt : ∀ a ∈ t, s < a.1 := fun a ha => (List.pairwise_cons.1 hs).1 a ha
      by_cases hle : s ≤ idx
      · simp only [walk, hle, if_true] at h
        exact absurd h (walk_some_ne_none _ _ _)
      · intro e he
        rcases List.mem_cons.1 he with h1 | h1
        · subst h1; simp only; omega
        · have := hlt e h1; omega
  · intro h; exact walk_all_gt idx t none h

theorem formatLabel_eq (l : Label) (o : Nat) :
    l.formatLabel o =
      if l.style ≠ .none then
        .label (l.pfx.getD [] ++ charsToBytes (l.style.format (min (l.start + o) U32_MAX)))
      else .label (l.pfx.getD []) := by
  unfold Label.formatLabel
  cases l.pfx <;> rfl

theorem formatLabel_ne_absent (l : Label) (o : Nat) : l.formatLabel o ≠ .absent := by
  rw [formatLabel_eq]
  split <;> simp

/-- since repair 707b2902 `format_label` never panics -/
theorem formatLabel_ne_panic (l : Label) (o : Nat) : l.formatLabel o ≠ .panic := by
  rw [formatLabel_eq]
  split <;> simp

/-- REGRESSION WITNESS: the pre-repair addition panicked for a /St close to `u32::MAX` -/
theorem formatLabelOld_panics : (⟨.decimal, none, 4294967295⟩ : Label).formatLabelOld 1 = .panic := by
  decide

/-! ### Roman numerals -/

theorem romanWhile_acc (v : Nat) (s : List Char) (fuel num : Nat) (acc : List Char) :
    romanWhile v s fuel num acc =
      (acc ++ (romanWhile v s fuel num []).1, (romanWhile v s fuel num []).2) := by
  induction fuel generalizing num acc with
  | zero => simp [romanWhile]
  | succ f ih =>
    simp only [romanWhile]
    split
    · rw [ih (num - v) (acc ++ s), ih (num - v) ([] ++ s)]
      simp
    · simp

theorem romanFor_acc (tbl : List (Nat × List Char)) (num : Nat) (acc : List Char) :
    romanFor tbl num acc = acc ++ romanFor tbl num [] := by
  induction tbl generalizing num acc with
  | nil => simp [romanFor]
  | cons e r ih =>
    obtain ⟨v, s⟩ := e
    simp only [romanFor]
    rw [romanWhile_acc v s num num acc, ih _ (acc ++ _), ih _ (romanWhile v s num num []).1]
    simp

theorem romanWhile_m (fuel num : Nat) (h : num / 1000 ≤ fuel) :
    romanWhile 1000 ['m'] fuel num [] = (List.replicate (num / 1000) 'm', num % 1000) := by
  induction fuel generalizing num with
  | zero =>
    have h0 : num / 1000 = 0 := by omega
    have : num % 1000 = num := by omega
    simp [romanWhile, h0, this]
  | succ f ih =>
    simp only [romanWhile]
    split
    · rename_i hge
      rw [romanWhile_acc, ih (num - 1000) (by omega)]
      have h1 : num / 1000 = (num - 1000) / 1000 + 1 := by omega
      have h2 : (num - 1000) % 1000 = num % 1000 := by omega
      rw [h1, h2, List.replicate_succ]
      simp
    · rename_i hlt
      have h0 : num / 1000 = 0 := by omega
      have : num % 1000 = num := by omega
      simp [h0, this]

/-- the part of the table below 1000 -/
def romanLowTable : List (Nat × List Char) := romanTable.tail

def specRomanLow (r : Nat) : List Char :=
  Spec.romanDigit 'c' 'd' 'm' (r / 100 % 10) ++ Spec.romanDigit 'x' 'l' 'c' (r / 10 % 10) ++
    Spec.romanDigit 'i' 'v' 'x' (r % 10)

theorem all_range_lt {p : Nat → Bool} {n : Nat} (h : (List.range n).all p = true) :
    ∀ r, r < n → p r = true := by
  intro r hr
  exact List.all_eq_true.1 h r (List.mem_range.2 hr)

theorem romanLow_all :
    (List.range 1000).all (fun r =>
      decide (romanFor romanLowTable r [] = specRomanLow r) &&
      decide (Spec.romanValue (specRomanLow r) = (r : Int))) = true := by
  decide +kernel

theorem romanLow_table (r : Nat) (h : r < 1000) : romanFor romanLowTable r [] = specRomanLow r := by
  have := all_range_lt romanLow_all r h
  simp only [Bool.and_eq_true, decide_eq_true_eq] at this
  exact this.1

theorem romanLow_value (r : Nat) (h : r < 1000) :
    Spec.romanValue (specRomanLow r) = (r : Int) := by
  have := all_range_lt romanLow_all r h
  simp only [Bool.and_eq_true, decide_eq_true_eq] at this
  exact this.2

theorem spec_roman_eq (n : Nat) :
    Spec.roman n = List.replicate (n / 1000) 'm' ++ specRomanLow (n % 1000) := by
  have h1 : n % 1000 / 100 % 10 = n / 100 % 10 := by omega
  have h2 : n % 1000 / 10 % 10 = n / 10 % 10 := by omega
  have h3 : n % 1000 % 10 = n % 10 := by omega
  simp [Spec.roman, specRomanLow, h1, h2, h3, List.append_assoc]

theorem romanSymbol_le (c : Char) : Spec.romanSymbol c ≤ 1000 := by
  unfold Spec.romanSymbol
  split <;> omega

theorem romanValue_m_cons (rest : List Char) :
    Spec.romanValue ('m' :: rest) = 1000 + Spec.romanValue rest := by
  cases rest with
  | nil => simp [Spec.romanValue, Spec.romanSymbol]
  | cons d r =>
    have := romanSymbol_le d
    have hm : Spec.romanSymbol 'm' = 1000 := by simp [Spec.romanSymbol]
    simp only [Spec.romanValue, hm]
    have : ¬ (1000 < Spec.romanSymbol d) := by omega
    simp [this]

theorem romanValue_replicate_m (k : Nat) (rest : List Char) :
    Spec.romanValue (List.replicate k 'm' ++ rest) = 1000 * (k : Int) + Spec.romanValue rest := by
  induction k with
  | zero => simp
  | succ k ih =>
    rw [List.replicate_succ, List.cons_append, romanValue_m_cons, ih]
    omega

/-! ### letters -/

/-- length of the code's letter string -/
def bijLen : Nat → Nat → Nat
  | 0, _ => 0
  | fuel + 1, n => if n > 0 then 1 + bijLen fuel ((n - 1) / 26) else 0

theorem lettersWhile_acc (u : Bool) (fuel n : Nat) (acc : List Char) :
    lettersWhile u fuel n acc = lettersWhile u fuel n [] ++ acc := by
  induction fuel generalizing n acc with
  | zero => simp [lettersWhile]
  | succ f ih =>
    simp only [lettersWhile]
    split
    · rw [ih _ (_ :: acc), ih _ [_]]; simp
    · simp

theorem lettersWhile_length (u : Bool) (fuel n : Nat) :
    (lettersWhile u fuel n []).length = bijLen fuel n := by
  induction fuel generalizing n with
  | zero => simp [lettersWhile, bijLen]
  | succ f ih =>
    simp only [lettersWhile, bijLen]
    split
    · rw [lettersWhile_acc, List.length_append, ih]; simp; omega
    · simp

theorem bijLen_le (fuel n : Nat) : bijLen fuel n ≤ n := by
  induction fuel generalizing n with
  | zero => simp [bijLen]
  | succ f ih =>
    simp only [bijLen]
    split
    · have := ih ((n - 1) / 26); omega
    · omega

theorem bijLen_lt (fuel n : Nat) (h : 2 ≤ n) : bijLen fuel n + 1 ≤ n := by
  cases fuel with
  | zero => simp [bijLen]; omega
  | succ f =>
    simp only [bijLen]
    have : n > 0 := by omega
    simp only [this, if_true]
    have := bijLen_le f ((n - 1) / 26)
    omega

end OxiVerif.C27
