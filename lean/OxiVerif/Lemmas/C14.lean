import OxiVerif.Model.C14
import OxiVerif.Model.C14Spec
set_option linter.unusedSimpArgs false
set_option linter.unusedVariables false
/-! Helper lemmas for C14 (chunking is a faithful, budget-respecting partition). -/
namespace OxiVerif.C14

/-! ### white space, trim, join -/

theorem stripWs_append (a b : Str) : stripWs (a ++ b) = stripWs a ++ stripWs b := by
  simp [stripWs]

theorem stripWs_nil : stripWs [] = [] := rfl

theorem stripWs_dropWhile (s : Str) : stripWs (s.dropWhile isWs) = stripWs s := by
  induction s with
  | nil => rfl
  | cons c r ih =>
    by_cases h : isWs c = true
    · simp [List.dropWhile, h, stripWs] at ih ⊢; exact ih
    · simp [List.dropWhile, h]

theorem stripWs_reverse (s : Str) : stripWs s.reverse = (stripWs s).reverse := by
  simp [stripWs, List.filter_reverse]

theorem stripWs_trim (s : Str) : stripWs (trim s) = stripWs s := by
  unfold trim trimEnd trimStart
  rw [stripWs_reverse, stripWs_dropWhile, stripWs_reverse, List.reverse_reverse, stripWs_dropWhile]

theorem stripWs_flatten_map_trim (l : List Str) :
    stripWs (l.map trim).flatten = stripWs l.flatten := by
  induction l with
  | nil => rfl
  | cons a r ih => simp [stripWs_append, stripWs_trim, ih]

theorem stripWs_eq_nil_of_isEmpty {s : Str} (h : s.isEmpty = true) : stripWs s = [] := by
  cases s with
  | nil => rfl
  | cons _ _ => simp at h

theorem joinWith_snoc (sep : Str) (l : List Str) (x : Str) (h : l ≠ []) :
    joinWith sep (l ++ [x]) = joinWith sep l ++ sep ++ x := by
  induction l with
  | nil => exact absurd rfl h
  | cons a r ih =>
    cases r with
    | nil => simp [joinWith]
    | cons b r' =>
      have := ih (by simp)
      simp only [List.cons_append, joinWith] at this ⊢
      rw [this]; simp [List.append_assoc]

theorem textOf_snoc (es : List Elem) (e : Elem) (h : es ≠ []) :
    textOf (es ++ [e]) = textOf es ++ ['\n'] ++ e.display := by
  unfold textOf
  rw [List.map_append]
  exact joinWith_snoc _ _ _ (by simpa using h)

theorem textOf_single (e : Elem) : textOf [e] = e.display := rfl

/-! ### sentence splitting conserves every non-white-space character -/

theorem stripWs_space : stripWs [' '] = [] := by decide
theorem stripWs_nl : stripWs ['\n'] = [] := by decide

theorem splitSent_content (text cur : Str) :
    stripWs (splitSent text cur).flatten = stripWs (cur ++ text) := by
  fun_induction splitSent text cur with
  | case1 cur r h => simp [stripWs_eq_nil_of_isEmpty h, ← stripWs_trim cur, r]
  | case2 cur r h => simp [← stripWs_trim cur, r]
  | case3 ch cur0 cur hp rest' ih =>
    simp only [List.flatten_cons, stripWs_append, stripWs_trim, ih, cur]
    have : cur0 ++ ch :: ' ' :: rest' = cur0 ++ [ch] ++ [' '] ++ rest' := by simp
    rw [this]; simp [stripWs_append, stripWs_space]
  | case4 ch rest cur0 cur hp hne ih =>
    rw [ih]; simp [cur]
  | case5 ch rest cur0 cur hp hnl t ih =>
    simp only [List.flatten_append, stripWs_append, ih, List.nil_append]
    have ht : stripWs (cur0 ++ [ch]) = stripWs t := (stripWs_trim _).symm
    have : cur0 ++ ch :: rest = (cur0 ++ [ch]) ++ rest := by simp
    rw [this, stripWs_append, ht]
    by_cases he : t.isEmpty = true
    · simp [he, stripWs_eq_nil_of_isEmpty he]
    · simp [he]
  | case6 ch rest cur0 cur hp hnl ih =>
    rw [ih]; simp [cur]

def SplitSt.content (st : SplitSt) : Str := st.fragments.flatten ++ st.current

theorem splitStep_content (cnt : Counter) (max : Nat) (st : SplitSt) (s : Str) :
    stripWs (splitStep cnt max st s).content = stripWs st.content ++ stripWs s := by
  unfold splitStep
  simp only
  split
  · rename_i h
    rw [← stripWs_trim s, stripWs_eq_nil_of_isEmpty h]; simp
  · split
    · rename_i h1 h2
      have : st.current = [] := by simpa using h2
      simp [SplitSt.content, this, stripWs_append, stripWs_trim]
    · split
      · split <;>
          simp [SplitSt.content, stripWs_append, stripWs_trim, stripWs_space, List.append_assoc]
      · split <;>
          simp [SplitSt.content, stripWs_append, stripWs_trim, stripWs_space, List.append_assoc]

theorem splitFold_content (cnt : Counter) (max : Nat) (l : List Str) (st : SplitSt) :
    stripWs (l.foldl (splitStep cnt max) st).content = stripWs st.content ++ stripWs l.flatten := by
  induction l generalizing st with
  | nil => simp [stripWs_nil]
  | cons a r ih => rw [List.foldl_cons, ih, splitStep_content]; simp [stripWs_append]

theorem splitBySentences_ne_nil (text : Str) (cnt : Counter) (max : Nat) :
    splitBySentences text cnt max ≠ [] := by
  unfold splitBySentences
  simp only
  split
  · simp
  · rename_i h; intro h'; simp [h'] at h

theorem splitBySentences_content (text : Str) (cnt : Counter) (max : Nat) :
    stripWs (splitBySentences text cnt max).flatten = stripWs text := by
  unfold splitBySentences
  simp only
  split
  · simp
  · have h := splitFold_content cnt max (splitIntoSentences text) ⟨[], [], 0⟩
    have hs : stripWs (splitIntoSentences text).flatten = stripWs text := by
      simpa using splitSent_content text []
    rw [hs] at h
    simp only [SplitSt.content, List.flatten_nil, List.append_nil, stripWs_nil, List.nil_append] at h
    rw [← h]
    split
    · rename_i hc
      have : ((splitIntoSentences text).foldl (splitStep cnt max) ⟨[], [], 0⟩).current = [] := by
        simpa using hc
      simp [this]
    · simp

/-! ### `Covers` -/

theorem Covers.refl (l : List Elem) : Covers l l := by
  induction l with
  | nil => exact .nil
  | cons e r ih => exact .whole e ih

theorem Covers.append {o1 i1 o2 i2 : List Elem} (h1 : Covers o1 i1) (h2 : Covers o2 i2) :
    Covers (o1 ++ o2) (i1 ++ i2) := by
  induction h1 with
  | nil => simpa using h2
  | whole e _ ih => exact .whole e ih
  | split e fs hs hne hc _ ih =>
    rw [List.append_assoc]
    exact .split e fs hs hne hc ih

theorem Covers.length_le {o i : List Elem} (h : Covers o i) : i.length ≤ o.length := by
  induction h with
  | nil => simp
  | whole e _ ih => simp; omega
  | split e fs hs hne hc _ ih =>
    have : 1 ≤ fs.length := by
      cases fs with
      | nil => exact absurd rfl hne
      | cons _ _ => simp
    simp; omega

/-! ### the loop of `chunk`, by cases -/

def joinedTokens (cnt : Counter) (st : St) (e : Elem) : Nat :=
  if cnt.additive then st.bufferTokens + cnt.count e.display
  else cnt.count (st.bufferText ++ ['\n'] ++ e.display)

def mergedSt (cnt : Counter) (st : St) (e : Elem) : St :=
  { st with bufferText := if cnt.additive then st.bufferText else st.bufferText ++ ['\n'] ++ e.display,
            buffer := st.buffer ++ [e], bufferTokens := joinedTokens cnt st e }

def flushIfAny (cnt : Counter) (st : St) : St := if st.buffer.isEmpty then st else flush cnt st

theorem flushIfAny_buffer (cnt : Counter) (st : St) : (flushIfAny cnt st).buffer = [] := by
  unfold flushIfAny; split
  · rename_i h; simpa using h
  · rfl

theorem flushIfAny_chunks (cnt : Counter) (st : St) :
    (flushIfAny cnt st).chunks =
      if st.buffer.isEmpty then st.chunks else st.chunks ++ [mkChunk cnt st.buffer st.bufferHeading false] := by
  unfold flushIfAny; split <;> simp [flush]

def startSt (cfg : Config) (cnt : Counter) (st : St) (e : Elem) : St :=
  let st1 := flushIfAny cnt st
  { chunks := st1.chunks, buffer := [e],
    bufferText := if !cnt.additive then e.display else st1.bufferText,
    bufferTokens := cnt.count e.display, bufferHeading := elemHeading cfg e }

def oversizedSt (cfg : Config) (cnt : Counter) (st : St) (e : Elem) : St :=
  let st1 := flushIfAny cnt st
  { st1 with chunks := st1.chunks ++ oversizedChunks cfg cnt e }

/-- The three ways one loop iteration can go. -/
theorem step_cases (cfg : Config) (cnt : Counter) (st : St) (e : Elem) :
    (∃ l, st.buffer.getLast? = some l ∧ cfg.mergeAdjacent = true ∧ canMergeElems l e cfg = true ∧
        joinedTokens cnt st e ≤ cfg.maxTokens ∧ step cfg cnt st e = mergedSt cnt st e) ∨
    (cnt.count e.display > cfg.maxTokens ∧ step cfg cnt st e = oversizedSt cfg cnt st e) ∨
    (cnt.count e.display ≤ cfg.maxTokens ∧ step cfg cnt st e = startSt cfg cnt st e) := by
  by_cases hb : st.buffer = []
  · -- empty buffer: no merge, no flush
    have hl : st.buffer.getLast? = none := by simp [hb]
    by_cases ho : cnt.count e.display > cfg.maxTokens
    · right; left
      refine ⟨ho, ?_⟩
      simp [step, oversizedSt, flushIfAny, hb, ho]
    · right; right
      refine ⟨by omega, ?_⟩
      simp [step, startSt, flushIfAny, hb, ho]
  · obtain ⟨l, hl⟩ : ∃ l, st.buffer.getLast? = some l := by
      cases h : st.buffer.getLast? with
      | none => simp at h; exact absurd h hb
      | some l => exact ⟨l, rfl⟩
    have hne : st.buffer.isEmpty = false := by simpa using hb
    -- the `joined_tokens` of the code
    have hj : (match (if (!st.buffer.isEmpty && !cnt.additive) = true
                      then some (st.bufferText ++ ['\n'] ++ e.display) else none) with
               | some j => cnt.count j
               | none => if st.buffer.isEmpty = true then cnt.count e.display
                         else st.bufferTokens + cnt.count e.display) = joinedTokens cnt st e := by
      unfold joinedTokens
      cases cnt.additive <;> simp [hne]
    by_cases hm : cfg.mergeAdjacent = true ∧ canMergeElems l e cfg = true ∧
        joinedTokens cnt st e ≤ cfg.maxTokens
    · left
      refine ⟨l, hl, hm.1, hm.2.1, hm.2.2, ?_⟩
      unfold step
      simp only [hj, hl]
      simp only [hne, hm.1, hm.2.1, hm.2.2, Bool.not_false, Bool.and_true, decide_true, if_true]
      unfold mergedSt
      cases cnt.additive <;> simp
    · have hflush : (decide (joinedTokens cnt st e > cfg.maxTokens) || !canMergeElems l e cfg
          || !cfg.mergeAdjacent) = true := by
        by_cases h1 : cfg.mergeAdjacent = true
        · by_cases h2 : canMergeElems l e cfg = true
          · have : ¬ joinedTokens cnt st e ≤ cfg.maxTokens := fun h3 => hm ⟨h1, h2, h3⟩
            simp [Nat.lt_of_not_le this]
          · simp [h2]
        · simp [h1]
      have hnm : (cfg.mergeAdjacent && !st.buffer.isEmpty && canMergeElems l e cfg &&
          decide (joinedTokens cnt st e ≤ cfg.maxTokens)) = false := by
        cases h1 : cfg.mergeAdjacent <;> cases h2 : canMergeElems l e cfg <;> simp [hne]
        intro h3; exact hm ⟨h1, h2, h3⟩
      by_cases ho : cnt.count e.display > cfg.maxTokens
      · right; left
        refine ⟨ho, ?_⟩
        unfold step
        simp only [hj, hl]
        simp only [hnm, hflush, hne, Bool.not_false, Bool.true_and, if_true]
        simp [oversizedSt, flushIfAny, hne, flush, ho]
      · right; right
        refine ⟨by omega, ?_⟩
        unfold step
        simp only [hj, hl]
        simp only [hnm, hflush, hne, Bool.not_false, Bool.true_and, if_true]
        simp [startSt, flushIfAny, hne, flush, ho]

/-- all chunk elements emitted so far, followed by the buffered ones -/
def St.emitted (st : St) : List Elem := st.chunks.flatMap (·.elements) ++ st.buffer

theorem flushIfAny_emitted (cnt : Counter) (st : St) :
    (flushIfAny cnt st).chunks.flatMap (·.elements) = st.emitted := by
  rw [flushIfAny_chunks]; unfold St.emitted
  split
  · rename_i h; have : st.buffer = [] := by simpa using h
    simp [this]
  · simp [mkChunk]

end OxiVerif.C14
