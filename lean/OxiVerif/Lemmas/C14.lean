import OxiVerif.Model.C14
import OxiVerif.Model.C14Spec
set_option linter.unusedSimpArgs false
set_option linter.unusedVariables false
/-! Helper lemmas for C14 (chunking is a faithful, budget-respecting partition). -/
namespace OxiVerif.C14

/-! ### white space, trim, join -/

theorem stripWs_append (a b : Str) : stripWs (a ++ b) = stripWs a ++ stripWs b := by
  simp [stripWs]

theorem stripWs_nil : stripWs [] = [] := rfl

theorem stripWs_dropWhile (s : Str) : stripWs (s.dropWhile isWs) = stripWs s := by
  induction s with
  | nil => rfl
  | cons c r ih =>
    by_cases h : isWs c = true
    · simp [List.dropWhile, h, stripWs] at ih ⊢; exact ih
    · simp [List.dropWhile, h]

theorem stripWs_reverse (s : Str) : stripWs s.reverse = (stripWs s).reverse := by
  simp [stripWs, List.filter_reverse]

theorem stripWs_trim (s : Str) : stripWs (trim s) = stripWs s := by
  unfold trim trimEnd trimStart
  rw [stripWs_reverse, stripWs_dropWhile, stripWs_reverse, List.reverse_reverse, stripWs_dropWhile]

theorem stripWs_flatten_map_trim (l : List Str) :
    stripWs (l.map trim).flatten = stripWs l.flatten := by
  induction l with
  | nil => rfl
  | cons a r ih => simp [stripWs_append, stripWs_trim, ih]

theorem stripWs_eq_nil_of_isEmpty {s : Str} (h : s.isEmpty = true) : stripWs s = [] := by
  cases s with
  | nil => rfl
  | cons _ _ => simp at h

theorem joinWith_snoc (sep : Str) (l : List Str) (x : Str) (h : l ≠ []) :
    joinWith sep (l ++ [x]) = joinWith sep l ++ sep ++ x := by
  induction l with
  | nil => exact absurd rfl h
  | cons a r ih =>
    cases r with
    | nil => simp [joinWith]
    | cons b r' =>
      have := ih (by simp)
      simp only [List.cons_append, joinWith] at this ⊢
      rw [this]; simp [List.append_assoc]

theorem textOf_snoc (es : List Elem) (e : Elem) (h : es ≠ []) :
    textOf (es ++ [e]) = textOf es ++ ['\n'] ++ e.display := by
  unfold textOf
  rw [List.map_append]
  exact joinWith_snoc _ _ _ (by simpa using h)

theorem textOf_single (e : Elem) : textOf [e] = e.display := rfl

/-! ### sentence splitting conserves every non-white-space character -/

theorem stripWs_space : stripWs [' '] = [] := by decide
theorem stripWs_nl : stripWs ['\n'] = [] := by decide

theorem stripWs_cons_ws (c : Char) (r : Str) (h : isWs c = true) : stripWs (c :: r) = stripWs r := by
  simp [stripWs, h]

theorem stripWs_cons (c : Char) (r : Str) : stripWs (c :: r) = stripWs [c] ++ stripWs r := by
  rw [← stripWs_append]; rfl

theorem splitSent_content (text cur : Str) :
    stripWs (splitSent text cur).flatten = stripWs (cur ++ text) := by
  fun_induction splitSent text cur with
  | case1 cur r h =>
    have : stripWs cur = [] := by rw [← stripWs_trim cur]; exact stripWs_eq_nil_of_isEmpty h
    simp [this, stripWs_nil]
  | case2 cur r h => simp [← stripWs_trim cur, r]
  | case3 ch cur0 cur hp rest' ih =>
    simp only [List.flatten_cons, stripWs_append, stripWs_trim, ih, cur, List.nil_append]
    rw [stripWs_cons ch (' ' :: rest'), stripWs_cons_ws ' ' rest' (by decide)]
    simp [List.append_assoc]
  | case4 ch rest cur0 cur hp hne ih =>
    rw [ih]; simp [cur]
  | case5 ch rest cur0 cur hp hnl t ih =>
    simp only [List.flatten_append, stripWs_append, ih, List.nil_append]
    have ht : stripWs (cur0 ++ [ch]) = stripWs t := (stripWs_trim _).symm
    have h2 : stripWs (cur0 ++ ch :: rest) = stripWs t ++ stripWs rest := by
      rw [show cur0 ++ ch :: rest = (cur0 ++ [ch]) ++ rest by simp, stripWs_append, ht]
    rw [← stripWs_append cur0, h2]
    by_cases he : t.isEmpty = true
    · simp [he, stripWs_eq_nil_of_isEmpty he, stripWs_nil]
    · simp [he]
  | case6 ch rest cur0 cur hp hnl ih =>
    rw [ih]; simp [cur]

def SplitSt.content (st : SplitSt) : Str := st.fragments.flatten ++ st.current

theorem splitStep_content (cnt : Counter) (max : Nat) (st : SplitSt) (s : Str) :
    stripWs (splitStep cnt max st s).content = stripWs st.content ++ stripWs s := by
  have hsp : ∀ x : Str, stripWs (' ' :: x) = stripWs x := fun x => stripWs_cons_ws ' ' x (by decide)
  unfold splitStep
  simp only
  split
  · rename_i h
    rw [← stripWs_trim s, stripWs_eq_nil_of_isEmpty h]; simp
  · split
    · rename_i h1 h2
      have : st.current = [] := by simpa using h2
      simp [SplitSt.content, this, stripWs_append, stripWs_trim]
    · split
      · split <;>
          simp [SplitSt.content, stripWs_append, stripWs_trim, hsp, List.append_assoc]
      · split <;>
          simp [SplitSt.content, stripWs_append, stripWs_trim, hsp, List.append_assoc]

theorem splitFold_content (cnt : Counter) (max : Nat) (l : List Str) (st : SplitSt) :
    stripWs (l.foldl (splitStep cnt max) st).content = stripWs st.content ++ stripWs l.flatten := by
  induction l generalizing st with
  | nil => simp [stripWs_nil]
  | cons a r ih => rw [List.foldl_cons, ih, splitStep_content]; simp [stripWs_append]

def fragsOf (text : Str) (st : SplitSt) : List Str :=
  let frags := if st.current.isEmpty then st.fragments else st.fragments ++ [st.current]
  if frags.isEmpty then [text] else frags

theorem splitBySentences_eq (text : Str) (cnt : Counter) (max : Nat) :
    splitBySentences text cnt max =
      fragsOf text ((splitIntoSentences text).foldl (splitStep cnt max) ⟨[], [], 0⟩) := rfl

theorem fragsOf_ne_nil (text : Str) (st : SplitSt) : fragsOf text st ≠ [] := by
  by_cases hc : st.current = [] <;> by_cases hf : st.fragments = [] <;> simp [fragsOf, hc, hf]

theorem fragsOf_content (text : Str) (st : SplitSt) (h : stripWs st.content = stripWs text) :
    stripWs (fragsOf text st).flatten = stripWs text := by
  rw [← h]; unfold SplitSt.content
  by_cases hc : st.current = [] <;> by_cases hf : st.fragments = [] <;>
    simp_all [fragsOf, SplitSt.content, stripWs_nil]

theorem splitBySentences_ne_nil (text : Str) (cnt : Counter) (max : Nat) :
    splitBySentences text cnt max ≠ [] := by
  rw [splitBySentences_eq]; exact fragsOf_ne_nil _ _

theorem splitBySentences_content (text : Str) (cnt : Counter) (max : Nat) :
    stripWs (splitBySentences text cnt max).flatten = stripWs text := by
  rw [splitBySentences_eq]
  apply fragsOf_content
  have h := splitFold_content cnt max (splitIntoSentences text) ⟨[], [], 0⟩
  have hs : stripWs (splitIntoSentences text).flatten = stripWs text := by
    simpa [splitIntoSentences] using splitSent_content text []
  rw [hs] at h
  simpa [SplitSt.content, stripWs_nil] using h

/-! ### `Covers` -/

theorem Covers.refl (l : List Elem) : Covers l l := by
  induction l with
  | nil => exact .nil
  | cons e r ih => exact .whole e ih

theorem Covers.append {o1 i1 o2 i2 : List Elem} (h1 : Covers o1 i1) (h2 : Covers o2 i2) :
    Covers (o1 ++ o2) (i1 ++ i2) := by
  induction h1 with
  | nil => simpa using h2
  | whole e _ ih => exact .whole e ih
  | split e fs hs hne hc _ ih =>
    rw [List.append_assoc]
    exact .split e fs hs hne hc ih

theorem Covers.length_le {o i : List Elem} (h : Covers o i) : i.length ≤ o.length := by
  induction h with
  | nil => simp
  | whole e _ ih => simp; omega
  | split e fs hs hne hc _ ih =>
    have : 1 ≤ fs.length := by
      cases fs with
      | nil => exact absurd rfl hne
      | cons _ _ => simp
    simp; omega

/-- same provenance: bounding box (opaque id), page, parent heading, heading path -/
def SameProv (x e : Elem) : Prop :=
  x.md.id = e.md.id ∧ x.md.page = e.md.page ∧ x.md.parentHeading = e.md.parentHeading ∧
    x.md.headingPath = e.md.headingPath

theorem Covers.provenance {o i : List Elem} (h : Covers o i) :
    (∀ x ∈ o, ∃ e ∈ i, SameProv x e) ∧ (∀ e ∈ i, ∃ x ∈ o, SameProv x e) := by
  induction h with
  | nil => simp
  | whole e _ ih =>
    refine ⟨fun x hx => ?_, fun e' he' => ?_⟩
    · rcases List.mem_cons.1 hx with rfl | hx
      · exact ⟨x, by simp, rfl, rfl, rfl, rfl⟩
      · obtain ⟨e', he', hp⟩ := ih.1 x hx
        exact ⟨e', by simp [he'], hp⟩
    · rcases List.mem_cons.1 he' with rfl | he'
      · exact ⟨e', by simp, rfl, rfl, rfl, rfl⟩
      · obtain ⟨x, hx, hp⟩ := ih.2 e' he'
        exact ⟨x, by simp [hx], hp⟩
  | split e fs hs hne hc _ ih =>
    refine ⟨fun x hx => ?_, fun e' he' => ?_⟩
    · rcases List.mem_append.1 hx with hx | hx
      · obtain ⟨f, _, rfl⟩ := List.mem_map.1 hx
        exact ⟨e, by simp, rfl, rfl, rfl, rfl⟩
      · obtain ⟨e', he', hp⟩ := ih.1 x hx
        exact ⟨e', by simp [he'], hp⟩
    · rcases List.mem_cons.1 he' with rfl | he'
      · obtain ⟨f, r, rfl⟩ : ∃ f r, fs = f :: r := by
          cases fs with
          | nil => exact absurd rfl hne
          | cons f r => exact ⟨f, r, rfl⟩
        exact ⟨mkFragment e' f, by simp, rfl, rfl, rfl, rfl⟩
      · obtain ⟨x, hx, hp⟩ := ih.2 e' he'
        exact ⟨x, by simp [hx], hp⟩

/-! ### the loop of `chunk`, by cases -/

def joinedTokens (cnt : Counter) (st : St) (e : Elem) : Nat :=
  if cnt.additive then st.bufferTokens + cnt.count e.display
  else cnt.count (st.bufferText ++ ['\n'] ++ e.display)

def mergedSt (cnt : Counter) (st : St) (e : Elem) : St :=
  { st with bufferText := if cnt.additive then st.bufferText else st.bufferText ++ ['\n'] ++ e.display,
            buffer := st.buffer ++ [e], bufferTokens := joinedTokens cnt st e }

def flushIfAny (cnt : Counter) (st : St) : St := if st.buffer.isEmpty then st else flush cnt st

theorem flushIfAny_buffer (cnt : Counter) (st : St) : (flushIfAny cnt st).buffer = [] := by
  unfold flushIfAny; split
  · rename_i h; simpa using h
  · rfl

theorem flushIfAny_chunks (cnt : Counter) (st : St) :
    (flushIfAny cnt st).chunks =
      if st.buffer.isEmpty then st.chunks else st.chunks ++ [mkChunk cnt st.buffer st.bufferHeading false] := by
  unfold flushIfAny; split <;> simp [flush]

def startSt (cfg : Config) (cnt : Counter) (st : St) (e : Elem) : St :=
  let st1 := flushIfAny cnt st
  { chunks := st1.chunks, buffer := [e],
    bufferText := if !cnt.additive then e.display else st1.bufferText,
    bufferTokens := cnt.count e.display, bufferHeading := elemHeading cfg e }

def oversizedSt (cfg : Config) (cnt : Counter) (st : St) (e : Elem) : St :=
  let st1 := flushIfAny cnt st
  { st1 with chunks := st1.chunks ++ oversizedChunks cfg cnt e }

theorem step_eq_empty (cfg : Config) (cnt : Counter) (st : St) (e : Elem) (hb : st.buffer = []) :
    step cfg cnt st e =
      if cnt.count e.display > cfg.maxTokens then oversizedSt cfg cnt st e else startSt cfg cnt st e := by
  by_cases ho : cnt.count e.display > cfg.maxTokens <;>
    simp [step, oversizedSt, startSt, flushIfAny, hb, ho]

theorem step_eq_nonempty (cfg : Config) (cnt : Counter) (st : St) (e l : Elem)
    (hl : st.buffer.getLast? = some l) :
    step cfg cnt st e =
      if cfg.mergeAdjacent = true ∧ canMergeElems l e cfg = true ∧ joinedTokens cnt st e ≤ cfg.maxTokens
      then mergedSt cnt st e
      else if cnt.count e.display > cfg.maxTokens then oversizedSt cfg cnt st e
      else startSt cfg cnt st e := by
  have hb : st.buffer ≠ [] := by intro h; simp [h] at hl
  have hne : st.buffer.isEmpty = false := by simpa using hb
  cases ha : cnt.additive <;> cases hm : cfg.mergeAdjacent <;> cases hc : canMergeElems l e cfg <;>
    by_cases hj : joinedTokens cnt st e ≤ cfg.maxTokens <;>
    by_cases ho : cnt.count e.display > cfg.maxTokens <;>
    simp [joinedTokens, ha] at hj <;>
    simp [step, hl, hne, ha, hm, hc, hj, ho, joinedTokens, mergedSt, oversizedSt, startSt, flushIfAny, flush]

/-- The three ways one loop iteration can go. -/
theorem step_cases (cfg : Config) (cnt : Counter) (st : St) (e : Elem) :
    (∃ l, st.buffer.getLast? = some l ∧ cfg.mergeAdjacent = true ∧ canMergeElems l e cfg = true ∧
        joinedTokens cnt st e ≤ cfg.maxTokens ∧ step cfg cnt st e = mergedSt cnt st e) ∨
    (cnt.count e.display > cfg.maxTokens ∧ step cfg cnt st e = oversizedSt cfg cnt st e) ∨
    (cnt.count e.display ≤ cfg.maxTokens ∧ step cfg cnt st e = startSt cfg cnt st e) := by
  by_cases hb : st.buffer = []
  · rw [step_eq_empty cfg cnt st e hb]
    by_cases ho : cnt.count e.display > cfg.maxTokens
    · right; left; simp [ho]
    · right; right; simp [ho]; omega
  · obtain ⟨l, hl⟩ : ∃ l, st.buffer.getLast? = some l := by
      cases h : st.buffer.getLast? with
      | none => simp at h; exact absurd h hb
      | some l => exact ⟨l, rfl⟩
    rw [step_eq_nonempty cfg cnt st e l hl]
    by_cases hm : cfg.mergeAdjacent = true ∧ canMergeElems l e cfg = true ∧
        joinedTokens cnt st e ≤ cfg.maxTokens
    · left; exact ⟨l, hl, hm.1, hm.2.1, hm.2.2, by rw [if_pos hm]⟩
    · rw [if_neg hm]
      by_cases ho : cnt.count e.display > cfg.maxTokens
      · right; left; simp [ho]
      · right; right; simp [ho]; omega

/-- all chunk elements emitted so far, followed by the buffered ones -/
def St.emitted (st : St) : List Elem := st.chunks.flatMap (·.elements) ++ st.buffer

theorem flushIfAny_emitted (cnt : Counter) (st : St) :
    (flushIfAny cnt st).chunks.flatMap (·.elements) = st.emitted := by
  rw [flushIfAny_chunks]; unfold St.emitted
  split
  · rename_i h; have : st.buffer = [] := by simpa using h
    simp [this]
  · simp [mkChunk]

/-! ### generic invariants of the loop -/

theorem fold_inv (cfg : Config) (cnt : Counter) (I : St → List Elem → Prop)
    (h0 : I St.init [])
    (hstep : ∀ st pre e, I st pre → I (step cfg cnt st e) (pre ++ [e])) :
    ∀ els, I (els.foldl (step cfg cnt) St.init) els := by
  have gen : ∀ els st pre, I st pre → I (els.foldl (step cfg cnt) st) (pre ++ els) := by
    intro els
    induction els with
    | nil => intro st pre h; simpa using h
    | cons e r ih =>
      intro st pre h
      have := ih (step cfg cnt st e) (pre ++ [e]) (hstep st pre e h)
      simpa [List.append_assoc] using this
  intro els
  simpa using gen els St.init [] h0

/-- what one iteration does to the list of finished chunks -/
theorem step_chunks_forall (P : Chunk → Prop) (cfg : Config) (cnt : Counter) (st : St) (e : Elem)
    (hc : ∀ c ∈ st.chunks, P c)
    (hflush : st.buffer ≠ [] → P (mkChunk cnt st.buffer st.bufferHeading false))
    (hover : ∀ c ∈ oversizedChunks cfg cnt e, P c) :
    ∀ c ∈ (step cfg cnt st e).chunks, P c := by
  have hfl : ∀ c ∈ (flushIfAny cnt st).chunks, P c := by
    rw [flushIfAny_chunks]
    split
    · exact hc
    · rename_i h
      intro c hcm
      rcases List.mem_append.1 hcm with h1 | h1
      · exact hc c h1
      · have : c = mkChunk cnt st.buffer st.bufferHeading false := by simpa using h1
        rw [this]; exact hflush (by simpa using h)
  rcases step_cases cfg cnt st e with ⟨l, _, _, _, _, h⟩ | ⟨_, h⟩ | ⟨_, h⟩
  · rw [h]; exact hc
  · rw [h]; intro c hcm
    rcases List.mem_append.1 hcm with h1 | h1
    · exact hfl c h1
    · exact hover c h1
  · rw [h]; exact hfl

theorem finish_forall (P : Chunk → Prop) (cnt : Counter) (st : St)
    (hc : ∀ c ∈ st.chunks, P c)
    (hflush : st.buffer ≠ [] → P (mkChunk cnt st.buffer st.bufferHeading false)) :
    ∀ c ∈ finish cnt st, P c := by
  unfold finish
  split
  · exact hc
  · rename_i h
    intro c hcm
    rcases List.mem_append.1 hcm with h1 | h1
    · exact hc c h1
    · have : c = mkChunk cnt st.buffer st.bufferHeading false := by simpa using h1
      rw [this]; exact hflush (by simpa using h)

theorem finish_elements (cnt : Counter) (st : St) :
    (finish cnt st).flatMap (·.elements) = st.emitted := by
  unfold finish St.emitted
  split
  · rename_i h; have : st.buffer = [] := by simpa using h
    simp [this]
  · simp [mkChunk]

/-- the oversized-element path emits exactly that element, whole or as fragments -/
theorem oversizedChunks_covers (cfg : Config) (cnt : Counter) (e : Elem) :
    Covers ((oversizedChunks cfg cnt e).flatMap (·.elements)) [e] := by
  unfold oversizedChunks
  split
  · rename_i hs
    have hne := splitBySentences_ne_nil e.display cnt cfg.maxTokens
    have hcont := splitBySentences_content e.display cnt cfg.maxTokens
    have hfm : ((splitBySentences e.display cnt cfg.maxTokens).map fun fragment =>
          mkChunk cnt [mkFragment e (trim fragment)] (elemHeading cfg e)
            (decide (cnt.count (trim fragment) > cfg.maxTokens))).flatMap (·.elements)
        = ((splitBySentences e.display cnt cfg.maxTokens).map trim).map (mkFragment e) ++ [] := by
      generalize splitBySentences e.display cnt cfg.maxTokens = fs
      induction fs with
      | nil => rfl
      | cons a r ih => simp [mkChunk] at ih ⊢; exact ih
    rw [hfm]
    refine Covers.split e _ hs ?_ ?_ Covers.nil
    · intro h; apply hne; simpa using h
    · rw [stripWs_flatten_map_trim]; exact hcont
  · simpa [mkChunk] using Covers.refl [e]

/-- one iteration emits exactly the new element, after everything emitted before -/
theorem step_emitted (cfg : Config) (cnt : Counter) (st : St) (e : Elem) :
    ∃ o, (step cfg cnt st e).emitted = st.emitted ++ o ∧ Covers o [e] := by
  rcases step_cases cfg cnt st e with ⟨l, _, _, _, _, h⟩ | ⟨_, h⟩ | ⟨_, h⟩
  · refine ⟨[e], ?_, Covers.refl _⟩
    rw [h]; simp [St.emitted, mergedSt]
  · refine ⟨(oversizedChunks cfg cnt e).flatMap (·.elements), ?_, oversizedChunks_covers cfg cnt e⟩
    rw [h]
    simp only [St.emitted, oversizedSt, flushIfAny_buffer, List.append_nil, List.flatMap_append]
    rw [flushIfAny_emitted]; rfl
  · refine ⟨[e], ?_, Covers.refl _⟩
    rw [h]
    simp only [St.emitted, startSt]
    rw [flushIfAny_emitted]; rfl

/-! ### the section-graph chunker -/

theorem foldl_add_eq (l : List Nat) (a : Nat) : l.foldl (· + ·) a = a + l.foldl (· + ·) 0 := by
  induction l generalizing a with
  | nil => simp
  | cons x r ih => simp only [List.foldl_cons]; rw [ih (a + x), ih (0 + x)]; omega

/-- for a counter additive across "\n", summing per-element counts IS measuring the joined text -/
theorem sum_counts_eq (count : Str → Nat) (h : AdditiveNl count) (e : Elem) (es : List Elem) :
    ((e :: es).map fun x => count x.display).foldl (· + ·) 0 = count (textOf (e :: es)) := by
  induction es generalizing e with
  | nil => simp [textOf, joinWith]
  | cons e' r ih =>
    have := ih e'
    simp only [List.map_cons, List.foldl_cons, textOf, joinWith] at this ⊢
    rw [h, foldl_add_eq, ← this, foldl_add_eq (List.map _ r) (0 + count e'.display)]
    omega

theorem covers_flatMap {α : Type} (L : List α) (f g : α → List Elem)
    (h : ∀ s ∈ L, Covers (f s) (g s)) : Covers (L.flatMap f) (L.flatMap g) := by
  induction L with
  | nil => exact Covers.nil
  | cons a r ih =>
    simp only [List.flatMap_cons]
    exact Covers.append (h a (by simp)) (ih fun s hs => h s (by simp [hs]))

theorem preamble_append_after (els : List Elem) : preamble els ++ afterPreamble els = els := by
  unfold preamble afterPreamble; exact List.takeWhile_append_dropWhile

theorem addChild_head (h : Str) (e : Elem) (s : Sec) (rest : List Sec) (hs : s.title.text = h) :
    addChild h e (s :: rest) = { s with children := s.children ++ [e] } :: rest := by
  simp [addChild, hs]

theorem hasTitle_cons (h : Str) (s : Sec) (rest : List Sec) :
    hasTitle h (s :: rest) = (decide (s.title.text = h) || hasTitle h rest) := by
  simp [hasTitle]

theorem hasTitle_eq_contains (h : Str) (secs : List Sec) :
    hasTitle h secs = (secs.map (·.title.text)).contains h := by
  induction secs with
  | nil => rfl
  | cons s r ih =>
    rw [hasTitle_cons, ih]
    simp only [List.map_cons, List.contains_cons]
    by_cases hs : s.title.text = h
    · simp [hs]
    · have : (h == s.title.text) = false := by
        simp only [beq_eq_false_iff_ne, ne_eq]; exact fun h' => hs h'.symm
      simp [hs, this]

/-- an element that names the most recent title, names no earlier title, or names nothing is
    appended to the most recent section -/
theorem gstep_head (s0 : Sec) (older : List Sec) (e : Elem) (ht : e.isTitle = false)
    (h : ∀ x, e.md.parentHeading = some x → x = s0.title.text ∨ hasTitle x older = false) :
    gstep (s0 :: older) e = { s0 with children := s0.children ++ [e] } :: older := by
  unfold gstep
  simp only [ht, Bool.false_eq_true, if_false]
  cases hp : e.md.parentHeading with
  | none => rfl
  | some x =>
    simp only
    by_cases hx : s0.title.text = x
    · simp [hasTitle_cons, hx, addChild]
    · rcases h x hp with h1 | h1
      · exact absurd h1.symm hx
      · simp [hasTitle_cons, hx, h1, addToHead]

/-- without stale headings the graph pass only ever appends to the most recent section -/
theorem gfold_noStale (l : List Elem) (s0 : Sec) (older : List Sec)
    (hw : noStale (s0.title.text :: older.map (·.title.text)) l = true) :
    ((l.foldl gstep (s0 :: older)).reverse.flatMap Sec.elems) =
      (s0 :: older).reverse.flatMap Sec.elems ++ l := by
  induction l generalizing s0 older with
  | nil => simp
  | cons e r ih =>
    simp only [List.foldl_cons]
    by_cases ht : e.isTitle = true
    · have hw' : noStale (e.text :: s0.title.text :: older.map (·.title.text)) r = true := by
        simpa [noStale, ht] using hw
      have hg : gstep (s0 :: older) e = ⟨e, []⟩ :: s0 :: older := by simp [gstep, ht]
      rw [hg, ih ⟨e, []⟩ (s0 :: older) (by simpa using hw')]
      simp [Sec.elems, List.append_assoc]
    · have ht' : e.isTitle = false := by simpa using ht
      have hw2 : (∀ x, e.md.parentHeading = some x →
            x = s0.title.text ∨ (older.map (·.title.text)).contains x = false) ∧
          noStale (s0.title.text :: older.map (·.title.text)) r = true := by
        cases hp : e.md.parentHeading with
        | none =>
          have : noStale (s0.title.text :: older.map (·.title.text)) r = true := by
            simpa [noStale, ht', hp] using hw
          exact ⟨fun x hx => (by cases hx), this⟩
        | some y =>
          have h := hw
          simp only [noStale, ht', hp, Bool.false_eq_true, if_false, Bool.and_eq_true,
            Bool.or_eq_true, decide_eq_true_eq, Bool.not_eq_true'] at h
          exact ⟨fun x hx => (by cases hx; exact h.1), h.2⟩
      have hg := gstep_head s0 older e ht' (fun x hx => by
        rcases hw2.1 x hx with h1 | h1
        · exact Or.inl h1
        · exact Or.inr (by rw [hasTitle_eq_contains]; exact h1))
      rw [hg, ih _ older (by simpa using hw2.2)]
      simp [Sec.elems, List.append_assoc]

theorem noStale_after (els : List Elem) (hw : noStale [] els = true) :
    match afterPreamble els with
    | [] => True
    | t :: l => t.isTitle = true ∧ noStale [t.text] l = true := by
  induction els with
  | nil => simp [afterPreamble]
  | cons e r ih =>
    by_cases ht : e.isTitle = true
    · have : afterPreamble (e :: r) = e :: r := by simp [afterPreamble, List.dropWhile, ht]
      rw [this]
      exact ⟨ht, by simpa [noStale, ht] using hw⟩
    · have : afterPreamble (e :: r) = afterPreamble r := by simp [afterPreamble, List.dropWhile, ht]
      rw [this]
      exact ih (by simpa [noStale, ht] using hw)

theorem sections_flatten (els : List Elem) (hw : noStale [] els = true) :
    (sections els).flatMap Sec.elems = afterPreamble els := by
  have h := noStale_after els hw
  unfold sections
  cases hap : afterPreamble els with
  | nil => simp
  | cons t l =>
    rw [hap] at h
    have hg : gstep [] t = [⟨t, []⟩] := by simp [gstep, h.1]
    simp only [List.foldl_cons, hg]
    rw [gfold_noStale l ⟨t, []⟩ [] (by simpa using h.2)]
    simp [Sec.elems]

/-- well-sectioned input (what `partition()` produces) has no stale headings -/
theorem wellSec_noStale (l : List Elem) (t : Str) (ts : List Str) (hw : wellSec (some t) l = true) :
    noStale (t :: ts) l = true := by
  induction l generalizing t ts with
  | nil => rfl
  | cons e r ih =>
    by_cases ht : e.isTitle = true
    · have : wellSec (some e.text) r = true := by simpa [wellSec, ht] using hw
      simpa [noStale, ht] using ih e.text (t :: ts) this
    · have hw2 : e.md.parentHeading = some t ∧ wellSec (some t) r = true := by
        simpa [wellSec, ht] using hw
      simp [noStale, ht, hw2.1, ih t ts hw2.2]

theorem wellSec_none_noStale (l : List Elem) (hw : wellSec none l = true) : noStale [] l = true := by
  induction l with
  | nil => rfl
  | cons e r ih =>
    by_cases ht : e.isTitle = true
    · have : wellSec (some e.text) r = true := by simpa [wellSec, ht] using hw
      simpa [noStale, ht] using wellSec_noStale r e.text [] this
    · have : wellSec none r = true := by simpa [wellSec, ht] using hw
      simp [noStale, ht, ih this]

/-! ### nothing is lost: every step of the graph pass adds exactly the new element -/

theorem addToHead_perm (e : Elem) (s : Sec) (rest : List Sec) :
    ((addToHead e (s :: rest)).flatMap Sec.elems).Perm (e :: (s :: rest).flatMap Sec.elems) := by
  simp only [addToHead, List.flatMap_cons, Sec.elems, List.cons_append, List.append_assoc,
    List.singleton_append]
  exact (List.Perm.cons _ List.perm_middle).trans (List.Perm.swap _ _ _)

theorem addChild_perm (h : Str) (e : Elem) (secs : List Sec) (hh : hasTitle h secs = true) :
    ((addChild h e secs).flatMap Sec.elems).Perm (e :: secs.flatMap Sec.elems) := by
  induction secs with
  | nil => simp [hasTitle] at hh
  | cons s rest ih =>
    by_cases hs : s.title.text = h
    · rw [addChild_head h e s rest hs]
      exact addToHead_perm e s rest
    · have hh' : hasTitle h rest = true := by simpa [hasTitle_cons, hs] using hh
      have : addChild h e (s :: rest) = s :: addChild h e rest := by simp [addChild, hs]
      rw [this]
      simp only [List.flatMap_cons]
      exact ((ih hh').append_left _).trans List.perm_middle

theorem gstep_perm (secs : List Sec) (e : Elem) (hne : secs ≠ [] ∨ e.isTitle = true) :
    ((gstep secs e).flatMap Sec.elems).Perm (e :: secs.flatMap Sec.elems) ∧ gstep secs e ≠ [] := by
  unfold gstep
  by_cases ht : e.isTitle = true
  · simp [ht, Sec.elems]
  · have hs : secs ≠ [] := by rcases hne with h | h; exact h; exact absurd h ht
    obtain ⟨s, rest, rfl⟩ : ∃ s rest, secs = s :: rest := by
      cases secs with
      | nil => exact absurd rfl hs
      | cons s rest => exact ⟨s, rest, rfl⟩
    simp only [ht, Bool.false_eq_true, if_false]
    cases hp : e.md.parentHeading with
    | none => exact ⟨addToHead_perm e s rest, by simp [addToHead]⟩
    | some x =>
      simp only
      by_cases hx : hasTitle x (s :: rest) = true
      · rw [if_pos hx]
        refine ⟨addChild_perm x e _ hx, ?_⟩
        simp only [addChild]; split <;> simp
      · rw [if_neg hx]
        exact ⟨addToHead_perm e s rest, by simp [addToHead]⟩

theorem gfold_perm (l : List Elem) (secs : List Sec)
    (hne : secs ≠ [] ∨ ∃ t r, l = t :: r ∧ t.isTitle = true) :
    ((l.foldl gstep secs).flatMap Sec.elems).Perm (l.reverse ++ secs.flatMap Sec.elems) := by
  induction l generalizing secs with
  | nil => simp
  | cons e r ih =>
    have hne' : secs ≠ [] ∨ e.isTitle = true := by
      rcases hne with h | ⟨t, r', h, ht⟩
      · exact Or.inl h
      · cases h; exact Or.inr ht
    obtain ⟨hp, hn⟩ := gstep_perm secs e hne'
    simp only [List.foldl_cons, List.reverse_cons, List.append_assoc, List.singleton_append]
    exact (ih (gstep secs e) (Or.inl hn)).trans (hp.append_left _)

/-- the sections together hold exactly the elements from the first title on -/
theorem sections_perm (els : List Elem) :
    ((sections els).flatMap Sec.elems).Perm (afterPreamble els) := by
  unfold sections
  have hdrop : ∀ l : List Elem, l.dropWhile (fun e => !e.isTitle) = [] ∨
      ∃ t r, l.dropWhile (fun e => !e.isTitle) = t :: r ∧ t.isTitle = true := by
    intro l
    induction l with
    | nil => simp
    | cons e r ih =>
      by_cases ht : e.isTitle = true
      · right; exact ⟨e, r, by simp [List.dropWhile, ht], ht⟩
      · simpa [List.dropWhile, ht] using ih
  have key : (((afterPreamble els).foldl gstep []).flatMap Sec.elems).Perm (afterPreamble els).reverse := by
    rcases hdrop els with h | ⟨t, r, h, ht⟩
    · simp [afterPreamble, h]
    · have := gfold_perm (afterPreamble els) [] (Or.inr ⟨t, r, h, ht⟩)
      simpa using this
  exact ((List.reverse_perm _).flatMap_right _).trans (key.trans (List.reverse_perm _))

/-- inversion of `Covers` at an input element that cannot be split -/
theorem Covers.cons_unsplittable {o i : List Elem} {e : Elem} (hs : isSplittable e = false)
    (h : Covers o (e :: i)) : ∃ o', o = e :: o' ∧ Covers o' i := by
  generalize hi : e :: i = inp at h
  cases h with
  | nil => cases hi
  | whole e' h' =>
    cases hi; exact ⟨_, rfl, h'⟩
  | split e' fs hs' _ _ _ =>
    cases hi; rw [hs] at hs'; cases hs'

end OxiVerif.C14
