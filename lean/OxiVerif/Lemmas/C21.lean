import OxiVerif.Model.C21
/-!
Helper lemmas for C21: what `ContentTokenizer::next_token` (model `nextTok`) does on the bytes of
one emitted piece followed by arbitrary further input.
-/
namespace OxiVerif.C21
open OxiVerif.Spec.Syntax (isDigit allDigits digitsVal)

/-! ### decimal digits of `showNat` (proofs as in `Lemmas/C09.lean`, restated for the local copy) -/

theorem natDigitsAux_acc (fuel n : Nat) (acc : List Nat) :
    natDigitsAux fuel n acc = natDigitsAux fuel n [] ++ acc := by
  induction fuel generalizing n acc with
  | zero => simp [natDigitsAux]
  | succ f ih =>
    unfold natDigitsAux
    split
    · simp
    · rw [ih (n / 10) ((48 + n % 10) :: acc), ih (n / 10) [48 + n % 10]]; simp

theorem allDigits_append (a b : List Nat) (ha : allDigits a = true) (hb : allDigits b = true) :
    allDigits (a ++ b) = true := by
  induction a with
  | nil => simpa using hb
  | cons x xs ih =>
    simp only [allDigits, Bool.and_eq_true] at ha
    simp [allDigits, ha.1, ih ha.2]

theorem natDigitsAux_digits (fuel n : Nat) (h : n ≤ fuel) :
    allDigits (natDigitsAux fuel n []) = true := by
  induction fuel generalizing n with
  | zero =>
    have : n = 0 := by omega
    subst this; decide
  | succ f ih =>
    unfold natDigitsAux
    split
    · simp [allDigits, isDigit]; omega
    · rw [natDigitsAux_acc]
      refine allDigits_append _ _ (ih (n / 10) (by omega)) ?_
      simp [allDigits, isDigit]; omega

theorem showNat_digits (n : Nat) : allDigits (showNat n) = true := by
  unfold showNat; exact natDigitsAux_digits n n (Nat.le_refl _)

theorem digitsVal_append (acc : Nat) (a b : List Nat) :
    digitsVal (a ++ b) acc = digitsVal b (digitsVal a acc) := by
  induction a generalizing acc with
  | nil => rfl
  | cons x xs ih => simp [digitsVal, ih]

theorem natDigitsAux_val (fuel n : Nat) (h : n ≤ fuel) :
    digitsVal (natDigitsAux fuel n []) 0 = n := by
  induction fuel generalizing n with
  | zero =>
    have : n = 0 := by omega
    subst this; decide
  | succ f ih =>
    unfold natDigitsAux
    split
    · simp [digitsVal]
    · rw [natDigitsAux_acc, digitsVal_append, ih (n / 10) (by omega)]
      simp [digitsVal]; omega

theorem showNat_val (n : Nat) : digitsVal (showNat n) 0 = n := by
  unfold showNat; exact natDigitsAux_val n n (Nat.le_refl _)

theorem natDigitsAux_ne_nil (fuel n : Nat) : natDigitsAux fuel n [] ≠ [] := by
  cases fuel with
  | zero => simp [natDigitsAux]
  | succ f =>
    unfold natDigitsAux
    split
    · simp
    · rw [natDigitsAux_acc]; simp

theorem showNat_ne_nil (n : Nat) : showNat n ≠ [] := by
  unfold showNat; exact natDigitsAux_ne_nil n n

/-! ### literal strings -/

/-- decoding of ONE escape unit as `read_literal_string` does it (stand-alone, for `decide`) -/
def unescOne : List Nat → Option Nat
  | [b] => if b == 92 || b == 40 || b == 41 then none else some b
  | [92, c] =>
    if c == 110 then some 10 else if c == 114 then some 13 else if c == 116 then some 9
    else if c == 98 then some 8 else if c == 102 then some 12
    else if c == 40 || c == 41 || c == 92 then some c else none
  | [92, a, b, c] =>
    if isOctal a && isOctal b && isOctal c then some (((a - 48) * 64 + (b - 48) * 8 + (c - 48)) % 256)
    else none
  | _ => none

theorem readLit_cons_fst (x : Nat) (t : List Nat × List Nat) :
    ((x :: t.1, t.2) : List Nat × List Nat) = (x :: t.1, t.2) := rfl

/-- one escape unit in front of arbitrary input decodes to its value -/
theorem readLit_unit (d : Nat) (e : List Nat) (v : Nat) (X : List Nat) (h : unescOne e = some v) :
    readLit d .normal (e ++ X) = (v :: (readLit d .normal X).1, (readLit d .normal X).2) := by
  match e, h with
  | [b], h =>
    simp only [unescOne] at h
    split at h
    · cases h
    · rename_i hb
      simp only [Bool.or_eq_true, beq_iff_eq, not_or] at hb
      cases h
      obtain ⟨⟨h92, h40⟩, h41⟩ := hb
      simp [readLit, h92, h40, h41]
  | [92, c], h =>
    simp only [unescOne] at h
    simp only [List.cons_append, List.nil_append]
    rw [readLit]
    simp only [beq_self_eq_true]
    · by_cases h1 : c = 110
      · subst h1; simp at h; subst h; simp [readLit]
      by_cases h2 : c = 114
      · subst h2; simp at h; subst h; simp [readLit]
      by_cases h3 : c = 116
      · subst h3; simp at h; subst h; simp [readLit]
      by_cases h4 : c = 98
      · subst h4; simp at h; subst h; simp [readLit]
      by_cases h5 : c = 102
      · subst h5; simp at h; subst h; simp [readLit]
      simp [h1, h2, h3, h4, h5] at h
      obtain ⟨hc, hv⟩ := h
      subst hv
      rcases hc with (hc | hc) | hc <;> subst hc <;> simp [readLit, isOctal]
    all_goals simp
  | [92, a, b, c], h =>
    simp only [unescOne] at h
    split at h
    · rename_i ho
      simp only [Bool.and_eq_true] at ho
      obtain ⟨⟨ha, hb⟩, hc⟩ := ho
      cases h
      have ha' : ¬ (a = 110 ∨ a = 114 ∨ a = 116 ∨ a = 98 ∨ a = 102) := by
        simp [isOctal] at ha; omega
      simp only [not_or] at ha'
      obtain ⟨a1, a2, a3, a4, a5⟩ := ha'
      simp only [List.cons_append, List.nil_append]
      rw [readLit]
      · simp only [beq_self_eq_true]
        rw [readLit]
        simp only [beq_iff_eq, a1, a2, a3, a4, a5, ha, if_false, if_true]
        rw [readLit]
        · simp only [hb, if_true]
          rw [readLit]
          · simp only [hc, if_true]
            simp [Nat.add_mul, Nat.mul_assoc, Nat.add_assoc]
          all_goals simp
        all_goals simp
      all_goals simp
    · cases h

theorem esc_unit_aux : ∀ b, b < 256 →
    (unescOne (escByte .lit b) = some b ∧ unescOne (escByte .gfxShow b) = some b ∧
      unescOne (escByte .gfxDraw b) = some b) := by
  decide +kernel

theorem esc_unit (b : Nat) (hb : b < 256) (k : Esc) : unescOne (escByte k b) = some b := by
  have h := esc_unit_aux b hb
  cases k
  · exact h.1
  · exact h.2.1
  · exact h.2.2

/-- `read_literal_string` inverts every escaper on every byte string -/
theorem readLit_escape (k : Esc) (bs R : List Nat) (hb : ∀ b ∈ bs, b < 256) :
    readLit 0 .normal (escape k bs ++ 41 :: R) = (bs, R) := by
  induction bs with
  | nil => simp [escape, readLit]
  | cons b r ih =>
    have h1 := esc_unit b (hb b (by simp)) k
    have ih' := ih (fun x hx => hb x (by simp [hx]))
    simp only [escape, List.append_assoc]
    rw [readLit_unit 0 _ b _ h1, ih']

/-! ### hex strings -/

theorem hexVal_upper : ∀ n, n < 16 → hexVal (hexDigitUpper n) = some n := by decide

theorem readHexStr_upper (bs R : List Nat) (hb : ∀ b ∈ bs, b < 256) :
    readHexStr none (hexBytesUpper bs ++ 62 :: R) = some (bs, R) := by
  induction bs with
  | nil => simp [hexBytesUpper, readHexStr]
  | cons b r ih =>
    have hb' : b < 256 := hb b (by simp)
    have ih' := ih (fun x hx => hb x (by simp [hx]))
    have d1 : hexDigitUpper (b / 16 % 16) ≠ 62 := by
      unfold hexDigitUpper; split <;> omega
    have d2 : hexDigitUpper (b % 16) ≠ 62 := by
      unfold hexDigitUpper; split <;> omega
    have v1 := hexVal_upper (b / 16 % 16) (Nat.mod_lt _ (by omega))
    have v2 := hexVal_upper (b % 16) (Nat.mod_lt _ (by omega))
    simp only [hexBytesUpper, List.cons_append]
    rw [readHexStr]
    simp only [beq_iff_eq, d1, if_false, v1]
    rw [readHexStr]
    simp only [beq_iff_eq, d2, if_false, v2, ih']
    congr 3
    omega

theorem hexBytesUpper_head_ne_lt (bs R : List Nat) :
    ∀ r', hexBytesUpper bs ++ 62 :: R ≠ 60 :: r' := by
  intro r'
  cases bs with
  | nil => simp [hexBytesUpper]
  | cons b r =>
    simp only [hexBytesUpper, List.cons_append]
    intro h
    injection h with h1 _
    unfold hexDigitUpper at h1
    split at h1 <;> omega

/-! ### terminators -/

/-- the rest of the input is empty or starts with a byte that ends names, operators and numbers -/
def TermOk (X : List Nat) : Prop := X = [] ∨ ∃ b r, X = b :: r ∧ isNameBreak b = true

theorem break_not_digit (b : Nat) (h : isNameBreak b = true) : isDigit b = false ∧ b ≠ 46 ∧ b ≠ 35 := by
  simp [isNameBreak, isWs] at h
  refine ⟨?_, ?_, ?_⟩
  · simp [isDigit]; omega
  · omega
  · omega

/-! ### numbers -/

theorem takeMantissa_stop (hd : Bool) (X : List Nat) (h : TermOk X) :
    takeMantissa hd X = ([], hd, X) := by
  rcases h with rfl | ⟨b, r, rfl, hb⟩
  · simp [takeMantissa]
  · obtain ⟨h1, h2, _⟩ := break_not_digit b hb
    simp [takeMantissa, h1, h2]

theorem takeMantissa_digits (hd : Bool) (ds X : List Nat) (h : allDigits ds = true) :
    takeMantissa hd (ds ++ X) =
      (ds ++ (takeMantissa hd X).1, (takeMantissa hd X).2.1, (takeMantissa hd X).2.2) := by
  induction ds with
  | nil => simp
  | cons b r ih =>
    simp only [allDigits, Bool.and_eq_true] at h
    simp [takeMantissa, h.1, ih h.2]

theorem countDigits_pos (ds X : List Nat) (h : allDigits ds = true) (hne : ds ≠ []) :
    countDigits (ds ++ X) > 0 := by
  cases ds with
  | nil => exact absurd rfl hne
  | cons b r =>
    simp only [allDigits, Bool.and_eq_true] at h
    simp [countDigits, h.1]; omega

/-- digits (non-empty), a period, digits — with an optional leading `-` -/
def IsDecTok (t : List Nat) : Prop :=
  ∃ s ip fp, (s = [] ∨ s = [45]) ∧ ip ≠ [] ∧ allDigits ip = true ∧ allDigits fp = true ∧
    t = s ++ (ip ++ 46 :: fp)

theorem digits_head (ip : List Nat) (h : allDigits ip = true) (hne : ip ≠ []) :
    ∃ b r, ip = b :: r ∧ isDigit b = true := by
  cases ip with
  | nil => exact absurd rfl hne
  | cons b r =>
    simp only [allDigits, Bool.and_eq_true] at h
    exact ⟨b, r, rfl, h.1⟩

theorem readNumber_dec (t X : List Nat) (ht : IsDecTok t) (hX : TermOk X) :
    readNumber (t ++ X) = .tok (.number t) X := by
  obtain ⟨s, ip, fp, hs, hne, hip, hfp, rfl⟩ := ht
  obtain ⟨b, r, hbr, hb⟩ := digits_head ip hip hne
  have hm : takeMantissa false (ip ++ 46 :: fp ++ X) = (ip ++ 46 :: fp, true, X) := by
    rw [List.append_assoc, takeMantissa_digits false ip _ hip]
    simp only [List.cons_append]
    have : takeMantissa false (46 :: (fp ++ X)) =
        (46 :: (takeMantissa true (fp ++ X)).1, (takeMantissa true (fp ++ X)).2.1,
          (takeMantissa true (fp ++ X)).2.2) := by
      simp [takeMantissa, isDigit]
    rw [this, takeMantissa_digits true fp X hfp, takeMantissa_stop true X hX]
    simp
  have hc : countDigits (ip ++ 46 :: fp) > 0 := countDigits_pos ip _ hip hne
  have hb' : b ≠ 43 ∧ b ≠ 45 := by simp [isDigit] at hb; omega
  rcases hs with rfl | rfl
  · simp only [List.nil_append]
    have hsg : (b == 43 || b == 45) = false := by simp [hb'.1, hb'.2]
    unfold readNumber
    subst hbr
    simp only [List.cons_append, hsg, Bool.false_eq_true, if_false]
    have hm' := hm
    simp only [List.cons_append] at hm'
    rw [hm']
    simp only [List.cons_append] at hc
    simp [hc]
  · unfold readNumber
    simp only [List.cons_append, List.nil_append, beq_self_eq_true, Bool.or_true, if_true]
    rw [hm]
    simp [hc]

/-- an integer token: digits (≤ i32::MAX) or `-` digits (≤ 2^31) -/
def IsIntTok (t : List Nat) (i : Int) : Prop :=
  (t ≠ [] ∧ allDigits t = true ∧ digitsVal t 0 ≤ 2147483647 ∧ i = Int.ofNat (digitsVal t 0)) ∨
  (∃ d, t = 45 :: d ∧ d ≠ [] ∧ allDigits d = true ∧ digitsVal d 0 ≤ 2147483648 ∧
    i = - Int.ofNat (digitsVal d 0))

theorem isEmpty_false_of_ne {α} (l : List α) (h : l ≠ []) : l.isEmpty = false := by
  cases l <;> simp_all

theorem readNumber_int (t X : List Nat) (i : Int) (ht : IsIntTok t i) (hX : TermOk X) :
    readNumber (t ++ X) = .tok (.integer i) X := by
  rcases ht with ⟨hne, hd, hv, rfl⟩ | ⟨d, rfl, hne, hd, hv, rfl⟩
  · obtain ⟨b, r, hbr, hb⟩ := digits_head t hd hne
    have hb' : b ≠ 43 ∧ b ≠ 45 := by simp [isDigit] at hb; omega
    have hm : takeMantissa false (t ++ X) = (t, false, X) := by
      rw [takeMantissa_digits false t X hd, takeMantissa_stop false X hX]; simp
    have hsg : (b == 43 || b == 45) = false := by simp [hb'.1, hb'.2]
    unfold readNumber
    subst hbr
    simp only [List.cons_append, hsg, Bool.false_eq_true, if_false]
    have hm' := hm
    simp only [List.cons_append] at hm'
    rw [hm']
    have hs : splitSign (b :: r) = (false, b :: r) := by
      unfold splitSign; split <;> simp_all
    simp [parseI32, hs, hd, hv]
  · have hm : takeMantissa false (d ++ X) = (d, false, X) := by
      rw [takeMantissa_digits false d X hd, takeMantissa_stop false X hX]; simp
    unfold readNumber
    simp only [List.cons_append, beq_self_eq_true, Bool.or_true, if_true]
    rw [hm]
    simp [parseI32, splitSign, hd, hv, isEmpty_false_of_ne d hne]

/-- an integer-looking token of any magnitude: digits, or `-` digits -/
def IsPlainInt (t : List Nat) : Prop :=
  (t ≠ [] ∧ allDigits t = true) ∨ (∃ d, t = 45 :: d ∧ d ≠ [] ∧ allDigits d = true)

/-- what `read_number` returns for it: an `i32` when it fits, otherwise a real -/
def tokOfPlain (t : List Nat) : Token :=
  match parseI32 t with
  | some i => .integer i
  | none => .number t

theorem countDigits_pos' (ds : List Nat) (h : allDigits ds = true) (hne : ds ≠ []) :
    countDigits ds > 0 := by
  have := countDigits_pos ds [] h hne
  simpa using this

theorem readNumber_plain (t X : List Nat) (ht : IsPlainInt t) (hX : TermOk X) :
    readNumber (t ++ X) = .tok (tokOfPlain t) X := by
  rcases ht with ⟨hne, hd⟩ | ⟨d, rfl, hne, hd⟩
  · obtain ⟨b, r, hbr, hb⟩ := digits_head t hd hne
    have hb' : b ≠ 43 ∧ b ≠ 45 := by simp [isDigit] at hb; omega
    have hm : takeMantissa false (t ++ X) = (t, false, X) := by
      rw [takeMantissa_digits false t X hd, takeMantissa_stop false X hX]; simp
    have hsg : (b == 43 || b == 45) = false := by simp [hb'.1, hb'.2]
    have hc := countDigits_pos' t hd hne
    unfold readNumber tokOfPlain
    subst hbr
    simp only [List.cons_append, hsg, Bool.false_eq_true, if_false]
    have hm' := hm
    simp only [List.cons_append] at hm'
    rw [hm']
    simp only [List.nil_append]
    cases hp : parseI32 (b :: r) <;> simp [hp, hc]
  · have hm : takeMantissa false (d ++ X) = (d, false, X) := by
      rw [takeMantissa_digits false d X hd, takeMantissa_stop false X hX]; simp
    have hc := countDigits_pos' d hd hne
    unfold readNumber tokOfPlain
    simp only [List.cons_append, beq_self_eq_true, Bool.or_true, if_true]
    rw [hm]
    simp only [List.singleton_append]
    cases hp : parseI32 (45 :: d) <;> simp [hp, hc]

/-! ### names -/

/-- bytes that the content tokenizer returns unchanged inside a name -/
def nameByteOk (b : Nat) : Bool := !isNameBreak b && b != 35

/-- names that survived the RAW emission used before the repair -/
def RawNameOk (n : List Nat) : Prop := (∀ b ∈ n, nameByteOk b = true) ∧ validUtf8 n = true

/-- every name a Rust `String` can hold: bytes, valid UTF-8 -/
def NameOk (n : List Nat) : Prop := (∀ b ∈ n, b < 256) ∧ validUtf8 n = true

theorem scanName_ok (n X : List Nat) (h : ∀ b ∈ n, nameByteOk b = true) (hX : TermOk X) :
    scanName 0 (n ++ X) = (n, X) := by
  induction n with
  | nil =>
    rcases hX with rfl | ⟨b, r, rfl, hb⟩
    · simp [scanName]
    · simp [scanName, hb]
  | cons b r ih =>
    have hb := h b (by simp)
    simp only [nameByteOk, Bool.and_eq_true, Bool.not_eq_true', bne_iff_ne, ne_eq] at hb
    have ih' := ih (fun x hx => h x (by simp [hx]))
    simp only [List.cons_append]
    rw [scanName]
    simp [hb.1, hb.2, ih']

theorem decodeName_ok (n : List Nat) (h : ∀ b ∈ n, nameByteOk b = true) :
    decodeName .plain n = some n := by
  induction n with
  | nil => simp [decodeName]
  | cons b r ih =>
    have hb := h b (by simp)
    simp only [nameByteOk, Bool.and_eq_true, Bool.not_eq_true', bne_iff_ne, ne_eq] at hb
    have ih' := ih (fun x hx => h x (by simp [hx]))
    rw [decodeName]
    simp [hb.2, ih']

theorem readName_raw (n X : List Nat) (h : RawNameOk n) (hX : TermOk X) :
    readName (n ++ X) = .tok (.name n) X := by
  unfold readName
  simp [scanName_ok n X h.1 hX, decodeName_ok n h.1, h.2]

/-! #### escaped names (`escape_pdf_name_bytes`) -/

theorem regular_ok (b : Nat) (h : nameRegular b = true) : isNameBreak b = false ∧ b ≠ 35 := by
  simp [nameRegular] at h
  simp [isNameBreak, isWs]
  omega

theorem hexDigitUpper_ne_plus (k : Nat) (h : k < 16) : hexDigitUpper k ≠ 43 := by
  unfold hexDigitUpper
  split <;> omega

theorem hexVal_hexDigitUpper : ∀ k, k < 16 → hexVal (hexDigitUpper k) = some k := by decide

theorem scanName_esc (n X : List Nat) (hX : TermOk X) :
    scanName 0 (escapeName n ++ X) = (escapeName n, X) := by
  induction n with
  | nil =>
    rcases hX with rfl | ⟨b, r, rfl, hb⟩
    · simp [escapeName, scanName]
    · simp [escapeName, scanName, hb]
  | cons x xs ih =>
    by_cases hp : nameRegular x = true
    · have := regular_ok x hp
      simp [escapeName, hp, scanName, this.1, this.2, ih]
    · simp only [Bool.not_eq_true] at hp
      have h35 : isNameBreak 35 = false := by decide
      simp [escapeName, hp, scanName, h35, ih]

theorem decodeName_esc (n : List Nat) (hb : ∀ b ∈ n, b < 256) :
    decodeName .plain (escapeName n) = some n := by
  induction n with
  | nil => simp [escapeName, decodeName]
  | cons x xs ih =>
    have hx : x < 256 := hb x (by simp)
    have ih' := ih (fun b hb' => hb b (by simp [hb']))
    by_cases hp : nameRegular x = true
    · have := regular_ok x hp
      simp [escapeName, hp, decodeName, this.2, ih']
    · simp only [Bool.not_eq_true] at hp
      have h1 := hexVal_hexDigitUpper (x / 16 % 16) (by omega)
      have h2 := hexVal_hexDigitUpper (x % 16) (by omega)
      have hn := hexDigitUpper_ne_plus (x / 16 % 16) (by omega)
      simp [escapeName, hp, decodeName, hexPair, hn, h1, h2, ih']
      omega

/-- the content tokenizer decodes the `#XX` escapes back: EVERY name -/
theorem readName_ok (n X : List Nat) (h : NameOk n) (hX : TermOk X) :
    readName (escapeName n ++ X) = .tok (.name n) X := by
  unfold readName
  simp [scanName_esc n X hX, decodeName_esc n h.1, h.2]

/-! ### operators -/

def kwOk (k : List Nat) : Bool :=
  (match k with
   | [] => false
   | b :: _ => !(b == 43 || b == 45 || b == 46 || isDigit b)) &&
  k.all (fun b => !isOpBreak b) && validUtf8 k && k != [73, 68]

theorem scanOp_ok (k X : List Nat) (h : k.all (fun b => !isOpBreak b) = true) (hX : TermOk X) :
    scanOp (k ++ X) = (k, X) := by
  induction k with
  | nil =>
    rcases hX with rfl | ⟨b, r, rfl, hb⟩
    · simp [scanOp]
    · simp [scanOp, isOpBreak, hb]
  | cons b r ih =>
    simp only [List.all_cons, Bool.and_eq_true, Bool.not_eq_true'] at h
    simp only [List.cons_append]
    rw [scanOp]
    simp [h.1, ih h.2]

theorem nextTok_kw (k X : List Nat) (h : kwOk k = true) (hX : TermOk X) :
    nextTok false (k ++ X) = .tok (.operator k) X := by
  simp only [kwOk, Bool.and_eq_true] at h
  obtain ⟨⟨⟨h1, h2⟩, h3⟩, _⟩ := h
  cases k with
  | nil => simp at h1
  | cons b r =>
    have hs := scanOp_ok (b :: r) X h2 hX
    simp only [List.all_cons, Bool.and_eq_true, Bool.not_eq_true'] at h2
    have hb := h2.1
    simp only [Bool.not_eq_true', Bool.or_eq_false_iff, beq_eq_false_iff_ne, ne_eq] at h1
    simp only [isOpBreak, isNameBreak, isWs, Bool.or_eq_false_iff, beq_eq_false_iff_ne, ne_eq] at hb
    simp only [List.cons_append] at hs ⊢
    unfold nextTok
    simp [isWs, hb, h1, hs, h3]

/-! ### comments -/

theorem nextTok_comment (t X : List Nat) (h : ∀ b ∈ t, b ≠ 10) :
    nextTok true (t ++ 10 :: X) = nextTok false X := by
  induction t with
  | nil => simp [nextTok]
  | cons b r ih =>
    simp only [List.cons_append]
    rw [nextTok]
    have : b ≠ 10 := h b (by simp)
    simp [this, ih (fun x hx => h x (by simp [hx]))]

/-! ## the tokenizer on rendered pieces -/

/-- what a numeric piece is read as -/
inductive NumRead (t : List Nat) : Token → Prop where
  | dec (h : IsDecTok t) : NumRead t (.number t)
  | int (i : Int) (h : IsIntTok t i) : NumRead t (.integer i)
  | plain (h : IsPlainInt t) : NumRead t (tokOfPlain t)

theorem nextTok_num (t X : List Nat) (tok : Token) (h : NumRead t tok) (hX : TermOk X) :
    nextTok false (t ++ X) = .tok tok X := by
  have key : ∀ b r, t = b :: r → (b = 45 ∨ isDigit b = true) →
      nextTok false (t ++ X) = readNumber (t ++ X) := by
    intro b r e hb
    subst e
    simp only [List.cons_append]
    unfold nextTok
    rcases hb with rfl | hb
    · simp [isWs]
    · have : b ≠ 32 ∧ b ≠ 9 ∧ b ≠ 13 ∧ b ≠ 10 ∧ b ≠ 12 ∧ b ≠ 37 := by
        simp [isDigit] at hb; omega
      simp [isWs, this, hb]
  cases h with
  | dec h =>
    rw [← readNumber_dec t X h hX]
    obtain ⟨s, ip, fp, hs, hne, hip, _, rfl⟩ := h
    obtain ⟨b, r, hbr, hb⟩ := digits_head ip hip hne
    rcases hs with rfl | rfl
    · subst hbr; exact key b _ rfl (Or.inr hb)
    · exact key 45 _ rfl (Or.inl rfl)
  | plain h =>
    rw [← readNumber_plain t X h hX]
    rcases h with ⟨hne, hd⟩ | ⟨d, rfl, _, _⟩
    · obtain ⟨b, r, hbr, hb⟩ := digits_head t hd hne
      exact key b r hbr (Or.inr hb)
    · exact key 45 d rfl (Or.inl rfl)
  | int i h =>
    rw [← readNumber_int t X i h hX]
    rcases h with ⟨hne, hd, _, _⟩ | ⟨d, rfl, _, _, _, _⟩
    · obtain ⟨b, r, hbr, hb⟩ := digits_head t hd hne
      exact key b r hbr (Or.inr hb)
    · exact key 45 d rfl (Or.inl rfl)

theorem nextTok_lparen (r : List Nat) :
    nextTok false (40 :: r) = .tok (.str (readLit 0 .normal r).1) (readLit 0 .normal r).2 := by
  conv => lhs; unfold nextTok
  simp [isWs, isDigit]

theorem nextTok_slash (r : List Nat) : nextTok false (47 :: r) = readName r := by
  conv => lhs; unfold nextTok
  simp [isWs, isDigit]

theorem nextTok_lb (r : List Nat) : nextTok false (91 :: r) = .tok .arrayStart r := by
  conv => lhs; unfold nextTok
  simp [isWs, isDigit]

theorem nextTok_rb (r : List Nat) : nextTok false (93 :: r) = .tok .arrayEnd r := by
  conv => lhs; unfold nextTok
  simp [isWs, isDigit]

theorem nextTok_dictOpen (r : List Nat) : nextTok false (60 :: 60 :: r) = .tok .dictStart r := by
  conv => lhs; unfold nextTok
  simp [isWs, isDigit]

theorem nextTok_dictClose (r : List Nat) : nextTok false (62 :: 62 :: r) = .tok .dictEnd r := by
  conv => lhs; unfold nextTok
  simp [isWs, isDigit]

theorem nextTok_hex (r s rest : List Nat) (hne : ∀ r', r ≠ 60 :: r')
    (h : readHexStr none r = some (s, rest)) :
    nextTok false (60 :: r) = .tok (.hexStr s) rest := by
  conv => lhs; unfold nextTok
  simp only [isWs, isDigit]
  cases r with
  | nil => simp [readHexStr] at h
  | cons b r' =>
    have hb : b ≠ 60 := fun e => hne r' (by rw [e])
    simp [hb, h]

/-- the token a piece is read as (`none`: white space / comment) -/
inductive PieceRead : Piece → Option Token → Prop where
  | num (t : List Nat) (tok : Token) (h : NumRead t tok) : PieceRead (.num t) (some tok)
  | name (n : List Nat) (h : NameOk n) : PieceRead (.name n) (some (.name n))
  | lit (k : Esc) (bs : List Nat) (h : ∀ b ∈ bs, b < 256) : PieceRead (.lit k bs) (some (.str bs))
  | hex (bs : List Nat) (h : ∀ b ∈ bs, b < 256) : PieceRead (.hex bs) (some (.hexStr bs))
  | kw (k : List Nat) (h : kwOk k = true) : PieceRead (.kw k) (some (.operator k))
  | sp : PieceRead .sp none
  | nl : PieceRead .nl none
  | lb : PieceRead .lb (some .arrayStart)
  | rb : PieceRead .rb (some .arrayEnd)
  | dictOpen : PieceRead .dictOpen (some .dictStart)
  | dictClose : PieceRead .dictClose (some .dictEnd)
  | comment (t : List Nat) (h : ∀ b ∈ t, b ≠ 10) : PieceRead (.comment t) none

/-- pieces whose last byte must be followed by a terminator -/
def needsTerm : Piece → Bool
  | .num _ | .name _ | .kw _ => true
  | _ => false

/-- pieces that begin with a terminator byte -/
def isTermPiece : Piece → Bool
  | .sp | .nl | .rb | .dictClose | .lb | .dictOpen | .lit _ _ | .hex _ | .name _ | .comment _ => true
  | _ => false

theorem termPiece_TermOk (p : Piece) (R : List Nat) (h : isTermPiece p = true) :
    TermOk (bytesOf p ++ R) := by
  cases p <;> simp [isTermPiece] at h <;>
    exact Or.inr ⟨_, _, rfl, by simp [isNameBreak, isWs]⟩

/-- a well-formed piece list with the tokens it is read as -/
inductive Reads : List Piece → List Token → Prop where
  | nil : Reads [] []
  | tok (p : Piece) (t : Token) (ps : List Piece) (ts : List Token)
      (hp : PieceRead p (some t))
      (hterm : needsTerm p = true → (ps = [] ∨ ∃ q r, ps = q :: r ∧ isTermPiece q = true))
      (hrest : Reads ps ts) : Reads (p :: ps) (t :: ts)
  | skip (p : Piece) (ps : List Piece) (ts : List Token)
      (hp : PieceRead p none)
      (hc : ∀ t, p = .comment t → ∃ r, ps = .nl :: r)
      (hrest : Reads ps ts) : Reads (p :: ps) ts

theorem render_TermOk (ps : List Piece)
    (h : ps = [] ∨ ∃ q r, ps = q :: r ∧ isTermPiece q = true) : TermOk (render ps) := by
  rcases h with rfl | ⟨q, r, rfl, hq⟩
  · exact Or.inl rfl
  · exact termPiece_TermOk q (render r) hq

theorem tokenize_congr (f : Nat) (a b : List Nat) (h : nextToken a = nextToken b) :
    tokenize (f + 1) a = tokenize (f + 1) b := by
  simp only [tokenize, h]

theorem tokenize_step (f : Nat) (a R : List Nat) (t : Token) (h : nextToken a = .tok t R)
    (hid : t ≠ .operator [73, 68]) : tokenize (f + 1) a = t :: tokenize f R := by
  simp only [tokenize, h]
  simp [hid]

theorem render_length_pos (p : Piece) : (bytesOf p).length ≥ 1 ∨ (∃ b, p = .junk b) ∨ (∃ t, p = .num t) ∨ (∃ k, p = .kw k) := by
  cases p <;> simp [bytesOf]

/-- **the tokenizer returns exactly the tokens of a well-formed piece list** -/
theorem tokenize_render (ps : List Piece) (ts : List Token) (h : Reads ps ts) :
    ∀ f, f ≥ (render ps).length + 1 → tokenize f (render ps) = ts := by
  induction h with
  | nil =>
    intro f hf
    cases f with
    | zero => omega
    | succ f => simp [render, tokenize, nextToken, nextTok]
  | tok p t ps ts hp hterm hrest ih =>
    intro f hf
    cases f with
    | zero => omega
    | succ f =>
      simp only [render] at hf ⊢
      have hlen : ∀ (R : List Nat), nextToken (bytesOf p ++ render ps) = .tok t R →
          t ≠ .operator [73, 68] → R.length + 1 ≤ f →
          (∀ f', f' ≥ R.length + 1 → tokenize f' R = ts) →
          tokenize (f + 1) (bytesOf p ++ render ps) = t :: ts := by
        intro R h1 h2 h3 h4
        rw [tokenize_step f _ R t h1 h2, h4 f h3]
      simp only [List.length_append] at hf
      cases hp with
      | num tk _ hn =>
        have hX := render_TermOk ps (hterm rfl)
        have hne : (bytesOf (.num tk)).length ≥ 1 := by
          cases hn with
          | dec h =>
            obtain ⟨s, ip, fp, _, _, _, _, rfl⟩ := h
            simp only [bytesOf, List.length_append, List.length_cons]; omega
          | int i h =>
            rcases h with ⟨hne, _, _, _⟩ | ⟨d, rfl, _, _, _, _⟩
            · cases tk with
              | nil => exact absurd rfl hne
              | cons _ _ => simp [bytesOf]
            · simp [bytesOf]
          | plain h =>
            rcases h with ⟨hne, _⟩ | ⟨d, rfl, _, _⟩
            · cases tk with
              | nil => exact absurd rfl hne
              | cons _ _ => simp [bytesOf]
            · simp [bytesOf]
        refine hlen (render ps) (nextTok_num tk _ t hn hX) ?_ (by omega) ih
        cases hn with
        | dec _ => simp
        | int _ _ => simp
        | plain _ =>
          unfold tokOfPlain
          split <;> simp
      | name n hn =>
        have hX := render_TermOk ps (hterm rfl)
        refine hlen (render ps) ?_ (by simp) (by simp [bytesOf] at hf; omega) ih
        simp only [bytesOf, List.cons_append, nextToken]
        rw [nextTok_slash, readName_ok n _ hn hX]
      | lit k bs hb =>
        refine hlen (render ps) ?_ (by simp) (by simp [bytesOf] at hf; omega) ih
        simp only [bytesOf, List.cons_append, nextToken, List.append_assoc, List.nil_append]
        rw [nextTok_lparen, readLit_escape k bs _ hb]
      | hex bs hb =>
        refine hlen (render ps) ?_ (by simp) (by simp [bytesOf] at hf; omega) ih
        simp only [bytesOf, List.cons_append, nextToken, List.append_assoc, List.nil_append]
        exact nextTok_hex _ bs (render ps) (hexBytesUpper_head_ne_lt bs (render ps))
          (readHexStr_upper bs _ hb)
      | kw k hk =>
        have hX := render_TermOk ps (hterm rfl)
        have hne : k.length ≥ 1 := by
          cases k with
          | nil => simp [kwOk] at hk
          | cons _ _ => simp
        refine hlen (render ps) (by simpa [bytesOf, nextToken] using nextTok_kw k _ hk hX) ?_
          (by simp [bytesOf] at hf; omega) ih
        simp only [kwOk, Bool.and_eq_true, bne_iff_ne, ne_eq] at hk
        intro e
        injection e with e
        exact hk.2 e
      | lb =>
        refine hlen (render ps) ?_ (by simp) (by simp [bytesOf] at hf; omega) ih
        simp only [bytesOf, List.cons_append, nextToken, List.nil_append]
        exact nextTok_lb _
      | rb =>
        refine hlen (render ps) ?_ (by simp) (by simp [bytesOf] at hf; omega) ih
        simp only [bytesOf, List.cons_append, nextToken, List.nil_append]
        exact nextTok_rb _
      | dictOpen =>
        refine hlen (render ps) ?_ (by simp) (by simp [bytesOf] at hf; omega) ih
        simp only [bytesOf, List.cons_append, nextToken, List.nil_append]
        exact nextTok_dictOpen _
      | dictClose =>
        refine hlen (render ps) ?_ (by simp) (by simp [bytesOf] at hf; omega) ih
        simp only [bytesOf, List.cons_append, nextToken, List.nil_append]
        exact nextTok_dictClose _
  | skip p ps ts hp hc hrest ih =>
    intro f hf
    cases f with
    | zero => omega
    | succ f =>
      simp only [render] at hf ⊢
      simp only [List.length_append] at hf
      have fin : ∀ (k : Nat), (bytesOf p).length = k + 1 →
          nextToken (bytesOf p ++ render ps) = nextToken (render ps) →
          tokenize (f + 1) (bytesOf p ++ render ps) = ts := by
        intro k hk h1
        rw [tokenize_congr f _ _ h1]
        exact ih (f + 1) (by omega)
      cases hp with
      | sp =>
        refine fin 0 (by simp [bytesOf]) ?_
        simp only [bytesOf, List.cons_append, List.nil_append, nextToken]
        conv => lhs; unfold nextTok
        simp [isWs]
      | nl =>
        refine fin 0 (by simp [bytesOf]) ?_
        simp only [bytesOf, List.cons_append, List.nil_append, nextToken]
        conv => lhs; unfold nextTok
        simp [isWs]
      | comment t ht =>
        obtain ⟨r, rfl⟩ := hc t rfl
        refine fin (t.length + 1) (by simp [bytesOf]) ?_
        have hc' : ∀ b ∈ (32 :: t), b ≠ 10 := by
          intro b hb
          rcases List.mem_cons.mp hb with rfl | hb
          · decide
          · exact ht b hb
        have h1 := nextTok_comment (32 :: t) (render r) hc'
        simp only [bytesOf, render, List.cons_append, List.nil_append, nextToken]
        have hl : nextTok false (37 :: 32 :: (t ++ 10 :: render r)) =
            nextTok true (32 :: (t ++ 10 :: render r)) := by
          conv => lhs; unfold nextTok
          simp [isWs]
        have hr : nextTok false (10 :: render r) = nextTok false (render r) := by
          conv => lhs; unfold nextTok
          simp [isWs]
        rw [hl, hr]
        simpa using h1

end OxiVerif.C21
