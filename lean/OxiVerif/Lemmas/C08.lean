import OxiVerif.Model.C08
/-!
Helper lemmas for C08 (and C07): every decoder of `Model/C08.lean` respects its limit and its result
does not depend on the limit as long as it fits ("limit irrelevance").
-/
namespace OxiVerif.Flt

theorem Res.pre_ok {xs : List Nat} {r : Res (List Nat)} {o : List Nat} :
    r.pre xs = .ok o ↔ ∃ o', r = .ok o' ∧ o = xs ++ o' := by
  cases r <;> simp [Res.pre, eq_comm]

theorem Res.bind_ok {α β} {r : Res α} {f : α → Res β} {b : β} :
    r.bind f = .ok b ↔ ∃ a, r = .ok a ∧ f a = .ok b := by
  cases r <;> simp [Res.bind]

@[simp] theorem be4_length (v : Nat) : (be4 v).length = 4 := rfl

/-! ### ASCIIHex -/

theorem hexGo_le (L : Nat) : ∀ n cs o, hexGo L n cs = .ok o → o.length ≤ L - n := by
  intro n cs
  fun_induction hexGo L n cs <;> intro o h
  all_goals (try simp_all)
  · subst h; simp; omega
  · rw [Res.pre_ok] at h; obtain ⟨o', h1, rfl⟩ := h
    rename_i ih; have := ih _ h1; simp; omega

theorem hexGo_mono (L L' : Nat) : ∀ n cs o, hexGo L n cs = .ok o → n + o.length ≤ L' →
    hexGo L' n cs = .ok o := by
  intro n cs
  fun_induction hexGo L n cs <;> intro o h hl
  all_goals (try simp_all [hexGo])
  · subst h; simp at hl; omega
  · rw [Res.pre_ok] at h; obtain ⟨o', h1, rfl⟩ := h
    rename_i ih
    simp at hl
    have := ih _ h1 (by omega)
    simp [this, Res.pre]; omega

/-! ### ASCII85 -/

theorem a85Fin_le (L n : Nat) (g o) : a85Fin L n g = .ok o → o.length ≤ L - n := by
  unfold a85Fin
  intro h
  split at h
  · cases h; simp
  · split at h
    · split at h
      · cases h
      · cases h; omega
    all_goals cases h

theorem a85Fin_mono (L L' n : Nat) (g o) : a85Fin L n g = .ok o → n + o.length ≤ L' →
    a85Fin L' n g = .ok o := by
  unfold a85Fin
  by_cases hg : g.isEmpty = true
  · rw [if_pos hg, if_pos hg]; intro h _; exact h
  · rw [if_neg hg, if_neg hg]
    cases a85Value (g ++ List.replicate (5 - g.length) 117) with
    | ok v =>
      simp only []
      intro h hl
      split at h
      · cases h
      · cases h; rw [if_neg (by omega)]
    | _ => intro h; cases h

theorem a85Go_le (L : Nat) : ∀ n g cs o, a85Go L n g cs = .ok o → o.length ≤ L - n := by
  intro n g cs
  fun_induction a85Go L n g cs <;> intro o h
  all_goals (try simp_all)
  all_goals (try (exact a85Fin_le _ _ _ _ h))
  all_goals
    rw [Res.pre_ok] at h; obtain ⟨o', h1, rfl⟩ := h
    rename_i ih; have := ih _ h1; simp; omega

theorem a85Go_mono (L L' : Nat) : ∀ n g cs o, a85Go L n g cs = .ok o → n + o.length ≤ L' →
    a85Go L' n g cs = .ok o := by
  intro n g cs
  fun_induction a85Go L n g cs <;> intro o h hl
  all_goals (try simp_all [a85Go])
  all_goals (try (exact a85Fin_mono _ _ _ _ _ h hl))
  all_goals
    rw [Res.pre_ok] at h; obtain ⟨o', h1, rfl⟩ := h
    rename_i ih
    simp at hl
    have := ih _ h1 (by omega)
    simp [this, Res.pre]
    repeat' (first | omega | split | (simp_all; done))

/-! ### RunLength -/

theorem rlGo_le (L : Nat) : ∀ fuel n d o, rlGo L fuel n d = .ok o → o.length ≤ L - n := by
  intro fuel n d
  fun_induction rlGo L fuel n d <;> intro o h
  all_goals (try simp_all)
  all_goals
    rw [Res.pre_ok] at h; obtain ⟨o', h1, rfl⟩ := h
    rename_i ih; have := ih _ h1; simp; omega

theorem rlGo_mono (L L' : Nat) : ∀ fuel n d o, rlGo L fuel n d = .ok o → n + o.length ≤ L' →
    rlGo L' fuel n d = .ok o := by
  intro fuel n d
  fun_induction rlGo L fuel n d <;> intro o h hl
  all_goals (try simp_all [rlGo])
  all_goals
    rw [Res.pre_ok] at h; obtain ⟨o', h1, rfl⟩ := h
    rename_i ih
    simp at hl
    have := ih _ h1 (by omega)
    simp [this, Res.pre]
    repeat' (first | omega | split | (simp_all; done))

/-! ### LZW -/

theorem lzwGo_mono (L L' : Nat) (e : Bool) : ∀ fuel n st o, lzwGo L e fuel n st = .ok o →
    n + o.length ≤ L' → lzwGo L' e fuel n st = .ok o := by
  intro fuel n st
  fun_induction lzwGo L e fuel n st <;> intro o h hl
  all_goals (try simp_all [lzwGo])
  all_goals
    rw [Res.pre_ok] at h; obtain ⟨o', h1, rfl⟩ := h
    rename_i ih
    simp at hl
    have := ih _ h1 (by omega)
    simp [this, Res.pre]
    try omega

theorem lzwGo_mono_le (L L' : Nat) (hLL : L ≤ L') (e : Bool) : ∀ fuel n st o,
    lzwGo L e fuel n st = .ok o → lzwGo L' e fuel n st = .ok o := by
  intro fuel n st
  fun_induction lzwGo L e fuel n st <;> intro o h
  all_goals (try simp_all [lzwGo])
  all_goals
    rw [Res.pre_ok] at h; obtain ⟨o', h1, rfl⟩ := h
    rename_i ih
    have := ih _ h1
    simp [this, Res.pre]
    try omega

/-! ### no panics in hex / RunLength / LZW -/

theorem Res.pre_panic {xs : List Nat} {r : Res (List Nat)} {q : Pan} :
    r.pre xs = .panic q ↔ r = .panic q := by
  cases r <;> simp [Res.pre]

theorem hexByte_no_panic (h l : Nat) (q : Pan) : hexByte h l ≠ .panic q := by
  unfold hexByte; repeat' split
  all_goals simp

theorem hexGo_no_panic (L : Nat) (q : Pan) : ∀ n cs, hexGo L n cs ≠ .panic q := by
  intro n cs
  fun_induction hexGo L n cs
  all_goals (try simp_all [Res.pre_panic])
  all_goals (rename_i hb; exact absurd hb (hexByte_no_panic _ _ _))

theorem rlGo_no_panic (L : Nat) (q : Pan) : ∀ fuel n d, rlGo L fuel n d ≠ .panic q := by
  intro fuel n d
  fun_induction rlGo L fuel n d
  all_goals (try simp_all [Res.pre_panic])

theorem lzwGo_no_panic (L : Nat) (e : Bool) (q : Pan) : ∀ fuel n st, lzwGo L e fuel n st ≠ .panic q := by
  intro fuel n st
  fun_induction lzwGo L e fuel n st
  all_goals (try simp_all [Res.pre_panic])

/-! ### no panics anywhere (after the repairs of C08-F1 and C08-F2) -/

theorem a85Horner_no_panic (q : Pan) : ∀ v g, a85Horner v g ≠ .panic q := by
  intro v g
  fun_induction a85Horner v g <;> simp_all

theorem a85Fin_no_panic (L n : Nat) (g : List Nat) (q : Pan) : a85Fin L n g ≠ .panic q := by
  unfold a85Fin
  split
  · simp
  · have := a85Horner_no_panic q 0 (g ++ List.replicate (5 - g.length) 117)
    unfold a85Value
    split <;> simp_all
    split <;> simp

theorem a85Go_no_panic (L : Nat) (q : Pan) : ∀ n g cs, a85Go L n g cs ≠ .panic q := by
  intro n g cs
  fun_induction a85Go L n g cs
  all_goals (try simp_all [Res.pre_panic, a85Fin_no_panic])
  all_goals (rename_i hv; exact absurd hv (a85Horner_no_panic _ 0 _))

theorem pngRows_no_panic (bpp rb : Nat) (q : Pan) : ∀ k prev data, pngRows bpp rb k prev data ≠ .panic q := by
  intro k prev data
  fun_induction pngRows bpp rb k prev data <;> simp_all [Res.pre_panic]

theorem applyPredictor_no_panic (data : List Nat) (p : Nat) (d : Dict) (q : Pan) :
    applyPredictor data p d ≠ .panic q := by
  unfold applyPredictor tiffPredictor pngAdvanced
  simp only []
  repeat' split
  all_goals (first | (simp; done) | exact pngRows_no_panic _ _ _ _ _ _)

/-! ### read_to_end_limited -/

theorem readToEndLimited_ok (L : Nat) : ∀ n cs o, readToEndLimited L n cs = .ok o ↔
    (o = cs.flatten ∧ (cs = [] ∨ n + o.length ≤ L)) := by
  intro n cs
  induction cs generalizing n with
  | nil => intro o; simp [readToEndLimited, eq_comm]
  | cons c cs ih =>
    intro o
    simp only [readToEndLimited]
    split
    · simp; intro h; subst h; simp; omega
    · rw [Res.pre_ok]
      constructor
      · rintro ⟨o', h1, rfl⟩
        rw [ih] at h1
        obtain ⟨rfl, h2⟩ := h1
        refine ⟨by simp, Or.inr ?_⟩
        rcases h2 with rfl | h2
        · simp; omega
        · simp at h2 ⊢; omega
      · rintro ⟨rfl, h2⟩
        refine ⟨cs.flatten, ?_, by simp⟩
        rw [ih]
        refine ⟨rfl, ?_⟩
        rcases h2 with h2 | h2
        · cases h2
        · by_cases hc : cs = []
          · exact Or.inl hc
          · right; simp at h2 ⊢; omega

/-! ### predictors never lengthen -/

@[simp] theorem unfilterGo_length (t bpp prev) : ∀ seen row, (unfilterGo t bpp prev seen row).length = row.length := by
  intro seen row
  induction row generalizing seen with
  | nil => simp [unfilterGo]
  | cons y ys ih => simp [unfilterGo, ih]

@[simp] theorem unfilterRow_length (t bpp prev row) : (unfilterRow t bpp prev row).length = row.length := by
  simp [unfilterRow]

theorem pngRows_le (bpp rb : Nat) : ∀ k prev data o, pngRows bpp rb k prev data = .ok o →
    o.length ≤ data.length := by
  intro k prev data
  fun_induction pngRows bpp rb k prev data <;> intro o h
  all_goals (try simp_all)
  rw [Res.pre_ok] at h; obtain ⟨o', h1, rfl⟩ := h
  rename_i ih; have := ih _ h1; simp at this ⊢; omega

theorem pngAdvanced_le (data : List Nat) (d : Dict) (o) : pngAdvanced data d = .ok o →
    o.length ≤ data.length := by
  unfold pngAdvanced
  simp only []
  repeat' split
  all_goals (intro h; first | (cases h; done) | exact pngRows_le _ _ _ _ _ _ h)

/-! ### TIFF predictor keeps the length -/

@[simp] theorem bitsOfNat_length (w x : Nat) : (bitsOfNat w x).length = w := by
  induction w with
  | zero => rfl
  | succ w ih => simp [bitsOfNat, ih]

theorem flatMap_bits_length (w : Nat) : ∀ l : List Nat, (l.flatMap (bitsOfNat w)).length = l.length * w := by
  intro l
  induction l with
  | nil => simp
  | cons x xs ih => simp [List.flatMap_cons, ih, Nat.succ_mul, Nat.add_comm]

/-- exactly `n` groups when the length is `n * k` -/
theorem groupsOf_length {α} (k : Nat) (hk : 0 < k) : ∀ (n fuel : Nat) (l : List α), l.length = n * k → n < fuel →
    (groupsOf k fuel l).length = n := by
  intro n
  induction n with
  | zero =>
    intro fuel l hl hf
    have : l = [] := by simpa using hl
    subst this
    cases fuel <;> simp [groupsOf]
  | succ n ih =>
    intro fuel l hl hf
    obtain ⟨fuel, rfl⟩ : ∃ f, fuel = f + 1 := ⟨fuel - 1, by omega⟩
    have hne : l.isEmpty = false := by
      cases l with
      | nil => simp [Nat.succ_mul] at hl; omega
      | cons _ _ => rfl
    simp only [groupsOf, hne, Bool.false_eq_true, false_or]
    rw [if_neg (by omega)]
    simp only [List.length_cons]
    rw [ih fuel (l.drop k) (by simp [hl, Nat.succ_mul]) (by omega)]

@[simp] theorem tiffUndiff_length (colors bpc : Nat) : ∀ (l : List Nat) (seen : Array Nat),
    (tiffUndiff colors bpc seen l).length = l.length := by
  intro l
  induction l with
  | nil => intro _; rfl
  | cons x xs ih => intro seen; simp [tiffUndiff, ih]

theorem tiffUnRow_length (colors samples bpc : Nat) (hb : 0 < bpc) (row : List Nat)
    (hT : samples * bpc ≤ 8 * row.length) : (tiffUnRow colors samples bpc row).length = row.length := by
  unfold tiffUnRow
  split
  · simp
  · have hbits : (row.flatMap (bitsOfNat 8)).length = row.length * 8 := flatMap_bits_length 8 row
    have htake : ((row.flatMap (bitsOfNat 8)).take (samples * bpc)).length = samples * bpc := by
      rw [List.length_take, hbits]; omega
    have hg := groupsOf_length bpc hb samples (samples + 1) _ htake (Nat.lt_succ_self _)
    simp only [List.length_map]
    refine groupsOf_length 8 (by omega) row.length _ _ ?_ (Nat.lt_succ_self _)
    simp only [List.length_append, flatMap_bits_length, tiffUndiff_length, List.length_map, hg,
      List.length_drop, hbits]
    omega

theorem tiffRows_length (rb colors samples bpc : Nat) (hb : 0 < bpc) (_hrb : 0 < rb)
    (hT : samples * bpc ≤ 8 * rb) : ∀ (fuel : Nat) (data : List Nat),
    (tiffRows rb colors samples bpc fuel data).length = data.length := by
  intro fuel
  induction fuel with
  | zero => intro data; rfl
  | succ fuel ih =>
    intro data
    simp only [tiffRows]
    split
    · rfl
    · have hlen : (data.take rb).length = rb := by simp [List.length_take]; omega
      rw [List.length_append, ih, tiffUnRow_length _ _ _ hb _ (by omega), hlen]
      simp; omega

theorem tiffPredictor_length (data : List Nat) (d : Dict) (o) : tiffPredictor data d = .ok o →
    o.length = data.length := by
  unfold tiffPredictor
  simp only []
  intro h
  split at h
  · cases h
  · rename_i hbpc
    split at h
    · cases h
    · split at h
      · cases h
      · split at h
        · cases h
        · split at h
          · cases h; rfl
          · cases h
            have hpos : 0 < asUsize (d.bpc.asInt.getD 8) := by
              have := Classical.not_not.mp hbpc; omega
            exact tiffRows_length _ _ _ _ hpos (by omega) (by rw [Nat.mul_comm 8]; omega) _ _

theorem applyPredictor_le (data : List Nat) (p : Nat) (d : Dict) (o) :
    applyPredictor data p d = .ok o → o.length ≤ data.length := by
  unfold applyPredictor
  repeat' split
  all_goals (intro h; first | (cases h; exact Nat.le_refl _) | exact pngAdvanced_le _ _ _ h |
    exact Nat.le_of_eq (tiffPredictor_length _ _ _ h))

end OxiVerif.Flt
