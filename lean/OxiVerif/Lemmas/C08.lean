import OxiVerif.Model.C08
/-!
Helper lemmas for C08 (and C07): every decoder of `Model/C08.lean` respects its limit and its result
does not depend on the limit as long as it fits ("limit irrelevance").
-/
namespace OxiVerif.Flt

theorem Res.pre_ok {xs : List Nat} {r : Res (List Nat)} {o : List Nat} :
    r.pre xs = .ok o ↔ ∃ o', r = .ok o' ∧ o = xs ++ o' := by
  cases r <;> simp [Res.pre, eq_comm]

theorem Res.bind_ok {α β} {r : Res α} {f : α → Res β} {b : β} :
    r.bind f = .ok b ↔ ∃ a, r = .ok a ∧ f a = .ok b := by
  cases r <;> simp [Res.bind]

@[simp] theorem be4_length (v : Nat) : (be4 v).length = 4 := rfl

/-! ### ASCIIHex -/

theorem hexGo_le (L : Nat) : ∀ n cs o, hexGo L n cs = .ok o → o.length ≤ L - n := by
  intro n cs
  fun_induction hexGo L n cs <;> intro o h
  all_goals (try simp_all)
  · subst h; simp; omega
  · rw [Res.pre_ok] at h; obtain ⟨o', h1, rfl⟩ := h
    rename_i ih; have := ih _ h1; simp; omega

theorem hexGo_mono (L L' : Nat) : ∀ n cs o, hexGo L n cs = .ok o → n + o.length ≤ L' →
    hexGo L' n cs = .ok o := by
  intro n cs
  fun_induction hexGo L n cs <;> intro o h hl
  all_goals (try simp_all [hexGo])
  · subst h; simp at hl; omega
  · rw [Res.pre_ok] at h; obtain ⟨o', h1, rfl⟩ := h
    rename_i ih
    simp at hl
    have := ih _ h1 (by omega)
    simp [this, Res.pre]; omega

/-! ### ASCII85 -/

theorem a85Fin_le (L n : Nat) (g o) : a85Fin L n g = .ok o → o.length ≤ L - n := by
  unfold a85Fin
  intro h
  split at h
  · cases h; simp
  · split at h
    · split at h
      · cases h
      · cases h; omega
    all_goals cases h

theorem a85Fin_mono (L L' n : Nat) (g o) : a85Fin L n g = .ok o → n + o.length ≤ L' →
    a85Fin L' n g = .ok o := by
  unfold a85Fin
  intro h hl
  split at h
  · exact h
  · split at h
    · split at h
      · cases h
      · cases h; rw [if_neg (by omega)]
    all_goals cases h

theorem a85Go_le (L : Nat) : ∀ n g cs o, a85Go L n g cs = .ok o → o.length ≤ L - n := by
  intro n g cs
  fun_induction a85Go L n g cs <;> intro o h
  all_goals (try simp_all)
  all_goals (try (exact a85Fin_le _ _ _ _ h))
  all_goals
    rw [Res.pre_ok] at h; obtain ⟨o', h1, rfl⟩ := h
    rename_i ih; have := ih _ h1; simp; omega

theorem a85Go_mono (L L' : Nat) : ∀ n g cs o, a85Go L n g cs = .ok o → n + o.length ≤ L' →
    a85Go L' n g cs = .ok o := by
  intro n g cs
  fun_induction a85Go L n g cs <;> intro o h hl
  all_goals (try simp_all [a85Go])
  all_goals (try (exact a85Fin_mono _ _ _ _ _ h hl))
  all_goals
    rw [Res.pre_ok] at h; obtain ⟨o', h1, rfl⟩ := h
    rename_i ih
    simp at hl
    have := ih _ h1 (by omega)
    simp [this, Res.pre]
    trace_state
    sorry

end OxiVerif.Flt
