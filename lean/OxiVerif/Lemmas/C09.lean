import OxiVerif.Model.C09
/-!
# Lemmas for C09 / C30 / C21 — token-level round trips

Byte-level facts about the writer's emitters against the independent reader (`Spec.Syntax`)
and against the library's lexer model (`Model.Lexer`).  All for arbitrary byte lists.
-/
namespace OxiVerif.C09
open OxiVerif.Spec.Syntax (Obj)
open OxiVerif.Model
open OxiVerif.Spec

/-! ## small facts -/

theorem allB_cons (p : Nat → Bool) (b : Nat) (r : List Nat) :
    allB p (b :: r) = true ↔ p b = true ∧ allB p r = true := by
  simp [allB]

theorem allB_append (p : Nat → Bool) (a b : List Nat) :
    allB p (a ++ b) = true ↔ allB p a = true ∧ allB p b = true := by
  induction a with
  | nil => simp [allB]
  | cons x xs ih => simp [allB, ih, and_assoc]

/-! ## decimal digits -/

theorem natDigitsAux_acc (fuel n : Nat) (acc : List Nat) :
    natDigitsAux fuel n acc = natDigitsAux fuel n [] ++ acc := by
  induction fuel generalizing n acc with
  | zero => simp [natDigitsAux]
  | succ f ih =>
    unfold natDigitsAux
    split
    · simp
    · rw [ih (n / 10) ((48 + n % 10) :: acc), ih (n / 10) [48 + n % 10]]; simp

/-- every byte of `showNat n` is a decimal digit -/
theorem natDigitsAux_digits (fuel n : Nat) (h : n ≤ fuel) :
    Syntax.allDigits (natDigitsAux fuel n []) = true := by
  induction fuel generalizing n with
  | zero =>
    have : n = 0 := by omega
    subst this; decide
  | succ f ih =>
    unfold natDigitsAux
    split
    · rename_i hlt
      simp [Syntax.allDigits, Syntax.isDigit]; omega
    · rename_i hge
      rw [natDigitsAux_acc]
      have h1 := ih (n / 10) (by omega)
      have : Syntax.allDigits [48 + n % 10] = true := by
        simp [Syntax.allDigits, Syntax.isDigit]; omega
      generalize natDigitsAux f (n / 10) [] = l at h1 ⊢
      induction l with
      | nil => simpa using this
      | cons x xs ihx =>
        simp [Syntax.allDigits] at h1 ⊢
        exact ⟨h1.1, ihx h1.2⟩

theorem showNat_digits (n : Nat) : Syntax.allDigits (showNat n) = true := by
  unfold showNat; exact natDigitsAux_digits n n (Nat.le_refl _)

theorem digitsVal_append (acc : Nat) (a b : List Nat) :
    Syntax.digitsVal (a ++ b) acc = Syntax.digitsVal b (Syntax.digitsVal a acc) := by
  induction a generalizing acc with
  | nil => rfl
  | cons x xs ih => simp [Syntax.digitsVal, ih]

theorem natDigitsAux_val (fuel n : Nat) (h : n ≤ fuel) :
    Syntax.digitsVal (natDigitsAux fuel n []) 0 = n := by
  induction fuel generalizing n with
  | zero =>
    have : n = 0 := by omega
    subst this; decide
  | succ f ih =>
    unfold natDigitsAux
    split
    · simp [Syntax.digitsVal]
    · rw [natDigitsAux_acc, digitsVal_append, ih (n / 10) (by omega)]
      simp [Syntax.digitsVal]; omega

theorem showNat_val (n : Nat) : Syntax.digitsVal (showNat n) 0 = n := by
  unfold showNat; exact natDigitsAux_val n n (Nat.le_refl _)

theorem natDigitsAux_ne_nil (fuel n : Nat) : natDigitsAux fuel n [] ≠ [] := by
  cases fuel with
  | zero => simp [natDigitsAux]
  | succ f =>
    unfold natDigitsAux
    split
    · simp
    · rw [natDigitsAux_acc]; simp

theorem showNat_ne_nil (n : Nat) : showNat n ≠ [] := by
  unfold showNat; exact natDigitsAux_ne_nil n n


/-! ## independent reader: tokens -/

theorem takeRegular_of_all (t rest : List Nat) (ht : allB Syntax.isRegular t = true)
    (hr : specEnds rest = true) : Syntax.takeRegular (t ++ rest) = (t, rest) := by
  induction t with
  | nil =>
    cases rest with
    | nil => rfl
    | cons b r =>
      simp [specEnds] at hr
      simp [Syntax.takeRegular, hr]
  | cons x xs ih =>
    rw [allB_cons] at ht
    simp [Syntax.takeRegular, ht.1, ih ht.2]

theorem digit_regular (b : Nat) (h : Syntax.isDigit b = true) : Syntax.isRegular b = true := by
  simp [Syntax.isDigit] at h
  simp [Syntax.isRegular, Syntax.isWhite, Syntax.isDelim]; omega

theorem allDigits_regular (t : List Nat) (h : Syntax.allDigits t = true) :
    allB Syntax.isRegular t = true := by
  induction t with
  | nil => rfl
  | cons x xs ih =>
    simp [Syntax.allDigits] at h
    rw [allB_cons]; exact ⟨digit_regular x h.1, ih h.2⟩

/-- a raw name made of regular characters (no `#`) is read back verbatim -/
theorem spec_readName_raw (n d : List Nat) (hn : SpecNameOk n = true) (hd : specEnds d = true) :
    Syntax.readName (n ++ d) = some (n, d) := by
  unfold Syntax.readName
  induction n with
  | nil =>
    cases d with
    | nil => rfl
    | cons b r =>
      simp [specEnds] at hd
      simp [Syntax.readNameSt, hd]
  | cons x xs ih =>
    unfold SpecNameOk at hn ih
    rw [allB_cons] at hn
    have h1 := hn.1
    simp at h1
    simp [Syntax.readNameSt, h1.1, h1.2, ih hn.2, Syntax.consOut]

/-! ### the escaping emitter (`write_name` of the incremental writer = the proposed repair) -/

theorem hexVal_hexDigitUpper (n : Nat) (h : n < 16) : Syntax.hexVal (hexDigitUpper n) = some n := by
  unfold hexDigitUpper Syntax.hexVal
  by_cases h10 : n < 10
  · have : 48 + n ≤ 57 := by omega
    simp [h10, this]
  · have h1 : ¬ (55 + n ≤ 57) := by omega
    have h2 : 65 ≤ 55 + n := by omega
    have h3 : 55 + n ≤ 70 := by omega
    simp [h10, h1, h2, h3]

theorem incNamePlain_regular (b : Nat) (h : incNamePlain b = true) :
    Syntax.isRegular b = true ∧ b ≠ 35 := by
  simp [incNamePlain, isAsciiAlnum] at h
  simp [Syntax.isRegular, Syntax.isWhite, Syntax.isDelim]
  omega

/-- **every** byte string survives `write_name` + the independent reader -/
theorem spec_readName_escaped (n d : List Nat) (hb : allB (fun b => b < 256) n = true)
    (hd : specEnds d = true) : Syntax.readName (incNameBody n ++ d) = some (n, d) := by
  unfold Syntax.readName
  induction n with
  | nil =>
    cases d with
    | nil => rfl
    | cons b r =>
      simp [specEnds] at hd
      simp [incNameBody, Syntax.readNameSt, hd]
  | cons x xs ih =>
    rw [allB_cons] at hb
    have hx : x < 256 := by simpa using hb.1
    by_cases hp : incNamePlain x = true
    · have := incNamePlain_regular x hp
      simp [incNameBody, hp, Syntax.readNameSt, this.1, this.2, ih hb.2, Syntax.consOut]
    · have h1 := hexVal_hexDigitUpper (x / 16 % 16) (by omega)
      have h2 := hexVal_hexDigitUpper (x % 16) (by omega)
      simp only [Bool.not_eq_true] at hp
      have h35 : Syntax.isRegular 35 = true := by decide
      simp [incNameBody, hp, Syntax.readNameSt, h35, h1, h2, ih hb.2, Syntax.consOut]
      omega

/-! ### `escape_pdf_name_bytes` (commit 16fac722): what `write_object_value` emits for names and keys -/

theorem nameRegular_regular (b : Nat) (h : nameRegular b = true) :
    Syntax.isRegular b = true ∧ b ≠ 35 := by
  simp [nameRegular] at h
  simp [Syntax.isRegular, Syntax.isWhite, Syntax.isDelim]
  omega

/-- **every** byte string survives `escape_pdf_name_bytes` + the independent reader -/
theorem spec_readName_escName (n d : List Nat) (hb : NameBytes n = true)
    (hd : specEnds d = true) : Syntax.readName (escapeName n ++ d) = some (n, d) := by
  unfold Syntax.readName
  unfold NameBytes at hb
  induction n with
  | nil =>
    cases d with
    | nil => rfl
    | cons b r =>
      simp [specEnds] at hd
      simp [escapeName, Syntax.readNameSt, hd]
  | cons x xs ih =>
    rw [allB_cons] at hb
    have hx : x < 256 := by simpa using hb.1
    by_cases hp : nameRegular x = true
    · have := nameRegular_regular x hp
      simp [escapeName, hp, Syntax.readNameSt, this.1, this.2, ih hb.2, Syntax.consOut]
    · have h1 := hexVal_hexDigitUpper (x / 16 % 16) (by omega)
      have h2 := hexVal_hexDigitUpper (x % 16) (by omega)
      simp only [Bool.not_eq_true] at hp
      have h35 : Syntax.isRegular 35 = true := by decide
      simp [escapeName, hp, Syntax.readNameSt, h35, h1, h2, ih hb.2, Syntax.consOut]
      omega

/-! ### literal strings -/

/-- `escape_pdf_string_bytes` + the independent reader: exact for **every** byte string -/
theorem spec_readLit_escape (s rest : List Nat) :
    Syntax.readLit 0 .normal (escapePdfString s ++ 41 :: rest) = some (s, rest) := by
  induction s with
  | nil => simp [escapePdfString, Syntax.readLit]
  | cons x xs ih =>
    by_cases h92 : x = 92
    · subst h92
      simp [escapePdfString, Syntax.readLit, Syntax.consOut, Syntax.isOctal, ih]
    · by_cases h40 : x = 40
      · subst h40
        simp [escapePdfString, Syntax.readLit, Syntax.consOut, Syntax.isOctal, ih]
      · by_cases h41 : x = 41
        · subst h41
          simp [escapePdfString, Syntax.readLit, Syntax.consOut, Syntax.isOctal, ih]
        · by_cases h13 : x = 13
          · subst h13
            simp [escapePdfString, Syntax.readLit, Syntax.consOut, Syntax.isOctal, ih]
          · simp [escapePdfString, Syntax.readLit, Syntax.consOut, h92, h40, h41, h13, ih]

/-- before the CR repair: exact for every byte string without CR -/
theorem spec_readLit_escape_rawCR (s rest : List Nat) (hs : NoCR s = true) :
    Syntax.readLit 0 .normal (escapePdfStringRawCR s ++ 41 :: rest) = some (s, rest) := by
  induction s with
  | nil => simp [escapePdfStringRawCR, Syntax.readLit]
  | cons x xs ih =>
    unfold NoCR at hs ih
    rw [allB_cons] at hs
    have hx : x ≠ 13 := by simpa using hs.1
    by_cases h92 : x = 92
    · subst h92
      simp [escapePdfStringRawCR, Syntax.readLit, Syntax.consOut, Syntax.isOctal, ih hs.2]
    · by_cases h40 : x = 40
      · subst h40
        simp [escapePdfStringRawCR, Syntax.readLit, Syntax.consOut, Syntax.isOctal, ih hs.2]
      · by_cases h41 : x = 41
        · subst h41
          simp [escapePdfStringRawCR, Syntax.readLit, Syntax.consOut, Syntax.isOctal, ih hs.2]
        · simp [escapePdfStringRawCR, Syntax.readLit, Syntax.consOut, h92, h40, h41, hx, ih hs.2]

/-! ### hexadecimal strings -/

theorem hexDigitUpper_plain (n : Nat) (h : n < 16) :
    (hexDigitUpper n == 62) = false ∧ Syntax.isWhite (hexDigitUpper n) = false := by
  unfold hexDigitUpper Syntax.isWhite
  by_cases h10 : n < 10 <;> simp [h10] <;> omega

theorem spec_readHex (bs rest : List Nat) (hb : allB (fun b => b < 256) bs = true) :
    Syntax.readHex none (hexBytesUpper bs ++ 62 :: rest) = some (bs, rest) := by
  induction bs with
  | nil => simp [hexBytesUpper, Syntax.readHex]
  | cons x xs ih =>
    rw [allB_cons] at hb
    have hx : x < 256 := by simpa using hb.1
    have h1 := hexVal_hexDigitUpper (x / 16 % 16) (by omega)
    have h2 := hexVal_hexDigitUpper (x % 16) (by omega)
    have p1 := hexDigitUpper_plain (x / 16 % 16) (by omega)
    have p2 := hexDigitUpper_plain (x % 16) (by omega)
    simp [hexBytesUpper, Syntax.readHex, h1, h2, p1.1, p1.2, p2.1, p2.2, ih hb.2]
    omega

/-! ### white space -/

theorem skip_id (b : Nat) (r : List Nat) (hw : Syntax.isWhite b = false) (hp : b ≠ 37) :
    Syntax.skip false (b :: r) = b :: r := by
  simp [Syntax.skip, hw, hp]

theorem regular_not_special (b : Nat) (h : Syntax.isRegular b = true) :
    Syntax.isWhite b = false ∧ b ≠ 37 ∧ b ≠ 47 ∧ b ≠ 40 ∧ b ≠ 60 ∧ b ≠ 91 ∧ b ≠ 93 ∧ b ≠ 62 := by
  simp [Syntax.isRegular, Syntax.isDelim] at h
  refine ⟨h.1, ?_⟩
  omega


/-! ## independent reader: objects -/

/-- what the independent reader does with a complete token of regular characters -/
def classifyTok (t rest : List Nat) : Option (Obj × List Nat) :=
  if t == Syntax.kwTrue then some (.bool true, rest)
  else if t == Syntax.kwFalse then some (.bool false, rest)
  else if t == Syntax.kwNull then some (.null, rest)
  else if Syntax.isIntTok t then
    if Syntax.allDigits t then
      match Syntax.refAhead rest with
      | some (g, rest') => some (.ref (Syntax.digitsVal t 0) g, rest')
      | none => some (.int (Syntax.intVal t), rest)
    else some (.int (Syntax.intVal t), rest)
  else if Syntax.isRealTok t then some (.real t, rest)
  else none

theorem readObj_regular (fuel b : Nat) (t' rest : List Nat)
    (hreg : allB Syntax.isRegular (b :: t') = true) (hr : specEnds rest = true) :
    Syntax.readObj (fuel + 1) (b :: t' ++ rest) = classifyTok (b :: t') rest := by
  have hb := (allB_cons _ _ _).1 hreg
  have ns := regular_not_special b hb.1
  have htk := takeRegular_of_all (b :: t') rest hreg hr
  rw [Syntax.readObj]
  simp only [List.cons_append] at htk ⊢
  rw [skip_id b _ ns.1 ns.2.1]
  cases hra : Syntax.refAhead rest with
  | none => simp [ns, hb.1, htk, classifyTok, hra]
  | some p =>
    obtain ⟨g, r'⟩ := p
    simp [ns, hb.1, htk, classifyTok, hra]


theorem allDigits_append (a b : List Nat) :
    Syntax.allDigits (a ++ b) = (Syntax.allDigits a && Syntax.allDigits b) := by
  induction a with
  | nil => simp [Syntax.allDigits]
  | cons x xs ih => simp [Syntax.allDigits, ih, Bool.and_assoc]

theorem allDigits_head (t : List Nat) (h : Syntax.allDigits t = true) (hne : t ≠ []) :
    ∃ b r, t = b :: r ∧ Syntax.isDigit b = true := by
  cases t with
  | nil => exact absurd rfl hne
  | cons b r =>
    simp [Syntax.allDigits] at h
    exact ⟨b, r, rfl, h.1⟩

theorem stripSign_digits (t : List Nat) (h : Syntax.allDigits t = true) :
    Syntax.stripSign t = (false, t) := by
  cases t with
  | nil => rfl
  | cons b r =>
    simp [Syntax.allDigits, Syntax.isDigit] at h
    have h43 : b ≠ 43 := by omega
    have h45 : b ≠ 45 := by omega
    unfold Syntax.stripSign
    split
    · rename_i heq; injection heq with h1 _; exact absurd h1 h43
    · rename_i heq; injection heq with h1 _; exact absurd h1 h45
    · rfl

theorem digits_not_kw (t : List Nat) (b : Nat) (r : List Nat) (ht : t = b :: r)
    (hb : Syntax.isDigit b = true ∨ b = 45) :
    (t == Syntax.kwTrue) = false ∧ (t == Syntax.kwFalse) = false ∧ (t == Syntax.kwNull) = false := by
  subst ht
  have : b ≠ 116 ∧ b ≠ 102 ∧ b ≠ 110 := by
    rcases hb with hb | hb
    · simp [Syntax.isDigit] at hb; omega
    · omega
  simp [Syntax.kwTrue, Syntax.kwFalse, Syntax.kwNull, this]

/-- a non-negative integer token -/
theorem classify_digits (t rest : List Nat) (hd : Syntax.allDigits t = true) (hne : t ≠ [])
    (hra : Syntax.refAhead rest = none) :
    classifyTok t rest = some (.int (Int.ofNat (Syntax.digitsVal t 0)), rest) := by
  obtain ⟨b, r, ht, hb⟩ := allDigits_head t hd hne
  have nk := digits_not_kw t b r ht (Or.inl hb)
  have hint : Syntax.isIntTok t = true := by
    simp [Syntax.isIntTok, stripSign_digits t hd, hd, hne]
  simp [classifyTok, nk, hint, hd, hra, Syntax.intVal, stripSign_digits t hd]

/-- a negative integer token -/
theorem classify_neg (t rest : List Nat) (hd : Syntax.allDigits t = true) (hne : t ≠ []) :
    classifyTok (45 :: t) rest = some (.int (- Int.ofNat (Syntax.digitsVal t 0)), rest) := by
  have nk := digits_not_kw (45 :: t) 45 t rfl (Or.inr rfl)
  have hint : Syntax.isIntTok (45 :: t) = true := by
    simp [Syntax.isIntTok, Syntax.stripSign, hd, hne]
  have hnd : Syntax.allDigits (45 :: t) = false := by simp [Syntax.allDigits, Syntax.isDigit]
  simp [classifyTok, nk, hint, hnd, Syntax.intVal, Syntax.stripSign]

theorem showInt_regular (i : Int) : allB Syntax.isRegular (showInt i) = true := by
  cases i with
  | ofNat n => exact allDigits_regular _ (showNat_digits n)
  | negSucc n =>
    show allB Syntax.isRegular (45 :: showNat (n + 1)) = true
    rw [allB_cons]; exact ⟨by decide, allDigits_regular _ (showNat_digits _)⟩

theorem showInt_cons (i : Int) : ∃ b r, showInt i = b :: r ∧ (Syntax.isDigit b = true ∨ b = 45) := by
  cases i with
  | ofNat n =>
    obtain ⟨b, r, h, hb⟩ := allDigits_head _ (showNat_digits n) (showNat_ne_nil n)
    exact ⟨b, r, h, Or.inl hb⟩
  | negSucc n => exact ⟨45, showNat (n + 1), rfl, Or.inr rfl⟩

/-- integers: `i64::to_string` + the independent reader -/
theorem spec_read_int (fuel : Nat) (i : Int) (rest : List Nat) (hr : specEnds rest = true)
    (hra : i < 0 ∨ Syntax.refAhead rest = none) :
    Syntax.readObj (fuel + 1) (showInt i ++ rest) = some (.int i, rest) := by
  obtain ⟨b, r, hbr, _⟩ := showInt_cons i
  have hreg := showInt_regular i
  rw [hbr] at hreg ⊢
  rw [readObj_regular fuel b r rest hreg hr, ← hbr]
  cases i with
  | ofNat n =>
    have hra' : Syntax.refAhead rest = none := by
      rcases hra with h | h
      · exact absurd h (by simp)
      · exact h
    show classifyTok (showNat n) rest = _
    rw [classify_digits _ _ (showNat_digits n) (showNat_ne_nil n) hra', showNat_val]
  | negSucc n =>
    show classifyTok (45 :: showNat (n + 1)) rest = _
    rw [classify_neg _ _ (showNat_digits _) (showNat_ne_nil _), showNat_val]; rfl


theorem spec_read_null (fuel : Nat) (rest : List Nat) (hr : specEnds rest = true) :
    Syntax.readObj (fuel + 1) (kwNull ++ rest) = some (.null, rest) := by
  have := readObj_regular fuel 110 [117, 108, 108] rest (by decide) hr
  simpa [kwNull, classifyTok, Syntax.kwTrue, Syntax.kwFalse, Syntax.kwNull] using this

theorem spec_read_true (fuel : Nat) (rest : List Nat) (hr : specEnds rest = true) :
    Syntax.readObj (fuel + 1) (kwTrue ++ rest) = some (.bool true, rest) := by
  have := readObj_regular fuel 116 [114, 117, 101] rest (by decide) hr
  simpa [kwTrue, classifyTok, Syntax.kwTrue] using this

theorem spec_read_false (fuel : Nat) (rest : List Nat) (hr : specEnds rest = true) :
    Syntax.readObj (fuel + 1) (kwFalse ++ rest) = some (.bool false, rest) := by
  have := readObj_regular fuel 102 [97, 108, 115, 101] rest (by decide) hr
  simpa [kwFalse, classifyTok, Syntax.kwTrue, Syntax.kwFalse] using this

/-- `n g R` is found by the look-ahead -/
theorem refAhead_ref (g : Nat) (rest : List Nat) (hr : specEnds rest = true) :
    Syntax.refAhead (32 :: (showNat g ++ 32 :: 82 :: rest)) = some (g, rest) := by
  have h1 : Syntax.skip false (32 :: (showNat g ++ 32 :: 82 :: rest)) = showNat g ++ 32 :: 82 :: rest := by
    obtain ⟨b, r, hb, hd⟩ := allDigits_head _ (showNat_digits g) (showNat_ne_nil g)
    have ns := regular_not_special b (digit_regular b hd)
    rw [hb]
    have e : Syntax.skip false (32 :: (b :: r ++ 32 :: 82 :: rest)) = Syntax.skip false (b :: (r ++ 32 :: 82 :: rest)) := by
      simp [Syntax.skip, Syntax.isWhite]
    rw [e, skip_id b _ ns.1 ns.2.1]; rfl
  have h2 := takeRegular_of_all (showNat g) (32 :: 82 :: rest) (allDigits_regular _ (showNat_digits g))
    (by simp [specEnds, Syntax.isRegular, Syntax.isWhite])
  have h3 : Syntax.skip false (32 :: 82 :: rest) = 82 :: rest := by
    simp [Syntax.skip, Syntax.isWhite]
  have h4 := takeRegular_of_all [82] rest (by decide) hr
  simp only [List.cons_append, List.nil_append] at h4
  have hne : (showNat g).isEmpty = false := by
    cases h : showNat g with
    | nil => exact absurd h (showNat_ne_nil g)
    | cons _ _ => rfl
  simp [Syntax.refAhead, h1, h2, h3, h4, showNat_digits, showNat_val, hne]

theorem spec_read_ref (fuel n g : Nat) (rest : List Nat) (hr : specEnds rest = true) :
    Syntax.readObj (fuel + 1) (showNat n ++ 32 :: (showNat g ++ [32, 82]) ++ rest) =
      some (.ref n g, rest) := by
  obtain ⟨b, r, hbr, hd⟩ := allDigits_head _ (showNat_digits n) (showNat_ne_nil n)
  have hreg := allDigits_regular _ (showNat_digits n)
  have hnk := digits_not_kw _ b r hbr (Or.inl hd)
  have e : showNat n ++ 32 :: (showNat g ++ [32, 82]) ++ rest
      = showNat n ++ (32 :: (showNat g ++ 32 :: 82 :: rest)) := by simp
  rw [e]
  have hra := refAhead_ref g rest hr
  have hint : Syntax.isIntTok (showNat n) = true := by
    simp [Syntax.isIntTok, stripSign_digits _ (showNat_digits n), showNat_digits, showNat_ne_nil]
  rw [hbr] at hreg ⊢
  rw [readObj_regular fuel b r _ hreg (by simp [specEnds, Syntax.isRegular, Syntax.isWhite]), ← hbr]
  simp [classifyTok, hnk, hint, showNat_digits, hra, showNat_val]

/-! ### reals: the token the formatter produced, under the syntactic hypothesis `IsDecTok` -/

theorem splitDot_none (u a : List Nat) (h : Syntax.splitDot u = (a, none)) : u = a := by
  induction u generalizing a with
  | nil => simp [Syntax.splitDot] at h; exact h.symm
  | cons x xs ih =>
    unfold Syntax.splitDot at h
    split at h
    · simp at h
    · cases hs : Syntax.splitDot xs with
      | mk a' f' =>
        rw [hs] at h
        simp at h
        obtain ⟨h1, h2⟩ := h
        subst h2
        rw [← h1, ih a' hs]

theorem splitDot_some (u a f : List Nat) (h : Syntax.splitDot u = (a, some f)) :
    u = a ++ 46 :: f := by
  induction u generalizing a with
  | nil => simp [Syntax.splitDot] at h
  | cons x xs ih =>
    unfold Syntax.splitDot at h
    split at h
    · rename_i hx
      simp at h hx
      obtain ⟨h1, h2⟩ := h
      subst h1 h2 hx
      rfl
    · cases hs : Syntax.splitDot xs with
      | mk a' f' =>
        rw [hs] at h
        simp at h
        obtain ⟨h1, h2⟩ := h
        subst h2
        rw [← h1, ih a' hs]; rfl

/-- shape of a decimal token: optional `-`, then digits, or digits `.` digits -/
theorem IsDecTok_shape (t : List Nat) (h : IsDecTok t = true) :
    ∃ (neg : Bool) (a : List Nat), a ≠ [] ∧ Syntax.allDigits a = true ∧
      ((t = (if neg then [45] else []) ++ a) ∨
       (∃ f, f ≠ [] ∧ Syntax.allDigits f = true ∧ t = (if neg then [45] else []) ++ a ++ 46 :: f)) := by
  unfold IsDecTok at h
  have key : ∀ u : List Nat,
      (match Syntax.splitDot u with
        | (a, none) => !a.isEmpty && Syntax.allDigits a
        | (a, some f) => !a.isEmpty && Syntax.allDigits a && !f.isEmpty && Syntax.allDigits f) = true →
      ∃ a : List Nat, a ≠ [] ∧ Syntax.allDigits a = true ∧
        (u = a ∨ ∃ f, f ≠ [] ∧ Syntax.allDigits f = true ∧ u = a ++ 46 :: f) := by
    intro u hu
    cases hs : Syntax.splitDot u with
    | mk a fo =>
      rw [hs] at hu
      cases fo with
      | none =>
        simp at hu
        exact ⟨a, by simpa using hu.1, hu.2, Or.inl (splitDot_none u a hs)⟩
      | some f =>
        simp at hu
        exact ⟨a, by simpa using hu.1.1.1, hu.1.1.2, Or.inr ⟨f, by simpa using hu.1.2, hu.2, splitDot_some u a f hs⟩⟩
  cases t with
  | nil =>
    obtain ⟨a, h1, h2, h3⟩ := key [] h
    exact ⟨false, a, h1, h2, by simpa using h3⟩
  | cons b r =>
    by_cases hb : b = 45
    · subst hb
      obtain ⟨a, h1, h2, h3⟩ := key r h
      refine ⟨true, a, h1, h2, ?_⟩
      rcases h3 with h3 | ⟨f, hf1, hf2, h3⟩
      · exact Or.inl (by simp [h3])
      · exact Or.inr ⟨f, hf1, hf2, by simp [h3]⟩
    · have hdm : dropMinus (b :: r) = b :: r := by
        unfold dropMinus
        split
        · rename_i heq; injection heq with e1 _; exact absurd e1 hb
        · rfl
      rw [hdm] at h
      obtain ⟨a, h1, h2, h3⟩ := key (b :: r) h
      exact ⟨false, a, h1, h2, by simpa using h3⟩

end OxiVerif.C09

namespace OxiVerif.C09
open OxiVerif.Spec.Syntax (Obj)
open OxiVerif.Model
open OxiVerif.Spec

theorem stripSign_of_head (b : Nat) (r : List Nat) (hb : Syntax.isDigit b = true) :
    Syntax.stripSign (b :: r) = (false, b :: r) := by
  simp [Syntax.isDigit] at hb
  have h43 : b ≠ 43 := by omega
  have h45 : b ≠ 45 := by omega
  unfold Syntax.stripSign
  split
  · rename_i heq; injection heq with h1 _; exact absurd h1 h43
  · rename_i heq; injection heq with h1 _; exact absurd h1 h45
  · rfl

theorem splitDot_digits_dot (a f : List Nat) (ha : Syntax.allDigits a = true) :
    Syntax.splitDot (a ++ 46 :: f) = (a, some f) := by
  induction a with
  | nil => simp [Syntax.splitDot]
  | cons x xs ih =>
    simp [Syntax.allDigits, Syntax.isDigit] at ha
    have hx : x ≠ 46 := by omega
    simp [Syntax.splitDot, hx, ih ha.2]

theorem allDigits_dot_false (a f : List Nat) : Syntax.allDigits (a ++ 46 :: f) = false := by
  rw [allDigits_append]; simp [Syntax.allDigits, Syntax.isDigit]

/-- a token with a fraction part is a real for the independent reader -/
theorem classify_frac (neg : Bool) (a f rest : List Nat) (ha : Syntax.allDigits a = true)
    (hane : a ≠ []) (hf : Syntax.allDigits f = true) :
    let t := (if neg then [45] else []) ++ a ++ 46 :: f
    Syntax.isIntTok t = false ∧ classifyTok t rest = some (.real t, rest) := by
  intro t
  obtain ⟨b, r, hbr, hbd⟩ := allDigits_head a ha hane
  have hss : Syntax.stripSign t = (neg, a ++ 46 :: f) := by
    cases neg with
    | true => simp [t, Syntax.stripSign]
    | false =>
      simp only [t, Bool.false_eq_true, if_false, List.nil_append]
      rw [hbr]; exact stripSign_of_head b _ hbd
  have hint : Syntax.isIntTok t = false := by
    simp [Syntax.isIntTok, hss, allDigits_dot_false]
  have hreal : Syntax.isRealTok t = true := by
    simp [Syntax.isRealTok, hss, splitDot_digits_dot a f ha, ha, hf, hane]
  have hhead : ∃ b' r', t = b' :: r' ∧ (Syntax.isDigit b' = true ∨ b' = 45) := by
    cases neg with
    | true => exact ⟨45, a ++ 46 :: f, by simp [t], Or.inr rfl⟩
    | false => exact ⟨b, r ++ 46 :: f, by simp [t, hbr], Or.inl hbd⟩
  obtain ⟨b', r', ht, hb'⟩ := hhead
  have nk := digits_not_kw t b' r' ht hb'
  exact ⟨hint, by simp [classifyTok, nk, hint, hreal]⟩

theorem IsDecTok_regular (t : List Nat) (h : IsDecTok t = true) :
    allB Syntax.isRegular t = true ∧ ∃ b r, t = b :: r ∧ (Syntax.isDigit b = true ∨ b = 45) := by
  obtain ⟨neg, a, hane, ha, hshape⟩ := IsDecTok_shape t h
  obtain ⟨b, r, hbr, hbd⟩ := allDigits_head a ha hane
  have hsign : allB Syntax.isRegular (if neg then [45] else []) = true := by cases neg <;> decide
  rcases hshape with ht | ⟨f, _, hf, ht⟩
  · subst ht
    refine ⟨by rw [allB_append]; exact ⟨hsign, allDigits_regular a ha⟩, ?_⟩
    cases neg with
    | true => exact ⟨45, a, by simp, Or.inr rfl⟩
    | false => exact ⟨b, r, by simp [hbr], Or.inl hbd⟩
  · subst ht
    refine ⟨?_, ?_⟩
    · rw [allB_append, allB_append]
      refine ⟨⟨hsign, allDigits_regular a ha⟩, ?_⟩
      rw [allB_cons]; exact ⟨by decide, allDigits_regular f hf⟩
    · cases neg with
      | true => exact ⟨45, a ++ 46 :: f, by simp, Or.inr rfl⟩
      | false => exact ⟨b, r ++ 46 :: f, by simp [hbr], Or.inl hbd⟩

/-- reals: the emitted decimal token + the independent reader -/
theorem spec_read_dectok (fuel : Nat) (tok rest : List Nat) (hdec : IsDecTok tok = true)
    (hr : specEnds rest = true)
    (hra : Syntax.allDigits tok = false ∨ Syntax.refAhead rest = none) :
    Syntax.readObj (fuel + 1) (tok ++ rest) =
      some (if Syntax.isIntTok tok then Obj.int (Syntax.intVal tok) else Obj.real tok, rest) := by
  obtain ⟨hreg, b, r, hbr, _⟩ := IsDecTok_regular tok hdec
  have e : Syntax.readObj (fuel + 1) (tok ++ rest) = classifyTok tok rest := by
    rw [hbr] at hreg ⊢; exact readObj_regular fuel b r rest hreg hr
  rw [e]
  obtain ⟨neg, a, hane, ha, hshape⟩ := IsDecTok_shape tok hdec
  rcases hshape with ht | ⟨f, _, hf, ht⟩
  · cases neg with
    | false =>
      simp only [Bool.false_eq_true, if_false, List.nil_append] at ht
      subst ht
      have hra' : Syntax.refAhead rest = none := by
        rcases hra with h | h
        · rw [ha] at h; exact absurd h (by simp)
        · exact h
      have hint : Syntax.isIntTok tok = true := by
        simp [Syntax.isIntTok, stripSign_digits tok ha, ha, hane]
      rw [classify_digits tok rest ha hane hra']
      simp [hint, Syntax.intVal, stripSign_digits tok ha]
    | true =>
      simp only [if_true, List.singleton_append] at ht
      subst ht
      have hint : Syntax.isIntTok (45 :: a) = true := by
        simp [Syntax.isIntTok, Syntax.stripSign, ha, hane]
      rw [classify_neg a rest ha hane]
      simp [hint, Syntax.intVal, Syntax.stripSign]
  · subst ht
    obtain ⟨h1, h2⟩ := classify_frac neg a f rest ha hane hf
    rw [h2, h1]
    simp

theorem spec_read_real (fuel : Nat) (t rest : List Nat) (hdec : IsDecTok (trimReal t) = true)
    (hr : specEnds rest = true)
    (hra : Syntax.allDigits (trimReal t) = false ∨ Syntax.refAhead rest = none) :
    Syntax.readObj (fuel + 1) (trimReal t ++ rest) = some (readBackReal t, rest) :=
  spec_read_dectok fuel (trimReal t) rest hdec hr hra

/-- the first byte of a serialized (safe) value is neither white space, `%`, nor `]` / `>` -/
theorem serRaw_head (v : Obj) (rest : List Nat) (hs : SafeSpec v rest = true) :
    ∃ b r, serRaw v = b :: r ∧ Syntax.isWhite b = false ∧ b ≠ 37 ∧ b ≠ 93 ∧ b ≠ 62 := by
  have digitCase : ∀ b : Nat, (Syntax.isDigit b = true ∨ b = 45) →
      Syntax.isWhite b = false ∧ b ≠ 37 ∧ b ≠ 93 ∧ b ≠ 62 := by
    intro b hb
    rcases hb with hb | hb
    · have := regular_not_special b (digit_regular b hb)
      exact ⟨this.1, this.2.1, this.2.2.2.2.2.2.1, this.2.2.2.2.2.2.2⟩
    · subst hb; decide
  cases v with
  | null => exact ⟨110, [117, 108, 108], rfl, by decide⟩
  | bool b =>
    cases b with
    | true => exact ⟨116, [114, 117, 101], rfl, by decide⟩
    | false => exact ⟨102, [97, 108, 115, 101], rfl, by decide⟩
  | int i =>
    obtain ⟨b, r, h, hb⟩ := showInt_cons i
    exact ⟨b, r, h, digitCase b hb⟩
  | real t =>
    simp [SafeSpec] at hs
    obtain ⟨_, b, r, h, hb⟩ := IsDecTok_regular _ hs.1.1
    exact ⟨b, r, h, digitCase b hb⟩
  | str s => exact ⟨40, _, rfl, by decide⟩
  | hexstr s => exact ⟨60, _, rfl, by decide⟩
  | name n => exact ⟨47, _, rfl, by decide⟩
  | arr xs => exact ⟨91, _, rfl, by decide⟩
  | dict kvs => exact ⟨60, _, rfl, by decide⟩
  | ref n g =>
    obtain ⟨b, r, h, hb⟩ := allDigits_head _ (showNat_digits n) (showNat_ne_nil n)
    refine ⟨b, r ++ 32 :: (showNat g ++ [32, 82]), ?_, digitCase b (Or.inl hb)⟩
    show showNat n ++ _ = _
    rw [h]; rfl

end OxiVerif.C09
