import OxiVerif.Lemmas.C21Parse
/-!
C21, per-operator obligations: for the operator families below, the pieces written by
`serialize_ops` are read back as one token group whose parse is the authored operator (`canon`).
-/
namespace OxiVerif.C21
open OxiVerif.Spec.Syntax (isDigit allDigits digitsVal)

/-- the formatter hypothesis: `{:.N}` output is a decimal token -/
def FmtOk (fmt : Fmt) : Prop := ∀ p x, IsDecTok (fmt p x)

theorem dec_contains_dot (t : List Nat) (h : IsDecTok t) : t.contains 46 = true := by
  obtain ⟨s, ip, fp, _, _, _, _, rfl⟩ := h
  simp

theorem numArg_dec (t : List Nat) (h : IsDecTok t) : numArg t = .num t := by
  simp only [numArg, dec_contains_dot t h, if_true]

/-! ### `numsThenKw` -/

theorem Reads_numsThenKw (toks : List (List Nat)) (kw : List Nat)
    (h : ∀ t ∈ toks, IsDecTok t) (hk : kwOk kw = true) :
    Reads (numsThenKw toks kw) (toks.map .number ++ [.operator kw]) := by
  induction toks with
  | nil =>
    refine Reads.tok (.kw kw) _ _ _ (.kw kw hk) (fun _ => Or.inr ⟨.nl, [], rfl, rfl⟩) ?_
    exact Reads.skip .nl [] [] .nl (fun t e => by cases e) Reads.nil
  | cons t r ih =>
    simp only [numsThenKw, List.map_cons, List.cons_append]
    refine Reads.tok (.num t) _ _ _ (.num t _ (.dec (h t (by simp))))
      (fun _ => Or.inr ⟨.sp, _, rfl, rfl⟩) ?_
    exact Reads.skip .sp _ _ .sp (fun t e => by cases e) (ih (fun x hx => h x (by simp [hx])))

theorem EndsNl_numsThenKw (toks : List (List Nat)) (kw : List Nat) : EndsNl (numsThenKw toks kw) := by
  induction toks with
  | nil => exact ⟨[.kw kw], rfl⟩
  | cons t r ih =>
    obtain ⟨a, ha⟩ := ih
    exact ⟨.num t :: .sp :: a, by simp [numsThenKw, ha]⟩

theorem opOk_nums (fmt : Fmt) (o : Op) (toks : List (List Nat)) (kw : List Nat)
    (hp : pieces fmt o = numsThenKw toks kw) (h : ∀ t ∈ toks, IsDecTok t)
    (hk : kwOk kw = true) (hb : kw ≠ kBI) :
    OpOk fmt o (toks.map .number ++ [.operator kw]) where
  reads := by rw [hp]; exact Reads_numsThenKw toks kw h hk
  endsNl := by rw [hp]; exact EndsNl_numsThenKw toks kw
  endsOp := Or.inr ⟨_, kw, rfl⟩
  nobi := by
    intro t ht
    simp only [List.mem_append, List.mem_map, List.mem_singleton] at ht
    rcases ht with ⟨x, _, rfl⟩ | rfl
    · simp
    · intro e; injection e with e; exact hb e

theorem opOk_kw (fmt : Fmt) (o : Op) (kw : List Nat) (hp : pieces fmt o = [.kw kw, .nl])
    (hk : kwOk kw = true) (hb : kw ≠ kBI) : OpOk fmt o [.operator kw] := by
  have := opOk_nums fmt o [] kw (by simpa [numsThenKw] using hp) (by simp) hk hb
  simpa using this

theorem opOk_name (fmt : Fmt) (o : Op) (n kw : List Nat)
    (hp : pieces fmt o = [.name n, .sp, .kw kw, .nl]) (hn : NameOk n)
    (hk : kwOk kw = true) (hb : kw ≠ kBI) : OpOk fmt o [.name n, .operator kw] where
  reads := by
    rw [hp]
    refine Reads.tok _ _ _ _ (.name n hn) (fun _ => Or.inr ⟨.sp, _, rfl, rfl⟩) ?_
    refine Reads.skip .sp _ _ .sp (fun t e => by cases e) ?_
    refine Reads.tok _ _ _ _ (.kw kw hk) (fun _ => Or.inr ⟨.nl, _, rfl, rfl⟩) ?_
    exact Reads.skip .nl _ _ .nl (fun t e => by cases e) Reads.nil
  endsNl := by rw [hp]; exact ⟨[.name n, .sp, .kw kw], rfl⟩
  endsOp := Or.inr ⟨[.name n], kw, rfl⟩
  nobi := by
    intro t ht
    simp only [List.mem_cons, List.not_mem_nil, or_false] at ht
    rcases ht with rfl | rfl
    · simp
    · intro e; injection e with e; exact hb e

/-- `[<string piece> Tj]` -/
theorem opOk_show (fmt : Fmt) (o : Op) (p : Piece) (bs : List Nat) (t : Token)
    (hp : pieces fmt o = [p, .sp, .kw [84, 106], .nl]) (hr : PieceRead p (some t))
    (hnt : needsTerm p = false) (ht : t ≠ .operator kBI) :
    OpOk fmt o [t, .operator [84, 106]] where
  reads := by
    rw [hp]
    refine Reads.tok _ _ _ _ hr (fun h => by simp [hnt] at h) ?_
    refine Reads.skip .sp _ _ .sp (fun t e => by cases e) ?_
    refine Reads.tok _ _ _ _ (.kw _ (by decide)) (fun _ => Or.inr ⟨.nl, _, rfl, rfl⟩) ?_
    exact Reads.skip .nl _ _ .nl (fun t e => by cases e) Reads.nil
  endsNl := by rw [hp]; exact ⟨[p, .sp, .kw [84, 106]], rfl⟩
  endsOp := Or.inr ⟨[t], [84, 106], rfl⟩
  nobi := by
    intro x hx
    simp only [List.mem_cons, List.not_mem_nil, or_false] at hx
    rcases hx with rfl | rfl
    · exact ht
    · decide

/-- `/name size Tf` -/
theorem opOk_tf (fmt : Fmt) (n : List Nat) (size : Flt) (disp : List Nat) (tok : Token)
    (hn : NameOk n) (hd : NumRead (if size.isFinite then disp else [48]) tok) :
    OpOk fmt (.setFont n size disp) [.name n, tok, .operator [84, 102]] where
  reads := by
    simp only [pieces]
    refine Reads.tok _ _ _ _ (.name n hn) (fun _ => Or.inr ⟨.sp, _, rfl, rfl⟩) ?_
    refine Reads.skip .sp _ _ .sp (fun t e => by cases e) ?_
    refine Reads.tok _ _ _ _ (.num _ _ hd) (fun _ => Or.inr ⟨.sp, _, rfl, rfl⟩) ?_
    refine Reads.skip .sp _ _ .sp (fun t e => by cases e) ?_
    refine Reads.tok _ _ _ _ (.kw _ (by decide)) (fun _ => Or.inr ⟨.nl, _, rfl, rfl⟩) ?_
    exact Reads.skip .nl _ _ .nl (fun t e => by cases e) Reads.nil
  endsNl := ⟨[.name n, .sp, .num (if size.isFinite then disp else [48]), .sp, .kw [84, 102]], rfl⟩
  endsOp := Or.inr ⟨[.name n, tok], [84, 102], rfl⟩
  nobi := by
    intro x hx
    simp only [List.mem_cons, List.not_mem_nil, or_false] at hx
    rcases hx with rfl | rfl | rfl
    · simp
    · cases hd with
      | dec _ => simp
      | int _ _ => simp
      | plain _ => unfold tokOfPlain; split <;> simp
    · decide

/-- `W S` -/
theorem opOk_clipStroke (fmt : Fmt) : OpOk fmt .clipStroke [.operator [87], .operator [83]] where
  reads := by
    simp only [pieces]
    refine Reads.tok _ _ _ _ (.kw _ (by decide)) (fun _ => Or.inr ⟨.sp, _, rfl, rfl⟩) ?_
    refine Reads.skip .sp _ _ .sp (fun t e => by cases e) ?_
    refine Reads.tok _ _ _ _ (.kw _ (by decide)) (fun _ => Or.inr ⟨.nl, _, rfl, rfl⟩) ?_
    exact Reads.skip .nl _ _ .nl (fun t e => by cases e) Reads.nil
  endsNl := ⟨[.kw [87], .sp, .kw [83]], rfl⟩
  endsOp := Or.inr ⟨[.operator [87]], [83], rfl⟩
  nobi := by
    intro x hx
    simp only [List.mem_cons, List.not_mem_nil, or_false] at hx
    rcases hx with rfl | rfl <;> decide

/-- `x y w h re / W / n` (the `Raw` of `clip_rect`, sanitised since the repair) -/
theorem opOk_clipRect (fmt : Fmt) (hf : FmtOk fmt) (x y w h : Flt) :
    OpOk fmt (.rawClipRect x y w h)
      [.number (fmt 3 x), .number (fmt 3 y), .number (fmt 3 w), .number (fmt 3 h),
       .operator [114, 101], .operator [87], .operator [110]] where
  reads := by
    simp only [pieces]
    refine Reads.tok _ _ _ _ (.num _ _ (.dec (hf 3 x))) (fun _ => Or.inr ⟨.sp, _, rfl, rfl⟩) ?_
    refine Reads.skip .sp _ _ .sp (fun t e => by cases e) ?_
    refine Reads.tok _ _ _ _ (.num _ _ (.dec (hf 3 y))) (fun _ => Or.inr ⟨.sp, _, rfl, rfl⟩) ?_
    refine Reads.skip .sp _ _ .sp (fun t e => by cases e) ?_
    refine Reads.tok _ _ _ _ (.num _ _ (.dec (hf 3 w))) (fun _ => Or.inr ⟨.sp, _, rfl, rfl⟩) ?_
    refine Reads.skip .sp _ _ .sp (fun t e => by cases e) ?_
    refine Reads.tok _ _ _ _ (.num _ _ (.dec (hf 3 h))) (fun _ => Or.inr ⟨.sp, _, rfl, rfl⟩) ?_
    refine Reads.skip .sp _ _ .sp (fun t e => by cases e) ?_
    refine Reads.tok _ _ _ _ (.kw _ (by decide)) (fun _ => Or.inr ⟨.nl, _, rfl, rfl⟩) ?_
    refine Reads.skip .nl _ _ .nl (fun t e => by cases e) ?_
    refine Reads.tok _ _ _ _ (.kw _ (by decide)) (fun _ => Or.inr ⟨.nl, _, rfl, rfl⟩) ?_
    refine Reads.skip .nl _ _ .nl (fun t e => by cases e) ?_
    refine Reads.tok _ _ _ _ (.kw _ (by decide)) (fun _ => Or.inr ⟨.nl, _, rfl, rfl⟩) ?_
    exact Reads.skip .nl _ _ .nl (fun t e => by cases e) Reads.nil
  endsNl := ⟨[.num (fmt 3 x), .sp, .num (fmt 3 y), .sp, .num (fmt 3 w), .sp, .num (fmt 3 h), .sp,
    .kw [114, 101], .nl, .kw [87], .nl, .kw [110]], rfl⟩
  endsOp := Or.inr ⟨[.number (fmt 3 x), .number (fmt 3 y), .number (fmt 3 w), .number (fmt 3 h),
    .operator [114, 101], .operator [87]], [110], rfl⟩
  nobi := by
    intro t ht
    simp only [List.mem_cons, List.not_mem_nil, or_false] at ht
    rcases ht with rfl | rfl | rfl | rfl | rfl | rfl | rfl <;> first | (simp; done) | decide

theorem plain_no_dot (t : List Nat) (h : IsPlainInt t) : 46 ∉ t := by
  have key : ∀ d : List Nat, allDigits d = true → 46 ∉ d := by
    intro d hd
    induction d with
    | nil => simp
    | cons b r ih =>
      simp only [allDigits, Bool.and_eq_true] at hd
      have : b ≠ 46 := by
        have := hd.1; simp [isDigit] at this; omega
      simp only [List.mem_cons, not_or]
      exact ⟨Ne.symm this, ih hd.2⟩
  rcases h with ⟨_, hd⟩ | ⟨d, rfl, _, hd⟩
  · exact key t hd
  · simp only [List.mem_cons, not_or]
    exact ⟨by decide, key d hd⟩

/-- popping a plain integer token gives the authored numeric argument, whatever its magnitude -/
theorem popNumber_plain (t : List Nat) (S : Stack) (h : IsPlainInt t) :
    popNumber (tokOfPlain t :: S) = some (numArg t, S) := by
  have hd := plain_no_dot t h
  unfold tokOfPlain numArg
  cases hp : parseI32 t <;> simp [popNumber, hd]

/-- `% text` without a line feed: no token at all -/
theorem opOk_comment (fmt : Fmt) (t : List Nat) (h : ∀ b ∈ t, b ≠ 10) : OpOk fmt (.comment t) [] where
  reads := by
    simp only [pieces]
    refine Reads.skip _ _ _ (.comment t h) (fun _ _ => ⟨[], rfl⟩) ?_
    exact Reads.skip .nl _ _ .nl (fun t e => by cases e) Reads.nil
  endsNl := ⟨[.comment t], rfl⟩
  endsOp := Or.inl rfl
  nobi := by intro x hx; simp at hx

theorem showNat_int (n : Nat) (h : n ≤ 2147483647) : IsIntTok (showNat n) (Int.ofNat n) := by
  refine Or.inl ⟨showNat_ne_nil n, showNat_digits n, ?_, ?_⟩
  · rw [showNat_val]; exact h
  · rw [showNat_val]

/-- `n kw` with an integer operand (`J`, `j`, `Tr`) -/
theorem opOk_int (fmt : Fmt) (o : Op) (n : Nat) (kw : List Nat)
    (hp : pieces fmt o = numsThenKw [showNat n] kw) (hn : n ≤ 2147483647)
    (hk : kwOk kw = true) (hb : kw ≠ kBI) :
    OpOk fmt o [.integer (Int.ofNat n), .operator kw] where
  reads := by
    rw [hp]
    simp only [numsThenKw]
    refine Reads.tok _ _ _ _ (.num _ _ (.int _ (showNat_int n hn))) (fun _ => Or.inr ⟨.sp, _, rfl, rfl⟩) ?_
    refine Reads.skip .sp _ _ .sp (fun t e => by cases e) ?_
    refine Reads.tok _ _ _ _ (.kw kw hk) (fun _ => Or.inr ⟨.nl, _, rfl, rfl⟩) ?_
    exact Reads.skip .nl _ _ .nl (fun t e => by cases e) Reads.nil
  endsNl := by rw [hp]; exact EndsNl_numsThenKw _ _
  endsOp := Or.inr ⟨[.integer (Int.ofNat n)], kw, rfl⟩
  nobi := by
    intro x hx
    simp only [List.mem_cons, List.not_mem_nil, or_false] at hx
    rcases hx with rfl | rfl
    · simp
    · intro e; injection e with e; exact hb e

end OxiVerif.C21
