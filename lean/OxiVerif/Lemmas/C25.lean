import OxiVerif.Model.C25
/-
C25 — generic facts about the fixed interpreter `lookupArms` / `applyArms`, about the Annex D
look-ups, and about the string-level loops.  Nothing here mentions a concrete table.
-/
namespace OxiVerif.C25
open OxiVerif.AnnexD (Enc)

/-! ### arms as data: one pass over the ARM LIST decides a statement for ALL inputs -/

/-- `P` holds for every (input, output) pair an arm can produce. -/
def armsAll (P : Nat → Nat → Bool) (arms : List Arm) : Bool :=
  arms.all fun
    | .range lo hi => (List.range (hi + 1 - lo)).all fun i => P (lo + i) (lo + i)
    | .point c b => P c b

theorem lookupArms_sound (P : Nat → Nat → Bool) (arms : List Arm) (h : armsAll P arms = true)
    (x y : Nat) (hl : lookupArms arms x = some y) : P x y = true := by
  induction arms with
  | nil => simp [lookupArms] at hl
  | cons a r ih =>
    simp only [armsAll, List.all_cons, Bool.and_eq_true] at h
    obtain ⟨ha, hr⟩ := h
    cases a with
    | range lo hi =>
      simp only [lookupArms] at hl
      split at hl
      · rename_i hin
        simp only [Option.some.injEq] at hl
        subst hl
        simp only [List.all_eq_true, List.mem_range] at ha
        have := ha (x - lo) (by omega)
        have e : lo + (x - lo) = x := by omega
        rw [e] at this
        exact this
      · exact ih hr hl
    | point c b =>
      simp only [lookupArms] at hl
      split at hl
      · rename_i hc
        simp only [Option.some.injEq] at hl
        subst hl; subst hc
        exact ha
      · exact ih hr hl

/-- Every output of `applyArms` with default `none` comes from an arm. -/
theorem applyArms_none_sound (P : Nat → Nat → Bool) (arms : List Arm) (h : armsAll P arms = true)
    (x y : Nat) (hl : applyArms arms .none x = some y) : P x y = true := by
  unfold applyArms at hl
  cases hlk : lookupArms arms x with
  | none => simp [hlk] at hl
  | some z =>
    simp only [hlk, Option.some.injEq] at hl
    subst hl
    exact lookupArms_sound P arms h x z hlk

theorem applyArms_const (arms : List Arm) (k x : Nat) :
    applyArms arms (.const k) x = some ((lookupArms arms x).getD k) := by
  unfold applyArms
  cases lookupArms arms x <;> rfl

theorem applyArms_none (arms : List Arm) (x : Nat) : applyArms arms .none x = lookupArms arms x := by
  unfold applyArms
  cases lookupArms arms x <;> rfl

/-! ### Annex D look-ups -/

theorem tbl_length (e : Enc) : (AnnexD.tbl e).length = 256 := by
  cases e <;> decide +kernel

theorem dec_lt {e : Enc} {b u : Nat} (h : AnnexD.dec e b = some u) : b < 256 := by
  unfold AnnexD.dec at h
  cases hg : (AnnexD.tbl e)[b]? with
  | none => simp [hg] at h
  | some v =>
    have := (List.getElem?_eq_some_iff.mp hg).1
    rw [tbl_length] at this
    exact this

/-! ### one pass over a 256-entry table (looking slots up one by one is slow in the kernel) -/

def tblAllAux (p : Nat → Option Nat → Bool) : List (Option Nat) → Nat → Bool
  | [], _ => true
  | v :: r, i => p i v && tblAllAux p r (i + 1)

/-- `p byte slot` holds for every slot of the table. -/
def tblAll (p : Nat → Option Nat → Bool) (t : List (Option Nat)) : Bool := tblAllAux p t 0

theorem tblAllAux_spec {p : Nat → Option Nat → Bool} {t : List (Option Nat)} {i : Nat}
    (h : tblAllAux p t i = true) (k : Nat) (v : Option Nat) (hk : t[k]? = some v) : p (i + k) v = true := by
  induction t generalizing i k with
  | nil => simp at hk
  | cons x r ih =>
    simp only [tblAllAux, Bool.and_eq_true] at h
    cases k with
    | zero =>
      simp only [List.getElem?_cons_zero, Option.some.injEq] at hk
      subst hk; exact h.1
    | succ k =>
      simp only [List.getElem?_cons_succ] at hk
      have := ih h.2 k hk
      have e : i + 1 + k = i + (k + 1) := by omega
      rw [e] at this; exact this

/-- The checked predicate holds at every byte, for the slot content `dec e b`. -/
theorem tblAll_lt {e : Enc} {p : Nat → Option Nat → Bool} (h : tblAll p (AnnexD.tbl e) = true)
    (b : Nat) (hb : b < 256) : p b (AnnexD.dec e b) = true := by
  have hl : b < (AnnexD.tbl e).length := by rw [tbl_length]; exact hb
  have hg : (AnnexD.tbl e)[b]? = some ((AnnexD.tbl e)[b]) := List.getElem?_eq_getElem hl
  have := tblAllAux_spec h b _ hg
  simp only [Nat.zero_add] at this
  unfold AnnexD.dec
  rw [hg]; exact this

theorem tblAll_dec {e : Enc} {p : Nat → Option Nat → Bool} (h : tblAll p (AnnexD.tbl e) = true)
    {b u : Nat} (hd : AnnexD.dec e b = some u) : p b (some u) = true := by
  have := tblAll_lt h b (dec_lt hd)
  rw [hd] at this; exact this

/-- number of slots satisfying `p` -/
def tblCountAux (p : Nat → Option Nat → Bool) : List (Option Nat) → Nat → Nat
  | [], _ => 0
  | v :: r, i => (if p i v then 1 else 0) + tblCountAux p r (i + 1)

deriving instance DecidableEq for Except

theorem findSlot_none {t : List (Option Nat)} {c i : Nat} (h : AnnexD.findSlot t c i = none) :
    ∀ k : Nat, t[k]? ≠ some (some c) := by
  induction t generalizing i with
  | nil => intro k; simp
  | cons x r ih =>
    simp only [AnnexD.findSlot] at h
    split at h
    · simp at h
    · rename_i hx
      intro k
      cases k with
      | zero => simp only [List.getElem?_cons_zero]; intro hh; exact hx (Option.some.inj hh)
      | succ k => simp only [List.getElem?_cons_succ]; exact ih h k

theorem findSlot_some {t : List (Option Nat)} {c i j : Nat} (h : AnnexD.findSlot t c i = some j) :
    ∃ k, j = i + k ∧ t[k]? = some (some c) := by
  induction t generalizing i with
  | nil => simp [AnnexD.findSlot] at h
  | cons x r ih =>
    simp only [AnnexD.findSlot] at h
    split at h
    · rename_i hx
      simp only [Option.some.injEq] at h
      exact ⟨0, by omega, by simp [hx]⟩
    · obtain ⟨k, hk, hg⟩ := ih h
      exact ⟨k + 1, by omega, by simpa using hg⟩

/-- A code point outside the repertoire (`enc = none`) sits in no slot. -/
theorem enc_none {e : Enc} {c : Nat} (h : AnnexD.enc e c = none) (b : Nat) : AnnexD.dec e b ≠ some c := by
  unfold AnnexD.dec
  have := findSlot_none h b
  cases hg : (AnnexD.tbl e)[b]? with
  | none => simp
  | some v =>
    rw [hg] at this
    cases v with
    | none => simp
    | some w =>
      simp only [Option.join_some, ne_eq, Option.some.injEq]
      intro hw; subst hw; exact this rfl

/-- `enc` returns a slot that holds the code point. -/
theorem enc_some {e : Enc} {c b : Nat} (h : AnnexD.enc e c = some b) : AnnexD.dec e b = some c := by
  obtain ⟨k, hk, hg⟩ := findSlot_some h
  have : b = k := by omega
  subst this
  unfold AnnexD.dec
  rw [hg]; rfl

/-! ### the loop of `encode_strict` -/

theorem encodeStrict_error_iff (e : Enc) (s : List Nat) (c : Nat) :
    encodeStrict e s = .error c ↔
      ∃ pre post, s = pre ++ c :: post ∧ (∀ x ∈ pre, (strictChar e x).isSome) ∧ strictChar e c = none := by
  induction s with
  | nil => simp [encodeStrict]
  | cons x r ih =>
    simp only [encodeStrict]
    cases hx : strictChar e x with
    | none =>
      simp only [Except.error.injEq]
      constructor
      · intro h; subst h; exact ⟨[], r, rfl, by simp, hx⟩
      · rintro ⟨pre, post, hs, hpre, hc⟩
        cases pre with
        | nil => simp at hs; exact hs.1
        | cons p pre' =>
          simp only [List.cons_append, List.cons.injEq] at hs
          have := hpre p (by simp)
          rw [← hs.1, hx] at this
          simp at this
    | some b =>
      cases hr : encodeStrict e r with
      | ok bs =>
        simp only [reduceCtorEq, false_iff]
        rintro ⟨pre, post, hs, hpre, hc⟩
        cases pre with
        | nil =>
          simp only [List.nil_append, List.cons.injEq] at hs
          rw [← hs.1, hx] at hc; simp at hc
        | cons p pre' =>
          simp only [List.cons_append, List.cons.injEq] at hs
          have : encodeStrict e r = .error c :=
            ih.mpr ⟨pre', post, hs.2, fun y hy => hpre y (by simp [hy]), hc⟩
          rw [hr] at this; simp at this
      | error y =>
        simp only [Except.error.injEq]
        constructor
        · intro h; subst h
          obtain ⟨pre, post, hs, hpre, hc⟩ := ih.mp hr
          refine ⟨x :: pre, post, by simp [hs], ?_, hc⟩
          intro z hz
          simp only [List.mem_cons] at hz
          rcases hz with rfl | hz
          · simp [hx]
          · exact hpre z hz
        · rintro ⟨pre, post, hs, hpre, hc⟩
          cases pre with
          | nil =>
            simp only [List.nil_append, List.cons.injEq] at hs
            rw [← hs.1, hx] at hc; simp at hc
          | cons p pre' =>
            simp only [List.cons_append, List.cons.injEq] at hs
            have : encodeStrict e r = .error c :=
              ih.mpr ⟨pre', post, hs.2, fun y hy => hpre y (by simp [hy]), hc⟩
            rw [hr] at this
            exact (Except.error.inj this)

theorem encodeStrict_ok_iff (e : Enc) (s bs : List Nat) :
    encodeStrict e s = .ok bs ↔ s.map (strictChar e) = bs.map some := by
  induction s generalizing bs with
  | nil =>
    simp only [encodeStrict, Except.ok.injEq, List.map_nil]
    constructor
    · intro h; subst h; rfl
    · intro h; cases bs with
      | nil => rfl
      | cons _ _ => simp at h
  | cons x r ih =>
    simp only [encodeStrict, List.map_cons]
    cases hx : strictChar e x with
    | none =>
      simp only [reduceCtorEq, false_iff]
      intro h; cases bs with
      | nil => simp at h
      | cons _ _ => simp at h
    | some b =>
      cases hr : encodeStrict e r with
      | error y =>
        simp only [reduceCtorEq, false_iff]
        intro h; cases bs with
        | nil => simp at h
        | cons b' bs' =>
          simp only [List.map_cons, List.cons.injEq] at h
          have := (ih bs').mpr h.2
          rw [hr] at this; simp at this
      | ok bs' =>
        simp only [Except.ok.injEq]
        have h0 := (ih bs').mp hr
        constructor
        · intro h; subst h
          simp [h0]
        · intro h; cases bs with
          | nil => simp at h
          | cons b'' bs'' =>
            simp only [List.map_cons, List.cons.injEq, Option.some.injEq] at h
            have := (ih bs'').mpr h.2
            rw [hr] at this
            simp only [Except.ok.injEq] at this
            rw [h.1, this]

/-- A string containing a character without a byte is refused (some character is reported). -/
theorem encodeStrict_reports (e : Enc) (s : List Nat) (c : Nat) (hc : c ∈ s) (hn : strictChar e c = none) :
    ∃ c', encodeStrict e s = .error c' ∧ c' ∈ s ∧ strictChar e c' = none := by
  induction s with
  | nil => simp at hc
  | cons x r ih =>
    simp only [encodeStrict]
    cases hx : strictChar e x with
    | none => exact ⟨x, rfl, by simp, hx⟩
    | some b =>
      have hcr : c ∈ r := by
        simp only [List.mem_cons] at hc
        rcases hc with rfl | h
        · rw [hn] at hx; simp at hx
        · exact h
      obtain ⟨c', h1, h2, h3⟩ := ih hcr
      exact ⟨c', by rw [h1], by simp [h2], h3⟩

end OxiVerif.C25
