import OxiVerif.Lemmas.C01Pred
/-!
Helper lemmas for C01, xref streams (`XRefStream::to_xref_entries` after the repair): the number of
entries produced is bounded by the number of data bytes, whatever `/Index`, `/Size` and `/W` declare,
and no step panics.
-/
namespace OxiVerif.C01
open Outcome

theorem xrsInner_bound (data : Bytes) (widths : List Nat) (entrySize first count : Nat)
    (hes : 0 < entrySize) :
    ∀ (fuel i off : Nat) (acc : List XEntry) (r : Nat × List XEntry),
      xrsInner data widths entrySize first count fuel i off acc = .ok r →
      acc.length ≤ off → off ≤ data.length → r.2.length ≤ r.1 ∧ r.1 ≤ data.length
  | 0, i, off, acc, r, h, ha, ho => by
    simp only [xrsInner, Outcome.ok.injEq] at h
    subst h; exact ⟨ha, ho⟩
  | fuel + 1, i, off, acc, r, h, ha, ho => by
    rw [xrsInner] at h
    by_cases hi : i ≥ count
    · rw [if_pos hi] at h
      simp only [Outcome.ok.injEq] at h
      subst h; exact ⟨ha, ho⟩
    · rw [if_neg hi] at h
      by_cases hfit : ¬ (entrySize + off < USIZE ∧ entrySize + off ≤ data.length)
      · rw [if_pos hfit] at h; cases h
      · rw [if_neg hfit] at h
        have hfit' : entrySize + off < USIZE ∧ entrySize + off ≤ data.length := Classical.not_not.mp hfit
        rw [bind_eq_ok] at h
        obtain ⟨fields, _, h⟩ := h
        by_cases hob : ¬ (first + i < U32)
        · rw [if_pos hob] at h; cases h
        · rw [if_neg hob] at h
          by_cases hty : fields.getD 0 0 > 2
          · rw [if_pos hty] at h; cases h
          · rw [if_neg hty] at h
            exact xrsInner_bound data widths entrySize first count hes fuel (i + 1) (off + entrySize) _ r h
              (by simp; omega) (by omega)

theorem xrsOuter_bound (data : Bytes) (widths : List Nat) (entrySize : Nat) (hes : 0 < entrySize) :
    ∀ (idx : List (Nat × Nat)) (off : Nat) (acc es : List XEntry),
      xrsOuter data widths entrySize idx off acc = .ok es →
      acc.length ≤ off → off ≤ data.length → es.length ≤ data.length
  | [], off, acc, es, h, ha, ho => by
    simp only [xrsOuter, Outcome.ok.injEq] at h
    subst h; omega
  | (first, count) :: rest, off, acc, es, h, ha, ho => by
    rw [xrsOuter, bind_eq_ok] at h
    obtain ⟨⟨off', acc'⟩, h1, h2⟩ := h
    have hb := xrsInner_bound data widths entrySize first count hes _ _ _ _ _ h1 ha ho
    exact xrsOuter_bound data widths entrySize hes rest off' acc' es h2 hb.1 hb.2

/-! ### no panic -/

theorem sumUsizeCk_np : ∀ (ws : List Nat) (acc : Nat), (sumUsizeCk acc ws).isPanic = false
  | [], acc => rfl
  | w :: rest, acc => by
    rw [sumUsizeCk]
    split
    · exact sumUsizeCk_np rest _
    · rfl

theorem sumUsizeCk_ok : ∀ (ws : List Nat) (acc v : Nat), sumUsizeCk acc ws = .ok v → v = acc + ws.sum
  | [], acc, v, h => by
    simp only [sumUsizeCk, Outcome.ok.injEq] at h
    simp [h]
  | w :: rest, acc, v, h => by
    rw [sumUsizeCk] at h
    split at h
    · have := sumUsizeCk_ok rest _ v h
      simp [List.sum_cons]; omega
    · cases h

theorem readFields_np (data : Bytes) : ∀ (ws : List Nat) (off : Nat), off + ws.sum ≤ data.length →
    (readFields data off ws).isPanic = false
  | [], off, _ => rfl
  | w :: rest, off, h => by
    have hs : off + w + rest.sum ≤ data.length := by simp [List.sum_cons] at h; omega
    have hrest : ∀ v : Nat, (do
        let r ← readFields data (off + w) rest
        pure (v :: r) : Outcome (List Nat)).isPanic = false := by
      intro v
      apply not_isPanic_bind
      · exact readFields_np data rest (off + w) hs
      · intro r _; rfl
    rw [readFields]
    by_cases hw : (w == 0) = true
    · rw [if_pos hw]; exact hrest 0
    · rw [if_neg hw]
      have : slice data off (off + w) = .ok ((data.drop off).take (off + w - off)) := by
        unfold slice
        rw [if_pos ⟨by omega, by omega⟩]
      rw [this]; exact hrest _

theorem xrsInner_np (data : Bytes) (widths : List Nat) (entrySize first count : Nat)
    (hsum : entrySize = widths.sum) :
    ∀ (fuel i off : Nat) (acc : List XEntry),
      (xrsInner data widths entrySize first count fuel i off acc).isPanic = false
  | 0, i, off, acc => rfl
  | fuel + 1, i, off, acc => by
    rw [xrsInner]
    by_cases hi : i ≥ count
    · rw [if_pos hi]; rfl
    · rw [if_neg hi]
      by_cases hfit : ¬ (entrySize + off < USIZE ∧ entrySize + off ≤ data.length)
      · rw [if_pos hfit]; rfl
      · rw [if_neg hfit]
        have hfit' : entrySize + off < USIZE ∧ entrySize + off ≤ data.length := Classical.not_not.mp hfit
        apply not_isPanic_bind
        · exact readFields_np data widths off (by omega)
        · intro fields _
          by_cases hob : ¬ (first + i < U32)
          · rw [if_pos hob]; rfl
          · rw [if_neg hob]
            by_cases hty : fields.getD 0 0 > 2
            · rw [if_pos hty]; rfl
            · rw [if_neg hty]
              exact xrsInner_np data widths entrySize first count hsum fuel (i + 1) _ _

theorem xrsOuter_np (data : Bytes) (widths : List Nat) (entrySize : Nat) (hsum : entrySize = widths.sum) :
    ∀ (idx : List (Nat × Nat)) (off : Nat) (acc : List XEntry),
      (xrsOuter data widths entrySize idx off acc).isPanic = false
  | [], off, acc => rfl
  | (first, count) :: rest, off, acc => by
    rw [xrsOuter]
    apply not_isPanic_bind
    · exact xrsInner_np data widths entrySize first count hsum _ _ _ _
    · intro p _
      exact xrsOuter_np data widths entrySize hsum rest _ _

theorem xrsEntries_np (w : List Int) (index : Option (List Int)) (size : Option Int) (data : Bytes) :
    (xrsEntries w index size data).isPanic = false := by
  unfold xrsEntries
  apply not_isPanic_bind
  · unfold xrsWidths; split <;> rfl
  · intro widths _
    apply not_isPanic_bind
    · unfold xrsIndex
      cases index with
      | some xs => rfl
      | none => cases size <;> rfl
    · intro idx _
      apply not_isPanic_bind
      · exact sumUsizeCk_np widths 0
      · intro entrySize hes
        have hsum : entrySize = widths.sum := by
          have := sumUsizeCk_ok widths 0 entrySize hes
          omega
        split
        · rfl
        · exact xrsOuter_np data widths entrySize hsum idx 0 []

end OxiVerif.C01
