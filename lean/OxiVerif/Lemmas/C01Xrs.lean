import OxiVerif.Lemmas.C01Pred
/-!
Helper lemmas for C01: the number of entries produced from an xref stream is bounded by the number
of data bytes, whatever `/Index`, `/Size` and `/W` declare.
-/
namespace OxiVerif.C01
open Outcome

theorem xrsInner_bound (data : Bytes) (widths : List Nat) (entrySize first count : Nat)
    (hes : 0 < entrySize) :
    ∀ (fuel i off : Nat) (acc : List XEntry) (r : Nat × List XEntry),
      xrsInner data widths entrySize first count fuel i off acc = .ok r →
      acc.length ≤ off → off ≤ data.length → r.2.length ≤ r.1 ∧ r.1 ≤ data.length
  | 0, i, off, acc, r, h, ha, ho => by
    simp only [xrsInner, Outcome.ok.injEq] at h
    subst h; exact ⟨ha, ho⟩
  | fuel + 1, i, off, acc, r, h, ha, ho => by
    rw [xrsInner] at h
    by_cases hi : i ≥ count
    · rw [if_pos hi] at h
      simp only [Outcome.ok.injEq] at h
      subst h; exact ⟨ha, ho⟩
    · rw [if_neg hi] at h
      rw [bind_eq_ok] at h
      obtain ⟨endOff, he, h⟩ := h
      rw [addU_eq_ok] at he
      by_cases hgt : endOff > data.length
      · rw [if_pos hgt] at h
        rw [bind_eq_ok] at h
        obtain ⟨_, _, h⟩ := h
        cases h
      · rw [if_neg hgt] at h
        rw [bind_eq_ok] at h
        obtain ⟨fields, _, h⟩ := h
        rw [bind_eq_ok] at h
        obtain ⟨obj, _, h⟩ := h
        by_cases hty : fields.getD 0 0 > 2
        · rw [if_pos hty] at h; cases h
        · rw [if_neg hty] at h
          exact xrsInner_bound data widths entrySize first count hes fuel (i + 1) (off + entrySize) _ r h
            (by simp; omega) (by omega)

theorem xrsOuter_bound (data : Bytes) (widths : List Nat) (entrySize : Nat) (hes : 0 < entrySize) :
    ∀ (idx : List (Nat × Nat)) (off : Nat) (acc es : List XEntry),
      xrsOuter data widths entrySize idx off acc = .ok es →
      acc.length ≤ off → off ≤ data.length → es.length ≤ data.length
  | [], off, acc, es, h, ha, ho => by
    simp only [xrsOuter, Outcome.ok.injEq] at h
    subst h; omega
  | (first, count) :: rest, off, acc, es, h, ha, ho => by
    rw [xrsOuter, bind_eq_ok] at h
    obtain ⟨⟨off', acc'⟩, h1, h2⟩ := h
    have hb := xrsInner_bound data widths entrySize first count hes _ _ _ _ _ h1 ha ho
    exact xrsOuter_bound data widths entrySize hes rest off' acc' es h2 hb.1 hb.2

end OxiVerif.C01
