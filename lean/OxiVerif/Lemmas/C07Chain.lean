import OxiVerif.Lemmas.C07
/-!
C07 helper: filter chains.  A `Stage` pairs what the decoder sees (filter name, parameter dictionary)
with the reference encoder used for it; `encodeChain` applies the encoders innermost-last, the way a
PDF writer builds `/Filter [f₀ f₁ …]` (f₀ is decoded first, so it was encoded last).
-/
namespace OxiVerif.Flt

structure Stage where
  name : FName
  parms : Option Dict
  enc : List Nat → List Nat

/-- what a stage's decoder must be given: bytes, within the decoder's output ceiling -/
def Good (x : List Nat) : Prop := Bytes x ∧ x.length ≤ maxDecompressedSize

instance (x : List Nat) : Decidable (Good x) := by unfold Good; infer_instance

/-- the stage's decoder (as `apply_filter_with_params` runs it) inverts its encoder -/
def Stage.RoundTrips (E : Ext) (s : Stage) : Prop :=
  s.name ≠ .unknown ∧ ∀ x, Good x → applyFilterWithParams E (s.enc x) s.name s.parms = .ok x

def encodeChain : List Stage → List Nat → List Nat
  | [], x => x
  | s :: ss, x => s.enc (encodeChain ss x)

/-- every stage input along the chain is `Good` -/
def Fits : List Stage → List Nat → Prop
  | [], _ => True
  | _ :: ss, x => Good (encodeChain ss x) ∧ Fits ss x

theorem chainGo_encodeChain (E : Ext) (ps : ParmSpec) :
    ∀ (stages : List Stage) (i : Nat) (x : List Nat),
      (∀ s ∈ stages, s.RoundTrips E) →
      (∀ k s, stages[k]? = some s → filterParams ps (i + k) = s.parms) →
      Fits stages x →
      chainGo E ps i (stages.map (·.name)) (encodeChain stages x) = .ok x := by
  intro stages
  induction stages with
  | nil => intro i x _ _ _; rfl
  | cons s ss ih =>
    intro i x hrt hp hfit
    obtain ⟨hname, hdec⟩ := hrt s (by simp)
    have hp0 : filterParams ps i = s.parms := by simpa using hp 0 s (by simp)
    simp only [List.map_cons, chainGo, encodeChain]
    rw [if_neg hname, hp0, hdec _ hfit.1]
    simp only [Res.bind]
    exact ih (i + 1) x (fun t ht => hrt t (by simp [ht]))
      (fun k t hk => by
        have := hp (k + 1) t (by simpa using hk)
        simpa [Nat.add_assoc, Nat.add_comm 1 k] using this)
      hfit.2

theorem filterNames_map_some (l : List FName) : filterNames (l.map some) = some l := by
  induction l with
  | nil => rfl
  | cons f fs ih => simp [filterNames, ih]

end OxiVerif.Flt
