import OxiVerif.Lemmas.C09Tree
import OxiVerif.Lemmas.C09LibTree
/-!
# Lemmas for C09 — the fuel `ObjParser.parse` / `Spec.Syntax.read` supply is enough

Both readers recurse on an explicit fuel and start with `2·|input| + 4` resp. `2·|input| + 2`.
The round-trip theorems need `needFT v + 1` resp. `need v` units.  Every node of a written tree
costs at most two units per emitted byte (plus one), so the supplied fuel always suffices.
-/
namespace OxiVerif.C09
open OxiVerif.Spec.Syntax (Obj)
open OxiVerif.Model

mutual
theorem needFT_le : ∀ (v : Obj), needFT v ≤ 2 * (serRaw v).length + 1
  | .null => by simp [needFT]
  | .bool _ => by simp [needFT]
  | .int _ => by simp [needFT]
  | .real _ => by simp [needFT]
  | .str _ => by simp [needFT]
  | .hexstr _ => by simp [needFT]
  | .name _ => by simp [needFT]
  | .ref _ _ => by simp [needFT]
  | .arr xs => by
    have := needArr_le xs true
    simp [needFT, serRaw] at this ⊢
    omega
  | .dict kvs => by
    have := needDict_le kvs
    simp [needFT, serRaw] at this ⊢
    omega
theorem needArr_le : ∀ (xs : List Obj) (first : Bool),
    needArr xs ≤ 2 * (serElems first xs).length + (if first then 3 else 1)
  | [], first => by cases first <;> simp [needArr, serElems]
  | x :: xs, first => by
    have h1 := needFT_le x
    have h2 := needArr_le xs false
    cases first <;> simp [needArr, serElems] at h2 ⊢ <;> omega
theorem needDict_le : ∀ (kvs : List (List Nat × Obj)),
    needDict kvs ≤ 2 * (serEntries kvs).length + 1
  | [] => by simp [needDict, serEntries]
  | (k, v) :: rest => by
    have h1 := needFT_le v
    have h2 := needDict_le rest
    simp [needDict, serEntries] at h2 ⊢
    omega
end

mutual
theorem need_le : ∀ (v : Obj), need v ≤ 2 * (serRaw v).length + 1
  | .null => by simp [need]
  | .bool _ => by simp [need]
  | .int _ => by simp [need]
  | .real _ => by simp [need]
  | .str _ => by simp [need]
  | .hexstr _ => by simp [need]
  | .name _ => by simp [need]
  | .ref _ _ => by simp [need]
  | .arr xs => by
    have := needList_le xs true
    simp [need, serRaw] at this ⊢
    omega
  | .dict kvs => by
    have := needKVs_le kvs
    simp [need, serRaw] at this ⊢
    omega
theorem needList_le : ∀ (xs : List Obj) (first : Bool),
    needList xs ≤ 2 * (serElems first xs).length + (if first then 3 else 1)
  | [], first => by cases first <;> simp [needList, serElems]
  | x :: xs, first => by
    have h1 := need_le x
    have h2 := needList_le xs false
    cases first <;> simp [needList, serElems] at h2 ⊢ <;> omega
theorem needKVs_le : ∀ (kvs : List (List Nat × Obj)),
    needKVs kvs ≤ 2 * (serEntries kvs).length + 1
  | [] => by simp [needKVs, serEntries]
  | (k, v) :: rest => by
    have h1 := need_le v
    have h2 := needKVs_le rest
    simp [needKVs, serEntries] at h2 ⊢
    omega
end

/-- `PdfObject::parse` itself (its own fuel) on a written value inside the safe fragment -/
theorem lib_parse_roundtrip (v : Obj) (rest : List Nat) (hs : SafeLib v rest = true) :
    ObjParser.parse (serRaw v ++ rest) = .ok (readBackLib v, rest) := by
  unfold ObjParser.parse
  apply lib_parseObj_roundtrip v rest _ hs
  have := needFT_le v
  simp
  omega

/-- `Spec.Syntax.read` itself (its own fuel) on a written value inside the safe fragment -/
theorem spec_read_roundtrip (v : Obj) (rest : List Nat) (hs : SafeSpec v rest = true) :
    Spec.Syntax.read (serRaw v ++ rest) = some (readBack v, rest) := by
  unfold Spec.Syntax.read
  apply spec_obj_roundtrip v rest _ hs
  have := need_le v
  simp
  omega

end OxiVerif.C09
