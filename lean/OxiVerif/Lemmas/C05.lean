import OxiVerif.Props.C23
set_option linter.unusedSimpArgs false
set_option linter.unusedVariables false
/-!
Lemmas shared by C05 and C06: the per-object ciphers of Algorithm 1 / 1.A round-trip
(RC4 and AES-CBC + PKCS#7 unconditionally: `AesOK` is discharged by `aesOK`).
-/
namespace OxiVerif.C05
open OxiVerif.Crypto OxiVerif.C23

/-- the fact about the FIPS-197 transcription the AES lemmas below rest on -/
def AesOK : Prop := ∀ key ks, keySched key = some ks → BlockInverse (aesEncBlock ks) (aesDecBlock ks)

/-- … which is a theorem: `Lemmas/C23Aes.lean` proves the AES block function a permutation for
every round-key list (S-box tables, ShiftRows, MixColumns, AddRoundKey). -/
theorem aesOK : AesOK := aes_ok

theorem keySched_isSome (key : Bytes) (h : key.length = 16 ∨ key.length = 32) : ∃ ks, keySched key = some ks := by
  unfold keySched
  simp [h]

theorem aesCbcPad_roundtrip (hA : AesOK) (key iv data : Bytes) (hk : key.length = 16 ∨ key.length = 32)
    (hiv : iv.length = 16) :
    ∃ c, aesCbcPadEnc key iv data = some c ∧ aesCbcPadDec key iv c = some data ∧
      c.length = (data.length / 16 + 1) * 16 := by
  obtain ⟨ks, hks⟩ := keySched_isSome key hk
  have hinv := hA key ks hks
  refine ⟨cbcEnc (aesEncBlock ks) iv (pkcs7Pad data), by simp [aesCbcPadEnc, hks], ?_, ?_⟩
  · have hl := C23_cbc_pkcs7_length _ _ hinv iv data hiv
    simp only [aesCbcPadDec, hks]
    rw [if_neg (by rw [hl]; omega)]
    exact C23_cbc_pkcs7_roundtrip _ _ hinv iv data hiv
  · exact C23_cbc_pkcs7_length _ _ hinv iv data hiv

/-- RC4 (V2): decrypting what was encrypted for the same object gives the data back. -/
theorem rc4_object_cipher (key : Bytes) (num gen : Nat) (iv data : Bytes) :
    decryptData 1 key num gen (encryptData 1 key num gen iv data) = some data := by
  simp [decryptData, encryptData, rc4_involutive]

/-- AESV2 / AESV3: IV ‖ CBC(PKCS#7(data)) decrypts to the data, for every 16-byte IV. -/
theorem aes_object_cipher (hA : AesOK) (cfm : Nat) (hc : cfm = 2 ∨ cfm = 3) (key : Bytes) (num gen : Nat)
    (iv data : Bytes) (hiv : iv.length = 16)
    (hk : (cfm = 2 → key.length ≥ 11) ∧ (cfm = 3 → key.length = 32)) :
    decryptData cfm key num gen (encryptData cfm key num gen iv data) = some data := by
  have h1 : ¬ cfm = 1 := by omega
  simp only [decryptData, encryptData, h1, if_false]
  generalize hkk : (if cfm = 2 then objectKey key num gen true else key) = k
  have hkl : k.length = 16 ∨ k.length = 32 := by
    rcases hc with h | h
    · subst hkk; simp only [h, if_true]
      left
      have := hk.1 h
      simp [objectKey, md5_length]; omega
    · subst hkk
      have h2 : ¬ cfm = 2 := by omega
      simp only [h2, if_false]; right; exact hk.2 h
  obtain ⟨c, hc1, hc2, hc3⟩ := aesCbcPad_roundtrip hA k iv data hkl hiv
  simp only [hc1, Option.getD_some, List.length_append, hiv]
  rw [if_neg (by omega), List.take_left' hiv, List.drop_left' hiv]
  exact hc2

theorem aesCbcRaw_roundtrip (hA : AesOK) (key data : Bytes) (hk : key.length = 32) (hd : data.length % 16 = 0) :
    ∃ c, aesCbcRawEnc key zeroIv data = some c ∧ aesCbcRawDec key zeroIv c = some data ∧ c.length = data.length := by
  obtain ⟨ks, hks⟩ := keySched_isSome key (Or.inr hk)
  have hinv := hA key ks hks
  have hz : zeroIv.length = 16 := by simp [zeroIv]
  refine ⟨cbcEnc (aesEncBlock ks) zeroIv data, by simp [aesCbcRawEnc, hks], ?_, ?_⟩
  · simp only [aesCbcRawDec, hks, Option.map_some]
    rw [C23_cbc_roundtrip _ _ hinv zeroIv data hz hd]
  · exact cbcEnc_length _ _ hinv zeroIv data hz hd


end OxiVerif.C05
