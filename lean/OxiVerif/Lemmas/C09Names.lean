import OxiVerif.Lemmas.C09Lib
import OxiVerif.Model.ObjCanon
/-!
# Lemmas for C09 — the `String` behind a name token

`Token::Name` / `PdfName` hold a Rust `String` that `read_name` builds with `name.push(b as char)`:
one `char` (< U+0100) per byte.  `ObjCanon.utf8OfLatin1 cs` are the UTF-8 bytes of that `String`.
It equals the written byte string exactly when every byte is ASCII.
-/
namespace OxiVerif.C09
open OxiVerif.ObjCanon (utf8OfLatin1)

theorem utf8OfLatin1_length_ge (n : List Nat) : n.length ≤ (utf8OfLatin1 n).length := by
  induction n with
  | nil => simp [utf8OfLatin1]
  | cons c r ih =>
    unfold utf8OfLatin1
    split <;> simp <;> omega

theorem utf8OfLatin1_length_gt (n : List Nat) (h : NameAscii n = false) :
    n.length < (utf8OfLatin1 n).length := by
  unfold NameAscii at h
  induction n with
  | nil => simp [allB] at h
  | cons c r ih =>
    unfold utf8OfLatin1
    by_cases hc : c < 128
    · have hr : allB (fun b => decide (b < 128)) r = false := by
        simpa [allB, hc] using h
      have := ih hr
      simp [hc]; omega
    · have := utf8OfLatin1_length_ge r
      simp [hc]; omega

theorem utf8OfLatin1_ascii (n : List Nat) (h : NameAscii n = true) : utf8OfLatin1 n = n := by
  unfold NameAscii at h
  induction n with
  | nil => rfl
  | cons c r ih =>
    rw [allB_cons] at h
    have hc : c < 128 := by simpa using h.1
    simp [utf8OfLatin1, hc, ih h.2]

/-- the `String` read is the `String` written iff the name is ASCII -/
theorem utf8OfLatin1_eq_iff (n : List Nat) : utf8OfLatin1 n = n ↔ NameAscii n = true := by
  constructor
  · intro h
    cases hA : NameAscii n with
    | true => rfl
    | false =>
      have := utf8OfLatin1_length_gt n hA
      rw [h] at this
      omega
  · exact utf8OfLatin1_ascii n

/-! ## `readBackLib` against `readBack` -/

open OxiVerif.Spec.Syntax (Obj) in
mutual
theorem readBackLib_eq : ∀ (v : Obj), hasBigReal v = false → readBackLib v = readBack v
  | .null, _ => rfl
  | .bool _, _ => rfl
  | .int _, _ => rfl
  | .real t, h => by
    simp only [hasBigReal] at h
    simp only [readBackLib, readBack, readBackRealLib, readBackReal]
    cases hi : Spec.Syntax.isIntTok (Model.trimReal t) with
    | false => simp
    | true =>
      rw [hi] at h
      simp at h
      simp [h]
  | .str _, _ => rfl
  | .hexstr _, _ => rfl
  | .name _, _ => rfl
  | .ref _ _, _ => rfl
  | .arr xs, h => by
    simp only [hasBigReal] at h
    simp [readBackLib, readBack, readBackLibList_eq xs h]
  | .dict kvs, h => by
    simp only [hasBigReal] at h
    simp [readBackLib, readBack, readBackLibKVs_eq kvs h]
theorem readBackLibList_eq : ∀ (xs : List Obj), hasBigRealList xs = false →
    readBackLibList xs = readBackList xs
  | [], _ => rfl
  | x :: xs, h => by
    simp only [hasBigRealList, Bool.or_eq_false_iff] at h
    simp [readBackLibList, readBackList, readBackLib_eq x h.1, readBackLibList_eq xs h.2]
theorem readBackLibKVs_eq : ∀ (kvs : List (List Nat × Obj)), hasBigRealKVs kvs = false →
    readBackLibKVs kvs = readBackKVs kvs
  | [], _ => rfl
  | (k, v) :: rest, h => by
    simp only [hasBigRealKVs, Bool.or_eq_false_iff] at h
    simp [readBackLibKVs, readBackKVs, readBackLib_eq v h.1, readBackLibKVs_eq rest h.2]
end

end OxiVerif.C09
