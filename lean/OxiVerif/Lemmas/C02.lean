import OxiVerif.Model.C02
/-!
# Lemmas for C02: dictionaries through `sortDicts` / `readBack`, lookups in the written objects
-/
namespace OxiVerif.C02
open OxiVerif.Spec.Syntax (Obj)
open OxiVerif.Model

def keysOf (l : List (Bytes × Obj)) : List Bytes := l.map (·.1)

/-- what a faithful object parser returns for a written value (C09: `readBack ∘ sortDicts`) -/
def rb (o : Obj) : Obj := C09.readBack (sortDicts o)

theorem mem_keysOf_insertKV (x k : Bytes) (v : Obj) (l : List (Bytes × Obj)) :
    x ∈ keysOf (insertKV k v l) ↔ x = k ∨ x ∈ keysOf l := by
  induction l with
  | nil => simp [insertKV, keysOf]
  | cons e r ih =>
    obtain ⟨k1, v1⟩ := e
    simp only [insertKV]
    split
    · simp [keysOf]
    · simp only [keysOf, List.map_cons, List.mem_cons] at ih ⊢
      rw [ih]; constructor <;> intro h <;> rcases h with h | h | h <;> simp [h]

theorem dictGet_insertKV (k k' : Bytes) (v : Obj) (l : List (Bytes × Obj)) (h : k' ∉ keysOf l) :
    dictGet k (insertKV k' v l) = if k == k' then some v else dictGet k l := by
  induction l with
  | nil => simp [insertKV, dictGet]
  | cons e r ih =>
    obtain ⟨k1, v1⟩ := e
    have h1 : k' ≠ k1 := by intro e; apply h; simp [keysOf, e]
    have h2 : k' ∉ keysOf r := by intro e; apply h; simp [keysOf] at e ⊢; exact Or.inr e
    simp only [insertKV]
    split
    · simp [dictGet]
    · simp only [dictGet, ih h2]
      by_cases e1 : k = k1
      · subst e1
        have : (k == k') = false := by simpa using fun e => h1 e.symm
        simp [this]
      · have : (k == k1) = false := by simpa using e1
        simp [this]

theorem nodup_keysOf_insertKV (k : Bytes) (v : Obj) (l : List (Bytes × Obj))
    (hk : k ∉ keysOf l) (hl : (keysOf l).Nodup) : (keysOf (insertKV k v l)).Nodup := by
  induction l with
  | nil => simp [insertKV, keysOf]
  | cons e r ih =>
    obtain ⟨k1, v1⟩ := e
    have h1 : k ≠ k1 := by intro e; apply hk; simp [keysOf, e]
    have h2 : k ∉ keysOf r := by intro e; apply hk; simp [keysOf] at e ⊢; exact Or.inr e
    simp only [keysOf, List.map_cons, List.nodup_cons] at hl
    simp only [insertKV]
    split
    · simp only [keysOf, List.map_cons, List.nodup_cons, List.mem_cons, not_or]
      exact ⟨⟨h1, by simpa [keysOf] using h2⟩, hl.1, hl.2⟩
    · simp only [keysOf, List.map_cons, List.nodup_cons]
      refine ⟨?_, ih h2 hl.2⟩
      intro hm
      have := (mem_keysOf_insertKV k1 k v r).mp (by simpa [keysOf] using hm)
      rcases this with e | e
      · exact h1 e.symm
      · exact hl.1 (by simpa [keysOf] using e)

theorem sortKV_facts (l : List (Bytes × Obj)) (h : (keysOf l).Nodup) :
    (keysOf (sortKV l)).Nodup ∧ (∀ x, x ∈ keysOf (sortKV l) ↔ x ∈ keysOf l) ∧
    ∀ k, dictGet k (sortKV l) = dictGet k l := by
  induction l with
  | nil => simp [sortKV, keysOf]
  | cons e r ih =>
    obtain ⟨k1, v1⟩ := e
    simp only [keysOf, List.map_cons, List.nodup_cons] at h
    obtain ⟨nd, mem, get⟩ := ih h.2
    have hk : k1 ∉ keysOf (sortKV r) := by rw [mem]; simpa [keysOf] using h.1
    refine ⟨nodup_keysOf_insertKV k1 v1 _ hk nd, ?_, ?_⟩
    · intro x
      show x ∈ keysOf (insertKV k1 v1 (sortKV r)) ↔ x ∈ keysOf ((k1, v1) :: r)
      rw [mem_keysOf_insertKV, mem]
      simp [keysOf]
    · intro k
      simp only [sortKV, dictGet_insertKV k k1 v1 _ hk, get, dictGet]

theorem keysOf_sortDictsKVs (l : List (Bytes × Obj)) : keysOf (sortDictsKVs l) = keysOf l := by
  induction l with
  | nil => simp [sortDictsKVs, keysOf]
  | cons e r ih => obtain ⟨k, v⟩ := e; simp [sortDictsKVs, keysOf] at ih ⊢; exact ih

theorem dictGet_sortDictsKVs (k : Bytes) (l : List (Bytes × Obj)) :
    dictGet k (sortDictsKVs l) = (dictGet k l).map sortDicts := by
  induction l with
  | nil => simp [sortDictsKVs, dictGet]
  | cons e r ih =>
    obtain ⟨k1, v⟩ := e
    simp only [sortDictsKVs, dictGet, ih]
    split <;> simp

theorem dictGet_readBackKVs (k : Bytes) (l : List (Bytes × Obj)) :
    dictGet k (C09.readBackKVs l) = (dictGet k l).map C09.readBack := by
  induction l with
  | nil => simp [C09.readBackKVs, dictGet]
  | cons e r ih =>
    obtain ⟨k1, v⟩ := e
    simp only [C09.readBackKVs, dictGet, ih]
    split <;> simp

/-- looking a key up in what the parser returns for a written dictionary = looking it up in the
    dictionary as the writer built it (keys distinct — a `HashMap`) and parsing the value -/
theorem dget_rb_dict (kvs : List (Bytes × Obj)) (h : (keysOf kvs).Nodup) (s : String) :
    dget (rb (.dict kvs)) s = (dictGet (key s) kvs).map rb := by
  have h' : (keysOf (sortDictsKVs kvs)).Nodup := by rw [keysOf_sortDictsKVs]; exact h
  simp only [rb, sortDicts, C09.readBack, dget, dictGet_readBackKVs,
    (sortKV_facts _ h').2.2, dictGet_sortDictsKVs, Option.map_map]
  rfl

theorem rb_dict_isDict (kvs : List (Bytes × Obj)) : ∃ kvs', rb (.dict kvs) = .dict kvs' := by
  simp [rb, sortDicts, C09.readBack]

/-! ## the reader's graph of the written objects -/

def toR (o : WObj) : Nat × RObj :=
  match o.body with
  | .plain v => (o.id, .plain (rb v))
  | .stream d raw dec => (o.id, .stream (rb (streamDict d raw)) dec)
  | .xmp => (o.id, .stream (.dict []) [])

theorem toR_fst (o : WObj) : (toR o).1 = o.id := by
  unfold toR; cases o.body <;> rfl

/-- the decoder gives back what the writer compressed -/
def StreamOK (unz : Bytes → Option Bytes) (o : WObj) : Prop :=
  match o.body with
  | .stream d raw dec => (if hasFlate d then unz raw else some raw) = some dec
  | _ => True

theorem graphOf_eq (unz : Bytes → Option Bytes) (objs : List WObj) (h : ∀ o ∈ objs, StreamOK unz o) :
    graphOf (fun v => some (rb v)) unz objs = some (objs.map toR) := by
  induction objs with
  | nil => rfl
  | cons o r ih =>
    have hr := ih (fun x hx => h x (by simp [hx]))
    have ho := h o (by simp)
    simp only [graphOf, hr, List.map_cons]
    unfold StreamOK at ho
    unfold toR
    cases hb : o.body with
    | plain v => simp
    | stream d raw dec => rw [hb] at ho; simp only at ho; simp [ho]
    | xmp => simp

def findId (n : Nat) (l : List WObj) : Option WObj := l.find? (fun o => o.id == n)

theorem get_map_toR (objs : List WObj) (n : Nat) :
    Graph.get (objs.map toR) n = (findId n objs).map (fun o => (toR o).2) := by
  induction objs with
  | nil => simp [Graph.get, findId]
  | cons o r ih =>
    simp only [Graph.get, findId, List.map_cons, List.find?_cons, toR_fst] at ih ⊢
    by_cases e : o.id == n
    · simp [e]
    · simp only [e]
      exact ih

/-! ## pages without images -/

def pageObjsNI (cfg : Cfg) (z : Bytes → Bytes) : Nat → List PageD → List WObj
  | _, [] => []
  | i, p :: r =>
    { id := pageId i, body := .plain (pageDict i p []) } :: contentObj cfg z i p :: pageObjsNI cfg z (i + 1) r

theorem pageObjs_noImages (cfg : Cfg) (z : Bytes → Bytes) (ps : List PageD) :
    ∀ (i next : Nat), (∀ p ∈ ps, imagesOf p.ops = []) →
      pageObjs cfg z i next ps = (pageObjsNI cfg z i ps, next) := by
  induction ps with
  | nil => intro i next _; rfl
  | cons p r ih =>
    intro i next h
    have hp := h p (by simp)
    simp only [pageObjs, hp, imageObjs, imageIds, List.length_nil, Nat.add_zero,
      ih (i + 1) next (fun x hx => h x (by simp [hx])), pageObjsNI, List.nil_append]
    rfl

theorem contentObj_id (cfg : Cfg) (z : Bytes → Bytes) (i : Nat) (p : PageD) :
    (contentObj cfg z i p).id = contentId i := rfl

theorem find_pageObjsNI_lt (cfg : Cfg) (z : Bytes → Bytes) (ps : List PageD) :
    ∀ (i n : Nat), n < pageId i → findId n (pageObjsNI cfg z i ps) = none := by
  induction ps with
  | nil => intro i n _; rfl
  | cons p r ih =>
    intro i n h
    simp only [pageId] at h
    have h1 : (pageId i == n) = false := by simp [pageId]; omega
    have h2 : (contentId i == n) = false := by simp [contentId]; omega
    simp only [findId, pageObjsNI, List.find?_cons, h1, contentObj_id, h2]
    exact ih (i + 1) n (by simp only [pageId]; omega)

theorem find_pageObjsNI_page (cfg : Cfg) (z : Bytes → Bytes) (ps : List PageD) :
    ∀ (i j : Nat) (p : PageD), ps[j]? = some p →
      findId (pageId (i + j)) (pageObjsNI cfg z i ps) =
        some { id := pageId (i + j), body := .plain (pageDict (i + j) p []) } := by
  induction ps with
  | nil => intro i j p h; simp at h
  | cons q r ih =>
    intro i j p h
    cases j with
    | zero =>
      simp only [List.getElem?_cons_zero, Option.some.injEq] at h
      subst h
      simp [findId, pageObjsNI]
    | succ j =>
      simp only [List.getElem?_cons_succ] at h
      have h1 : (pageId i == pageId (i + (j + 1))) = false := by simp [pageId]; omega
      have h2 : (contentId i == pageId (i + (j + 1))) = false := by simp [pageId, contentId]; omega
      simp only [findId, pageObjsNI, List.find?_cons, h1, contentObj_id, h2]
      have := ih (i + 1) j p h
      simp only [findId] at this
      have e : i + 1 + j = i + (j + 1) := by omega
      rw [e] at this
      exact this

theorem find_pageObjsNI_content (cfg : Cfg) (z : Bytes → Bytes) (ps : List PageD) :
    ∀ (i j : Nat) (p : PageD), ps[j]? = some p →
      findId (contentId (i + j)) (pageObjsNI cfg z i ps) = some (contentObj cfg z (i + j) p) := by
  induction ps with
  | nil => intro i j p h; simp at h
  | cons q r ih =>
    intro i j p h
    cases j with
    | zero =>
      simp only [List.getElem?_cons_zero, Option.some.injEq] at h
      subst h
      have h1 : (pageId i == contentId i) = false := by simp [pageId, contentId]
      simp [findId, pageObjsNI, h1, contentObj_id]
    | succ j =>
      simp only [List.getElem?_cons_succ] at h
      have h1 : (pageId i == contentId (i + (j + 1))) = false := by simp [pageId, contentId]; omega
      have h2 : (contentId i == contentId (i + (j + 1))) = false := by simp [contentId]; omega
      simp only [findId, pageObjsNI, List.find?_cons, h1, contentObj_id, h2]
      have := ih (i + 1) j p h
      simp only [findId] at this
      have e : i + 1 + j = i + (j + 1) := by omega
      rw [e] at this
      exact this

/-! ## parsed values of the simple objects -/

theorem rb_ref (n g : Nat) : rb (.ref n g) = .ref n g := rfl
theorem rb_int (i : Int) : rb (.int i) = .int i := rfl
theorem rb_name (n : Bytes) : rb (.name n) = .name n := rfl
theorem rb_real (t : Bytes) : rb (.real t) = C09.readBackReal t := rfl

theorem rb_arr (xs : List Obj) : rb (.arr xs) = .arr (xs.map rb) := by
  have : ∀ ys : List Obj, C09.readBackList (sortDictsList ys) = ys.map rb := by
    intro ys
    induction ys with
    | nil => rfl
    | cons y r ih => simp [sortDictsList, C09.readBackList, ih, rb]
  simp [rb, sortDicts, C09.readBack, this]

theorem numTok_readBackReal (x : Bytes) :
    numTok (C09.readBackReal x) = some (match C09.readBackReal x with
      | .int i => showInt i
      | .real t => t
      | _ => []) := by
  unfold C09.readBackReal
  simp only
  split <;> rfl

/-! ## the page dictionary -/

def pageKvs (i : Nat) (p : PageD) : List (Bytes × Obj) :=
  [(key "MediaBox", .arr [realOf zeroTok, realOf zeroTok, realOf p.w, realOf p.h])] ++
  (if pageRot 0 p.ops != 0 then [(key "Rotate", .int (pageRot 0 p.ops))] else []) ++
  [(key "Resources", .dict [(key "Font", fontResources)]), (key "Type", nm "Page"),
   (key "Parent", .ref 2 0), (key "Contents", .ref (contentId i) 0)]

theorem pageDict_noImages (i : Nat) (p : PageD) : pageDict i p [] = .dict (pageKvs i p) := by
  simp [pageDict, pageKvs]

theorem pageKvs_nodup (i : Nat) (p : PageD) : (keysOf (pageKvs i p)).Nodup := by
  unfold pageKvs
  split <;> simp [keysOf, key, ascii]

theorem pageKvs_get (i : Nat) (p : PageD) :
    dictGet (key "MediaBox") (pageKvs i p) = some (.arr [realOf zeroTok, realOf zeroTok, realOf p.w, realOf p.h]) ∧
    dictGet (key "Rotate") (pageKvs i p) = (if pageRot 0 p.ops != 0 then some (.int (pageRot 0 p.ops)) else none) ∧
    dictGet (key "Resources") (pageKvs i p) = some (.dict [(key "Font", fontResources)]) ∧
    dictGet (key "Type") (pageKvs i p) = some (nm "Page") ∧
    dictGet (key "Contents") (pageKvs i p) = some (.ref (contentId i) 0) ∧
    dictGet (key "Kids") (pageKvs i p) = none := by
  unfold pageKvs
  split <;> simp [dictGet, key, ascii]

/-- `readPage` on a page the writer wrote (no images), given the two lookups and the content
    round trip -/
theorem readPage_written (g : Graph) (i : Nat) (p : PageD) (D : Obj)
    (hni : imagesOf p.ops = [])
    (hp : g.get (pageId i) = some (.plain (rb (pageDict i p []))))
    (hcs : g.get (contentId i) = some (.stream D (serXs (emitOps p))))
    (hc : Model.CT.parseContent (serXs (emitOps p)) = some ((emitOps p).map expectParsed)) :
    readPage g i (pageId i) = .ok (normPage p) := by
  obtain ⟨kvs', hk⟩ := rb_dict_isDict (pageKvs i p)
  have hd : ∀ s, dget (Obj.dict kvs') s = (dictGet (key s) (pageKvs i p)).map rb := by
    intro s; rw [← hk]; exact dget_rb_dict _ (pageKvs_nodup i p) s
  obtain ⟨g1, g2, g3, _, g5, _⟩ := pageKvs_get i p
  have hmb : dget (Obj.dict kvs') "MediaBox" =
      some (.arr [C09.readBackReal (fmtFix 6 zeroTok), C09.readBackReal (fmtFix 6 zeroTok),
                  C09.readBackReal (fmtFix 6 p.w), C09.readBackReal (fmtFix 6 p.h)]) := by
    rw [hd, g1]; simp [rb_arr, realOf, rb_real]
  have hrot : (intOf (dget (Obj.dict kvs') "Rotate")).getD 0 = pageRot 0 p.ops := by
    rw [hd, g2]
    by_cases h : pageRot 0 p.ops = 0
    · simp [h, intOf]
    · simp [h, intOf, rb_int]
  have hcont : dget (Obj.dict kvs') "Contents" = some (.ref (contentId i) 0) := by
    rw [hd, g5]; rfl
  obtain ⟨res', hres⟩ := rb_dict_isDict [(key "Font", fontResources)]
  have hres1 : dget (Obj.dict kvs') "Resources" = some (.dict res') := by
    rw [hd, g3]; simp [hres]
  have hx : dget (Obj.dict res') "XObject" = none := by
    rw [← hres, dget_rb_dict _ (by simp [keysOf])]
    simp [dictGet, key, ascii]
  have himg : readPageImages g (Obj.dict kvs') = some [] := by
    simp [readPageImages, hres1, resolveDict, resolve, RObj.dict?, hx]
  have hops : readContents g (Obj.dict kvs') = some ((emitOps p).map expectParsed) := by
    simp [readContents, hcont, resolve, hcs, hc]
  simp only [readPage, hp, pageDict_noImages, hk, Option.bind, RObj.dict?, hmb, hops, himg, hrot]
  simp [numToks, numTok_readBackReal, normPage, mbTok, hni, zeroTok]
  exact ⟨rfl, rfl, rfl⟩

/-! ## the whole object list (documents without images) -/

def xmpIdOf (d : Doc) : Nat := 4 + 2 * d.pages.length

theorem buildObjects_noImages (cfg : Cfg) (z : Bytes → Bytes) (extra : List (Bytes × Obj)) (d : Doc)
    (h : ∀ p ∈ d.pages, imagesOf p.ops = []) :
    buildObjects cfg z extra d =
      { id := 2, body := .plain (pagesDict d.pages.length) } :: (pageObjsNI cfg z 0 d.pages ++
      [{ id := xmpIdOf d, body := .xmp }, { id := 1, body := .plain (catalogDict (xmpIdOf d)) },
       { id := 3, body := .plain (infoDict d extra) }]) := by
  simp [buildObjects, pageObjs_noImages cfg z d.pages 0 _ h, xmpIdOf]

theorem streamOK_pageObjsNI (cfg : Cfg) (z : Bytes → Bytes) (unz : Bytes → Option Bytes)
    (hz : ∀ c, unz (z c) = some c) (ps : List PageD) :
    ∀ i, ∀ o ∈ pageObjsNI cfg z i ps, StreamOK unz o := by
  induction ps with
  | nil => intro i o h; simp [pageObjsNI] at h
  | cons p r ih =>
    intro i o h
    simp only [pageObjsNI, List.mem_cons] at h
    rcases h with h | h | h
    · subst h; simp [StreamOK]
    · subst h
      cases hc : cfg.compress <;>
        simp [StreamOK, contentObj, hc, hasFlate, dictGet, key, nm, ascii, hz]
    · exact ih (i + 1) o h

theorem streamOK_buildObjects (cfg : Cfg) (z : Bytes → Bytes) (unz : Bytes → Option Bytes)
    (hz : ∀ c, unz (z c) = some c) (extra : List (Bytes × Obj)) (d : Doc)
    (h : ∀ p ∈ d.pages, imagesOf p.ops = []) :
    ∀ o ∈ buildObjects cfg z extra d, StreamOK unz o := by
  intro o ho
  rw [buildObjects_noImages cfg z extra d h] at ho
  simp only [List.mem_cons, List.mem_append, List.not_mem_nil, or_false] at ho
  rcases ho with e | e | e | e | e
  · subst e; simp [StreamOK]
  · exact streamOK_pageObjsNI cfg z unz hz d.pages 0 o e
  · subst e; simp [StreamOK]
  · subst e; simp [StreamOK]
  · subst e; simp [StreamOK]

theorem find_build (cfg : Cfg) (z : Bytes → Bytes) (extra : List (Bytes × Obj)) (d : Doc)
    (h : ∀ p ∈ d.pages, imagesOf p.ops = []) :
    findId 2 (buildObjects cfg z extra d) = some { id := 2, body := .plain (pagesDict d.pages.length) } ∧
    findId 1 (buildObjects cfg z extra d) = some { id := 1, body := .plain (catalogDict (xmpIdOf d)) } ∧
    (∀ j p, d.pages[j]? = some p →
      findId (pageId j) (buildObjects cfg z extra d) = some { id := pageId j, body := .plain (pageDict j p []) } ∧
      findId (contentId j) (buildObjects cfg z extra d) = some (contentObj cfg z j p)) := by
  rw [buildObjects_noImages cfg z extra d h]
  refine ⟨by simp [findId], ?_, ?_⟩
  · have h0 := find_pageObjsNI_lt cfg z d.pages 0 1 (by simp [pageId])
    simp only [findId] at h0
    simp [findId, List.find?_append, h0, xmpIdOf]
    omega
  · intro j p hj
    have h1 := find_pageObjsNI_page cfg z d.pages 0 j p hj
    have h2 := find_pageObjsNI_content cfg z d.pages 0 j p hj
    simp only [findId, Nat.zero_add] at h1 h2
    constructor
    · have e : (2 == pageId j) = false := by simp [pageId]; omega
      simp [findId, List.find?_append, h1, e]
    · have e : (2 == contentId j) = false := by simp [contentId]; omega
      simp [findId, List.find?_append, h2, e]

/-! ## the page tree seen through `Model/C18` -/

theorem c18Graph_get (g : Graph) (n : Nat) :
    (c18Graph g).get n = (match g.get n with
      | some r => c18Obj r
      | none => .null) := by
  induction g with
  | nil => rfl
  | cons e r ih =>
    simp only [c18Graph, C18.Graph.get, Graph.get, List.map_cons, List.find?_cons] at ih ⊢
    by_cases h : e.1 == n
    · simp [h]
    · simp only [h]; exact ih

theorem refsOf_kids (n : Nat) : ∀ i,
    C18.refsOf (elemsOf ((kidsOf i n).map rb)) = (List.range' i n).map pageId := by
  induction n with
  | zero => intro i; rfl
  | succ n ih => intro i; simp [kidsOf, elemsOf, rb_ref, C18.refsOf, ih, List.range'_succ]

def pagesKvs (n : Nat) : List (Bytes × Obj) :=
  [(key "Type", nm "Pages"), (key "Count", .int (Int.ofNat n)), (key "Kids", .arr (kidsOf 0 n))]

theorem pagesDict_eq (n : Nat) : pagesDict n = .dict (pagesKvs n) := rfl

/-- the `/Pages` node as the reader's page-tree code sees it -/
theorem c18Dict_pages (n : Nat) :
    (c18Dict (rb (pagesDict n))).ty = .pages ∧
    C18.resolveKids g' (c18Dict (rb (pagesDict n))).kids = (List.range n).map pageId := by
  have nd : (keysOf (pagesKvs n)).Nodup := by simp [pagesKvs, keysOf, key, ascii]
  have hd := dget_rb_dict (pagesKvs n) nd
  have h1 : dget (rb (Obj.dict (pagesKvs n))) "Type" = some (.name (ascii "Pages")) := by
    rw [hd]; simp [pagesKvs, dictGet, key, ascii, nm, rb_name]
  have h2 : dget (rb (Obj.dict (pagesKvs n))) "Kids" = some (.arr ((kidsOf 0 n).map rb)) := by
    rw [hd]; simp [pagesKvs, dictGet, key, ascii, rb_arr]
  constructor
  · simp [c18Dict, c18Ty, pagesDict_eq, h1, ascii]
  · simp [c18Dict, c18Kids, pagesDict_eq, h2, C18.resolveKids, refsOf_kids, List.range_eq_range']

/-- a written page object is a leaf for `flatten_page_tree` -/
theorem classify_page (g : Graph) (i : Nat) (p : PageD)
    (hp : g.get (pageId i) = some (.plain (rb (pageDict i p [])))) :
    C18.classify (c18Graph g) (pageId i) = .leaf := by
  obtain ⟨kvs', hk⟩ := rb_dict_isDict (pageKvs i p)
  have hd : dget (Obj.dict kvs') "Type" = some (nm "Page") := by
    rw [← hk, dget_rb_dict _ (pageKvs_nodup i p), (pageKvs_get i p).2.2.2.1]; rfl
  simp [C18.classify, c18Graph_get, hp, pageDict_noImages, hk, c18Obj, C18.Obj.asDict,
    C18.classifyDict, c18Dict, c18Ty, hd, nm, ascii]

end OxiVerif.C02
