import OxiVerif.Lemmas.C09Fuel
import OxiVerif.Model.C09Stream
import OxiVerif.Spec.C09Stream
/-!
# Lemmas for C09 — stream objects: the payload is read back for every byte string
-/
namespace OxiVerif.C09
open OxiVerif.Spec.Syntax (Obj)
open OxiVerif.Model
open OxiVerif.Model.Lexer (Token)
open OxiVerif.Spec

/-! ## library side -/

theorem lib_next_stream (X : List Nat) :
    Lexer.next (10 :: (Model.Stream.kwStream ++ 10 :: X)) = .ok (.stream, 10 :: X) := by
  have := readWord_of_all Model.Stream.kwStream (10 :: X) (by decide) (by simp [libEnds, Lexer.isBreak, Lexer.isAsciiWs])
  simp only [Model.Stream.kwStream, List.cons_append, List.nil_append] at this
  simp [Lexer.next, Lexer.nextToken, Model.Stream.kwStream, Lexer.isAsciiWs, Lexer.isDigit, Lexer.isAlpha,
    this, Lexer.processKeyword]

theorem lib_next_endstream (rest : List Nat) (hr : libEnds rest = true) :
    Lexer.next (Model.Stream.kwEndstream ++ rest) = .ok (.endStream, rest) := by
  have := readWord_of_all Model.Stream.kwEndstream rest (by decide) hr
  simp only [Model.Stream.kwEndstream, List.cons_append, List.nil_append] at this
  simp [Lexer.next, Lexer.nextToken, Model.Stream.kwEndstream, Lexer.isAsciiWs, Lexer.isDigit, Lexer.isAlpha,
    this, Lexer.processKeyword]

/-- `parse_stream_data` on what the writer emits after the keyword `stream`: **every** payload —
    whatever its first and last bytes, whatever keywords it contains — comes back unchanged -/
theorem lib_streamData_payload (kvs : List (List Nat × Obj)) (data rest : List Nat)
    (hlen : Model.Stream.lookupLast Model.Stream.lengthKey kvs = some (.int (Int.ofNat data.length)))
    (hr : libEnds rest = true) :
    Model.Stream.streamData kvs (10 :: (data ++ 10 :: (Model.Stream.kwEndstream ++ rest))) = .ok (data, rest) := by
  unfold Model.Stream.streamData
  rw [hlen]
  have h1 : (Int.ofNat data.length == -1) = false := by
    simp
  have hsk : Model.Stream.skipWs (10 :: (Model.Stream.kwEndstream ++ rest)) = Model.Stream.kwEndstream ++ rest := by
    simp [Model.Stream.skipWs, Model.Stream.kwEndstream, Lexer.isAsciiWs]
  simp only [h1, Model.Stream.readNewline, Bool.false_eq_true, if_false, Int.toNat_natCast, Int.ofNat_eq_natCast]
  simp [hsk, lib_next_endstream rest hr]
  rw [if_neg (by omega), if_neg (by omega)]

/-! ## independent reader -/

theorem spec_readPayload (data rest : List Nat) (hr : specEnds rest = true) :
    Spec.Stream.readPayload data.length (10 :: (data ++ 10 :: (Spec.Stream.kwEndstream ++ rest)))
      = some (data, rest) := by
  have ht := takeRegular_of_all Spec.Stream.kwEndstream rest (by decide) hr
  simp [Spec.Stream.readPayload, Spec.Stream.eolAfterStream, Spec.Stream.optEol, ht]

/-! ## the whole stream object -/

/-- the entries of the dictionary as the writer emits them: `/Length` forced, sorted by key -/
def streamEntries (kvs : List (List Nat × Obj)) (n : Nat) : List (List Nat × Obj) :=
  sortKV (sortDictsKVs (Model.Stream.setLength kvs n))

theorem serStream_eq (kvs : List (List Nat × Obj)) (data rest : List Nat) :
    Model.Stream.serStream kvs data ++ rest =
      60 :: 60 :: (serEntries (streamEntries kvs data.length) ++
        10 :: 62 :: 62 :: (Model.Stream.streamTail data ++ rest)) := by
  simp [Model.Stream.serStream, ser, sortDicts, serRaw, streamEntries]

/-- `PdfObject::parse` on a written stream object: the dictionary entries (as for any written
    dictionary) and, for **every** byte string, exactly the payload -/
theorem lib_stream_roundtrip (kvs : List (List Nat × Obj)) (data rest : List Nat) (fuel : Nat)
    (hs : SafeLibEntries (streamEntries kvs data.length)
      (10 :: 62 :: 62 :: (Model.Stream.streamTail data ++ rest)) = true)
    (hlen : Model.Stream.lookupLast Model.Stream.lengthKey (readBackLibKVs (streamEntries kvs data.length))
      = some (.int (Int.ofNat data.length)))
    (hr : libEnds rest = true) (hf : needDict (streamEntries kvs data.length) + 1 ≤ fuel) :
    Model.Stream.parseStreamObj fuel (Model.Stream.serStream kvs data ++ rest)
      = .ok (some (readBackLibKVs (streamEntries kvs data.length), data, rest)) := by
  obtain ⟨f, rfl⟩ : ∃ f, fuel = f + 1 := ⟨fuel - 1, by omega⟩
  have hd := lib_entries_roundtrip (streamEntries kvs data.length)
    (Model.Stream.streamTail data ++ rest) (f + 1) hs (by omega)
  have ht : Model.Stream.streamTail data ++ rest
      = 10 :: (Model.Stream.kwStream ++ 10 :: (data ++ 10 :: (Model.Stream.kwEndstream ++ rest))) := by
    simp [Model.Stream.streamTail]
  rw [serStream_eq]
  unfold Model.Stream.parseStreamObj
  rw [lib_next_dictStart]
  simp only [hd]
  rw [ht, Model.Stream.afterDictStream, lib_next_stream]
  simp only [lib_streamData_payload _ data rest hlen hr]

/-- the independent reader on a written stream object -/
theorem spec_stream_roundtrip (kvs : List (List Nat × Obj)) (data rest : List Nat)
    (hs : SafeSpec (.dict (streamEntries kvs data.length)) (Model.Stream.streamTail data ++ rest) = true)
    (hlen : Spec.Stream.lookupUnique Spec.Stream.lengthKey (readBackKVs (streamEntries kvs data.length))
      = some (.int (Int.ofNat data.length)))
    (hr : specEnds rest = true) :
    Spec.Stream.readStream (Model.Stream.serStream kvs data ++ rest)
      = some (readBackKVs (streamEntries kvs data.length), data, rest) := by
  have hd := spec_read_roundtrip (.dict (streamEntries kvs data.length))
    (Model.Stream.streamTail data ++ rest) hs
  have he : Model.Stream.serStream kvs data ++ rest
      = serRaw (.dict (streamEntries kvs data.length)) ++ (Model.Stream.streamTail data ++ rest) := by
    simp [Model.Stream.serStream, ser, sortDicts, streamEntries]
  have ht : Model.Stream.streamTail data ++ rest
      = 10 :: (Spec.Stream.kwStream ++ 10 :: (data ++ 10 :: (Spec.Stream.kwEndstream ++ rest))) := by
    simp [Model.Stream.streamTail, Model.Stream.kwStream, Model.Stream.kwEndstream,
      Spec.Stream.kwStream, Spec.Stream.kwEndstream]
  have hk : Syntax.takeRegular (Syntax.skip false
      (10 :: (Spec.Stream.kwStream ++ 10 :: (data ++ 10 :: (Spec.Stream.kwEndstream ++ rest)))))
      = (Spec.Stream.kwStream, 10 :: (data ++ 10 :: (Spec.Stream.kwEndstream ++ rest))) := by
    have := takeRegular_of_all Spec.Stream.kwStream
      (10 :: (data ++ 10 :: (Spec.Stream.kwEndstream ++ rest))) (by decide)
      (by simp [specEnds, Syntax.isRegular, Syntax.isWhite])
    simp only [Spec.Stream.kwStream, List.cons_append, List.nil_append] at this
    simp [Syntax.skip, Syntax.isWhite, Spec.Stream.kwStream, this]
  unfold Spec.Stream.readStream
  rw [he, hd]
  simp only [readBack]
  rw [ht, hk]
  simp [hlen, spec_readPayload data rest hr]

end OxiVerif.C09
