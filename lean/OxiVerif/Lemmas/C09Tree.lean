import OxiVerif.Lemmas.C09
/-!
# Lemmas for C09 — the tree-level round trip through the independent reader

Structural (mutual) induction over the object tree; the fuel of `Spec.Syntax.readObj` only has
to be at least `need v` (the number of nodes, counted generously).
-/
namespace OxiVerif.C09
open OxiVerif.Spec.Syntax (Obj)
open OxiVerif.Model
open OxiVerif.Spec

mutual
/-- fuel sufficient to read a written value back -/
def need : Obj → Nat
  | .arr xs => 1 + needList xs
  | .dict kvs => 1 + needKVs kvs
  | _ => 1
def needList : List Obj → Nat
  | [] => 1
  | x :: xs => 1 + need x + needList xs
def needKVs : List (List Nat × Obj) → Nat
  | [] => 1
  | (_, v) :: rest => 1 + need v + needKVs rest
end

theorem need_pos (v : Obj) : 1 ≤ need v := by
  cases v <;> simp [need] <;> omega

theorem readObj_skip_space (fuel : Nat) (inp : List Nat) :
    Syntax.readObj fuel (32 :: inp) = Syntax.readObj fuel inp := by
  cases fuel with
  | zero => simp [Syntax.readObj]
  | succ f =>
    rw [Syntax.readObj, Syntax.readObj]
    have : Syntax.skip false (32 :: inp) = Syntax.skip false inp := by
      simp [Syntax.skip, Syntax.isWhite]
    rw [this]

theorem readArr_skip_space (fuel : Nat) (inp : List Nat) :
    Syntax.readArr fuel (32 :: inp) = Syntax.readArr fuel inp := by
  cases fuel with
  | zero => simp [Syntax.readArr]
  | succ f =>
    rw [Syntax.readArr, Syntax.readArr]
    have : Syntax.skip false (32 :: inp) = Syntax.skip false inp := by
      simp [Syntax.skip, Syntax.isWhite]
    rw [this]

mutual
theorem spec_obj_roundtrip : ∀ (v : Obj) (rest : List Nat) (fuel : Nat),
    SafeSpec v rest = true → need v ≤ fuel →
    Syntax.readObj fuel (serRaw v ++ rest) = some (readBack v, rest)
  | .null, rest, fuel, hs, hf => by
    obtain ⟨f, rfl⟩ : ∃ f, fuel = f + 1 := ⟨fuel - 1, by simp [need] at hf; omega⟩
    exact spec_read_null f rest (by simpa [SafeSpec] using hs)
  | .bool b, rest, fuel, hs, hf => by
    obtain ⟨f, rfl⟩ : ∃ f, fuel = f + 1 := ⟨fuel - 1, by simp [need] at hf; omega⟩
    have hr : specEnds rest = true := by simpa [SafeSpec] using hs
    cases b with
    | true => exact spec_read_true f rest hr
    | false => exact spec_read_false f rest hr
  | .int i, rest, fuel, hs, hf => by
    obtain ⟨f, rfl⟩ : ∃ f, fuel = f + 1 := ⟨fuel - 1, by simp [need] at hf; omega⟩
    simp [SafeSpec] at hs
    exact spec_read_int f i rest hs.1 hs.2
  | .real t, rest, fuel, hs, hf => by
    obtain ⟨f, rfl⟩ : ∃ f, fuel = f + 1 := ⟨fuel - 1, by simp [need] at hf; omega⟩
    simp [SafeSpec] at hs
    exact spec_read_real f t rest hs.1.1 hs.1.2 hs.2
  | .str s, rest, fuel, hs, hf => by
    obtain ⟨f, rfl⟩ : ∃ f, fuel = f + 1 := ⟨fuel - 1, by simp [need] at hf; omega⟩
    have := spec_readLit_escape s rest
    show Syntax.readObj (f + 1) (40 :: (escapePdfString s ++ [41]) ++ rest) = _
    rw [Syntax.readObj]
    simp [Syntax.skip, Syntax.isWhite, this, readBack]
  | .hexstr s, rest, fuel, hs, hf => by
    obtain ⟨f, rfl⟩ : ∃ f, fuel = f + 1 := ⟨fuel - 1, by simp [need] at hf; omega⟩
    have hb : allB (fun b => b < 256) s = true := by simpa [SafeSpec] using hs
    have := spec_readHex s rest hb
    show Syntax.readObj (f + 1) (60 :: (hexBytesUpper s ++ [62]) ++ rest) = _
    rw [Syntax.readObj]
    cases s with
    | nil => simp [Syntax.skip, Syntax.isWhite, hexBytesUpper, Syntax.readHex, readBack]
    | cons x xs =>
      have hne : hexDigitUpper (x / 16 % 16) ≠ 60 := by
        unfold hexDigitUpper; split <;> omega
      simp [hexBytesUpper] at this
      simp [Syntax.skip, Syntax.isWhite, hexBytesUpper, hne, this, readBack]
  | .name n, rest, fuel, hs, hf => by
    obtain ⟨f, rfl⟩ : ∃ f, fuel = f + 1 := ⟨fuel - 1, by simp [need] at hf; omega⟩
    simp [SafeSpec] at hs
    have := spec_readName_escName n rest hs.1 hs.2
    show Syntax.readObj (f + 1) (47 :: escapeName n ++ rest) = _
    rw [Syntax.readObj]
    simp [Syntax.skip, Syntax.isWhite, this, readBack]
  | .ref n g, rest, fuel, hs, hf => by
    obtain ⟨f, rfl⟩ : ∃ f, fuel = f + 1 := ⟨fuel - 1, by simp [need] at hf; omega⟩
    have hr : specEnds rest = true := by simpa [SafeSpec] using hs
    exact spec_read_ref f n g rest hr
  | .arr xs, rest, fuel, hs, hf => by
    obtain ⟨f, rfl⟩ : ∃ f, fuel = f + 1 := ⟨fuel - 1, by simp [need] at hf; omega⟩
    have hsl : SafeSpecElems true xs (93 :: rest) = true := by simpa [SafeSpec] using hs
    have hfl : needList xs ≤ f := by simp [need] at hf; omega
    have := spec_elems_roundtrip xs true rest f hsl hfl
    show Syntax.readObj (f + 1) (91 :: (serElems true xs ++ [93]) ++ rest) = _
    rw [Syntax.readObj]
    simp [Syntax.skip, Syntax.isWhite, this, readBack]
  | .dict kvs, rest, fuel, hs, hf => by
    obtain ⟨f, rfl⟩ : ∃ f, fuel = f + 1 := ⟨fuel - 1, by simp [need] at hf; omega⟩
    have hsl : SafeSpecEntries kvs (10 :: 62 :: 62 :: rest) = true := by simpa [SafeSpec] using hs
    have hfl : needKVs kvs ≤ f := by simp [need] at hf; omega
    have := spec_entries_roundtrip kvs rest f hsl hfl
    show Syntax.readObj (f + 1) (60 :: 60 :: (serEntries kvs ++ [10, 62, 62]) ++ rest) = _
    rw [Syntax.readObj]
    simp [Syntax.skip, Syntax.isWhite, this, readBack]

theorem spec_elems_roundtrip : ∀ (xs : List Obj) (first : Bool) (rest : List Nat) (fuel : Nat),
    SafeSpecElems first xs (93 :: rest) = true → needList xs ≤ fuel →
    Syntax.readArr fuel (serElems first xs ++ 93 :: rest) = some (readBackList xs, rest)
  | [], first, rest, fuel, _, hf => by
    obtain ⟨f, rfl⟩ : ∃ f, fuel = f + 1 := ⟨fuel - 1, by simp [needList] at hf; omega⟩
    rw [Syntax.readArr]
    simp [serElems, Syntax.skip, Syntax.isWhite, readBackList]
  | x :: xs, first, rest, fuel, hs, hf => by
    obtain ⟨f, rfl⟩ : ∃ f, fuel = f + 1 := ⟨fuel - 1, by simp [needList] at hf; omega⟩
    simp [SafeSpecElems] at hs
    have hfx : need x ≤ f := by simp [needList] at hf; omega
    have hfl : needList xs ≤ f := by simp [needList] at hf; omega
    have ihx := spec_obj_roundtrip x (serElems false xs ++ 93 :: rest) f hs.1 hfx
    have ihl := spec_elems_roundtrip xs false rest f hs.2 hfl
    obtain ⟨b, r, hbr, hw, h37, h93, _⟩ := serRaw_head x _ hs.1
    -- drop the separator, if any
    have e : Syntax.readArr (f + 1) (serElems first (x :: xs) ++ 93 :: rest)
        = Syntax.readArr (f + 1) (serRaw x ++ (serElems false xs ++ 93 :: rest)) := by
      cases first with
      | true => simp [serElems]
      | false =>
        have : serElems false (x :: xs) ++ 93 :: rest
            = 32 :: (serRaw x ++ (serElems false xs ++ 93 :: rest)) := by simp [serElems]
        rw [this, readArr_skip_space]
    rw [e, Syntax.readArr]
    rw [hbr] at ihx ⊢
    simp only [List.cons_append] at ihx ⊢
    rw [skip_id b _ hw h37]
    simp [h93, ihx, ihl, readBackList]

theorem spec_entries_roundtrip : ∀ (kvs : List (List Nat × Obj)) (rest : List Nat) (fuel : Nat),
    SafeSpecEntries kvs (10 :: 62 :: 62 :: rest) = true → needKVs kvs ≤ fuel →
    Syntax.readDict fuel (serEntries kvs ++ 10 :: 62 :: 62 :: rest) = some (readBackKVs kvs, rest)
  | [], rest, fuel, _, hf => by
    obtain ⟨f, rfl⟩ : ∃ f, fuel = f + 1 := ⟨fuel - 1, by simp [needKVs] at hf; omega⟩
    rw [Syntax.readDict]
    simp [serEntries, Syntax.skip, Syntax.isWhite, readBackKVs]
  | (k, v) :: kvs, rest, fuel, hs, hf => by
    obtain ⟨f, rfl⟩ : ∃ f, fuel = f + 1 := ⟨fuel - 1, by simp [needKVs] at hf; omega⟩
    simp [SafeSpecEntries] at hs
    have hfv : need v ≤ f := by simp [needKVs] at hf; omega
    have hfl : needKVs kvs ≤ f := by simp [needKVs] at hf; omega
    have ihv := spec_obj_roundtrip v (serEntries kvs ++ 10 :: 62 :: 62 :: rest) f hs.1.2 hfv
    have ihl := spec_entries_roundtrip kvs rest f hs.2 hfl
    have hname := spec_readName_escName k (32 :: (serRaw v ++ (serEntries kvs ++ 10 :: 62 :: 62 :: rest)))
      hs.1.1 (by simp [specEnds, Syntax.isRegular, Syntax.isWhite])
    have e : serEntries ((k, v) :: kvs) ++ 10 :: 62 :: 62 :: rest
        = 10 :: 47 :: (escapeName k ++ 32 :: (serRaw v ++ (serEntries kvs ++ 10 :: 62 :: 62 :: rest))) := by
      simp [serEntries]
    rw [e, Syntax.readDict]
    simp [Syntax.skip, Syntax.isWhite, hname, readObj_skip_space, ihv, ihl, readBackKVs]
end

end OxiVerif.C09
