import OxiVerif.Spec.C24Png
import OxiVerif.Model.C24
/-!
Helper lemmas for C24 (no property statements here).
-/
namespace OxiVerif.C24
open OxiVerif.Spec.C24Png (filterGo filterRow filterRows predictor paeth)

theorem paeth_eq (a b c : Nat) : paethPredictor a b c = paeth a b c := rfl

/-- the value the decoder adds is the encoder's predictor modulo 256 -/
theorem predicted_mod (ft a b c : Nat) :
    predicted ft a b c % 256 = predictor ft a b c % 256 := by
  unfold predicted predictor
  split <;> simp [paeth_eq]

theorem byte_roundtrip (x p q : Nat) (hx : x < 256) (hpq : p % 256 = q % 256) :
    ((x + 256 - q % 256) % 256 + p) % 256 = x := by
  omega

/-- one row, any state of the two look-behind buffers -/
theorem unfilterGo_filterGo (ft bpp : Nat) :
    ∀ (cur prev doneRev prevRev : List Nat), (∀ x ∈ cur, x < 256) →
      unfilterGo ft bpp (filterGo ft bpp cur prev doneRev prevRev) prev doneRev prevRev = cur := by
  intro cur
  induction cur with
  | nil => intro prev doneRev prevRev _; simp [filterGo, unfilterGo]
  | cons x xs ih =>
    intro prev doneRev prevRev hb
    have hx : x < 256 := hb x (by simp)
    have hxs : ∀ y ∈ xs, y < 256 := fun y hy => hb y (by simp [hy])
    simp only [filterGo, unfilterGo]
    have hv : ((x + 256 - predictor ft (doneRev.getD (bpp - 1) 0) (prev.headD 0)
                (prevRev.getD (bpp - 1) 0) % 256) % 256 +
              predicted ft (doneRev.getD (bpp - 1) 0) (prev.headD 0)
                (prevRev.getD (bpp - 1) 0)) % 256 = x :=
      byte_roundtrip x _ _ hx (predicted_mod ft _ _ _)
    rw [hv, ih prev.tail (x :: doneRev) (prev.headD 0 :: prevRev) hxs]

theorem filterGo_length (ft bpp : Nat) :
    ∀ (cur prev doneRev prevRev : List Nat),
      (filterGo ft bpp cur prev doneRev prevRev).length = cur.length := by
  intro cur
  induction cur with
  | nil => intros; simp [filterGo]
  | cons x xs ih => intros; simp [filterGo, ih]

theorem filterRow_length (ft bpp : Nat) (prev cur : List Nat) :
    (filterRow ft bpp prev cur).length = cur.length := filterGo_length ft bpp cur prev [] []

/-- `splitChunks` on a concatenation of complete groups -/
theorem splitChunks_flatten (n keep : Nat) (hn : 0 < n) :
    ∀ (px : List (List Nat)) (fuel : Nat), (∀ p ∈ px, p.length = n) → px.length ≤ fuel →
      splitChunks n keep fuel px.flatten =
        ((px.map (List.take keep)).flatten, (px.map (List.drop keep)).flatten) := by
  intro px
  induction px with
  | nil =>
    intro fuel _ _
    cases fuel with
    | zero => simp [splitChunks]
    | succ f => simp [splitChunks]; omega
  | cons p ps ih =>
    intro fuel hp hf
    cases fuel with
    | zero => simp at hf
    | succ f =>
      have hpl : p.length = n := hp p (by simp)
      have hps : ∀ q ∈ ps, q.length = n := fun q hq => hp q (by simp [hq])
      have hlen : ¬ ((p :: ps).flatten.length < n) := by
        simp [List.flatten_cons, hpl]
      simp only [splitChunks, hlen, if_false]
      have ht : (p :: ps).flatten.take n = p := by
        simp [List.flatten_cons, List.take_append, hpl]
      have hd : (p :: ps).flatten.drop n = ps.flatten := by
        simp [List.flatten_cons, List.drop_append, hpl]
      rw [ht, hd, ih f hps (by simpa using hf)]
      simp

theorem flatten_length_const (n : Nat) (px : List (List Nat)) (h : ∀ p ∈ px, p.length = n) :
    px.flatten.length = px.length * n := by
  induction px with
  | nil => simp
  | cons p ps ih =>
    have := ih (fun q hq => h q (by simp [hq]))
    simp [List.flatten_cons, h p (by simp), this, Nat.add_mul]
    omega

end OxiVerif.C24

/-! ### the chunk walk on a well-formed chunk -/
namespace OxiVerif.C24
open OxiVerif.Spec.C24Png (chunk be32 tagOf crc32)

theorem be32At_cons (n : Nat) (hn : n < 4294967296) (xs : List Nat) :
    be32At (n / 16777216 % 256 :: n / 65536 % 256 :: n / 256 % 256 :: n % 256 :: xs) 0 = n := by
  simp [be32At]
  omega

/-- one iteration of the `decode` loop on `length ‖ tag ‖ data ‖ crc ‖ rest` -/
theorem walk_step (fuel t0 t1 t2 t3 c0 c1 c2 c3 : Nat) (data rest : List Nat) (st : Decoder)
    (hlen : data.length < 4294967296) :
    walk (fuel + 1)
      (data.length / 16777216 % 256 :: data.length / 65536 % 256 :: data.length / 256 % 256 ::
        data.length % 256 :: t0 :: t1 :: t2 :: t3 :: (data ++ c0 :: c1 :: c2 :: c3 :: rest)) st =
      (if [t0, t1, t2, t3] = tagIHDR then
          match processIhdr st data with
          | .ok st' => walk fuel rest st'
          | .err e => .err e
          | .panic => .panic
        else if [t0, t1, t2, t3] = tagPLTE then
          match processPlte st data with
          | .ok st' => walk fuel rest st'
          | .err e => .err e
          | .panic => .panic
        else if [t0, t1, t2, t3] = tagIDAT then walk fuel rest { st with idat := st.idat ++ [data] }
        else if [t0, t1, t2, t3] = tagTRNS then walk fuel rest (processTrns st data)
        else if [t0, t1, t2, t3] = tagIEND then .ok st
        else walk fuel rest st) := by
  show walkBody (walk fuel) _ st = _
  unfold walkBody
  have h1 : be32At (data.length / 16777216 % 256 :: data.length / 65536 % 256 ::
      data.length / 256 % 256 :: data.length % 256 :: t0 :: t1 :: t2 :: t3 ::
        (data ++ c0 :: c1 :: c2 :: c3 :: rest)) 0 = data.length := be32At_cons _ hlen _
  simp only [h1, List.isEmpty_cons, Bool.false_eq_true, if_false, List.length_cons,
    List.drop_succ_cons, List.drop_zero, List.take_succ_cons, List.take_zero,
    List.length_append]
  rw [if_neg (by omega), if_neg (by omega)]
  have h2 : (data ++ c0 :: c1 :: c2 :: c3 :: rest).take data.length = data := by
    simp
  have h3 : (data ++ c0 :: c1 :: c2 :: c3 :: rest).drop (data.length + 4) = rest := by
    rw [← List.drop_drop]
    simp
  rw [h2, h3]
  rfl

theorem chunk_unfold (tag : String) (data rest : List Nat) :
    chunk tag data ++ rest =
      be32 data.length ++ (tagOf tag ++ (data ++ (be32 (crc32 (tagOf tag ++ data)) ++ rest))) := by
  simp [chunk, List.append_assoc]

theorem walk_IHDR (fuel : Nat) (data rest : List Nat) (st : Decoder) (hlen : data.length < 4294967296) :
    walk (fuel + 1) (chunk "IHDR" data ++ rest) st =
      (match processIhdr st data with
       | .ok st' => walk fuel rest st'
       | .err e => .err e
       | .panic => .panic) := by
  rw [chunk_unfold]
  have ht : tagOf "IHDR" = [73, 72, 68, 82] := by decide
  rw [ht]
  simp only [be32, List.cons_append, List.nil_append]
  rw [walk_step fuel _ _ _ _ _ _ _ _ data rest st hlen]
  simp [tagIHDR]

theorem walk_IDAT (fuel : Nat) (data rest : List Nat) (st : Decoder) (hlen : data.length < 4294967296) :
    walk (fuel + 1) (chunk "IDAT" data ++ rest) st =
      walk fuel rest { st with idat := st.idat ++ [data] } := by
  rw [chunk_unfold]
  have ht : tagOf "IDAT" = [73, 68, 65, 84] := by decide
  rw [ht]
  simp only [be32, List.cons_append, List.nil_append]
  rw [walk_step fuel _ _ _ _ _ _ _ _ data rest st hlen]
  simp [tagIHDR, tagPLTE, tagIDAT]

theorem walk_PLTE (fuel : Nat) (data rest : List Nat) (st : Decoder) (hlen : data.length < 4294967296) :
    walk (fuel + 1) (chunk "PLTE" data ++ rest) st =
      (match processPlte st data with
       | .ok st' => walk fuel rest st'
       | .err e => .err e
       | .panic => .panic) := by
  rw [chunk_unfold]
  have ht : tagOf "PLTE" = [80, 76, 84, 69] := by decide
  rw [ht]
  simp only [be32, List.cons_append, List.nil_append]
  rw [walk_step fuel _ _ _ _ _ _ _ _ data rest st hlen]
  simp [tagIHDR, tagPLTE]

theorem walk_tRNS (fuel : Nat) (data rest : List Nat) (st : Decoder) (hlen : data.length < 4294967296) :
    walk (fuel + 1) (chunk "tRNS" data ++ rest) st = walk fuel rest (processTrns st data) := by
  rw [chunk_unfold]
  have ht : tagOf "tRNS" = [116, 82, 78, 83] := by decide
  rw [ht]
  simp only [be32, List.cons_append, List.nil_append]
  rw [walk_step fuel _ _ _ _ _ _ _ _ data rest st hlen]
  simp [tagIHDR, tagPLTE, tagIDAT, tagTRNS]

theorem walk_IEND (fuel : Nat) (rest : List Nat) (st : Decoder) :
    walk (fuel + 1) (chunk "IEND" [] ++ rest) st = .ok st := by
  rw [chunk_unfold]
  have ht : tagOf "IEND" = [73, 69, 78, 68] := by decide
  rw [ht]
  simp only [be32, List.cons_append, List.nil_append]
  have := walk_step fuel 73 69 78 68 (crc32 [73, 69, 78, 68] / 16777216 % 256)
    (crc32 [73, 69, 78, 68] / 65536 % 256) (crc32 [73, 69, 78, 68] / 256 % 256)
    (crc32 [73, 69, 78, 68] % 256) [] rest st (by simp)
  simpa [tagIHDR, tagPLTE, tagIDAT, tagTRNS, tagIEND] using this

/-- any number of IDAT chunks: the payloads are collected in order -/
theorem walk_IDATs (zs : List (List Nat)) :
    ∀ (fuel : Nat) (rest : List Nat) (st : Decoder), (∀ z ∈ zs, z.length < 4294967296) →
      walk (fuel + zs.length) ((zs.map (chunk "IDAT")).flatten ++ rest) st =
        walk fuel rest { st with idat := st.idat ++ zs } := by
  induction zs with
  | nil => intro fuel rest st _; simp
  | cons z zs ih =>
    intro fuel rest st h
    have hz := h z (by simp)
    simp only [List.map_cons, List.flatten_cons, List.length_cons, List.append_assoc]
    rw [show fuel + (zs.length + 1) = (fuel + zs.length) + 1 by omega, walk_IDAT _ _ _ _ hz,
      ih fuel rest _ (fun y hy => h y (by simp [hy]))]
    simp [List.append_assoc]


theorem idat_chunks_length (zs : List (List Nat)) :
    zs.length ≤ ((zs.map (chunk "IDAT")).flatten).length := by
  induction zs with
  | nil => simp
  | cons z zs ih =>
    simp only [List.map_cons, List.flatten_cons, List.length_append, List.length_cons]
    have : 1 ≤ (chunk "IDAT" z).length := by simp [chunk, be32]
    omega

/-- `process_ihdr` on a 13-byte IHDR with compression/filter/interlace 0 -/
theorem processIhdr_ok (st : Decoder) (w h depth ctb : Nat) (ct : ColorType)
    (hw : w < 4294967296) (hh : h < 4294967296) (hct : ColorType.fromByte ctb = some ct)
    (hda : depthAllowed ct depth = true) :
    processIhdr st (be32 w ++ be32 h ++ [depth, ctb, 0, 0, 0]) =
      .ok { st with width := w, height := h, bitDepth := depth, colorType := ct, hasIhdr := true } := by
  unfold processIhdr
  simp only [be32, List.cons_append, List.nil_append]
  simp [hct, be32At, hda]
  constructor <;> omega

end OxiVerif.C24

/-! ### packed samples: `read_sample` against the bit-level reading of PNG §7.2 -/
namespace OxiVerif.C24
open OxiVerif.Spec.C24Png (bitsOfByte bitsOf natOfBits samplesOfRow)

/-- one byte: the shift-and-mask of `read_sample` is the MSB-first bit field (finite table:
256 byte values × 4 depths × 8 bit offsets) -/
theorem byte_field : ∀ b < 256, ∀ d ∈ [1, 2, 4, 8], ∀ r < 8, r % d = 0 →
    natOfBits (((bitsOfByte b).drop r).take d) = b / 2 ^ (8 - d - r) % 2 ^ d := by
  decide +kernel

theorem byte_bits : ∀ b < 256, natOfBits (bitsOfByte b) = b := by decide +kernel

theorem bitsOfByte_length (b : Nat) : (bitsOfByte b).length = 8 := rfl

theorem bitsOf_cons (b : Nat) (bs : List Nat) : bitsOf (b :: bs) = bitsOfByte b ++ bitsOf bs := by
  simp [bitsOf]

theorem bitsOf_length (bs : List Nat) : (bitsOf bs).length = 8 * bs.length := by
  induction bs with
  | nil => rfl
  | cons b bs ih => rw [bitsOf_cons, List.length_append, ih, bitsOfByte_length, List.length_cons]; omega

/-- dropping whole bytes -/
theorem bitsOf_drop (q : Nat) : ∀ bs : List Nat, (bitsOf bs).drop (8 * q) = bitsOf (bs.drop q) := by
  induction q with
  | zero => intro bs; simp
  | succ q ih =>
    intro bs
    cases bs with
    | nil => simp [bitsOf]
    | cons b bs =>
      rw [bitsOf_cons, show 8 * (q + 1) = 8 + 8 * q by omega, ← List.drop_drop,
        List.drop_append_of_le_length (by simp [bitsOfByte_length])]
      have h8 : (bitsOfByte b).drop 8 = [] := List.drop_of_length_le (by simp [bitsOfByte_length])
      rw [h8, List.nil_append, ih, List.drop_succ_cons]

theorem natOfBits_foldl (bs : List Bool) (n : Nat) :
    bs.foldl (fun n b => 2 * n + (if b then 1 else 0)) n = n * 2 ^ bs.length + natOfBits bs := by
  induction bs generalizing n with
  | nil => simp [natOfBits]
  | cons b bs ih =>
    simp only [List.foldl_cons, natOfBits, List.length_cons]
    rw [ih, ih (2 * 0 + _)]
    rw [Nat.pow_succ]
    simp only [Nat.mul_zero, Nat.zero_add, Nat.add_mul, Nat.add_assoc]
    congr 1
    rw [Nat.mul_comm 2 n, Nat.mul_assoc, Nat.mul_comm 2]

theorem natOfBits_append (xs ys : List Bool) :
    natOfBits (xs ++ ys) = natOfBits xs * 2 ^ ys.length + natOfBits ys := by
  unfold natOfBits
  rw [List.foldl_append, natOfBits_foldl]
  rfl

/-- `read_sample` computes the MSB-first bit field the PNG specification describes (§7.2) -/
theorem readSample_spec (row : List Nat) (i d : Nat) (hd : d ∈ [1, 2, 4, 8, 16])
    (hb : ∀ x ∈ row, x < 256) (hi : (i + 1) * d ≤ 8 * row.length) :
    readSample row i d = natOfBits (((bitsOf row).drop (i * d)).take d) := by
  unfold readSample
  by_cases h16 : d = 16
  · subst h16
    simp only [if_true]
    have hlen : 2 * i + 1 < row.length := by omega
    rw [show i * 16 = 8 * (2 * i) by omega, bitsOf_drop]
    obtain ⟨b0, b1, rest, hrow⟩ : ∃ b0 b1 rest, row.drop (2 * i) = b0 :: b1 :: rest := by
      match h : row.drop (2 * i) with
      | [] => have := congrArg List.length h; simp at this; omega
      | [_] => have := congrArg List.length h; simp at this; omega
      | b0 :: b1 :: rest => exact ⟨b0, b1, rest, rfl⟩
    have h0 : row.getD (2 * i) 0 = b0 := by
      have := congrArg (fun l => l.getD 0 0) hrow
      simpa [List.getD_eq_getElem?_getD] using this
    have h1 : row.getD (2 * i + 1) 0 = b1 := by
      have := congrArg (fun l => l.getD 1 0) hrow
      simpa [List.getD_eq_getElem?_getD] using this
    have hm0 : b0 ∈ row := by
      have : b0 ∈ row.drop (2 * i) := by rw [hrow]; simp
      exact List.mem_of_mem_drop this
    have hm1 : b1 ∈ row := by
      have : b1 ∈ row.drop (2 * i) := by rw [hrow]; simp
      exact List.mem_of_mem_drop this
    rw [hrow, bitsOf_cons, bitsOf_cons, ← List.append_assoc,
      List.take_append_of_le_length (by simp [bitsOfByte_length]),
      List.take_of_length_le (by simp [bitsOfByte_length]), natOfBits_append,
      byte_bits b0 (hb b0 hm0), byte_bits b1 (hb b1 hm1), h0, h1, bitsOfByte_length]
  · simp only [h16, if_false]
    have hd' : d ∈ [1, 2, 4, 8] := by simp at hd ⊢; omega
    have hdiv : (i * d) % 8 % d = 0 ∧ (i * d) % 8 + d ≤ 8 := by
      simp at hd'
      rcases hd' with rfl | rfl | rfl | rfl <;> omega
    have hq : i * d / 8 < row.length := by
      simp at hd'
      rcases hd' with rfl | rfl | rfl | rfl <;> omega
    obtain ⟨b, rest, hrow⟩ : ∃ b rest, row.drop (i * d / 8) = b :: rest := by
      match h : row.drop (i * d / 8) with
      | [] => have := congrArg List.length h; simp at this; omega
      | b :: rest => exact ⟨b, rest, rfl⟩
    have h0 : row.getD (i * d / 8) 0 = b := by
      have := congrArg (fun l => l.getD 0 0) hrow
      simpa [List.getD_eq_getElem?_getD] using this
    have hm : b ∈ row := by
      have : b ∈ row.drop (i * d / 8) := by rw [hrow]; simp
      exact List.mem_of_mem_drop this
    have hsplit : i * d = 8 * (i * d / 8) + i * d % 8 := by omega
    conv => rhs; rw [hsplit, ← List.drop_drop, bitsOf_drop, hrow, bitsOf_cons]
    rw [List.drop_append_of_le_length (by rw [bitsOfByte_length]; omega),
      List.take_append_of_le_length (by simp [bitsOfByte_length]; omega),
      byte_field b (hb b hm) d hd' (i * d % 8) (by omega) hdiv.1, h0]


/-- `chunks_exact` on a concatenation of complete rows -/
theorem chunksExact_flatten (n : Nat) (hn : 0 < n) :
    ∀ (rows : List (List Nat)) (fuel : Nat), (∀ r ∈ rows, r.length = n) → rows.length ≤ fuel →
      chunksExact n fuel rows.flatten = rows := by
  intro rows
  induction rows with
  | nil =>
    intro fuel _ _
    cases fuel with
    | zero => simp [chunksExact]
    | succ f => simp [chunksExact]
  | cons r rs ih =>
    intro fuel hr hf
    cases fuel with
    | zero => simp at hf
    | succ f =>
      have hrl : r.length = n := hr r (by simp)
      have hrs : ∀ q ∈ rs, q.length = n := fun q hq => hr q (by simp [hq])
      have hne : ¬ ((r :: rs).flatten.length < n ∨ (r :: rs).flatten.isEmpty = true) := by
        have : r ≠ [] := by intro h; rw [h] at hrl; simp at hrl; omega
        simp [List.flatten_cons, hrl, this]
      simp only [chunksExact, hne, if_false]
      have ht : (r :: rs).flatten.take n = r := by
        simp [List.flatten_cons, hrl]
      have hd : (r :: rs).flatten.drop n = rs.flatten := by
        simp [List.flatten_cons, hrl]
      rw [ht, hd, ih f hrs (by simpa using hf)]

/-- the samples the decoder reads from the unfiltered scanlines are the samples of PNG §7.2 -/
theorem rowSamples_spec (d perRow n : Nat) (rows : List (List Nat)) (hd : d ∈ [1, 2, 4, 8, 16])
    (hn : 0 < n) (hr : ∀ r ∈ rows, r.length = n ∧ ∀ x ∈ r, x < 256) (hfit : perRow * d ≤ 8 * n) :
    rowSamples d perRow n rows.flatten = rows.map (samplesOfRow d perRow) := by
  unfold rowSamples
  rw [chunksExact_flatten n hn rows _ (fun r h => (hr r h).1)
    (by rw [flatten_length_const n rows (fun r h => (hr r h).1)]
        exact Nat.le_mul_of_pos_right _ hn)]
  apply List.map_congr_left
  intro row hrow
  unfold samplesOfRow
  apply List.map_congr_left
  intro i hi
  have hi' : i < perRow := List.mem_range.1 hi
  apply readSample_spec row i d hd (hr row hrow).2
  rw [(hr row hrow).1]
  calc (i + 1) * d ≤ perRow * d := Nat.mul_le_mul_right _ hi'
    _ ≤ 8 * n := hfit

end OxiVerif.C24

/-! ### zlib made of stored blocks: the model's `storedInflate` undoes the reference encoder -/
namespace OxiVerif.C24
open OxiVerif.Spec.C24Png (storedBlocks zlibStored le16 be32)

theorem adler_eq (bs : List Nat) : adler32 bs = Spec.C24Png.adler32 bs := rfl

theorem adler_fold_lt (bs : List Nat) : ∀ p : Nat × Nat, p.1 < 65521 → p.2 < 65521 →
    (bs.foldl (fun (p : Nat × Nat) x => ((p.1 + x) % 65521, (p.2 + (p.1 + x) % 65521) % 65521)) p).1 < 65521 ∧
    (bs.foldl (fun (p : Nat × Nat) x => ((p.1 + x) % 65521, (p.2 + (p.1 + x) % 65521) % 65521)) p).2 < 65521 := by
  induction bs with
  | nil => intro p h1 h2; exact ⟨h1, h2⟩
  | cons b bs ih =>
    intro p _ _
    simp only [List.foldl_cons]
    exact ih _ (Nat.mod_lt _ (by decide)) (Nat.mod_lt _ (by decide))

theorem adler32_lt (bs : List Nat) : adler32 bs < 4294967296 := by
  unfold adler32
  have := adler_fold_lt bs (1, 0) (by decide) (by decide)
  simp only at this ⊢
  omega

theorem storedBlocksInflate_storedBlocks (blk : Nat) (hb1 : 1 ≤ blk) (hb2 : blk ≤ 65535) :
    ∀ (f1 : Nat) (data out : List Nat) (f2 : Nat), data.length < f1 → f1 ≤ f2 →
      storedBlocksInflate f2 (storedBlocks blk f1 data ++ be32 (adler32 (out ++ data))) out
        = .ok (out ++ data) := by
  intro f1
  induction f1 with
  | zero => intro data out f2 h _; omega
  | succ n ih =>
    intro data out f2 hlen hf
    obtain ⟨m, rfl⟩ : ∃ m, f2 = m + 1 := ⟨f2 - 1, by omega⟩
    have hl : (data.take blk).length ≤ 65535 := by simp; omega
    generalize hc : data.take blk = c at hl
    generalize hr : data.drop blk = rest
    have hdata : c ++ rest = data := by rw [← hc, ← hr, List.take_append_drop]
    have hlen16 : c.length % 256 + 256 * (c.length / 256 % 256) = c.length := by omega
    have hn16 : (65535 - c.length) % 256 + 256 * ((65535 - c.length) / 256 % 256) = 65535 - c.length := by
      omega
    by_cases hre : rest = []
    · -- last block
      subst hre
      have hcd : c = data := by simpa using hdata
      simp only [storedBlocks, hc, hr, List.isEmpty_nil, if_true, le16, List.cons_append,
        List.nil_append, List.append_nil, storedBlocksInflate]
      have hA := adler32_lt (out ++ data)
      have h1 : (1 : Nat) % 2 = 1 := rfl
      have h2 : (1 : Nat) / 2 % 4 = 0 := rfl
      simp only [h1, h2, List.getD_cons_zero, List.getD_cons_succ, List.drop_succ_cons, List.drop_zero,
        List.length_cons, List.length_append, hlen16, hn16, if_true]
      have hbl : (be32 (adler32 (out ++ data))).length = 4 := rfl
      have hbe : be32At (be32 (adler32 (out ++ data))) 0 = adler32 (out ++ data) :=
        be32At_cons _ hA []
      rw [List.take_left' rfl, List.drop_left' rfl, hbl, hbe]
      rw [if_neg (by decide), if_neg (by decide), if_neg (by omega), if_neg (by omega),
        if_neg (by omega), if_neg (by decide), if_pos (by rw [hcd]), hcd]
    · -- a block followed by more blocks
      have hne : rest.isEmpty = false := by cases rest <;> simp_all
      have h2 : (0 : Nat) / 2 % 4 = 0 := rfl
      have h1 : ¬ ((0 : Nat) % 2 = 1) := by decide
      simp only [storedBlocks, hc, hr, hne, Bool.false_eq_true, if_false, le16, List.cons_append,
        List.nil_append, List.append_assoc, storedBlocksInflate]
      simp only [h1, h2, List.getD_cons_zero, List.getD_cons_succ, List.drop_succ_cons, List.drop_zero,
        List.length_cons, List.length_append, hlen16, hn16, if_false]
      have hpos : 0 < rest.length := by
        cases rest with
        | nil => exact absurd rfl hre
        | cons _ _ => simp
      have hrl : rest.length < n := by
        have : rest.length = data.length - blk := by rw [← hr]; simp
        omega
      rw [List.take_left' rfl, List.drop_left' rfl]
      have := ih rest (out ++ c) m hrl (by omega)
      rw [List.append_assoc, hdata] at this
      rw [if_neg (by decide), if_neg (by decide), if_neg (by omega), if_neg (by omega),
        if_neg (by omega)]
      exact this


theorem storedBlocks_length (blk : Nat) (hb1 : 1 ≤ blk) :
    ∀ (f : Nat) (data : List Nat), data.length < f →
      data.length ≤ (storedBlocks blk f data).length := by
  intro f
  induction f with
  | zero => intro data h; omega
  | succ n ih =>
    intro data hlen
    have hsum : (data.take blk).length + (data.drop blk).length = data.length := by
      rw [← List.length_append, List.take_append_drop]
    by_cases hre : data.drop blk = []
    · simp only [storedBlocks, hre, List.isEmpty_nil, if_true, le16, List.length_append,
        List.length_cons, List.length_nil]
      rw [hre] at hsum
      simp at hsum ⊢
      omega
    · have hne : (data.drop blk).isEmpty = false := by
        cases h : data.drop blk <;> simp_all
      have hpos : 0 < (data.drop blk).length := by
        cases h : data.drop blk with
        | nil => exact absurd h hre
        | cons _ _ => simp
      have hrl : (data.drop blk).length < n := by
        have : (data.drop blk).length = data.length - blk := by simp
        omega
      have := ih (data.drop blk) hrl
      simp only [storedBlocks, hne, Bool.false_eq_true, if_false, le16, List.length_append,
        List.length_cons, List.length_nil]
      omega

/-- zlib inflate as `decompress_idat` sees it undoes the reference stored-block zlib encoder
(RFC 1950 header, stored blocks of at most `blk` bytes, Adler-32), for any block size and data -/
theorem storedInflate_zlibStored (blk : Nat) (data : List Nat) :
    storedInflate (zlibStored blk data) = .ok data := by
  unfold zlibStored storedInflate
  simp only [List.cons_append, List.nil_append]
  rw [if_neg (by decide)]
  have := storedBlocksInflate_storedBlocks (max 1 (min blk 65535)) (by omega) (by omega)
    (data.length + 1) data [] ((storedBlocks (max 1 (min blk 65535)) (data.length + 1) data ++
      be32 (Spec.C24Png.adler32 data)).length + 1) (by omega) (by
        have := storedBlocks_length (max 1 (min blk 65535)) (by omega) (data.length + 1) data (by omega)
        simp only [List.length_append]; omega)
  rw [List.nil_append, adler_eq] at this
  simpa using this

end OxiVerif.C24
