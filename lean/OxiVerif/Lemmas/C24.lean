import OxiVerif.Spec.C24Png
import OxiVerif.Model.C24
/-!
Helper lemmas for C24 (no property statements here).
-/
namespace OxiVerif.C24
open OxiVerif.Spec.C24Png (filterGo filterRow filterRows predictor paeth)

theorem paeth_eq (a b c : Nat) : paethPredictor a b c = paeth a b c := rfl

/-- the value the decoder adds is the encoder's predictor modulo 256 -/
theorem predicted_mod (ft a b c : Nat) :
    predicted ft a b c % 256 = predictor ft a b c % 256 := by
  unfold predicted predictor
  split <;> simp [paeth_eq]

theorem byte_roundtrip (x p q : Nat) (hx : x < 256) (hpq : p % 256 = q % 256) :
    ((x + 256 - q % 256) % 256 + p) % 256 = x := by
  omega

/-- one row, any state of the two look-behind buffers -/
theorem unfilterGo_filterGo (ft bpp : Nat) :
    ∀ (cur prev doneRev prevRev : List Nat), (∀ x ∈ cur, x < 256) →
      unfilterGo ft bpp (filterGo ft bpp cur prev doneRev prevRev) prev doneRev prevRev = cur := by
  intro cur
  induction cur with
  | nil => intro prev doneRev prevRev _; simp [filterGo, unfilterGo]
  | cons x xs ih =>
    intro prev doneRev prevRev hb
    have hx : x < 256 := hb x (by simp)
    have hxs : ∀ y ∈ xs, y < 256 := fun y hy => hb y (by simp [hy])
    simp only [filterGo, unfilterGo]
    have hv : ((x + 256 - predictor ft (doneRev.getD (bpp - 1) 0) (prev.headD 0)
                (prevRev.getD (bpp - 1) 0) % 256) % 256 +
              predicted ft (doneRev.getD (bpp - 1) 0) (prev.headD 0)
                (prevRev.getD (bpp - 1) 0)) % 256 = x :=
      byte_roundtrip x _ _ hx (predicted_mod ft _ _ _)
    rw [hv, ih prev.tail (x :: doneRev) (prev.headD 0 :: prevRev) hxs]

theorem filterGo_length (ft bpp : Nat) :
    ∀ (cur prev doneRev prevRev : List Nat),
      (filterGo ft bpp cur prev doneRev prevRev).length = cur.length := by
  intro cur
  induction cur with
  | nil => intros; simp [filterGo]
  | cons x xs ih => intros; simp [filterGo, ih]

theorem filterRow_length (ft bpp : Nat) (prev cur : List Nat) :
    (filterRow ft bpp prev cur).length = cur.length := filterGo_length ft bpp cur prev [] []

/-- `splitChunks` on a concatenation of complete groups -/
theorem splitChunks_flatten (n keep : Nat) (hn : 0 < n) :
    ∀ (px : List (List Nat)) (fuel : Nat), (∀ p ∈ px, p.length = n) → px.length ≤ fuel →
      splitChunks n keep fuel px.flatten =
        ((px.map (List.take keep)).flatten, (px.map (List.drop keep)).flatten) := by
  intro px
  induction px with
  | nil =>
    intro fuel _ _
    cases fuel with
    | zero => simp [splitChunks]
    | succ f => simp [splitChunks]; omega
  | cons p ps ih =>
    intro fuel hp hf
    cases fuel with
    | zero => simp at hf
    | succ f =>
      have hpl : p.length = n := hp p (by simp)
      have hps : ∀ q ∈ ps, q.length = n := fun q hq => hp q (by simp [hq])
      have hlen : ¬ ((p :: ps).flatten.length < n) := by
        simp [List.flatten_cons, hpl]
      simp only [splitChunks, hlen, if_false]
      have ht : (p :: ps).flatten.take n = p := by
        simp [List.flatten_cons, List.take_append, hpl]
      have hd : (p :: ps).flatten.drop n = ps.flatten := by
        simp [List.flatten_cons, List.drop_append, hpl]
      rw [ht, hd, ih f hps (by simpa using hf)]
      simp

theorem flatten_length_const (n : Nat) (px : List (List Nat)) (h : ∀ p ∈ px, p.length = n) :
    px.flatten.length = px.length * n := by
  induction px with
  | nil => simp
  | cons p ps ih =>
    have := ih (fun q hq => h q (by simp [hq]))
    simp [List.flatten_cons, h p (by simp), this, Nat.add_mul]
    omega

end OxiVerif.C24

/-! ### the chunk walk on a well-formed chunk -/
namespace OxiVerif.C24
open OxiVerif.Spec.C24Png (chunk be32 tagOf crc32)

theorem be32At_cons (n : Nat) (hn : n < 4294967296) (xs : List Nat) :
    be32At (n / 16777216 % 256 :: n / 65536 % 256 :: n / 256 % 256 :: n % 256 :: xs) 0 = n := by
  simp [be32At]
  omega

/-- one iteration of the `decode` loop on `length ‖ tag ‖ data ‖ crc ‖ rest` -/
theorem walk_step (fuel t0 t1 t2 t3 c0 c1 c2 c3 : Nat) (data rest : List Nat) (st : Decoder)
    (hlen : data.length < 4294967296) :
    walk (fuel + 1)
      (data.length / 16777216 % 256 :: data.length / 65536 % 256 :: data.length / 256 % 256 ::
        data.length % 256 :: t0 :: t1 :: t2 :: t3 :: (data ++ c0 :: c1 :: c2 :: c3 :: rest)) st =
      (if [t0, t1, t2, t3] = tagIHDR then
          match processIhdr st data with
          | .ok st' => walk fuel rest st'
          | .err e => .err e
          | .panic => .panic
        else if [t0, t1, t2, t3] = tagPLTE then
          match processPlte st data with
          | .ok st' => walk fuel rest st'
          | .err e => .err e
          | .panic => .panic
        else if [t0, t1, t2, t3] = tagIDAT then walk fuel rest { st with idat := st.idat ++ [data] }
        else if [t0, t1, t2, t3] = tagTRNS then walk fuel rest (processTrns st data)
        else if [t0, t1, t2, t3] = tagIEND then .ok st
        else walk fuel rest st) := by
  show walkBody (walk fuel) _ st = _
  unfold walkBody
  have h1 : be32At (data.length / 16777216 % 256 :: data.length / 65536 % 256 ::
      data.length / 256 % 256 :: data.length % 256 :: t0 :: t1 :: t2 :: t3 ::
        (data ++ c0 :: c1 :: c2 :: c3 :: rest)) 0 = data.length := be32At_cons _ hlen _
  simp only [h1, List.isEmpty_cons, Bool.false_eq_true, if_false, List.length_cons,
    List.drop_succ_cons, List.drop_zero, List.take_succ_cons, List.take_zero,
    List.length_append]
  rw [if_neg (by omega), if_neg (by omega)]
  have h2 : (data ++ c0 :: c1 :: c2 :: c3 :: rest).take data.length = data := by
    simp
  have h3 : (data ++ c0 :: c1 :: c2 :: c3 :: rest).drop (data.length + 4) = rest := by
    rw [← List.drop_drop]
    simp
  rw [h2, h3]
  rfl

theorem chunk_unfold (tag : String) (data rest : List Nat) :
    chunk tag data ++ rest =
      be32 data.length ++ (tagOf tag ++ (data ++ (be32 (crc32 (tagOf tag ++ data)) ++ rest))) := by
  simp [chunk, List.append_assoc]

theorem walk_IHDR (fuel : Nat) (data rest : List Nat) (st : Decoder) (hlen : data.length < 4294967296) :
    walk (fuel + 1) (chunk "IHDR" data ++ rest) st =
      (match processIhdr st data with
       | .ok st' => walk fuel rest st'
       | .err e => .err e
       | .panic => .panic) := by
  rw [chunk_unfold]
  have ht : tagOf "IHDR" = [73, 72, 68, 82] := by decide
  rw [ht]
  simp only [be32, List.cons_append, List.nil_append]
  rw [walk_step fuel _ _ _ _ _ _ _ _ data rest st hlen]
  simp [tagIHDR]

theorem walk_IDAT (fuel : Nat) (data rest : List Nat) (st : Decoder) (hlen : data.length < 4294967296) :
    walk (fuel + 1) (chunk "IDAT" data ++ rest) st =
      walk fuel rest { st with idat := st.idat ++ [data] } := by
  rw [chunk_unfold]
  have ht : tagOf "IDAT" = [73, 68, 65, 84] := by decide
  rw [ht]
  simp only [be32, List.cons_append, List.nil_append]
  rw [walk_step fuel _ _ _ _ _ _ _ _ data rest st hlen]
  simp [tagIHDR, tagPLTE, tagIDAT]

theorem walk_IEND (fuel : Nat) (rest : List Nat) (st : Decoder) :
    walk (fuel + 1) (chunk "IEND" [] ++ rest) st = .ok st := by
  rw [chunk_unfold]
  have ht : tagOf "IEND" = [73, 69, 78, 68] := by decide
  rw [ht]
  simp only [be32, List.cons_append, List.nil_append]
  have := walk_step fuel 73 69 78 68 (crc32 [73, 69, 78, 68] / 16777216 % 256)
    (crc32 [73, 69, 78, 68] / 65536 % 256) (crc32 [73, 69, 78, 68] / 256 % 256)
    (crc32 [73, 69, 78, 68] % 256) [] rest st (by simp)
  simpa [tagIHDR, tagPLTE, tagIDAT, tagTRNS, tagIEND] using this

/-- any number of IDAT chunks: the payloads are collected in order -/
theorem walk_IDATs (zs : List (List Nat)) :
    ∀ (fuel : Nat) (rest : List Nat) (st : Decoder), (∀ z ∈ zs, z.length < 4294967296) →
      walk (fuel + zs.length) ((zs.map (chunk "IDAT")).flatten ++ rest) st =
        walk fuel rest { st with idat := st.idat ++ zs } := by
  induction zs with
  | nil => intro fuel rest st _; simp
  | cons z zs ih =>
    intro fuel rest st h
    have hz := h z (by simp)
    simp only [List.map_cons, List.flatten_cons, List.length_cons, List.append_assoc]
    rw [show fuel + (zs.length + 1) = (fuel + zs.length) + 1 by omega, walk_IDAT _ _ _ _ hz,
      ih fuel rest _ (fun y hy => h y (by simp [hy]))]
    simp [List.append_assoc]


theorem idat_chunks_length (zs : List (List Nat)) :
    zs.length ≤ ((zs.map (chunk "IDAT")).flatten).length := by
  induction zs with
  | nil => simp
  | cons z zs ih =>
    simp only [List.map_cons, List.flatten_cons, List.length_append, List.length_cons]
    have : 1 ≤ (chunk "IDAT" z).length := by simp [chunk, be32]
    omega

/-- `process_ihdr` on a 13-byte IHDR with compression/filter/interlace 0 -/
theorem processIhdr_ok (st : Decoder) (w h depth ctb : Nat) (ct : ColorType)
    (hw : w < 4294967296) (hh : h < 4294967296) (hct : ColorType.fromByte ctb = some ct) :
    processIhdr st (be32 w ++ be32 h ++ [depth, ctb, 0, 0, 0]) =
      .ok { st with width := w, height := h, bitDepth := depth, colorType := ct, hasIhdr := true } := by
  unfold processIhdr
  simp only [be32, List.cons_append, List.nil_append]
  simp [hct, be32At]
  constructor <;> omega

end OxiVerif.C24
