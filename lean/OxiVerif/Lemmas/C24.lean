import OxiVerif.Spec.C24Png
import OxiVerif.Model.C24
/-!
Helper lemmas for C24 (no property statements here).
-/
namespace OxiVerif.C24
open OxiVerif.Spec.C24Png (filterGo filterRow filterRows predictor paeth)

theorem paeth_eq (a b c : Nat) : paethPredictor a b c = paeth a b c := rfl

/-- the value the decoder adds is the encoder's predictor modulo 256 -/
theorem predicted_mod (ft a b c : Nat) :
    predicted ft a b c % 256 = predictor ft a b c % 256 := by
  unfold predicted predictor
  split <;> simp [paeth_eq]

theorem byte_roundtrip (x p q : Nat) (hx : x < 256) (hpq : p % 256 = q % 256) :
    ((x + 256 - q % 256) % 256 + p) % 256 = x := by
  omega

/-- one row, any state of the two look-behind buffers -/
theorem unfilterGo_filterGo (ft bpp : Nat) :
    ∀ (cur prev doneRev prevRev : List Nat), (∀ x ∈ cur, x < 256) →
      unfilterGo ft bpp (filterGo ft bpp cur prev doneRev prevRev) prev doneRev prevRev = cur := by
  intro cur
  induction cur with
  | nil => intro prev doneRev prevRev _; simp [filterGo, unfilterGo]
  | cons x xs ih =>
    intro prev doneRev prevRev hb
    have hx : x < 256 := hb x (by simp)
    have hxs : ∀ y ∈ xs, y < 256 := fun y hy => hb y (by simp [hy])
    simp only [filterGo, unfilterGo]
    have hv : ((x + 256 - predictor ft (doneRev.getD (bpp - 1) 0) (prev.headD 0)
                (prevRev.getD (bpp - 1) 0) % 256) % 256 +
              predicted ft (doneRev.getD (bpp - 1) 0) (prev.headD 0)
                (prevRev.getD (bpp - 1) 0)) % 256 = x :=
      byte_roundtrip x _ _ hx (predicted_mod ft _ _ _)
    rw [hv, ih prev.tail (x :: doneRev) (prev.headD 0 :: prevRev) hxs]

theorem filterGo_length (ft bpp : Nat) :
    ∀ (cur prev doneRev prevRev : List Nat),
      (filterGo ft bpp cur prev doneRev prevRev).length = cur.length := by
  intro cur
  induction cur with
  | nil => intros; simp [filterGo]
  | cons x xs ih => intros; simp [filterGo, ih]

theorem filterRow_length (ft bpp : Nat) (prev cur : List Nat) :
    (filterRow ft bpp prev cur).length = cur.length := filterGo_length ft bpp cur prev [] []

/-- `splitChunks` on a concatenation of complete groups -/
theorem splitChunks_flatten (n keep : Nat) (hn : 0 < n) :
    ∀ (px : List (List Nat)) (fuel : Nat), (∀ p ∈ px, p.length = n) → px.length ≤ fuel →
      splitChunks n keep fuel px.flatten =
        ((px.map (List.take keep)).flatten, (px.map (List.drop keep)).flatten) := by
  intro px
  induction px with
  | nil =>
    intro fuel _ _
    cases fuel with
    | zero => simp [splitChunks]
    | succ f => simp [splitChunks]; omega
  | cons p ps ih =>
    intro fuel hp hf
    cases fuel with
    | zero => simp at hf
    | succ f =>
      have hpl : p.length = n := hp p (by simp)
      have hps : ∀ q ∈ ps, q.length = n := fun q hq => hp q (by simp [hq])
      have hlen : ¬ ((p :: ps).flatten.length < n) := by
        simp [List.flatten_cons, hpl]
      simp only [splitChunks, hlen, if_false]
      have ht : (p :: ps).flatten.take n = p := by
        simp [List.flatten_cons, List.take_append, hpl]
      have hd : (p :: ps).flatten.drop n = ps.flatten := by
        simp [List.flatten_cons, List.drop_append, hpl]
      rw [ht, hd, ih f hps (by simpa using hf)]
      simp

theorem flatten_length_const (n : Nat) (px : List (List Nat)) (h : ∀ p ∈ px, p.length = n) :
    px.flatten.length = px.length * n := by
  induction px with
  | nil => simp
  | cons p ps ih =>
    have := ih (fun q hq => h q (by simp [hq]))
    simp [List.flatten_cons, h p (by simp), this, Nat.add_mul]
    omega

end OxiVerif.C24
