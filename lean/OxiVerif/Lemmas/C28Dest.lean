import OxiVerif.Model.C28Dest
/-!
Helper lemmas for the destination / name-tree part of C28.
-/
namespace OxiVerif.C28

/-- what the proofs need of the key order (for `String`: byte-wise lexicographic order) -/
structure StrictTotal {κ : Type} (lt : κ → κ → Bool) : Prop where
  irrefl : ∀ a, lt a a = false
  trans : ∀ a b c, lt a b = true → lt b c = true → lt a c = true
  tri : ∀ a b, lt a b = false → lt b a = false → a = b

theorem asU32_ofNat (n : Nat) (h : n < 4294967296) : asU32 (Int.ofNat n) = n := by
  unfold asU32
  have : (Int.ofNat n) % 4294967296 = Int.ofNat n :=
    Int.emod_eq_of_lt (Int.natCast_nonneg n) (by simp only [Int.ofNat_eq_natCast]; omega)
  rw [this]
  simp

/-! ### `ltBytes` is a strict total order -/

theorem ltBytes_irrefl : ∀ a : List Nat, ltBytes a a = false
  | [] => rfl
  | a :: as => by simp [ltBytes, ltBytes_irrefl as]

theorem ltBytes_trans : ∀ a b c : List Nat, ltBytes a b = true → ltBytes b c = true →
    ltBytes a c = true
  | [], [], _, h, _ => by simp [ltBytes] at h
  | [], _ :: _, [], _, h => by simp [ltBytes] at h
  | [], _ :: _, _ :: _, _, _ => rfl
  | _ :: _, [], _, h, _ => by simp [ltBytes] at h
  | _ :: _, _ :: _, [], _, h => by simp [ltBytes] at h
  | a :: as, b :: bs, c :: cs, h1, h2 => by
    simp only [ltBytes, Bool.or_eq_true, decide_eq_true_eq, Bool.and_eq_true, beq_iff_eq] at h1 h2 ⊢
    rcases h1 with h1 | ⟨e1, h1⟩ <;> rcases h2 with h2 | ⟨e2, h2⟩
    · left; omega
    · left; omega
    · left; omega
    · right; exact ⟨by omega, ltBytes_trans as bs cs h1 h2⟩

theorem ltBytes_tri : ∀ a b : List Nat, ltBytes a b = false → ltBytes b a = false → a = b
  | [], [], _, _ => rfl
  | [], _ :: _, h, _ => by simp [ltBytes] at h
  | _ :: _, [], _, h => by simp [ltBytes] at h
  | a :: as, b :: bs, h1, h2 => by
    simp only [ltBytes, Bool.or_eq_false_iff, decide_eq_false_iff_not, Bool.and_eq_false_iff,
      beq_eq_false_iff_ne] at h1 h2
    have hab : a = b := by omega
    subst hab
    have h1' : ltBytes as bs = false := by
      rcases h1.2 with h | h
      · exact absurd rfl h
      · exact h
    have h2' : ltBytes bs as = false := by
      rcases h2.2 with h | h
      · exact absurd rfl h
      · exact h
    rw [ltBytes_tri as bs h1' h2']

theorem ltBytes_strictTotal : StrictTotal ltBytes :=
  ⟨ltBytes_irrefl, ltBytes_trans, ltBytes_tri⟩

/-! ### the sorted association list -/

/-- keys strictly ascending (all-pairs form) -/
def Sorted {κ ν : Type} (lt : κ → κ → Bool) (l : List (κ × ν)) : Prop :=
  l.Pairwise (fun a b => lt a.1 b.1 = true)

theorem mem_ntInsert {κ ν : Type} (lt : κ → κ → Bool) (k : κ) (v : ν) (l : List (κ × ν))
    (x : κ × ν) (hx : x ∈ ntInsert lt k v l) : x = (k, v) ∨ x ∈ l := by
  induction l with
  | nil => simp [ntInsert] at hx; exact Or.inl hx
  | cons a rest ih =>
    obtain ⟨k', v'⟩ := a
    simp only [ntInsert] at hx
    split at hx
    · simp only [List.mem_cons] at hx ⊢
      rcases hx with h | h | h
      · exact Or.inl h
      · exact Or.inr (Or.inl h)
      · exact Or.inr (Or.inr h)
    · split at hx
      · simp only [List.mem_cons] at hx ⊢
        rcases hx with h | h
        · exact Or.inr (Or.inl h)
        · rcases ih h with h | h
          · exact Or.inl h
          · exact Or.inr (Or.inr h)
      · simp only [List.mem_cons] at hx ⊢
        rcases hx with h | h
        · exact Or.inl h
        · exact Or.inr (Or.inr h)

theorem sorted_ntInsert {κ ν : Type} (lt : κ → κ → Bool) (st : StrictTotal lt) (k : κ) (v : ν)
    (l : List (κ × ν)) (h : Sorted lt l) : Sorted lt (ntInsert lt k v l) := by
  induction l with
  | nil => simp [ntInsert, Sorted]
  | cons a rest ih =>
    obtain ⟨k', v'⟩ := a
    have hh := List.pairwise_cons.mp h
    simp only [ntInsert]
    split
    · rename_i hlt
      refine List.pairwise_cons.mpr ⟨?_, h⟩
      intro b hb
      simp only [List.mem_cons] at hb
      rcases hb with hb | hb
      · subst hb; exact hlt
      · exact st.trans _ _ _ hlt (hh.1 b hb)
    · split
      · rename_i _ hlt
        refine List.pairwise_cons.mpr ⟨?_, ih hh.2⟩
        intro b hb
        rcases mem_ntInsert lt k v rest b hb with hb | hb
        · subst hb; exact hlt
        · exact hh.1 b hb
      · rename_i h1 h2
        have hk : k = k' := st.tri _ _ (by simpa using h1) (by simpa using h2)
        subst hk
        exact List.pairwise_cons.mpr ⟨hh.1, hh.2⟩

/-- `get` after `insert`: the new value for the inserted key, the old answer for every other -/
theorem get_ntInsert {κ ν : Type} [DecidableEq κ] (lt : κ → κ → Bool) (st : StrictTotal lt)
    (k : κ) (v : ν) (l : List (κ × ν)) (q : κ) :
    ((ntInsert lt k v l).find? (fun kv => kv.1 = q)).map (·.2) =
      if k = q then some v else (l.find? (fun kv => kv.1 = q)).map (·.2) := by
  induction l with
  | nil => by_cases h : k = q <;> simp [ntInsert, h]
  | cons a rest ih =>
    obtain ⟨k', v'⟩ := a
    simp only [ntInsert]
    split
    · by_cases h : k = q <;> simp [List.find?_cons, h]
    · split
      · rename_i _ hlt
        by_cases hq : k' = q
        · have hne : k ≠ q := by
            intro e
            rw [← e] at hq
            subst hq
            rw [st.irrefl] at hlt
            cases hlt
          simp [hq, hne]
        · simp only [List.find?_cons, hq, decide_false]
          exact ih
      · rename_i h1 h2
        have hk : k = k' := st.tri _ _ (by simpa using h1) (by simpa using h2)
        subst hk
        by_cases h : k = q <;> simp [h]

/-! ### folding the additions -/

/-- last addition for `q` wins, starting from `init` -/
def authoredFrom {κ ν : Type} [DecidableEq κ] (init : Option ν) (adds : List (κ × ν)) (q : κ) :
    Option ν :=
  adds.foldl (fun acc kv => if kv.1 = q then some kv.2 else acc) init

theorem authoredFrom_eq {κ ν : Type} [DecidableEq κ] (adds : List (κ × ν)) (q : κ)
    (init : Option ν) :
    authoredFrom init adds q =
      ((adds.reverse.find? (fun kv => kv.1 = q)).map (·.2)).or init := by
  induction adds generalizing init with
  | nil => simp [authoredFrom]
  | cons a rest ih =>
    simp only [authoredFrom, List.foldl_cons] at ih ⊢
    rw [ih]
    simp only [List.reverse_cons, List.find?_append]
    cases hf : rest.reverse.find? (fun kv => kv.1 = q) with
    | some x => simp
    | none =>
      by_cases ha : a.1 = q <;> simp [ha]

theorem foldl_add_names {κ ν : Type} (lt : κ → κ → Bool) (adds : List (κ × ν)) (t : NT κ ν) :
    (adds.foldl (fun t kv => t.add lt kv.1 kv.2) t).names =
      adds.foldl (fun l kv => ntInsert lt kv.1 kv.2 l) t.names := by
  induction adds generalizing t with
  | nil => rfl
  | cons a rest ih => simp only [List.foldl_cons]; rw [ih]; rfl

theorem sorted_foldl {κ ν : Type} (lt : κ → κ → Bool) (st : StrictTotal lt) (adds : List (κ × ν))
    (l : List (κ × ν)) (h : Sorted lt l) :
    Sorted lt (adds.foldl (fun l kv => ntInsert lt kv.1 kv.2 l) l) := by
  induction adds generalizing l with
  | nil => exact h
  | cons a rest ih => exact ih _ (sorted_ntInsert lt st a.1 a.2 l h)

theorem get_foldl {κ ν : Type} [DecidableEq κ] (lt : κ → κ → Bool) (st : StrictTotal lt)
    (adds : List (κ × ν)) (l : List (κ × ν)) (q : κ) :
    ((adds.foldl (fun l kv => ntInsert lt kv.1 kv.2 l) l).find? (fun kv => kv.1 = q)).map (·.2) =
      authoredFrom ((l.find? (fun kv => kv.1 = q)).map (·.2)) adds q := by
  induction adds generalizing l with
  | nil => rfl
  | cons a rest ih =>
    simp only [List.foldl_cons, authoredFrom] at ih ⊢
    rw [ih, get_ntInsert lt st]

/-- a plain scan of the written pairs finds what `find?` finds -/
theorem lookupWritten_eq {κ ν : Type} [DecidableEq κ] (pairs : List (κ × ν)) (q : κ) :
    Spec.lookupWritten pairs q = (pairs.find? (fun kv => kv.1 = q)).map (·.2) := by
  induction pairs with
  | nil => rfl
  | cons a rest ih =>
    obtain ⟨k, v⟩ := a
    by_cases h : k = q <;> simp [Spec.lookupWritten, h, ih]

theorem ascending_of_sorted {κ ν : Type} (lt : κ → κ → Bool) (l : List (κ × ν))
    (h : Sorted lt l) : Spec.ascending lt l = true := by
  induction l with
  | nil => rfl
  | cons a rest ih =>
    cases rest with
    | nil => rfl
    | cons b rest' =>
      have hh := List.pairwise_cons.mp h
      simp only [Spec.ascending, Bool.and_eq_true]
      exact ⟨hh.1 b (by simp), ih hh.2⟩

/-! ### `/Limits` -/

def keyHead {κ ν : Type} (l : List (κ × ν)) : Option κ := l.head?.map (·.1)
def keyLast {κ ν : Type} (l : List (κ × ν)) : Option κ := l.getLast?.map (·.1)

theorem ntInsert_ne_nil {κ ν : Type} (lt : κ → κ → Bool) (k : κ) (v : ν) (l : List (κ × ν)) :
    ntInsert lt k v l ≠ [] := by
  cases l with
  | nil => simp [ntInsert]
  | cons a rest =>
    obtain ⟨k', v'⟩ := a
    simp only [ntInsert]
    split
    · simp
    · split <;> simp

theorem keyHead_ntInsert {κ ν : Type} (lt : κ → κ → Bool) (st : StrictTotal lt) (k : κ) (v : ν)
    (l : List (κ × ν)) :
    keyHead (ntInsert lt k v l) =
      match keyHead l with
      | none => some k
      | some h => some (if lt k h then k else h) := by
  cases l with
  | nil => rfl
  | cons a rest =>
    obtain ⟨k', v'⟩ := a
    simp only [ntInsert, keyHead, List.head?_cons, Option.map_some]
    split
    · rename_i h; simp [keyHead]
    · rename_i h1
      split
      · simp [keyHead, h1]
      · rename_i h2
        have hk : k = k' := st.tri _ _ (by simpa using h1) (by simpa using h2)
        subst hk
        simp [keyHead]

theorem keyLast_cons_cons {κ ν : Type} (a b : κ × ν) (l : List (κ × ν)) :
    keyLast (a :: b :: l) = keyLast (b :: l) := by
  simp [keyLast, List.getLast?_cons_cons]

theorem keyLast_cons_of_ne_nil {κ ν : Type} (a : κ × ν) (l : List (κ × ν)) (h : l ≠ []) :
    keyLast (a :: l) = keyLast l := by
  cases l with
  | nil => exact absurd rfl h
  | cons b rest => exact keyLast_cons_cons a b rest

theorem keyLast_mem {κ ν : Type} (l : List (κ × ν)) (m : κ) (h : keyLast l = some m) :
    ∃ x ∈ l, x.1 = m := by
  simp only [keyLast, Option.map_eq_some_iff] at h
  obtain ⟨x, hx, rfl⟩ := h
  exact ⟨x, List.mem_of_getLast? hx, rfl⟩

theorem ntInsert_cons {κ ν : Type} (lt : κ → κ → Bool) (k : κ) (v : ν) (k' : κ) (v' : ν)
    (rest : List (κ × ν)) :
    ntInsert lt k v ((k', v') :: rest) =
      if lt k k' then (k, v) :: (k', v') :: rest
      else if lt k' k then (k', v') :: ntInsert lt k v rest
      else (k, v) :: rest := by
  simp only [ntInsert]

theorem keyLast_ntInsert {κ ν : Type} (lt : κ → κ → Bool) (st : StrictTotal lt) (k : κ) (v : ν)
    (l : List (κ × ν)) (hs : Sorted lt l) :
    keyLast (ntInsert lt k v l) =
      match keyLast l with
      | none => some k
      | some m => some (if lt m k then k else m) := by
  induction l with
  | nil => rfl
  | cons a rest ih =>
    obtain ⟨k0, v0⟩ := a
    have hh := List.pairwise_cons.mp hs
    have asym : ∀ x y, lt x y = true → lt y x = false := by
      intro x y hxy
      cases hyx : lt y x with
      | false => rfl
      | true =>
        have := st.trans _ _ _ hxy hyx
        rw [st.irrefl] at this
        cases this
    cases rest with
    | nil =>
      simp only [ntInsert, keyLast, List.getLast?_singleton, Option.map_some]
      split
      · rename_i h; simp [asym _ _ h]
      · rename_i h1
        split
        · rename_i h2; simp [h2]
        · rename_i h2
          have hk : k = k0 := st.tri _ _ (by simpa using h1) (by simpa using h2)
          subst hk
          simp [st.irrefl]
    | cons b rest' =>
      rw [keyLast_cons_cons]
      -- the last key `m` of the tail is greater than `k0`
      cases hm : keyLast (b :: rest') with
      | none => simp [keyLast] at hm
      | some m =>
        obtain ⟨x, hx, hxm⟩ := keyLast_mem _ _ hm
        have hk0m : lt k0 m = true := by rw [← hxm]; exact hh.1 x hx
        rw [ntInsert_cons]
        split
        · rename_i h
          rw [keyLast_cons_cons, keyLast_cons_cons, hm]
          have : lt m k = false := asym _ _ (st.trans _ _ _ h hk0m)
          simp [this]
        · rename_i h1
          split
          · rw [keyLast_cons_of_ne_nil _ _ (ntInsert_ne_nil lt k v _), ih hh.2, hm]
          · rename_i h2
            have hk : k = k0 := st.tri _ _ (by simpa using h1) (by simpa using h2)
            subst hk
            rw [keyLast_cons_cons, hm]
            have : lt m k = false := asym _ _ hk0m
            simp [this]

/-- `/Limits` is `[least key, greatest key]`, absent for an empty tree -/
def LimitsOk {κ ν : Type} (t : NT κ ν) : Prop :=
  t.limits = match keyHead t.names, keyLast t.names with
    | some a, some b => some (a, b)
    | _, _ => none

theorem limitsOk_add {κ ν : Type} (lt : κ → κ → Bool) (st : StrictTotal lt) (t : NT κ ν)
    (k : κ) (v : ν) (hs : Sorted lt t.names) (hl : LimitsOk t) : LimitsOk (t.add lt k v) := by
  unfold LimitsOk at hl ⊢
  simp only [NT.add]
  rw [keyHead_ntInsert lt st, keyLast_ntInsert lt st k v t.names hs, hl]
  cases hn : t.names with
  | nil => simp [keyHead, keyLast]
  | cons a rest =>
    have h1 : ∃ x, keyHead (a :: rest) = some x := ⟨a.1, rfl⟩
    have h2 : ∃ y, keyLast (a :: rest) = some y := by
      cases hg : (a :: rest).getLast? with
      | none => simp at hg
      | some z => exact ⟨z.1, by simp [keyLast, hg]⟩
    obtain ⟨x, hx⟩ := h1
    obtain ⟨y, hy⟩ := h2
    simp [hx, hy]

theorem build_invariant {κ ν : Type} (lt : κ → κ → Bool) (st : StrictTotal lt)
    (adds : List (κ × ν)) (t : NT κ ν) (hs : Sorted lt t.names) (hl : LimitsOk t) :
    Sorted lt (adds.foldl (fun t kv => t.add lt kv.1 kv.2) t).names ∧
    LimitsOk (adds.foldl (fun t kv => t.add lt kv.1 kv.2) t) := by
  induction adds generalizing t with
  | nil => exact ⟨hs, hl⟩
  | cons a rest ih =>
    simp only [List.foldl_cons]
    exact ih _ (sorted_ntInsert lt st a.1 a.2 t.names hs) (limitsOk_add lt st t a.1 a.2 hs hl)

end OxiVerif.C28
