import OxiVerif.Lemmas.C11
import OxiVerif.Spec.C11
set_option linter.unusedSimpArgs false
/-!
Simulation between the operator loop of the model (`C11.events`) and the reference semantics
(`C11.Spec.run`): on every program inside the property's domain that exercises none of the three
listed defects, both emit the same characters in the same order.
-/
namespace OxiVerif.C11
open List Spec

/-! ### decoding -/

theorem winansi_lt (b c : Nat) (h : winansi b = some c) : b < 256 := by
  by_cases hb : b < 256
  · exact hb
  · exfalso
    unfold winansi at h
    split at h <;> first | omega | (simp at h; omega)

theorem winansi_agree_small :
    ∀ b, b < 256 → ∀ c, winansi b = some c → winansiImpl b = c := by
  decide +kernel

theorem winansi_agree (b c : Nat) (h : winansi b = some c) : winansiImpl b = c :=
  winansi_agree_small b (winansi_lt b c h) c h

theorem mapM_winansi (bs cs : List Nat) (h : bs.mapM winansi = some cs) : bs.map winansiImpl = cs := by
  induction bs generalizing cs with
  | nil => simp at h; simp [h]
  | cons b r ih =>
    simp only [List.mapM_cons] at h
    cases hb : winansi b with
    | none => simp [hb] at h
    | some c =>
      cases hr : r.mapM winansi with
      | none => simp [hb, hr] at h
      | some cr =>
        simp [hb, hr] at h
        rw [← h, List.map_cons, winansi_agree b c hb, ih cr hr]

theorem toUnicode_eq (base n : Nat) (extras : List (Nat × List Nat)) (code : Nat) :
    toUnicode base n extras code
      = (cmapLookup base n extras code).bind fun s => if s.isEmpty then none else some s := rfl

theorem toUnicode_cmap (base n : Nat) (extras : List (Nat × List Nat)) (code : Nat) (s : List Nat)
    (h : toUnicode base n extras code = some s) : cmapLookup base n extras code = some s ∧ s ≠ [] := by
  rw [toUnicode_eq] at h
  cases hr : cmapLookup base n extras code with
  | none => simp [hr] at h
  | some t =>
    simp only [hr, Option.bind_some] at h
    split at h
    · simp at h
    · rename_i hne
      simp at h
      subst h
      exact ⟨rfl, by simpa using hne⟩

theorem mapM_length {α β : Type} (f : α → Option β) (l : List α) (r : List β)
    (h : l.mapM f = some r) : r.length = l.length := by
  induction l generalizing r with
  | nil => simp at h; simp [h]
  | cons a t ih =>
    simp only [List.mapM_cons] at h
    cases ha : f a with
    | none => simp [ha] at h
    | some b =>
      cases ht : t.mapM f with
      | none => simp [ha, ht] at h
      | some rt =>
        simp [ha, ht] at h
        subst h
        simp [ih rt ht]

theorem decT0_codes (base n : Nat) (extras : List (Nat × List Nat)) (codes : List Nat) :
    ∀ (bs : List Nat) (fuel : Nat) (css : List (List Nat)), codes2 bs = some codes →
      codes.mapM (toUnicode base n extras) = some css → bs.length < fuel →
      decT0 base n extras fuel bs = css.flatten := by
  induction codes with
  | nil =>
    intro bs fuel css h1 h2 hf
    simp at h2; subst h2
    match bs, h1 with
    | [], _ => cases fuel <;> simp [decT0]
    | [_], h1 => simp [codes2] at h1
    | a :: b :: r, h1 =>
      simp only [codes2] at h1
      cases hr : codes2 r <;> simp [hr] at h1
  | cons code rest ih =>
    intro bs fuel css h1 h2 hf
    match bs, h1 with
    | [], h1 => simp [codes2] at h1
    | [_], h1 => simp [codes2] at h1
    | a :: b :: r, h1 =>
      simp only [codes2] at h1
      cases hr : codes2 r with
      | none => simp [hr] at h1
      | some t =>
        simp [hr] at h1
        obtain ⟨hc, ht⟩ := h1
        subst ht
        simp only [List.mapM_cons] at h2
        cases hu : toUnicode base n extras code with
        | none => simp [hu] at h2
        | some s =>
          cases hm : t.mapM (toUnicode base n extras) with
          | none => simp [hu, hm] at h2
          | some ss =>
            simp [hu, hm] at h2
            subst h2
            cases fuel with
            | zero => simp at hf
            | succ fuel =>
              have hl := (toUnicode_cmap base n extras code s hu).1
              simp only [decT0, hc, hl, List.flatten_cons]
              rw [ih r fuel ss hr hm (by simp at hf; omega)]

/-- what `Spec.chars` guarantees about a string operand -/
theorem chars_spec (f : Font) (bs cs : List Nat) (h : Spec.chars f bs = some cs) :
    (cs.any isControl = false) ∧ (cs = [] ↔ bs = []) ∧
    decodeWithFont f bs = cs := by
  unfold Spec.chars at h
  simp only at h
  cases f with
  | simple =>
    simp only at h
    cases hm : bs.mapM winansi with
    | none => simp [hm] at h
    | some s =>
      simp only [hm, Option.bind_some] at h
      split at h
      · simp at h
      · rename_i hc
        simp at h; subst h
        have hlen : s.length = bs.length := mapM_length winansi bs s hm
        refine ⟨by simpa using hc, ?_, ?_⟩
        · constructor
          · intro e; subst e; simpa using hlen.symm
          · intro e; subst e; simpa using hlen
        · exact mapM_winansi bs s hm
  | type0 base n extras =>
    simp only at h
    cases hcodes : codes2 bs with
    | none => simp [hcodes] at h
    | some codes =>
      simp only [hcodes, Option.bind_some] at h
      cases hm : codes.mapM (toUnicode base n extras) with
      | none => simp [hm] at h
      | some css =>
        simp only [hm, Option.map_some, Option.bind_some] at h
        split at h
        · simp at h
        · rename_i hc
          simp at h; subst h
          refine ⟨by simpa using hc, ?_, ?_⟩
          · constructor
            · intro e
              -- every code contributes a non-empty string
              match bs, hcodes with
              | [], _ => rfl
              | [_], hcodes => simp [codes2] at hcodes
              | a :: b :: r, hcodes =>
                exfalso
                simp only [codes2] at hcodes
                cases hr : codes2 r with
                | none => simp [hr] at hcodes
                | some t =>
                  simp [hr] at hcodes
                  subst hcodes
                  simp only [List.mapM_cons] at hm
                  cases hu : toUnicode base n extras (a * 256 + b) with
                  | none => simp [hu] at hm
                  | some s =>
                    cases hm2 : t.mapM (toUnicode base n extras) with
                    | none => simp [hu, hm2] at hm
                    | some ss =>
                      simp [hu, hm2] at hm
                      subst hm
                      have := (toUnicode_cmap base n extras _ s hu).2
                      simp at e
                      exact this e.1
            · intro e; subst e
              simp [codes2] at hcodes; subst hcodes
              simp at hm; subst hm; rfl
          · simp only [decodeWithFont]
            exact decT0_codes base n extras codes bs _ css hcodes hm (by omega)

/-! ### sanitisation of control-free text -/

theorem sanitizeAux_clean (cr : Nat) : ∀ (fuel : Nat) (s : List Nat) (ls : Bool),
    s.length < fuel → s.any isControl = false →
    nonWs (sanitizeAux cr fuel s ls) = nonWs s ∧
    (sanitizeAux cr fuel s ls).any isControl = false ∧
    (ls = false → s ≠ [] → sanitizeAux cr fuel s ls ≠ []) := by
  intro fuel
  induction fuel with
  | zero => intro s ls h; simp at h
  | succ fuel ih =>
    intro s ls hf hc
    cases s with
    | nil => simp [sanitizeAux, nonWs]
    | cons c rest =>
      simp only [List.any_cons, Bool.or_eq_false_iff] at hc
      obtain ⟨hcc, hcr⟩ := hc
      have hlen : rest.length < fuel := by simp at hf; omega
      have hc0 : (c == 0) = false := by
        cases h : c == 0 <;> simp_all [isControl]
      have hc3 : (c == 3) = false := by
        cases h : c == 3 <;> simp_all [isControl]
      have hc13 : (c == 13) = false := by
        cases h : c == 13 <;> simp_all [isControl]
      have hc9 : (c == 9) = false := by
        cases h : c == 9 <;> simp_all [isControl]
      have hc10 : (c == 10) = false := by
        cases h : c == 10 <;> simp_all [isControl]
      have hac : isAsciiControl c = false := by
        simp [isControl] at hcc
        simp [isAsciiControl]
        omega
      simp only [sanitizeAux, hc0, hc3, hc13, hc9, hc10, hac, Bool.false_eq_true, ↓reduceIte]
      by_cases h32 : (c == 32) = true
      · have e32 : c = 32 := by simpa using h32
        subst e32
        simp only [BEq.rfl, ↓reduceIte]
        cases ls with
        | true =>
          obtain ⟨a1, a2, _⟩ := ih rest true hlen hcr
          simp only [↓reduceIte]
          refine ⟨?_, a2, by simp⟩
          rw [a1]; simp [nonWs, isWs]
        | false =>
          obtain ⟨a1, a2, _⟩ := ih rest true hlen hcr
          simp only [Bool.false_eq_true, ↓reduceIte]
          refine ⟨?_, ?_, by simp⟩
          · have : nonWs (SP :: sanitizeAux cr fuel rest true) = nonWs (sanitizeAux cr fuel rest true) := by
              simp [nonWs, isWs, SP]
            rw [this, a1]; simp [nonWs, isWs]
          · simp [a2, SP, isControl]
      · have h32' : (c == 32) = false := by simpa using h32
        obtain ⟨a1, a2, _⟩ := ih rest false hlen hcr
        simp only [h32', Bool.false_eq_true, ↓reduceIte]
        refine ⟨?_, ?_, by simp⟩
        · simp only [nonWs, List.filter_cons] at a1 ⊢
          rw [a1]
        · simp [a2, hcc]

theorem sanitize_clean (cr : Nat) (s : List Nat) (hc : s.any isControl = false) :
    nonWs (sanitize cr s) = nonWs s ∧ (sanitize cr s).any isControl = false ∧
    (s ≠ [] → sanitize cr s ≠ []) := by
  obtain ⟨a, b, c⟩ := sanitizeAux_clean cr (s.length + 1) s false (by omega) hc
  exact ⟨a, b, c rfl⟩

theorem sanitize_nil (cr : Nat) : sanitize cr [] = [] := by simp [sanitize, sanitizeAux]

theorem decodeText_nil (cr : Nat) (font : Option (Option Font)) : decodeText cr font [] = some [] := by
  unfold decodeText
  split
  · simp [sanitize_nil]
  · simp [fallbackNamed, sanitize_nil]
  · rename_i f
    have : decodeWithFont f [] = [] := by
      cases f <;> simp [decodeWithFont, decT0]
    simp [this, sanitize_nil, decodeIsUsable, fallbackNamed]

theorem usable_of_clean (s : List Nat) (hne : s ≠ []) (hc : s.any isControl = false) :
    decodeIsUsable s = true := by
  cases s with
  | nil => exact absurd rfl hne
  | cons c r =>
    simp only [List.any_cons, Bool.or_eq_false_iff] at hc
    simp [decodeIsUsable, hc.1]

/-- `decode_text` on an operand the reference semantics assigns characters to -/
theorem decodeText_sim (cr : Nat) (f : Font) (bs cs : List Nat) (h : Spec.chars f bs = some cs) :
    ∃ d, decodeText cr (some (some f)) bs = some d ∧ nonWs d = nonWs cs ∧ (d = [] ↔ cs = []) := by
  obtain ⟨hctl, hnil, hdec⟩ := chars_spec f bs cs h
  have hd := hdec
  by_cases hcs : cs = []
  · have hb : bs = [] := hnil.1 hcs
    subst hb; subst hcs
    exact ⟨[], decodeText_nil cr _, rfl, Iff.rfl⟩
  · obtain ⟨s1, s2, s3⟩ := sanitize_clean cr cs hctl
    refine ⟨sanitize cr cs, ?_, s1, ?_⟩
    · simp only [decodeText, hd]
      rw [if_pos (usable_of_clean _ (s3 hcs) s2)]
    · constructor
      · intro e; exact absurd e (s3 hcs)
      · intro e; exact absurd e hcs

/-! ### the reference run only ever leaves the "clean" set, never re-enters it -/

/-- inside the property's domain and none of the listed open defects exercised -/
def good (s : SSt) : Bool := s.ok && !s.nestedAT && !s.inherited

structure Mono (s s' : SSt) : Prop where
  ok : s'.ok = true → s.ok = true
  n : s.nestedAT = true → s'.nestedAT = true
  i : s.inherited = true → s'.inherited = true

theorem Mono.refl (s : SSt) : Mono s s := ⟨id, id, id⟩

theorem Mono.trans {a b c : SSt} (h1 : Mono a b) (h2 : Mono b c) : Mono a c :=
  ⟨fun h => h1.ok (h2.ok h), fun h => h2.n (h1.n h), fun h => h2.i (h1.i h)⟩

theorem Mono.good {s s' : SSt} (h : Mono s s') (g : good s' = true) : good s = true := by
  simp only [C11.good, Bool.and_eq_true, Bool.not_eq_true'] at g ⊢
  obtain ⟨⟨g1, g2⟩, g4⟩ := g
  refine ⟨⟨h.ok g1, ?_⟩, ?_⟩
  · cases hn : s.nestedAT
    · rfl
    · rw [h.n hn] at g2; exact absurd g2 (by simp)
  · cases hn : s.inherited
    · rfl
    · rw [h.i hn] at g4; exact absurd g4 (by simp)

theorem good_bad (r : String) (s : SSt) : good (bad r s) = false := by
  unfold bad good
  split
  · simp
  · rename_i h; simp at h; simp [h]

theorem mono_bad (r : String) (s : SSt) : Mono s (bad r s) := by
  unfold bad
  split
  · exact ⟨by simp, by simp, by simp⟩
  · exact Mono.refl s

theorem mono_flagS (f : Font) (bs : List Nat) (s : SSt) : Mono s (flagS f bs s) := by
  unfold flagS
  split <;> exact ⟨by simp, by simp, by simp⟩

theorem mono_emitS (ia : Bool) (cs : List Nat) (s : SSt) : Mono s (emitS ia cs s) := by
  unfold emitS
  split
  · exact Mono.refl s
  · split
    · split
      · exact Mono.refl s
      · exact ⟨id, id, id⟩
    · exact ⟨id, id, id⟩

theorem mono_showS (ia : Bool) (bs : List Nat) (s : SSt) : Mono s (showS ia bs s) := by
  unfold showS
  split
  · exact mono_bad _ _
  · split
    · exact mono_bad _ _
    · split
      · exact Mono.trans (mono_flagS _ _ _) (mono_bad _ _)
      · exact Mono.trans (mono_flagS _ _ _) (mono_emitS _ _ _)

theorem mono_openScope (art : Bool) (actual : Option (List Nat)) (s : SSt) :
    Mono s (openScope art actual s) := by
  unfold openScope
  constructor <;> simp_all

theorem mono_closeScope (ia : Bool) (s : SSt) : Mono s (closeScope ia s) := by
  unfold closeScope
  split
  · exact mono_bad _ _
  · split
    · exact mono_bad _ _
    · split
      · split
        · split <;> exact ⟨id, id, id⟩
        · exact ⟨id, id, id⟩
      · exact ⟨id, id, id⟩

theorem mono_foldl_show (ia : Bool) (items : List TjItem) (s : SSt) :
    Mono s (items.foldl (fun s it => match it with
      | .str bs => showS ia bs s
      | .num => s) s) := by
  induction items generalizing s with
  | nil => exact Mono.refl s
  | cons it rest ih =>
    simp only [List.foldl_cons]
    cases it with
    | str bs => exact Mono.trans (mono_showS ia bs s) (ih _)
    | num => exact ih _

theorem mono_stepS (P : Prog) (ia : Bool) (fmap : List Nat) (op : Op) (s : SSt) :
    Mono s (stepS P ia fmap op s) := by
  cases op <;> simp only [stepS]
  case bt => split; exact mono_bad _ _; exact ⟨id, id, id⟩
  case et => split; exact ⟨id, id, id⟩; exact mono_bad _ _
  case q => split; exact mono_bad _ _; exact ⟨id, id, id⟩
  case Q => split; exact ⟨id, id, id⟩; exact mono_bad _ _
  case tf nm =>
    split
    · split
      · exact ⟨id, id, id⟩
      · exact mono_bad _ _
    · exact mono_bad _ _
  case tj bs => exact mono_showS ia bs s
  case quote bs => exact mono_showS ia bs s
  case tjArr items => split; exact mono_bad _ _; exact mono_foldl_show ia items s
  case bmc art => exact mono_openScope art none s
  case bdc art actual => exact mono_openScope art actual s
  case emc => exact mono_closeScope ia s
  case doX => exact Mono.refl s
  case other => exact Mono.refl s

theorem mono_runS (P : Prog) (ia : Bool) (call : Nat → SSt → SSt) (hcall : ∀ j s, Mono s (call j s))
    (fmap xmap : List Nat) (ops : List Op) (s : SSt) : Mono s (runS P ia call fmap xmap ops s) := by
  induction ops generalizing s with
  | nil => exact Mono.refl s
  | cons op rest ih =>
    simp only [runS]
    refine Mono.trans ?_ (ih _)
    split
    · split
      · exact mono_bad _ _
      · split
        · exact hcall _ _
        · exact Mono.refl s
    · exact mono_stepS P ia fmap _ s

theorem mono_levelS (P : Prog) (ia : Bool) (d j : Nat) (s : SSt) : Mono s (levelS P ia d j s) := by
  induction d generalizing j s with
  | zero => exact mono_bad _ _
  | succ d ih =>
    simp only [levelS]
    split
    · exact Mono.refl s
    · rename_i st _
      have h1 := mono_runS P ia (levelS P ia d) (fun j s => ih j s) st.fmap st.xmap st.ops
        { s with saved := [], qDepth := 0, mcLocal := 0, inText := false, fontLocal := false }
      split
      · have h2 := Mono.trans h1 (mono_bad "form-leaves-scope-or-text-object-open" _)
        exact ⟨h2.ok, h2.n, h2.i⟩
      · exact ⟨h1.ok, h1.n, h1.i⟩

/-! ### the simulation relation -/

/-- the model keeps, per marked-content scope, "this scope or an ancestor is an artifact" -/
def cum : List Bool → List Bool
  | [] => []
  | a :: r => (a || r.any id) :: cum r

theorem cum_length (l : List Bool) : (cum l).length = l.length := by
  induction l with
  | nil => rfl
  | cons a r ih => simp [cum, ih]

theorem cum_any (l : List Bool) : (cum l).any id = l.any id := by
  induction l with
  | nil => rfl
  | cons a r ih => simp [cum, ih]

theorem cum_head (l : List Bool) : (cum l).head?.getD false = l.any id := by
  cases l with
  | nil => rfl
  | cons a r => simp [cum]

def fontOk (P : Prog) (c : Cache) (nm : Option Nat) (f : Option Font) (l : Bool) : Prop :=
  l = true → resolveFont P c nm = f.map some

def savedOk (P : Prog) (c : Cache) : List (Option Nat) → List (Option Font × Bool) → Prop
  | [], [] => True
  | nm :: r, fl :: r' => fontOk P c nm fl.1 fl.2 ∧ savedOk P c r r'
  | _, _ => False

theorem savedOk_length (P : Prog) (c : Cache) (a : List (Option Nat)) (b : List (Option Font × Bool))
    (h : savedOk P c a b) : a.length = b.length := by
  induction a generalizing b with
  | nil => cases b <;> simp_all [savedOk]
  | cons x r ih =>
    cases b with
    | nil => simp [savedOk] at h
    | cons y r' => simp [savedOk] at h; simp [ih r' h.2]

def PRel (p : Option Pending) (a : Option ATScope) (mc : List Bool) : Prop :=
  match p, a with
  | none, none => True
  | some p, some a => p.text = a.text ∧ p.depth = a.depth ∧ p.populated = a.shown ∧
      a.depth < mc.length ∧ a.artifact = (mc.drop (mc.length - a.depth - 1)).any id
  | _, _ => False

structure Rel (P : Prog) (c : Cache) (st : St) (s : SSt) : Prop where
  inText : st.inText = s.inText
  dropped : st.dropped = 0
  font : fontOk P c st.font s.font s.fontLocal
  saved : savedOk P c st.saved s.saved
  depth : s.qDepth = s.saved.length
  mc : st.mc = cum s.mc
  pend : PRel st.pending s.atx s.mc

/-- the characters the reference run has shown so far -/
def outS (s : SSt) : List Nat := nonWs s.runs.reverse.flatten

/-- one simulated step: relation re-established, same characters appended -/
def Sim (P : Prog) (c : Cache) (s : SSt) (r : St × List Ev) (s' : SSt) : Prop :=
  Rel P c r.1 s' ∧ outS s' = outS s ++ nonWs (appTexts r.2)

theorem appTexts_nil : appTexts [] = [] := rfl

theorem appTexts_append (a b : List Ev) : appTexts (a ++ b) = appTexts a ++ appTexts b := by
  simp [appTexts]

theorem Sim.same {P : Prog} {c : Cache} {st : St} {s s' : SSt} (h : Rel P c st s')
    (ho : s'.runs = s.runs) : Sim P c s (st, []) s' :=
  ⟨h, by simp [outS, ho, appTexts_nil, nonWs]⟩

theorem Sim.comp {P : Prog} {c : Cache} {s s1 s2 : SSt} {st1 st2 : St} {e1 e2 : List Ev}
    (h1 : Sim P c s (st1, e1) s1) (h2 : Sim P c s1 (st2, e2) s2) : Sim P c s (st2, e1 ++ e2) s2 :=
  ⟨h2.1, by rw [h2.2, h1.2, appTexts_append, nonWs_append, List.append_assoc]⟩

/-! ### font lookup through the cache -/

theorem lookupAssoc_zip_range' (l : List Nat) (c : Cache) : ∀ (s k g : Nat), s ≤ k → l[k - s]? = some g →
    lookupAssoc k ((List.range' s l.length).zip l ++ c) = some g := by
  induction l with
  | nil => intro s k g _ h; simp at h
  | cons a r ih =>
    intro s k g hs h
    simp only [List.length_cons, List.range'_succ, List.zip_cons_cons, List.cons_append, lookupAssoc]
    by_cases hk : k = s
    · subst hk
      simp at h
      simp [h]
    · have : (s == k) = false := by simp; omega
      simp only [this, Bool.false_eq_true, ↓reduceIte]
      apply ih (s + 1) k g (by omega)
      have e : k - s = (k - (s + 1)) + 1 := by omega
      rw [e] at h
      simpa using h

theorem lookup_cacheFonts (fmap : List Nat) (c : Cache) (nm g : Nat) (h : fmap[nm]? = some g) :
    lookupAssoc nm (cacheFonts fmap c) = some g := by
  unfold cacheFonts
  rw [List.range_eq_range']
  exact lookupAssoc_zip_range' fmap c 0 nm g (by omega) (by simpa using h)

/-! ### showing a string -/

theorem flagS_good (f : Font) (bs : List Nat) (s : SSt) (hg : good (flagS f bs s) = true) :
    flagS f bs s = s ∧ (s.fontLocal = false → bs = []) := by
  unfold flagS at hg ⊢
  by_cases h1 : (!s.fontLocal && !bs.isEmpty) = true
  · exfalso
    simp only [h1, ↓reduceIte] at hg
    simp [good] at hg
  · simp only [h1, Bool.false_eq_true, ↓reduceIte] at hg ⊢
    refine ⟨by first | rfl | trivial, ?_⟩
    intro hl
    simp [hl] at h1
    exact h1

theorem showStr_sim (P : Prog) (ia : Bool) (cr : Nat) (c : Cache) (k : SepK) (bs : List Nat)
    (st : St) (s : SSt) (hrel : Rel P c st s) (hg : good (showS ia bs s) = true) :
    Sim P c s (showStr P ia cr c k bs st) (showS ia bs s) := by
  unfold showS at hg ⊢
  by_cases hin : (!s.inText) = true
  · simp [hin, good_bad] at hg
  simp only [hin, Bool.false_eq_true, ↓reduceIte] at hg ⊢
  cases hf : s.font with
  | none => simp [hf, good_bad] at hg
  | some f =>
    simp only [hf] at hg ⊢
    cases hc : Spec.chars f bs with
    | none => simp [hc, good_bad] at hg
    | some cs =>
      simp only [hc] at hg ⊢
      have hg1 : good (flagS f bs s) = true := (mono_emitS ia cs _).good hg
      obtain ⟨hfl, hloc⟩ := flagS_good f bs s hg1
      rw [hfl] at hg ⊢
      -- the decoded string
      have hdec : ∃ d, decodeText cr (resolveFont P c st.font) bs = some d ∧ nonWs d = nonWs cs ∧
          (d = [] ↔ cs = []) := by
        cases hl : s.fontLocal with
        | false =>
          have hb := hloc hl
          subst hb
          have hcs : cs = [] := (chars_spec f [] cs hc).2.1.2 rfl
          subst hcs
          exact ⟨[], decodeText_nil cr _, rfl, Iff.rfl⟩
        | true =>
          have := hrel.font hl
          rw [this, hf]
          exact decodeText_sim cr f bs cs hc
      obtain ⟨d, hd1, hd2, hd3⟩ := hdec
      have hskip : skipArtifact ia st = (s.mc.any id && !ia) := by
        simp [skipArtifact, hrel.mc, cum_any, Bool.and_comm]
      unfold showStr emitS
      simp only [hd1, hskip]
      by_cases hsk : (s.mc.any id && !ia) = true
      · simp only [hsk, ↓reduceIte]
        exact Sim.same hrel rfl
      · simp only [hsk, Bool.false_eq_true, ↓reduceIte]
        have hp := hrel.pend
        cases hpend : st.pending with
        | some p =>
          cases hatx : s.atx with
          | none => simp [PRel, hpend, hatx] at hp
          | some a =>
            simp only [PRel, hpend, hatx] at hp
            simp only
            by_cases hde : d.isEmpty = true
            · have hd0 : d = [] := by simpa using hde
              have hc0 : cs = [] := hd3.1 hd0
              simp only [hde, hc0, List.isEmpty_nil, ↓reduceIte]
              refine ⟨hrel, ?_⟩
              simp [appTexts, evApp, nonWs]
            · have hc0 : cs.isEmpty = false := by
                cases hce : cs.isEmpty
                · rfl
                · exfalso; apply hde; simp at hce; simp [hd3.2 hce]
              simp only [hde, hc0, Bool.false_eq_true, ↓reduceIte]
              refine ⟨⟨hrel.inText, hrel.dropped, hrel.font, hrel.saved, hrel.depth, hrel.mc, ?_⟩, ?_⟩
              · simp only [PRel]
                exact ⟨hp.1, hp.2.1, by first | rfl | trivial, hp.2.2.2.1, hp.2.2.2.2⟩
              · simp [outS, appTexts, evApp, nonWs]
        | none =>
          cases hatx : s.atx with
          | some a => simp [PRel, hpend, hatx] at hp
          | none =>
            simp only
            refine ⟨⟨hrel.inText, hrel.dropped, hrel.font, hrel.saved, hrel.depth, hrel.mc, ?_⟩, ?_⟩
            · simpa [hpend, hatx] using hp
            · by_cases hde : d.isEmpty = true
              · simp only [hde, ↓reduceIte]
                simp [outS, appTexts, evApp, nonWs_append, hd2]
              · simp only [hde, Bool.false_eq_true, ↓reduceIte]
                simp [outS, appTexts, evApp, nonWs_append, hd2]

theorem Sim.comp' {P : Prog} {c : Cache} {s s1 s2 : SSt} {r1 r2 : St × List Ev}
    (h1 : Sim P c s r1 s1) (h2 : Sim P c s1 r2 s2) : Sim P c s (r2.1, r1.2 ++ r2.2) s2 :=
  ⟨h2.1, by rw [h2.2, h1.2, appTexts_append, nonWs_append, List.append_assoc]⟩

theorem showArr_str (P : Prog) (ia : Bool) (cr : Nat) (c : Cache) (bs : List Nat) (rest : List TjItem)
    (first : Bool) (st : St) :
    showArr P ia cr c (.str bs :: rest) first st
      = ((showArr P ia cr c rest false (showStr P ia cr c (.arr first) bs st).1).1,
         (showStr P ia cr c (.arr first) bs st).2
           ++ (showArr P ia cr c rest false (showStr P ia cr c (.arr first) bs st).1).2) := rfl

theorem showArr_num (P : Prog) (ia : Bool) (cr : Nat) (c : Cache) (rest : List TjItem)
    (first : Bool) (st : St) :
    showArr P ia cr c (.num :: rest) first st
      = ((showArr P ia cr c rest first st).1,
         (if skipArtifact ia st then [] else [Ev.kern st.pending.isNone])
           ++ (showArr P ia cr c rest first st).2) := rfl

theorem showArr_sim (P : Prog) (ia : Bool) (cr : Nat) (c : Cache) (items : List TjItem) :
    ∀ (first : Bool) (st : St) (s : SSt), Rel P c st s →
      good (items.foldl (fun s it => match it with
        | .str bs => showS ia bs s
        | .num => s) s) = true →
      Sim P c s (showArr P ia cr c items first st) (items.foldl (fun s it => match it with
        | .str bs => showS ia bs s
        | .num => s) s) := by
  induction items with
  | nil =>
    intro first st s hrel _
    exact Sim.same hrel rfl
  | cons it rest ih =>
    intro first st s hrel hg
    simp only [List.foldl_cons] at hg ⊢
    cases it with
    | str bs =>
      simp only at hg ⊢
      have hg1 : good (showS ia bs s) = true := (mono_foldl_show ia rest _).good hg
      have h1 := showStr_sim P ia cr c (.arr first) bs st s hrel hg1
      have h2 := ih false _ _ h1.1 hg
      rw [showArr_str]
      exact Sim.comp' h1 h2
    | num =>
      simp only at hg ⊢
      have h2 := ih first st s hrel hg
      rw [showArr_num]
      have h1 : Sim P c s (st, if skipArtifact ia st then [] else [Ev.kern st.pending.isNone]) s := by
        refine ⟨hrel, ?_⟩
        split <;> simp [appTexts, evApp, nonWs]
      exact Sim.comp' h1 h2

/-! ### marked content -/

theorem drop_succ_cons (k : Nat) (a : Bool) (l : List Bool) : (a :: l).drop (k + 1) = l.drop k := rfl

theorem openScope_sim (P : Prog) (c : Cache) (art : Bool) (actual : Option (List Nat)) (st : St)
    (s : SSt) (hrel : Rel P c st s) (hg : good (openScope art actual s) = true) :
    Sim P c s
      ({ (match actual with
          | some t => { st with pending := some { text := t, depth := st.mc.length, populated := false } }
          | none => st) with mc := (art || st.mc.head?.getD false) :: st.mc }, [])
      (openScope art actual s) := by
  have hnest : (s.atx.isSome && actual.isSome) = false := by
    cases h : (s.atx.isSome && actual.isSome)
    · rfl
    · exfalso
      simp [good, openScope, h] at hg
  have hmc : (art || st.mc.head?.getD false) :: st.mc = cum (art :: s.mc) := by
    rw [hrel.mc, cum_head]; rfl
  have hlen : st.mc.length = s.mc.length := by rw [hrel.mc, cum_length]
  have hp := hrel.pend
  refine Sim.same ?_ (by simp [openScope])
  cases actual with
  | none =>
    refine ⟨hrel.inText, hrel.dropped, hrel.font, hrel.saved, hrel.depth, hmc, ?_⟩
    simp only [openScope]
    cases hpend : st.pending with
    | none =>
      cases hatx : s.atx with
      | none => simp [PRel]
      | some a => simp [PRel, hpend, hatx] at hp
    | some p =>
      cases hatx : s.atx with
      | none => simp [PRel, hpend, hatx] at hp
      | some a =>
        simp only [PRel, hpend, hatx] at hp ⊢
        refine ⟨hp.1, hp.2.1, hp.2.2.1, by simp; omega, ?_⟩
        have e : (art :: s.mc).length - a.depth - 1 = (s.mc.length - a.depth - 1) + 1 := by
          simp; omega
        rw [e, drop_succ_cons]
        exact hp.2.2.2.2
  | some t =>
    have hnone : s.atx = none := by
      cases h : s.atx with
      | none => rfl
      | some a => simp [h] at hnest
    refine ⟨hrel.inText, hrel.dropped, hrel.font, hrel.saved, hrel.depth, hmc, ?_⟩
    simp only [openScope, hnone, PRel, hlen]
    refine ⟨by first | rfl | trivial, by first | rfl | trivial, by first | rfl | trivial, by simp, ?_⟩
    simp

theorem endMarked_sim (P : Prog) (c : Cache) (ia : Bool) (st : St) (s : SSt) (hrel : Rel P c st s)
    (hg : good (closeScope ia s) = true) : Sim P c s (endMarked ia st) (closeScope ia s) := by
  unfold closeScope at hg ⊢
  by_cases hl : (s.mcLocal == 0) = true
  · simp [hl, good_bad] at hg
  simp only [hl, Bool.false_eq_true, ↓reduceIte] at hg ⊢
  cases hmc : s.mc with
  | nil => simp [hmc, good_bad] at hg
  | cons a0 rest =>
    simp only [hmc] at hg ⊢
    have hstmc : st.mc = (a0 || rest.any id) :: cum rest := by rw [hrel.mc, hmc]; rfl
    have hp := hrel.pend
    unfold endMarked
    simp only [hstmc, List.length_cons, cum_length]
    cases hpend : st.pending with
    | none =>
      cases hatx : s.atx with
      | some a => simp [PRel, hpend, hatx] at hp
      | none =>
        simp only
        refine Sim.same ⟨hrel.inText, hrel.dropped, hrel.font, hrel.saved, hrel.depth, rfl, ?_⟩ rfl
        simp [PRel, hpend, hatx]
    | some p =>
      cases hatx : s.atx with
      | none => simp [PRel, hpend, hatx] at hp
      | some a =>
        simp only [PRel, hpend, hatx, hmc, List.length_cons] at hp
        obtain ⟨ht, hd, hpop, hlt, hart⟩ := hp
        simp only
        by_cases hdep : a.depth = rest.length
        · have e1 : (p.depth + 1 == rest.length + 1) = true := by simp [hd, hdep]
          have e2 : (a.depth == rest.length) = true := by simp [hdep]
          simp only [e1, e2, ↓reduceIte]
          have hart' : a.artifact = (a0 || rest.any id) := by
            rw [hart, hdep]; simp
          have hin : ((a0 || rest.any id) || (cum rest).any id) = a.artifact := by
            rw [cum_any, hart']; cases a0 <;> simp
          rw [hin, hpop]
          by_cases hsh : a.shown = true
          · simp only [hsh, ↓reduceIte, Bool.true_and]
            by_cases hfl : (!a.artifact || ia) = true
            · simp only [hfl, ↓reduceIte]
              refine ⟨⟨hrel.inText, hrel.dropped, hrel.font, hrel.saved, hrel.depth, rfl, ?_⟩, ?_⟩
              · simp [PRel]
              · simp [outS, appTexts, evApp, nonWs_append, ht]
            · simp only [hfl, Bool.false_eq_true, ↓reduceIte]
              refine Sim.same ⟨hrel.inText, hrel.dropped, hrel.font, hrel.saved, hrel.depth, rfl, ?_⟩ rfl
              simp [PRel]
          · simp only [hsh, Bool.false_eq_true, ↓reduceIte, Bool.false_and]
            refine Sim.same ⟨hrel.inText, hrel.dropped, hrel.font, hrel.saved, hrel.depth, rfl, ?_⟩ rfl
            simp [PRel]
        · have e1 : (p.depth + 1 == rest.length + 1) = false := by simp [hd, hdep]
          have e2 : (a.depth == rest.length) = false := by simp [hdep]
          simp only [e1, e2, Bool.false_eq_true, ↓reduceIte]
          refine Sim.same ⟨hrel.inText, hrel.dropped, hrel.font, hrel.saved, hrel.depth, rfl, ?_⟩ rfl
          simp only [PRel, hpend]
          refine ⟨ht, hd, hpop, by omega, ?_⟩
          have e : rest.length + 1 - a.depth - 1 = (rest.length - a.depth - 1) + 1 := by omega
          rw [e, drop_succ_cons] at hart
          exact hart

/-! ### one operator (everything except `Do`) -/

theorem stepSimple_sim (P : Prog) (ia : Bool) (cr : Nat) (fmap : List Nat) (c0 : Cache) (op : Op)
    (hop : ∀ nm, op ≠ .doX nm) (st : St) (s : SSt)
    (hrel : Rel P (cacheFonts fmap c0) st s) (hg : good (stepS P ia fmap op s) = true) :
    Sim P (cacheFonts fmap c0) s (stepSimple P ia cr (cacheFonts fmap c0) op st)
      (stepS P ia fmap op s) := by
  cases op with
  | bt =>
    simp only [stepS, stepSimple] at hg ⊢
    by_cases h : s.inText = true
    · simp [h, good_bad] at hg
    · simp only [h, Bool.false_eq_true, ↓reduceIte]
      exact Sim.same ⟨rfl, hrel.dropped, hrel.font, hrel.saved, hrel.depth, hrel.mc, hrel.pend⟩ rfl
  | et =>
    simp only [stepS, stepSimple] at hg ⊢
    by_cases h : s.inText = true
    · simp only [h, ↓reduceIte]
      exact Sim.same ⟨rfl, hrel.dropped, hrel.font, hrel.saved, hrel.depth, hrel.mc, hrel.pend⟩ rfl
    · simp [h, good_bad] at hg
  | q =>
    simp only [stepS, stepSimple] at hg ⊢
    by_cases h : s.qDepth ≥ MAX_DEPTH
    · simp [h, good_bad] at hg
    · have hlen : st.saved.length < MAX_DEPTH := by
        rw [savedOk_length P _ _ _ hrel.saved, ← hrel.depth]; omega
      simp only [h, hlen, ↓reduceIte]
      refine Sim.same ⟨hrel.inText, hrel.dropped, hrel.font, ?_, ?_, hrel.mc, hrel.pend⟩ rfl
      · exact ⟨hrel.font, hrel.saved⟩
      · simp [hrel.depth]
  | Q =>
    simp only [stepS, stepSimple] at hg ⊢
    have hd : ¬ (st.dropped > 0) := by rw [hrel.dropped]; omega
    simp only [hd, ↓reduceIte]
    cases hs : s.saved with
    | nil => simp [hs, good_bad] at hg
    | cons fl r' =>
      have hsv := hrel.saved
      cases hst : st.saved with
      | nil => rw [hs, hst] at hsv; simp [savedOk] at hsv
      | cons nm r =>
        rw [hs, hst] at hsv
        simp only [savedOk] at hsv
        obtain ⟨f, l⟩ := fl
        simp only
        refine Sim.same ⟨hrel.inText, hrel.dropped, hsv.1, hsv.2, ?_, hrel.mc, hrel.pend⟩ rfl
        have := hrel.depth
        rw [hs] at this
        simp at this ⊢
        omega
  | tf nm =>
    simp only [stepS, stepSimple] at hg ⊢
    cases hfm : fmap[nm]? with
    | none => simp [hfm, good_bad] at hg
    | some g =>
      simp only [hfm] at hg ⊢
      cases hfo : P.fonts[g]? with
      | none => simp [hfo, good_bad] at hg
      | some f =>
        simp only [hfo] at hg ⊢
        refine Sim.same ⟨hrel.inText, hrel.dropped, ?_, hrel.saved, hrel.depth, hrel.mc, hrel.pend⟩ rfl
        intro _
        simp [resolveFont, lookup_cacheFonts fmap c0 nm g hfm, hfo]
  | tj bs =>
    simp only [stepS, stepSimple] at hg ⊢
    have hin : s.inText = true := by
      cases h : s.inText
      · simp [showS, h, good_bad] at hg
      · rfl
    rw [hrel.inText, hin]
    exact showStr_sim P ia cr _ .tj bs st s hrel hg
  | quote bs =>
    simp only [stepS, stepSimple] at hg ⊢
    have hin : s.inText = true := by
      cases h : s.inText
      · simp [showS, h, good_bad] at hg
      · rfl
    rw [hrel.inText, hin]
    exact showStr_sim P ia cr _ .nl bs st s hrel hg
  | tjArr items =>
    simp only [stepS, stepSimple] at hg ⊢
    have hin : s.inText = true := by
      cases h : s.inText
      · simp [h, good_bad] at hg
      · rfl
    rw [hrel.inText, hin]
    simp only [hin, Bool.not_true, Bool.false_eq_true, ↓reduceIte] at hg ⊢
    exact showArr_sim P ia cr _ items true st s hrel hg
  | doX nm => exact absurd rfl (hop nm)
  | bmc art =>
    simp only [stepS, stepSimple] at hg ⊢
    exact openScope_sim P _ art none st s hrel hg
  | bdc art actual =>
    simp only [stepS, stepSimple] at hg ⊢
    exact openScope_sim P _ art actual st s hrel hg
  | emc =>
    simp only [stepS, stepSimple] at hg ⊢
    exact endMarked_sim P _ ia st s hrel hg
  | other =>
    simp only [stepS, stepSimple]
    exact Sim.same hrel rfl

/-! ### the loop, forms, the page -/

theorem runOps_cons (P : Prog) (ia : Bool) (cr : Nat) (call : Nat → Cache → St → St × List Ev)
    (xmap : List Nat) (c : Cache) (op : Op) (rest : List Op) (st : St) :
    runOps P ia cr call xmap c (op :: rest) st
      = let r1 := (match op with
          | .doX nm => (match xmap[nm]? with
            | some j => call j c st
            | none => (st, []))
          | op => stepSimple P ia cr c op st)
        ((runOps P ia cr call xmap c rest r1.1).1, r1.2 ++ (runOps P ia cr call xmap c rest r1.1).2) := by
  cases op <;> rfl

theorem runOps_sim (P : Prog) (ia : Bool) (cr : Nat) (call : Nat → Cache → St → St × List Ev)
    (callS : Nat → SSt → SSt) (hmono : ∀ j s, Mono s (callS j s))
    (hcall : ∀ j c st s, Rel P c st s → good (callS j s) = true → Sim P c s (call j c st) (callS j s))
    (fmap xmap : List Nat) (c0 : Cache) (ops : List Op) :
    ∀ (st : St) (s : SSt), Rel P (cacheFonts fmap c0) st s →
      good (runS P ia callS fmap xmap ops s) = true →
      Sim P (cacheFonts fmap c0) s (runOps P ia cr call xmap (cacheFonts fmap c0) ops st)
        (runS P ia callS fmap xmap ops s) := by
  induction ops with
  | nil => intro st s hrel _; exact Sim.same hrel rfl
  | cons op rest ih =>
    intro st s hrel hg
    rw [runOps_cons]
    simp only [runS] at hg ⊢
    have hg1 := (mono_runS P ia callS hmono fmap xmap rest _).good hg
    cases op with
    | doX nm =>
      simp only at hg hg1 ⊢
      by_cases hin : s.inText = true
      · simp [hin, good_bad] at hg1
      · simp only [hin, Bool.false_eq_true, ↓reduceIte] at hg hg1 ⊢
        cases hx : xmap[nm]? with
        | none =>
          simp only [hx] at hg hg1 ⊢
          have h1 : Sim P (cacheFonts fmap c0) s (st, []) s := Sim.same hrel rfl
          exact Sim.comp' h1 (ih st s hrel hg)
        | some j =>
          simp only [hx] at hg hg1 ⊢
          have h1 := hcall j (cacheFonts fmap c0) st s hrel hg1
          exact Sim.comp' h1 (ih _ _ h1.1 hg)
    | bt | et | q | Q | tf _ | tj _ | tjArr _ | quote _ | bmc _ | bdc _ _ | emc | other =>
      have h1 := stepSimple_sim P ia cr fmap c0 _ (by intro nm; simp) st s hrel hg1
      exact Sim.comp' h1 (ih _ _ h1.1 hg)

theorem level_sim (P : Prog) (ia : Bool) (cr : Nat) (d : Nat) :
    ∀ (j : Nat) (c : Cache) (st : St) (s : SSt), Rel P c st s → good (levelS P ia d j s) = true →
      Sim P c s (level P ia cr d j c st) (levelS P ia d j s) := by
  induction d with
  | zero => intro j c st s _ hg; simp [levelS, good_bad] at hg
  | succ d ih =>
    intro j c st s hrel hg
    simp only [levelS, level] at hg ⊢
    cases hj : P.streams[j]? with
    | none => exact Sim.same hrel rfl
    | some str =>
      simp only [hj] at hg ⊢
      -- the relation inside the form
      have hsub : Rel P (cacheFonts str.fmap c)
          { st with saved := [], dropped := 0, inText := false }
          { s with saved := [], qDepth := 0, mcLocal := 0, inText := false, fontLocal := false } :=
        ⟨rfl, rfl, by intro h; simp at h, by simp [savedOk], rfl, hrel.mc, hrel.pend⟩
      generalize hout : runS P ia (levelS P ia d) str.fmap str.xmap str.ops
        { s with saved := [], qDepth := 0, mcLocal := 0, inText := false, fontLocal := false } = out at hg ⊢
      by_cases hb : (out.mcLocal != 0 || out.inText) = true
      · exfalso
        simp only [hb, ↓reduceIte] at hg
        have : good (bad "form-leaves-scope-or-text-object-open" out) = false := good_bad _ _
        simp [good, bad] at hg this
        split at hg <;> simp_all
      · simp only [hb, Bool.false_eq_true, ↓reduceIte] at hg ⊢
        have hgo : good out = true := by simpa [good] using hg
        have hsim := runOps_sim P ia cr (level P ia cr d) (levelS P ia d)
          (fun j s => mono_levelS P ia d j s) (fun j c st s => ih j c st s)
          str.fmap str.xmap c str.ops _ _ hsub (by rw [hout]; exact hgo)
        rw [hout] at hsim
        simp only [paint]
        refine ⟨⟨hrel.inText, hrel.dropped, hrel.font, hrel.saved, hrel.depth, hsim.1.mc, hsim.1.pend⟩, ?_⟩
        have := hsim.2
        simpa [outS] using this

/-- The operator loop of the model and the reference semantics emit the same characters in the same
    order on every page program the reference semantics accepts without meeting a listed defect. -/
theorem events_sim (P : Prog) (ia : Bool) (cr : Nat) (hg : good (Spec.run P ia) = true) :
    nonWs (appTexts (events P ia cr).2) = outS (Spec.run P ia) := by
  unfold Spec.run at hg ⊢
  unfold events
  cases h0 : P.streams[0]? with
  | none => simp [h0, good_bad] at hg
  | some str =>
    simp only [h0] at hg ⊢
    generalize hout : runS P ia (levelS P ia MAX_XOBJECT_DEPTH) str.fmap str.xmap str.ops {} = out at hg ⊢
    by_cases hb : (out.mcLocal != 0 || out.inText) = true
    · simp [hb, good_bad] at hg
    · simp only [hb, Bool.false_eq_true, ↓reduceIte] at hg ⊢
      have hinit : Rel P (cacheFonts str.fmap []) ({} : St) ({} : SSt) :=
        ⟨rfl, rfl, by intro _; rfl, by simp [savedOk], rfl, rfl, by simp [PRel]⟩
      have hsim := runOps_sim P ia cr (level P ia cr MAX_XOBJECT_DEPTH) (levelS P ia MAX_XOBJECT_DEPTH)
        (fun j s => mono_levelS P ia _ j s) (fun j c st s => level_sim P ia cr _ j c st s)
        str.fmap str.xmap [] str.ops _ _ hinit (by rw [hout]; exact hg)
      rw [hout] at hsim
      have := hsim.2
      simpa [outS, nonWs] using this.symm

/-! ### glue for the end-to-end statement -/

theorem consume1_frags_nolay (Ω : FlatΩ) (mh : Bool) (limit : Option Nat) (i : Nat) (e : Ev) (a : Acc) :
    (consume1 Ω mh false limit i e a).frags = a.frags := by
  unfold consume1
  split
  · rfl
  · cases e with
    | app k txt =>
      simp only
      split
      · rfl
      · rw [(groupAfter_fields k _ _ _).2.1]
    | kern pn =>
      simp only
      split
      · split
        · rfl
        · simp [extendGroup]
      · rfl
    | frag txt => simp

theorem consumeFrom_frags_nolay (Ω : FlatΩ) (mh : Bool) (limit : Option Nat) (evs : List Ev) :
    ∀ (i : Nat) (a : Acc), (consumeFrom Ω mh false limit i evs a).frags = a.frags := by
  induction evs with
  | nil => intro i a; rfl
  | cons e r ih =>
    intro i a
    simp only [consumeFrom]
    rw [ih, consume1_frags_nolay]

theorem chars_of_frags {G : Type} (geom : Nat → G) (fr : List (List Nat × Nat)) :
    chars (fr.reverse.map fun x => ({ text := x.1, g := geom x.2 } : Frag G)) = fragChars fr := by
  unfold chars fragChars
  generalize fr.reverse = l
  induction l with
  | nil => rfl
  | cons x r ih => simp [ih]

end OxiVerif.C11
