import OxiVerif.Model.C19
set_option linter.unusedSimpArgs false
/-!
Helper lemmas for C19: token accounting (a header needs at least seven bytes), the scanner as a
fold over bytes, line-tail bookkeeping.
-/
namespace OxiVerif.C19

/-! ### a parsed header line is at least 7 bytes long -/

/-- bytes a token list accounts for: every token plus one separator -/
def weight : List Bytes → Nat
  | [] => 0
  | t :: r => t.length + 1 + weight r

theorem weight_append (a b : List Bytes) : weight (a ++ b) = weight a + weight b := by
  induction a with
  | nil => simp [weight]
  | cons t r ih => simp [weight, ih]; omega

theorem weight_reverse (a : List Bytes) : weight a.reverse = weight a := by
  induction a with
  | nil => rfl
  | cons t r ih => simp [weight_append, weight, ih]; omega

theorem wsLen_pos_le (l : Bytes) : wsLen l ≤ l.length := by
  unfold wsLen
  split
  · simp
  · rename_i c r
    split
    · simp
    · split
      · split <;> simp
      · split
        · split <;> simp
        · split
          · split
            · split <;> simp
            · simp
            · simp
          · split
            · split <;> simp
            · simp

theorem tokensGo_weight (l : Bytes) (skip : Nat) (cur : Bytes) (acc : List Bytes) :
    weight (tokensGo l skip cur acc) ≤ weight acc + cur.length + l.length + 1 := by
  induction l generalizing skip cur acc with
  | nil =>
    simp only [tokensGo]
    split
    · simp only [weight_reverse]; omega
    · simp only [weight_reverse, weight_append, weight, List.length_reverse]; omega
  | cons c r ih =>
    cases skip with
    | succ s =>
      simp only [tokensGo]
      have := ih s cur acc
      simp only [List.length_cons]; omega
    | zero =>
      simp only [tokensGo]
      split
      · have := ih 0 (c :: cur) acc
        simp only [List.length_cons] at this ⊢; omega
      · split
        · rename_i hc
          have := ih (wsLen (c :: r) - 1) [] acc
          simp only [List.length_cons, List.length_nil] at this ⊢
          have hc' : cur.length = 0 := by simpa using hc
          omega
        · have := ih (wsLen (c :: r) - 1) [] (cur.reverse :: acc)
          simp only [List.length_cons, List.length_nil, weight, List.length_reverse] at this ⊢
          omega

theorem parseNum_some_length (m : Nat) (t : Bytes) (v : Nat) (h : parseNum m t = some v) :
    1 ≤ t.length := by
  unfold parseNum at h
  cases t with
  | nil => simp at h
  | cons c r => simp

/-- a line that parses as `N G obj` has at least 7 bytes -/
theorem parseObjHeader_some_length (line : Bytes) (x : Nat × Nat)
    (h : parseObjHeader line = some x) : 7 ≤ line.length := by
  unfold parseObjHeader at h
  split at h
  · rename_i a b c rest ht
    split at h
    · rename_i hc
      split at h
      · rename_i n hn
        split at h
        · rename_i g hg
          have hw := tokensGo_weight line 0 [] []
          unfold tokens at ht
          rw [ht] at hw
          have ha := parseNum_some_length _ _ _ hn
          have hb := parseNum_some_length _ _ _ hg
          have hcl : c.length = 3 := by rw [hc]; rfl
          simp only [weight, List.length_nil] at hw
          have : 0 ≤ weight rest := Nat.zero_le _
          omega
        · cases h
      · cases h
    · cases h
  · cases h

/-- fewer than four bytes before the keyword never parse: the `abs < 4` skip is redundant -/
theorem parse_short_none (pre : Bytes) (h : pre.length < 4) :
    parseObjHeader (pre.reverse ++ kwObj) = none := by
  cases hp : parseObjHeader (pre.reverse ++ kwObj) with
  | none => rfl
  | some x =>
    have := parseObjHeader_some_length _ _ hp
    simp [kwObj] at this
    omega

/-! ### the scanner without the window-relative skip -/

structure Core where
  ls : Nat
  lr : Bytes
  acc : List Header

def stepC (st : Core) (c : Nat) : Core :=
  if isEol c then { st with ls := st.ls + st.lr.length + 1, lr := [] }
  else
    { st with lr := c :: st.lr,
              acc := (match hitAt c st.lr with
                | some (n, g) => pushHeader st.acc ⟨n, g, st.ls⟩
                | none => st.acc) }

def St.core (s : St) : Core := ⟨s.ls, s.lr, s.acc⟩

theorem step_core (st : St) (c : Nat) (hb : st.base ≤ st.ls) (hm : st.mid = false) :
    (step st c).core = stepC st.core c ∧ (step st c).base = st.base ∧ st.base ≤ (step st c).ls ∧
      (step st c).mid = false := by
  by_cases he : isEol c = true
  · have h1 : step st c = { st with ls := st.ls + st.lr.length + 1, lr := [] } := by
      unfold step; simp [he]
    have h2 : stepC st.core c = { st.core with ls := st.ls + st.lr.length + 1, lr := [] } := by
      unfold stepC; simp [he, St.core]
    rw [h1, h2]
    refine ⟨rfl, rfl, ?_, hm⟩
    show st.base ≤ st.ls + st.lr.length + 1
    omega
  · have he' : isEol c = false := by simpa using he
    cases hk : kwEnd c st.lr with
    | none =>
      have h1 : step st c = { st with lr := c :: st.lr } := by
        unfold step; simp [he', hk]
      have h2 : stepC st.core c = { st.core with lr := c :: st.lr } := by
        unfold stepC hitAt; simp [he', hk, St.core]
      rw [h1, h2]
      exact ⟨rfl, rfl, hb, hm⟩
    | some pre =>
      have h2 : stepC st.core c = { st.core with lr := c :: st.lr, acc :=
          (match parseObjHeader (pre.reverse ++ kwObj) with
           | some (n, g) => pushHeader st.acc ⟨n, g, st.ls⟩
           | none => st.acc) } := by
        unfold stepC hitAt; simp [he', hk, St.core]
      by_cases h4 : 4 ≤ st.ls - st.base + pre.length
      · have h1 : step st c = { st with lr := c :: st.lr, acc :=
            (match parseObjHeader (pre.reverse ++ kwObj) with
             | some (n, g) => pushHeader st.acc ⟨n, g, st.ls⟩
             | none => st.acc) } := by
          unfold step; simp [he', hk, h4, hm]
          rcases parseObjHeader (pre.reverse ++ kwObj) with _ | ⟨n, g⟩ <;> rfl
        rw [h1, h2]
        exact ⟨rfl, rfl, hb, hm⟩
      · have hp : pre.length < 4 := by omega
        have h1 : step st c = { st with lr := c :: st.lr } := by
          unfold step; simp [he', hk, h4, hm]
        rw [h1, h2, parse_short_none pre hp]
        exact ⟨rfl, rfl, hb, hm⟩

theorem foldl_step_core (w : Bytes) (st : St) (hb : st.base ≤ st.ls) (hm : st.mid = false) :
    (w.foldl step st).core = w.foldl stepC st.core := by
  induction w generalizing st with
  | nil => rfl
  | cons c r ih =>
    simp only [List.foldl_cons]
    have := step_core st c hb hm
    rw [ih (step st c) (by omega) this.2.2.2, this.1]

theorem scanWindow_eq (w : Bytes) (base : Nat) (acc : List Header) :
    scanWindow w base acc = (w.foldl stepC ⟨base, [], acc⟩).acc := by
  unfold scanWindow
  have := foldl_step_core w ⟨base, base, [], acc, false⟩ (Nat.le_refl _) rfl
  have h2 : (w.foldl step ⟨base, base, [], acc, false⟩).acc = (w.foldl step ⟨base, base, [], acc, false⟩).core.acc := rfl
  rw [h2, this]
  rfl

/-! ### one line -/

def hasOff (acc : List Header) (b : Nat) : Bool := acc.any (·.off = b)

theorem pushHeader_hasOff (acc : List Header) (h : Header) (hh : hasOff acc h.off = true) :
    pushHeader acc h = acc := by
  unfold pushHeader; unfold hasOff at hh; simp only [hh, if_true]

theorem pushHeader_new (acc : List Header) (h : Header) (hh : hasOff acc h.off = false) :
    pushHeader acc h = acc ++ [h] := by
  unfold pushHeader; unfold hasOff at hh; simp only [hh, if_false, Bool.false_eq_true]

theorem hasOff_append_self (acc : List Header) (n g b : Nat) : hasOff (acc ++ [⟨n, g, b⟩]) b = true := by
  unfold hasOff; simp [List.any_append]

/-- what one line adds: nothing if a header with this line start is already there, else the
    first parsing `… obj` prefix -/
def lineRes (ls : Nat) (lr seg : Bytes) (acc : List Header) : List Header :=
  if hasOff acc ls then acc else
    match firstHit lr seg with
    | some (n, g) => acc ++ [⟨n, g, ls⟩]
    | none => acc

theorem lineRes_hasOff (ls : Nat) (lr seg : Bytes) (acc : List Header) (h : hasOff acc ls = true) :
    lineRes ls lr seg acc = acc := by
  unfold lineRes; simp [h]

theorem stepC_noeol (ls : Nat) (lr : Bytes) (acc : List Header) (c : Nat) (hc : isEol c = false) :
    stepC ⟨ls, lr, acc⟩ c = ⟨ls, c :: lr, match hitAt c lr with
      | some (n, g) => pushHeader acc ⟨n, g, ls⟩
      | none => acc⟩ := by
  unfold stepC; simp [hc]

theorem stepC_eol (ls : Nat) (lr : Bytes) (acc : List Header) (c : Nat) (hc : isEol c = true) :
    stepC ⟨ls, lr, acc⟩ c = ⟨ls + lr.length + 1, [], acc⟩ := by
  unfold stepC; simp [hc]

theorem foldl_stepC_seg (seg : Bytes) (hs : ∀ c ∈ seg, isEol c = false) (ls : Nat) (lr : Bytes)
    (acc : List Header) :
    seg.foldl stepC ⟨ls, lr, acc⟩ = ⟨ls, seg.reverse ++ lr, lineRes ls lr seg acc⟩ := by
  induction seg generalizing lr acc with
  | nil =>
    simp only [List.foldl_nil, List.reverse_nil, List.nil_append]
    congr 1
    unfold lineRes firstHit
    split <;> rfl
  | cons c r ih =>
    have hc : isEol c = false := hs c (List.mem_cons_self ..)
    have hr : ∀ x ∈ r, isEol x = false := fun x hx => hs x (List.mem_cons_of_mem _ hx)
    rw [List.foldl_cons, stepC_noeol _ _ _ _ hc, ih hr]
    have e1 : r.reverse ++ c :: lr = (c :: r).reverse ++ lr := by simp
    rw [e1]
    congr 1
    by_cases ho : hasOff acc ls = true
    · have : (match hitAt c lr with
        | some (n, g) => pushHeader acc ⟨n, g, ls⟩
        | none => acc) = acc := by
        rcases hitAt c lr with _ | ⟨n, g⟩
        · rfl
        · exact pushHeader_hasOff acc ⟨n, g, ls⟩ ho
      rw [this, lineRes_hasOff _ _ _ _ ho, lineRes_hasOff _ _ _ _ ho]
    · have ho' : hasOff acc ls = false := by simpa using ho
      rcases hh : hitAt c lr with _ | ⟨n, g⟩
      · simp only
        unfold lineRes
        simp only [ho', Bool.false_eq_true, if_false]
        conv => rhs; unfold firstHit
        simp only [hh]
      · simp only
        rw [pushHeader_new acc ⟨n, g, ls⟩ ho', lineRes_hasOff _ _ _ _ (hasOff_append_self ..)]
        unfold lineRes
        simp only [ho', Bool.false_eq_true, if_false]
        unfold firstHit
        simp only [hh]

/-! ### the scanner = one header per line (refinement) -/

theorem hasOff_of_lt (acc : List Header) (b : Nat) (h : ∀ x ∈ acc, x.off < b) : hasOff acc b = false := by
  unfold hasOff
  rw [Bool.eq_false_iff]
  intro hh
  obtain ⟨x, hx, hx'⟩ := List.any_eq_true.1 hh
  have := h x hx
  simp at hx'
  omega

theorem lineRes_fresh (ls : Nat) (seg : Bytes) (acc : List Header) (h : hasOff acc ls = false) :
    lineRes ls [] seg acc = acc ++ (lineHeader (ls, seg)).toList := by
  unfold lineRes lineHeader
  simp only [h, Bool.false_eq_true, if_false]
  rcases firstHit [] seg with _ | ⟨n, g⟩ <;> simp

theorem lineHeader_off (x : Nat × Bytes) (h : Header) (hh : lineHeader x = some h) : h.off = x.1 := by
  unfold lineHeader at hh
  rcases hf : firstHit [] x.2 with _ | ⟨n, g⟩
  · simp [hf] at hh
  · simp [hf] at hh; rw [← hh]

theorem scan_refines (w : Bytes) (ls : Nat) (cur : Bytes) (acc : List Header)
    (hcur : ∀ c ∈ cur, isEol c = false) (hacc : ∀ x ∈ acc, x.off < ls) :
    ((cur.reverse ++ w).foldl stepC ⟨ls, [], acc⟩).acc = acc ++ (linesGo w ls cur).filterMap lineHeader := by
  induction w generalizing ls cur acc with
  | nil =>
    have hc' : ∀ c ∈ cur.reverse, isEol c = false := fun c hc => hcur c (List.mem_reverse.1 hc)
    rw [List.append_nil, foldl_stepC_seg _ hc']
    simp only [linesGo, List.filterMap_cons, List.filterMap_nil]
    rw [lineRes_fresh _ _ _ (hasOff_of_lt _ _ hacc)]
    rcases lineHeader (ls, cur.reverse) with _ | h <;> simp
  | cons c r ih =>
    by_cases hc : isEol c = true
    · have hc' : ∀ c ∈ cur.reverse, isEol c = false := fun c hc => hcur c (List.mem_reverse.1 hc)
      rw [List.foldl_append, foldl_stepC_seg _ hc', List.foldl_cons, stepC_eol _ _ _ _ hc]
      rw [lineRes_fresh _ _ _ (hasOff_of_lt _ _ hacc)]
      have hlen : (cur.reverse.reverse ++ ([] : Bytes)).length = cur.length := by simp
      rw [hlen]
      have hacc1 : ∀ x ∈ acc ++ (lineHeader (ls, cur.reverse)).toList, x.off < ls + cur.length + 1 := by
        intro x hx
        rcases List.mem_append.1 hx with hx | hx
        · have := hacc x hx; omega
        · have : lineHeader (ls, cur.reverse) = some x := by
            rcases hl : lineHeader (ls, cur.reverse) with _ | h
            · rw [hl] at hx; simp at hx
            · rw [hl] at hx; simp at hx; rw [hx]
          have := lineHeader_off _ _ this
          simp at this; omega
      have := ih (ls + cur.length + 1) [] _ (by simp) hacc1
      simp only [List.reverse_nil, List.nil_append] at this
      rw [this]
      simp only [linesGo, hc, if_true, List.filterMap_cons]
      rcases lineHeader (ls, cur.reverse) with _ | h <;> simp
    · have hc' : isEol c = false := by simpa using hc
      have e : cur.reverse ++ c :: r = (c :: cur).reverse ++ r := by simp
      rw [e, ih ls (c :: cur) acc (by
        intro x hx
        rcases List.mem_cons.1 hx with hx | hx
        · rw [hx]; exact hc'
        · exact hcur x hx) hacc]
      simp only [linesGo, hc', Bool.false_eq_true, if_false]

/-- `scan_window_for_headers` on a window that starts at a line start, nothing seen before:
    one header per line with a parsing prefix, at the line's start -/
theorem scanWindow_spec (w : Bytes) (base : Nat) (acc : List Header) (hacc : ∀ x ∈ acc, x.off < base) :
    scanWindow w base acc = acc ++ specHeaders w base := by
  rw [scanWindow_eq]
  have := scan_refines w base [] acc (by simp) hacc
  simpa [specHeaders] using this

theorem scanFull_spec (f : Bytes) : scanFull f = specHeaders f 0 := by
  unfold scanFull
  rw [scanWindow_spec f 0 [] (by simp)]
  simp

/-! ### lines -/

theorem linesGo_append_eol (a : Bytes) (e : Nat) (he : isEol e = true) (rest : Bytes) (ls : Nat)
    (cur : Bytes) :
    linesGo (a ++ e :: rest) ls cur = linesGo a ls cur ++ linesGo rest (ls + cur.length + a.length + 1) [] := by
  induction a generalizing ls cur with
  | nil => simp [linesGo, he]
  | cons c r ih =>
    by_cases hc : isEol c = true
    · simp only [List.cons_append, linesGo, hc, if_true, ih, List.length_nil, List.length_cons]
      have : ls + cur.length + 1 + 0 + r.length + 1 = ls + cur.length + (r.length + 1) + 1 := by omega
      rw [this]
    · have hc' : isEol c = false := by simpa using hc
      simp only [List.cons_append, linesGo, hc', Bool.false_eq_true, if_false, ih, List.length_cons]
      have : ls + (cur.length + 1) + r.length + 1 = ls + cur.length + (r.length + 1) + 1 := by omega
      rw [this]

theorem linesGo_seg (seg : Bytes) (hs : ∀ c ∈ seg, isEol c = false) (ls : Nat) (cur : Bytes) :
    linesGo seg ls cur = [(ls, cur.reverse ++ seg)] := by
  induction seg generalizing cur with
  | nil => simp [linesGo]
  | cons c r ih =>
    have hc : isEol c = false := hs c (List.mem_cons_self ..)
    simp only [linesGo, hc, Bool.false_eq_true, if_false]
    rw [ih (fun x hx => hs x (List.mem_cons_of_mem _ hx))]
    simp

theorem linesGo_offs_ge (w : Bytes) (ls : Nat) (cur : Bytes) : ∀ x ∈ linesGo w ls cur, ls ≤ x.1 := by
  induction w generalizing ls cur with
  | nil => intro x hx; simp [linesGo] at hx; rw [hx]; exact Nat.le_refl _
  | cons c r ih =>
    intro x hx
    by_cases hc : isEol c = true
    · simp only [linesGo, hc, if_true, List.mem_cons] at hx
      rcases hx with hx | hx
      · rw [hx]; exact Nat.le_refl _
      · have := ih _ _ x hx; omega
    · have hc' : isEol c = false := by simpa using hc
      simp only [linesGo, hc', Bool.false_eq_true, if_false] at hx
      exact ih _ _ x hx

theorem linesGo_pairwise (w : Bytes) (ls : Nat) (cur : Bytes) :
    (linesGo w ls cur).Pairwise (fun a b => a.1 < b.1) := by
  induction w generalizing ls cur with
  | nil => simp [linesGo]
  | cons c r ih =>
    by_cases hc : isEol c = true
    · simp only [linesGo, hc, if_true, List.pairwise_cons]
      refine ⟨?_, ih _ _⟩
      intro x hx
      have := linesGo_offs_ge _ _ _ x hx
      show ls < x.1
      omega
    · have hc' : isEol c = false := by simpa using hc
      simp only [linesGo, hc', Bool.false_eq_true, if_false]
      exact ih _ _

theorem specHeaders_pairwise (f : Bytes) (base : Nat) :
    (specHeaders f base).Pairwise (fun a b => a.off < b.off) := by
  unfold specHeaders
  refine List.Pairwise.filterMap lineHeader ?_ (linesGo_pairwise f base [])
  intro a a' hlt b hb b' hb'
  have h1 := lineHeader_off a b (by simpa using hb)
  have h2 := lineHeader_off a' b' (by simpa using hb')
  omega

theorem specHeaders_ge (f : Bytes) (base : Nat) : ∀ h ∈ specHeaders f base, base ≤ h.off := by
  intro h hh
  unfold specHeaders at hh
  obtain ⟨x, hx, hxh⟩ := List.mem_filterMap.1 hh
  have := lineHeader_off x h hxh
  have := linesGo_offs_ge f base [] x hx
  omega

/-- a line of `w` (read from offset `ls`, `cur` already passed): where it stands -/
theorem linesGo_mem (w : Bytes) (ls : Nat) (cur : Bytes) (hcur : ∀ c ∈ cur, isEol c = false) :
    ∀ x ∈ linesGo w ls cur, ∃ a b, cur.reverse ++ w = a ++ x.2 ++ b ∧ x.1 = ls + a.length ∧
      (a = [] ∨ ∃ a' e, a = a' ++ [e] ∧ isEol e = true) ∧ (∀ c ∈ x.2, isEol c = false) ∧
      (b = [] ∨ ∃ e b', b = e :: b' ∧ isEol e = true) := by
  induction w generalizing ls cur with
  | nil =>
    intro x hx
    simp [linesGo] at hx
    refine ⟨[], [], by simp [hx], by simp [hx], Or.inl rfl, ?_, Or.inl rfl⟩
    intro c hc; rw [hx] at hc; exact hcur c (List.mem_reverse.1 hc)
  | cons c r ih =>
    intro x hx
    by_cases hc : isEol c = true
    · simp only [linesGo, hc, if_true, List.mem_cons] at hx
      rcases hx with hx | hx
      · refine ⟨[], c :: r, by simp [hx], by simp [hx], Or.inl rfl, ?_, Or.inr ⟨c, r, rfl, hc⟩⟩
        intro d hd; rw [hx] at hd; exact hcur d (List.mem_reverse.1 hd)
      · obtain ⟨a, b, h1, h2, h3, h4, h5⟩ := ih (ls + cur.length + 1) [] (by simp) x hx
        simp only [List.reverse_nil, List.nil_append] at h1
        refine ⟨cur.reverse ++ c :: a, b, by simp [h1], by simp [h2]; omega, Or.inr ?_, h4, h5⟩
        rcases h3 with h3 | ⟨a', e, h3, he⟩
        · exact ⟨cur.reverse, c, by simp [h3], hc⟩
        · exact ⟨cur.reverse ++ c :: a', e, by simp [h3], he⟩
    · have hc' : isEol c = false := by simpa using hc
      simp only [linesGo, hc', Bool.false_eq_true, if_false] at hx
      obtain ⟨a, b, h1, h2, h3, h4, h5⟩ := ih ls (c :: cur) (by
        intro d hd
        rcases List.mem_cons.1 hd with hd | hd
        · rw [hd]; exact hc'
        · exact hcur d hd) x hx
      exact ⟨a, b, by simpa using h1, h2, h3, h4, h5⟩

/-- every line of `f` is listed -/
theorem linesGo_complete (a line b : Bytes) (base : Nat)
    (ha : a = [] ∨ ∃ a' e, a = a' ++ [e] ∧ isEol e = true) (hl : ∀ c ∈ line, isEol c = false)
    (hb : b = [] ∨ ∃ e b', b = e :: b' ∧ isEol e = true) :
    (base + a.length, line) ∈ linesGo (a ++ line ++ b) base [] := by
  have key : ∀ ls, (ls, line) ∈ linesGo (line ++ b) ls [] := by
    intro ls
    rcases hb with hb | ⟨e, b', hb, he⟩
    · rw [hb, List.append_nil, linesGo_seg _ hl]; simp
    · rw [hb, linesGo_append_eol _ _ he, linesGo_seg _ hl]; simp
  rcases ha with ha | ⟨a', e, ha, he⟩
  · rw [ha]; simpa using key base
  · rw [ha, List.append_assoc, List.append_assoc, List.singleton_append, linesGo_append_eol _ _ he]
    refine List.mem_append_right _ ?_
    have := key (base + ([] : Bytes).length + a'.length + 1)
    simpa [Nat.add_assoc] using this

/-! ### `firstHit`: the first prefix of the line that ends in `obj` and parses -/

/-- `l` ends with the keyword and parses as `N G obj` with these numbers -/
def Hit (l : Bytes) (x : Nat × Nat) : Prop := (∃ p, l = p ++ kwObj) ∧ parseObjHeader l = some x

theorem kwEnd_some (c : Nat) (lr pre : Bytes) (h : kwEnd c lr = some pre) :
    lr.reverse ++ [c] = pre.reverse ++ kwObj := by
  unfold kwEnd at h
  split at h
  · cases h; simp [kwObj]
  · cases h

theorem kwEnd_of_ends (c : Nat) (lr p : Bytes) (h : lr.reverse ++ [c] = p ++ kwObj) :
    kwEnd c lr = some p.reverse := by
  have := congrArg List.reverse h
  simp [kwObj] at this
  obtain ⟨h1, h2⟩ := this
  subst h1; subst h2
  rfl

theorem hitAt_iff (c : Nat) (lr : Bytes) (x : Nat × Nat) : hitAt c lr = some x ↔ Hit (lr.reverse ++ [c]) x := by
  constructor
  · intro h
    unfold hitAt at h
    rcases hk : kwEnd c lr with _ | pre
    · simp [hk] at h
    · simp only [hk] at h
      have e := kwEnd_some c lr pre hk
      exact ⟨⟨pre.reverse, e⟩, by rw [e]; exact h⟩
  · rintro ⟨⟨p, hp⟩, hx⟩
    unfold hitAt
    rw [kwEnd_of_ends c lr p hp]
    simp only [List.reverse_reverse]
    rw [← hp]; exact hx

theorem firstHit_sound (rest lr : Bytes) (x : Nat × Nat) (h : firstHit lr rest = some x) :
    ∃ k, 0 < k ∧ k ≤ rest.length ∧ Hit (lr.reverse ++ rest.take k) x ∧
      ∀ k', 0 < k' → k' < k → ∀ y, ¬ Hit (lr.reverse ++ rest.take k') y := by
  induction rest generalizing lr with
  | nil => simp [firstHit] at h
  | cons c r ih =>
    unfold firstHit at h
    rcases hh : hitAt c lr with _ | y
    · simp only [hh] at h
      obtain ⟨k, hk0, hkl, hhit, hmin⟩ := ih (c :: lr) h
      refine ⟨k + 1, by omega, by simp; omega, by simpa using hhit, ?_⟩
      intro k' hk' hlt y hy
      rcases Nat.lt_or_ge 1 k' with h1 | h1
      · obtain ⟨j, rfl⟩ : ∃ j, k' = j + 1 := ⟨k' - 1, by omega⟩
        exact hmin j (by omega) (by omega) y (by simpa using hy)
      · have : k' = 1 := by omega
        subst this
        have := (hitAt_iff c lr y).2 (by simpa using hy)
        rw [hh] at this; cases this
    · simp only [hh] at h
      cases h
      refine ⟨1, by omega, by simp, ?_, ?_⟩
      · simpa using (hitAt_iff c lr x).1 hh
      · intro k' h0 h1; omega

theorem firstHit_complete (rest lr : Bytes) (k : Nat) (x : Nat × Nat) (hk0 : 0 < k) (hkl : k ≤ rest.length)
    (hhit : Hit (lr.reverse ++ rest.take k) x) : (firstHit lr rest).isSome = true := by
  induction rest generalizing lr k with
  | nil => simp at hkl; omega
  | cons c r ih =>
    unfold firstHit
    rcases hh : hitAt c lr with _ | y
    · simp only
      rcases Nat.lt_or_ge 1 k with h1 | h1
      · obtain ⟨j, rfl⟩ : ∃ j, k = j + 1 := ⟨k - 1, by omega⟩
        exact ih (c :: lr) j (by omega) (by simp at hkl; omega) (by simpa using hhit)
      · have : k = 1 := by omega
        subst this
        have := (hitAt_iff c lr x).2 (by simpa using hhit)
        rw [hh] at this; cases this
    · simp

/-! ### the final sort is the identity on the scanner's output -/

theorem insertByOff_last (h : Header) (l : List Header) (hl : ∀ y ∈ l, y.off ≤ h.off) :
    insertByOff h l = l ++ [h] := by
  induction l with
  | nil => rfl
  | cons y r ih =>
    have hy := hl y (List.mem_cons_self ..)
    have : ¬ h.off < y.off := by omega
    simp only [insertByOff, this, if_false, List.cons_append]
    rw [ih (fun z hz => hl z (List.mem_cons_of_mem _ hz))]

theorem foldl_insert_sorted (rest pre : List Header)
    (hp : (pre ++ rest).Pairwise (fun a b => a.off < b.off)) :
    rest.foldl (fun acc h => insertByOff h acc) pre = pre ++ rest := by
  induction rest generalizing pre with
  | nil => simp
  | cons h t ih =>
    rw [List.foldl_cons]
    have hle : ∀ y ∈ pre, y.off ≤ h.off := by
      intro y hy
      have := (List.pairwise_append.1 hp).2.2 y hy h (List.mem_cons_self ..)
      omega
    rw [insertByOff_last h pre hle, ih (pre ++ [h]) (by simpa using hp)]
    simp

theorem sortByOff_sorted (l : List Header) (hp : l.Pairwise (fun a b => a.off < b.off)) :
    sortByOff l = l := by
  unfold sortByOff
  simpa using foldl_insert_sorted l [] (by simpa using hp)

/-! ### latest wins -/

/-- the last header with number `n` -/
def lastNum (n : Nat) : List Header → Option Header
  | [] => none
  | h :: t =>
    match lastNum n t with
    | some x => some x
    | none => if h.num = n then some h else none

def lookup (n : Nat) (m : List (Nat × Nat × Nat)) : Option (Nat × Nat × Nat) := m.find? (·.1 = n)

theorem lookup_upsert (h : Header) (m : List (Nat × Nat × Nat)) (n : Nat) :
    lookup n (upsert h m) = if h.num = n then some (h.num, h.off, h.gen) else lookup n m := by
  induction m with
  | nil => simp [upsert, lookup, List.find?]
  | cons e r ih =>
    unfold upsert
    by_cases h1 : h.num < e.1
    · simp only [h1, if_true]
      by_cases hn : h.num = n <;> simp [lookup, List.find?, hn]
    · simp only [h1, if_false]
      by_cases h2 : h.num = e.1
      · simp only [h2, if_true]
        by_cases hn : e.1 = n
        · simp [lookup, List.find?, hn]
        · simp [lookup, List.find?, hn]
      · simp only [h2, if_false]
        by_cases hn : h.num = n
        · have : ¬ e.1 = n := by omega
          have ih' := ih
          simp only [hn, if_true] at ih'
          simp only [lookup, List.find?, this, decide_false, hn, if_true] at ih' ⊢
          exact ih'
        · simp only [hn, if_false] at ih ⊢
          by_cases he : e.1 = n
          · simp [lookup, List.find?, he]
          · simp only [lookup, List.find?, he, decide_false] at ih ⊢
            exact ih

theorem lookup_foldl_upsert (hs : List Header) (m : List (Nat × Nat × Nat)) (n : Nat) :
    lookup n (hs.foldl (fun m h => upsert h m) m) =
      match lastNum n hs with
      | some h => some (h.num, h.off, h.gen)
      | none => lookup n m := by
  induction hs generalizing m with
  | nil => simp [lastNum]
  | cons h t ih =>
    rw [List.foldl_cons, ih]
    have e : lastNum n (h :: t) = (match lastNum n t with
      | some x => some x
      | none => if h.num = n then some h else none) := rfl
    rw [e]
    rcases lastNum n t with _ | x
    · simp only [lookup_upsert]
      by_cases hn : h.num = n <;> simp [hn]
    · simp

/-! ### chunked scan = full scan when no line is longer than the carry cap -/

/-- no run of bytes without an end-of-line is longer than `cap` -/
def LinesBounded (cap : Nat) (f : Bytes) : Prop :=
  ∀ a seg b, f = a ++ seg ++ b → (∀ c ∈ seg, isEol c = false) → seg.length ≤ cap

theorem tw_spec (p : Nat → Bool) (l : List Nat) :
    (∀ x ∈ l.takeWhile p, p x = true) ∧
      (l.dropWhile p = [] ∨ ∃ e d, l.dropWhile p = e :: d ∧ p e = false) := by
  induction l with
  | nil => simp
  | cons a t ih =>
    by_cases h : p a = true
    · simp only [List.takeWhile_cons, List.dropWhile_cons, h, if_true]
      refine ⟨?_, ih.2⟩
      intro x hx
      rcases List.mem_cons.1 hx with hx | hx
      · rw [hx]; exact h
      · exact ih.1 x hx
    · have h' : p a = false := by simpa using h
      simp only [List.takeWhile_cons, List.dropWhile_cons, h', Bool.false_eq_true, if_false]
      exact ⟨by simp, Or.inr ⟨a, t, rfl, h'⟩⟩

theorem lineTail_decomp (w : Bytes) :
    ∃ p, w = p ++ lineTail w ∧ (∀ c ∈ lineTail w, isEol c = false) ∧
      (p = [] ∨ ∃ p' e, p = p' ++ [e] ∧ isEol e = true) := by
  have h := List.takeWhile_append_dropWhile (p := fun c => !isEol c) (l := w.reverse)
  have sp := tw_spec (fun c => !isEol c) w.reverse
  refine ⟨(w.reverse.dropWhile (fun c => !isEol c)).reverse, ?_, ?_, ?_⟩
  · unfold lineTail
    have := congrArg List.reverse h
    rw [List.reverse_append, List.reverse_reverse] at this
    exact this.symm
  · intro c hc
    unfold lineTail at hc
    have := sp.1 c (List.mem_reverse.1 hc)
    simpa using this
  · rcases sp.2 with h0 | ⟨e, d, hd, he⟩
    · left; rw [h0]; rfl
    · right
      refine ⟨d.reverse, e, by rw [hd]; simp, by simpa using he⟩

theorem ls_add_lr (w : Bytes) (st : Core) :
    (w.foldl stepC st).ls + (w.foldl stepC st).lr.length = st.ls + st.lr.length + w.length := by
  induction w generalizing st with
  | nil => simp
  | cons c r ih =>
    rw [List.foldl_cons, ih]
    by_cases hc : isEol c = true
    · rw [stepC_eol _ _ _ _ hc]; simp; omega
    · have hc' : isEol c = false := by simpa using hc
      rw [stepC_noeol _ _ _ _ hc']; simp; omega

/-- the scanner's position after `p ++ t` where `p` is empty or ends with an end-of-line and `t`
    has none -/
theorem foldl_ls_lr (p t : Bytes) (b : Nat) (a : List Header)
    (hp : p = [] ∨ ∃ p' e, p = p' ++ [e] ∧ isEol e = true) (ht : ∀ c ∈ t, isEol c = false) :
    ((p ++ t).foldl stepC ⟨b, [], a⟩).ls = b + p.length ∧
      ((p ++ t).foldl stepC ⟨b, [], a⟩).lr = t.reverse := by
  rcases hp with hp | ⟨p', e, hp, he⟩
  · subst hp
    rw [List.nil_append, foldl_stepC_seg _ ht]
    simp
  · subst hp
    rw [List.foldl_append, List.foldl_append, List.foldl_cons, List.foldl_nil]
    have inv := ls_add_lr p' ⟨b, [], a⟩
    generalize p'.foldl stepC ⟨b, [], a⟩ = s at inv
    obtain ⟨l1, r1, a1⟩ := s
    rw [stepC_eol _ _ _ _ he, foldl_stepC_seg _ ht]
    simp at inv ⊢
    omega

theorem lineRes_idem (b : Nat) (seg : Bytes) (A : List Header) :
    lineRes b [] seg (lineRes b [] seg A) = lineRes b [] seg A := by
  by_cases ho : hasOff A b = true
  · rw [lineRes_hasOff _ _ _ _ ho, lineRes_hasOff _ _ _ _ ho]
  · have ho' : hasOff A b = false := by simpa using ho
    rcases hf : firstHit [] seg with _ | ⟨n, g⟩
    · have : lineRes b [] seg A = A := by unfold lineRes; simp [ho', hf]
      rw [this, this]
    · have : lineRes b [] seg A = A ++ [⟨n, g, b⟩] := by unfold lineRes; simp [ho', hf]
      rw [this, lineRes_hasOff _ _ _ _ (hasOff_append_self ..)]

/-- scanning the carried partial line again changes nothing -/
theorem rescan (pre carry : Bytes) (acc : List Header)
    (hpre : pre = [] ∨ ∃ p' e, pre = p' ++ [e] ∧ isEol e = true)
    (hc : ∀ c ∈ carry, isEol c = false)
    (hst : (pre ++ carry).foldl stepC ⟨0, [], []⟩ = ⟨pre.length, carry.reverse, acc⟩) :
    carry.foldl stepC ⟨pre.length, [], acc⟩ = ⟨pre.length, carry.reverse, acc⟩ := by
  have hp := foldl_ls_lr pre [] 0 [] hpre (by simp)
  rw [List.append_nil] at hp
  rw [List.foldl_append] at hst
  generalize pre.foldl stepC ⟨0, [], []⟩ = s at hp hst
  obtain ⟨l1, r1, A⟩ := s
  simp at hp
  obtain ⟨h1, h2⟩ := hp
  subst h1; subst h2
  rw [foldl_stepC_seg _ hc] at hst
  have hacc : acc = lineRes pre.length [] carry A := by
    have := congrArg Core.acc hst
    exact this.symm
  rw [foldl_stepC_seg _ hc, hacc, lineRes_idem]
  simp

theorem chunk_loop (fix : Bool) (cap k : Nat) (hk : 0 < k) (f : Bytes) (hb : LinesBounded cap f) :
    ∀ (fuel : Nat) (pre carry rest : Bytes) (acc : List Header), f = pre ++ carry ++ rest →
      (pre = [] ∨ ∃ p' e, pre = p' ++ [e] ∧ isEol e = true) → (∀ c ∈ carry, isEol c = false) →
      (pre ++ carry).foldl stepC ⟨0, [], []⟩ = ⟨pre.length, carry.reverse, acc⟩ → rest.length < fuel →
      scanChunkedAux fix cap k fuel rest carry pre.length false acc = (f.foldl stepC ⟨0, [], []⟩).acc := by
  intro fuel
  induction fuel with
  | zero => intro pre carry rest acc _ _ _ _ hf; omega
  | succ fuel ih =>
    intro pre carry rest acc hfe hpre hcar hst hfuel
    have hre := rescan pre carry acc hpre hcar hst
    unfold scanChunkedAux
    simp only [Bool.and_false, Bool.false_and, Bool.or_false]
    cases rest with
    | nil =>
      simp only [List.take_nil, List.isEmpty_nil, Bool.true_and, List.append_nil, if_true]
      rw [List.append_nil] at hfe
      split
      · rw [hfe, hst]
      · rw [scanWindow_eq, hre, hfe, hst]
    | cons r0 rs =>
      obtain ⟨k', rfl⟩ : ∃ k', k = k' + 1 := ⟨k - 1, by omega⟩
      have hne : ((r0 :: rs).take (k' + 1)).isEmpty = false := by simp
      simp only [hne, Bool.false_and, Bool.false_eq_true, if_false]
      -- the window
      generalize hch : (r0 :: rs).take (k' + 1) = chunk
      have hrest : r0 :: rs = chunk ++ (r0 :: rs).drop (k' + 1) := by
        rw [← hch]; exact (List.take_append_drop _ _).symm
      obtain ⟨p, hw, htail, hp⟩ := lineTail_decomp (carry ++ chunk)
      -- no capping
      have hfe2 : f = (pre ++ p) ++ lineTail (carry ++ chunk) ++ (r0 :: rs).drop (k' + 1) := by
        rw [hfe]
        conv => lhs; rw [hrest]
        rw [List.append_assoc pre p, ← hw]
        simp
      have hcap : (lineTail (carry ++ chunk)).length ≤ cap := hb _ _ _ hfe2 htail
      have hlen : (carry ++ chunk).length = p.length + (lineTail (carry ++ chunk)).length := by
        conv => lhs; rw [hw]
        simp
      have hs : carryStart cap (carry ++ chunk) = p.length := by
        unfold carryStart lastLineStart
        have : ¬ ((carry ++ chunk).length - ((carry ++ chunk).length - (lineTail (carry ++ chunk)).length) > cap) := by
          omega
        simp only [this, if_false]
        omega
      have hcapf : decide ((carry ++ chunk).length - lastLineStart (carry ++ chunk) > cap) = false := by
        unfold lastLineStart
        simp only [decide_eq_false_iff_not]
        omega
      rw [hs, hcapf]
      have htake : (carry ++ chunk).take p.length = p := by
        conv => lhs; rw [hw]
        simp
      have hdrop : (carry ++ chunk).drop p.length = lineTail (carry ++ chunk) := by
        conv => lhs; rw [hw]
        simp
      rw [hdrop]
      -- state after the window
      have hS : (pre ++ carry ++ chunk).foldl stepC ⟨0, [], []⟩ =
          (carry ++ chunk).foldl stepC ⟨pre.length, [], acc⟩ := by
        rw [List.foldl_append, hst, List.foldl_append, hre]
      have hlsr := foldl_ls_lr p (lineTail (carry ++ chunk)) pre.length acc hp htail
      rw [← hw] at hlsr
      have hacc' : scanWindow (carry ++ chunk) pre.length acc =
          ((carry ++ chunk).foldl stepC ⟨pre.length, [], acc⟩).acc := scanWindow_eq _ _ _
      have hpl : pre.length + p.length = (pre ++ p).length := by simp
      rw [hpl]
      apply ih (pre ++ p) (lineTail (carry ++ chunk)) ((r0 :: rs).drop (k' + 1)) _ hfe2
      · rcases hp with hp | ⟨p', e, hp, he⟩
        · rw [hp, List.append_nil]; exact hpre
        · right; exact ⟨pre ++ p', e, by rw [hp]; simp, he⟩
      · exact htail
      · rw [List.append_assoc, ← hw, ← List.append_assoc, hS, hacc']
        generalize (carry ++ chunk).foldl stepC ⟨pre.length, [], acc⟩ = S at hlsr
        obtain ⟨l1, r1, a1⟩ := S
        simp at hlsr ⊢
        exact ⟨by omega, hlsr.2⟩
      · simp at hfuel ⊢; omega

theorem scanChunkedOld_eq (k : Nat) (f : Bytes) (hb : LinesBounded CARRY_CAP f) :
    scanChunkedOld k f = sortByOff (scanFull f) := by
  unfold scanChunkedOld
  have hk : 0 < (if k = 0 then 1 else k) := by split <;> omega
  have := chunk_loop false CARRY_CAP _ hk f hb (f.length + 2) [] [] f [] (by simp) (Or.inl rfl) (by simp) rfl (by omega)
  simp only [List.length_nil] at this
  rw [this]
  unfold scanFull
  rw [scanWindow_eq]

theorem scanChunkedRaw_eq (cap k : Nat) (f : Bytes) (hb : LinesBounded cap f) :
    scanChunkedRaw cap k f = scanFull f := by
  unfold scanChunkedRaw
  have hk : 0 < (if k = 0 then 1 else k) := by split <;> omega
  have := chunk_loop true cap _ hk f hb (f.length + 2) [] [] f [] (by simp) (Or.inl rfl) (by simp) rfl (by omega)
  simp only [List.length_nil] at this
  rw [this]
  unfold scanFull
  rw [scanWindow_eq]

/-! ### helpers of the property file -/

theorem linesBounded_of_short (cap : Nat) (f : Bytes) (h : f.length ≤ cap) : LinesBounded cap f := by
  intro a seg b hf _
  have := congrArg List.length hf
  simp at this; omega

theorem lastNum_none (n : Nat) (t : List Header) (h : lastNum n t = none) : ∀ y ∈ t, y.num ≠ n := by
  induction t with
  | nil => intro y hy; cases hy
  | cons b r ih =>
    have e2 : lastNum n (b :: r) = (match lastNum n r with
      | some x => some x
      | none => if b.num = n then some b else none) := rfl
    rw [e2] at h
    rcases hr : lastNum n r with _ | w
    · rw [hr] at h
      intro y hy
      rcases List.mem_cons.1 hy with hy | hy
      · subst hy; intro hyn; simp [hyn] at h
      · exact ih hr y hy
    · rw [hr] at h; cases h

theorem lastNum_spec (n : Nat) (hs : List Header) (x : Header) (h : lastNum n hs = some x)
    (hp : hs.Pairwise (fun a b => a.off < b.off)) :
    x ∈ hs ∧ x.num = n ∧ ∀ y ∈ hs, y.num = n → y.off ≤ x.off := by
  induction hs with
  | nil => simp [lastNum] at h
  | cons a t ih =>
    have e : lastNum n (a :: t) = (match lastNum n t with
      | some x => some x
      | none => if a.num = n then some a else none) := rfl
    rw [e] at h
    have hp' := List.pairwise_cons.1 hp
    rcases ht : lastNum n t with _ | z
    · rw [ht] at h
      by_cases hn : a.num = n
      · simp [hn] at h
        subst h
        refine ⟨List.mem_cons_self .., hn, ?_⟩
        intro y hy hyn
        rcases List.mem_cons.1 hy with hy | hy
        · rw [hy]; exact Nat.le_refl _
        · exact absurd hyn (lastNum_none n t ht y hy)
      · simp [hn] at h
    · rw [ht] at h
      cases h
      obtain ⟨h1, h2, h3⟩ := ih ht hp'.2
      refine ⟨List.mem_cons_of_mem _ h1, h2, ?_⟩
      intro y hy hyn
      rcases List.mem_cons.1 hy with hy | hy
      · have := hp'.1 x h1; rw [hy]; omega
      · exact h3 y hy hyn

theorem firstHit_no_j (seg lr : Bytes) (h : ∀ c ∈ seg, c ≠ 106) : firstHit lr seg = none := by
  induction seg generalizing lr with
  | nil => rfl
  | cons c r ih =>
    unfold firstHit
    have hc : c ≠ 106 := h c (List.mem_cons_self ..)
    have : hitAt c lr = none := by
      unfold hitAt kwEnd
      split
      · rename_i hcc; split at hcc
        · rename_i c' _ _ h1 _
          exact absurd rfl hc
        · cases hcc
      · rfl
    rw [this]
    exact ih _ (fun x hx => h x (List.mem_cons_of_mem _ hx))

/-- a byte string without the byte `j` (a classic cross-reference section, trailer dictionary,
    `startxref`, `%%EOF`, digits, blanks — in any state of damage) contains no header line -/
theorem specHeaders_no_j (t : Bytes) (base : Nat) (h : ∀ c ∈ t, c ≠ 106) : specHeaders t base = [] := by
  unfold specHeaders
  rw [List.filterMap_eq_nil_iff]
  intro x hx
  obtain ⟨a, b, h1, _, _, _, _⟩ := linesGo_mem t base [] (by simp) x hx
  have hsub : ∀ c ∈ x.2, c ≠ 106 := by
    intro c hc
    apply h c
    simp at h1
    rw [h1]; simp [hc]
  unfold lineHeader
  rw [firstHit_no_j x.2 [] hsub]

/-! ### a closed-form class of files: `layout` -/

/-- an object as the reference layout writes it: number and generation as digit strings, body -/
structure Obj where
  dn : Bytes
  dg : Bytes
  body : Bytes

def endobjKw : Bytes := [101, 110, 100, 111, 98, 106]

/-- `N G obj` -/
def headerLine (dn dg : Bytes) : Bytes := dn ++ [32] ++ dg ++ [32] ++ kwObj

/-- `N G obj⏎ body ⏎endobj⏎` -/
def objBytes (o : Obj) : Bytes := headerLine o.dn o.dg ++ 10 :: (o.body ++ 10 :: (endobjKw ++ [10]))

/-- file header (ends with a line feed) followed by the objects -/
def layout (hdr : Bytes) (objs : List Obj) : Bytes := hdr ++ 10 :: (objs.map objBytes).flatten

/-- the true table: every object's header at the offset where `layout` puts it -/
def trueHeaders : Nat → List Obj → List Header
  | _, [] => []
  | off, o :: r => ⟨digitsVal o.dn, digitsVal o.dg, off⟩ :: trueHeaders (off + (objBytes o).length) r

def Digits (d : Bytes) : Prop := d ≠ [] ∧ ∀ c ∈ d, isDigit c = true

/-- no line of these bytes (taken as whole lines) parses as a header -/
def NoHeaderLine (b : Bytes) : Prop := ∀ base, specHeaders b base = []

structure Obj.WF (o : Obj) : Prop where
  dn : Digits o.dn
  dg : Digits o.dg
  nmax : digitsVal o.dn ≤ 4294967295
  gmax : digitsVal o.dg ≤ 65535
  body : NoHeaderLine o.body

theorem wsLen_nonws (c : Nat) (r : Bytes) (h1 : c ≠ 32) (h2 : ¬ (9 ≤ c ∧ c ≤ 13)) (h3 : c ≠ 0xC2)
    (h4 : c ≠ 0xE1) (h5 : c ≠ 0xE2) (h6 : c ≠ 0xE3) : wsLen (c :: r) = 0 := by
  unfold wsLen
  have e1 : (c = 32 || (9 ≤ c && c ≤ 13) : Bool) = false := by
    simp only [Bool.or_eq_false_iff, decide_eq_false_iff_not]
    refine ⟨h1, ?_⟩
    rw [Bool.eq_false_iff]
    intro hh
    simp only [Bool.and_eq_true, decide_eq_true_eq] at hh
    exact h2 hh
  simp only [e1, Bool.false_eq_true, if_false, h3, h4, h5, h6]

theorem wsLen_digit (c : Nat) (r : Bytes) (h : isDigit c = true) : wsLen (c :: r) = 0 := by
  unfold isDigit at h
  simp only [Bool.and_eq_true, decide_eq_true_eq] at h
  apply wsLen_nonws <;> omega

theorem tokensGo_digits (d rest cur : Bytes) (acc : List Bytes) (hd : ∀ c ∈ d, isDigit c = true) :
    tokensGo (d ++ rest) 0 cur acc = tokensGo rest 0 (d.reverse ++ cur) acc := by
  induction d generalizing cur with
  | nil => rfl
  | cons c r ih =>
    have hc := hd c (List.mem_cons_self ..)
    simp only [List.cons_append, tokensGo, wsLen_digit c _ hc, if_true]
    rw [ih (c :: cur) (fun x hx => hd x (List.mem_cons_of_mem _ hx))]
    simp

theorem tokensGo_space (rest cur : Bytes) (acc : List Bytes) :
    tokensGo (32 :: rest) 0 cur acc = tokensGo rest 0 [] (if cur.isEmpty then acc else cur.reverse :: acc) := by
  simp [tokensGo, wsLen]

theorem tokens_headerLine (dn dg : Bytes) (hn : Digits dn) (hg : Digits dg) :
    tokens (headerLine dn dg) = [dn, dg, kwObj] := by
  unfold tokens headerLine
  have hne : dn.reverse.isEmpty = false := by
    cases dn with
    | nil => exact absurd rfl hn.1
    | cons a b => simp
  have hge : dg.reverse.isEmpty = false := by
    cases dg with
    | nil => exact absurd rfl hg.1
    | cons a b => simp
  rw [List.append_assoc, List.append_assoc, List.append_assoc, tokensGo_digits _ _ _ _ hn.2]
  simp only [List.append_nil, List.cons_append, List.nil_append, tokensGo_space, hne, Bool.false_eq_true, if_false,
    List.reverse_reverse]
  rw [tokensGo_digits _ _ _ _ hg.2]
  simp only [List.append_nil, tokensGo_space, hge, Bool.false_eq_true, if_false, List.reverse_reverse]
  simp [kwObj, tokensGo, wsLen]

theorem parseNum_digits (m : Nat) (d : Bytes) (hd : Digits d) (hm : digitsVal d ≤ m) :
    parseNum m d = some (digitsVal d) := by
  unfold parseNum
  cases d with
  | nil => exact absurd rfl hd.1
  | cons a b =>
    have ha := hd.2 a (List.mem_cons_self ..)
    have hne : a ≠ 43 := by
      unfold isDigit at ha
      simp only [Bool.and_eq_true, decide_eq_true_eq] at ha
      omega
    have hall : (a :: b).all isDigit = true := List.all_eq_true.2 hd.2
    have hm' : digitsVal (a :: b) ≤ m := hm
    split
    · rename_i r heq
      cases heq
      exact absurd rfl hne
    · simp [hall, hm']

theorem parse_headerLine (dn dg : Bytes) (hn : Digits dn) (hg : Digits dg)
    (h1 : digitsVal dn ≤ 4294967295) (h2 : digitsVal dg ≤ 65535) :
    parseObjHeader (headerLine dn dg) = some (digitsVal dn, digitsVal dg) := by
  unfold parseObjHeader
  rw [tokens_headerLine dn dg hn hg]
  simp [parseNum_digits _ _ hn h1, parseNum_digits _ _ hg h2]

theorem firstHit_skip (seg lr rest : Bytes) (h : ∀ c ∈ seg, c ≠ 106) :
    firstHit lr (seg ++ rest) = firstHit (seg.reverse ++ lr) rest := by
  induction seg generalizing lr with
  | nil => rfl
  | cons c r ih =>
    have hc : c ≠ 106 := h c (List.mem_cons_self ..)
    have hh : hitAt c lr = none := by
      rcases hx : hitAt c lr with _ | x
      · rfl
      · obtain ⟨⟨p, hp⟩, _⟩ := (hitAt_iff c lr x).1 hx
        have := congrArg List.reverse hp
        simp [kwObj] at this
        exact absurd this.1 hc
    rw [List.cons_append]
    conv => lhs; unfold firstHit
    simp only [hh]
    rw [ih (c :: lr) (fun x hx => h x (List.mem_cons_of_mem _ hx))]
    simp

theorem digit_ne_j (d : Bytes) (hd : ∀ c ∈ d, isDigit c = true) : ∀ c ∈ d, c ≠ 106 := by
  intro c hc
  have := hd c hc
  unfold isDigit at this
  simp only [Bool.and_eq_true, decide_eq_true_eq] at this
  omega

theorem firstHit_headerLine (dn dg : Bytes) (hn : Digits dn) (hg : Digits dg)
    (h1 : digitsVal dn ≤ 4294967295) (h2 : digitsVal dg ≤ 65535) :
    firstHit [] (headerLine dn dg) = some (digitsVal dn, digitsVal dg) := by
  have e : headerLine dn dg = (dn ++ [32] ++ dg ++ [32] ++ [111, 98]) ++ [106] := by
    simp [headerLine, kwObj]
  have hno : ∀ c ∈ dn ++ [32] ++ dg ++ [32] ++ [111, 98], c ≠ 106 := by
    intro c hc
    simp only [List.mem_append, List.mem_cons, List.mem_nil_iff, or_false] at hc
    rcases hc with (((hc | hc) | hc) | hc) | hc
    · exact digit_ne_j dn hn.2 c hc
    · omega
    · exact digit_ne_j dg hg.2 c hc
    · omega
    · rcases hc with hc | hc <;> omega
  rw [e, firstHit_skip _ _ _ hno]
  unfold firstHit
  have hh : hitAt 106 ((dn ++ [32] ++ dg ++ [32] ++ [111, 98]).reverse ++ []) =
      some (digitsVal dn, digitsVal dg) := by
    rw [hitAt_iff]
    refine ⟨⟨dn ++ [32] ++ dg ++ [32], by simp [kwObj]⟩, ?_⟩
    have : ((dn ++ [32] ++ dg ++ [32] ++ [111, 98]).reverse ++ []).reverse ++ [106] = headerLine dn dg := by
      simp [headerLine, kwObj]
    rw [this]
    exact parse_headerLine dn dg hn hg h1 h2
  simp only [hh]

theorem headerLine_noeol (dn dg : Bytes) (hn : Digits dn) (hg : Digits dg) :
    ∀ c ∈ headerLine dn dg, isEol c = false := by
  intro c hc
  have dig : ∀ d : Bytes, (∀ x ∈ d, isDigit x = true) → ∀ x ∈ d, isEol x = false := by
    intro d hd x hx
    have := hd x hx
    unfold isDigit at this
    simp only [Bool.and_eq_true, decide_eq_true_eq] at this
    unfold isEol
    simp only [Bool.or_eq_false_iff, decide_eq_false_iff_not]
    omega
  unfold headerLine kwObj at hc
  simp only [List.mem_append, List.mem_cons, List.mem_nil_iff, or_false] at hc
  rcases hc with (((hc | hc) | hc) | hc) | hc
  · exact dig dn hn.2 c hc
  · subst hc; decide
  · exact dig dg hg.2 c hc
  · subst hc; decide
  · rcases hc with hc | hc | hc <;> subst hc <;> decide

theorem specHeaders_append_eol (a : Bytes) (e : Nat) (he : isEol e = true) (rest : Bytes) (base : Nat) :
    specHeaders (a ++ e :: rest) base = specHeaders a base ++ specHeaders rest (base + a.length + 1) := by
  unfold specHeaders
  rw [linesGo_append_eol _ _ he]
  simp

theorem specHeaders_headerLine (dn dg : Bytes) (hn : Digits dn) (hg : Digits dg)
    (h1 : digitsVal dn ≤ 4294967295) (h2 : digitsVal dg ≤ 65535) (base : Nat) :
    specHeaders (headerLine dn dg) base = [⟨digitsVal dn, digitsVal dg, base⟩] := by
  unfold specHeaders
  rw [linesGo_seg _ (headerLine_noeol dn dg hn hg)]
  simp [lineHeader, firstHit_headerLine dn dg hn hg h1 h2]

theorem specHeaders_endobj (base : Nat) : specHeaders endobjKw base = [] := by
  unfold specHeaders
  rw [linesGo_seg _ (by decide)]
  simp only [List.reverse_nil, List.nil_append, List.filterMap_cons, List.filterMap_nil]
  have : lineHeader (base, endobjKw) = none := by
    unfold lineHeader
    have : firstHit [] endobjKw = none := by decide
    simp [this]
  simp [this]

theorem specHeaders_objBytes (o : Obj) (wf : o.WF) (rest : Bytes) (base : Nat) :
    specHeaders (objBytes o ++ rest) base =
      ⟨digitsVal o.dn, digitsVal o.dg, base⟩ :: specHeaders rest (base + (objBytes o).length) := by
  have e : objBytes o ++ rest =
      headerLine o.dn o.dg ++ 10 :: (o.body ++ 10 :: (endobjKw ++ 10 :: rest)) := by
    simp [objBytes]
  rw [e, specHeaders_append_eol _ _ (by decide), specHeaders_append_eol _ _ (by decide),
    specHeaders_append_eol _ _ (by decide), specHeaders_headerLine _ _ wf.dn wf.dg wf.nmax wf.gmax,
    wf.body, specHeaders_endobj]
  simp only [List.nil_append, List.singleton_append, List.cons.injEq, true_and]
  congr 1
  simp [objBytes]
  omega

theorem specHeaders_objs (objs : List Obj) (wf : ∀ o ∈ objs, o.WF) (tail : Bytes) (base : Nat) :
    specHeaders ((objs.map objBytes).flatten ++ tail) base =
      trueHeaders base objs ++ specHeaders tail (base + (objs.map objBytes).flatten.length) := by
  induction objs generalizing base with
  | nil => simp [trueHeaders]
  | cons o r ih =>
    simp only [List.map_cons, List.flatten_cons, List.append_assoc, trueHeaders, List.length_append]
    rw [specHeaders_objBytes o (wf o (List.mem_cons_self ..)),
      ih (fun x hx => wf x (List.mem_cons_of_mem _ hx))]
    simp [Nat.add_assoc]

end OxiVerif.C19
