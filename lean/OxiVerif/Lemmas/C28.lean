import OxiVerif.Model.C28
/-!
Helper lemmas for C28.
-/
namespace OxiVerif.C28

/-! ### the class of forests on which the writer's sibling arithmetic is right -/

mutual
  /-- `okc` holds of every item, and in every sibling list only the last item has children -/
  def goodItem (okc : Item → Bool) : Item → Bool
    | .mk o cs => okc (.mk o cs) && goodList okc cs
  def goodList (okc : Item → Bool) : List Item → Bool
    | [] => true
    | c :: rest => (rest.isEmpty || c.children.isEmpty) && goodItem okc c && goodList okc rest
end

mutual
  /-- every item that has children is open -/
  def fullOpenItem : Item → Bool
    | .mk o cs => (o || cs.isEmpty) && fullOpenList cs
  def fullOpenList : List Item → Bool
    | [] => true
    | c :: rest => fullOpenItem c && fullOpenList rest
end

/-- the unrepaired `/Count` is Table 153's: the item is open, or nothing below it is closed -/
def countOk (it : Item) : Bool := it.isOpen || fullOpenList it.children

theorem size_leaf (c : Item) (h : c.children.isEmpty = true) : c.size = 1 := by
  cases c with
  | mk o cs =>
    simp only [Item.children, List.isEmpty_iff] at h
    subst h
    simp [Item.size, sizeList]

/-- in a good sibling list, sibling `j` sits `j` places after the first one -/
theorem posTrue_eq_of_good (okc : Item → Bool) (sibs : List Item) (h : goodList okc sibs = true)
    (j : Nat) (hj : j < sibs.length) : posTrue sibs j = j := by
  induction sibs generalizing j with
  | nil => simp at hj
  | cons c rest ih =>
    cases j with
    | zero => simp [posTrue, sizeList]
    | succ j =>
      simp only [goodList, Bool.and_eq_true, Bool.or_eq_true] at h
      have hj' : j < rest.length := by simpa using hj
      have hne : rest.isEmpty = false := by
        cases rest with
        | nil => simp at hj'
        | cons _ _ => rfl
      have hleaf : c.children.isEmpty = true := by
        rcases h.1.1 with h1 | h1
        · rw [hne] at h1; cases h1
        · exact h1
      have := ih h.2 j hj'
      simp only [posTrue] at this ⊢
      simp only [List.take_succ_cons, sizeList, size_leaf c hleaf, this]
      omega

mutual
  theorem visible_eq_size_item : (it : Item) → fullOpenItem it = true → it.visible = it.size
    | .mk o cs, h => by
      simp only [fullOpenItem, Bool.and_eq_true, Bool.or_eq_true] at h
      have ih := visible_eq_size_list cs h.2
      simp only [Item.visible, Item.size]
      rcases h.1 with ho | he
      · simp [ho, ih]
      · simp only [List.isEmpty_iff] at he
        subst he
        simp [visibleList, sizeList]
  theorem visible_eq_size_list : (cs : List Item) → fullOpenList cs = true →
      visibleList cs = sizeList cs
    | [], _ => rfl
    | c :: rest, h => by
      simp only [fullOpenList, Bool.and_eq_true] at h
      simp only [visibleList, sizeList, visible_eq_size_item c h.1, visible_eq_size_list rest h.2]
end

theorem countEntryOld_eq_of_ok (it : Item) (h : countOk it = true) :
    it.countEntryOld = Spec.countEntry it := by
  cases it with
  | mk o cs =>
    simp only [countOk, Item.isOpen, Item.children, Bool.or_eq_true] at h
    simp only [Item.countEntryOld, Spec.countEntry, Spec.shownIfOpened, Item.children, Item.isOpen,
      Item.visible, Item.size]
    by_cases he : cs.isEmpty = true
    · simp [he]
    · simp only [he]
      rcases h with ho | hf
      · simp [ho]
      · cases o with
        | true => simp
        | false =>
          simp only [Bool.false_eq_true, if_false]
          rw [visible_eq_size_list cs hf]
          simp

/-! ### the traversal depends on `pos` / `count` only through the values on the forest -/

mutual
  theorem emitItem_congr (okc : Item → Bool) (c1 c2 : Item → Option Int)
      (hc : ∀ it, okc it = true → c1 it = c2 it) (pool : List Nat)
      (itemId parent : Nat) (prev next : Option Nat) (idx : Nat) :
      (it : Item) → goodItem okc it = true →
        emitItem posCode c1 pool itemId parent prev next idx it =
          emitItem posTrue c2 pool itemId parent prev next idx it
    | .mk o cs, h => by
      simp only [goodItem, Bool.and_eq_true] at h
      simp only [emitItem]
      rw [hc _ h.1]
      rw [emitList_congr okc c1 c2 hc pool itemId idx cs.length cs h.2 rfl 0 idx cs h.2 (by omega)]
      by_cases hn : cs.length = 0
      · simp [hn]
      · have : posTrue cs (cs.length - 1) = cs.length - 1 :=
          posTrue_eq_of_good okc cs h.2 _ (by omega)
        simp [hn, this, posCode]
  theorem emitList_congr (okc : Item → Bool) (c1 c2 : Item → Option Int)
      (hc : ∀ it, okc it = true → c1 it = c2 it) (pool : List Nat)
      (parent firstIdx n : Nat) (sibs : List Item) (hs : goodList okc sibs = true)
      (hn : n = sibs.length) (j idx : Nat) :
      (rest : List Item) → goodList okc rest = true → j + rest.length = n →
        emitList posCode c1 pool parent firstIdx n sibs j idx rest =
          emitList posTrue c2 pool parent firstIdx n sibs j idx rest
    | [], _, _ => rfl
    | c :: rest, h, hjn => by
      simp only [goodList, Bool.and_eq_true] at h
      simp only [emitList]
      rw [emitItem_congr okc c1 c2 hc pool _ parent _ _ (idx + 1) c h.1.2,
        emitList_congr okc c1 c2 hc pool parent firstIdx n sibs hs hn (j + 1) _ rest h.2
          (by simp only [List.length_cons] at hjn; omega)]
      simp only [List.length_cons] at hjn
      have hprev : (if j > 0 then some (at' pool (firstIdx + posCode sibs (j - 1))) else none) =
          (if j > 0 then some (at' pool (firstIdx + posTrue sibs (j - 1))) else none) := by
        by_cases hj : j > 0
        · simp [hj, posCode, posTrue_eq_of_good okc sibs hs (j - 1) (by omega)]
        · simp [hj]
      have hnext : (if j < n - 1 then some (at' pool (firstIdx + posCode sibs (j + 1))) else none) =
          (if j < n - 1 then some (at' pool (firstIdx + posTrue sibs (j + 1))) else none) := by
        by_cases hj : j < n - 1
        · simp [hj, posCode, posTrue_eq_of_good okc sibs hs (j + 1) (by omega)]
        · simp [hj]
      rw [hprev, hnext]
end

/-! ### the repaired writer = the reference traversal, on every forest -/

/-- the repaired `/Count` rule is Table 153's for every item -/
theorem countEntry_eq (it : Item) : it.countEntry = Spec.countEntry it := by
  cases it with
  | mk o cs =>
    simp only [Item.countEntry, Spec.countEntry, Spec.shownIfOpened, Item.children, Item.isOpen,
      Item.visible]
    by_cases he : cs.isEmpty = true
    · simp [he]
    · cases o <;> simp [he]

theorem siblingIds_length (pool : List Nat) (idx : Nat) (cs : List Item) :
    (siblingIds pool idx cs).length = cs.length := by
  induction cs generalizing idx with
  | nil => rfl
  | cons c rest ih => simp [siblingIds, ih]

/-- `outline_sibling_ids(..)[j]` is the id of the place where sibling `j` really is -/
theorem siblingIds_idAt (pool : List Nat) (idx : Nat) (cs : List Item) (j : Nat)
    (hj : j < cs.length) : idAt (siblingIds pool idx cs) j = at' pool (idx + posTrue cs j) := by
  induction cs generalizing idx j with
  | nil => simp at hj
  | cons c rest ih =>
    cases j with
    | zero => simp [siblingIds, idAt, posTrue, sizeList]
    | succ j =>
      have hj' : j < rest.length := by simpa using hj
      have := ih (idx + c.size) j hj'
      simp only [idAt, posTrue] at this ⊢
      simp only [siblingIds, List.getD_cons_succ, List.take_succ_cons, sizeList, this]
      congr 1
      omega

mutual
  theorem emitItemN_eq (cnt : Item → Option Int) (pool : List Nat)
      (itemId parent : Nat) (prev next : Option Nat) (idx : Nat) :
      (it : Item) → emitItemN cnt pool itemId parent prev next idx it =
          emitItem posTrue cnt pool itemId parent prev next idx it
    | .mk o cs => by
      simp only [emitItemN, emitItem]
      rw [emitListN_eq cnt pool itemId idx cs.length cs rfl 0 idx cs (by omega)]
      by_cases hn : cs.length = 0
      · have : cs = [] := List.length_eq_zero_iff.mp hn
        subst this
        simp
      · have hne : cs.isEmpty = false := by
          cases cs with
          | nil => simp at hn
          | cons _ _ => rfl
        have h0 := siblingIds_idAt pool idx cs 0 (by omega)
        have hl := siblingIds_idAt pool idx cs (cs.length - 1) (by omega)
        simp only [posTrue, List.take_zero, sizeList, Nat.add_zero] at h0
        simp [hn, hne, siblingIds_length, h0, hl]
  theorem emitListN_eq (cnt : Item → Option Int) (pool : List Nat)
      (parent firstIdx n : Nat) (sibs : List Item) (hn : n = sibs.length) (j idx : Nat) :
      (rest : List Item) → j + rest.length = n →
        emitListN cnt pool parent (siblingIds pool firstIdx sibs) n j idx rest =
          emitList posTrue cnt pool parent firstIdx n sibs j idx rest
    | [], _ => rfl
    | c :: rest, hjn => by
      simp only [List.length_cons] at hjn
      simp only [emitListN, emitList]
      rw [emitItemN_eq cnt pool _ parent _ _ (idx + 1) c,
        emitListN_eq cnt pool parent firstIdx n sibs hn (j + 1) _ rest (by omega)]
      have hprev : (if j > 0 then some (idAt (siblingIds pool firstIdx sibs) (j - 1)) else none) =
          (if j > 0 then some (at' pool (firstIdx + posTrue sibs (j - 1))) else none) := by
        by_cases hj : j > 0
        · simp [hj, siblingIds_idAt pool firstIdx sibs (j - 1) (by omega)]
        · simp [hj]
      have hnext : (if j < n - 1 then some (idAt (siblingIds pool firstIdx sibs) (j + 1)) else none) =
          (if j < n - 1 then some (at' pool (firstIdx + posTrue sibs (j + 1))) else none) := by
        by_cases hj : j < n - 1
        · simp [hj, siblingIds_idAt pool firstIdx sibs (j + 1) (by omega)]
        · simp [hj]
      rw [hprev, hnext]
end

theorem writeTreeN_eq (cnt : Item → Option Int) (r : Nat) (pool : List Nat) (items : List Item) :
    writeTreeN cnt r pool items = writeTree posTrue cnt r pool items := by
  unfold writeTreeN writeTree
  by_cases he : items.isEmpty = true
  · simp [he]
  · simp only [he]
    have hlen : 0 < items.length := by
      cases items with
      | nil => simp at he
      | cons _ _ => simp
    have h0 := siblingIds_idAt pool 0 items 0 hlen
    have hl := siblingIds_idAt pool 0 items (items.length - 1) (by omega)
    simp only [posTrue, List.take_zero, sizeList, Nat.add_zero] at h0
    rw [emitListN_eq cnt pool r 0 items.length items rfl 0 0 items (by omega)]
    simp [siblingIds_length, h0, hl, posTrue]

/-! ### own ids -/

def idsFrom (pool : List Nat) (idx n : Nat) : List Nat := (List.range n).map (fun k => at' pool (idx + k))

theorem idsFrom_add (pool : List Nat) (idx a b : Nat) :
    idsFrom pool idx (a + b) = idsFrom pool idx a ++ idsFrom pool (idx + a) b := by
  simp only [idsFrom, List.range_add, List.map_append, List.map_map]
  congr 1
  apply List.map_congr_left
  intro k _
  simp [Nat.add_assoc]

theorem idsFrom_succ (pool : List Nat) (idx n : Nat) :
    idsFrom pool idx (1 + n) = at' pool idx :: idsFrom pool (idx + 1) n := by
  rw [idsFrom_add]
  simp [idsFrom]

mutual
  theorem ids_item (pos : List Item → Nat → Nat) (cnt : Item → Option Int) (pool : List Nat)
      (itemId parent : Nat) (prev next : Option Nat) (idx : Nat) :
      (it : Item) → (emitItem pos cnt pool itemId parent prev next idx it).map (·.id) =
        itemId :: idsFrom pool idx (sizeList it.children)
    | .mk o cs => by
      simp only [emitItem, List.map_cons, Item.children]
      rw [ids_list pos cnt pool itemId idx cs.length cs 0 idx cs]
  theorem ids_list (pos : List Item → Nat → Nat) (cnt : Item → Option Int) (pool : List Nat)
      (parent firstIdx n : Nat) (sibs : List Item) (j idx : Nat) :
      (rest : List Item) → (emitList pos cnt pool parent firstIdx n sibs j idx rest).map (·.id) =
        idsFrom pool idx (sizeList rest)
    | [] => by simp [emitList, sizeList, idsFrom]
    | c :: rest => by
      cases c with
      | mk o cs =>
        simp only [emitList, List.map_append, sizeList, Item.size]
        rw [ids_item pos cnt pool _ parent _ _ (idx + 1) (.mk o cs),
          ids_list pos cnt pool parent firstIdx n sibs (j + 1) _ rest]
        simp only [Item.children]
        rw [idsFrom_add, idsFrom_succ]
end

/-- the own ids of the written items are the reserved pool, in pre-order -/
theorem ids_write (pos : List Item → Nat → Nat) (cnt : Item → Option Int) (r : Nat)
    (pool : List Nat) (items : List Item) (hlen : pool.length = sizeList items) :
    (writeTree pos cnt r pool items).2.map (·.id) = pool := by
  unfold writeTree
  by_cases he : items.isEmpty = true
  · simp only [List.isEmpty_iff] at he
    subst he
    simp [sizeList] at hlen
    simp [hlen]
  · simp only [he, Bool.false_eq_true, if_false]
    rw [ids_list]
    simp only [idsFrom, ← hlen, at', Nat.zero_add]
    apply List.ext_getElem
    · simp
    · intro i h1 h2
      simp at h1
      simp [List.getD_eq_getElem?_getD, h1]

end OxiVerif.C28
