import OxiVerif.Model.C11
/-!
Helper lemmas for C11: every assembly stage keeps the non-white-space characters
(as a sequence where the stage keeps emission order, as a multiset where it reorders),
whatever the geometry oracle answers.
-/
namespace OxiVerif.C11
open List

variable {G : Type}

/-- all characters of a fragment list, in list order -/
def chars (fs : List (Frag G)) : List Nat := fs.flatMap (·.text)

theorem nonWs_append (a b : List Nat) : nonWs (a ++ b) = nonWs a ++ nonWs b := by
  simp [nonWs]

theorem nonWs_nil : nonWs [] = [] := rfl
theorem nonWs_sp : nonWs [SP] = [] := by decide
theorem nonWs_nl : nonWs [NL] = [] := by decide

theorem chars_nil : chars ([] : List (Frag G)) = [] := rfl

theorem chars_cons (f : Frag G) (r : List (Frag G)) : chars (f :: r) = f.text ++ chars r := by
  simp [chars]

theorem chars_append (a b : List (Frag G)) : chars (a ++ b) = chars a ++ chars b := by
  simp [chars]

theorem chars_perm {a b : List (Frag G)} (h : a ~ b) : chars a ~ chars b :=
  Perm.flatMap_right _ h

theorem nonWs_perm {a b : List Nat} (h : a ~ b) : nonWs a ~ nonWs b := Perm.filter _ h

/-! ### merge_close_fragments -/

theorem mergeCloseGo_nonWs (Ω : Geo G) (cur : Frag G) (r : List (Frag G)) :
    nonWs (chars (mergeCloseGo Ω cur r)) = nonWs (chars (cur :: r)) := by
  induction r generalizing cur with
  | nil => simp [mergeCloseGo]
  | cons f r ih =>
    unfold mergeCloseGo
    split
    · rw [ih]
      simp only [chars_cons, nonWs_append]
      split <;> simp [nonWs_sp, nonWs_nil]
    · simp only [chars_cons, nonWs_append, ih]

theorem mergeClose_nonWs (Ω : Geo G) (fs : List (Frag G)) :
    nonWs (chars (mergeClose Ω fs)) = nonWs (chars fs) := by
  cases fs with
  | nil => rfl
  | cons f r => exact mergeCloseGo_nonWs Ω f r

/-! ### regions -/

theorem scanIds_length (brk : G → G → Bool) (id : Nat) (p : G) (fs : List (Frag G)) :
    (scanIds brk id p fs).length = fs.length := by
  induction fs generalizing id p with
  | nil => rfl
  | cons f r ih => simp [scanIds, ih]

theorem regionIds_length (brk : G → G → Bool) (fs : List (Frag G)) :
    (regionIds brk fs).length = fs.length := by
  cases fs with
  | nil => rfl
  | cons f r => simp [regionIds, scanIds_length]

theorem zip_ids_snd (brk : G → G → Bool) (fs : List (Frag G)) :
    ((regionIds brk fs).zip fs).map Prod.snd = fs :=
  map_snd_zip (by rw [regionIds_length]; exact Nat.le_refl _)

theorem runsBy_flatten (xs : List (Nat × Frag G)) : (runsBy xs).flatten = xs.map Prod.snd := by
  induction xs with
  | nil => rfl
  | cons x r ih =>
    obtain ⟨k, f⟩ := x
    unfold runsBy
    split
    · rename_i h
      rw [h] at ih
      have : r.map Prod.snd = [] := by simpa using ih.symm
      simp [this]
    · rename_i grp gs h
      rw [h] at ih
      cases r with
      | nil => simp [runsBy] at h
      | cons y r' =>
        obtain ⟨k', f'⟩ := y
        simp only
        split <;> simp_all

theorem flatMap_nonWs_chars (g : List (Frag G) → List (Frag G))
    (hg : ∀ l, nonWs (chars (g l)) = nonWs (chars l)) (ls : List (List (Frag G))) :
    nonWs (chars (ls.flatMap g)) = nonWs (chars ls.flatten) := by
  induction ls with
  | nil => rfl
  | cons l r ih => simp [chars_append, nonWs_append, hg, ih]

theorem mergeCloseRegions_nonWs (Ω : Geo G) (fs : List (Frag G)) :
    nonWs (chars (mergeCloseRegions Ω fs)) = nonWs (chars fs) := by
  unfold mergeCloseRegions
  rw [flatMap_nonWs_chars _ (mergeClose_nonWs Ω), runsBy_flatten, zip_ids_snd]

/-! ### grouping into lines: a partition of the input, in order -/

theorem groupGo_flatten {α : Type} (same : α → α → Bool) (acc : List (List α)) (xs : List α) :
    (groupGo same acc xs).flatten = (acc.map List.reverse).reverse.flatten ++ xs := by
  induction xs generalizing acc with
  | nil => simp [groupGo]
  | cons x r ih =>
    cases acc with
    | nil => simp [groupGo, ih]
    | cons ln acc =>
      unfold groupGo
      split
      · split <;> simp [ih]
      · simp [ih]
        rename_i h
        have : ln = [] := by simpa using h
        simp [this]

theorem groupLines_flatten {α : Type} (same : α → α → Bool) (xs : List α) :
    (groupLines same xs).flatten = xs := by
  simp [groupLines, groupGo_flatten]

theorem flatten_map_perm {α : Type} (f : List α → List α) (hf : ∀ l, f l ~ l) (ls : List (List α)) :
    (ls.map f).flatten ~ ls.flatten := by
  induction ls with
  | nil => simp
  | cons l r ih => simpa using Perm.append (hf l) ih

/-! ### sort_and_merge_fragments / detect_and_sort_columns: permutations -/

theorem sortMergeCore_perm (Ω : Geo G) (fs : List (Frag G)) :
    (sortMergeCore Ω fs).map Prod.snd ~ fs := by
  unfold sortMergeCore
  simp only
  refine Perm.trans (Perm.map _ (flatten_map_perm _ (fun l => mergeSort_perm l _) _)) ?_
  rw [groupLines_flatten]
  refine Perm.trans (Perm.map _ (mergeSort_perm _ _)) ?_
  rw [zip_ids_snd]

theorem sortColumns_perm (Ω : Geo G) (rf : List (Nat × Frag G)) :
    sortColumns Ω rf ~ rf.map Prod.snd := by
  unfold sortColumns
  split
  · exact Perm.refl _
  · rename_i keys _
    split
    · exact Perm.refl _
    · rename_i hlen
      have hl : keys.length = rf.length := by simpa using hlen
      refine Perm.trans (Perm.map _ (mergeSort_perm _ _)) ?_
      have : (keys.zip rf).map (fun x => x.2.2) = (((keys.zip rf).map Prod.snd).map Prod.snd) := by
        simp
      rw [this, map_snd_zip (by omega)]

theorem sortAndMerge_perm (Ω : Geo G) (cols : Bool) (fs : List (Frag G)) :
    sortAndMerge Ω cols fs ~ fs := by
  unfold sortAndMerge
  simp only
  split
  · exact Perm.trans (sortColumns_perm Ω _) (sortMergeCore_perm Ω fs)
  · exact sortMergeCore_perm Ω fs

theorem sortAndMerge_nonWs (Ω : Geo G) (cols : Bool) (fs : List (Frag G)) :
    nonWs (chars (sortAndMerge Ω cols fs)) ~ nonWs (chars fs) :=
  nonWs_perm (chars_perm (sortAndMerge_perm Ω cols fs))

/-! ### merge_into_lines -/

theorem lineText_nonWs (Ω : Geo G) (prev : Option G) (ln : List (Frag G)) :
    nonWs (lineText Ω prev ln) = nonWs (chars ln) := by
  induction ln generalizing prev with
  | nil => rfl
  | cons f r ih =>
    simp only [lineText, chars_cons, nonWs_append, ih]
    cases prev with
    | none => simp [nonWs_nil]
    | some p => simp only; split <;> simp [nonWs_sp, nonWs_nil]

theorem buildLine_nonWs (Ω : Geo G) (ln : List (Frag G)) :
    nonWs (buildLine Ω ln).text = nonWs (chars ln) := lineText_nonWs Ω none ln

theorem chars_map_nonWs_perm {α : Type} (build : List α → Frag G) (proj : α → Frag G)
    (ord : List α → List α) (hord : ∀ l, ord l ~ l)
    (hb : ∀ l, nonWs (build l).text = nonWs (chars (l.map proj)))
    (ls : List (List α)) :
    nonWs (chars (ls.map fun l => build (ord l))) ~ nonWs (chars (ls.flatten.map proj)) := by
  induction ls with
  | nil => simp [chars_nil, nonWs_nil]
  | cons l r ih =>
    simp only [map_cons, chars_cons, nonWs_append, flatten_cons, map_append, chars_append]
    refine Perm.append ?_ ih
    rw [hb]
    exact nonWs_perm (chars_perm (Perm.map _ (hord l)))

theorem mergeIntoLines_nonWs (Ω : Geo G) (fs : List (Frag G)) :
    nonWs (chars (mergeIntoLines Ω fs)) ~ nonWs (chars fs) := by
  unfold mergeIntoLines
  simp only
  generalize hs : (mergeSort ((regionIds Ω.rowBreak fs).zip ((range fs.length).zip fs)) _) = sorted
  have hperm : sorted ~ (regionIds Ω.rowBreak fs).zip ((range fs.length).zip fs) := by
    rw [← hs]; exact mergeSort_perm _ _
  have hproj : ((regionIds Ω.rowBreak fs).zip ((range fs.length).zip fs)).map (·.2.2) = fs := by
    have h1 : ((regionIds Ω.rowBreak fs).zip ((range fs.length).zip fs)).map (fun x => x.2.2)
        = ((((regionIds Ω.rowBreak fs).zip ((range fs.length).zip fs)).map Prod.snd).map Prod.snd) := by
      simp
    rw [h1, map_snd_zip (by simp [regionIds_length]), map_snd_zip (by simp)]
  let ord : List (Nat × Nat × Frag G) → List (Nat × Nat × Frag G) := fun ln =>
    if (fs.any fun f => Ω.tagged f.g) || Ω.prefersEmission (ln.map fun x => (x.2.1, x.2.2.g)) then
      ln.mergeSort fun a b => a.2.1 ≤ b.2.1
    else ln.mergeSort fun a b => ordLe (Ω.cmpX a.2.2.g b.2.2.g)
  have hord : ∀ l, ord l ~ l := by
    intro l; simp only [ord]; split <;> exact mergeSort_perm _ _
  have key := chars_map_nonWs_perm (G := G)
    (build := fun l => buildLine Ω (l.map (·.2.2))) (proj := (·.2.2)) ord hord
    (fun l => buildLine_nonWs Ω _)
    (groupLines (fun h x => h.1 == x.1 && Ω.lineJoin h.2.2.g x.2.2.g) sorted)
  rw [groupLines_flatten] at key
  refine Perm.trans key ?_
  rw [← hproj]
  exact nonWs_perm (chars_perm (Perm.map _ hperm))

/-! ### merge_into_paragraphs without hyphen merging -/

theorem parasGo_nonWs (Ω : Geo G) (all : List G) (cur : Frag G) (r : List (Frag G)) :
    nonWs (chars (parasGo Ω false all cur r)) = nonWs (chars (cur :: r)) := by
  induction r generalizing cur with
  | nil => simp [parasGo]
  | cons ln r ih =>
    unfold parasGo
    split
    · simp only [chars_cons, nonWs_append, ih]
    · rw [ih]
      have h : nonWs (NL :: (ln.text ++ chars r)) = nonWs (ln.text ++ chars r) := by
        simp [nonWs, NL, isWs]
      simp [chars_cons, nonWs_append, h]

theorem mergeIntoParagraphs_nonWs (Ω : Geo G) (fs : List (Frag G)) :
    nonWs (chars (mergeIntoParagraphs Ω false fs)) = nonWs (chars fs) := by
  cases fs with
  | nil => rfl
  | cons l r => exact parasGo_nonWs Ω _ l r

/-! ### reconstruct_text_from_fragments without hyphen merging -/

theorem reconGo_nonWs (Ω : Geo G) (res : List Nat) (last : Option G) (hy : Bool) (fs : List (Frag G)) :
    nonWs (reconGo Ω false res last hy fs) = nonWs res ++ nonWs (chars fs) := by
  induction fs generalizing res last hy with
  | nil => simp [reconGo, chars_nil, nonWs_nil]
  | cons f r ih =>
    unfold reconGo
    simp only [ih, chars_cons, nonWs_append]
    have : ∀ res1, res1 = (if (!res.isEmpty && Ω.recNewline last f.g) = true then
        (if (false && hy) = true then (if endsWithHy res = true then res.dropLast else res) else res ++ [NL])
      else if (!res.isEmpty) = true then (if Ω.recSpace last f.g = true then res ++ [SP] else res)
      else res) → nonWs res1 = nonWs res := by
      intro res1 h
      subst h
      split
      · simp [nonWs_append, nonWs_nl]
      · split
        · split <;> simp [nonWs_append, nonWs_sp]
        · rfl
    rw [this _ rfl]
    simp [List.append_assoc]

theorem reconstruct_nonWs (Ω : Geo G) (fs : List (Frag G)) :
    nonWs (reconstruct Ω false fs) = nonWs (chars fs) := by
  unfold reconstruct
  rw [reconGo_nonWs, mergeClose_nonWs]
  simp [nonWs_nil]

/-! ### hyphen wrap switched off -/

theorem hyWrap_off (Ω : Geo G) (fs : List (Frag G)) : hyWrap Ω false fs = fs := by
  simp [hyWrap]

/-! ### XY-cut: a permutation whatever the cut oracle answers -/

theorem filter_split_perm {α : Type} (p : α → Bool) (l : List α) :
    l.filter p ++ l.filter (fun i => !p i) ~ l := by
  induction l with
  | nil => simp
  | cons x r ih =>
    cases h : p x
    · simp only [filter_cons, h]
      simp only [Bool.false_eq_true, ↓reduceIte, Bool.not_false]
      exact Perm.trans perm_middle (Perm.cons x ih)
    · simp only [filter_cons, h]
      simp only [↓reduceIte, Bool.not_true, Bool.false_eq_true, cons_append]
      exact Perm.cons x ih

theorem cutRec_perm (Ω : CutΩ) (fuel : Nat) (idx : List Nat) : cutRec Ω fuel idx ~ idx := by
  induction fuel generalizing idx with
  | zero => exact mergeSort_perm _ _
  | succ n ih =>
    unfold cutRec
    split
    · exact Perm.refl _
    · split
      · exact mergeSort_perm _ _
      · rename_i p _
        simp only
        split
        · exact mergeSort_perm _ _
        · exact Perm.trans (Perm.append (ih _) (ih _)) (filter_split_perm p idx)

/-! ### flat accumulation without hyphen fusion and without a budget -/

def evApp : Ev → List Nat
  | .app _ t => t
  | _ => []

def evFrag : Ev → List Nat
  | .frag t => t
  | _ => []

def appTexts (evs : List Ev) : List Nat := evs.flatMap evApp
def fragTexts (evs : List Ev) : List Nat := evs.flatMap evFrag

/-- characters of the raw fragments in emission order -/
def fragChars (fr : List (List Nat × Nat)) : List Nat := fr.reverse.flatMap Prod.fst

theorem fragChars_cons (x : List Nat × Nat) (fr : List (List Nat × Nat)) :
    fragChars (x :: fr) = fragChars fr ++ x.1 := by
  simp [fragChars]

theorem appendBounded_plain (acc : List Nat) (sep : Option Nat) (txt : List Nat) :
    appendBounded acc sep txt none false
      = some (acc ++ sepList sep ++ txt, sep) := by
  cases sep <;> simp [appendBounded]

theorem sepFor_ws (Ω : FlatΩ) (i : Nat) (k : SepK) (text : List Nat) :
    sepFor Ω i k text = none ∨ sepFor Ω i k text = some SP ∨ sepFor Ω i k text = some NL := by
  have hchar : ∀ s : Sep, (s.char? = none ∨ s.char? = some SP ∨ s.char? = some NL) := by
    intro s; cases s <;> simp [Sep.char?]
  cases k <;> simp only [sepFor] <;> (try split) <;>
    first | exact hchar _ | exact Or.inr (Or.inr rfl) | exact Or.inl rfl | simp

theorem nonWs_with_sep (acc txt : List Nat) (sep : Option Nat)
    (h : sep = none ∨ sep = some SP ∨ sep = some NL) :
    nonWs (acc ++ sepList sep ++ txt) = nonWs acc ++ nonWs txt := by
  rcases h with h | h | h <;> subst h <;> simp [nonWs, isWs, SP, NL, sepList]

theorem groupAfter_fields (k : SepK) (a : Acc) (ap : Option Nat) (n : Nat) :
    (groupAfter k a ap n).text = a.text ∧ (groupAfter k a ap n).frags = a.frags ∧
    (groupAfter k a ap n).truncated = a.truncated := by
  cases k <;> simp only [groupAfter, extendGroup, recordGroup] <;> (try split) <;> simp

theorem consume1_inv (Ω : FlatΩ) (lay : Bool) (i : Nat) (e : Ev) (a : Acc) (ha : a.truncated = false) :
    (consume1 Ω false lay none i e a).truncated = false ∧
    nonWs (consume1 Ω false lay none i e a).text = nonWs a.text ++ nonWs (evApp e) ∧
    nonWs (fragChars (consume1 Ω false lay none i e a).frags)
      = nonWs (fragChars a.frags) ++ (if lay then nonWs (evFrag e) else []) := by
  unfold consume1
  simp only [ha, Bool.false_eq_true, ↓reduceIte]
  cases e with
  | app k txt =>
    simp only [appendBounded_plain, evApp, evFrag, nonWs_nil]
    refine ⟨?_, ?_, ?_⟩
    · rw [(groupAfter_fields k _ _ _).2.2]
    · rw [(groupAfter_fields k _ _ _).1]
      exact nonWs_with_sep _ _ _ (sepFor_ws Ω i k a.text)
    · rw [(groupAfter_fields k _ _ _).2.1]
      cases lay <;> simp
  | kern pn =>
    simp only [evApp, evFrag, nonWs_nil, List.append_nil]
    split
    · simp only [appendBounded_plain]
      split
      · simp [extendGroup, fragChars_cons, nonWs_append, nonWs_sp, sepList]
      · simp [extendGroup, nonWs_append, nonWs_sp, sepList]
    · simp [ha]
  | frag txt =>
    simp only [evApp, evFrag, nonWs_nil, List.append_nil]
    cases lay <;> simp [ha, fragChars_cons, nonWs_append]

theorem consumeFrom_inv (Ω : FlatΩ) (lay : Bool) (i : Nat) (evs : List Ev) (a : Acc)
    (ha : a.truncated = false) :
    (consumeFrom Ω false lay none i evs a).truncated = false ∧
    nonWs (consumeFrom Ω false lay none i evs a).text = nonWs a.text ++ nonWs (appTexts evs) ∧
    nonWs (fragChars (consumeFrom Ω false lay none i evs a).frags)
      = nonWs (fragChars a.frags) ++ (if lay then nonWs (fragTexts evs) else []) := by
  induction evs generalizing i a with
  | nil => simp [consumeFrom, appTexts, fragTexts, ha, nonWs_nil]
  | cons e r ih =>
    obtain ⟨h1, h2, h3⟩ := consume1_inv Ω lay i e a ha
    obtain ⟨g1, g2, g3⟩ := ih (i + 1) _ h1
    refine ⟨g1, ?_, ?_⟩
    · simp only [consumeFrom, g2, h2, appTexts, flatMap_cons, nonWs_append, List.append_assoc]
    · simp only [consumeFrom, g3, h3, fragTexts, flatMap_cons, nonWs_append]
      cases lay <;> simp

/-! ### clamp_to_budget keeps a prefix -/

theorem clampGo_prefix (m : Nat) (s : List Nat) : clampGo m s <+: s := by
  induction s generalizing m with
  | nil => simp [clampGo]
  | cons c r ih =>
    unfold clampGo
    split
    · exact (prefix_cons_inj c).mpr (ih _)
    · exact nil_prefix

theorem clamp_prefix (limit : Option Nat) (s : List Nat) : clamp limit s <+: s := by
  unfold clamp
  split
  · split
    · exact clampGo_prefix _ _
    · exact prefix_refl _
  · exact prefix_refl _

theorem clampGo_len (m : Nat) (s : List Nat) : utf8Len (clampGo m s) ≤ m := by
  induction s generalizing m with
  | nil => simp [clampGo, utf8Len]
  | cons c r ih =>
    unfold clampGo
    split
    · rename_i h
      have := ih (m - utf8Len1 c)
      simp only [utf8Len]; omega
    · simp [utf8Len]

/-! ### the whole fragment pipeline / the whole assembly (no hyphen fusion) -/

theorem layoutFrags_nil (Ω : Geo G) (o : Opts) : layoutFrags Ω o ([] : List (Frag G)) = [] := by
  simp [layoutFrags]

theorem layoutFrags_nonWs (Ω : Geo G) (o : Opts) (hmh : o.mh = false) (fs0 : List (Frag G)) :
    nonWs (chars (layoutFrags Ω o fs0)) ~ nonWs (chars fs0) := by
  unfold layoutFrags
  simp only [hmh, hyWrap_off]
  generalize h1 : (if fs0.isEmpty = true then fs0 else mergeCloseRegions Ω fs0) = fs1
  have e1 : nonWs (chars fs1) = nonWs (chars fs0) := by
    rw [← h1]; split
    · rfl
    · exact mergeCloseRegions_nonWs Ω fs0
  generalize h2 : (if (o.sp && !o.rp && !fs1.isEmpty) = true
      then sortAndMerge Ω (o.dc || (o.rc && !o.pl)) fs1 else fs1) = fs2
  have e2 : nonWs (chars fs2) ~ nonWs (chars fs1) := by
    rw [← h2]; split
    · exact sortAndMerge_nonWs Ω _ fs1
    · exact Perm.refl _
  generalize h3 : (if (o.pl && !fs2.isEmpty) = true then mergeClose Ω fs2 else fs2) = fs3
  have e3 : nonWs (chars fs3) = nonWs (chars fs2) := by
    rw [← h3]; split
    · exact mergeClose_nonWs Ω fs2
    · rfl
  have e4 : nonWs (chars (if (o.rp && !fs3.isEmpty) = true
      then mergeIntoParagraphs Ω false (mergeIntoLines Ω fs3) else fs3)) ~ nonWs (chars fs3) := by
    split
    · rw [mergeIntoParagraphs_nonWs]; exact mergeIntoLines_nonWs Ω fs3
    · exact Perm.refl _
  refine Perm.trans e4 ?_
  rw [e3]
  refine Perm.trans e2 ?_
  rw [e1]

theorem clamp_none' (s : List Nat) : clamp none s = s := rfl

theorem clamp_len (m : Nat) (s : List Nat) : utf8Len (clamp (some m) s) ≤ m := by
  simp only [clamp]
  split
  · exact clampGo_len _ _
  · rename_i h; omega

/-! ### the fragments mirror the flat text (operator loop, model side only) -/

/-- every character the loop hands to the flat text it also hands to the fragment list -/
def Mirror (ev : List Ev) : Prop := fragTexts ev = appTexts ev

theorem Mirror.nil : Mirror [] := rfl

theorem Mirror.append {a b : List Ev} (ha : Mirror a) (hb : Mirror b) : Mirror (a ++ b) := by
  unfold Mirror at *
  simp only [fragTexts, appTexts, flatMap_append] at *
  rw [ha, hb]

theorem showStr_mirror (P : Prog) (ia : Bool) (cr : Nat) (c : Cache) (k : SepK) (bs : List Nat)
    (st : St) : Mirror (showStr P ia cr c k bs st).2 := by
  unfold showStr
  split
  · exact Mirror.nil
  · rename_i decoded _
    split
    · exact Mirror.nil
    · split
      · simp [Mirror, fragTexts, appTexts, evApp, evFrag]
      · by_cases hd : decoded.isEmpty = true
        · have : decoded = [] := by simpa using hd
          subst this
          simp [Mirror, fragTexts, appTexts, evApp, evFrag]
        · simp [Mirror, fragTexts, appTexts, evApp, evFrag, hd]

theorem showArr_mirror (P : Prog) (ia : Bool) (cr : Nat) (c : Cache) (items : List TjItem)
    (first : Bool) (st : St) : Mirror (showArr P ia cr c items first st).2 := by
  induction items generalizing first st with
  | nil => exact Mirror.nil
  | cons it rest ih =>
    cases it with
    | str bs =>
      simp only [showArr]
      exact Mirror.append (showStr_mirror ..) (ih ..)
    | num =>
      simp only [showArr]
      refine Mirror.append ?_ (ih ..)
      split <;> simp [Mirror, fragTexts, appTexts, evApp, evFrag]

theorem endMarked_mirror (ia : Bool) (st : St) : Mirror (endMarked ia st).2 := by
  unfold endMarked
  split
  · exact Mirror.nil
  · split
    · exact Mirror.nil
    · simp only
      split
      · split
        · split
          · simp [Mirror, fragTexts, appTexts, evApp, evFrag]
          · exact Mirror.nil
        · exact Mirror.nil
      · exact Mirror.nil

theorem stepSimple_mirror (P : Prog) (ia : Bool) (cr : Nat) (c : Cache) (op : Op) (st : St) :
    Mirror (stepSimple P ia cr c op st).2 := by
  cases op <;> simp only [stepSimple] <;> (try exact Mirror.nil)
  case q => split <;> exact Mirror.nil
  case Q => split; exact Mirror.nil; split <;> exact Mirror.nil
  case tj bs => split; exact showStr_mirror ..; exact Mirror.nil
  case quote bs => split; exact showStr_mirror ..; exact Mirror.nil
  case tjArr items => split; exact showArr_mirror ..; exact Mirror.nil
  case emc => exact endMarked_mirror ia st

theorem runOps_mirror (P : Prog) (ia : Bool) (cr : Nat)
    (call : Nat → Cache → St → St × List Ev) (hcall : ∀ j c st, Mirror (call j c st).2)
    (xmap : List Nat) (c : Cache) (ops : List Op) (st : St) :
    Mirror (runOps P ia cr call xmap c ops st).2 := by
  induction ops generalizing st with
  | nil => exact Mirror.nil
  | cons op rest ih =>
    simp only [runOps]
    refine Mirror.append ?_ (ih _)
    split
    · split
      · exact hcall ..
      · exact Mirror.nil
    · exact stepSimple_mirror ..

theorem level_mirror (P : Prog) (ia : Bool) (cr : Nat) (d j : Nat) (c : Cache) (st : St) :
    Mirror (level P ia cr d j c st).2 := by
  induction d generalizing j c st with
  | zero => exact Mirror.nil
  | succ d ih =>
    simp only [level]
    split
    · exact Mirror.nil
    · simp only [paint]
      exact runOps_mirror P ia cr _ (fun j c st => ih j c st) ..

theorem events_mirror (P : Prog) (ia : Bool) (cr : Nat) : Mirror (events P ia cr).2 := by
  unfold events
  split
  · exact Mirror.nil
  · exact runOps_mirror P ia cr _ (fun j c st => level_mirror P ia cr _ j c st) ..

/-- sample geometry oracle for the non-vacuity examples: geometry = an x position; every pair of
    fragments is "close" (merged when `merge`, with a space when `space`), one line, one region -/
def sampleGeo (merge space : Bool) : Geo Nat where
  regionBreak := fun _ _ => false
  rowBreak := fun _ _ => false
  closeMerge := fun _ _ => merge
  closeSpace := fun _ _ => space
  closeJoin := fun a _ => a
  wrapGeom := fun _ _ => true
  wrapJoin := fun a _ => a
  cmpY := fun _ _ => .eq
  cmpX := fun a b => compare a b
  sameLine := fun _ _ => true
  columns := fun _ => none
  tagged := fun _ => false
  lineJoin := fun _ _ => true
  prefersEmission := fun _ => false
  lineSpace := fun _ _ => true
  lineGeom := fun l => l.headD 0
  paraBreak := fun _ _ _ => false
  paraJoin := fun a _ => a
  recNewline := fun _ _ => true
  recSpace := fun _ _ => false

def sampleFlat : FlatΩ where
  tjSep := fun i => if i % 2 == 0 then .newline else .space
  arrSep := fun _ _ => .none
  kern := fun _ => true

def sampleCut : CutΩ where
  cut := fun idx => if idx.length ≤ 1 then none else some (fun i => i % 2 == 1)

end OxiVerif.C11
