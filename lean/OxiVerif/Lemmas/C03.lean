/-
C03 — helper lemmas for the layout model (builder b0320).
-/
import OxiVerif.Model.C03
import OxiVerif.Spec.C03File
namespace OxiVerif.C03

/-! ### byte accounting -/
/-- the bytes at offset `p` begin with `N 0 obj\n` -/
def headerAt (out : List Nat) (p id : Nat) : Prop := objHeader id <+: out.drop p

/-- `Inv` of DESIGN §7 C03: the position counter is the number of bytes emitted, and every
recorded cross-reference position is the first byte of that object's `N 0 obj` header. -/
def Inv (s : WState) : Prop := s.pos = s.out.length ∧ ∀ e ∈ s.xref, headerAt s.out e.2 e.1

theorem headerAt_append {out : List Nat} {p id : Nat} (d : List Nat) (h : headerAt out p id) :
    headerAt (out ++ d) p id := by
  obtain ⟨t, ht⟩ := h
  refine ⟨t ++ d.drop (p - out.length), ?_⟩
  rw [List.drop_append, ← ht]
  simp

theorem Inv.init : Inv WState.init := by
  refine ⟨rfl, ?_⟩
  intro e he
  simp [WState.init] at he

theorem writeBytes_inv {s : WState} (d : List Nat) (h : Inv s) : Inv (writeBytes s d) := by
  refine ⟨?_, ?_⟩
  · simp [writeBytes, h.1]
  · intro e he
    exact headerAt_append d (h.2 e he)

theorem writeObjectNow_inv {s : WState} (id : Nat) (body : List Nat) (h : Inv s) :
    Inv (writeObjectNow s id body) := by
  refine ⟨?_, ?_⟩
  · simp [writeObjectNow, writeBytes, h.1]; omega
  · intro e he
    simp only [writeObjectNow, writeBytes, List.mem_cons] at he
    rcases he with rfl | he
    · refine ⟨body ++ kEndobjNl, ?_⟩
      simp [writeObjectNow, writeBytes, h.1, List.append_assoc]
    · have := h.2 e he
      simpa [writeObjectNow, writeBytes, List.append_assoc] using
        headerAt_append (objHeader id ++ body ++ kEndobjNl) this

theorem writeObject_inv (cfg : Cfg) {s : WState} (o : Obj) (h : Inv s) : Inv (writeObject cfg s o) := by
  unfold writeObject
  split
  · exact ⟨h.1, h.2⟩
  · exact writeObjectNow_inv _ _ h

theorem writeObjects_inv (cfg : Cfg) (os : List Obj) {s : WState} (h : Inv s) :
    Inv (writeObjects cfg s os) := by
  induction os generalizing s with
  | nil => exact h
  | cons o r ih => exact ih (writeObject_inv cfg o h)

theorem foldl_writeObjectNow_inv (z : List Nat → List Nat) (sts : List ObjStm) {s : WState} (h : Inv s) :
    Inv (sts.foldl (fun s st => writeObjectNow s st.id (objStmBody z st)) s) := by
  induction sts generalizing s with
  | nil => exact h
  | cons st r ih => exact ih (writeObjectNow_inv _ _ h)

theorem bodyState_inv (cfg : Cfg) (z : List Nat → List Nat) (d : Doc) : Inv (bodyState cfg z d).1 := by
  unfold bodyState
  have h0 : Inv (writeObjects cfg (writeBytes WState.init (headerBytes d.version)) d.objs) :=
    writeObjects_inv cfg _ (writeBytes_inv _ Inv.init)
  split
  · exact foldl_writeObjectNow_inv z _ h0
  · exact h0

/-! ### cross-reference entries come from recorded positions -/
theorem lookupOff_mem {x : List (Nat × Nat)} {n p : Nat} (h : lookupOff x n = some p) : (n, p) ∈ x := by
  unfold lookupOff at h
  cases hf : x.find? (fun e => e.1 == n) with
  | none => simp [hf] at h
  | some e =>
    simp [hf] at h
    have hm := List.mem_of_find?_eq_some hf
    have hp := List.find?_some hf
    simp at hp
    subst h
    subst hp
    exact hm

theorem range'_getElem?_some {s n k m : Nat} (h : (List.range' s n)[k]? = some m) : m = s + k := by
  obtain ⟨hk, rfl⟩ := List.getElem?_eq_some_iff.mp h
  simp [List.getElem_range']

theorem classicEntries_inUse {x : List (Nat × Nat)} {n off g : Nat}
    (h : (classicEntries x)[n]? = some (.inUse off g)) : (n, off) ∈ x ∧ g = 0 := by
  unfold classicEntries at h
  cases n with
  | zero => simp at h
  | succ k =>
    simp only [List.getElem?_cons_succ, List.getElem?_map] at h
    cases hr : (List.range' 1 (maxId x))[k]? with
    | none => simp [hr] at h
    | some m =>
      have hm : m = 1 + k := range'_getElem?_some hr
      simp only [hr, Option.map_some] at h
      cases hl : lookupOff x m with
      | none => simp [hl] at h
      | some p =>
        simp [hl] at h
        obtain ⟨rfl, rfl⟩ := h
        have := lookupOff_mem hl
        rw [hm] at this
        rw [Nat.add_comm] at this
        exact ⟨this, rfl⟩

theorem classicEntries_length (x : List (Nat × Nat)) : (classicEntries x).length = maxId x + 1 := by
  simp [classicEntries]

theorem foldl_max_ge (x : List (Nat × Nat)) (m : Nat) :
    m ≤ x.foldl (fun m e => max m e.1) m ∧ ∀ e ∈ x, e.1 ≤ x.foldl (fun m e => max m e.1) m := by
  induction x generalizing m with
  | nil => simp
  | cons a r ih =>
    simp only [List.foldl_cons, List.mem_cons]
    have := ih (max m a.1)
    refine ⟨by omega, ?_⟩
    intro e he
    rcases he with rfl | he
    · omega
    · exact this.2 e he

theorem le_maxId {x : List (Nat × Nat)} {e : Nat × Nat} (h : e ∈ x) : e.1 ≤ maxId x :=
  (foldl_max_ge x 0).2 e h

theorem xrefStreamEntries_length (x : List (Nat × Nat)) (cmap : List (Nat × Nat × Nat)) (sid pos : Nat) :
    (xrefStreamEntries x cmap sid pos).length = max (maxId x) sid + 1 := by
  simp [xrefStreamEntries]

theorem xrefStreamEntries_inUse {x : List (Nat × Nat)} {cmap : List (Nat × Nat × Nat)} {sid pos n off g : Nat}
    (h : (xrefStreamEntries x cmap sid pos)[n]? = some (.inUse off g)) :
    ((n = sid ∧ off = pos) ∨ (n, off) ∈ x) ∧ g = 0 := by
  unfold xrefStreamEntries at h
  cases n with
  | zero => simp at h
  | succ k =>
    simp only [List.getElem?_cons_succ, List.getElem?_map] at h
    cases hr : (List.range' 1 (max (maxId x) sid))[k]? with
    | none => simp [hr] at h
    | some m =>
      have hm : m = 1 + k := range'_getElem?_some hr
      simp only [hr, Option.map_some] at h
      by_cases hs : m = sid
      · simp [hs] at h
        obtain ⟨rfl, rfl⟩ := h
        exact ⟨Or.inl ⟨by omega, rfl⟩, rfl⟩
      · simp only [hs, if_false] at h
        cases hc : cmap.find? (fun e => e.1 == m) with
        | some c => obtain ⟨a, b, c⟩ := c; simp [hc] at h
        | none =>
          simp only [hc] at h
          cases hl : lookupOff x m with
          | none => simp [hl] at h
          | some p =>
            simp [hl] at h
            obtain ⟨rfl, rfl⟩ := h
            have := lookupOff_mem hl
            rw [hm, Nat.add_comm] at this
            exact ⟨Or.inr this, rfl⟩

/-! ### cross-reference stream fields -/
theorem readField_writeField (v w : Nat) (rest : List Nat) :
    readField w (writeField v w ++ rest) = some (v % 256 ^ w, rest) := by
  induction w with
  | zero => simp [readField, writeField, Nat.mod_one]
  | succ w ih =>
    simp only [writeField, List.cons_append, readField, ih, Option.map_some]
    congr 2
    rw [Nat.pow_succ, Nat.mod_mul]
    rw [Nat.mul_comm (v / 256 ^ w % 256), Nat.add_comm]

theorem bytesNeeded_spec (v : Nat) : v < 256 ^ bytesNeeded v := by
  unfold bytesNeeded
  split
  · subst_vars; decide
  · have h1 := Nat.lt_log2_self (n := v)
    have h2 : (256 : Nat) ^ (v.log2 / 8 + 1) = 2 ^ (8 * (v.log2 / 8 + 1)) := by
      rw [Nat.pow_mul]
    rw [h2]
    refine Nat.lt_of_lt_of_le h1 (Nat.pow_le_pow_right (by decide) ?_)
    omega

/-- what an entry needs in field 2 / field 3 -/
def need2 : Entry → Nat
  | .free _ _ => 0
  | .inUse off _ => bytesNeeded off
  | .compressed stm _ => bytesNeeded stm
def need3 : Entry → Nat
  | .compressed _ idx => bytesNeeded idx
  | _ => 0

theorem widths_foldl (es : List Entry) (w0 : Nat × Nat × Nat) :
    (es.foldl widthStep w0).1 = w0.1 ∧ w0.2.1 ≤ (es.foldl widthStep w0).2.1 ∧
    w0.2.2 ≤ (es.foldl widthStep w0).2.2 ∧
    ∀ e ∈ es, need2 e ≤ (es.foldl widthStep w0).2.1 ∧ need3 e ≤ (es.foldl widthStep w0).2.2 := by
  induction es generalizing w0 with
  | nil => simp
  | cons a r ih =>
    simp only [List.foldl_cons, List.mem_cons]
    obtain ⟨h1, h2, h3, h4⟩ := ih (widthStep w0 a)
    have hs : (widthStep w0 a).1 = w0.1 ∧ w0.2.1 ≤ (widthStep w0 a).2.1 ∧ w0.2.2 ≤ (widthStep w0 a).2.2 ∧
        need2 a ≤ (widthStep w0 a).2.1 ∧ need3 a ≤ (widthStep w0 a).2.2 := by
      cases a <;> simp [widthStep, need2, need3] <;> omega
    refine ⟨by rw [h1]; exact hs.1, by omega, by omega, ?_⟩
    intro e he
    rcases he with rfl | he
    · exact ⟨by omega, by omega⟩
    · exact h4 e he

/-- entries the document writer can produce: free entries carry `(0, 65535)` or `(0, 0)`,
generations are `u16` -/
def WriterEntry : Entry → Prop
  | .free n g => n < 2 ^ 24 ∧ g < 65536
  | .inUse _ g => g < 65536
  | .compressed _ _ => True

theorem pow256_mono {a b : Nat} (h : a ≤ b) : 256 ^ a ≤ 256 ^ b := Nat.pow_le_pow_right (by decide) h

theorem decode_encode_entry (w : Nat × Nat × Nat) (e : Entry) (rest : List Nat)
    (hw1 : w.1 = 1) (hw2 : 3 ≤ w.2.1) (hw3 : 2 ≤ w.2.2)
    (h2 : need2 e ≤ w.2.1) (h3 : need3 e ≤ w.2.2) (he : WriterEntry e) :
    ∃ t a b, readField w.1 (encodeEntry w e ++ rest) = some (t, writeField a w.2.1 ++ writeField b w.2.2 ++ rest)
      ∧ readField w.2.1 (writeField a w.2.1 ++ writeField b w.2.2 ++ rest) = some (a, writeField b w.2.2 ++ rest)
      ∧ readField w.2.2 (writeField b w.2.2 ++ rest) = some (b, rest)
      ∧ entryOfType t a b = some e := by
  have p3 : (256 : Nat) ^ 3 ≤ 256 ^ w.2.1 := pow256_mono hw2
  have p2 : (256 : Nat) ^ 2 ≤ 256 ^ w.2.2 := pow256_mono hw3
  cases e with
  | free n g =>
    obtain ⟨hn, hg⟩ := he
    refine ⟨0, n, g, ?_, ?_, ?_, by simp [entryOfType]⟩
    · simp [encodeEntry, List.append_assoc, readField_writeField, hw1]
    · rw [List.append_assoc, readField_writeField, Nat.mod_eq_of_lt]
      have : (2:Nat) ^ 24 = 256 ^ 3 := by decide
      omega
    · rw [readField_writeField, Nat.mod_eq_of_lt]
      have : (65536 : Nat) = 256 ^ 2 := by decide
      omega
  | inUse off g =>
    refine ⟨1, off, g, ?_, ?_, ?_, by simp [entryOfType]⟩
    · simp [encodeEntry, List.append_assoc, readField_writeField, hw1]
    · rw [List.append_assoc, readField_writeField, Nat.mod_eq_of_lt]
      exact Nat.lt_of_lt_of_le (bytesNeeded_spec off) (pow256_mono h2)
    · rw [readField_writeField, Nat.mod_eq_of_lt]
      have : (65536 : Nat) = 256 ^ 2 := by decide
      have hg : g < 65536 := he
      omega
  | compressed stm idx =>
    refine ⟨2, stm, idx, ?_, ?_, ?_, by simp [entryOfType]⟩
    · simp [encodeEntry, List.append_assoc, readField_writeField, hw1]
    · rw [List.append_assoc, readField_writeField, Nat.mod_eq_of_lt]
      exact Nat.lt_of_lt_of_le (bytesNeeded_spec stm) (pow256_mono h2)
    · rw [readField_writeField, Nat.mod_eq_of_lt]
      exact Nat.lt_of_lt_of_le (bytesNeeded_spec idx) (pow256_mono h3)

theorem decode_encode_entries (w : Nat × Nat × Nat) (es : List Entry)
    (hw1 : w.1 = 1) (hw2 : 3 ≤ w.2.1) (hw3 : 2 ≤ w.2.2)
    (hfit : ∀ e ∈ es, need2 e ≤ w.2.1 ∧ need3 e ≤ w.2.2) (hwe : ∀ e ∈ es, WriterEntry e) :
    decodeEntries w es.length (encodeEntries w es) = some es := by
  induction es with
  | nil => simp [decodeEntries, encodeEntries]
  | cons e r ih =>
    have hr := ih (fun e he => hfit e (List.mem_cons_of_mem _ he)) (fun e he => hwe e (List.mem_cons_of_mem _ he))
    obtain ⟨t, a, b, r1, r2, r3, r4⟩ := decode_encode_entry w e (encodeEntries w r) hw1 hw2 hw3
      (hfit e List.mem_cons_self).1 (hfit e List.mem_cons_self).2 (hwe e List.mem_cons_self)
    have : encodeEntries w (e :: r) = encodeEntry w e ++ encodeEntries w r := by
      simp [encodeEntries]
    rw [this]
    simp only [List.length_cons, decodeEntries, r1, r2, r3, r4, hr]

/-! ### object streams -/
def lensOf (ms : List (Nat × List Nat)) : List (Nat × Nat) := ms.map fun m => (m.1, m.2.length)

/-- the text of an object-stream index: `number SP offset SP` per member -/
def indexBytes : List (Nat × Nat) → List Nat
  | [] => []
  | (id, off) :: r => dec id ++ [32] ++ dec off ++ [32] ++ indexBytes r

theorem genStreamData_index (ms : List (Nat × List Nat)) (cur : Nat) :
    (genStreamData cur ms).1 = indexBytes (memberOffsets cur (lensOf ms)) := by
  induction ms generalizing cur with
  | nil => simp [genStreamData, lensOf, memberOffsets, indexBytes]
  | cons m r ih =>
    obtain ⟨id, d⟩ := m
    simp only [genStreamData, lensOf, List.map_cons, memberOffsets, indexBytes]
    have := ih (cur + d.length + 1)
    simp only [lensOf] at this
    rw [this]

theorem indexBytes_length (ps : List (Nat × Nat)) : (indexBytes ps).length = indexLen ps := by
  induction ps with
  | nil => simp [indexBytes, indexLen]
  | cons p r ih => obtain ⟨a, b⟩ := p; simp [indexBytes, indexLen, ih]; omega

theorem genStreamData_member (ms : List (Nat × List Nat)) (cur i id : Nat) (d : List Nat)
    (h : ms[i]? = some (id, d)) :
    ∃ off, (memberOffsets cur (lensOf ms))[i]? = some (id, off) ∧ cur ≤ off ∧
      ((genStreamData cur ms).2.drop (off - cur)).take d.length = d ∧
      ((genStreamData cur ms).2.drop (off - cur + d.length)).head? = some 32 := by
  induction ms generalizing cur i with
  | nil => simp at h
  | cons m r ih =>
    obtain ⟨id0, d0⟩ := m
    cases i with
    | zero =>
      simp at h
      obtain ⟨rfl, rfl⟩ := h
      refine ⟨cur, by simp [lensOf, memberOffsets], Nat.le_refl _, ?_, ?_⟩
      · simp [genStreamData, List.append_assoc]
      · simp [genStreamData, List.append_assoc]
    | succ k =>
      simp only [List.getElem?_cons_succ] at h
      obtain ⟨off, h1, h2, h3, h4⟩ := ih (cur + d0.length + 1) k h
      refine ⟨off, by simpa [lensOf, memberOffsets] using h1, by omega, ?_, ?_⟩
      · have e : off - cur = (d0 ++ [32]).length + (off - (cur + d0.length + 1)) := by simp; omega
        simp only [genStreamData]
        rw [e, ← List.drop_drop, List.drop_left]
        exact h3
      · have e : off - cur + d.length = (d0 ++ [32]).length + (off - (cur + d0.length + 1) + d.length) := by
          simp; omega
        simp only [genStreamData]
        rw [e, ← List.drop_drop, List.drop_left]
        exact h4

/-! ### the stream arm -/
theorem mem_sortEntries {d : List DictE} {e : DictE} : e ∈ sortEntries d ↔ e ∈ d := by
  unfold sortEntries
  exact (List.mergeSort_perm d _).mem_iff

theorem setKey_lookup (d : List DictE) (k v v' : List Nat) (h : (k, v') ∈ setKey d k v) : v' = v := by
  simp only [setKey, List.mem_cons, List.mem_filter] at h
  rcases h with h | ⟨_, h⟩
  · simpa using congrArg Prod.snd h
  · simp at h

end OxiVerif.C03
