import OxiVerif.Model.C30
import OxiVerif.Lemmas.C09
import OxiVerif.Lemmas.C09Lib
import OxiVerif.Lemmas.C09Tree
import OxiVerif.Lemmas.C09LibTree
set_option linter.unusedSimpArgs false
/-!
# Lemmas for C30 — name emission against the three readers

Byte-level, for arbitrary byte lists, by induction over the name.
-/
namespace OxiVerif.C30
open OxiVerif.Spec.Syntax (Obj)
open OxiVerif.Model
open OxiVerif.Spec
open OxiVerif.C09

theorem allB_imp (p q : Nat → Bool) (hpq : ∀ b, p b = true → q b = true) (n : List Nat)
    (h : allB p n = true) : allB q n = true := by
  induction n with
  | nil => rfl
  | cons x xs ih =>
    rw [allB_cons] at h ⊢
    exact ⟨hpq x h.1, ih h.2⟩

/-! ## byte classes -/

theorem regular_facts (b : Nat) (h : Syntax.isRegular b = true) :
    b ≠ 0 ∧ b ≠ 9 ∧ b ≠ 10 ∧ b ≠ 12 ∧ b ≠ 13 ∧ b ≠ 32 ∧ b ≠ 40 ∧ b ≠ 41 ∧ b ≠ 60 ∧ b ≠ 62 ∧ b ≠ 91 ∧
    b ≠ 93 ∧ b ≠ 123 ∧ b ≠ 125 ∧ b ≠ 47 ∧ b ≠ 37 := by
  simp [Syntax.isRegular, Syntax.isWhite, Syntax.isDelim] at h
  omega

theorem regular_not_libBreak (b : Nat) (h : Syntax.isRegular b = true) : Lexer.isBreak b = false := by
  have := regular_facts b h
  simp [Lexer.isBreak, Lexer.isAsciiWs]
  omega

theorem regular_not_ctBreak (b : Nat) (h : Syntax.isRegular b = true) : CT.isNameBreak b = false := by
  have := regular_facts b h
  simp [CT.isNameBreak, CT.isWs]
  omega

theorem printable_safe (n : List Nat) (h : PrintableName n = true) : SafeName n = true := by
  refine allB_imp _ _ ?_ n h
  intro b hb
  simp [Syntax.isDelim] at hb
  simp [Syntax.isRegular, Syntax.isWhite, Syntax.isDelim]
  omega

theorem safe_specOk (n : List Nat) (h : SafeName n = true) : SpecNameOk n = true := by
  refine allB_imp _ _ ?_ n h
  intro b hb
  simp at hb
  simp [hb.1.1, hb.1.2]

theorem safe_libOk (n : List Nat) (h : SafeName n = true) : LibNameOk n = true := by
  refine allB_imp _ _ ?_ n h
  intro b hb
  simp at hb
  simp [regular_not_libBreak b hb.1.1, hb.1.2, hb.2]

theorem safe_ascii (n : List Nat) (h : SafeName n = true) : allB (fun b => b < 128) n = true := by
  refine allB_imp _ _ ?_ n h
  intro b hb
  simp at hb
  simp [hb.2]

/-- names made of regular characters without `#` (any bytes ≥ 0x80 allowed) -/
def RegName (n : List Nat) : Bool := allB (fun b => Syntax.isRegular b && b != 35) n

theorem safe_reg (n : List Nat) (h : SafeName n = true) : RegName n = true := by
  refine allB_imp _ _ ?_ n h
  intro b hb
  simp at hb
  simp [hb.1.1, hb.1.2]

/-- the continuation ends a name for the content tokenizer -/
def ctEnds : List Nat → Bool
  | [] => true
  | b :: _ => CT.isNameBreak b

/-! ## the content tokenizer on raw names -/

theorem ct_scan_raw (n d : List Nat) (hn : RegName n = true) (hd : ctEnds d = true) :
    CT.scanName 0 (n ++ d) = (n, d) := by
  induction n with
  | nil =>
    cases d with
    | nil => rfl
    | cons b r =>
      simp [ctEnds] at hd
      simp [CT.scanName, hd]
  | cons x xs ih =>
    unfold RegName at hn ih
    rw [allB_cons] at hn
    have h1 := hn.1
    simp at h1
    have hb := regular_not_ctBreak x h1.1
    simp [CT.scanName, hb, h1.2, ih hn.2]

theorem ct_decode_raw (n : List Nat) (hn : RegName n = true) : CT.decodeName .plain n = some n := by
  induction n with
  | nil => rfl
  | cons x xs ih =>
    unfold RegName at hn ih
    rw [allB_cons] at hn
    have h1 := hn.1
    simp at h1
    simp [CT.decodeName, h1.2, ih hn.2]

theorem validUtf8_ascii (n : List Nat) (h : allB (fun b => b < 128) n = true) : CT.validUtf8 n = true := by
  induction n with
  | nil => rfl
  | cons x xs ih =>
    rw [allB_cons] at h
    have hx : x < 128 := by simpa using h.1
    unfold CT.validUtf8
    simp [hx, ih h.2]

theorem ct_readName_raw (n d : List Nat) (hn : RegName n = true) (hu : CT.validUtf8 n = true)
    (hd : ctEnds d = true) : CT.readName (n ++ d) = .tok (.name n) d := by
  simp [CT.readName, ct_scan_raw n d hn hd, ct_decode_raw n hn, hu]

/-! ## the library's object lexer on raw names (byte level, non-ASCII included) -/

theorem lib_readName_reg (n d : List Nat) (hn : RegName n = true) (hd : libEnds d = true) :
    Lexer.readName (n ++ d) = .ok (n, d) := by
  unfold Lexer.readName
  induction n with
  | nil =>
    cases d with
    | nil => rfl
    | cons b r =>
      simp [libEnds] at hd
      simp [Lexer.readNameSt, hd]
  | cons x xs ih =>
    unfold RegName at hn ih
    rw [allB_cons] at hn
    have h1 := hn.1
    simp at h1
    simp [Lexer.readNameSt, regular_not_libBreak x h1.1, h1.2, ih hn.2, Lexer.consOut]

theorem spec_readName_reg (n d : List Nat) (hn : RegName n = true) (hd : specEnds d = true) :
    Syntax.readName (n ++ d) = some (n, d) :=
  spec_readName_raw n d hn hd


/-! ## the escaping emitter (`escape_pdf_name_bytes` = `Model.escapeName`) against the three readers

The independent reader and the object lexer: `spec_readName_escName`, `lib_readName_escName`
(Lemmas/C09, C09Lib).  Here: the content tokenizer. -/

theorem plain_regular (b : Nat) (h : nameRegular b = true) : Syntax.isRegular b = true ∧ b ≠ 35 := by
  simp [nameRegular] at h
  simp [Syntax.isRegular, Syntax.isWhite, Syntax.isDelim]
  omega

theorem hexDigitUpper_ne (k : Nat) (h : k < 16) : hexDigitUpper k ≠ 43 := by
  unfold hexDigitUpper
  by_cases h10 : k < 10
  · simp [h10]; omega
  · simp [h10]; omega

theorem ct_hexVal_hexDigitUpper (k : Nat) (h : k < 16) : CT.hexVal (hexDigitUpper k) = some k :=
  hexVal_hexDigitUpper k h

theorem ct_scan_esc (n d : List Nat) (hd : ctEnds d = true) :
    CT.scanName 0 (escapeName n ++ d) = (escapeName n, d) := by
  induction n with
  | nil =>
    cases d with
    | nil => rfl
    | cons b r =>
      simp [ctEnds] at hd
      simp [escapeName, CT.scanName, hd]
  | cons x xs ih =>
    by_cases hp : nameRegular x = true
    · have := plain_regular x hp
      simp [escapeName, hp, CT.scanName, regular_not_ctBreak x this.1, this.2, ih]
    · simp only [Bool.not_eq_true] at hp
      have h35 : CT.isNameBreak 35 = false := by decide
      simp [escapeName, hp, CT.scanName, h35, ih]

theorem ct_decode_esc (n : List Nat) (hb : NameBytes n = true) :
    CT.decodeName .plain (escapeName n) = some n := by
  unfold NameBytes at hb
  induction n with
  | nil => rfl
  | cons x xs ih =>
    rw [allB_cons] at hb
    have hx : x < 256 := by simpa using hb.1
    by_cases hp : nameRegular x = true
    · have := plain_regular x hp
      simp [escapeName, hp, CT.decodeName, this.2, ih hb.2]
    · simp only [Bool.not_eq_true] at hp
      have h1 := ct_hexVal_hexDigitUpper (x / 16 % 16) (by omega)
      have h2 := ct_hexVal_hexDigitUpper (x % 16) (by omega)
      have hn := hexDigitUpper_ne (x / 16 % 16) (by omega)
      simp [escapeName, hp, CT.decodeName, CT.hexPair, hn, h1, h2, ih hb.2]
      omega

/-- the library's content tokenizer decodes the `#XX` escapes back: every valid-UTF-8 name -/
theorem ct_readName_esc (n d : List Nat) (hb : NameBytes n = true)
    (hu : CT.validUtf8 n = true) (hd : ctEnds d = true) :
    CT.readName (escapeName n ++ d) = .tok (.name n) d := by
  simp [CT.readName, ct_scan_esc n d hd, ct_decode_esc n hb, hu]

theorem safe_nameAscii (n : List Nat) (h : SafeName n = true) : NameAscii n = true :=
  safe_ascii n h

end OxiVerif.C30
