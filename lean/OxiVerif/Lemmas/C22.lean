import OxiVerif.Model.C22
/-!
Helper lemmas for C22: sorted insertion is a permutation of `cons`; keyed update / removal on the
in-flight list; the per-job token count.
-/
namespace OxiVerif.C22

theorem ins_perm (k : Nat) (l : List Nat) : (ins k l).Perm (k :: l) := by
  induction l with
  | nil => simp [ins]
  | cons a l ih =>
    unfold ins
    split
    · exact List.Perm.refl _
    · exact (List.Perm.cons a ih).trans (List.Perm.swap k a l)

theorem insSent_perm (m : Nat × Kind) (l : List (Nat × Kind)) : (insSent m l).Perm (m :: l) := by
  induction l with
  | nil => simp [insSent]
  | cons a l ih =>
    unfold insSent
    split
    · exact List.Perm.refl _
    · exact (List.Perm.cons a ih).trans (List.Perm.swap m a l)

theorem count_ins (j k : Nat) (l : List Nat) : (ins k l).count j = (k :: l).count j :=
  (ins_perm k l).count_eq j

theorem length_ins (k : Nat) (l : List Nat) : (ins k l).length = l.length + 1 := by
  simpa using (ins_perm k l).length_eq

theorem mem_ins {j k : Nat} {l : List Nat} : j ∈ ins k l ↔ j = k ∨ j ∈ l := by
  simpa using (ins_perm k l).mem_iff (a := j)

theorem ins_ne_nil (k : Nat) (l : List Nat) : ins k l ≠ [] := by
  intro h; have := length_ins k l; simp [h] at this

theorem count_fst_insSent (j : Nat) (m : Nat × Kind) (l : List (Nat × Kind)) :
    ((insSent m l).map Prod.fst).count j = ((m :: l).map Prod.fst).count j :=
  ((insSent_perm m l).map Prod.fst).count_eq j

theorem mem_insSent {x m : Nat × Kind} {l : List (Nat × Kind)} : x ∈ insSent m l ↔ x = m ∨ x ∈ l := by
  simpa using (insSent_perm m l).mem_iff (a := x)

theorem countKind_insSent (k : Kind) (m : Nat × Kind) (l : List (Nat × Kind)) :
    countKind k (insSent m l) = countKind k l + (if m.2 = k then 1 else 0) := by
  unfold countKind
  rw [((insSent_perm m l).filter _).length_eq]
  by_cases h : m.2 = k <;> simp [List.filter_cons, h]

/-! ### keyed operations on the in-flight list -/

def idxs (l : List Fl) : List Nat := l.map Fl.idx

theorem idxs_updFl (k : Nat) (g : Fl → Fl) (hg : ∀ f, (g f).idx = f.idx) (l : List Fl) :
    idxs (updFl k g l) = idxs l := by
  unfold idxs updFl
  induction l with
  | nil => rfl
  | cons a l ih =>
    simp only [List.map_cons, ih]
    split <;> simp [hg]

theorem idxs_setPc (k : Nat) (pc : Pc) (l : List Fl) : idxs (setPc k pc l) = idxs l :=
  idxs_updFl k (fun f => { f with pc := pc }) (fun _ => rfl) l

theorem length_updFl (k : Nat) (g : Fl → Fl) (l : List Fl) : (updFl k g l).length = l.length := by
  simp [updFl]

theorem length_setPc (k : Nat) (pc : Pc) (l : List Fl) : (setPc k pc l).length = l.length := by
  simp [setPc]

theorem count_idxs_dropFl (j k : Nat) (l : List Fl) :
    (idxs (dropFl k l)).count j = if j = k then 0 else (idxs l).count j := by
  unfold idxs dropFl
  induction l with
  | nil => simp
  | cons a l ih =>
    by_cases h : a.idx = k
    · simp only [List.filter_cons, h, beq_self_eq_true, Bool.not_true, Bool.false_eq_true, ↓reduceIte, ih,
        List.map_cons, List.count_cons]
      split <;> simp_all
      omega
    · have h' : (a.idx == k) = false := by simpa using h
      simp only [List.filter_cons, h', Bool.not_false, ↓reduceIte, List.map_cons, List.count_cons, ih]
      split <;> simp_all

theorem findFl_some {k : Nat} {l : List Fl} {f : Fl} (h : findFl k l = some f) : f.idx = k ∧ f ∈ l := by
  unfold findFl at h
  have h1 := List.find?_some h
  have h2 := List.mem_of_find?_eq_some h
  exact ⟨by simpa using h1, h2⟩

theorem count_pos_of_findFl {k : Nat} {l : List Fl} {f : Fl} (h : findFl k l = some f) :
    0 < (idxs l).count k := by
  obtain ⟨h1, h2⟩ := findFl_some h
  apply List.count_pos_iff.mpr
  unfold idxs
  exact List.mem_map.mpr ⟨f, h2, h1⟩

theorem updFl_of_count_zero (k : Nat) (g : Fl → Fl) (l : List Fl) (h : (idxs l).count k = 0) :
    updFl k g l = l := by
  unfold idxs at h
  unfold updFl
  induction l with
  | nil => rfl
  | cons a l ih =>
    simp only [List.map_cons, List.count_cons] at h
    have ha : (a.idx == k) = false := by
      cases hh : (a.idx == k) <;> simp_all
    have hl : List.count k (List.map Fl.idx l) = 0 := by omega
    have ha2 : ¬ a.idx = k := by simpa using ha
    have := ih hl
    simp only [List.map_cons, ha, Bool.false_eq_true, ↓reduceIte, this]

theorem dropFl_of_count_zero (k : Nat) (l : List Fl) (h : (idxs l).count k = 0) : dropFl k l = l := by
  unfold idxs at h
  unfold dropFl
  induction l with
  | nil => rfl
  | cons a l ih =>
    simp only [List.map_cons, List.count_cons] at h
    have ha : (a.idx == k) = false := by
      cases hh : (a.idx == k) <;> simp_all
    have hl : List.count k (List.map Fl.idx l) = 0 := by omega
    simp [List.filter_cons, ha, ih hl]

/-- with a unique key, a keyed update moves exactly one entry from `f` to `g f` -/
theorem countP_updFl (p : Fl → Bool) (k : Nat) (g : Fl → Fl) (l : List Fl) (f : Fl)
    (hf : findFl k l = some f) (hu : (idxs l).count k = 1) :
    (updFl k g l).countP p + (if p f then 1 else 0) = l.countP p + (if p (g f) then 1 else 0) := by
  induction l with
  | nil => simp [findFl] at hf
  | cons a l ih =>
    by_cases ha : a.idx = k
    · have hfa : f = a := by
        simp [findFl, List.find?_cons, ha] at hf; exact hf.symm
      subst hfa
      have hl : (idxs l).count k = 0 := by
        simp only [idxs, List.map_cons, List.count_cons, ha, beq_self_eq_true, ↓reduceIte] at hu
        unfold idxs; omega
      have e : updFl k g (f :: l) = g f :: l := by
        have := updFl_of_count_zero k g l hl
        simp only [updFl, List.map_cons, ha, beq_self_eq_true, ↓reduceIte] at this ⊢
        rw [this]
      rw [e]
      simp only [List.countP_cons]
      omega
    · have ha' : (a.idx == k) = false := by simpa using ha
      have hf' : findFl k l = some f := by
        simpa [findFl, List.find?_cons, ha'] using hf
      have hu' : (idxs l).count k = 1 := by
        simpa [idxs, List.count_cons, ha'] using hu
      have := ih hf' hu'
      have e : updFl k g (a :: l) = a :: updFl k g l := by
        simp only [updFl, List.map_cons, ha', Bool.false_eq_true, ↓reduceIte]
      rw [e]
      simp only [List.countP_cons]
      omega

theorem countP_dropFl (p : Fl → Bool) (k : Nat) (l : List Fl) (f : Fl)
    (hf : findFl k l = some f) (hu : (idxs l).count k = 1) :
    (dropFl k l).countP p + (if p f then 1 else 0) = l.countP p := by
  induction l with
  | nil => simp [findFl] at hf
  | cons a l ih =>
    by_cases ha : a.idx = k
    · have hfa : f = a := by
        simp [findFl, List.find?_cons, ha] at hf; exact hf.symm
      subst hfa
      have hl : (idxs l).count k = 0 := by
        simp only [idxs, List.map_cons, List.count_cons, ha, beq_self_eq_true, ↓reduceIte] at hu
        unfold idxs; omega
      have e : dropFl k (f :: l) = l := by
        have := dropFl_of_count_zero k l hl
        simp only [dropFl, List.filter_cons, ha, beq_self_eq_true, Bool.not_true, Bool.false_eq_true,
          ↓reduceIte] at this ⊢
        exact this
      rw [e, List.countP_cons]
    · have ha' : (a.idx == k) = false := by simpa using ha
      have hf' : findFl k l = some f := by
        simpa [findFl, List.find?_cons, ha'] using hf
      have hu' : (idxs l).count k = 1 := by
        simpa [idxs, List.count_cons, ha'] using hu
      have := ih hf' hu'
      have e : dropFl k (a :: l) = a :: dropFl k l := by
        simp [dropFl, List.filter_cons, ha']
      rw [e]
      simp only [List.countP_cons]
      omega

theorem length_dropFl (k : Nat) (l : List Fl) (f : Fl)
    (hf : findFl k l = some f) (hu : (idxs l).count k = 1) : (dropFl k l).length + 1 = l.length := by
  have := countP_dropFl (fun _ => true) k l f hf hu
  simpa using this


/-! ### the inductive invariant of the transition system -/


def isRun (f : Fl) : Bool := match f.pc with
  | .go | .fst | .done _ => true
  | _ => false
def isCnt (r : Bool) (f : Fl) : Bool := f.pc == .cnt r

def tok (s : St) (k : Nat) : Nat :=
  (s.sent.map Prod.fst).count k + s.queue.count k + (idxs s.inflight).count k

structure Inv (cfg : Cfg) (s : St) : Prop where
  tok : ∀ k, tok s k = if k < s.dnext then 1 else 0
  dnext_le : s.dnext ≤ cfg.jobs.length
  dnext_lt : (s.dpc = .sendC ∨ s.dpc = .enq) → s.dnext < cfg.jobs.length
  workers : s.idleK + s.idleN + s.inflight.length = cfg.workers
  closed : s.dpc = .closed → s.dnext = cfg.jobs.length ∨ cfg.workers = 0
  running : s.running = s.inflight.countP isRun
  completed : s.completed = countKind .success s.sent + s.inflight.countP (isCnt true)
  failed : s.failed = countKind .failed s.sent + s.inflight.countP (isCnt false)
  ghost : s.startedN = s.finishedN + s.running

theorem inv_init (cfg : Cfg) : Inv cfg (init cfg) := by
  constructor <;> simp [init, tok, idxs, countKind]

theorem inv_step_disp {cfg : Cfg} {s s' : St} {a : Act} (h : Inv cfg s) (hs : step cfg s a = some s')
    (ha : ∀ k, a ≠ .w k) (hd : ∀ b, a ≠ .deq b) : Inv cfg s' := by
  cases a with
  | w k => exact absurd rfl (ha k)
  | deq b => exact absurd rfl (hd b)
  | dLoad =>
    simp only [step] at hs
    split at hs
    · cases hs
      rename_i hc
      constructor
      · exact h.tok
      · exact h.dnext_le
      · intro _; exact hc.2
      · exact h.workers
      · intro hcl; simp at hcl; split at hcl <;> cases hcl
      · exact h.running
      · exact h.completed
      · exact h.failed
      · exact h.ghost
    · cases hs
  | dClose =>
    simp only [step] at hs
    split at hs
    · cases hs
      rename_i hc
      constructor
      · exact h.tok
      · exact h.dnext_le
      · intro hh; simp at hh
      · exact h.workers
      · intro _; left; have := h.dnext_le; simp at hc ⊢; omega
      · exact h.running
      · exact h.completed
      · exact h.failed
      · exact h.ghost
    · cases hs
  | dSendC =>
    simp only [step] at hs
    split at hs
    · cases hs
      rename_i hc
      have hlt := h.dnext_lt (Or.inl hc)
      constructor
      · intro k
        have := h.tok k
        simp only [tok, count_fst_insSent, List.map_cons, List.count_cons] at this ⊢
        by_cases hk : k = s.dnext
        · subst hk; simp at this ⊢; omega
        · have : (s.dnext == k) = false := by simp; omega
          simp only [this]; simp
          split <;> split at * <;> omega
      · simp; omega
      · intro hh; simp at hh
      · exact h.workers
      · intro hh; simp at hh
      · exact h.running
      · have := h.completed; simp only [countKind_insSent] at this ⊢; simpa using this
      · have := h.failed; simp only [countKind_insSent] at this ⊢; simpa using this
      · exact h.ghost
    · cases hs
  | dEnq =>
    simp only [step] at hs
    split at hs
    · rename_i hc
      have hlt := h.dnext_lt (Or.inr hc)
      split at hs
      · cases hs
        rename_i hal
        constructor
        · exact h.tok
        · exact h.dnext_le
        · intro hh; simp at hh
        · exact h.workers
        · intro _; right; exact hal
        · exact h.running
        · exact h.completed
        · exact h.failed
        · exact h.ghost
      · cases hs
        constructor
        · intro k
          have := h.tok k
          simp only [tok, List.count_append, List.count_cons, List.count_nil] at this ⊢
          by_cases hk : k = s.dnext
          · subst hk; simp at this ⊢; omega
          · have : (s.dnext == k) = false := by simp; omega
            simp only [this]; simp
            split <;> split at * <;> omega
        · simp; omega
        · intro hh; simp at hh
        · exact h.workers
        · intro hh; simp at hh
        · exact h.running
        · exact h.completed
        · exact h.failed
        · exact h.ghost
    · cases hs
  | extCancel =>
    simp only [step] at hs
    split at hs
    · cases hs
      exact ⟨h.tok, h.dnext_le, h.dnext_lt, h.workers, h.closed, h.running, h.completed, h.failed, h.ghost⟩
    · cases hs
  | monExit =>
    simp only [step] at hs
    split at hs
    · cases hs
      exact ⟨h.tok, h.dnext_le, h.dnext_lt, h.workers, h.closed, h.running, h.completed, h.failed, h.ghost⟩
    · cases hs

theorem inv_step_deq {cfg : Cfg} {s s' : St} {b : Bool} (h : Inv cfg s) (hs : step cfg s (.deq b) = some s') :
    Inv cfg s' := by
  simp only [step] at hs
  split at hs
  · cases hs
  · rename_i k q hq
    have key : ∀ (iK iN : Nat), iK + iN + 1 = s.idleK + s.idleN →
        Inv cfg { s with queue := q, idleK := iK, idleN := iN,
                         inflight := s.inflight ++ [{ idx := k, pc := .got, wk := b, prov := b, lateC := false, lateF := false }] } := by
      intro iK iN hI
      constructor
      · intro j
        have := h.tok j
        simp only [tok, hq, idxs, List.map_append, List.count_append, List.map_cons, List.map_nil,
          List.count_cons, List.count_nil] at this ⊢
        omega
      · exact h.dnext_le
      · exact h.dnext_lt
      · have := h.workers; simp only [List.length_append, List.length_cons, List.length_nil]; omega
      · exact h.closed
      · have := h.running; simp only [List.countP_append, List.countP_cons, List.countP_nil, isRun] at this ⊢; simpa using this
      · have := h.completed; simp only [List.countP_append, List.countP_cons, List.countP_nil, isCnt] at this ⊢; simpa using this
      · have := h.failed; simp only [List.countP_append, List.countP_cons, List.countP_nil, isCnt] at this ⊢; simpa using this
      · exact h.ghost
    cases b
    · simp only [Bool.false_eq_true, ↓reduceIte] at hs
      split at hs
      · cases hs; exact key _ _ (by omega)
      · cases hs
    · simp only [↓reduceIte] at hs
      split at hs
      · cases hs; exact key _ _ (by omega)
      · cases hs


theorem entry_facts {cfg : Cfg} {s : St} {k : Nat} {f : Fl} (h : Inv cfg s)
    (hf : findFl k s.inflight = some f) :
    f.idx = k ∧ (idxs s.inflight).count k = 1 ∧ (s.sent.map Prod.fst).count k = 0 ∧ s.queue.count k = 0
      ∧ k < s.dnext := by
  have h1 := (findFl_some hf).1
  have h2 := count_pos_of_findFl hf
  have h3 := h.tok k
  unfold tok at h3
  split at h3
  · refine ⟨h1, ?_, ?_, ?_, ?_⟩ <;> omega
  · omega

theorem inv_upd {cfg : Cfg} {s : St} {k : Nat} {f : Fl} (h : Inv cfg s)
    (hf : findFl k s.inflight = some f) (g : Fl → Fl) (hg : ∀ x, (g x).idx = x.idx) (s' : St)
    (hin : s'.inflight = updFl k g s.inflight)
    (hcore : s'.dnext = s.dnext ∧ s'.dpc = s.dpc ∧ s'.queue = s.queue ∧ s'.idleK = s.idleK ∧
      s'.idleN = s.idleN ∧ s'.sent = s.sent)
    (hrun : s'.running + (if isRun f then 1 else 0) = s.running + (if isRun (g f) then 1 else 0))
    (hc : s'.completed + (if isCnt true f then 1 else 0) = s.completed + (if isCnt true (g f) then 1 else 0))
    (hfl : s'.failed + (if isCnt false f then 1 else 0) = s.failed + (if isCnt false (g f) then 1 else 0))
    (hgh : s'.startedN = s'.finishedN + s'.running) : Inv cfg s' := by
  obtain ⟨e1, e2, e3, e4, e5, e7⟩ := hcore
  obtain ⟨_, hu, _, _, _⟩ := entry_facts h hf
  constructor
  · intro j
    have := h.tok j
    simp only [tok, hin, idxs_updFl k g hg, e1, e3, e7] at this ⊢
    exact this
  · rw [e1]; exact h.dnext_le
  · rw [e1, e2]; exact h.dnext_lt
  · rw [e4, e5, hin, length_updFl]; exact h.workers
  · rw [e1, e2]; exact h.closed
  · have := countP_updFl isRun k g s.inflight f hf hu
    have := h.running
    rw [hin]; omega
  · have := countP_updFl (isCnt true) k g s.inflight f hf hu
    have := h.completed
    rw [hin, e7]; omega
  · have := countP_updFl (isCnt false) k g s.inflight f hf hu
    have := h.failed
    rw [hin, e7]; omega
  · exact hgh

/-- the job leaves the in-flight list with one message on the result channel -/
theorem inv_send {cfg : Cfg} {s : St} {k : Nat} {f : Fl} {kd : Kind} (h : Inv cfg s)
    (hf : findFl k s.inflight = some f) (hrun : isRun f = false)
    (hc1 : isCnt true f = (kd == Kind.success)) (hc2 : isCnt false f = (kd == Kind.failed)) (s' : St)
    (hin : s'.inflight = dropFl k s.inflight) (hsent : s'.sent = insSent (k, kd) s.sent)
    (hw : s'.idleK + s'.idleN = s.idleK + s.idleN + 1)
    (hcore : s'.dnext = s.dnext ∧ s'.dpc = s.dpc ∧ s'.queue = s.queue ∧
      s'.running = s.running ∧ s'.completed = s.completed ∧ s'.failed = s.failed ∧
      s'.startedN = s.startedN ∧ s'.finishedN = s.finishedN) : Inv cfg s' := by
  obtain ⟨e1, e2, e3, e5, e6, e7, e8, e9⟩ := hcore
  obtain ⟨_, hu, hs0, _, hlt⟩ := entry_facts h hf
  have hlen := length_dropFl k s.inflight f hf hu
  constructor
  · intro j
    have := h.tok j
    simp only [tok, hin, hsent, count_fst_insSent, count_idxs_dropFl, e1, e3, List.map_cons,
      List.count_cons] at this ⊢
    by_cases hj : j = k
    · subst hj; simp at this ⊢; omega
    · have hkj : (k == j) = false := by simp; omega
      simp only [hj, hkj, ↓reduceIte] at this ⊢
      simpa using this
  · rw [e1]; exact h.dnext_le
  · rw [e1, e2]; exact h.dnext_lt
  · have := h.workers; rw [hin]; omega
  · rw [e1, e2]; exact h.closed
  · have := countP_dropFl isRun k s.inflight f hf hu
    have := h.running
    rw [hin, e5]; simp only [hrun] at *; simp at *; omega
  · have := countP_dropFl (isCnt true) k s.inflight f hf hu
    have := h.completed
    rw [hin, hsent, countKind_insSent, e6]
    cases kd <;> simp [hc1] at * <;> omega
  · have := countP_dropFl (isCnt false) k s.inflight f hf hu
    have := h.failed
    rw [hin, hsent, countKind_insSent, e7]
    cases kd <;> simp [hc2] at * <;> omega
  · rw [e8, e9, e5]; exact h.ghost

theorem setPc_eq (k : Nat) (pc : Pc) (l : List Fl) : setPc k pc l = updFl k (fun f => { f with pc := pc }) l := rfl

theorem running_pos {cfg : Cfg} {s : St} {k : Nat} {f : Fl} (h : Inv cfg s)
    (hf : findFl k s.inflight = some f) (hr : isRun f = true) : 0 < s.running := by
  obtain ⟨_, hu, _⟩ := entry_facts h hf
  have := countP_dropFl isRun k s.inflight f hf hu
  have := h.running
  simp only [hr] at *; simp at *; omega

theorem inv_runOp {cfg : Cfg} {s : St} {f : Fl} (h : Inv cfg s)
    (hf : findFl f.idx s.inflight = some f) (hpc : f.pc = .go) : Inv cfg (runOp cfg s f) := by
  unfold runOp
  dsimp only
  split
  · refine inv_upd h hf (fun f => { f with pc := .done true }) (fun _ => rfl) _ (setPc_eq _ _ _)
      ⟨rfl, rfl, rfl, rfl, rfl, rfl⟩ ?_ ?_ ?_ h.ghost
    · simp [isRun, hpc]
    · simp [isCnt, hpc]
    · simp [isCnt, hpc]
  · refine inv_upd h hf (fun g => { g with pc := .fst, wk := g.wk || (specOf cfg f.idx).custom })
      (fun _ => rfl) _ rfl ⟨rfl, rfl, rfl, rfl, rfl, rfl⟩ ?_ ?_ ?_ h.ghost
    · simp [isRun, hpc]
    · simp [isCnt, hpc]
    · simp [isCnt, hpc]
  · refine inv_upd h hf (fun f => { f with pc := .fst }) (fun _ => rfl) _ (setPc_eq _ _ _)
      ⟨rfl, rfl, rfl, rfl, rfl, rfl⟩ ?_ ?_ ?_ h.ghost
    · simp [isRun, hpc]
    · simp [isCnt, hpc]
    · simp [isCnt, hpc]

theorem inv_step_w {cfg : Cfg} {s s' : St} {k : Nat} (h : Inv cfg s) (hs : step cfg s (.w k) = some s') :
    Inv cfg s' := by
  simp only [step] at hs
  split at hs
  · cases hs
  · rename_i f hf
    cases hs
    have hk := (findFl_some hf).1
    subst hk
    unfold wstep
    dsimp only
    split
    · -- got
      rename_i hpc
      refine inv_upd h hf
        (fun g => { g with pc := (if s.cancelled then Pc.canc else Pc.start), lateC := s.cancelled, lateF := decide (0 < s.failBegun) })
        (fun _ => rfl) _ rfl ⟨rfl, rfl, rfl, rfl, rfl, rfl⟩ ?_ ?_ ?_ h.ghost
      · cases s.cancelled <;> simp [isRun, hpc]
      · cases s.cancelled <;> simp [isCnt, hpc]
      · cases s.cancelled <;> simp [isCnt, hpc]
    · -- canc
      rename_i hpc
      unfold release
      split
      · refine inv_send (kd := .cancelled) h hf ?_ ?_ ?_ _ rfl rfl ?_ ⟨rfl, rfl, rfl, rfl, rfl, rfl, rfl, rfl⟩
        · simp [isRun, hpc]
        · rw [isCnt, hpc]; decide
        · rw [isCnt, hpc]; decide
        · dsimp only; omega
      · refine inv_send (kd := .cancelled) h hf ?_ ?_ ?_ _ rfl rfl ?_ ⟨rfl, rfl, rfl, rfl, rfl, rfl, rfl, rfl⟩
        · simp [isRun, hpc]
        · rw [isCnt, hpc]; decide
        · rw [isCnt, hpc]; decide
        · dsimp only; omega
    · -- start
      rename_i hpc
      refine inv_upd h hf (fun g => { g with pc := .go }) (fun _ => rfl) _ (setPc_eq _ _ _)
        ⟨rfl, rfl, rfl, rfl, rfl, rfl⟩ ?_ ?_ ?_ ?_
      · simp [isRun, hpc]
      · simp [isCnt, hpc]
      · simp [isCnt, hpc]
      · have := h.ghost; dsimp only; omega
    · -- go
      rename_i hpc
      exact inv_runOp h hf hpc
    · -- fst
      rename_i hpc
      refine inv_upd h hf (fun g => { g with pc := .done false }) (fun _ => rfl) _ (setPc_eq _ _ _)
        ⟨rfl, rfl, rfl, rfl, rfl, rfl⟩ ?_ ?_ ?_ h.ghost
      · simp [isRun, hpc]
      · simp [isCnt, hpc]
      · simp [isCnt, hpc]
    · -- done r
      rename_i r hpc
      have hr : isRun f = true := by simp [isRun, hpc]
      have hpos := running_pos h hf hr
      refine inv_upd h hf (fun g => { g with pc := .dec r }) (fun _ => rfl) _ (setPc_eq _ _ _) ⟨rfl, rfl, rfl, rfl, rfl, rfl⟩ ?_ ?_ ?_ ?_
      · simp [isRun, hpc]; omega
      · simp [isCnt, hpc]
      · simp [isCnt, hpc]
      · have := h.ghost; dsimp only; omega
    · -- dec r
      rename_i r hpc
      cases r
      · simp only [Bool.false_eq_true, ↓reduceIte]
        refine inv_upd h hf (fun g => { g with pc := .cnt false }) (fun _ => rfl) _ (setPc_eq _ _ _) ⟨rfl, rfl, rfl, rfl, rfl, rfl⟩ ?_ ?_ ?_ h.ghost
        · simp [isRun, hpc]
        · simp [isCnt, hpc]
        · simp [isCnt, hpc]
      · simp only [↓reduceIte]
        refine inv_upd h hf (fun g => { g with pc := .cnt true }) (fun _ => rfl) _ (setPc_eq _ _ _) ⟨rfl, rfl, rfl, rfl, rfl, rfl⟩ ?_ ?_ ?_ h.ghost
        · simp [isRun, hpc]
        · simp [isCnt, hpc]
        · simp [isCnt, hpc]
    · -- cnt r
      rename_i r hpc
      unfold release
      split
      · refine inv_send (kd := kindOf r) h hf ?_ ?_ ?_ _ rfl rfl ?_ ⟨rfl, rfl, rfl, rfl, rfl, rfl, rfl, rfl⟩
        · simp [isRun, hpc]
        · rw [isCnt, hpc]; cases r <;> decide
        · rw [isCnt, hpc]; cases r <;> decide
        · dsimp only; omega
      · refine inv_send (kd := kindOf r) h hf ?_ ?_ ?_ _ rfl rfl ?_ ⟨rfl, rfl, rfl, rfl, rfl, rfl, rfl, rfl⟩
        · simp [isRun, hpc]
        · rw [isCnt, hpc]; cases r <;> decide
        · rw [isCnt, hpc]; cases r <;> decide
        · dsimp only; omega

theorem inv_step {cfg : Cfg} {s s' : St} {a : Act} (h : Inv cfg s) (hs : step cfg s a = some s') : Inv cfg s' := by
  cases a with
  | w k => exact inv_step_w h hs
  | deq b => exact inv_step_deq h hs
  | dLoad => exact inv_step_disp h hs (by intro k; simp) (by intro b; simp)
  | dSendC => exact inv_step_disp h hs (by intro k; simp) (by intro b; simp)
  | dEnq => exact inv_step_disp h hs (by intro k; simp) (by intro b; simp)
  | dClose => exact inv_step_disp h hs (by intro k; simp) (by intro b; simp)
  | extCancel => exact inv_step_disp h hs (by intro k; simp) (by intro b; simp)
  | monExit => exact inv_step_disp h hs (by intro k; simp) (by intro b; simp)

theorem inv_reachable {cfg : Cfg} {s : St} (h : Reachable cfg s) : Inv cfg s := by
  induction h with
  | init => exact inv_init cfg
  | step _ hs ih => exact inv_step ih hs


/-! ### cancellation: who may run after the flag was set / after a failure was recorded -/


theorem unique_entry {l : List Fl} {k : Nat} {f y : Fl} (hu : (idxs l).count k = 1)
    (hf : findFl k l = some f) (hy : y ∈ l) (hyk : y.idx = k) : y = f := by
  induction l with
  | nil => simp at hy
  | cons a t ih =>
    by_cases ha : a.idx = k
    · have hfa : f = a := by simp [findFl, ha] at hf; exact hf.symm
      have ht : (idxs t).count k = 0 := by
        simp only [idxs, List.map_cons, List.count_cons, ha, beq_self_eq_true, ↓reduceIte] at hu
        unfold idxs; omega
      rcases List.mem_cons.mp hy with h | h
      · rw [h, hfa]
      · exfalso
        have : 0 < (idxs t).count k := List.count_pos_iff.mpr (List.mem_map.mpr ⟨y, h, hyk⟩)
        omega
    · have ha' : (a.idx == k) = false := by simpa using ha
      have hf' : findFl k t = some f := by simpa [findFl, List.find?_cons, ha'] using hf
      have hu' : (idxs t).count k = 1 := by simpa [idxs, List.count_cons, ha'] using hu
      rcases List.mem_cons.mp hy with h | h
      · exact absurd (h ▸ hyk) ha
      · exact ih hu' hf' h

theorem mem_updFl {k : Nat} {g : Fl → Fl} {l : List Fl} {x : Fl} (h : x ∈ updFl k g l) :
    (x ∈ l ∧ x.idx ≠ k) ∨ (∃ y ∈ l, y.idx = k ∧ x = g y) := by
  unfold updFl at h
  obtain ⟨y, hy, rfl⟩ := List.mem_map.mp h
  by_cases hk : y.idx = k
  · right; exact ⟨y, hy, hk, by simp [hk]⟩
  · left; have : (y.idx == k) = false := by simpa using hk
    simp only [this, Bool.false_eq_true, ↓reduceIte]; exact ⟨hy, hk⟩

theorem mem_dropFl {k : Nat} {l : List Fl} {x : Fl} (h : x ∈ dropFl k l) : x ∈ l :=
  (List.mem_filter.mp h).1

/-- what must hold of one job in flight, given the current value `c` of the cancel flag -/
structure EntryOK (cfg : Cfg) (c : Bool) (f : Fl) : Prop where
  /-- about to report `Cancelled`: the flag is set -/
  canc : f.pc = .canc → c = true
  /-- saw the flag set at its first statement: will only report `Cancelled` -/
  lateC : f.lateC = true → f.pc = .canc
  /-- stop_on_error: about to enter `fail_job()`: the flag is already set -/
  fail : cfg.soe = true → f.pc = .done false → c = true
  /-- stop_on_error: started after a failure was recorded: will only report `Cancelled` -/
  lateF : cfg.soe = true → f.lateF = true → f.pc = .canc

theorem EntryOK.mono {cfg : Cfg} {c c' : Bool} {f : Fl} (h : EntryOK cfg c f) (hm : c = true → c' = true) :
    EntryOK cfg c' f :=
  ⟨fun hp => hm (h.canc hp), h.lateC, fun hs hp => hm (h.fail hs hp), h.lateF⟩

structure InvS (cfg : Cfg) (s : St) : Prop where
  entries : ∀ f ∈ s.inflight, EntryOK cfg s.cancelled f
  /-- a `Cancelled` result is only ever sent with the flag set -/
  cancMsg : ∀ m ∈ s.sent, m.2 = .cancelled → s.cancelled = true
  sendC : s.dpc = .sendC → s.cancelled = true
  /-- stop_on_error: once some job has entered `fail_job()` the flag is set -/
  failBegun : cfg.soe = true → 0 < s.failBegun → s.cancelled = true
  logC : s.ranLateC = []
  logF : cfg.soe = true → s.ranLateF = []

theorem invS_init (cfg : Cfg) : InvS cfg (init cfg) := by
  constructor <;> simp [init]

/-- steps that leave the in-flight list, the message log, the ghost counter and the logs alone -/
theorem invS_frame {cfg : Cfg} {s s' : St} (hS : InvS cfg s) (hin : s'.inflight = s.inflight)
    (hsent : s'.sent = s.sent) (hfb : s'.failBegun = s.failBegun) (hlc : s'.ranLateC = s.ranLateC)
    (hlf : s'.ranLateF = s.ranLateF) (hmono : s.cancelled = true → s'.cancelled = true)
    (hd : s'.dpc = .sendC → s'.cancelled = true) : InvS cfg s' := by
  constructor
  · intro f hf; rw [hin] at hf; exact (hS.entries f hf).mono hmono
  · intro m hm hk; rw [hsent] at hm; exact hmono (hS.cancMsg m hm hk)
  · exact hd
  · intro hs hp; rw [hfb] at hp; exact hmono (hS.failBegun hs hp)
  · rw [hlc]; exact hS.logC
  · intro hs; rw [hlf]; exact hS.logF hs

/-- one in-flight entry changes -/
theorem invS_upd {cfg : Cfg} {s s' : St} {k : Nat} {f : Fl} (hI : Inv cfg s) (hS : InvS cfg s)
    (hf : findFl k s.inflight = some f) (g : Fl → Fl)
    (hin : s'.inflight = updFl k g s.inflight) (hsent : s'.sent = s.sent) (hdpc : s'.dpc = s.dpc)
    (hmono : s.cancelled = true → s'.cancelled = true)
    (hfb : cfg.soe = true → 0 < s'.failBegun → s'.cancelled = true)
    (hlc : s'.ranLateC = []) (hlf : cfg.soe = true → s'.ranLateF = [])
    (hg : EntryOK cfg s'.cancelled (g f)) : InvS cfg s' := by
  obtain ⟨_, hu, _⟩ := entry_facts hI hf
  constructor
  · intro x hx
    rw [hin] at hx
    rcases mem_updFl hx with ⟨hx1, _⟩ | ⟨y, hy, hyk, rfl⟩
    · exact (hS.entries x hx1).mono hmono
    · have := unique_entry hu hf hy hyk
      subst this
      exact hg
  · intro m hm hk; rw [hsent] at hm; exact hmono (hS.cancMsg m hm hk)
  · intro hd; rw [hdpc] at hd; exact hmono (hS.sendC hd)
  · exact hfb
  · exact hlc
  · exact hlf

/-- a job leaves the in-flight list with one message -/
theorem invS_send {cfg : Cfg} {s s' : St} {k : Nat} {kd : Kind} (hS : InvS cfg s)
    (hin : s'.inflight = dropFl k s.inflight) (hsent : s'.sent = insSent (k, kd) s.sent)
    (hdpc : s'.dpc = s.dpc) (hc : s'.cancelled = s.cancelled) (hfb : s'.failBegun = s.failBegun)
    (hlc : s'.ranLateC = s.ranLateC) (hlf : s'.ranLateF = s.ranLateF)
    (hk : kd = .cancelled → s.cancelled = true) : InvS cfg s' := by
  constructor
  · intro x hx; rw [hin] at hx; rw [hc]; exact hS.entries x (mem_dropFl hx)
  · intro m hm hkd
    rw [hsent] at hm; rw [hc]
    rcases mem_insSent.mp hm with rfl | hm
    · exact hk hkd
    · exact hS.cancMsg m hm hkd
  · intro hd; rw [hdpc] at hd; rw [hc]; exact hS.sendC hd
  · intro hs hp; rw [hfb] at hp; rw [hc]; exact hS.failBegun hs hp
  · rw [hlc]; exact hS.logC
  · intro hs; rw [hlf]; exact hS.logF hs

theorem invS_runOp {cfg : Cfg} {s : St} {f : Fl} (hI : Inv cfg s) (hS : InvS cfg s)
    (hf : findFl f.idx s.inflight = some f) (hpc : f.pc = .go) : InvS cfg (runOp cfg s f) := by
  have hmem := (findFl_some hf).2
  have he := hS.entries f hmem
  have hlc : f.lateC = false := by
    cases h : f.lateC with
    | false => rfl
    | true => have := he.lateC h; rw [hpc] at this; cases this
  have hlf : cfg.soe = true → f.lateF = false := by
    intro hs
    cases h : f.lateF with
    | false => rfl
    | true => have := he.lateF hs h; rw [hpc] at this; cases this
  have hmono : s.cancelled = true → (s.cancelled || (specOf cfg f.idx).cancels) = true := by
    intro h; simp [h]
  have hfb : cfg.soe = true → 0 < s.failBegun → (s.cancelled || (specOf cfg f.idx).cancels) = true :=
    fun hs hp => hmono (hS.failBegun hs hp)
  have hlogC : (if f.lateC = true then ins f.idx s.ranLateC else s.ranLateC) = [] := by
    rw [hlc]; simpa using hS.logC
  have hlogF : cfg.soe = true → (if f.lateF = true then ins f.idx s.ranLateF else s.ranLateF) = [] := by
    intro hs; rw [hlf hs]; simpa using hS.logF hs
  unfold runOp
  dsimp only
  split
  · refine invS_upd hI hS hf (fun g => { g with pc := .done true }) (setPc_eq _ _ _) rfl rfl hmono hfb hlogC hlogF ?_
    constructor
    · intro h; cases h
    · intro h; dsimp only at h; rw [hlc] at h; cases h
    · intro _ h; cases h
    · intro hs h; dsimp only at h; rw [hlf hs] at h; cases h
  · refine invS_upd hI hS hf (fun g => { g with pc := .fst, wk := g.wk || (specOf cfg f.idx).custom })
      rfl rfl rfl hmono hfb hlogC hlogF ?_
    constructor
    · intro h; cases h
    · intro h; dsimp only at h; rw [hlc] at h; cases h
    · intro _ h; cases h
    · intro hs h; dsimp only at h; rw [hlf hs] at h; cases h
  · refine invS_upd hI hS hf (fun g => { g with pc := .fst }) (setPc_eq _ _ _) rfl rfl hmono hfb hlogC hlogF ?_
    constructor
    · intro h; cases h
    · intro h; dsimp only at h; rw [hlc] at h; cases h
    · intro _ h; cases h
    · intro hs h; dsimp only at h; rw [hlf hs] at h; cases h

theorem invS_step {cfg : Cfg} {s s' : St} {a : Act} (hI : Inv cfg s) (hS : InvS cfg s)
    (hs : step cfg s a = some s') : InvS cfg s' := by
  cases a with
  | dLoad =>
    simp only [step] at hs; split at hs
    · cases hs
      refine invS_frame hS rfl rfl rfl rfl rfl id ?_
      dsimp only
      cases s.cancelled <;> simp
    · cases hs
  | dClose =>
    simp only [step] at hs; split at hs
    · cases hs; exact invS_frame hS rfl rfl rfl rfl rfl id (by intro h; cases h)
    · cases hs
  | dSendC =>
    simp only [step] at hs; split at hs
    · rename_i hd
      cases hs
      constructor
      · exact hS.entries
      · intro m hm hk
        rcases mem_insSent.mp hm with rfl | hm
        · exact hS.sendC hd
        · exact hS.cancMsg m hm hk
      · intro h; cases h
      · exact hS.failBegun
      · exact hS.logC
      · exact hS.logF
    · cases hs
  | dEnq =>
    simp only [step] at hs; split at hs
    · split at hs
      · cases hs; exact invS_frame hS rfl rfl rfl rfl rfl id (by intro h; cases h)
      · cases hs; exact invS_frame hS rfl rfl rfl rfl rfl id (by intro h; cases h)
    · cases hs
  | extCancel =>
    simp only [step] at hs; split at hs
    · cases hs; exact invS_frame hS rfl rfl rfl rfl rfl (fun _ => rfl) (fun _ => rfl)
    · cases hs
  | monExit =>
    simp only [step] at hs; split at hs
    · cases hs; exact invS_frame hS rfl rfl rfl rfl rfl id hS.sendC
    · cases hs
  | deq b =>
    simp only [step] at hs
    split at hs
    · cases hs
    · rename_i k q hq
      have key : ∀ (iK iN : Nat) (fl : Fl), fl.pc = .got → fl.lateC = false → fl.lateF = false →
          InvS cfg { s with queue := q, idleK := iK, idleN := iN, inflight := s.inflight ++ [fl] } := by
        intro iK iN fl h1 h2 h3
        constructor
        · intro x hx
          rcases List.mem_append.mp hx with hx | hx
          · exact hS.entries x hx
          · simp at hx; subst hx
            constructor
            · intro h; rw [h1] at h; cases h
            · intro h; rw [h2] at h; cases h
            · intro _ h; rw [h1] at h; cases h
            · intro _ h; rw [h3] at h; cases h
        · exact hS.cancMsg
        · exact hS.sendC
        · exact hS.failBegun
        · exact hS.logC
        · exact hS.logF
      cases b
      · simp only [Bool.false_eq_true, ↓reduceIte] at hs
        split at hs
        · cases hs; exact key _ _ _ rfl rfl rfl
        · cases hs
      · simp only [↓reduceIte] at hs
        split at hs
        · cases hs; exact key _ _ _ rfl rfl rfl
        · cases hs
  | w k =>
    simp only [step] at hs
    split at hs
    · cases hs
    · rename_i f hf
      cases hs
      have hk := (findFl_some hf).1
      subst hk
      have hmem := (findFl_some hf).2
      have he := hS.entries f hmem
      unfold wstep
      dsimp only
      split
      · -- got: the look at the flag
        refine invS_upd hI hS hf
          (fun g => { g with pc := (if s.cancelled then Pc.canc else Pc.start), lateC := s.cancelled, lateF := decide (0 < s.failBegun) })
          rfl rfl rfl id hS.failBegun hS.logC hS.logF ?_
        constructor
        · dsimp only; cases s.cancelled <;> simp
        · dsimp only; intro h; rw [h]; rfl
        · dsimp only; intro _ h; split at h <;> cases h
        · dsimp only
          intro hs h
          have hp : 0 < s.failBegun := by simpa using h
          rw [hS.failBegun hs hp]; rfl
      · -- canc
        rename_i hpc
        have hc := he.canc hpc
        unfold release
        split
        · exact invS_send (kd := .cancelled) hS rfl rfl rfl rfl rfl rfl rfl (fun _ => hc)
        · exact invS_send (kd := .cancelled) hS rfl rfl rfl rfl rfl rfl rfl (fun _ => hc)
      · -- start
        rename_i hpc
        refine invS_upd hI hS hf (fun g => { g with pc := .go }) (setPc_eq _ _ _) rfl rfl id hS.failBegun hS.logC hS.logF ?_
        constructor
        · intro h; cases h
        · intro h; have := he.lateC h; rw [hpc] at this; cases this
        · intro _ h; cases h
        · intro hs h; have := he.lateF hs h; rw [hpc] at this; cases this
      · -- go
        rename_i hpc
        exact invS_runOp hI hS hf hpc
      · -- fst: `if stop_on_error { cancelled.store(true) }`
        rename_i hpc
        have hmono : s.cancelled = true → (s.cancelled || cfg.soe) = true := by intro h; simp [h]
        refine invS_upd hI hS hf (fun g => { g with pc := .done false }) (setPc_eq _ _ _) rfl rfl hmono
          (fun hs hp => hmono (hS.failBegun hs hp)) hS.logC hS.logF ?_
        constructor
        · intro h; cases h
        · intro h; have := he.lateC h; rw [hpc] at this; cases this
        · intro hs _; dsimp only; simp [hs]
        · intro hs h; have := he.lateF hs h; rw [hpc] at this; cases this
      · -- done r
        rename_i r hpc
        refine invS_upd hI hS hf (fun g => { g with pc := .dec r }) (setPc_eq _ _ _) rfl rfl id ?_ hS.logC hS.logF ?_
        · intro hs hp
          dsimp only at hp ⊢
          cases r
          · exact he.fail hs hpc
          · simp only [↓reduceIte] at hp; exact hS.failBegun hs hp
        · constructor
          · intro h; cases h
          · intro h; have := he.lateC h; rw [hpc] at this; cases this
          · intro _ h; cases h
          · intro hs h; have := he.lateF hs h; rw [hpc] at this; cases this
      · -- dec r
        rename_i r hpc
        cases r
        · simp only [Bool.false_eq_true, ↓reduceIte]
          refine invS_upd hI hS hf (fun g => { g with pc := .cnt false }) (setPc_eq _ _ _) rfl rfl id hS.failBegun hS.logC hS.logF ?_
          constructor
          · intro h; cases h
          · intro h; have := he.lateC h; rw [hpc] at this; cases this
          · intro _ h; cases h
          · intro hs h; have := he.lateF hs h; rw [hpc] at this; cases this
        · simp only [↓reduceIte]
          refine invS_upd hI hS hf (fun g => { g with pc := .cnt true }) (setPc_eq _ _ _) rfl rfl id hS.failBegun hS.logC hS.logF ?_
          constructor
          · intro h; cases h
          · intro h; have := he.lateC h; rw [hpc] at this; cases this
          · intro _ h; cases h
          · intro hs h; have := he.lateF hs h; rw [hpc] at this; cases this
      · -- cnt r
        rename_i r hpc
        unfold release
        split
        · exact invS_send (kd := kindOf r) hS rfl rfl rfl rfl rfl rfl rfl (by cases r <;> simp [kindOf])
        · exact invS_send (kd := kindOf r) hS rfl rfl rfl rfl rfl rfl rfl (by cases r <;> simp [kindOf])

theorem invS_reachable {cfg : Cfg} {s : St} (h : Reachable cfg s) : InvS cfg s := by
  induction h with
  | init => exact invS_init cfg
  | step hr hs ih => exact invS_step (inv_reachable hr) ih hs


/-! ### termination: a measure that every action decreases -/


def sumW (w : Fl → Nat) (l : List Fl) : Nat := (l.map w).sum

theorem sumW_updFl (w : Fl → Nat) (k : Nat) (g : Fl → Fl) (l : List Fl) (f : Fl)
    (hf : findFl k l = some f) (hu : (idxs l).count k = 1) :
    sumW w (updFl k g l) + w f = sumW w l + w (g f) := by
  induction l with
  | nil => simp [findFl] at hf
  | cons a l ih =>
    by_cases ha : a.idx = k
    · have hfa : f = a := by
        simp [findFl, ha] at hf; exact hf.symm
      subst hfa
      have hl : (idxs l).count k = 0 := by
        simp only [idxs, List.map_cons, List.count_cons, ha, beq_self_eq_true, ↓reduceIte] at hu
        unfold idxs; omega
      have e : updFl k g (f :: l) = g f :: l := by
        have := updFl_of_count_zero k g l hl
        simp only [updFl, List.map_cons, ha, beq_self_eq_true, ↓reduceIte] at this ⊢
        rw [this]
      rw [e]
      simp only [sumW, List.map_cons, List.sum_cons]
      omega
    · have ha' : (a.idx == k) = false := by simpa using ha
      have hf' : findFl k l = some f := by
        simpa [findFl, List.find?_cons, ha'] using hf
      have hu' : (idxs l).count k = 1 := by
        simpa [idxs, List.count_cons, ha'] using hu
      have := ih hf' hu'
      have e : updFl k g (a :: l) = a :: updFl k g l := by
        simp only [updFl, List.map_cons, ha', Bool.false_eq_true, ↓reduceIte]
      rw [e]
      simp only [sumW, List.map_cons, List.sum_cons] at this ⊢
      omega

theorem sumW_dropFl (w : Fl → Nat) (k : Nat) (l : List Fl) (f : Fl)
    (hf : findFl k l = some f) (hu : (idxs l).count k = 1) :
    sumW w (dropFl k l) + w f = sumW w l := by
  induction l with
  | nil => simp [findFl] at hf
  | cons a l ih =>
    by_cases ha : a.idx = k
    · have hfa : f = a := by
        simp [findFl, ha] at hf; exact hf.symm
      subst hfa
      have hl : (idxs l).count k = 0 := by
        simp only [idxs, List.map_cons, List.count_cons, ha, beq_self_eq_true, ↓reduceIte] at hu
        unfold idxs; omega
      have e : dropFl k (f :: l) = l := by
        have := dropFl_of_count_zero k l hl
        simp only [dropFl, List.filter_cons, ha, beq_self_eq_true, Bool.not_true, Bool.false_eq_true,
          ↓reduceIte] at this ⊢
        exact this
      rw [e]
      simp only [sumW, List.map_cons, List.sum_cons]
      omega
    · have ha' : (a.idx == k) = false := by simpa using ha
      have hf' : findFl k l = some f := by
        simpa [findFl, List.find?_cons, ha'] using hf
      have hu' : (idxs l).count k = 1 := by
        simpa [idxs, List.count_cons, ha'] using hu
      have := ih hf' hu'
      have e : dropFl k (a :: l) = a :: dropFl k l := by
        simp [dropFl, ha']
      rw [e]
      simp only [sumW, List.map_cons, List.sum_cons] at this ⊢
      omega

/-- statements a job in flight still has to execute -/
def rem : Pc → Nat
  | .got => 7 | .canc => 1 | .start => 6 | .go => 5 | .fst => 4 | .done _ => 3 | .dec _ => 2 | .cnt _ => 1

/-- statements the dispatcher (and, for the jobs it will still hand out, their workers) has left -/
def dispM (cfg : Cfg) (s : St) : Nat :=
  match s.dpc with
  | .top => 10 * (cfg.jobs.length - s.dnext) + 1
  | .sendC => 10 * (cfg.jobs.length - s.dnext)
  | .enq => 10 * (cfg.jobs.length - s.dnext)
  | .closed => 0

/-- an upper bound on the number of actions that can still happen -/
def measure (cfg : Cfg) (s : St) : Nat :=
  (if cfg.ext = true ∧ s.extDone = false then 1 else 0) + (if s.mon = true then 1 else 0) + dispM cfg s
    + 8 * s.queue.length + sumW (fun f => rem f.pc) s.inflight

theorem meas_upd {cfg : Cfg} {s s' : St} {k : Nat} {f : Fl} (h : Inv cfg s)
    (hf : findFl k s.inflight = some f) (g : Fl → Fl)
    (hin : s'.inflight = updFl k g s.inflight)
    (hcore : s'.dnext = s.dnext ∧ s'.dpc = s.dpc ∧ s'.queue = s.queue ∧ s'.mon = s.mon ∧ s'.extDone = s.extDone)
    (hlt : rem (g f).pc < rem f.pc) : measure cfg s' < measure cfg s := by
  obtain ⟨e1, e2, e3, e4, e5⟩ := hcore
  obtain ⟨_, hu, _⟩ := entry_facts h hf
  have := sumW_updFl (fun f => rem f.pc) k g s.inflight f hf hu
  simp only [measure, dispM, hin, e1, e2, e3, e4, e5] at this ⊢
  omega

theorem meas_drop {cfg : Cfg} {s s' : St} {k : Nat} {f : Fl} (h : Inv cfg s)
    (hf : findFl k s.inflight = some f)
    (hin : s'.inflight = dropFl k s.inflight)
    (hcore : s'.dnext = s.dnext ∧ s'.dpc = s.dpc ∧ s'.queue = s.queue ∧ s'.mon = s.mon ∧ s'.extDone = s.extDone)
    (hpos : 0 < rem f.pc) : measure cfg s' < measure cfg s := by
  obtain ⟨e1, e2, e3, e4, e5⟩ := hcore
  obtain ⟨_, hu, _⟩ := entry_facts h hf
  have := sumW_dropFl (fun f => rem f.pc) k s.inflight f hf hu
  simp only [measure, dispM, hin, e1, e2, e3, e4, e5] at this ⊢
  omega

theorem meas_step {cfg : Cfg} {s s' : St} {a : Act} (h : Inv cfg s) (hs : step cfg s a = some s') :
    measure cfg s' < measure cfg s := by
  cases a with
  | dLoad =>
    simp only [step] at hs; split at hs
    · rename_i hc
      cases hs
      simp only [measure, dispM, hc.1]
      cases s.cancelled <;> simp <;> omega
    · cases hs
  | dClose =>
    simp only [step] at hs; split at hs
    · rename_i hc
      cases hs
      simp only [measure, dispM, hc.1]
      omega
    · cases hs
  | dSendC =>
    simp only [step] at hs; split at hs
    · rename_i hc
      have := h.dnext_lt (Or.inl hc)
      cases hs
      simp only [measure, dispM, hc]
      omega
    · cases hs
  | dEnq =>
    simp only [step] at hs; split at hs
    · rename_i hc
      have := h.dnext_lt (Or.inr hc)
      split at hs
      · cases hs
        simp only [measure, dispM, hc]
        omega
      · cases hs
        simp only [measure, dispM, hc, List.length_append, List.length_cons, List.length_nil]
        omega
    · cases hs
  | extCancel =>
    simp only [step] at hs; split at hs
    · rename_i hc
      cases hs
      simp only [measure, dispM, hc.1, hc.2]
      simp
    · cases hs
  | monExit =>
    simp only [step] at hs; split at hs
    · rename_i hc
      cases hs
      simp only [measure, dispM, hc.1]
      simp
    · cases hs
  | deq b =>
    simp only [step] at hs
    split at hs
    · cases hs
    · rename_i k q hq
      have key : ∀ (iK iN : Nat) (fl : Fl), fl.pc = .got →
          measure cfg { s with queue := q, idleK := iK, idleN := iN, inflight := s.inflight ++ [fl] } < measure cfg s := by
        intro iK iN fl hp
        simp only [measure, dispM, hq, sumW, List.map_append, List.sum_append, List.map_cons, List.map_nil,
          List.sum_cons, List.sum_nil, List.length_cons, hp, rem]
        omega
      cases b
      · simp only [Bool.false_eq_true, ↓reduceIte] at hs
        split at hs
        · cases hs; exact key _ _ _ rfl
        · cases hs
      · simp only [↓reduceIte] at hs
        split at hs
        · cases hs; exact key _ _ _ rfl
        · cases hs
  | w k =>
    simp only [step] at hs
    split at hs
    · cases hs
    · rename_i f hf
      cases hs
      have hk := (findFl_some hf).1
      subst hk
      unfold wstep
      dsimp only
      split
      · rename_i hpc
        refine meas_upd h hf
          (fun g => { g with pc := (if s.cancelled then Pc.canc else Pc.start), lateC := s.cancelled, lateF := decide (0 < s.failBegun) })
          rfl ⟨rfl, rfl, rfl, rfl, rfl⟩ ?_
        rw [hpc]; dsimp only; cases s.cancelled <;> simp [rem]
      · rename_i hpc
        unfold release
        split
        · exact meas_drop h hf rfl ⟨rfl, rfl, rfl, rfl, rfl⟩ (by rw [hpc]; simp [rem])
        · exact meas_drop h hf rfl ⟨rfl, rfl, rfl, rfl, rfl⟩ (by rw [hpc]; simp [rem])
      · rename_i hpc
        exact meas_upd h hf (fun g => { g with pc := .go }) (setPc_eq _ _ _) ⟨rfl, rfl, rfl, rfl, rfl⟩
          (by rw [hpc]; simp [rem])
      · rename_i hpc
        unfold runOp
        dsimp only
        split
        · exact meas_upd h hf (fun g => { g with pc := .done true }) (setPc_eq _ _ _) ⟨rfl, rfl, rfl, rfl, rfl⟩
            (by rw [hpc]; simp [rem])
        · exact meas_upd h hf (fun g => { g with pc := .fst, wk := g.wk || (specOf cfg f.idx).custom }) rfl
            ⟨rfl, rfl, rfl, rfl, rfl⟩ (by rw [hpc]; simp [rem])
        · exact meas_upd h hf (fun g => { g with pc := .fst }) (setPc_eq _ _ _) ⟨rfl, rfl, rfl, rfl, rfl⟩
            (by rw [hpc]; simp [rem])
      · rename_i hpc
        exact meas_upd h hf (fun g => { g with pc := .done false }) (setPc_eq _ _ _) ⟨rfl, rfl, rfl, rfl, rfl⟩
          (by rw [hpc]; simp [rem])
      · rename_i r hpc
        exact meas_upd h hf (fun g => { g with pc := .dec r }) (setPc_eq _ _ _) ⟨rfl, rfl, rfl, rfl, rfl⟩
          (by rw [hpc]; simp [rem])
      · rename_i r hpc
        cases r
        · simp only [Bool.false_eq_true, ↓reduceIte]
          exact meas_upd h hf (fun g => { g with pc := .cnt false }) (setPc_eq _ _ _) ⟨rfl, rfl, rfl, rfl, rfl⟩
            (by rw [hpc]; simp [rem])
        · simp only [↓reduceIte]
          exact meas_upd h hf (fun g => { g with pc := .cnt true }) (setPc_eq _ _ _) ⟨rfl, rfl, rfl, rfl, rfl⟩
            (by rw [hpc]; simp [rem])
      · rename_i r hpc
        unfold release
        split
        · exact meas_drop h hf rfl ⟨rfl, rfl, rfl, rfl, rfl⟩ (by rw [hpc]; simp [rem])
        · exact meas_drop h hf rfl ⟨rfl, rfl, rfl, rfl, rfl⟩ (by rw [hpc]; simp [rem])

end OxiVerif.C22
