import OxiVerif.Model.C22
/-!
Helper lemmas for C22: sorted insertion is a permutation of `cons`; keyed update / removal on the
in-flight list; the per-job token count.
-/
namespace OxiVerif.C22

theorem ins_perm (k : Nat) (l : List Nat) : (ins k l).Perm (k :: l) := by
  induction l with
  | nil => simp [ins]
  | cons a l ih =>
    unfold ins
    split
    · exact List.Perm.refl _
    · exact (List.Perm.cons a ih).trans (List.Perm.swap k a l)

theorem insSent_perm (m : Nat × Kind) (l : List (Nat × Kind)) : (insSent m l).Perm (m :: l) := by
  induction l with
  | nil => simp [insSent]
  | cons a l ih =>
    unfold insSent
    split
    · exact List.Perm.refl _
    · exact (List.Perm.cons a ih).trans (List.Perm.swap m a l)

theorem count_ins (j k : Nat) (l : List Nat) : (ins k l).count j = (k :: l).count j :=
  (ins_perm k l).count_eq j

theorem length_ins (k : Nat) (l : List Nat) : (ins k l).length = l.length + 1 := by
  simpa using (ins_perm k l).length_eq

theorem mem_ins {j k : Nat} {l : List Nat} : j ∈ ins k l ↔ j = k ∨ j ∈ l := by
  simpa using (ins_perm k l).mem_iff (a := j)

theorem ins_ne_nil (k : Nat) (l : List Nat) : ins k l ≠ [] := by
  intro h; have := length_ins k l; simp [h] at this

theorem count_fst_insSent (j : Nat) (m : Nat × Kind) (l : List (Nat × Kind)) :
    ((insSent m l).map Prod.fst).count j = ((m :: l).map Prod.fst).count j :=
  ((insSent_perm m l).map Prod.fst).count_eq j

theorem mem_insSent {x m : Nat × Kind} {l : List (Nat × Kind)} : x ∈ insSent m l ↔ x = m ∨ x ∈ l := by
  simpa using (insSent_perm m l).mem_iff (a := x)

theorem countKind_insSent (k : Kind) (m : Nat × Kind) (l : List (Nat × Kind)) :
    countKind k (insSent m l) = countKind k l + (if m.2 = k then 1 else 0) := by
  unfold countKind
  rw [((insSent_perm m l).filter _).length_eq]
  by_cases h : m.2 = k <;> simp [List.filter_cons, h]

/-! ### keyed operations on the in-flight list -/

def idxs (l : List Fl) : List Nat := l.map Fl.idx

theorem idxs_updFl (k : Nat) (g : Fl → Fl) (hg : ∀ f, (g f).idx = f.idx) (l : List Fl) :
    idxs (updFl k g l) = idxs l := by
  unfold idxs updFl
  induction l with
  | nil => rfl
  | cons a l ih =>
    simp only [List.map_cons, ih]
    split <;> simp [hg]

theorem idxs_setPc (k : Nat) (pc : Pc) (l : List Fl) : idxs (setPc k pc l) = idxs l :=
  idxs_updFl k (fun f => { f with pc := pc }) (fun _ => rfl) l

theorem length_updFl (k : Nat) (g : Fl → Fl) (l : List Fl) : (updFl k g l).length = l.length := by
  simp [updFl]

theorem length_setPc (k : Nat) (pc : Pc) (l : List Fl) : (setPc k pc l).length = l.length := by
  simp [setPc]

theorem count_idxs_dropFl (j k : Nat) (l : List Fl) :
    (idxs (dropFl k l)).count j = if j = k then 0 else (idxs l).count j := by
  unfold idxs dropFl
  induction l with
  | nil => simp
  | cons a l ih =>
    by_cases h : a.idx = k
    · simp only [List.filter_cons, h, beq_self_eq_true, Bool.not_true, Bool.false_eq_true, ↓reduceIte, ih,
        List.map_cons, List.count_cons]
      split <;> simp_all
      omega
    · have h' : (a.idx == k) = false := by simpa using h
      simp only [List.filter_cons, h', Bool.not_false, ↓reduceIte, List.map_cons, List.count_cons, ih]
      split <;> simp_all

theorem findFl_some {k : Nat} {l : List Fl} {f : Fl} (h : findFl k l = some f) : f.idx = k ∧ f ∈ l := by
  unfold findFl at h
  have h1 := List.find?_some h
  have h2 := List.mem_of_find?_eq_some h
  exact ⟨by simpa using h1, h2⟩

theorem count_pos_of_findFl {k : Nat} {l : List Fl} {f : Fl} (h : findFl k l = some f) :
    0 < (idxs l).count k := by
  obtain ⟨h1, h2⟩ := findFl_some h
  apply List.count_pos_iff.mpr
  unfold idxs
  exact List.mem_map.mpr ⟨f, h2, h1⟩

theorem updFl_of_count_zero (k : Nat) (g : Fl → Fl) (l : List Fl) (h : (idxs l).count k = 0) :
    updFl k g l = l := by
  unfold idxs at h
  unfold updFl
  induction l with
  | nil => rfl
  | cons a l ih =>
    simp only [List.map_cons, List.count_cons] at h
    have ha : (a.idx == k) = false := by
      cases hh : (a.idx == k) <;> simp_all
    have hl : List.count k (List.map Fl.idx l) = 0 := by omega
    have ha2 : ¬ a.idx = k := by simpa using ha
    have := ih hl
    simp only [List.map_cons, ha, Bool.false_eq_true, ↓reduceIte, this]

theorem dropFl_of_count_zero (k : Nat) (l : List Fl) (h : (idxs l).count k = 0) : dropFl k l = l := by
  unfold idxs at h
  unfold dropFl
  induction l with
  | nil => rfl
  | cons a l ih =>
    simp only [List.map_cons, List.count_cons] at h
    have ha : (a.idx == k) = false := by
      cases hh : (a.idx == k) <;> simp_all
    have hl : List.count k (List.map Fl.idx l) = 0 := by omega
    simp [List.filter_cons, ha, ih hl]

/-- with a unique key, a keyed update moves exactly one entry from `f` to `g f` -/
theorem countP_updFl (p : Fl → Bool) (k : Nat) (g : Fl → Fl) (l : List Fl) (f : Fl)
    (hf : findFl k l = some f) (hu : (idxs l).count k = 1) :
    (updFl k g l).countP p + (if p f then 1 else 0) = l.countP p + (if p (g f) then 1 else 0) := by
  induction l with
  | nil => simp [findFl] at hf
  | cons a l ih =>
    by_cases ha : a.idx = k
    · have hfa : f = a := by
        simp [findFl, List.find?_cons, ha] at hf; exact hf.symm
      subst hfa
      have hl : (idxs l).count k = 0 := by
        simp only [idxs, List.map_cons, List.count_cons, ha, beq_self_eq_true, ↓reduceIte] at hu
        unfold idxs; omega
      have e : updFl k g (f :: l) = g f :: l := by
        have := updFl_of_count_zero k g l hl
        simp only [updFl, List.map_cons, ha, beq_self_eq_true, ↓reduceIte] at this ⊢
        rw [this]
      rw [e]
      simp only [List.countP_cons]
      omega
    · have ha' : (a.idx == k) = false := by simpa using ha
      have hf' : findFl k l = some f := by
        simpa [findFl, List.find?_cons, ha'] using hf
      have hu' : (idxs l).count k = 1 := by
        simpa [idxs, List.count_cons, ha'] using hu
      have := ih hf' hu'
      have e : updFl k g (a :: l) = a :: updFl k g l := by
        simp only [updFl, List.map_cons, ha', Bool.false_eq_true, ↓reduceIte]
      rw [e]
      simp only [List.countP_cons]
      omega

theorem countP_dropFl (p : Fl → Bool) (k : Nat) (l : List Fl) (f : Fl)
    (hf : findFl k l = some f) (hu : (idxs l).count k = 1) :
    (dropFl k l).countP p + (if p f then 1 else 0) = l.countP p := by
  induction l with
  | nil => simp [findFl] at hf
  | cons a l ih =>
    by_cases ha : a.idx = k
    · have hfa : f = a := by
        simp [findFl, List.find?_cons, ha] at hf; exact hf.symm
      subst hfa
      have hl : (idxs l).count k = 0 := by
        simp only [idxs, List.map_cons, List.count_cons, ha, beq_self_eq_true, ↓reduceIte] at hu
        unfold idxs; omega
      have e : dropFl k (f :: l) = l := by
        have := dropFl_of_count_zero k l hl
        simp only [dropFl, List.filter_cons, ha, beq_self_eq_true, Bool.not_true, Bool.false_eq_true,
          ↓reduceIte] at this ⊢
        exact this
      rw [e, List.countP_cons]
    · have ha' : (a.idx == k) = false := by simpa using ha
      have hf' : findFl k l = some f := by
        simpa [findFl, List.find?_cons, ha'] using hf
      have hu' : (idxs l).count k = 1 := by
        simpa [idxs, List.count_cons, ha'] using hu
      have := ih hf' hu'
      have e : dropFl k (a :: l) = a :: dropFl k l := by
        simp [dropFl, List.filter_cons, ha']
      rw [e]
      simp only [List.countP_cons]
      omega

theorem length_dropFl (k : Nat) (l : List Fl) (f : Fl)
    (hf : findFl k l = some f) (hu : (idxs l).count k = 1) : (dropFl k l).length + 1 = l.length := by
  have := countP_dropFl (fun _ => true) k l f hf hu
  simpa using this


/-! ### the inductive invariant of the transition system -/


def isRun (f : Fl) : Bool := match f.pc with
  | .started | .go | .done _ => true
  | _ => false
def isCnt (r : Bool) (f : Fl) : Bool := f.pc == .cnt r

def tok (s : St) (k : Nat) : Nat :=
  (s.sent.map Prod.fst).count k + s.queue.count k + (idxs s.inflight).count k + s.lost.count k

structure Inv (cfg : Cfg) (s : St) : Prop where
  tok : ∀ k, tok s k = if k < s.dnext then 1 else 0
  dnext_le : s.dnext ≤ cfg.jobs.length
  dnext_lt : (s.dpc = .sendC ∨ s.dpc = .enq) → s.dnext < cfg.jobs.length
  workers : s.idleK + s.idleN + s.inflight.length + s.storing.length + s.lost.length = cfg.workers
  closed : s.dpc = .closed → s.dnext = cfg.jobs.length ∨ (s.idleK + s.idleN = 0 ∧ s.inflight = [] ∧ s.storing = [])
  running : s.running = s.inflight.countP isRun + s.lost.length
  completed : s.completed = countKind .success s.sent + s.inflight.countP (isCnt true)
  failed : s.failed = countKind .failed s.sent + s.inflight.countP (isCnt false)
  ghost : s.startedN = s.finishedN + s.running
  lostPanic : ∀ k ∈ s.lost, (specOf cfg k).out = .panic

theorem inv_init (cfg : Cfg) : Inv cfg (init cfg) := by
  constructor <;> simp [init, tok, idxs, countKind]

theorem inv_step_disp {cfg : Cfg} {s s' : St} {a : Act} (h : Inv cfg s) (hs : step cfg s a = some s')
    (ha : ∀ k, a ≠ .w k) (hd : ∀ b, a ≠ .deq b) : Inv cfg s' := by
  cases a with
  | w k => exact absurd rfl (ha k)
  | store k =>
    simp only [step] at hs
    split at hs
    · cases hs
    · rename_i f hf
      cases hs
      have hmem := (findFl_some hf).2
      have hlen := List.length_erase_of_mem hmem
      have hpos : 0 < s.storing.length := List.length_pos_of_mem hmem
      unfold release
      split
      · constructor
        · exact h.tok
        · exact h.dnext_le
        · exact h.dnext_lt
        · have := h.workers; dsimp only; omega
        · intro hc; rcases h.closed hc with h1 | h1
          · exact Or.inl h1
          · rw [h1.2.2] at hpos; simp at hpos
        · exact h.running
        · exact h.completed
        · exact h.failed
        · exact h.ghost
        · exact h.lostPanic
      · constructor
        · exact h.tok
        · exact h.dnext_le
        · exact h.dnext_lt
        · have := h.workers; dsimp only; omega
        · intro hc; rcases h.closed hc with h1 | h1
          · exact Or.inl h1
          · rw [h1.2.2] at hpos; simp at hpos
        · exact h.running
        · exact h.completed
        · exact h.failed
        · exact h.ghost
        · exact h.lostPanic
  | deq b => exact absurd rfl (hd b)
  | dLoad =>
    simp only [step] at hs
    split at hs
    · cases hs
      rename_i hc
      constructor
      · exact h.tok
      · exact h.dnext_le
      · intro _; exact hc.2
      · exact h.workers
      · intro hcl; simp at hcl; split at hcl <;> cases hcl
      · exact h.running
      · exact h.completed
      · exact h.failed
      · exact h.ghost
      · exact h.lostPanic
    · cases hs
  | dClose =>
    simp only [step] at hs
    split at hs
    · cases hs
      rename_i hc
      constructor
      · exact h.tok
      · exact h.dnext_le
      · intro hh; simp at hh
      · exact h.workers
      · intro _; left; have := h.dnext_le; simp at hc ⊢; omega
      · exact h.running
      · exact h.completed
      · exact h.failed
      · exact h.ghost
      · exact h.lostPanic
    · cases hs
  | dSendC =>
    simp only [step] at hs
    split at hs
    · cases hs
      rename_i hc
      have hlt := h.dnext_lt (Or.inl hc)
      constructor
      · intro k
        have := h.tok k
        simp only [tok, count_fst_insSent, List.map_cons, List.count_cons] at this ⊢
        by_cases hk : k = s.dnext
        · subst hk; simp at this ⊢; omega
        · have : (s.dnext == k) = false := by simp; omega
          simp only [this]; simp
          split <;> split at * <;> omega
      · simp; omega
      · intro hh; simp at hh
      · exact h.workers
      · intro hh; simp at hh
      · exact h.running
      · have := h.completed; simp only [countKind_insSent] at this ⊢; simpa using this
      · have := h.failed; simp only [countKind_insSent] at this ⊢; simpa using this
      · exact h.ghost
      · exact h.lostPanic
    · cases hs
  | dEnq =>
    simp only [step] at hs
    split at hs
    · rename_i hc
      have hlt := h.dnext_lt (Or.inr hc)
      split at hs
      · cases hs
        rename_i hal
        constructor
        · exact h.tok
        · exact h.dnext_le
        · intro hh; simp at hh
        · exact h.workers
        · intro _; right
          simp only [alive] at hal
          dsimp only
          refine ⟨by omega, ?_, ?_⟩
          · apply List.eq_nil_of_length_eq_zero; omega
          · apply List.eq_nil_of_length_eq_zero; omega
        · exact h.running
        · exact h.completed
        · exact h.failed
        · exact h.ghost
        · exact h.lostPanic
      · cases hs
        constructor
        · intro k
          have := h.tok k
          simp only [tok, List.count_append, List.count_cons, List.count_nil] at this ⊢
          by_cases hk : k = s.dnext
          · subst hk; simp at this ⊢; omega
          · have : (s.dnext == k) = false := by simp; omega
            simp only [this]; simp
            split <;> split at * <;> omega
        · simp; omega
        · intro hh; simp at hh
        · exact h.workers
        · intro hh; simp at hh
        · exact h.running
        · exact h.completed
        · exact h.failed
        · exact h.ghost
        · exact h.lostPanic
    · cases hs
  | extCancel =>
    simp only [step] at hs
    split at hs
    · cases hs
      exact ⟨h.tok, h.dnext_le, h.dnext_lt, h.workers, h.closed, h.running, h.completed, h.failed, h.ghost, h.lostPanic⟩
    · cases hs
  | monExit =>
    simp only [step] at hs
    split at hs
    · cases hs
      exact ⟨h.tok, h.dnext_le, h.dnext_lt, h.workers, h.closed, h.running, h.completed, h.failed, h.ghost, h.lostPanic⟩
    · cases hs

theorem inv_step_deq {cfg : Cfg} {s s' : St} {b : Bool} (h : Inv cfg s) (hs : step cfg s (.deq b) = some s') :
    Inv cfg s' := by
  simp only [step] at hs
  split at hs
  · cases hs
  · rename_i k q hq
    have key : ∀ (iK iN : Nat), iK + iN + 1 = s.idleK + s.idleN →
        Inv cfg { s with queue := q, idleK := iK, idleN := iN,
                         inflight := s.inflight ++ [{ idx := k, pc := .got, wk := b, prov := b, lateC := false, lateF := false }] } := by
      intro iK iN hI
      constructor
      · intro j
        have := h.tok j
        simp only [tok, hq, idxs, List.map_append, List.count_append, List.map_cons, List.map_nil,
          List.count_cons, List.count_nil] at this ⊢
        omega
      · exact h.dnext_le
      · exact h.dnext_lt
      · have := h.workers; simp only [List.length_append, List.length_cons, List.length_nil]; omega
      · intro hc
        rcases h.closed hc with h1 | h1
        · exact Or.inl h1
        · omega
      · have := h.running; simp only [List.countP_append, List.countP_cons, List.countP_nil, isRun] at this ⊢; simpa using this
      · have := h.completed; simp only [List.countP_append, List.countP_cons, List.countP_nil, isCnt] at this ⊢; simpa using this
      · have := h.failed; simp only [List.countP_append, List.countP_cons, List.countP_nil, isCnt] at this ⊢; simpa using this
      · exact h.ghost
      · exact h.lostPanic
    cases b
    · simp only [Bool.false_eq_true, ↓reduceIte] at hs
      split at hs
      · cases hs; exact key _ _ (by omega)
      · cases hs
    · simp only [↓reduceIte] at hs
      split at hs
      · cases hs; exact key _ _ (by omega)
      · cases hs


theorem entry_facts {cfg : Cfg} {s : St} {k : Nat} {f : Fl} (h : Inv cfg s)
    (hf : findFl k s.inflight = some f) :
    f.idx = k ∧ (idxs s.inflight).count k = 1 ∧ (s.sent.map Prod.fst).count k = 0 ∧ s.queue.count k = 0
      ∧ s.lost.count k = 0 ∧ k < s.dnext := by
  have h1 := (findFl_some hf).1
  have h2 := count_pos_of_findFl hf
  have h3 := h.tok k
  unfold tok at h3
  split at h3
  · refine ⟨h1, ?_, ?_, ?_, ?_, ?_⟩ <;> omega
  · omega

theorem inv_upd {cfg : Cfg} {s : St} {k : Nat} {f : Fl} (h : Inv cfg s)
    (hf : findFl k s.inflight = some f) (g : Fl → Fl) (hg : ∀ x, (g x).idx = x.idx) (s' : St)
    (hin : s'.inflight = updFl k g s.inflight)
    (hcore : s'.dnext = s.dnext ∧ s'.dpc = s.dpc ∧ s'.queue = s.queue ∧ s'.idleK = s.idleK ∧
      s'.idleN = s.idleN ∧ s'.lost = s.lost ∧ s'.sent = s.sent ∧ s'.storing = s.storing)
    (hrun : s'.running + (if isRun f then 1 else 0) = s.running + (if isRun (g f) then 1 else 0))
    (hc : s'.completed + (if isCnt true f then 1 else 0) = s.completed + (if isCnt true (g f) then 1 else 0))
    (hfl : s'.failed + (if isCnt false f then 1 else 0) = s.failed + (if isCnt false (g f) then 1 else 0))
    (hgh : s'.startedN = s'.finishedN + s'.running) : Inv cfg s' := by
  obtain ⟨e1, e2, e3, e4, e5, e6, e7, e8⟩ := hcore
  obtain ⟨_, hu, _, _, _, _⟩ := entry_facts h hf
  constructor
  · intro j
    have := h.tok j
    simp only [tok, hin, idxs_updFl k g hg, e1, e3, e6, e7] at this ⊢
    exact this
  · rw [e1]; exact h.dnext_le
  · rw [e1, e2]; exact h.dnext_lt
  · rw [e4, e5, e6, e8, hin, length_updFl]; exact h.workers
  · rw [e1, e2, e4, e5, e8, hin]
    intro hcl
    rcases h.closed hcl with h1 | h1
    · exact Or.inl h1
    · have := (findFl_some hf).2; rw [h1.2.1] at this; simp at this
  · have := countP_updFl isRun k g s.inflight f hf hu
    have := h.running
    rw [hin, e6]; omega
  · have := countP_updFl (isCnt true) k g s.inflight f hf hu
    have := h.completed
    rw [hin, e7]; omega
  · have := countP_updFl (isCnt false) k g s.inflight f hf hu
    have := h.failed
    rw [hin, e7]; omega
  · exact hgh
  · rw [e6]; exact h.lostPanic

theorem inv_send {cfg : Cfg} {s : St} {k : Nat} {f : Fl} {r : Bool} (h : Inv cfg s)
    (hf : findFl k s.inflight = some f) (hpc : f.pc = .cnt r) (s' : St)
    (hin : s'.inflight = dropFl k s.inflight) (hsent : s'.sent = insSent (k, kindOf r) s.sent)
    (hw : s'.idleK + s'.idleN + s'.storing.length = s.idleK + s.idleN + s.storing.length + 1)
    (hcore : s'.dnext = s.dnext ∧ s'.dpc = s.dpc ∧ s'.queue = s.queue ∧ s'.lost = s.lost ∧
      s'.running = s.running ∧ s'.completed = s.completed ∧ s'.failed = s.failed ∧
      s'.startedN = s.startedN ∧ s'.finishedN = s.finishedN) : Inv cfg s' := by
  obtain ⟨e1, e2, e3, e4, e5, e6, e7, e8, e9⟩ := hcore
  obtain ⟨_, hu, hs0, _, _, hlt⟩ := entry_facts h hf
  have hlen := length_dropFl k s.inflight f hf hu
  constructor
  · intro j
    have := h.tok j
    simp only [tok, hin, hsent, count_fst_insSent, count_idxs_dropFl, e1, e3, e4, List.map_cons,
      List.count_cons] at this ⊢
    by_cases hj : j = k
    · subst hj; simp at this ⊢; omega
    · have hkj : (k == j) = false := by simp; omega
      simp only [hj, hkj, ↓reduceIte] at this ⊢
      simpa using this
  · rw [e1]; exact h.dnext_le
  · rw [e1, e2]; exact h.dnext_lt
  · have := h.workers; rw [e4, hin]; omega
  · rw [e1, e2]
    intro hcl
    rcases h.closed hcl with h1 | h1
    · exact Or.inl h1
    · have := (findFl_some hf).2; rw [h1.2.1] at this; simp at this
  · have := countP_dropFl isRun k s.inflight f hf hu
    have hr : isRun f = false := by simp [isRun, hpc]
    have := h.running
    rw [hin, e4, e5]; simp only [hr] at *; simp at *; omega
  · have := countP_dropFl (isCnt true) k s.inflight f hf hu
    have := h.completed
    rw [hin, hsent, countKind_insSent, e6]
    cases r <;> simp [isCnt, hpc, kindOf] at * <;> omega
  · have := countP_dropFl (isCnt false) k s.inflight f hf hu
    have := h.failed
    rw [hin, hsent, countKind_insSent, e7]
    cases r <;> simp [isCnt, hpc, kindOf] at * <;> omega
  · rw [e8, e9, e5]; exact h.ghost
  · rw [e4]; exact h.lostPanic

theorem inv_panic {cfg : Cfg} {s : St} {k : Nat} {f : Fl} (h : Inv cfg s)
    (hf : findFl k s.inflight = some f) (hrun : isRun f = true) (hp : (specOf cfg k).out = .panic) (s' : St)
    (hin : s'.inflight = dropFl k s.inflight) (hlost : s'.lost = ins k s.lost)
    (hcore : s'.dnext = s.dnext ∧ s'.dpc = s.dpc ∧ s'.queue = s.queue ∧ s'.sent = s.sent ∧
      s'.running = s.running ∧ s'.completed = s.completed ∧ s'.failed = s.failed ∧
      s'.startedN = s.startedN ∧ s'.finishedN = s.finishedN ∧ s'.idleK = s.idleK ∧ s'.idleN = s.idleN ∧
      s'.storing = s.storing) : Inv cfg s' := by
  obtain ⟨e1, e2, e3, e4, e5, e6, e7, e8, e9, e10, e11, e12⟩ := hcore
  obtain ⟨_, hu, hs0, _, _, hlt⟩ := entry_facts h hf
  have hlen := length_dropFl k s.inflight f hf hu
  constructor
  · intro j
    have := h.tok j
    simp only [tok, hin, hlost, count_ins, count_idxs_dropFl, e1, e3, e4, List.count_cons] at this ⊢
    by_cases hj : j = k
    · subst hj; simp at this ⊢; omega
    · have hkj : (k == j) = false := by simp; omega
      simp only [hj, hkj, ↓reduceIte] at this ⊢
      simpa using this
  · rw [e1]; exact h.dnext_le
  · rw [e1, e2]; exact h.dnext_lt
  · have := h.workers; rw [e10, e11, e12, hin, hlost, length_ins]; omega
  · rw [e1, e2]
    intro hcl
    rcases h.closed hcl with h1 | h1
    · exact Or.inl h1
    · have := (findFl_some hf).2; rw [h1.2.1] at this; simp at this
  · have := countP_dropFl isRun k s.inflight f hf hu
    have := h.running
    rw [hin, hlost, length_ins, e5]; simp only [hrun] at *; simp at *; omega
  · have := countP_dropFl (isCnt true) k s.inflight f hf hu
    have hr : isCnt true f = false := by
      unfold isRun at hrun; unfold isCnt; split at hrun <;> simp_all
    have := h.completed
    rw [hin, e4, e6]; simp only [hr] at *; simp at *; omega
  · have := countP_dropFl (isCnt false) k s.inflight f hf hu
    have hr : isCnt false f = false := by
      unfold isRun at hrun; unfold isCnt; split at hrun <;> simp_all
    have := h.failed
    rw [hin, e4, e7]; simp only [hr] at *; simp at *; omega
  · rw [e8, e9, e5]; exact h.ghost
  · rw [hlost]; intro j hj
    rcases mem_ins.mp hj with rfl | hj
    · exact hp
    · exact h.lostPanic j hj


theorem setPc_eq (k : Nat) (pc : Pc) (l : List Fl) : setPc k pc l = updFl k (fun f => { f with pc := pc }) l := rfl

theorem running_pos {cfg : Cfg} {s : St} {k : Nat} {f : Fl} (h : Inv cfg s)
    (hf : findFl k s.inflight = some f) (hr : isRun f = true) : 0 < s.running := by
  obtain ⟨_, hu, _⟩ := entry_facts h hf
  have := countP_dropFl isRun k s.inflight f hf hu
  have := h.running
  simp only [hr] at *; simp at *; omega

theorem inv_runOp {cfg : Cfg} {s : St} {f : Fl} (h : Inv cfg s)
    (hf : findFl f.idx s.inflight = some f) (hr : isRun f = true) : Inv cfg (runOp cfg s f) := by
  unfold runOp
  dsimp only
  split
  · -- ok
    refine inv_upd h hf (fun f => { f with pc := .done true }) (fun _ => rfl) _ (setPc_eq _ _ _)
      ⟨rfl, rfl, rfl, rfl, rfl, rfl, rfl, rfl⟩ ?_ ?_ ?_ h.ghost
    · simp only [hr]; simp [isRun]
    · have : isCnt true f = false := by unfold isRun at hr; unfold isCnt; split at hr <;> simp_all
      simp only [this]; simp [isCnt]
    · have : isCnt false f = false := by unfold isRun at hr; unfold isCnt; split at hr <;> simp_all
      simp only [this]; simp [isCnt]
  · -- err
    refine inv_upd h hf (fun g => { g with pc := .done false, wk := g.wk || (specOf cfg f.idx).custom })
      (fun _ => rfl) _ rfl ⟨rfl, rfl, rfl, rfl, rfl, rfl, rfl, rfl⟩ ?_ ?_ ?_ h.ghost
    · simp only [hr]; simp [isRun]
    · have : isCnt true f = false := by unfold isRun at hr; unfold isCnt; split at hr <;> simp_all
      simp only [this]; simp [isCnt]
    · have : isCnt false f = false := by unfold isRun at hr; unfold isCnt; split at hr <;> simp_all
      simp only [this]; simp [isCnt]
  · -- panic
    rename_i hp
    exact inv_panic h hf hr hp _ rfl rfl ⟨rfl, rfl, rfl, rfl, rfl, rfl, rfl, rfl, rfl, rfl, rfl, rfl⟩

theorem inv_step_w {cfg : Cfg} {s s' : St} {k : Nat} (h : Inv cfg s) (hs : step cfg s (.w k) = some s') :
    Inv cfg s' := by
  simp only [step] at hs
  split at hs
  · cases hs
  · rename_i f hf
    cases hs
    have hk := (findFl_some hf).1
    subst hk
    unfold wstep
    dsimp only
    split
    · -- got
      rename_i hpc
      refine inv_upd h hf (fun g => { g with pc := .started, lateC := s.cancelled, lateF := decide (0 < s.failed) })
        (fun _ => rfl) _ rfl ⟨rfl, rfl, rfl, rfl, rfl, rfl, rfl, rfl⟩ ?_ ?_ ?_ ?_
      · simp [isRun, hpc]
      · simp [isCnt, hpc]
      · simp [isCnt, hpc]
      · have := h.ghost; dsimp only; omega
    · -- started
      rename_i hpc
      have hr : isRun f = true := by simp [isRun, hpc]
      split
      · split
        · refine inv_upd h hf (fun g => { g with pc := .done false }) (fun _ => rfl) _ (setPc_eq _ _ _) ⟨rfl, rfl, rfl, rfl, rfl, rfl, rfl, rfl⟩ ?_ ?_ ?_ h.ghost
          · simp [isRun, hpc]
          · simp [isCnt, hpc]
          · simp [isCnt, hpc]
        · refine inv_upd h hf (fun g => { g with pc := .go }) (fun _ => rfl) _ (setPc_eq _ _ _) ⟨rfl, rfl, rfl, rfl, rfl, rfl, rfl, rfl⟩ ?_ ?_ ?_ h.ghost
          · simp [isRun, hpc]
          · simp [isCnt, hpc]
          · simp [isCnt, hpc]
      · exact inv_runOp h hf hr
    · -- go
      rename_i hpc
      exact inv_runOp h hf (by simp [isRun, hpc])
    · -- done r
      rename_i r hpc
      have hr : isRun f = true := by simp [isRun, hpc]
      have hpos := running_pos h hf hr
      refine inv_upd h hf (fun g => { g with pc := .dec r }) (fun _ => rfl) _ (setPc_eq _ _ _) ⟨rfl, rfl, rfl, rfl, rfl, rfl, rfl, rfl⟩ ?_ ?_ ?_ ?_
      · simp [isRun, hpc]; omega
      · simp [isCnt, hpc]
      · simp [isCnt, hpc]
      · have := h.ghost; dsimp only; omega
    · -- dec r
      rename_i r hpc
      cases r
      · simp only [Bool.false_eq_true, ↓reduceIte]
        refine inv_upd h hf (fun g => { g with pc := .cnt false }) (fun _ => rfl) _ (setPc_eq _ _ _) ⟨rfl, rfl, rfl, rfl, rfl, rfl, rfl, rfl⟩ ?_ ?_ ?_ h.ghost
        · simp [isRun, hpc]
        · simp [isCnt, hpc]
        · simp [isCnt, hpc]
      · simp only [↓reduceIte]
        refine inv_upd h hf (fun g => { g with pc := .cnt true }) (fun _ => rfl) _ (setPc_eq _ _ _) ⟨rfl, rfl, rfl, rfl, rfl, rfl, rfl, rfl⟩ ?_ ?_ ?_ h.ghost
        · simp [isRun, hpc]
        · simp [isCnt, hpc]
        · simp [isCnt, hpc]
    · -- cnt r
      rename_i r hpc
      split
      · refine inv_send h hf hpc _ rfl rfl ?_ ⟨rfl, rfl, rfl, rfl, rfl, rfl, rfl, rfl, rfl⟩
        simp only [List.length_append, List.length_cons, List.length_nil]; omega
      · unfold release
        split
        · refine inv_send h hf hpc _ rfl rfl ?_ ⟨rfl, rfl, rfl, rfl, rfl, rfl, rfl, rfl, rfl⟩
          dsimp only; omega
        · refine inv_send h hf hpc _ rfl rfl ?_ ⟨rfl, rfl, rfl, rfl, rfl, rfl, rfl, rfl, rfl⟩
          dsimp only; omega

theorem inv_step {cfg : Cfg} {s s' : St} {a : Act} (h : Inv cfg s) (hs : step cfg s a = some s') : Inv cfg s' := by
  cases a with
  | w k => exact inv_step_w h hs
  | deq b => exact inv_step_deq h hs
  | dLoad => exact inv_step_disp h hs (by intro k; simp) (by intro b; simp)
  | dSendC => exact inv_step_disp h hs (by intro k; simp) (by intro b; simp)
  | dEnq => exact inv_step_disp h hs (by intro k; simp) (by intro b; simp)
  | dClose => exact inv_step_disp h hs (by intro k; simp) (by intro b; simp)
  | store k => exact inv_step_disp h hs (by intro k; simp) (by intro b; simp)
  | extCancel => exact inv_step_disp h hs (by intro k; simp) (by intro b; simp)
  | monExit => exact inv_step_disp h hs (by intro k; simp) (by intro b; simp)

theorem inv_reachable {cfg : Cfg} {s : St} (h : Reachable cfg s) : Inv cfg s := by
  induction h with
  | init => exact inv_init cfg
  | step _ hs ih => exact inv_step ih hs


/-! ### custom jobs and the cancel flag -/


theorem unique_entry {l : List Fl} {k : Nat} {f y : Fl} (hu : (idxs l).count k = 1)
    (hf : findFl k l = some f) (hy : y ∈ l) (hyk : y.idx = k) : y = f := by
  induction l with
  | nil => simp at hy
  | cons a t ih =>
    by_cases ha : a.idx = k
    · have hfa : f = a := by simp [findFl, ha] at hf; exact hf.symm
      have ht : (idxs t).count k = 0 := by
        simp only [idxs, List.map_cons, List.count_cons, ha, beq_self_eq_true, ↓reduceIte] at hu
        unfold idxs; omega
      rcases List.mem_cons.mp hy with h | h
      · rw [h, hfa]
      · exfalso
        have : 0 < (idxs t).count k := List.count_pos_iff.mpr (List.mem_map.mpr ⟨y, h, hyk⟩)
        omega
    · have ha' : (a.idx == k) = false := by simpa using ha
      have hf' : findFl k t = some f := by simpa [findFl, List.find?_cons, ha'] using hf
      have hu' : (idxs t).count k = 1 := by simpa [idxs, List.count_cons, ha'] using hu
      rcases List.mem_cons.mp hy with h | h
      · exact absurd (h ▸ hyk) ha
      · exact ih hu' hf' h

theorem mem_updFl {k : Nat} {g : Fl → Fl} {l : List Fl} {x : Fl} (h : x ∈ updFl k g l) :
    (x ∈ l ∧ x.idx ≠ k) ∨ (∃ y ∈ l, y.idx = k ∧ x = g y) := by
  unfold updFl at h
  obtain ⟨y, hy, rfl⟩ := List.mem_map.mp h
  by_cases hk : y.idx = k
  · right; exact ⟨y, hy, hk, by simp [hk]⟩
  · left; have : (y.idx == k) = false := by simpa using hk
    simp only [this, Bool.false_eq_true, ↓reduceIte]; exact ⟨hy, hk⟩

theorem mem_dropFl {k : Nat} {l : List Fl} {x : Fl} (h : x ∈ dropFl k l) : x ∈ l :=
  (List.mem_filter.mp h).1

/-- a custom job that called `start_job` when the flag was already set will not enter its operation -/
structure InvC (cfg : Cfg) (s : St) : Prop where
  entry : ∀ f ∈ s.inflight, f.lateC = true → (specOf cfg f.idx).custom = true →
    f.pc ≠ .go ∧ (f.pc = .started → s.cancelled = true)
  log : ∀ j ∈ s.ranLateC, (specOf cfg j).custom = false

theorem invC_init (cfg : Cfg) : InvC cfg (init cfg) := by
  constructor <;> simp [init]


theorem invC_frame {cfg : Cfg} {s s' : St} (hC : InvC cfg s) (hin : s'.inflight = s.inflight)
    (hlog : s'.ranLateC = s.ranLateC) (hmono : s.cancelled = true → s'.cancelled = true) : InvC cfg s' := by
  constructor
  · intro f hf hl hc
    rw [hin] at hf
    obtain ⟨h1, h2⟩ := hC.entry f hf hl hc
    exact ⟨h1, fun hp => hmono (h2 hp)⟩
  · rw [hlog]; exact hC.log

theorem invC_upd {cfg : Cfg} {s s' : St} {k : Nat} {f : Fl} (hI : Inv cfg s) (hC : InvC cfg s)
    (hf : findFl k s.inflight = some f) (g : Fl → Fl)
    (hin : s'.inflight = updFl k g s.inflight)
    (hlog : ∀ j ∈ s'.ranLateC, (specOf cfg j).custom = false)
    (hmono : s.cancelled = true → s'.cancelled = true)
    (hg : (g f).lateC = true → (specOf cfg (g f).idx).custom = true →
      (g f).pc ≠ .go ∧ ((g f).pc = .started → s'.cancelled = true)) : InvC cfg s' := by
  obtain ⟨_, hu, _⟩ := entry_facts hI hf
  constructor
  · intro x hx hl hc
    rw [hin] at hx
    rcases mem_updFl hx with ⟨hx1, _⟩ | ⟨y, hy, hyk, rfl⟩
    · obtain ⟨h1, h2⟩ := hC.entry x hx1 hl hc
      exact ⟨h1, fun hp => hmono (h2 hp)⟩
    · have := unique_entry hu hf hy hyk
      subst this
      exact hg hl hc
  · exact hlog

theorem invC_drop {cfg : Cfg} {s s' : St} {k : Nat} (hC : InvC cfg s)
    (hin : s'.inflight = dropFl k s.inflight)
    (hlog : ∀ j ∈ s'.ranLateC, (specOf cfg j).custom = false)
    (hmono : s.cancelled = true → s'.cancelled = true) : InvC cfg s' := by
  constructor
  · intro x hx hl hc
    rw [hin] at hx
    obtain ⟨h1, h2⟩ := hC.entry x (mem_dropFl hx) hl hc
    exact ⟨h1, fun hp => hmono (h2 hp)⟩
  · exact hlog

theorem invC_runOp {cfg : Cfg} {s : St} {f : Fl} (hI : Inv cfg s) (hC : InvC cfg s)
    (hf : findFl f.idx s.inflight = some f)
    (hlate : f.lateC = true → (specOf cfg f.idx).custom = false) : InvC cfg (runOp cfg s f) := by
  have hlog : ∀ j ∈ (if f.lateC = true then ins f.idx s.ranLateC else s.ranLateC), (specOf cfg j).custom = false := by
    intro j hj
    split at hj
    · rename_i hl
      rcases mem_ins.mp hj with rfl | hj
      · exact hlate hl
      · exact hC.log j hj
    · exact hC.log j hj
  have hmono : s.cancelled = true → (s.cancelled || (specOf cfg f.idx).cancels) = true := by
    intro h; simp [h]
  unfold runOp
  dsimp only
  split
  · exact invC_upd hI hC hf (fun g => { g with pc := .done true }) (setPc_eq _ _ _) hlog hmono
      (by intro _ _; simp)
  · exact invC_upd hI hC hf (fun g => { g with pc := .done false, wk := g.wk || (specOf cfg f.idx).custom })
      rfl hlog hmono (by intro _ _; simp)
  · exact invC_drop hC rfl hlog hmono

theorem invC_step {cfg : Cfg} {s s' : St} {a : Act} (hI : Inv cfg s) (hC : InvC cfg s)
    (hs : step cfg s a = some s') : InvC cfg s' := by
  cases a with
  | dLoad =>
    simp only [step] at hs; split at hs
    · cases hs; exact invC_frame hC rfl rfl id
    · cases hs
  | dClose =>
    simp only [step] at hs; split at hs
    · cases hs; exact invC_frame hC rfl rfl id
    · cases hs
  | dSendC =>
    simp only [step] at hs; split at hs
    · cases hs; exact invC_frame hC rfl rfl id
    · cases hs
  | dEnq =>
    simp only [step] at hs; split at hs
    · split at hs
      · cases hs; exact invC_frame hC rfl rfl id
      · cases hs; exact invC_frame hC rfl rfl id
    · cases hs
  | extCancel =>
    simp only [step] at hs; split at hs
    · cases hs; exact invC_frame hC rfl rfl (fun _ => rfl)
    · cases hs
  | monExit =>
    simp only [step] at hs; split at hs
    · cases hs; exact invC_frame hC rfl rfl id
    · cases hs
  | store k =>
    simp only [step] at hs; split at hs
    · cases hs
    · cases hs
      unfold release
      split
      · exact invC_frame hC rfl rfl (fun _ => rfl)
      · exact invC_frame hC rfl rfl (fun _ => rfl)
  | deq b =>
    simp only [step] at hs
    split at hs
    · cases hs
    · rename_i k q hq
      have key : ∀ (iK iN : Nat) (fl : Fl), fl.lateC = false →
          InvC cfg { s with queue := q, idleK := iK, idleN := iN, inflight := s.inflight ++ [fl] } := by
        intro iK iN fl hfl
        constructor
        · intro x hx hl hc
          rcases List.mem_append.mp hx with hx | hx
          · exact hC.entry x hx hl hc
          · simp at hx; subst hx; rw [hfl] at hl; cases hl
        · exact hC.log
      cases b
      · simp only [Bool.false_eq_true, ↓reduceIte] at hs
        split at hs
        · cases hs; exact key _ _ _ rfl
        · cases hs
      · simp only [↓reduceIte] at hs
        split at hs
        · cases hs; exact key _ _ _ rfl
        · cases hs
  | w k =>
    simp only [step] at hs
    split at hs
    · cases hs
    · rename_i f hf
      cases hs
      have hk := (findFl_some hf).1
      subst hk
      have hmem := (findFl_some hf).2
      unfold wstep
      dsimp only
      split
      · -- got
        exact invC_upd hI hC hf (fun g => { g with pc := .started, lateC := s.cancelled, lateF := decide (0 < s.failed) })
          rfl hC.log id (by intro hl _; simp at hl ⊢; exact hl)
      · -- started
        rename_i hpc
        split
        · rename_i hcust
          split
          · exact invC_upd hI hC hf (fun g => { g with pc := .done false }) (setPc_eq _ _ _) hC.log id
              (by intro _ _; simp)
          · rename_i hnc
            refine invC_upd hI hC hf (fun g => { g with pc := .go }) (setPc_eq _ _ _) hC.log id ?_
            intro hl hc
            exact absurd ((hC.entry f hmem hl hc).2 hpc) hnc
        · rename_i hcust
          exact invC_runOp hI hC hf (fun _ => by simpa using hcust)
      · -- go
        rename_i hpc
        refine invC_runOp hI hC hf ?_
        intro hl
        cases hc : (specOf cfg f.idx).custom with
        | false => rfl
        | true => exact absurd hpc (hC.entry f hmem hl hc).1
      · exact invC_upd hI hC hf (fun g => { g with pc := .dec _ }) (setPc_eq _ _ _) hC.log id (by intro _ _; simp)
      · rename_i r hpc
        cases r
        · simp only [Bool.false_eq_true, ↓reduceIte]
          exact invC_upd hI hC hf (fun g => { g with pc := .cnt false }) (setPc_eq _ _ _) hC.log id (by intro _ _; simp)
        · simp only [↓reduceIte]
          exact invC_upd hI hC hf (fun g => { g with pc := .cnt true }) (setPc_eq _ _ _) hC.log id (by intro _ _; simp)
      · split
        · exact invC_drop hC rfl hC.log id
        · unfold release
          split
          · exact invC_drop hC rfl hC.log id
          · exact invC_drop hC rfl hC.log id

theorem invC_reachable {cfg : Cfg} {s : St} (h : Reachable cfg s) : InvC cfg s := by
  induction h with
  | init => exact invC_init cfg
  | step hr hs ih => exact invC_step (inv_reachable hr) ih hs

end OxiVerif.C22
