import OxiVerif.Model.C07Inflate
import OxiVerif.Lemmas.C07
/-!
C07 helper lemmas, Flate: the Lean inflate (Model/C07Inflate.lean) inverts the reference zlib encoder
with stored blocks (Spec/C07Codecs.lean `zlibStored`), for every block size and every byte string.
-/
namespace OxiVerif.Inflate
open OxiVerif.Codec OxiVerif.Flt

theorem readHdr (hdr : Nat) (hh : hdr = 0 ∨ hdr = 1) (X : List Nat) :
    readBitsLE 3 ⟨hdr :: X, 0⟩ = some (hdr, ⟨hdr :: X, 3⟩) := by
  rcases hh with rfl | rfl <;> simp [readBitsLE, BR.readBit]

theorem stored_block (n : Nat) (hn : n ≤ 65535) (c tail : List Nat) (hc : c.length = n) (hdr : Nat)
    (out : Array Nat) :
    stored ⟨hdr :: (le16 n ++ le16 (65535 - n) ++ c ++ tail), 3⟩ out = some (out ++ c.toArray, ⟨tail, 0⟩) := by
  simp only [stored, BR.align, le16, List.cons_append, List.nil_append, List.append_assoc]
  have e1 : n % 256 + 256 * (n / 256 % 256) = n := by omega
  have e2 : (65535 - n) % 256 + 256 * ((65535 - n) / 256 % 256) = 65535 - n := by omega
  rw [e1, e2, if_neg (by omega), if_neg (by simp; omega)]
  rw [← hc, List.take_left, List.drop_left]

theorem blocks_stored (cf : Nat) (block : Nat) (hb : 1 ≤ block ∧ block ≤ 65535) (tail : List Nat) :
    ∀ (fuel : Nat) (data : List Nat) (bfuel : Nat) (out : Array Nat), data.length < fuel → data.length < bfuel →
      blocks cf bfuel ⟨storedBlocks block fuel data ++ tail, 0⟩ out = some (out ++ data.toArray, ⟨tail, 0⟩) := by
  intro fuel
  induction fuel with
  | zero => intro data _ _ h; omega
  | succ fuel ih =>
    intro data bfuel out hf hbf
    obtain ⟨bfuel, rfl⟩ : ∃ k, bfuel = k + 1 := ⟨bfuel - 1, by omega⟩
    have hlen : (data.take block).length ≤ 65535 := by simp [List.length_take]; omega
    simp only [storedBlocks]
    by_cases hr : (data.drop block).isEmpty = true
    · have hd : data.drop block = [] := by simpa using hr
      have htake : data.take block = data := by
        have := List.take_append_drop block data
        rw [hd, List.append_nil] at this; exact this
      simp only [hr, if_true, List.cons_append, List.append_nil]
      simp only [blocks]
      rw [readHdr 1 (Or.inr rfl)]
      simp only [Nat.reduceDiv, if_true]
      rw [stored_block _ hlen _ tail rfl]
      simp [htake]
    · simp only [hr, Bool.false_eq_true, if_false, List.cons_append]
      simp only [blocks]
      rw [readHdr 0 (Or.inl rfl)]
      simp only [Nat.zero_div, if_true]
      have hne : data.drop block ≠ [] := by simpa using hr
      have hdl : (data.drop block).length < data.length := by
        have : data.length > block := Nat.lt_of_not_le (fun hle => hne (List.drop_of_length_le hle))
        simp; omega
      have := stored_block _ hlen (data.take block) (storedBlocks block fuel (data.drop block) ++ tail) rfl 0 out
      simp only [List.append_assoc] at this ⊢
      rw [this]
      simp only [Nat.zero_mod, Nat.zero_ne_one, if_false]
      rw [ih (data.drop block) bfuel _ (by omega) (by omega)]
      congr 2
      have e : data.toArray = (data.take block ++ data.drop block).toArray := by rw [List.take_append_drop]
      rw [e]; simp

theorem storedBlocks_length (block : Nat) (hb : 1 ≤ block) :
    ∀ (fuel : Nat) (data : List Nat), data.length < fuel → data.length ≤ (storedBlocks block fuel data).length := by
  intro fuel
  induction fuel with
  | zero => intro data h; omega
  | succ fuel ih =>
    intro data hf
    simp only [storedBlocks]
    by_cases hr : (data.drop block).isEmpty = true
    · have hd : data.drop block = [] := by simpa using hr
      have htake : data.take block = data := by
        have := List.take_append_drop block data
        rw [hd, List.append_nil] at this; exact this
      simp [hr, htake]; omega
    · have hne : data.drop block ≠ [] := by simpa using hr
      have hgt : data.length > block := Nat.lt_of_not_le (fun hle => hne (List.drop_of_length_le hle))
      have := ih (data.drop block) (by simp; omega)
      simp only [hr, Bool.false_eq_true, if_false, List.length_cons, List.length_append, List.length_take]
      simp only [List.length_drop] at this
      omega

theorem adler_fold_lt : ∀ (l : List Nat) (ab : Nat × Nat), ab.1 < 65521 → ab.2 < 65521 →
    (l.foldl (fun (ab : Nat × Nat) x => ((ab.1 + x) % 65521, (ab.2 + (ab.1 + x) % 65521) % 65521)) ab).1 < 65521 ∧
    (l.foldl (fun (ab : Nat × Nat) x => ((ab.1 + x) % 65521, (ab.2 + (ab.1 + x) % 65521) % 65521)) ab).2 < 65521 := by
  intro l
  induction l with
  | nil => intro ab h1 h2; exact ⟨h1, h2⟩
  | cons x xs ih =>
    intro ab _ _
    simp only [List.foldl_cons]
    exact ih _ (Nat.mod_lt _ (by omega)) (Nat.mod_lt _ (by omega))

theorem adler32_lt (data : List Nat) : adler32 data < 4294967296 := by
  unfold adler32
  have := adler_fold_lt data (1, 0) (by omega) (by omega)
  simp only at this ⊢
  omega

/-- the Lean zlib decoder inverts the stored-block reference encoder: every block size, every data -/
theorem zlibInflate_zlibStored (block : Nat) (data : List Nat) (t : List Nat) :
    zlibInflate (zlibStored block data ++ t) = some data := by
  have hb : 1 ≤ max 1 (min block 65535) ∧ max 1 (min block 65535) ≤ 65535 := by omega
  have ha := adler32_lt data
  unfold zlibStored
  simp only
  generalize max 1 (min block 65535) = blk at hb
  generalize hA : adler32 data = A at ha
  have hshape : [120, 1] ++ storedBlocks blk (data.length + 1) data ++
      [A / 16777216 % 256, A / 65536 % 256, A / 256 % 256, A % 256] ++ t =
      120 :: 1 :: (storedBlocks blk (data.length + 1) data ++
        (A / 16777216 % 256 :: A / 65536 % 256 :: A / 256 % 256 :: A % 256 :: t)) := by simp
  rw [show (0x78 : Nat) = 120 from rfl, show (0x01 : Nat) = 1 from rfl, hshape]
  unfold zlibInflate
  simp only
  rw [if_neg (by decide)]
  unfold inflateRaw
  have hlen := storedBlocks_length blk hb.1 (data.length + 1) data (Nat.lt_succ_self _)
  rw [blocks_stored _ blk hb _ (data.length + 1) data _ #[] (Nat.lt_succ_self _)
    (by simp only [List.length_append]; omega)]
  simp only [BR.align]
  have hout : (#[] ++ data.toArray : Array Nat).toList = data := by simp
  rw [hout, hA, if_pos (by omega)]

end OxiVerif.Inflate
