import OxiVerif.Model.C12
import OxiVerif.Model.C12Cff
import Mathlib.Data.List.Perm.Subperm
import Mathlib.Data.List.Nodup
set_option linter.unusedSimpArgs false
set_option linter.unusedVariables false
/-! Helper lemmas for C12 (composite closure, renumbering, flattening). -/
namespace OxiVerif.C12

/-! ### addComps -/

theorem addComps_spec (cs w s : List Gid) :
    let r := addComps cs w s
    (∀ x, x ∈ r.2 ↔ x ∈ s ∨ x ∈ cs) ∧
    (∀ x, x ∈ r.1 ↔ x ∈ w ∨ (x ∈ r.2 ∧ x ∉ s)) ∧
    (s.Nodup → r.2.Nodup) ∧
    r.1.length + s.length = w.length + r.2.length := by
  induction cs generalizing w s with
  | nil => simp [addComps]
  | cons c cs ih =>
    by_cases hc : c ∈ s
    · have h1 : addComps (c :: cs) w s = addComps cs w s := by
        simp [addComps, hc]
      rw [h1]
      obtain ⟨a, b, d, e⟩ := ih w s
      refine ⟨?_, b, d, e⟩
      intro x
      rw [a x]
      constructor
      · rintro (h | h)
        · exact Or.inl h
        · exact Or.inr (List.mem_cons_of_mem _ h)
      · rintro (h | h)
        · exact Or.inl h
        · rcases List.mem_cons.mp h with rfl | h
          · exact Or.inl hc
          · exact Or.inr h
    · have h1 : addComps (c :: cs) w s = addComps cs (c :: w) (c :: s) := by
        simp [addComps, hc]
      rw [h1]
      obtain ⟨a, b, d, e⟩ := ih (c :: w) (c :: s)
      refine ⟨?_, ?_, ?_, ?_⟩
      · intro x
        rw [a x]
        simp only [List.mem_cons]
        tauto
      · intro x
        rw [b x, a x]
        simp only [List.mem_cons]
        constructor
        · rintro ((rfl | h) | ⟨h, h2⟩)
          · exact Or.inr ⟨Or.inl (Or.inl rfl), hc⟩
          · exact Or.inl h
          · push Not at h2
            exact Or.inr ⟨h, h2.2⟩
        · rintro (h | ⟨h, h2⟩)
          · exact Or.inl (Or.inr h)
          · by_cases hx : x = c
            · exact Or.inl (Or.inl hx)
            · refine Or.inr ⟨h, ?_⟩
              push Not
              exact ⟨hx, h2⟩
      · intro hs
        exact d (List.nodup_cons.mpr ⟨hc, hs⟩)
      · simp only [List.length_cons] at e ⊢
        omega

/-! ### expand: the worklist loop -/

/-- loop invariant: the worklist lies inside the set, and every set element that is no longer on
    the worklist already has all its components in the set -/
structure ExpInv (comps : Gid → List Gid) (w s : List Gid) : Prop where
  sub : ∀ x ∈ w, x ∈ s
  done : ∀ g ∈ s, g ∉ w → ∀ c ∈ comps g, c ∈ s

theorem expInv_step {comps : Gid → List Gid} {g : Gid} {w s : List Gid}
    (h : ExpInv comps (g :: w) s) :
    ExpInv comps (addComps (comps g) w s).1 (addComps (comps g) w s).2 := by
  obtain ⟨a, b, _, _⟩ := addComps_spec (comps g) w s
  constructor
  · intro x hx
    rcases (b x).mp hx with h1 | h1
    · exact (a x).mpr (Or.inl (h.sub x (List.mem_cons_of_mem _ h1)))
    · exact h1.1
  · intro x hx hxw c hc
    by_cases hxg : x = g
    · subst hxg
      exact (a c).mpr (Or.inr hc)
    · have hxs : x ∈ s := by
        by_contra hns
        exact hxw ((b x).mpr (Or.inr ⟨hx, hns⟩))
      have hxw' : x ∉ g :: w := by
        intro hm
        rcases List.mem_cons.mp hm with h1 | h1
        · exact hxg h1
        · exact hxw ((b x).mpr (Or.inl h1))
      exact (a c).mpr (Or.inl (h.done x hxs hxw' c hc))

theorem expand_closed {comps : Gid → List Gid} :
    ∀ (fuel : Nat) (w s r : List Gid), ExpInv comps w s → expand comps fuel w s = some r →
      (∀ x ∈ s, x ∈ r) ∧ (∀ g ∈ r, ∀ c ∈ comps g, c ∈ r) := by
  intro fuel
  induction fuel with
  | zero =>
    intro w s r hi he
    cases w with
    | nil =>
      simp [expand] at he
      subst he
      exact ⟨fun x hx => hx, fun g hg c hc => hi.done g hg (by simp) c hc⟩
    | cons g w => simp [expand] at he
  | succ n ih =>
    intro w s r hi he
    cases w with
    | nil =>
      simp [expand] at he
      subst he
      exact ⟨fun x hx => hx, fun g hg c hc => hi.done g hg (by simp) c hc⟩
    | cons g w =>
      simp only [expand] at he
      obtain ⟨h1, h2⟩ := ih _ _ r (expInv_step hi) he
      obtain ⟨a, _, _, _⟩ := addComps_spec (comps g) w s
      exact ⟨fun x hx => h1 x ((a x).mpr (Or.inl hx)), h2⟩

theorem expand_nodup {comps : Gid → List Gid} :
    ∀ (fuel : Nat) (w s r : List Gid), s.Nodup → expand comps fuel w s = some r → r.Nodup := by
  intro fuel
  induction fuel with
  | zero =>
    intro w s r hs he
    cases w with
    | nil => simp [expand] at he; subst he; exact hs
    | cons g w => simp [expand] at he
  | succ n ih =>
    intro w s r hs he
    cases w with
    | nil => simp [expand] at he; subst he; exact hs
    | cons g w =>
      simp only [expand] at he
      obtain ⟨_, _, d, _⟩ := addComps_spec (comps g) w s
      exact ih _ _ r (d hs) he

/-- reachability in the component graph -/
inductive Reach (comps : Gid → List Gid) (init : List Gid) : Gid → Prop where
  | base {x} : x ∈ init → Reach comps init x
  | step {g c} : Reach comps init g → c ∈ comps g → Reach comps init c

theorem expand_minimal {comps : Gid → List Gid} (init : List Gid) :
    ∀ (fuel : Nat) (w s r : List Gid), (∀ x ∈ w, x ∈ s) → (∀ x ∈ s, Reach comps init x) →
      expand comps fuel w s = some r → ∀ x ∈ r, Reach comps init x := by
  intro fuel
  induction fuel with
  | zero =>
    intro w s r hw hs he
    cases w with
    | nil => simp [expand] at he; subst he; exact hs
    | cons g w => simp [expand] at he
  | succ n ih =>
    intro w s r hw hs he
    cases w with
    | nil => simp [expand] at he; subst he; exact hs
    | cons g w =>
      simp only [expand] at he
      obtain ⟨a, b, _, _⟩ := addComps_spec (comps g) w s
      refine ih _ _ r ?_ ?_ he
      · intro x hx
        rcases (b x).mp hx with h1 | h1
        · exact (a x).mpr (Or.inl (hw x (List.mem_cons_of_mem _ h1)))
        · exact h1.1
      · intro x hx
        rcases (a x).mp hx with h1 | h1
        · exact hs x h1
        · exact Reach.step (hs g (hw g (by simp))) h1

theorem length_le_of_nodup_bound {U : Nat} {s : List Gid} (h : s.Nodup) (hb : ∀ x ∈ s, x < U) :
    s.length ≤ U := by
  have := (List.Nodup.subperm h (l₂ := List.range U) (by intro x hx; simp; exact hb x hx)).length_le
  simpa using this

theorem expand_terminates {comps : Gid → List Gid} (U : Nat) (hU : ∀ g, ∀ c ∈ comps g, c < U) :
    ∀ (fuel : Nat) (w s : List Gid), s.Nodup → (∀ x ∈ s, x < U) →
      w.length + (U - s.length) ≤ fuel → (expand comps fuel w s).isSome := by
  intro fuel
  induction fuel with
  | zero =>
    intro w s hs hb hf
    cases w with
    | nil => simp [expand]
    | cons g w => simp at hf
  | succ n ih =>
    intro w s hs hb hf
    cases w with
    | nil => simp [expand]
    | cons g w =>
      simp only [expand]
      obtain ⟨a, _, d, e⟩ := addComps_spec (comps g) w s
      have hb' : ∀ x ∈ (addComps (comps g) w s).2, x < U := by
        intro x hx
        rcases (a x).mp hx with h1 | h1
        · exact hb x h1
        · exact hU g x h1
      have hl := length_le_of_nodup_bound (d hs) hb'
      have hl0 := length_le_of_nodup_bound hs hb
      apply ih _ _ (d hs) hb'
      simp only [List.length_cons] at hf
      omega

/-! ### insertNew / initNeeded -/

theorem insertNew_mem (s : List Gid) (g x : Gid) : x ∈ insertNew s g ↔ x = g ∨ x ∈ s := by
  unfold insertNew
  split
  · rename_i h
    have : g ∈ s := by simpa using h
    constructor
    · exact fun h => Or.inr h
    · rintro (rfl | h)
      · exact this
      · exact h
  · simp

theorem insertNew_nodup (s : List Gid) (g : Gid) (h : s.Nodup) : (insertNew s g).Nodup := by
  unfold insertNew
  split
  · exact h
  · rename_i hc
    have : g ∉ s := by simpa using hc
    exact List.nodup_cons.mpr ⟨this, h⟩

theorem foldl_insertNew_mem (l s : List Gid) (x : Gid) :
    x ∈ l.foldl insertNew s ↔ x ∈ s ∨ x ∈ l := by
  induction l generalizing s with
  | nil => simp
  | cons a l ih =>
    simp only [List.foldl_cons, ih, insertNew_mem, List.mem_cons]
    tauto

theorem foldl_insertNew_nodup (l s : List Gid) (h : s.Nodup) : (l.foldl insertNew s).Nodup := by
  induction l generalizing s with
  | nil => simpa
  | cons a l ih => exact ih _ (insertNew_nodup s a h)

/-! ### sorting and renumbering -/

theorem insertGid_perm (a : Nat) (l : List Nat) : (insertGid a l).Perm (a :: l) := by
  induction l with
  | nil => simp [insertGid]
  | cons b l ih =>
    simp only [insertGid]
    split
    · exact List.Perm.refl _
    · exact (List.Perm.cons b ih).trans (List.Perm.swap a b l)

theorem insertGid_sorted (a : Nat) (l : List Nat) (h : l.Pairwise (fun x y : Nat => x ≤ y)) :
    (insertGid a l).Pairwise (fun x y : Nat => x ≤ y) := by
  induction l with
  | nil => simp [insertGid]
  | cons b l ih =>
    simp only [insertGid]
    have hb := List.pairwise_cons.mp h
    split
    · rename_i hab
      refine List.pairwise_cons.mpr ⟨?_, h⟩
      intro y hy
      rcases List.mem_cons.mp hy with rfl | hy
      · exact hab
      · exact Nat.le_trans hab (hb.1 y hy)
    · rename_i hab
      refine List.pairwise_cons.mpr ⟨?_, ih hb.2⟩
      intro y hy
      rcases List.mem_cons.mp ((insertGid_perm a l).mem_iff.mp hy) with rfl | hy
      · omega
      · exact hb.1 y hy

theorem sortGids_perm (s : List Gid) : (sortGids s).Perm s := by
  induction s with
  | nil => simp [sortGids]
  | cons a l ih =>
    have : sortGids (a :: l) = insertGid a (sortGids l) := rfl
    rw [this]
    exact (insertGid_perm a _).trans (List.Perm.cons a ih)

theorem sortGids_mem (s : List Gid) (x : Gid) : x ∈ sortGids s ↔ x ∈ s := (sortGids_perm s).mem_iff

theorem sortGids_nodup (s : List Gid) (h : s.Nodup) : (sortGids s).Nodup :=
  (sortGids_perm s).nodup_iff.mpr h

theorem sortGids_le (s : List Nat) : (sortGids s).Pairwise (fun a b : Nat => a ≤ b) := by
  induction s with
  | nil => simp [sortGids]
  | cons a l ih =>
    have : sortGids (a :: l) = insertGid a (sortGids l) := rfl
    rw [this]
    exact insertGid_sorted a _ ih

/-- a duplicate-free sorted list is strictly increasing -/
theorem sortGids_lt (s : List Nat) (h : s.Nodup) : (sortGids s).Pairwise (fun a b : Nat => a < b) := by
  have h1 := sortGids_le s
  have h2 := sortGids_nodup s h
  rw [List.pairwise_iff_getElem] at h1 ⊢
  intro i j hi hj hij
  have hle := h1 i j hi hj hij
  have hne : (sortGids s)[i] ≠ (sortGids s)[j] := by
    intro he
    have := (List.Nodup.getElem_inj_iff h2).mp he
    omega
  exact Nat.lt_of_le_of_ne hle hne

theorem idxOf_strictMono {S : List Nat} (hS : S.Pairwise (fun a b : Nat => a < b)) {a b : Nat}
    (ha : a ∈ S) (hb : b ∈ S) (hab : a < b) : S.idxOf a < S.idxOf b := by
  have hia := List.idxOf_lt_length_iff.mpr ha
  have hib := List.idxOf_lt_length_iff.mpr hb
  have ea := List.getElem_idxOf hia
  have eb := List.getElem_idxOf hib
  by_contra hcon
  have hle : S.idxOf b ≤ S.idxOf a := by omega
  rcases Nat.lt_or_eq_of_le hle with hlt | heq
  · have := (List.pairwise_iff_getElem.mp hS) _ _ hib hia hlt
    rw [ea, eb] at this
    omega
  · have : S[S.idxOf b] = S[S.idxOf a] := by simp [heq]
    rw [ea, eb] at this
    omega

theorem idxOf_zero {S : List Nat} (hS : S.Pairwise (fun a b : Nat => a < b)) (h0 : 0 ∈ S) : S.idxOf 0 = 0 := by
  have hi := List.idxOf_lt_length_iff.mpr h0
  have e := List.getElem_idxOf hi
  by_contra hne
  have hpos : 0 < S.idxOf 0 := Nat.pos_of_ne_zero hne
  have := (List.pairwise_iff_getElem.mp hS) 0 (S.idxOf 0) (by omega) hi hpos
  rw [e] at this
  omega

theorem remap?_of_mem {S : List Gid} {g : Gid} (h : g ∈ S) : remap? S g = some (S.idxOf g) := by
  simp [remap?, h]

theorem remap?_of_not_mem {S : List Gid} {g : Gid} (h : g ∉ S) : remap? S g = none := by
  simp [remap?, h]

/-! ### buildRows -/

theorem mapM_some_length {α β} (f : α → Option β) :
    ∀ (l : List α) (r : List β), l.mapM f = some r →
      r.length = l.length ∧ ∀ (i : Nat) (h : i < l.length), ∃ h' : i < r.length, f l[i] = some r[i] := by
  intro l
  induction l with
  | nil =>
    intro r h
    simp at h
    subst h
    simp
  | cons a l ih =>
    intro r h
    simp only [List.mapM_cons, Option.bind_eq_bind, Option.pure_def] at h
    cases hfa : f a with
    | none => simp [hfa] at h
    | some b =>
      cases hl : l.mapM f with
      | none => simp [hfa, hl] at h
      | some bs =>
        simp [hfa, hl] at h
        subst h
        obtain ⟨e1, e2⟩ := ih bs hl
        refine ⟨by simp [e1], ?_⟩
        intro i hi
        cases i with
        | zero => exact ⟨by simp, by simpa using hfa⟩
        | succ k =>
          have hk : k < l.length := by simpa using hi
          obtain ⟨h', e⟩ := e2 k hk
          exact ⟨by simp; omega, by simpa using e⟩

theorem buildRows_row {f : Font} {S : List Gid} {rows : List Row} (h : buildRows f S = some rows)
    (hS : S.Nodup) {g : Gid} (hg : g ∈ S) :
    S.idxOf g < rows.length ∧ f.glyph g ≠ .bad ∧
      rows[S.idxOf g]? = some { adv := f.adv g, lsb := f.lsb g, glyph := remapGlyph S (f.glyph g) } := by
  obtain ⟨e1, e2⟩ := mapM_some_length _ S rows h
  have hi := List.idxOf_lt_length_iff.mpr hg
  obtain ⟨h', e⟩ := e2 (S.idxOf g) hi
  have eg := List.getElem_idxOf hi
  rw [eg] at e
  refine ⟨h', ?_, ?_⟩
  · intro hb
    simp [hb] at e
  · rw [List.getElem?_eq_getElem h']
    cases hgl : f.glyph g with
    | bad => simp [hgl] at e
    | empty => simp [hgl] at e; rw [← e]
    | simple fp => simp [hgl] at e; rw [← e]
    | composite hh cs => simp [hgl] at e; rw [← e]

theorem buildRows_length {f : Font} {S : List Gid} {rows : List Row} (h : buildRows f S = some rows) :
    rows.length = S.length := (mapM_some_length _ S rows h).1

/-! ### flatten commutes with renumbering -/

theorem mapM_map_congr {α β γ} (φ : α → β) (F' : β → Option γ) (F : α → Option γ) :
    ∀ cs : List α, (∀ p ∈ cs, F' (φ p) = F p) → (cs.map φ).mapM F' = cs.mapM F := by
  intro cs
  induction cs with
  | nil => intro _; simp
  | cons a l ih =>
    intro h
    simp only [List.map_cons, List.mapM_cons]
    rw [h a (by simp), ih (fun p hp => h p (List.mem_cons_of_mem _ hp))]

theorem flatten_rows_eq {f : Font} {S : List Gid} {rows : List Row}
    (hb : buildRows f S = some rows) (hS : S.Nodup)
    (hcl : ∀ g ∈ S, ∀ c ∈ (f.glyph g).comps, c ∈ S) :
    ∀ (n : Nat) (g : Gid), g ∈ S → flatten (rowGlyph rows) n (S.idxOf g) = flatten f.glyph n g := by
  intro n
  induction n with
  | zero => intro g _; simp [flatten]
  | succ n ih =>
    intro g hg
    obtain ⟨_, hnb, hrow⟩ := buildRows_row hb hS hg
    have hrg : rowGlyph rows (S.idxOf g) = remapGlyph S (f.glyph g) := by
      simp [rowGlyph, hrow]
    simp only [flatten, hrg]
    cases hgl : f.glyph g with
    | bad => exact absurd hgl hnb
    | empty => simp [remapGlyph]
    | simple fp => simp [remapGlyph]
    | composite hh cs =>
      simp only [remapGlyph]
      congr 1
      apply mapM_map_congr
      intro p hp
      have hc : p.1 ∈ S := hcl g hg p.1 (by simp [hgl, Glyph.comps]; exact ⟨p.2, hp⟩)
      simp only [remap?_of_mem hc, Option.getD_some]
      rw [ih p.1 hc]

end OxiVerif.C12
