import OxiVerif.Lemmas.C01Filters
/-!
Helper lemmas for C01: once `predSizing` has succeeded, the PNG-predictor row loop indexes and
slices inside its buffers only (no panic), for every filter-type byte and every data content.
-/
namespace OxiVerif.C01
open Outcome

theorem bind_eq_ok {α β} (x : Outcome α) (f : α → Outcome β) (b : β) :
    (x >>= f) = .ok b ↔ ∃ a, x = .ok a ∧ f a = .ok b := by
  cases x <;> simp [Bind.bind, Outcome.bind]

theorem idx_ok {α} (xs : List α) (i : Nat) (h : i < xs.length) : idx xs i = .ok xs[i] := by
  simp [idx, h]

theorem slice_ok (xs : Bytes) (a b : Nat) (h1 : a ≤ b) (h2 : b ≤ xs.length) :
    slice xs a b = .ok ((xs.drop a).take (b - a)) ∧ ((xs.drop a).take (b - a)).length = b - a := by
  constructor
  · simp [slice, h1, h2]
  · simp; omega

/-- one row: with `out.length = i` (the invariant of the three helpers' `result`) the look-back
`result[i - bpp]` is in range; an empty row never looks back -/
theorem filterRow_spec (ft bpp : Nat) (prev : Option Bytes) :
    ∀ (inp : Bytes) (i : Nat) (out : Bytes), (0 < bpp ∨ inp = []) → out.length = i →
      ∃ r, filterRow ft bpp prev i inp out = .ok r ∧ r.length = i + inp.length
  | [], i, out, _, ho => ⟨out, by simp [filterRow], by simp [ho]⟩
  | b :: rest, i, out, hb, ho => by
    have hbpp : 0 < bpp := by
      rcases hb with h | h
      · exact h
      · cases h
    unfold filterRow
    by_cases hc : i < bpp ∨ ft = 0 ∨ ft = 2
    · rw [if_pos hc]
      simp only [pure_eq_ok, Outcome.bind_ok]
      obtain ⟨r, hr, hl⟩ := filterRow_spec ft bpp prev rest (i + 1) (out ++ [_]) (Or.inl hbpp)
        (by simp [ho])
      exact ⟨r, hr, by simp at hl ⊢; omega⟩
    · rw [if_neg hc]
      have hi : i - bpp < out.length := by omega
      rw [idx_ok out (i - bpp) hi, Outcome.bind_ok]
      obtain ⟨r, hr, hl⟩ := filterRow_spec ft bpp prev rest (i + 1) (out ++ [_]) (Or.inl hbpp)
        (by simp [ho])
      exact ⟨r, hr, by simp at hl ⊢; omega⟩

/-- what `predSizing` guarantees about its result -/
structure SizingOk (s : PredSizing) (len : Nat) : Prop where
  rowSize_eq : s.rowSize = s.rowBytes + 1
  len_eq : len = s.numRows * s.rowSize
  bpp_pos : 0 < s.bpp ∨ s.rowBytes = 0

theorem predSizing_ok (columns bpc colors : Int) (len : Nat) (s : PredSizing)
    (h : predSizing columns bpc colors len = .ok s) : SizingOk s len := by
  unfold predSizing at h
  simp only [bind_eq_ok, ckMul_eq_ok, ckAdd_eq_ok] at h
  obtain ⟨prod, ⟨_, hprod⟩, samples, ⟨_, hs⟩, bits, ⟨_, hb⟩, bits7, ⟨_, h7⟩, rowSize, ⟨_, hrs⟩, h⟩ := h
  by_cases hm : (len % rowSize != 0) = true
  · rw [if_pos hm] at h; cases h
  · rw [if_neg hm] at h
    simp only [Outcome.ok.injEq] at h
    subst h
    have hmod : len % rowSize = 0 := by simpa using hm
    refine ⟨by simp [hrs], ?_, ?_⟩
    · simp only
      have := Nat.div_add_mod len rowSize
      rw [hmod, Nat.add_zero, Nat.mul_comm] at this
      exact this.symm
    · simp only
      by_cases hp : prod = 0
      · right
        have hbits : bits = 0 := by
          rw [hb, hs, Nat.mul_assoc, Nat.mul_comm (asU USIZE colors), ← hprod, hp, Nat.mul_zero]
        rw [h7, hbits]
      · left; omega

/-- the row loop never panics and never diverges once the sizing succeeded -/
theorem predRows_fine (data : Bytes) (s : PredSizing) (hs : SizingOk s data.length) :
    ∀ (fuel row : Nat) (res : Bytes), res.length = row * s.rowBytes →
      (predRows data s fuel row res).fine = true
  | 0, _, _, _ => by simp [predRows, Outcome.fine]
  | fuel + 1, row, res, hres => by
    rw [predRows]
    by_cases hrow : row ≥ s.numRows
    · rw [if_pos hrow]; rfl
    · rw [if_neg hrow]
      dsimp only
      have hle : (row + 1) * s.rowSize ≤ data.length := by
        rw [hs.len_eq]; exact Nat.mul_le_mul_right _ (by omega)
      have hrs := hs.rowSize_eq
      have hexp : (row + 1) * s.rowSize = row * s.rowSize + s.rowSize := by
        rw [Nat.add_mul, Nat.one_mul]
      have h1 : row * s.rowSize < data.length := by omega
      rw [idx_ok data _ h1, Outcome.bind_ok]
      obtain ⟨e2, l2⟩ := slice_ok data (row * s.rowSize + 1) (row * s.rowSize + s.rowSize)
        (by omega) (by omega)
      rw [e2, Outcome.bind_ok]
      by_cases hft : data[row * s.rowSize] > 4
      · rw [if_pos hft]; rfl
      · rw [if_neg hft]
        have hrowlen : ((data.drop (row * s.rowSize + 1)).take
            (row * s.rowSize + s.rowSize - (row * s.rowSize + 1))).length = s.rowBytes := by omega
        have hemp : 0 < s.bpp ∨ (data.drop (row * s.rowSize + 1)).take
            (row * s.rowSize + s.rowSize - (row * s.rowSize + 1)) = [] := by
          rcases hs.bpp_pos with h | h
          · exact Or.inl h
          · right; apply List.eq_nil_of_length_eq_zero; omega
        by_cases hp : data[row * s.rowSize] ≥ 2 ∧ row > 0
        · rw [if_pos hp]
          have hmul : (row - 1) * s.rowBytes ≤ row * s.rowBytes := Nat.mul_le_mul_right _ (by omega)
          obtain ⟨e3, _⟩ := slice_ok res ((row - 1) * s.rowBytes) (row * s.rowBytes) hmul (by omega)
          rw [e3]
          simp only [Outcome.bind_ok, pure_eq_ok]
          obtain ⟨r, hr, hl⟩ := filterRow_spec data[row * s.rowSize] s.bpp
            (some ((res.drop ((row - 1) * s.rowBytes)).take (row * s.rowBytes - (row - 1) * s.rowBytes)))
            _ 0 [] hemp rfl
          rw [hr, Outcome.bind_ok]
          apply predRows_fine data s hs fuel (row + 1) (res ++ r)
          rw [List.length_append, hl, hres, hrowlen, Nat.add_mul]; omega
        · rw [if_neg hp]
          simp only [Outcome.bind_ok, pure_eq_ok]
          obtain ⟨r, hr, hl⟩ := filterRow_spec data[row * s.rowSize] s.bpp none _ 0 [] hemp rfl
          rw [hr, Outcome.bind_ok]
          apply predRows_fine data s hs fuel (row + 1) (res ++ r)
          rw [List.length_append, hl, hres, hrowlen, Nat.add_mul]; omega

end OxiVerif.C01
