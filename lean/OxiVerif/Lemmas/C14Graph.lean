import OxiVerif.Model.C14Graph
set_option linter.unusedSimpArgs false
set_option linter.unusedVariables false
/-! Invariants of the literal `ElementGraph::build` (`Model/C14Graph.lean`). -/
namespace OxiVerif.C14

def indexedFrom : Nat → List Elem → List (Nat × Elem)
  | _, [] => []
  | k, e :: r => (k, e) :: indexedFrom (k + 1) r

theorem zip_range'_eq (k : Nat) (r : List Elem) :
    (List.range' k r.length).zip r = indexedFrom k r := by
  induction r generalizing k with
  | nil => rfl
  | cons e r ih => simp [List.range'_succ, indexedFrom, ih]

theorem indexed_eq (els : List Elem) : indexed els = indexedFrom 0 els := by
  unfold indexed
  rw [List.range_eq_range', zip_range'_eq]

/-- element `t` is a title with text `h` -/
def TitleAt (els : List Elem) (t : Nat) (h : Str) : Prop :=
  ∃ e, els[t]? = some e ∧ e.isTitle = true ∧ e.text = h

theorem TitleMap.get_insert (m : TitleMap) (k h : Str) (v : Nat) :
    (m.insert k v).get h = if k = h then some v else m.get h := by
  unfold TitleMap.insert TitleMap.get
  by_cases hk : k = h <;> simp [List.find?, hk]

/-- invariant of the second pass after the first `k` elements -/
structure P2Inv (els : List Elem) (k : Nat) (st : Pass2) : Prop where
  /-- the active map answers "the nearest preceding title with this text" -/
  act_some : ∀ h t, st.active.get h = some t →
    t < k ∧ TitleAt els t h ∧ ∀ t', t < t' → t' < k → ¬ TitleAt els t' h
  act_none : ∀ h, st.active.get h = none → ∀ t', t' < k → ¬ TitleAt els t' h
  /-- every parent link made so far -/
  par : ∀ i t, st.parent[i]? = some (some t) →
    i < k ∧ t < i ∧ ∃ e h, els[i]? = some e ∧ e.isTitle = false ∧ e.md.parentHeading = some h ∧
      TitleAt els t h ∧ ∀ t', t < t' → t' < i → ¬ TitleAt els t' h

theorem titleAt_lt_succ {els : List Elem} {k t : Nat} {h : Str} (e : Elem) (hk : els[k]? = some e)
    (hlt : t < k + 1) (ht : TitleAt els t h) (hne : ¬ (e.isTitle = true ∧ e.text = h)) : t < k := by
  rcases Nat.lt_succ_iff_lt_or_eq.1 hlt with h1 | h1
  · exact h1
  · subst h1
    obtain ⟨e', he', h2, h3⟩ := ht
    rw [hk] at he'; cases he'
    exact absurd ⟨h2, h3⟩ hne

theorem p2_step (els : List Elem) (k : Nat) (e : Elem) (st : Pass2) (hk : els[k]? = some e)
    (inv : P2Inv els k st) : P2Inv els (k + 1) (buildPass2Step st (k, e)) := by
  unfold buildPass2Step
  simp only
  by_cases ht : e.isTitle = true
  · -- a title: the active map learns (text ↦ k)
    simp only [ht, if_true]
    refine ⟨fun h t hg => ?_, fun h hg t' ht' hT => ?_, fun i t hp => ?_⟩
    · rw [TitleMap.get_insert] at hg
      by_cases hx : e.text = h
      · simp only [hx, if_true, Option.some.injEq] at hg
        subst hg
        exact ⟨Nat.lt_succ_self _, ⟨e, hk, ht, hx⟩, fun t' h1 h2 => by omega⟩
      · simp only [hx, if_false] at hg
        obtain ⟨h1, h2, h3⟩ := inv.act_some h t hg
        refine ⟨by omega, h2, fun t' h4 h5 hT => ?_⟩
        have := titleAt_lt_succ e hk h5 hT (fun hc => hx hc.2)
        exact h3 t' h4 this hT
    · rw [TitleMap.get_insert] at hg
      by_cases hx : e.text = h
      · simp [hx] at hg
      · simp only [hx, if_false] at hg
        have := titleAt_lt_succ e hk ht' hT (fun hc => hx hc.2)
        exact inv.act_none h hg t' this hT
    · obtain ⟨h1, h2⟩ := inv.par i t hp
      exact ⟨by omega, h2⟩
  · have htf : e.isTitle = false := by simpa using ht
    simp only [htf, Bool.false_eq_true, if_false]
    -- the active map is unchanged; `k` is not a title, so "below k" and "below k+1" agree
    have hact_some : ∀ h t, st.active.get h = some t →
        t < k + 1 ∧ TitleAt els t h ∧ ∀ t', t < t' → t' < k + 1 → ¬ TitleAt els t' h := by
      intro h t hg
      obtain ⟨h1, h2, h3⟩ := inv.act_some h t hg
      refine ⟨by omega, h2, fun t' h4 h5 hT => ?_⟩
      exact h3 t' h4 (titleAt_lt_succ e hk h5 hT (fun hc => by simp [htf] at hc)) hT
    have hact_none : ∀ h, st.active.get h = none → ∀ t', t' < k + 1 → ¬ TitleAt els t' h := by
      intro h hg t' ht' hT
      exact inv.act_none h hg t' (titleAt_lt_succ e hk ht' hT (fun hc => by simp [htf] at hc)) hT
    have hpar_old : ∀ i t, st.parent[i]? = some (some t) →
        i < k + 1 ∧ t < i ∧ ∃ e h, els[i]? = some e ∧ e.isTitle = false ∧
          e.md.parentHeading = some h ∧ TitleAt els t h ∧
          ∀ t', t < t' → t' < i → ¬ TitleAt els t' h := by
      intro i t hp
      obtain ⟨h1, h2⟩ := inv.par i t hp
      exact ⟨by omega, h2⟩
    cases hph : e.md.parentHeading with
    | none => exact ⟨hact_some, hact_none, hpar_old⟩
    | some h =>
      simp only
      cases hg : st.active.get h with
      | none => exact ⟨hact_some, hact_none, hpar_old⟩
      | some t =>
        refine ⟨hact_some, hact_none, fun i t' hp => ?_⟩
        simp only at hp
        by_cases hik : i = k
        · subst hik
          obtain ⟨h1, h2, h3⟩ := inv.act_some h t hg
          have : t' = t := by
            rw [List.getElem?_set] at hp
            simp only [if_true] at hp
            split at hp
            · simp at hp; exact hp.symm
            · cases hp
          subst this
          exact ⟨Nat.lt_succ_self _, h1, e, h, hk, htf, hph, h2, h3⟩
        · have : st.parent[i]? = some (some t') := by
            rw [List.getElem?_set] at hp
            simpa [Ne.symm hik] using hp
          exact hpar_old i t' this

theorem p2_fold (els : List Elem) (k : Nat) (r : List Elem) (st : Pass2)
    (hsuf : ∀ j e, r[j]? = some e → els[k + j]? = some e) (inv : P2Inv els k st) :
    P2Inv els (k + r.length) ((indexedFrom k r).foldl buildPass2Step st) := by
  induction r generalizing k st with
  | nil => simpa [indexedFrom] using inv
  | cons e r ih =>
    simp only [indexedFrom, List.foldl_cons, List.length_cons]
    have hk : els[k]? = some e := by simpa using hsuf 0 e (by simp)
    have := ih (k + 1) (buildPass2Step st (k, e))
      (fun j e' hj => by
        have := hsuf (j + 1) e' (by simpa using hj)
        rwa [show k + 1 + j = k + (j + 1) by omega])
      (p2_step els k e st hk inv)
    rwa [show k + 1 + r.length = k + (r.length + 1) by omega] at this

/-- the state the second pass starts from -/
def p2init (els : List Elem) : Pass2 :=
  ⟨[], List.replicate els.length none, List.replicate els.length []⟩

theorem build_parent_eq (els : List Elem) :
    (Graph.build els).parent = ((indexedFrom 0 els).foldl buildPass2Step (p2init els)).parent := by
  simp only [Graph.build, indexed_eq, p2init]

end OxiVerif.C14
