import OxiVerif.Lemmas.C01Filters
/-!
Helper lemmas for C01: the ASCII85 decoder (after the repair: `ascii85_group_value` is a checked
fold) never panics — for every byte content, length, white space, `z`, `<~ ~>` placement and limit.
-/
namespace OxiVerif.C01
open Outcome

theorem groupHorner_np : ∀ (g : List Nat) (v : Nat), (groupHorner v g).isPanic = false
  | [], v => rfl
  | c :: rest, v => by
    rw [groupHorner]
    split
    · exact groupHorner_np rest _
    · rfl

theorem groupValue_np (g : List Nat) : (groupValue g).isPanic = false := groupHorner_np g 0

theorem extendBounded_np (res bs : Bytes) (max : Nat) : (extendBounded res bs max).isPanic = false := by
  unfold extendBounded; split <;> rfl

theorem a85Tail_np (max : Nat) (group res : Bytes) : (a85Tail max group res).isPanic = false := by
  unfold a85Tail
  split
  · rfl
  · apply not_isPanic_bind _ _ (groupValue_np _)
    intro v _
    exact extendBounded_np _ _ _

theorem a85Loop_np (max : Nat) : ∀ (inp group res : Bytes), (a85Loop max inp group res).isPanic = false
  | [], group, res => by rw [a85Loop]; exact a85Tail_np max group res
  | c :: rest, group, res => by
    unfold a85Loop
    by_cases h1 : (c == 126) = true
    · rw [if_pos h1]
      split
      · exact a85Tail_np max group res
      · rfl
    · rw [if_neg h1]
      by_cases h2 : (c == 122 && group.isEmpty) = true
      · rw [if_pos h2]
        apply not_isPanic_bind _ _ (extendBounded_np _ _ _)
        intro res' _
        exact a85Loop_np max rest group res'
      · rw [if_neg h2]
        by_cases h3 : (decide (33 ≤ c) && decide (c ≤ 117)) = true
        · rw [if_pos h3]
          by_cases h5 : ((group ++ [c]).length == 5) = true
          · simp only [h5, if_true]
            apply not_isPanic_bind _ _ (groupValue_np _)
            intro v _
            apply not_isPanic_bind _ _ (extendBounded_np _ _ _)
            intro res' _
            exact a85Loop_np max rest [] res'
          · simp only [h5]
            exact a85Loop_np max rest (group ++ [c]) res
        · rw [if_neg h3]; rfl

theorem a85Decode_np (data : Bytes) (max : Nat) : (a85Decode data max).isPanic = false := by
  unfold a85Decode
  simp only
  split <;> exact a85Loop_np max _ [] []

end OxiVerif.C01
