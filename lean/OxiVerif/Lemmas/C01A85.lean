import OxiVerif.Lemmas.C01Filters
/-!
Helper lemmas for C01: the ASCII85 decoder never panics on data without the characters `s t u`
(every group value then fits `u32`), for every length, white space, `z`, `<~ ~>` placement and limit.
-/
namespace OxiVerif.C01
open Outcome

/-- a five-character group whose first character is below `s` fits `u32` -/
theorem gsum_small (a b c d e : Nat) (ha : a < 115) (hb : b ≤ 117) (hc : c ≤ 117) (hd : d ≤ 117)
    (he : e ≤ 117) : gsum 0 [a, b, c, d, e] < 2 ^ 32 := by
  simp only [gsum, pow85]; omega

theorem groupValue_small (a b c d e : Nat) (ha : a < 115) (hb : b ≤ 117) (hc : c ≤ 117) (hd : d ≤ 117)
    (he : e ≤ 117) : ∃ v, groupValue [a, b, c, d, e] = .ok v := by
  have h := gsum_small a b c d e ha hb hc hd he
  have := (groupSum_spec [a, b, c, d, e] 0 0 (by decide)).2 (by simpa [U32] using h)
  exact ⟨_, by simpa [groupValue] using this⟩

theorem extendBounded_np (res bs : Bytes) (max : Nat) : (extendBounded res bs max).isPanic = false := by
  unfold extendBounded; split <;> rfl

def Small (l : Bytes) : Prop := ∀ b ∈ l, b < 115

/-- none of the characters `s`, `t`, `u` -/
def NoSTU (l : Bytes) : Prop := ∀ b ∈ l, b < 115 ∨ 117 < b

theorem a85Tail_np (max : Nat) (group res : Bytes) (hg : Small group) (hl : group.length < 5) :
    (a85Tail max group res).isPanic = false := by
  unfold a85Tail
  split
  · rfl
  · match group, hg, hl with
    | [], _, _ => simp at *
    | [a], hg, _ =>
      obtain ⟨v, hv⟩ := groupValue_small a 117 117 117 117 (hg a (by simp)) (by omega) (by omega) (by omega) (by omega)
      have : [a] ++ List.replicate (5 - [a].length) 117 = [a, 117, 117, 117, 117] := rfl
      rw [this]; dsimp only; rw [hv, Outcome.bind_ok]; exact extendBounded_np _ _ _
    | [a, b], hg, _ =>
      have hb := hg b (by simp)
      obtain ⟨v, hv⟩ := groupValue_small a b 117 117 117 (hg a (by simp)) (by omega) (by omega) (by omega) (by omega)
      have : [a, b] ++ List.replicate (5 - [a, b].length) 117 = [a, b, 117, 117, 117] := rfl
      rw [this]; dsimp only; rw [hv, Outcome.bind_ok]; exact extendBounded_np _ _ _
    | [a, b, c], hg, _ =>
      have hb := hg b (by simp)
      have hc := hg c (by simp)
      obtain ⟨v, hv⟩ := groupValue_small a b c 117 117 (hg a (by simp)) (by omega) (by omega) (by omega) (by omega)
      have : [a, b, c] ++ List.replicate (5 - [a, b, c].length) 117 = [a, b, c, 117, 117] := rfl
      rw [this]; dsimp only; rw [hv, Outcome.bind_ok]; exact extendBounded_np _ _ _
    | [a, b, c, d], hg, _ =>
      have hb := hg b (by simp)
      have hc := hg c (by simp)
      have hd := hg d (by simp)
      obtain ⟨v, hv⟩ := groupValue_small a b c d 117 (hg a (by simp)) (by omega) (by omega) (by omega) (by omega)
      have : [a, b, c, d] ++ List.replicate (5 - [a, b, c, d].length) 117 = [a, b, c, d, 117] := rfl
      rw [this]; dsimp only; rw [hv, Outcome.bind_ok]; exact extendBounded_np _ _ _
    | _ :: _ :: _ :: _ :: _ :: _, _, hl => simp at hl; omega

theorem a85Loop_np (max : Nat) : ∀ (inp group res : Bytes), NoSTU inp → Small group → group.length < 5 →
    (a85Loop max inp group res).isPanic = false
  | [], group, res, _, hg, hl => by rw [a85Loop]; exact a85Tail_np max group res hg hl
  | c :: rest, group, res, hi, hg, hl => by
    have hrest : NoSTU rest := fun b hb => hi b (List.mem_cons_of_mem _ hb)
    have hc : c < 115 ∨ 117 < c := hi c (by simp)
    unfold a85Loop
    by_cases h1 : (c == 126) = true
    · rw [if_pos h1]
      split
      · exact a85Tail_np max group res hg hl
      · rfl
    · rw [if_neg h1]
      by_cases h2 : (c == 122 && group.isEmpty) = true
      · rw [if_pos h2]
        apply not_isPanic_bind _ _ (extendBounded_np _ _ _)
        intro res' _
        exact a85Loop_np max rest group res' hrest hg hl
      · rw [if_neg h2]
        by_cases h3 : (decide (33 ≤ c) && decide (c ≤ 117)) = true
        · rw [if_pos h3]
          have hg' : Small (group ++ [c]) := by
            intro b hb
            rcases List.mem_append.mp hb with h | h
            · exact hg b h
            · have : b = c := by simpa using h
              simp only [Bool.and_eq_true, decide_eq_true_eq] at h3
              omega
          by_cases h5 : ((group ++ [c]).length == 5) = true
          · simp only [h5, if_true]
            have hlen : (group ++ [c]).length = 5 := by simpa using h5
            match hgc : group ++ [c], hg', hlen with
            | [a, b, x, d, e], hs, _ =>
              obtain ⟨v, hv⟩ := groupValue_small a b x d e (hs a (by simp))
                (by have := hs b (by simp); omega) (by have := hs x (by simp); omega)
                (by have := hs d (by simp); omega) (by have := hs e (by simp); omega)
              rw [hv, Outcome.bind_ok]
              apply not_isPanic_bind _ _ (extendBounded_np _ _ _)
              intro res' _
              exact a85Loop_np max rest [] res' hrest (fun _ h => by cases h) (by simp)
          · simp only [h5]
            have hlt : (group ++ [c]).length < 5 := by
              have : (group ++ [c]).length ≠ 5 := by simpa using h5
              simp at this ⊢; omega
            exact a85Loop_np max rest (group ++ [c]) res hrest hg' hlt
        · rw [if_neg h3]; rfl

theorem a85Decode_np (data : Bytes) (max : Nat) (h : NoSTU data) : (a85Decode data max).isPanic = false := by
  have hcs : NoSTU (data.filter (fun b => !isWs b)) := fun b hb => h b (List.mem_filter.mp hb).1
  unfold a85Decode
  simp only
  split
  · rename_i rest heq
    rw [heq] at hcs
    exact a85Loop_np max rest [] [] (fun b hb => hcs b (by simp [hb])) (fun _ h => by cases h) (by simp)
  · rename_i hd tl hne heq
    rw [heq] at hcs
    exact a85Loop_np max (60 :: tl) [] []
      (fun b hb => by
        rcases List.mem_cons.mp hb with rfl | hb
        · decide
        · exact hcs b (by simp [hb]))
      (fun _ h => by cases h) (by simp)
  · exact a85Loop_np max _ [] [] hcs (fun _ h => by cases h) (by simp)

end OxiVerif.C01
