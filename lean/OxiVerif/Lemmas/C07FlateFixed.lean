import OxiVerif.Lemmas.C07Flate
import OxiVerif.Lemmas.C07LzwBits
import OxiVerif.Lemmas.C07FlateTable
/-!
C07 helper lemmas, Flate with one fixed-Huffman block of literals: the Lean inflate
(Model/C07Inflate.lean) inverts `zlibFixed` (Spec/C07Codecs.lean) for every byte string — header bits,
canonical-code walk through the fixed literal/length table (8- and 9-bit literals, 7-bit end-of-block),
LSB-first bit packing, byte alignment, Adler-32.
-/
namespace OxiVerif.Inflate
open OxiVerif.Codec OxiVerif.Flt

/-! ### the LSB-first reader -/

/-- bits of a byte, least significant first -/
def bitsLE (b : Nat) : List Bool := (byteBits b).reverse

def streamLE (r : BR) : List Bool := (r.data.flatMap bitsLE).drop r.bit

def BR.WF (r : BR) : Prop := r.bit < 8 ∧ Bytes r.data

theorem bitsLE_length (b : Nat) : (bitsLE b).length = 8 := by simp [bitsLE, byteBits]

theorem bitsLE_explicit (b : Nat) : bitsLE b =
    [b / 1 % 2 == 1, b / 2 % 2 == 1, b / 4 % 2 == 1, b / 8 % 2 == 1, b / 16 % 2 == 1, b / 32 % 2 == 1,
     b / 64 % 2 == 1, b / 128 % 2 == 1] := by
  simp [bitsLE, byteBits, codeBits]

theorem streamLE_cons (b : Nat) (tl : List Nat) (k : Nat) (hk : k ≤ 8) :
    streamLE ⟨b :: tl, k⟩ = (bitsLE b).drop k ++ tl.flatMap bitsLE := by
  simp only [streamLE, List.flatMap_cons]
  rw [List.drop_append_of_le_length (by rw [bitsLE_length]; exact hk)]

theorem bitsLE_drop (b k : Nat) (hk : k < 8) :
    (bitsLE b).drop k = (b / 2 ^ k % 2 == 1) :: (bitsLE b).drop (k + 1) := by
  rw [bitsLE_explicit]
  have hcases : k = 0 ∨ k = 1 ∨ k = 2 ∨ k = 3 ∨ k = 4 ∨ k = 5 ∨ k = 6 ∨ k = 7 := by omega
  rcases hcases with rfl | rfl | rfl | rfl | rfl | rfl | rfl | rfl <;> rfl

theorem readBit_spec (r : BR) (x : Bool) (rest : List Bool) (hwf : r.WF) (hs : streamLE r = x :: rest) :
    ∃ r', r.readBit = some ((if x then 1 else 0), r') ∧ r'.WF ∧ streamLE r' = rest := by
  obtain ⟨hk, hb⟩ := hwf
  obtain ⟨data, k⟩ := r
  simp only at hk hb
  cases data with
  | nil => simp [streamLE] at hs
  | cons b tl =>
    rw [streamLE_cons _ _ _ (by omega), bitsLE_drop b k hk] at hs
    simp only [List.cons_append, List.cons.injEq] at hs
    obtain ⟨hx, hrest⟩ := hs
    have htl : Bytes tl := fun y hy => hb y (by simp [hy])
    have hval : b / 2 ^ k % 2 = (if x then 1 else 0) := by
      rw [← hx]
      have : b / 2 ^ k % 2 < 2 := Nat.mod_lt _ (by omega)
      by_cases h1 : b / 2 ^ k % 2 = 1
      · simp [h1]
      · have : b / 2 ^ k % 2 = 0 := by omega
        simp [this]
    simp only [BR.readBit, hval]
    by_cases h7 : k ≥ 7
    · refine ⟨⟨tl, 0⟩, by simp [h7], ⟨by simp, htl⟩, ?_⟩
      have : (bitsLE b).drop (k + 1) = [] := List.drop_of_length_le (by rw [bitsLE_length]; omega)
      rw [this, List.nil_append] at hrest
      simp only [streamLE, List.drop_zero]; exact hrest
    · refine ⟨⟨b :: tl, k + 1⟩, by simp [h7], ⟨by simp; omega, hb⟩, ?_⟩
      rw [streamLE_cons _ _ _ (by omega)]; exact hrest

/-- the three header bits of a final fixed-Huffman block -/
theorem readHdrFixed (r : BR) (rest : List Bool) (hwf : r.WF) (hs : streamLE r = true :: true :: false :: rest) :
    ∃ r', readBitsLE 3 r = some (3, r') ∧ r'.WF ∧ streamLE r' = rest := by
  obtain ⟨r1, h1, w1, s1⟩ := readBit_spec r _ _ hwf hs
  obtain ⟨r2, h2, w2, s2⟩ := readBit_spec r1 _ _ w1 s1
  obtain ⟨r3, h3, w3, s3⟩ := readBit_spec r2 _ _ w2 s2
  exact ⟨r3, by simp [readBitsLE, h1, h2, h3], w3, s3⟩

/-! ### walking the fixed literal/length code -/

theorem decodeSymGo_step (h : Huff) (fuel len code first index : Nat) (r : BR) (x : Bool) (rest : List Bool)
    (hwf : r.WF) (hs : streamLE r = x :: rest) :
    ∃ r', r'.WF ∧ streamLE r' = rest ∧
      decodeSymGo h (fuel + 1) len code first index r =
        (if code + (if x then 1 else 0) < first + h.count.getD len 0 then
          some (h.symbol.getD (index + (code + (if x then 1 else 0) - first)) 0, r')
        else decodeSymGo h fuel (len + 1) ((code + (if x then 1 else 0)) * 2) ((first + h.count.getD len 0) * 2)
          (index + h.count.getD len 0) r') := by
  obtain ⟨r', hr, hw', hs'⟩ := readBit_spec r x rest hwf hs
  exact ⟨r', hw', hs', by simp [decodeSymGo, hr]⟩

def bit (x : Bool) : Nat := if x then 1 else 0

theorem cnt (l : Nat) : fixedLit.count.getD l 0 =
    (#[0, 0, 0, 0, 0, 0, 0, 24, 152, 112, 0, 0, 0, 0, 0, 0] : Array Nat).getD l 0 := by rw [fixedLit_count]

/-- seven code bits: either the end-of-block/length symbols (value < 24) or the walk goes on with
`first = 48`, `index = 24` -/
theorem decodeSym_seven (r : BR) (x1 x2 x3 x4 x5 x6 x7 : Bool) (rest : List Bool) (hwf : r.WF)
    (hs : streamLE r = x1 :: x2 :: x3 :: x4 :: x5 :: x6 :: x7 :: rest) :
    ∃ r', r'.WF ∧ streamLE r' = rest ∧
      decodeSym fixedLit r =
        (if 64 * bit x1 + 32 * bit x2 + 16 * bit x3 + 8 * bit x4 + 4 * bit x5 + 2 * bit x6 + bit x7 < 24 then
          some (fixedLit.symbol.getD (64 * bit x1 + 32 * bit x2 + 16 * bit x3 + 8 * bit x4 + 4 * bit x5 + 2 * bit x6 + bit x7) 0, r')
        else decodeSymGo fixedLit 8 8
          ((64 * bit x1 + 32 * bit x2 + 16 * bit x3 + 8 * bit x4 + 4 * bit x5 + 2 * bit x6 + bit x7) * 2) 48 24 r') := by
  unfold decodeSym
  obtain ⟨r1, w1, s1, e1⟩ := decodeSymGo_step fixedLit 14 1 0 0 0 r x1 _ hwf hs
  obtain ⟨r2, w2, s2, e2⟩ := decodeSymGo_step fixedLit 13 2 ((0 + bit x1) * 2) 0 0 r1 x2 _ w1 s1
  obtain ⟨r3, w3, s3, e3⟩ := decodeSymGo_step fixedLit 12 3 (((0 + bit x1) * 2 + bit x2) * 2) 0 0 r2 x3 _ w2 s2
  obtain ⟨r4, w4, s4, e4⟩ := decodeSymGo_step fixedLit 11 4 ((((0 + bit x1) * 2 + bit x2) * 2 + bit x3) * 2) 0 0 r3 x4 _ w3 s3
  obtain ⟨r5, w5, s5, e5⟩ := decodeSymGo_step fixedLit 10 5
    (((((0 + bit x1) * 2 + bit x2) * 2 + bit x3) * 2 + bit x4) * 2) 0 0 r4 x5 _ w4 s4
  obtain ⟨r6, w6, s6, e6⟩ := decodeSymGo_step fixedLit 9 6
    ((((((0 + bit x1) * 2 + bit x2) * 2 + bit x3) * 2 + bit x4) * 2 + bit x5) * 2) 0 0 r5 x6 _ w5 s5
  obtain ⟨r7, w7, s7, e7⟩ := decodeSymGo_step fixedLit 8 7
    (((((((0 + bit x1) * 2 + bit x2) * 2 + bit x3) * 2 + bit x4) * 2 + bit x5) * 2 + bit x6) * 2) 0 0 r6 x7 _ w6 s6
  refine ⟨r7, w7, s7, ?_⟩
  simp only [cnt, bit] at e1 e2 e3 e4 e5 e6 e7 ⊢
  simp only [show ((#[0, 0, 0, 0, 0, 0, 0, 24, 152, 112, 0, 0, 0, 0, 0, 0] : Array Nat).getD 1 0) = 0 from rfl,
    show ((#[0, 0, 0, 0, 0, 0, 0, 24, 152, 112, 0, 0, 0, 0, 0, 0] : Array Nat).getD 2 0) = 0 from rfl,
    show ((#[0, 0, 0, 0, 0, 0, 0, 24, 152, 112, 0, 0, 0, 0, 0, 0] : Array Nat).getD 3 0) = 0 from rfl,
    show ((#[0, 0, 0, 0, 0, 0, 0, 24, 152, 112, 0, 0, 0, 0, 0, 0] : Array Nat).getD 4 0) = 0 from rfl,
    show ((#[0, 0, 0, 0, 0, 0, 0, 24, 152, 112, 0, 0, 0, 0, 0, 0] : Array Nat).getD 5 0) = 0 from rfl,
    show ((#[0, 0, 0, 0, 0, 0, 0, 24, 152, 112, 0, 0, 0, 0, 0, 0] : Array Nat).getD 6 0) = 0 from rfl,
    show ((#[0, 0, 0, 0, 0, 0, 0, 24, 152, 112, 0, 0, 0, 0, 0, 0] : Array Nat).getD 7 0) = 24 from rfl,
    Nat.add_zero, Nat.zero_add, Nat.zero_mul, Nat.not_lt_zero, if_false] at e1 e2 e3 e4 e5 e6 e7
  rw [e1, e2, e3, e4, e5, e6, e7]
  have hv : ((((((if x1 = true then 1 else 0) * 2 + if x2 = true then 1 else 0) * 2 + if x3 = true then 1 else 0) * 2 +
      if x4 = true then 1 else 0) * 2 + if x5 = true then 1 else 0) * 2 + if x6 = true then 1 else 0) * 2 +
      (if x7 = true then 1 else 0) =
      64 * (if x1 = true then 1 else 0) + 32 * (if x2 = true then 1 else 0) + 16 * (if x3 = true then 1 else 0) +
      8 * (if x4 = true then 1 else 0) + 4 * (if x5 = true then 1 else 0) + 2 * (if x6 = true then 1 else 0) +
      (if x7 = true then 1 else 0) := by omega
  rw [hv]
  simp

theorem bit_beq (n : Nat) (h : n < 2) : bit (n == 1) = n := by
  unfold bit
  by_cases h1 : n = 1
  · simp [h1]
  · have : n = 0 := by omega
    simp [this]

theorem codeBits8 (c : Nat) : codeBits 8 c =
    [c / 128 % 2 == 1, c / 64 % 2 == 1, c / 32 % 2 == 1, c / 16 % 2 == 1, c / 8 % 2 == 1, c / 4 % 2 == 1,
     c / 2 % 2 == 1, c / 1 % 2 == 1] := by
  simp [codeBits]

theorem codeBits9 (c : Nat) : codeBits 9 c =
    [c / 256 % 2 == 1, c / 128 % 2 == 1, c / 64 % 2 == 1, c / 32 % 2 == 1, c / 16 % 2 == 1, c / 8 % 2 == 1,
     c / 4 % 2 == 1, c / 2 % 2 == 1, c / 1 % 2 == 1] := by
  simp [codeBits]

/-- an 8-bit literal (0 … 143) -/
theorem decodeSym_lit8 (r : BR) (b : Nat) (hb : b < 144) (rest : List Bool) (hwf : r.WF)
    (hs : streamLE r = codeBits 8 (48 + b) ++ rest) :
    ∃ r', decodeSym fixedLit r = some (b, r') ∧ r'.WF ∧ streamLE r' = rest := by
  rw [codeBits8] at hs
  simp only [List.cons_append, List.nil_append] at hs
  obtain ⟨r7, w7, s7, e7⟩ := decodeSym_seven r _ _ _ _ _ _ _ _ hwf hs
  simp only [bit_beq _ (Nat.mod_lt _ (by omega : 0 < 2))] at e7
  have hv7 : 64 * ((48 + b) / 128 % 2) + 32 * ((48 + b) / 64 % 2) + 16 * ((48 + b) / 32 % 2) + 8 * ((48 + b) / 16 % 2) +
      4 * ((48 + b) / 8 % 2) + 2 * ((48 + b) / 4 % 2) + (48 + b) / 2 % 2 = (48 + b) / 2 := by omega
  rw [hv7, if_neg (by omega)] at e7
  obtain ⟨r8, w8, s8, e8⟩ := decodeSymGo_step fixedLit 7 8 ((48 + b) / 2 * 2) 48 24 r7 _ rest w7 s7
  refine ⟨r8, ?_, w8, s8⟩
  rw [e7, e8]
  have hbit : (if ((48 + b) / 1 % 2 == 1) = true then 1 else 0) = (48 + b) % 2 := by
    have := bit_beq ((48 + b) / 1 % 2) (Nat.mod_lt _ (by omega))
    unfold bit at this
    rw [this, Nat.div_one]
  rw [hbit]
  have hc : fixedLit.count.getD 8 0 = 152 := by rw [fixedLit_count]; rfl
  rw [hc, if_pos (by omega)]
  have hidx : 24 + ((48 + b) / 2 * 2 + (48 + b) % 2 - 48) = 24 + b := by omega
  rw [hidx, fixedLit_sym8 b hb]

/-- a 9-bit literal (144 … 255) -/
theorem decodeSym_lit9 (r : BR) (b : Nat) (hb1 : 144 ≤ b) (hb2 : b < 256) (rest : List Bool) (hwf : r.WF)
    (hs : streamLE r = codeBits 9 (256 + b) ++ rest) :
    ∃ r', decodeSym fixedLit r = some (b, r') ∧ r'.WF ∧ streamLE r' = rest := by
  rw [codeBits9] at hs
  simp only [List.cons_append, List.nil_append] at hs
  have hc8 : fixedLit.count.getD 8 0 = 152 := by rw [fixedLit_count]; rfl
  have hc9 : fixedLit.count.getD 9 0 = 112 := by rw [fixedLit_count]; rfl
  obtain ⟨r7, w7, s7, e7⟩ := decodeSym_seven r _ _ _ _ _ _ _ _ hwf hs
  simp only [bit_beq _ (Nat.mod_lt _ (by omega : 0 < 2))] at e7
  have hv7 : 64 * ((256 + b) / 256 % 2) + 32 * ((256 + b) / 128 % 2) + 16 * ((256 + b) / 64 % 2) +
      8 * ((256 + b) / 32 % 2) + 4 * ((256 + b) / 16 % 2) + 2 * ((256 + b) / 8 % 2) + (256 + b) / 4 % 2 = (256 + b) / 4 := by
    omega
  rw [hv7, if_neg (by omega)] at e7
  obtain ⟨r8, w8, s8, e8⟩ := decodeSymGo_step fixedLit 7 8 ((256 + b) / 4 * 2) 48 24 r7 _ _ w7 s7
  have hbit8 : (if ((256 + b) / 2 % 2 == 1) = true then 1 else 0) = (256 + b) / 2 % 2 := by
    have := bit_beq ((256 + b) / 2 % 2) (Nat.mod_lt _ (by omega))
    unfold bit at this; exact this
  rw [hbit8, hc8, if_neg (by omega)] at e8
  obtain ⟨r9, w9, s9, e9⟩ := decodeSymGo_step fixedLit 6 9 (((256 + b) / 4 * 2 + (256 + b) / 2 % 2) * 2) ((48 + 152) * 2)
    (24 + 152) r8 _ rest w8 s8
  have hbit9 : (if ((256 + b) / 1 % 2 == 1) = true then 1 else 0) = (256 + b) % 2 := by
    have := bit_beq ((256 + b) / 1 % 2) (Nat.mod_lt _ (by omega))
    unfold bit at this
    rw [this, Nat.div_one]
  rw [hbit9, hc9, if_pos (by omega)] at e9
  refine ⟨r9, ?_, w9, s9⟩
  rw [e7, e8, e9]
  have hidx : 24 + 152 + (((256 + b) / 4 * 2 + (256 + b) / 2 % 2) * 2 + (256 + b) % 2 - (48 + 152) * 2) = 176 + (b - 144) := by
    omega
  rw [hidx, fixedLit_sym9 (b - 144) (by omega)]
  have hb' : 144 + (b - 144) = b := by omega
  rw [hb']

/-- end of block -/
theorem decodeSym_eob (r : BR) (rest : List Bool) (hwf : r.WF) (hs : streamLE r = List.replicate 7 false ++ rest) :
    ∃ r', decodeSym fixedLit r = some (256, r') ∧ r'.WF ∧ streamLE r' = rest := by
  simp only [List.replicate, List.cons_append, List.nil_append] at hs
  obtain ⟨r7, w7, s7, e7⟩ := decodeSym_seven r _ _ _ _ _ _ _ _ hwf hs
  refine ⟨r7, ?_, w7, s7⟩
  have h0 : 64 * bit false + 32 * bit false + 16 * bit false + 8 * bit false + 4 * bit false + 2 * bit false +
      bit false = 0 := by simp [bit]
  rw [h0] at e7
  rw [e7, if_pos (by omega), fixedLit_sym_eob]

theorem codes_eob (lh dh : Huff) (fuel : Nat) (r r' : BR) (out : Array Nat) (sym : Nat) (hsym : sym = 256)
    (h : decodeSym lh r = some (sym, r')) : codes lh dh (fuel + 1) r out = some (out, r') := by
  rw [codes, h]
  simp only []
  rw [if_neg (by omega), if_pos hsym]

theorem codes_lit (lh dh : Huff) (fuel : Nat) (r r' : BR) (out : Array Nat) (b : Nat) (hb : b < 256)
    (h : decodeSym lh r = some (b, r')) : codes lh dh (fuel + 1) r out = codes lh dh fuel r' (out.push b) := by
  rw [codes, h]
  simp only []
  rw [if_pos hb]

/-- the literal loop of one fixed-Huffman block -/
theorem codes_literals : ∀ (data : List Nat) (fuel : Nat) (r : BR) (out : Array Nat) (rest : List Bool),
    Bytes data → data.length < fuel → r.WF →
    streamLE r = data.flatMap (fun b => codeBits (fixedLitCode b).2 (fixedLitCode b).1) ++ (List.replicate 7 false ++ rest) →
    ∃ r', codes fixedLit fixedDist fuel r out = some (out ++ data.toArray, r') ∧ r'.WF ∧ streamLE r' = rest := by
  intro data
  induction data with
  | nil =>
    intro fuel r out rest _ hf hwf hs
    obtain ⟨fuel, rfl⟩ : ∃ f, fuel = f + 1 := ⟨fuel - 1, by simp at hf; omega⟩
    simp only [List.flatMap_nil, List.nil_append] at hs
    obtain ⟨r', hd, hw', hs'⟩ := decodeSym_eob r rest hwf hs
    refine ⟨r', ?_, hw', hs'⟩
    rw [codes_eob _ _ _ _ _ _ _ rfl hd]
    simp
  | cons b tl ih =>
    intro fuel r out rest hb hf hwf hs
    obtain ⟨fuel, rfl⟩ : ∃ f, fuel = f + 1 := ⟨fuel - 1, by simp at hf; omega⟩
    rw [Bytes.cons] at hb
    simp only [List.flatMap_cons, List.append_assoc, List.length_cons] at hs hf
    have hstep : ∃ r1, decodeSym fixedLit r = some (b, r1) ∧ r1.WF ∧
        streamLE r1 = tl.flatMap (fun b => codeBits (fixedLitCode b).2 (fixedLitCode b).1) ++ (List.replicate 7 false ++ rest) := by
      by_cases h144 : b < 144
      · have hc : fixedLitCode b = (48 + b, 8) := by simp [fixedLitCode, h144]
        rw [hc] at hs
        exact decodeSym_lit8 r b h144 _ hwf hs
      · have hc : fixedLitCode b = (256 + b, 9) := by simp [fixedLitCode, h144]
        rw [hc] at hs
        exact decodeSym_lit9 r b (by omega) hb.1 _ hwf hs
    obtain ⟨r1, hd, hw1, hs1⟩ := hstep
    obtain ⟨r', hc, hw', hs'⟩ := ih fuel r1 (out.push b) rest hb.2 (by omega) hw1 hs1
    refine ⟨r', ?_, hw', hs'⟩
    rw [codes_lit _ _ _ _ _ _ _ hb.1 hd, hc]
    simp

/-! ### packing, alignment -/

theorem bitsLE_pack (chunk : List Bool) (h : chunk.length = 8) : bitsLE (bitsToByte chunk.reverse) = chunk := by
  unfold bitsLE byteBits
  have := codeBits_bitsToByte chunk.reverse
  rw [List.length_reverse, h] at this
  rw [this, List.reverse_reverse]

theorem packBitsLE_spec : ∀ (fuel : Nat) (bs : List Bool), bs.length < fuel →
    (∃ pad, pad < 8 ∧ (packBitsLE fuel bs).flatMap bitsLE = bs ++ List.replicate pad false) ∧
      Bytes (packBitsLE fuel bs) := by
  intro fuel
  induction fuel with
  | zero => intro bs h; omega
  | succ fuel ih =>
    intro bs hf
    simp only [packBitsLE]
    by_cases he : bs.isEmpty = true
    · have : bs = [] := by simpa using he
      subst this
      exact ⟨⟨0, by omega, by simp⟩, by simp [Bytes]⟩
    · simp only [he, Bool.false_eq_true, if_false]
      have hne : bs ≠ [] := by simpa using he
      have hchunk : (bs.take 8 ++ List.replicate (8 - (bs.take 8).length) false).length = 8 := by
        simp [List.length_take]; omega
      have hbyte := bitsLE_pack _ hchunk
      have hlt : bitsToByte (bs.take 8 ++ List.replicate (8 - (bs.take 8).length) false).reverse < 256 := by
        have := bitsToByte_lt (bs.take 8 ++ List.replicate (8 - (bs.take 8).length) false).reverse
        rw [List.length_reverse, hchunk] at this
        exact this
      by_cases h8 : bs.length ≥ 8
      · obtain ⟨⟨pad, hp8, hpad⟩, hb⟩ := ih (bs.drop 8) (by simp; omega)
        refine ⟨⟨pad, hp8, ?_⟩, ?_⟩
        · simp only [List.flatMap_cons, hbyte, hpad]
          have : (bs.take 8).length = 8 := by simp [List.length_take]; omega
          simp only [this, Nat.sub_self, List.replicate_zero, List.append_nil]
          rw [← List.append_assoc, List.take_append_drop]
        · rw [Bytes.cons]; exact ⟨hlt, hb⟩
      · have hdrop : bs.drop 8 = [] := List.drop_of_length_le (by omega)
        have htake : bs.take 8 = bs := List.take_of_length_le (by omega)
        have hnil : packBitsLE fuel ([] : List Bool) = [] := by cases fuel <;> simp [packBitsLE]
        have hpos : 0 < bs.length := by cases bs with | nil => exact absurd rfl hne | cons _ _ => simp
        refine ⟨⟨8 - bs.length, by omega, ?_⟩, ?_⟩
        · rw [htake] at hbyte
          simp only [List.flatMap_cons, hdrop, hnil, htake, hbyte]
          simp
        · rw [hdrop, hnil, Bytes.cons]; exact ⟨hlt, by simp [Bytes]⟩

theorem bitsLE_inj (x y : Nat) (hx : x < 256) (hy : y < 256) (h : bitsLE x = bitsLE y) : x = y := by
  have h2 := congrArg (fun l => bitsToByte l.reverse) h
  simp only [bitsLE, List.reverse_reverse, byteBits] at h2
  rw [bitsToByte_codeBits 8 x (by simpa using hx), bitsToByte_codeBits 8 y (by simpa using hy)] at h2
  exact h2

theorem flatMap_bitsLE_length (l : List Nat) : (l.flatMap bitsLE).length = 8 * l.length := by
  induction l with
  | nil => simp
  | cons x xs ih => simp [List.flatMap_cons, ih, bitsLE_length]; omega

theorem flatMap_bitsLE_inj : ∀ (a b : List Nat), Bytes a → Bytes b → a.flatMap bitsLE = b.flatMap bitsLE → a = b := by
  intro a
  induction a with
  | nil =>
    intro b _ _ h
    cases b with
    | nil => rfl
    | cons y ys =>
      have := congrArg List.length h
      rw [flatMap_bitsLE_length, flatMap_bitsLE_length] at this
      simp at this
  | cons x xs ih =>
    intro b ha hb h
    cases b with
    | nil =>
      have := congrArg List.length h
      rw [flatMap_bitsLE_length, flatMap_bitsLE_length] at this
      simp at this
    | cons y ys =>
      rw [Bytes.cons] at ha hb
      simp only [List.flatMap_cons] at h
      obtain ⟨h1, h2⟩ := List.append_inj h (by rw [bitsLE_length, bitsLE_length])
      rw [bitsLE_inj x y ha.1 hb.1 h1, ih ys ha.2 hb.2 h2]

/-- after the last code of the block the reader sits somewhere in the last packed byte; `align` takes it
to the bytes that follow -/
theorem align_after (r : BR) (hwf : r.WF) (p : Nat) (hp : p < 8) (suffix : List Nat) (hsuf : Bytes suffix)
    (hs : streamLE r = List.replicate p false ++ suffix.flatMap bitsLE) : r.align.data = suffix := by
  obtain ⟨hk, hb⟩ := hwf
  obtain ⟨data, k⟩ := r
  simp only at hk hb
  have hlen := congrArg List.length hs
  cases data with
  | nil =>
    simp only [streamLE, List.flatMap_nil, List.drop_nil, List.length_nil, List.length_append,
      List.length_replicate, flatMap_bitsLE_length] at hlen
    have : suffix = [] := by
      cases suffix with
      | nil => rfl
      | cons _ _ => simp at hlen
    subst this
    cases k <;> rfl
  | cons b tl =>
    have htl : Bytes tl := fun y hy => hb y (by simp [hy])
    rw [streamLE_cons _ _ _ (by omega)] at hs hlen
    simp only [List.length_append, List.length_drop, bitsLE_length, List.length_replicate,
      flatMap_bitsLE_length] at hlen
    cases k with
    | zero =>
      have hp0 : p = 0 := by omega
      subst hp0
      simp only [List.drop_zero, List.replicate_zero, List.nil_append] at hs
      have : (b :: tl).flatMap bitsLE = suffix.flatMap bitsLE := by simpa [List.flatMap_cons] using hs
      exact flatMap_bitsLE_inj _ _ hb hsuf this
    | succ k =>
      have hpk : p = 8 - (k + 1) := by omega
      obtain ⟨_, h2⟩ := List.append_inj hs (by simp [bitsLE_length]; omega)
      exact flatMap_bitsLE_inj _ _ htl hsuf h2

/-! ### assembling -/

theorem litBits_length_ge : ∀ data : List Nat,
    8 * data.length ≤ (data.flatMap (fun b => codeBits (fixedLitCode b).2 (fixedLitCode b).1)).length := by
  intro data
  induction data with
  | nil => simp
  | cons b tl ih =>
    simp only [List.flatMap_cons, List.length_append, codeBits_length, List.length_cons]
    have : 8 ≤ (fixedLitCode b).2 := by unfold fixedLitCode; split <;> simp
    omega

/-- **the Lean zlib decoder inverts the fixed-Huffman literal encoder**: every byte string -/
theorem zlibInflate_zlibFixed (data t : List Nat) (hb : Bytes data) (ht : Bytes t) :
    zlibInflate (zlibFixed data ++ t) = some data := by
  have ha := adler32_lt data
  unfold zlibFixed
  simp only
  generalize hA : adler32 data = A at ha
  obtain ⟨⟨pad, hpad8, hpad⟩, hpb⟩ := packBitsLE_spec ((fixedBits data).length + 1) (fixedBits data) (Nat.lt_succ_self _)
  generalize hpk : packBitsLE ((fixedBits data).length + 1) (fixedBits data) = packed at hpad hpb
  have hshape : [0x78, 0x01] ++ packed ++ [A / 16777216 % 256, A / 65536 % 256, A / 256 % 256, A % 256] ++ t =
      120 :: 1 :: (packed ++ (A / 16777216 % 256 :: A / 65536 % 256 :: A / 256 % 256 :: A % 256 :: t)) := by simp
  rw [hshape]
  have hsufB : Bytes (A / 16777216 % 256 :: A / 65536 % 256 :: A / 256 % 256 :: A % 256 :: t) := by
    simp only [Bytes.cons]
    exact ⟨Nat.mod_lt _ (by omega), Nat.mod_lt _ (by omega), Nat.mod_lt _ (by omega), Nat.mod_lt _ (by omega), ht⟩
  generalize hsuf : (A / 16777216 % 256 :: A / 65536 % 256 :: A / 256 % 256 :: A % 256 :: t) = suffix at hsufB
  unfold zlibInflate
  simp only
  rw [if_neg (by decide)]
  unfold inflateRaw
  -- the reader at the start of the deflate data
  have hwf0 : (BR.mk (packed ++ suffix) 0).WF := ⟨by simp, Bytes.append.mpr ⟨hpb, hsufB⟩⟩
  have hs0 : streamLE ⟨packed ++ suffix, 0⟩ =
      true :: true :: false ::
        (data.flatMap (fun b => codeBits (fixedLitCode b).2 (fixedLitCode b).1) ++
          (List.replicate 7 false ++ (List.replicate pad false ++ suffix.flatMap bitsLE))) := by
    simp only [streamLE, List.drop_zero, List.flatMap_append, hpad, fixedBits]
    simp
  obtain ⟨r1, hhdr, hw1, hs1⟩ := readHdrFixed _ _ hwf0 hs0
  -- fuel
  have hlen8 : 8 * data.length ≤ 8 * (packed ++ suffix).length := by
    have h1 := congrArg List.length hpad
    rw [flatMap_bitsLE_length] at h1
    have h2 := litBits_length_ge data
    simp only [fixedBits, List.length_append, List.length_replicate, List.length_cons, List.length_nil] at h1
    simp only [List.length_append]
    omega
  obtain ⟨r2, hcodes, hw2, hs2⟩ := codes_literals data (8 * (packed ++ suffix).length + 8) r1 #[]
    (List.replicate pad false ++ suffix.flatMap bitsLE) hb (by omega) hw1 hs1
  have hblocks : blocks (8 * (packed ++ suffix).length + 8) (8 * (packed ++ suffix).length + 8) ⟨packed ++ suffix, 0⟩ #[] =
      some (#[] ++ data.toArray, r2) := by
    obtain ⟨f, hf⟩ : ∃ f, 8 * (packed ++ suffix).length + 8 = f + 1 := ⟨8 * (packed ++ suffix).length + 7, by omega⟩
    rw [hf] at hcodes ⊢
    simp only [blocks, hhdr]
    simp only [show (3 : Nat) / 2 = 1 from rfl, show (1 : Nat) = 0 ↔ False from by simp, if_false, if_true]
    rw [← hf] at hcodes ⊢
    rw [hcodes]
  rw [hblocks]
  simp only
  rw [align_after r2 hw2 pad hpad8 suffix hsufB hs2, ← hsuf]
  simp only
  have hout : (#[] ++ data.toArray : Array Nat).toList = data := by simp
  rw [hout, hA, if_pos (by omega)]

end OxiVerif.Inflate
