import OxiVerif.Lemmas.C01Filters
/-!
Helper lemmas for C01: the visited-set measures of the `/Prev` walk and of `flatten_page_tree`.
-/
namespace OxiVerif.C01

/-! ### filters that lose at least one element -/

theorem filter_length_le' {α} (p q : α → Bool) (hqp : ∀ x, q x = true → p x = true) :
    ∀ l : List α, (l.filter q).length ≤ (l.filter p).length
  | [] => by simp
  | y :: ys => by
    have ih := filter_length_le' p q hqp ys
    cases hq : q y with
    | true => have hp := hqp y hq; simp [List.filter, hq, hp]; exact ih
    | false =>
      cases hp : p y with
      | true => simp [List.filter, hq, hp]; omega
      | false => simp [List.filter, hq, hp]; exact ih

theorem filter_length_lt' {α} (p q : α → Bool) (hqp : ∀ x, q x = true → p x = true)
    (x : α) (hp : p x = true) (hq : q x = false) :
    ∀ l : List α, x ∈ l → (l.filter q).length < (l.filter p).length
  | [], h => by cases h
  | y :: ys, h => by
    have hle := filter_length_le' p q hqp ys
    rcases List.mem_cons.mp h with rfl | hin
    · simp [List.filter, hq, hp]; omega
    · have ih := filter_length_lt' p q hqp x hp hq ys hin
      cases hqy : q y with
      | true => have hpy := hqp y hqy; simp [List.filter, hqy, hpy]; exact ih
      | false =>
        cases hpy : p y with
        | true => simp [List.filter, hqy, hpy]; omega
        | false => simp [List.filter, hqy, hpy]; exact ih

/-! ### `/Prev` walk -/

/-- number of sections whose offset has not been visited yet -/
def unvisited (sections : List (Nat × Option Nat)) (visited : List Nat) : Nat :=
  (sections.filter (fun s => !visited.contains s.1)).length

theorem unvisited_le (sections : List (Nat × Option Nat)) (visited : List Nat) :
    unvisited sections visited ≤ sections.length := List.length_filter_le _ _

theorem unvisited_step (sections : List (Nat × Option Nat)) (visited : List Nat) (off : Nat)
    (s : Nat × Option Nat) (hfind : sections.find? (fun s => s.1 == off) = some s)
    (hnv : visited.contains off = false) :
    unvisited sections (off :: visited) < unvisited sections visited := by
  have hmem : s ∈ sections := List.mem_of_find?_eq_some hfind
  have hs : s.1 = off := by
    have := List.find?_some hfind
    simpa using this
  unfold unvisited
  apply filter_length_lt' _ _ _ s _ _ sections hmem
  · intro x hx
    simp only [List.contains_cons, Bool.not_eq_true', Bool.or_eq_false_iff] at hx
    simpa using hx.2
  · simpa [hs] using hnv
  · simp [hs]

/-- the walk never runs out of fuel while `fuel` exceeds the number of unvisited sections, and the
chain it returns has at most one entry per section -/
theorem prevWalk_spec (sections : List (Nat × Option Nat)) :
    ∀ (fuel : Nat) (next : Option Nat) (visited : List Nat),
      unvisited sections visited < fuel →
      visited.length + unvisited sections visited ≤ sections.length →
      (prevWalk sections fuel next visited).fine = true ∧
      ∀ v, prevWalk sections fuel next visited = .ok v → v.length ≤ sections.length
  | 0, _, _, h, _ => by omega
  | fuel + 1, none, visited, _, hinv => by
    have e : prevWalk sections (fuel + 1) none visited = .ok visited.reverse := by simp [prevWalk]
    rw [e]
    refine ⟨rfl, fun v e => ?_⟩
    cases e; simp; omega
  | fuel + 1, some off, visited, h, hinv => by
    rw [prevWalk]
    cases hc : visited.contains off with
    | true =>
      simp only [if_true]
      refine ⟨rfl, fun v e => ?_⟩
      cases e; simp; omega
    | false =>
      simp only [Bool.false_eq_true, if_false]
      cases hf : sections.find? (fun s => s.1 == off) with
      | none => exact ⟨rfl, fun v e => by cases e⟩
      | some s =>
        have hlt := unvisited_step sections visited off s hf hc
        exact prevWalk_spec sections fuel s.2 (off :: visited) (by omega) (by simp; omega)

/-! ### `flatten_page_tree` -/

def weight : PNode → Nat
  | .pages ks => ks.length
  | _ => 0

/-- kids that may still be pushed: those of the nodes not yet visited -/
def pend (visited : List Nat) : List (Nat × PNode) → Nat
  | [] => 0
  | e :: g => (if visited.contains e.1 then 0 else weight e.2) + pend visited g

def mu (g : List (Nat × PNode)) (s : FState) : Nat := s.stack.length + pend s.visited g

theorem pend_mono (r : Nat) (visited : List Nat) : ∀ g, pend (r :: visited) g ≤ pend visited g
  | [] => by simp [pend]
  | e :: g => by
    have ih := pend_mono r visited g
    simp only [pend, List.contains_cons]
    cases h1 : (e.1 == r) <;> cases h2 : visited.contains e.1 <;> simp <;> omega

theorem pend_drop (r : Nat) (visited : List Nat) (n : PNode) :
    ∀ g, lookupNode g r = some n → visited.contains r = false →
      pend (r :: visited) g + weight n ≤ pend visited g
  | [], h, _ => by simp [lookupNode] at h
  | e :: g, h, hv => by
    have hm := pend_mono r visited g
    simp only [pend, List.contains_cons]
    cases h1 : (e.1 == r) with
    | true =>
      have he : e.1 = r := by simpa using h1
      have hn : n = e.2 := by
        simp only [lookupNode, List.find?, h1, Option.map_some, Option.some.injEq] at h
        exact h.symm
      rw [he, hv, hn]; simp; omega
    | false =>
      have h' : lookupNode g r = some n := by
        simp only [lookupNode, List.find?, h1] at h
        exact h
      have ih := pend_drop r visited n g h' hv
      cases h2 : visited.contains e.1 <;> simp <;> omega

/-- every iteration of the loop decreases the measure -/
theorem flattenStep_decreases (maxPages : Nat) (g : List (Nat × PNode)) (s s' : FState)
    (h : flattenStep maxPages g s = some s') : mu g s' < mu g s := by
  unfold flattenStep at h
  cases hst : s.stack with
  | nil => rw [hst] at h; simp at h
  | cons r st =>
    rw [hst] at h
    simp only at h
    by_cases hp : s.pages.length ≥ maxPages
    · rw [if_pos hp] at h; cases h
    · rw [if_neg hp] at h
      cases hc : s.visited.contains r with
      | true =>
        rw [hc] at h; simp only [if_true, Option.some.injEq] at h
        subst h; simp [mu, hst]
      | false =>
        rw [hc] at h; simp only [Bool.false_eq_true, if_false] at h
        have hm := pend_mono r s.visited g
        cases hl : lookupNode g r with
        | none =>
          rw [hl] at h; simp only [Option.some.injEq] at h
          subst h; simp [mu, hst]; omega
        | some n =>
          have hd := pend_drop r s.visited n g hl hc
          rw [hl] at h
          cases n with
          | page => simp only [Option.some.injEq] at h; subst h; simp [mu, hst]; omega
          | other => simp only [Option.some.injEq] at h; subst h; simp [mu, hst]; omega
          | pages kids =>
            simp only [Option.some.injEq] at h; subst h
            simp only [weight] at hd
            simp [mu, hst]; omega

/-- the page list never grows beyond the cap -/
theorem flattenStep_pages (maxPages : Nat) (g : List (Nat × PNode)) (s s' : FState)
    (h : flattenStep maxPages g s = some s') (hp : s.pages.length ≤ maxPages) :
    s'.pages.length ≤ maxPages := by
  unfold flattenStep at h
  cases hst : s.stack with
  | nil => rw [hst] at h; simp at h
  | cons r st =>
    rw [hst] at h
    simp only at h
    by_cases hge : s.pages.length ≥ maxPages
    · rw [if_pos hge] at h; cases h
    · rw [if_neg hge] at h
      cases hc : s.visited.contains r with
      | true =>
        rw [hc] at h; simp only [if_true, Option.some.injEq] at h
        subst h; exact hp
      | false =>
        rw [hc] at h; simp only [Bool.false_eq_true, if_false] at h
        cases hl : lookupNode g r with
        | none => rw [hl] at h; simp only [Option.some.injEq] at h; subst h; exact hp
        | some n =>
          rw [hl] at h
          cases n with
          | page => simp only [Option.some.injEq] at h; subst h; simp; omega
          | other => simp only [Option.some.injEq] at h; subst h; exact hp
          | pages kids => simp only [Option.some.injEq] at h; subst h; exact hp

theorem flattenRun_spec (maxPages : Nat) (g : List (Nat × PNode)) :
    ∀ (fuel : Nat) (s : FState), mu g s < fuel → s.pages.length ≤ maxPages →
      ∃ s', flattenRun maxPages g fuel s = some s' ∧ s'.pages.length ≤ maxPages
  | 0, _, h, _ => by omega
  | fuel + 1, s, h, hp => by
    rw [flattenRun]
    cases hs : flattenStep maxPages g s with
    | none => exact ⟨s, rfl, hp⟩
    | some s1 =>
      have hd := flattenStep_decreases maxPages g s s1 hs
      have hp1 := flattenStep_pages maxPages g s s1 hs hp
      exact flattenRun_spec maxPages g fuel s1 (by omega) hp1

end OxiVerif.C01
