import OxiVerif.Lemmas.C01Xrs
/-!
Helper lemmas for C01, classic cross-reference sections (`parse_traditional_xref_with_options` after
the repairs): the entry loop and the subsection loop end in a value or an error on every list of
lines — no panic (columns are taken with `get`, the object number with `checked_add`) and no hang
(EOF is an error; every other iteration consumes a line).
-/
namespace OxiVerif.C01
open Outcome

theorem entryLoop_spec (first count : Nat) : ∀ (lines : List Bytes) (i : Nat) (keys : List Nat),
    (entryLoop first count lines i keys).fine = true ∧
      ∀ r, entryLoop first count lines i keys = .ok r → r.1.length ≤ lines.length
  | [], i, keys => by
    refine ⟨rfl, ?_⟩
    intro r h
    simp only [entryLoop, Outcome.ok.injEq] at h
    subst h; simp
  | line :: rest, i, keys => by
    have ih := entryLoop_spec first count rest
    rw [entryLoop]
    by_cases hi : i ≥ count
    · rw [if_pos hi]
      refine ⟨rfl, ?_⟩
      intro r h
      simp only [Outcome.ok.injEq] at h
      subst h; simp
    rw [if_neg hi]
    dsimp only
    by_cases hc : ((trimB line).head? == some 37) = true
    · rw [if_pos hc]
      exact ⟨(ih i keys).1, fun r h => by have := (ih i keys).2 r h; simp; omega⟩
    rw [if_neg hc]
    by_cases ht : (trimB line == kwTrailer) = true
    · rw [if_pos ht]
      refine ⟨rfl, ?_⟩
      intro r h
      simp only [Outcome.ok.injEq] at h
      subst h; simp
    rw [if_neg ht]
    split
    · by_cases ho : first + i < U32
      · rw [if_pos ho]
        exact ⟨(ih _ _).1, fun r h => by have := (ih _ _).2 r h; simp; omega⟩
      · rw [if_neg ho]
        exact ⟨rfl, fun r h => by cases h⟩
    · exact ⟨(ih _ _).1, fun r h => by have := (ih _ _).2 r h; simp; omega⟩

theorem sectionLoop_fine : ∀ (fuel : Nat) (lines : List Bytes) (keys : List Nat),
    lines.length < fuel → (sectionLoop fuel lines keys).fine = true
  | 0, lines, keys, h => by omega
  | fuel + 1, [], keys, _ => rfl
  | fuel + 1, line :: rest, keys, h => by
    have hrest : rest.length < fuel := by simp at h; omega
    rw [sectionLoop]
    dsimp only
    split
    · exact sectionLoop_fine fuel rest keys hrest
    split
    · rfl
    split
    · rfl
    split
    · rfl
    split
    · split
      · rename_i first count _ _
        have hs := entryLoop_spec first count rest 0 keys
        cases he : entryLoop first count rest 0 keys with
        | ok r =>
          obtain ⟨rest', keys'⟩ := r
          have hl : rest'.length ≤ rest.length := hs.2 _ he
          simp only [Outcome.bind_ok]
          rw [if_pos hl]
          exact sectionLoop_fine fuel rest' keys' (by omega)
        | err => rfl
        | panic k => have := hs.1; rw [he] at this; cases this
        | diverge => have := hs.1; rw [he] at this; cases this
      · rfl
    · rfl

end OxiVerif.C01
