import OxiVerif.Lemmas.C01Section
/-!
Helper lemmas for C01, object parser after the repair: the nesting counter bounds the number of
nested `parse_from_token_nested` activations by a constant.
-/
namespace OxiVerif.C01
open Outcome

/-- bound on the activations below an object nested in `nd` containers -/
def depthBound (nd : Nat) : Nat := 2 * (MAX_OBJECT_NESTING - nd) + 2

theorem depthBound_ge (nd : Nat) : 2 ≤ depthBound nd := by unfold depthBound; omega

theorem depthBound_succ (nd : Nat) (h : ¬ nd ≥ MAX_OBJECT_NESTING) :
    depthBound (nd + 1) + 2 ≤ depthBound nd := by
  unfold depthBound; unfold MAX_OBJECT_NESTING at *; omega

theorem skipComments_not_comment (o : LexOpts) : ∀ (fuel : Nat) (s s' : PS) (t : Tok),
    skipComments o fuel s = (.ok t, s') → t ≠ .comment
  | 0, s, s', t, h => by simp [skipComments] at h
  | fuel + 1, s, s', t, h => by
    rw [skipComments] at h
    split at h
    · exact skipComments_not_comment o fuel _ s' t h
    · rename_i r hne
      intro ht
      subst ht
      exact hne s' (by rw [h])

theorem depth_bound (o : LexOpts) : ∀ fuel : Nat,
    (∀ nd s, (parseObj o fuel nd s).depth ≤ depthBound nd) ∧
    (∀ t nd s, (parseFromTok o fuel t nd s).depth ≤ depthBound nd ∧
      (t ≠ Tok.comment → (parseFromTok o fuel t nd s).depth + 1 ≤ depthBound nd)) ∧
    (∀ nd s acc, (parseArr o fuel nd s acc).depth ≤ depthBound nd) ∧
    (∀ nd s acc, (parseDictInner o fuel nd s acc).depth ≤ depthBound nd)
  | 0 => by
    refine ⟨?_, ?_, ?_, ?_⟩
    · intro nd s; simp [parseObj]
    · intro t nd s; have := depthBound_ge nd; simp [parseFromTok]; omega
    · intro nd s acc; simp [parseArr]
    · intro nd s acc; simp [parseDictInner]
  | fuel + 1 => by
    obtain ⟨ihO, ihT, ihA, ihD⟩ := depth_bound o fuel
    refine ⟨?_, ?_, ?_, ?_⟩
    · intro nd s
      rw [parseObj]
      split
      · exact (ihT _ _ _).1
      all_goals simp
    · intro t nd s
      have hB := depthBound_ge nd
      cases t with
      | arrStart =>
        rw [parseFromTok]
        try dsimp only
        by_cases h : nd ≥ MAX_OBJECT_NESTING
        · rw [if_pos h]; try dsimp only; omega
        · rw [if_neg h]; try dsimp only
          have := ihA (nd + 1) s []
          have := depthBound_succ nd h
          omega
      | dictStart =>
        rw [parseFromTok]
        try dsimp only
        by_cases h : nd ≥ MAX_OBJECT_NESTING
        · rw [if_pos h]; try dsimp only; omega
        · rw [if_neg h]; try dsimp only
          have h1 := ihD (nd + 1) s []
          have h2 := depthBound_succ nd h
          split <;> (try dsimp only; omega)
      | comment =>
        rw [parseFromTok]
        try dsimp only
        split
        · rename_i t' s' hsk
          have hne := skipComments_not_comment o fuel s s' t' hsk
          have := (ihT t' nd s').2 hne
          try dsimp only
          exact ⟨by omega, fun h => absurd rfl h⟩
        all_goals exact ⟨by try dsimp only; omega, fun h => absurd rfl h⟩
      | int i =>
        rw [parseFromTok]
        try dsimp only
        refine ⟨?_, fun _ => ?_⟩ <;> (repeat' split) <;> (try dsimp only; omega)
      | _ => simp [parseFromTok]; omega
    · intro nd s acc
      rw [parseArr]
      split
      · simp
      · exact ihA _ _ _
      · rename_i t s' _ _ _
        have h1 := (ihT t nd s').1
        try dsimp only
        split
        · rename_i v _
          have h2 := ihA nd (parseFromTok o fuel t nd s').st (v :: acc)
          try dsimp only; omega
        all_goals (try dsimp only; omega)
      all_goals simp
    · intro nd s acc
      rw [parseDictInner]
      split
      · simp
      · exact ihD _ _ _
      · rename_i t s' _ _ _
        split
        · rename_i key _
          have h1 := ihO nd s'
          try dsimp only
          split
          · rename_i v _
            have h2 := ihD nd (parseObj o fuel nd s').st ((key, v) :: acc)
            try dsimp only
            omega
          all_goals (try dsimp only; omega)
        · simp
      all_goals simp

/-- the recursion depth of the object parser is bounded by a constant -/
theorem parseTop_depth (o : LexOpts) (inp : Bytes) : (parseTop o inp).depth ≤ 2 * MAX_OBJECT_NESTING + 2 := by
  have := (depth_bound o (3 * inp.length + 8)).1 0 ⟨inp, [], 0, false⟩
  unfold depthBound at this
  unfold parseTop
  omega

end OxiVerif.C01
