import OxiVerif.Model.C18
/-!
Helper lemmas for C18: potential function of the flatten loop, loop invariants, forests
(first-child / next-sibling encoding of rose trees), the parent walk.
-/
namespace OxiVerif.C18

/-! ### potential of the flatten loop -/

theorem pending_cons_le (cls : Nat → Cls) (ids vis : List Nat) (n : Nat) :
    pending cls ids (n :: vis) ≤ pending cls ids vis := by
  induction ids with
  | nil => simp [pending]
  | cons i r ih =>
    simp only [pending]
    by_cases h1 : i ∈ vis
    · have : i ∈ n :: vis := List.mem_cons_of_mem _ h1
      simp [h1, this]; exact ih
    · by_cases h2 : i ∈ n :: vis
      · simp [h1, h2]; omega
      · simp [h1, h2]; exact ih

theorem pending_visit (cls : Nat → Cls) (ids vis : List Nat) (n : Nat)
    (hn : n ∈ ids) (hv : n ∉ vis) :
    pending cls ids (n :: vis) + kidsLen cls n ≤ pending cls ids vis := by
  induction ids with
  | nil => cases hn
  | cons i r ih =>
    simp only [pending]
    by_cases hi : i = n
    · subst hi
      have h2 : i ∈ i :: vis := List.mem_cons_self
      have := pending_cons_le cls r vis i
      simp [hv, h2]; omega
    · have hr : n ∈ r := by
        cases hn with
        | head => exact absurd rfl hi
        | tail _ h => exact h
      have := ih hr
      by_cases h1 : i ∈ vis
      · have h2 : i ∈ n :: vis := List.mem_cons_of_mem _ h1
        simp [h1, h2]; omega
      · have h2 : i ∉ n :: vis := by
          intro h; cases h with
          | head => exact hi rfl
          | tail _ h => exact h1 h
        simp [h1, h2]; omega

theorem kidsLen_inner {cls : Nat → Cls} {n : Nat} {ks : List Nat} (h : cls n = .inner ks) :
    kidsLen cls n = ks.length := by
  simp [kidsLen, h]

/-- the loop never runs out of fuel when the fuel covers the potential -/
theorem loop_isSome (cls : Nat → Cls) (ids : List Nat)
    (hin : ∀ n ks, cls n = .inner ks → n ∈ ids) :
    ∀ (fuel : Nat) (st vis out : List Nat), st.length + pending cls ids vis ≤ fuel →
      (loop cls fuel st vis out).isSome := by
  intro fuel
  induction fuel with
  | zero =>
    intro st vis out h
    cases st with
    | nil => simp [loop]
    | cons a r => simp at h
  | succ fuel ih =>
    intro st vis out h
    cases st with
    | nil => simp [loop]
    | cons n st =>
      simp only [loop]
      split
      · simp
      · split
        · apply ih; simp at h; omega
        · rename_i hv
          have hle := pending_cons_le cls ids vis n
          split
          · apply ih; simp at h; omega
          · rename_i ks hk
            have := pending_visit cls ids vis n (hin n ks hk) hv
            rw [kidsLen_inner hk] at this
            apply ih; simp at h ⊢; omega
          · apply ih; simp at h; omega

theorem loop_fuel_mono (cls : Nat → Cls) :
    ∀ (fuel : Nat) (st vis out r : List Nat), loop cls fuel st vis out = some r →
      ∀ k, loop cls (fuel + k) st vis out = some r := by
  intro fuel
  induction fuel with
  | zero =>
    intro st vis out r h k
    cases st with
    | nil => simp [loop] at h ⊢; exact h
    | cons a s => simp [loop] at h
  | succ fuel ih =>
    intro st vis out r h k
    cases st with
    | nil => simp [loop] at h ⊢; exact h
    | cons n st =>
      have e : fuel + 1 + k = (fuel + k) + 1 := by omega
      rw [e]
      simp only [loop] at h ⊢
      split
      · rename_i hm; simp [hm] at h; rw [h]
      · rename_i hm
        simp only [hm, if_false] at h
        split
        · rename_i hv; simp only [hv, if_true] at h; exact ih _ _ _ _ h k
        · rename_i hv
          simp only [hv, if_false] at h
          split <;> rename_i hc <;> simp only [hc] at h <;> exact ih _ _ _ _ h k

/-- two sufficiently fuelled runs agree -/
theorem loop_fuel_det (cls : Nat → Cls) (a b : Nat) (st vis out r s : List Nat)
    (h1 : loop cls a st vis out = some r) (h2 : loop cls b st vis out = some s) : r = s := by
  have e1 := loop_fuel_mono cls a st vis out r h1 b
  have e2 := loop_fuel_mono cls b st vis out s h2 a
  rw [Nat.add_comm] at e2
  rw [e1] at e2
  exact Option.some.inj e2

/-- invariants of the loop: the result extends `out`, has no duplicates, consists of `out` and
of leaf-class nodes that were not visited before, and is cut at MAX_PAGES -/
theorem loop_inv (cls : Nat → Cls) :
    ∀ (fuel : Nat) (st vis out r : List Nat), loop cls fuel st vis out = some r →
      out.Nodup → (∀ x ∈ out, x ∈ vis) →
      r.Nodup ∧ (∀ x ∈ r, x ∈ out ∨ (cls x = .leaf ∧ x ∉ vis ∧ x ∈ st ∨ cls x = .leaf ∧ x ∉ vis)) ∧
      r.length ≤ max out.length MAX_PAGES := by
  intro fuel
  induction fuel with
  | zero =>
    intro st vis out r h hn hs
    cases st with
    | nil =>
      simp [loop] at h; subst h
      exact ⟨hn, fun x hx => Or.inl hx, Nat.le_max_left _ _⟩
    | cons a s => simp [loop] at h
  | succ fuel ih =>
    intro st vis out r h hn hs
    cases st with
    | nil =>
      simp [loop] at h; subst h
      exact ⟨hn, fun x hx => Or.inl hx, Nat.le_max_left _ _⟩
    | cons n st =>
      simp only [loop] at h
      split at h
      · simp at h; subst h
        exact ⟨hn, fun x hx => Or.inl hx, Nat.le_max_left _ _⟩
      · rename_i hm
        split at h
        · obtain ⟨a, b, c⟩ := ih _ _ _ _ h hn hs
          refine ⟨a, ?_, c⟩
          intro x hx
          rcases b x hx with b | b | b
          · exact Or.inl b
          · exact Or.inr (Or.inr ⟨b.1, b.2.1⟩)
          · exact Or.inr (Or.inr b)
        · rename_i hv
          split at h
          · rename_i hc
            have hn' : (out ++ [n]).Nodup := by
              rw [List.nodup_append]
              refine ⟨hn, by simp, ?_⟩
              intro a ha b hb
              simp at hb; subst hb
              intro e; subst e; exact hv (hs _ ha)
            have hs' : ∀ x ∈ out ++ [n], x ∈ n :: vis := by
              intro x hx
              simp at hx
              rcases hx with hx | hx
              · exact List.mem_cons_of_mem _ (hs _ hx)
              · subst hx; exact List.mem_cons_self
            obtain ⟨a, b, c⟩ := ih _ _ _ _ h hn' hs'
            refine ⟨a, ?_, ?_⟩
            · intro x hx
              rcases b x hx with b | b | b
              · simp at b
                rcases b with b | b
                · exact Or.inl b
                · subst b; exact Or.inr (Or.inr ⟨hc, hv⟩)
              · exact Or.inr (Or.inr ⟨b.1, fun hh => b.2.1 (List.mem_cons_of_mem _ hh)⟩)
              · exact Or.inr (Or.inr ⟨b.1, fun hh => b.2 (List.mem_cons_of_mem _ hh)⟩)
            · simp at c hm ⊢
              omega
          · have hs' : ∀ x ∈ out, x ∈ n :: vis := fun x hx => List.mem_cons_of_mem _ (hs _ hx)
            obtain ⟨a, b, c⟩ := ih _ _ _ _ h hn hs'
            refine ⟨a, ?_, c⟩
            intro x hx
            rcases b x hx with b | b | b
            · exact Or.inl b
            · exact Or.inr (Or.inr ⟨b.1, fun hh => b.2.1 (List.mem_cons_of_mem _ hh)⟩)
            · exact Or.inr (Or.inr ⟨b.1, fun hh => b.2 (List.mem_cons_of_mem _ hh)⟩)
          · have hs' : ∀ x ∈ out, x ∈ n :: vis := fun x hx => List.mem_cons_of_mem _ (hs _ hx)
            obtain ⟨a, b, c⟩ := ih _ _ _ _ h hn hs'
            refine ⟨a, ?_, c⟩
            intro x hx
            rcases b x hx with b | b | b
            · exact Or.inl b
            · exact Or.inr (Or.inr ⟨b.1, fun hh => b.2.1 (List.mem_cons_of_mem _ hh)⟩)
            · exact Or.inr (Or.inr ⟨b.1, fun hh => b.2 (List.mem_cons_of_mem _ hh)⟩)

theorem loop_saturated (cls : Nat → Cls) (fuel : Nat) (st vis out r : List Nat)
    (hm : MAX_PAGES ≤ out.length) (h : loop cls fuel st vis out = some r) : r = out := by
  cases st with
  | nil => cases fuel <;> simp [loop] at h <;> exact h.symm
  | cons n st =>
    cases fuel with
    | zero => simp [loop] at h
    | succ fuel => simp [loop, hm] at h; exact h.symm

/-! ### reachability -/

/-- `n` is reachable from `roots` through the resolved /Kids of nodes the loop expands -/
inductive Reach (cls : Nat → Cls) (roots : List Nat) : Nat → Prop
  | root (n : Nat) : n ∈ roots → Reach cls roots n
  | kid (p : Nat) (ks : List Nat) (n : Nat) :
      Reach cls roots p → cls p = .inner ks → n ∈ ks → Reach cls roots n

theorem loop_reach (cls : Nat → Cls) (roots : List Nat) :
    ∀ (fuel : Nat) (st vis out r : List Nat), loop cls fuel st vis out = some r →
      (∀ x ∈ st, Reach cls roots x) → (∀ x ∈ out, Reach cls roots x) →
      ∀ x ∈ r, Reach cls roots x := by
  intro fuel
  induction fuel with
  | zero =>
    intro st vis out r h _ ho
    cases st with
    | nil => simp [loop] at h; subst h; exact ho
    | cons a s => simp [loop] at h
  | succ fuel ih =>
    intro st vis out r h hs ho
    cases st with
    | nil => simp [loop] at h; subst h; exact ho
    | cons n st =>
      have hn : Reach cls roots n := hs n List.mem_cons_self
      have hst : ∀ x ∈ st, Reach cls roots x := fun x hx => hs x (List.mem_cons_of_mem _ hx)
      simp only [loop] at h
      split at h
      · simp at h; subst h; exact ho
      · split at h
        · exact ih _ _ _ _ h hst ho
        · split at h
          · refine ih _ _ _ _ h hst ?_
            intro x hx
            simp at hx
            rcases hx with hx | hx
            · exact ho x hx
            · subst hx; exact hn
          · rename_i ks hc
            refine ih _ _ _ _ h ?_ ho
            intro x hx
            simp at hx
            rcases hx with hx | hx
            · exact Reach.kid n ks x hn hc hx
            · exact hst x hx
          · exact ih _ _ _ _ h hst ho

/-! ### forests -/

/-- rose forests in first-child / next-sibling form -/
inductive Forest where
  | nil
  | leaf (id : Nat) (rest : Forest)
  | node (id : Nat) (children rest : Forest)
  deriving Repr

namespace Forest

/-- ids of the top-level trees, in order -/
def roots : Forest → List Nat
  | nil => []
  | leaf id rest => id :: roots rest
  | node id _ rest => id :: roots rest

/-- the document-order (depth-first, left-to-right) list of leaves: the specification's page order -/
def leaves : Forest → List Nat
  | nil => []
  | leaf id rest => id :: leaves rest
  | node _ ch rest => leaves ch ++ leaves rest

/-- all ids in preorder -/
def ids : Forest → List Nat
  | nil => []
  | leaf id rest => id :: ids rest
  | node id ch rest => id :: (ids ch ++ ids rest)

def size : Forest → Nat
  | nil => 0
  | leaf _ rest => size rest + 1
  | node _ ch rest => size rest + size ch + 1

end Forest

/-- the object graph (as seen through `cls`) realises the forest: leaves are pages, inner
nodes are /Pages nodes whose /Kids are exactly the roots of their children forest -/
def Agrees (cls : Nat → Cls) : Forest → Prop
  | .nil => True
  | .leaf id rest => cls id = .leaf ∧ Agrees cls rest
  | .node id ch rest => cls id = .inner ch.roots ∧ Agrees cls ch ∧ Agrees cls rest

theorem loop_forest (cls : Nat → Cls) (f : Forest) :
    ∀ (fuel : Nat) (st vis out r : List Nat), Agrees cls f → f.ids.Nodup →
      (∀ x ∈ f.ids, x ∉ vis) → out.length + f.leaves.length ≤ MAX_PAGES →
      loop cls fuel st (f.ids.reverse ++ vis) (out ++ f.leaves) = some r →
      loop cls (fuel + f.size) (f.roots ++ st) vis out = some r := by
  induction f with
  | nil =>
    intro fuel st vis out r _ _ _ _ h
    simpa [Forest.ids, Forest.leaves, Forest.size, Forest.roots] using h
  | leaf id rest ih =>
    intro fuel st vis out r ha hn hv hm h
    simp only [Forest.ids, Forest.leaves, Forest.size, Forest.roots] at *
    obtain ⟨hc, har⟩ := ha
    have hn' := List.nodup_cons.mp hn
    have hidv : id ∉ vis := hv id List.mem_cons_self
    have e : fuel + (rest.size + 1) = (fuel + rest.size) + 1 := by omega
    rw [e]
    simp only [List.cons_append, loop]
    have hlt : ¬ MAX_PAGES ≤ out.length := by simp at hm; omega
    simp only [hlt, if_false, hidv, hc]
    apply ih fuel st (id :: vis) (out ++ [id]) r har hn'.2
    · intro x hx hx2
      cases hx2 with
      | head => exact hn'.1 hx
      | tail _ h2 => exact hv x (List.mem_cons_of_mem _ hx) h2
    · simp at hm ⊢; omega
    · simpa [List.reverse_cons, List.append_assoc] using h
  | node id ch rest ihc ihr =>
    intro fuel st vis out r ha hn hv hm h
    simp only [Forest.ids, Forest.leaves, Forest.size, Forest.roots] at *
    obtain ⟨hc, hac, har⟩ := ha
    have hn' := List.nodup_cons.mp hn
    have hnn := List.nodup_append.mp hn'.2
    have hidv : id ∉ vis := hv id List.mem_cons_self
    have e : fuel + (rest.size + ch.size + 1) = ((fuel + rest.size) + ch.size) + 1 := by omega
    rw [e]
    simp only [List.cons_append, loop]
    by_cases hsat : MAX_PAGES ≤ out.length
    · -- saturated: no leaves can remain
      simp only [hsat, if_true]
      have hl : ch.leaves ++ rest.leaves = [] := by
        have : (ch.leaves ++ rest.leaves).length = 0 := by omega
        exact List.eq_nil_of_length_eq_zero this
      rw [hl, List.append_nil] at h
      rw [loop_saturated cls _ _ _ _ _ hsat h]
    · simp only [hsat, if_false, hidv, hc]
      have hch_v : ∀ x ∈ ch.ids, x ∉ id :: vis := by
        intro x hx hx2
        cases hx2 with
        | head => exact hn'.1 (List.mem_append_left _ hx)
        | tail _ h2 => exact hv x (List.mem_cons_of_mem _ (List.mem_append_left _ hx)) h2
      have hr_v : ∀ x ∈ rest.ids, x ∉ ch.ids.reverse ++ id :: vis := by
        intro x hx hx2
        rcases List.mem_append.mp hx2 with h2 | h2
        · exact hnn.2.2 x (List.mem_reverse.mp h2) x hx rfl
        · cases h2 with
          | head => exact hn'.1 (List.mem_append_right _ hx)
          | tail _ h3 => exact hv x (List.mem_cons_of_mem _ (List.mem_append_right _ hx)) h3
      have hlen : (ch.leaves ++ rest.leaves).length = ch.leaves.length + rest.leaves.length := by simp
      have h1 := ihr fuel st (ch.ids.reverse ++ id :: vis) (out ++ ch.leaves) r har hnn.2.1 hr_v
        (by simp; omega)
        (by simpa [List.reverse_cons, List.reverse_append, List.append_assoc] using h)
      have h2 := ihc (fuel + rest.size) (rest.roots ++ st) (id :: vis) out r hac hnn.1 hch_v
        (by omega) h1
      simpa [List.append_assoc] using h2

theorem take_take_append (n : Nat) (a b : List Nat) :
    (a.take n ++ b).take n = (a ++ b).take n := by
  by_cases h : a.length ≤ n
  · rw [List.take_of_length_le h]
  · have h' : n ≤ a.length := by omega
    rw [List.take_append_of_le_length (by simp; omega), List.take_take, Nat.min_self,
      List.take_append_of_le_length h']

/-- the forest lemma with the MAX_PAGES cut: the loop emits the leaves in document order until
the list is full -/
theorem loop_forest_take (cls : Nat → Cls) (f : Forest) :
    ∀ (fuel : Nat) (st vis out r : List Nat), Agrees cls f → f.ids.Nodup →
      (∀ x ∈ f.ids, x ∉ vis) → out.length ≤ MAX_PAGES →
      loop cls fuel st (f.ids.reverse ++ vis) ((out ++ f.leaves).take MAX_PAGES) = some r →
      loop cls (fuel + f.size) (f.roots ++ st) vis out = some r := by
  induction f with
  | nil =>
    intro fuel st vis out r _ _ _ hm h
    simp only [Forest.ids, Forest.leaves, Forest.size, Forest.roots, List.append_nil,
      List.reverse_nil, List.nil_append, Nat.add_zero] at h ⊢
    rwa [List.take_of_length_le hm] at h
  | leaf id rest ih =>
    intro fuel st vis out r ha hn hv hm h
    simp only [Forest.ids, Forest.leaves, Forest.size, Forest.roots] at *
    obtain ⟨hc, har⟩ := ha
    have hn' := List.nodup_cons.mp hn
    have hidv : id ∉ vis := hv id List.mem_cons_self
    have e : fuel + (rest.size + 1) = (fuel + rest.size) + 1 := by omega
    rw [e]
    simp only [List.cons_append, loop]
    by_cases hsat : MAX_PAGES ≤ out.length
    · simp only [hsat, if_true]
      have ht : (out ++ id :: rest.leaves).take MAX_PAGES = out := by
        have : out.length = MAX_PAGES := by omega
        rw [List.take_append_of_le_length (by omega), ← this, List.take_length]
      rw [ht] at h
      rw [loop_saturated cls _ _ _ _ _ hsat h]
    · simp only [hsat, if_false, hidv, hc]
      apply ih fuel st (id :: vis) (out ++ [id]) r har hn'.2
      · intro x hx hx2
        cases hx2 with
        | head => exact hn'.1 hx
        | tail _ h2 => exact hv x (List.mem_cons_of_mem _ hx) h2
      · simp; omega
      · simpa [List.reverse_cons, List.append_assoc] using h
  | node id ch rest ihc ihr =>
    intro fuel st vis out r ha hn hv hm h
    simp only [Forest.ids, Forest.leaves, Forest.size, Forest.roots] at *
    obtain ⟨hc, hac, har⟩ := ha
    have hn' := List.nodup_cons.mp hn
    have hnn := List.nodup_append.mp hn'.2
    have hidv : id ∉ vis := hv id List.mem_cons_self
    have e : fuel + (rest.size + ch.size + 1) = ((fuel + rest.size) + ch.size) + 1 := by omega
    rw [e]
    simp only [List.cons_append, loop]
    by_cases hsat : MAX_PAGES ≤ out.length
    · simp only [hsat, if_true]
      have ht : (out ++ (ch.leaves ++ rest.leaves)).take MAX_PAGES = out := by
        have : out.length = MAX_PAGES := by omega
        rw [List.take_append_of_le_length (by omega), ← this, List.take_length]
      rw [ht] at h
      rw [loop_saturated cls _ _ _ _ _ hsat h]
    · simp only [hsat, if_false, hidv, hc]
      have hch_v : ∀ x ∈ ch.ids, x ∉ id :: vis := by
        intro x hx hx2
        cases hx2 with
        | head => exact hn'.1 (List.mem_append_left _ hx)
        | tail _ h2 => exact hv x (List.mem_cons_of_mem _ (List.mem_append_left _ hx)) h2
      have hr_v : ∀ x ∈ rest.ids, x ∉ ch.ids.reverse ++ id :: vis := by
        intro x hx hx2
        rcases List.mem_append.mp hx2 with h2 | h2
        · exact hnn.2.2 x (List.mem_reverse.mp h2) x hx rfl
        · cases h2 with
          | head => exact hn'.1 (List.mem_append_right _ hx)
          | tail _ h3 => exact hv x (List.mem_cons_of_mem _ (List.mem_append_right _ hx)) h3
      have h1 := ihr fuel st (ch.ids.reverse ++ id :: vis) ((out ++ ch.leaves).take MAX_PAGES) r har
        hnn.2.1 hr_v (by simp; omega)
        (by
          rw [take_take_append]
          simpa [List.reverse_cons, List.reverse_append, List.append_assoc] using h)
      have h2 := ihc (fuel + rest.size) (rest.roots ++ st) (id :: vis) out r hac hnn.1 hch_v hm h1
      simpa [List.append_assoc] using h2

/-! ### the /Parent walk -/

def unvisited (g : Graph) (vis : List Nat) : Nat :=
  match g with
  | [] => 0
  | e :: r => (if e.1 ∈ vis then 0 else 1) + unvisited r vis

theorem unvisited_cons_le (g : Graph) (vis : List Nat) (n : Nat) :
    unvisited g (n :: vis) ≤ unvisited g vis := by
  induction g with
  | nil => simp [unvisited]
  | cons e r ih =>
    simp only [unvisited]
    by_cases h1 : e.1 ∈ vis
    · have : e.1 ∈ n :: vis := List.mem_cons_of_mem _ h1
      simp [h1, this]; exact ih
    · by_cases h2 : e.1 ∈ n :: vis
      · simp [h1, h2]; omega
      · simp [h1, h2]; exact ih

theorem unvisited_visit (g : Graph) (vis : List Nat) (n : Nat) (hn : n ∈ g.ids) (hv : n ∉ vis) :
    unvisited g (n :: vis) + 1 ≤ unvisited g vis := by
  induction g with
  | nil => simp [Graph.ids] at hn
  | cons e r ih =>
    simp only [unvisited]
    by_cases hi : e.1 = n
    · have h2 : e.1 ∈ n :: vis := by rw [hi]; exact List.mem_cons_self
      have h1 : e.1 ∉ vis := by rw [hi]; exact hv
      have := unvisited_cons_le r vis n
      simp [h1, h2]; omega
    · have hr : n ∈ Graph.ids r := by
        simp [Graph.ids] at hn ⊢
        rcases hn with hn | hn
        · exact absurd hn.symm hi
        · exact hn
      have := ih hr
      by_cases h1 : e.1 ∈ vis
      · have h2 : e.1 ∈ n :: vis := List.mem_cons_of_mem _ h1
        simp [h1, h2]; omega
      · have h2 : e.1 ∉ n :: vis := by
          intro h; cases h with
          | head => exact hi rfl
          | tail _ h => exact h1 h
        simp [h1, h2]; omega

theorem unvisited_nil (g : Graph) : unvisited g [] = g.length := by
  induction g with
  | nil => rfl
  | cons e r ih => simp [unvisited, ih]; omega

theorem get_mem_ids (g : Graph) (n : Nat) (h : g.get n ≠ .null) : n ∈ g.ids := by
  unfold Graph.get at h
  split at h
  · rename_i e he
    have hm := List.mem_of_find?_eq_some he
    have hp := List.find?_some he
    simp at hp
    simp [Graph.ids]
    exact ⟨e.2, by rw [← hp]; exact hm⟩
  · exact absurd rfl h

theorem asDict_some_mem (g : Graph) (n : Nat) (d : Dict) (h : (g.get n).asDict = some d) :
    n ∈ g.ids := by
  apply get_mem_ids
  intro hnull
  rw [hnull] at h
  simp [Obj.asDict] at h

theorem classify_inner_mem (g : Graph) (n : Nat) (ks : List Nat) (h : classify g n = .inner ks) :
    n ∈ g.ids := by
  unfold classify at h
  split at h
  · cases h
  · rename_i d hd; exact asDict_some_mem g n d hd

theorem classify_leaf_mem (g : Graph) (n : Nat) (h : classify g n = .leaf) : n ∈ g.ids := by
  unfold classify at h
  split at h
  · cases h
  · rename_i d hd; exact asDict_some_mem g n d hd

theorem walk_isSome (g : Graph) (page : Dict) :
    ∀ (fuel : Nat) (cur : Option Nat) (vis : List Nat) (inh : Inh),
      unvisited g vis < fuel → (walk g page fuel cur vis inh).isSome := by
  intro fuel
  induction fuel with
  | zero => intro cur vis inh h; omega
  | succ fuel ih =>
    intro cur vis inh h
    cases cur with
    | none => simp [walk]
    | some p =>
      simp only [walk]
      split
      · simp
      · rename_i hv
        split
        · simp
        · rename_i pd hpd
          apply ih
          have := unvisited_visit g vis p (asDict_some_mem g p pd hpd) hv
          omega

theorem walk_fuel_mono (g : Graph) (page : Dict) :
    ∀ (fuel : Nat) (cur : Option Nat) (vis : List Nat) (inh r : Inh),
      walk g page fuel cur vis inh = some r → ∀ k, walk g page (fuel + k) cur vis inh = some r := by
  intro fuel
  induction fuel with
  | zero =>
    intro cur vis inh r h k
    cases cur with
    | none => simp [walk] at h ⊢; exact h
    | some p => simp [walk] at h
  | succ fuel ih =>
    intro cur vis inh r h k
    cases cur with
    | none => simp [walk] at h ⊢; exact h
    | some p =>
      have e : fuel + 1 + k = (fuel + k) + 1 := by omega
      rw [e]
      simp only [walk] at h ⊢
      split
      · rename_i hv; simp [hv] at h; rw [h]
      · rename_i hv
        simp only [hv, if_false] at h
        split
        · rename_i hd; simp only [hd] at h; exact h
        · rename_i pd hd; simp only [hd] at h; exact ih _ _ _ _ h k

theorem walk_fuel_det (g : Graph) (page : Dict) (a b : Nat) (cur : Option Nat) (vis : List Nat)
    (inh r s : Inh) (h1 : walk g page a cur vis inh = some r)
    (h2 : walk g page b cur vis inh = some s) : r = s := by
  have e1 := walk_fuel_mono g page a cur vis inh r h1 b
  have e2 := walk_fuel_mono g page b cur vis inh s h2 a
  rw [Nat.add_comm] at e2
  rw [e1] at e2
  exact Option.some.inj e2

/-- the ancestors of a page along /Parent: `(id, dictionary)` from the parent up to the root -/
inductive Chain (g : Graph) : Option Nat → List (Nat × Dict) → Prop
  | root : Chain g none []
  | step (p : Nat) (d : Dict) (rest : List (Nat × Dict)) :
      (g.get p).asDict = some d → Chain g d.parent rest → Chain g (some p) ((p, d) :: rest)

def firstSome : List (Option Raw) → Option Raw
  | [] => none
  | some v :: _ => some v
  | none :: r => firstSome r

theorem merge_get (page : Dict) (inh : Inh) (pd : Dict) (k : Key) :
    (merge page inh pd).get k = mergeKey page inh pd k := by
  cases k <;> rfl

theorem walk_chain (g : Graph) (page : Dict) :
    ∀ (chain : List (Nat × Dict)) (cur : Option Nat) (vis : List Nat) (inh : Inh),
      Chain g cur chain → (chain.map (·.1)).Nodup → (∀ x ∈ chain.map (·.1), x ∉ vis) →
      ∃ r, walk g page (chain.length + 1) cur vis inh = some r ∧
        ∀ k, r.get k = if (page.attr k).isNone
          then firstSome (inh.get k :: chain.map (fun e => e.2.attr k)) else inh.get k := by
  intro chain
  induction chain with
  | nil =>
    intro cur vis inh hc _ _
    cases hc
    refine ⟨inh, by simp [walk], ?_⟩
    intro k
    cases hk : inh.get k <;> simp [firstSome, hk]
  | cons e rest ih =>
    intro cur vis inh hc hn hv
    cases hc with
    | step p d _ hd hrest =>
      simp only [List.map_cons, List.nodup_cons] at hn
      have hpv : p ∉ vis := hv p (by simp)
      have hv' : ∀ x ∈ rest.map (·.1), x ∉ p :: vis := by
        intro x hx hx2
        cases hx2 with
        | head => exact hn.1 hx
        | tail _ h2 => exact hv x (by simp at hx ⊢; exact Or.inr hx) h2
      obtain ⟨r, hr, hk⟩ := ih d.parent (p :: vis) (merge page inh d) hrest hn.2 hv'
      refine ⟨r, ?_, ?_⟩
      · simp only [List.length_cons, walk, hpv, if_false, hd]
        exact hr
      · intro k
        rw [hk k, merge_get]
        unfold mergeKey
        cases hp : page.attr k with
        | some v => simp
        | none =>
          cases hi : inh.get k with
          | some w => simp [firstSome]
          | none => simp [firstSome]

/-- the ancestors the /Parent walk actually visits on an ARBITRARY graph: it stops at a node
without /Parent (`root`), at a parent that is not a dictionary — dangling, null, an array …
(`dangling`) — or at a node it has already seen: a /Parent cycle (`cycle`).  `vis` = the nodes
visited before this point. -/
inductive ChainT (g : Graph) : List Nat → Option Nat → List (Nat × Dict) → Prop
  | root (vis : List Nat) : ChainT g vis none []
  | dangling (vis : List Nat) (p : Nat) : (g.get p).asDict = none → ChainT g vis (some p) []
  | cycle (vis : List Nat) (p : Nat) : p ∈ vis → ChainT g vis (some p) []
  | step (vis : List Nat) (p : Nat) (d : Dict) (rest : List (Nat × Dict)) :
      p ∉ vis → (g.get p).asDict = some d → ChainT g (p :: vis) d.parent rest →
      ChainT g vis (some p) ((p, d) :: rest)

theorem walk_chainT (g : Graph) (page : Dict) :
    ∀ (chain : List (Nat × Dict)) (cur : Option Nat) (vis : List Nat) (inh : Inh),
      ChainT g vis cur chain →
      ∃ r, walk g page (chain.length + 1) cur vis inh = some r ∧
        ∀ k, r.get k = if (page.attr k).isNone
          then firstSome (inh.get k :: chain.map (fun e => e.2.attr k)) else inh.get k := by
  intro chain
  induction chain with
  | nil =>
    intro cur vis inh hc
    have hk : ∀ k, inh.get k = if (page.attr k).isNone
        then firstSome (inh.get k :: ([] : List (Nat × Dict)).map (fun e => e.2.attr k)) else inh.get k := by
      intro k
      cases hk : inh.get k <;> simp [firstSome]
    cases hc with
    | root => exact ⟨inh, by simp [walk], hk⟩
    | dangling _ p hd => exact ⟨inh, by simp [walk, hd], hk⟩
    | cycle _ p hv => exact ⟨inh, by simp [walk, hv], hk⟩
  | cons e rest ih =>
    intro cur vis inh hc
    cases hc with
    | step _ p d _ hpv hd hrest =>
      obtain ⟨r, hr, hk⟩ := ih d.parent (p :: vis) (merge page inh d) hrest
      refine ⟨r, ?_, ?_⟩
      · simp only [List.length_cons, walk, hpv, if_false, hd]
        exact hr
      · intro k
        rw [hk k, merge_get]
        unfold mergeKey
        cases hp : page.attr k with
        | some v => simp
        | none =>
          cases hi : inh.get k with
          | some w => simp [firstSome]
          | none => simp [firstSome]

/-- every well-founded chain is a truncated chain (with nothing to truncate) -/
theorem chain_chainT (g : Graph) :
    ∀ (chain : List (Nat × Dict)) (cur : Option Nat) (vis : List Nat),
      Chain g cur chain → (chain.map (·.1)).Nodup → (∀ x ∈ chain.map (·.1), x ∉ vis) →
      ChainT g vis cur chain := by
  intro chain
  induction chain with
  | nil => intro cur vis hc _ _; cases hc; exact ChainT.root vis
  | cons e rest ih =>
    intro cur vis hc hn hv
    cases hc with
    | step p d _ hd hrest =>
      simp only [List.map_cons, List.nodup_cons] at hn
      refine ChainT.step vis p d rest (hv p (by simp)) hd (ih _ _ hrest hn.2 ?_)
      intro x hx hx2
      cases hx2 with
      | head => exact hn.1 hx
      | tail _ h2 => exact hv x (by simp at hx ⊢; exact Or.inr hx) h2

end OxiVerif.C18
