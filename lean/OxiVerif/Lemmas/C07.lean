import OxiVerif.Model.C08
import OxiVerif.Spec.C07Codecs
import OxiVerif.Lemmas.C08
/-!
Helper lemmas for C07: round trips of the reference encoders (Spec/C07Codecs.lean) through the
model decoders (Model/C08.lean).
-/
namespace OxiVerif.Flt
open OxiVerif.Codec

def Bytes (l : List Nat) : Prop := ∀ x ∈ l, x < 256

instance (l : List Nat) : Decidable (Bytes l) := by unfold Bytes; infer_instance

theorem Bytes.cons {x : Nat} {l : List Nat} : Bytes (x :: l) ↔ x < 256 ∧ Bytes l := by
  simp [Bytes]

theorem Bytes.append {a b : List Nat} : Bytes (a ++ b) ↔ Bytes a ∧ Bytes b := by
  simp only [Bytes, List.mem_append]
  constructor
  · intro h; exact ⟨fun x hx => h x (Or.inl hx), fun x hx => h x (Or.inr hx)⟩
  · rintro ⟨h1, h2⟩ x (hx | hx)
    · exact h1 x hx
    · exact h2 x hx

/-! ### PNG row filters -/

/-- the code's predictor (`pngPred`, transcribed from the four Rust row functions and
`paeth_predictor`) is the predictor of the PNG specification -/
theorem pngPred_eq_spec (t bpp : Nat) (prev : List Nat) (seen : Array Nat) :
    pngPred t bpp prev seen = predSpec t bpp prev seen := rfl

theorem unfilterGo_filterGo (t bpp : Nat) (prev : List Nat) :
    ∀ (row : List Nat) (seen : Array Nat), Bytes row →
      unfilterGo t bpp prev seen (filterGo t bpp prev seen row) = row := by
  intro row
  induction row with
  | nil => intro seen _; rfl
  | cons x xs ih =>
    intro seen hb
    rw [Bytes.cons] at hb
    simp only [filterGo, unfilterGo, pngPred_eq_spec]
    have hx : ((x + 256 - predSpec t bpp prev seen % 256) % 256 + predSpec t bpp prev seen) % 256 = x := by
      omega
    rw [hx, ih _ hb.2]

theorem unfilterRow_filterRow (t bpp : Nat) (prev row : List Nat) (hb : Bytes row) :
    unfilterRow t bpp prev (filterRow t bpp prev row) = row :=
  unfilterGo_filterGo t bpp prev row #[] hb

@[simp] theorem filterGo_length (t bpp prev) : ∀ row seen, (filterGo t bpp prev seen row).length = row.length := by
  intro row
  induction row with
  | nil => intro _; rfl
  | cons x xs ih => intro seen; simp [filterGo, ih]

@[simp] theorem filterRow_length (t bpp prev row) : (filterRow t bpp prev row).length = row.length := by
  simp [filterRow]

theorem Bytes.take {l : List Nat} (h : Bytes l) (n : Nat) : Bytes (l.take n) :=
  fun x hx => h x (List.mem_of_mem_take hx)

theorem Bytes.drop {l : List Nat} (h : Bytes l) (n : Nat) : Bytes (l.drop n) :=
  fun x hx => h x (List.mem_of_mem_drop hx)

theorem pngRows_pngEncGo (bpp rb : Nat) (hrb : 0 < rb) (types : List Nat) (ht : ∀ t ∈ types, t ≤ 4) :
    ∀ (k fuel r : Nat) (prev data : List Nat), data.length = k * rb → k < fuel → Bytes data →
      pngRows bpp rb k prev (pngEncGo rb bpp types fuel r prev data) = .ok data := by
  intro k
  induction k with
  | zero =>
    intro fuel r prev data hl _ _
    have : data = [] := by simpa using hl
    subst this
    cases fuel <;> simp [pngRows]
  | succ k ih =>
    intro fuel r prev data hl hf hb
    obtain ⟨fuel, rfl⟩ : ∃ f, fuel = f + 1 := ⟨fuel - 1, by omega⟩
    have hlen : rb ≤ data.length := by rw [hl, Nat.succ_mul]; omega
    have hne : data.isEmpty = false := by
      cases data with
      | nil => simp at hlen; omega
      | cons _ _ => rfl
    have htag : types.getD (r % types.length) 0 ≤ 4 := by
      by_cases hlt : r % types.length < types.length
      · have : types.getD (r % types.length) 0 = types[r % types.length] := by simp [List.getD, hlt]
        rw [this]; exact ht _ (List.getElem_mem hlt)
      · have : types.getD (r % types.length) 0 = 0 := by
          have hle : types.length ≤ r % types.length := by omega
          simp [List.getD, hle]
        omega
    simp only [pngEncGo, hne, Bool.false_eq_true, if_false, pngRows, List.cons_append]
    rw [if_neg (by omega)]
    have htake : (data.take rb).length = rb := by simp [List.length_take]; omega
    have h1 : (filterRow (types.getD (r % types.length) 0) bpp prev (data.take rb) ++
        pngEncGo rb bpp types fuel (r + 1) (data.take rb) (data.drop rb)).take rb =
        filterRow (types.getD (r % types.length) 0) bpp prev (data.take rb) := by
      rw [List.take_append_of_le_length (by simp [htake])]
      rw [List.take_of_length_le (by simp [htake])]
    have h2 : (filterRow (types.getD (r % types.length) 0) bpp prev (data.take rb) ++
        pngEncGo rb bpp types fuel (r + 1) (data.take rb) (data.drop rb)).drop rb =
        pngEncGo rb bpp types fuel (r + 1) (data.take rb) (data.drop rb) := by
      rw [List.drop_append_of_le_length (by simp [htake])]
      rw [List.drop_of_length_le (by simp [htake])]
      rfl
    rw [h1, h2, unfilterRow_filterRow _ _ _ _ (hb.take rb)]
    rw [ih fuel (r + 1) (data.take rb) (data.drop rb) (by simp [hl, Nat.succ_mul]) (by omega) (hb.drop rb)]
    simp [Res.pre]

theorem pngEncGo_length (bpp rb : Nat) (hrb : 0 < rb) (types : List Nat) :
    ∀ (k fuel r : Nat) (prev data : List Nat), data.length = k * rb → k < fuel →
      (pngEncGo rb bpp types fuel r prev data).length = k * (rb + 1) := by
  intro k
  induction k with
  | zero =>
    intro fuel r prev data hl _
    have : data = [] := by simpa using hl
    subst this
    cases fuel <;> simp [pngEncGo]
  | succ k ih =>
    intro fuel r prev data hl hf
    obtain ⟨fuel, rfl⟩ : ∃ f, fuel = f + 1 := ⟨fuel - 1, by omega⟩
    have hlen : rb ≤ data.length := by rw [hl, Nat.succ_mul]; omega
    have hne : data.isEmpty = false := by
      cases data with
      | nil => simp at hlen; omega
      | cons _ _ => rfl
    simp only [pngEncGo, hne, Bool.false_eq_true, if_false, List.length_cons, List.length_append,
      filterRow_length]
    rw [ih fuel (r + 1) (data.take rb) (data.drop rb) (by simp [hl, Nat.succ_mul]) (by omega)]
    have htake : (data.take rb).length = rb := by simp [List.length_take]; omega
    rw [htake, Nat.succ_mul]; omega

theorem asUsize_ofNat (n : Nat) (h : n < two64) : asUsize (n : Int) = n := by
  unfold asUsize
  have : ((n : Int) % (two64 : Int)) = (n : Int) := Int.emod_eq_of_lt (by omega) (by exact_mod_cast h)
  rw [this]; simp

theorem asU32_ofNat (n : Nat) (h : n < two32) : asU32 (n : Int) = n := by
  unfold asU32
  have : ((n : Int) % (two32 : Int)) = (n : Int) := Int.emod_eq_of_lt (by omega) (by exact_mod_cast h)
  rw [this]; simp

/-- `apply_png_predictor_advanced` inverts the reference PNG encoder for every geometry whose row
has at least one byte and whose bit count fits a `usize`. -/
theorem pngAdvanced_pngEnc (columns colors bpc : Nat) (d : Dict)
    (hc : d.columns = .int columns) (hk : d.colors = .int colors) (hb : d.bpc = .int bpc)
    (hpos : 0 < rowBytes columns colors bpc) (hfit : columns * colors * bpc + 7 < two64)
    (types : List Nat) (ht : ∀ t ∈ types, t ≤ 4) (k : Nat) (data : List Nat)
    (hl : data.length = k * rowBytes columns colors bpc) (hbytes : Bytes data) :
    pngAdvanced (pngEnc (rowBytes columns colors bpc) (pngBpp colors bpc) types data) d = .ok data := by
  have hcols : 0 < columns ∧ 0 < colors ∧ 0 < bpc := by
    unfold rowBytes at hpos
    refine ⟨?_, ?_, ?_⟩ <;> (apply Nat.pos_of_ne_zero; intro h; subst h; simp at hpos)
  obtain ⟨h1, h2, h3⟩ := hcols
  have hcb : bpc * colors ≤ columns * colors * bpc := by
    calc bpc * colors = 1 * (colors * bpc) := by rw [Nat.one_mul, Nat.mul_comm]
      _ ≤ columns * (colors * bpc) := Nat.mul_le_mul_right _ h1
      _ = columns * colors * bpc := by rw [Nat.mul_assoc]
  have hcc : columns * colors ≤ columns * colors * bpc := Nat.le_mul_of_pos_right _ h3
  have hcol64 : columns < two64 := by
    have : columns ≤ columns * colors := Nat.le_mul_of_pos_right _ h2
    omega
  have hk64 : colors < two64 := by
    have : colors ≤ columns * colors := Nat.le_mul_of_pos_left _ h1
    omega
  have hb64 : bpc < two64 := by
    have : bpc ≤ bpc * colors := Nat.le_mul_of_pos_right _ h2
    omega
  have hbpp : pngBpp colors bpc = (bpc * colors + 7) / 8 := by
    unfold pngBpp
    have : 1 ≤ (colors * bpc + 7) / 8 := by
      have : 1 ≤ colors * bpc := Nat.mul_pos h2 h3
      omega
    rw [Nat.mul_comm bpc colors]; omega
  unfold pngAdvanced
  simp only [hc, hk, hb, PVal.asInt, Option.getD_some, asUsize_ofNat _ hcol64, asUsize_ofNat _ hk64,
    asUsize_ofNat _ hb64]
  rw [if_neg (by omega), if_neg (by omega), if_neg (by omega), if_neg (by omega)]
  have hrb : (columns * colors * bpc + 7) / 8 = rowBytes columns colors bpc := rfl
  rw [hrb]
  have hlenE : (pngEnc (rowBytes columns colors bpc) (pngBpp colors bpc) types data).length =
      k * (rowBytes columns colors bpc + 1) := by
    unfold pngEnc
    rw [if_neg (by omega)]
    exact pngEncGo_length _ _ hpos _ _ _ _ _ _ hl (by
      rw [hl]
      have := Nat.le_mul_of_pos_right k hpos
      omega)
  rw [hlenE, if_neg (by simp)]
  rw [Nat.mul_div_cancel _ (by omega)]
  unfold pngEnc
  rw [if_neg (by omega), ← hbpp]
  exact pngRows_pngEncGo _ _ hpos _ ht _ _ _ _ _ hl (by
      rw [hl]
      have := Nat.le_mul_of_pos_right k hpos
      omega) hbytes

/-! ### ASCIIHex -/

theorem hexDigit?_hexDigit (u : Bool) (k : Nat) (hk : k < 16) : hexDigit? (Codec.hexDigit u k) = some k := by
  unfold Codec.hexDigit hexDigit?
  cases u <;> simp <;> split <;> (try split) <;> (try split) <;> (try split) <;> (first | omega | (congr 1; omega) | skip)
  all_goals (first | omega | (simp; omega))

theorem hexDigit_ne_gt (u : Bool) (k : Nat) (hk : k < 16) : Codec.hexDigit u k ≠ 62 := by
  unfold Codec.hexDigit; cases u <;> simp <;> split <;> omega

theorem hexByte_enc (u : Bool) (x : Nat) (hx : x < 256) :
    hexByte (Codec.hexDigit u (x / 16)) (Codec.hexDigit u (x % 16)) = .ok x := by
  unfold hexByte
  rw [hexDigit?_hexDigit u _ (by omega), hexDigit?_hexDigit u _ (by omega)]
  simp only [Res.ok.injEq]; omega

theorem hexGo_tail (L n : Nat) (t : List Nat) (ht : t = [] ∨ ∃ t', t = 62 :: t') :
    hexGo L n t = .ok [] := by
  rcases ht with rfl | ⟨t', rfl⟩
  · rfl
  · cases t' <;> simp [hexGo]

theorem hexGo_hexEnc (L : Nat) (u : Bool) (t : List Nat) (ht : t = [] ∨ ∃ t', t = 62 :: t') :
    ∀ (b : List Nat) (n : Nat), Bytes b → n + b.length ≤ L → hexGo L n (hexEnc u b ++ t) = .ok b := by
  intro b
  induction b with
  | nil => intro n _ _; simpa [hexEnc] using hexGo_tail L n t ht
  | cons x xs ih =>
    intro n hb hl
    rw [Bytes.cons] at hb
    simp only [List.length_cons] at hl
    simp only [hexEnc, List.cons_append, hexGo]
    rw [if_neg (hexDigit_ne_gt u _ (by omega)), if_neg (hexDigit_ne_gt u _ (by omega)),
      hexByte_enc u x hb.1]
    simp only
    rw [if_neg (by omega), ih (n + 1) hb.2 (by omega)]
    rfl

/-! ### RunLength -/

theorem rlGo_serialize (L : Nat) (t : List Nat) :
    ∀ (ps : List Packet) (fuel n : Nat), ps.length < fuel → (∀ p ∈ ps, p.valid = true) →
      n + (rlExpand ps).length ≤ L →
      rlGo L fuel n (ps.flatMap Packet.bytes ++ 128 :: t) = .ok (rlExpand ps) := by
  intro ps
  induction ps with
  | nil =>
    intro fuel n hf _ _
    obtain ⟨fuel, rfl⟩ : ∃ f, fuel = f + 1 := ⟨fuel - 1, by simp at hf; omega⟩
    simp [rlGo, rlExpand]
  | cons p ps ih =>
    intro fuel n hf hv hl
    obtain ⟨fuel, rfl⟩ : ∃ f, fuel = f + 1 := ⟨fuel - 1, by simp at hf; omega⟩
    have hvp := hv p (by simp)
    have hvs : ∀ q ∈ ps, q.valid = true := fun q hq => hv q (by simp [hq])
    simp only [List.length_cons] at hf
    cases p with
    | lit bs =>
      simp only [Packet.valid, Bool.and_eq_true, decide_eq_true_eq] at hvp
      simp only [rlExpand, List.flatMap_cons, Packet.expand, List.length_append] at hl ⊢
      simp only [Packet.bytes, List.cons_append, List.append_assoc, rlGo]
      rw [if_neg (by omega), if_pos (by omega)]
      have e1 : bs.length - 1 + 1 = bs.length := by omega
      rw [e1, if_neg (by simp), if_neg (by omega)]
      rw [List.drop_left, List.take_left]
      have := ih fuel (n + bs.length) (by omega) hvs (by simp only [rlExpand]; omega)
      simp only [rlExpand] at this
      rw [this]; rfl
    | run k x =>
      simp only [Packet.valid, Bool.and_eq_true, decide_eq_true_eq] at hvp
      simp only [rlExpand, List.flatMap_cons, Packet.expand, List.length_append,
        List.length_replicate] at hl ⊢
      simp only [Packet.bytes, List.cons_append, List.nil_append, rlGo]
      rw [if_neg (by omega), if_neg (by omega)]
      have e1 : 257 - (257 - k) = k := by omega
      simp only [e1]
      rw [if_neg (by omega)]
      have := ih fuel (n + k) (by omega) hvs (by simp only [rlExpand]; omega)
      simp only [rlExpand] at this
      rw [this]; rfl

theorem flatMap_bytes_length_ge (ps : List Packet) : ps.length ≤ (ps.flatMap Packet.bytes).length := by
  induction ps with
  | nil => simp
  | cons p ps ih =>
    simp only [List.flatMap_cons, List.length_append, List.length_cons]
    have : 1 ≤ p.bytes.length := by cases p <;> simp [Packet.bytes]
    omega


theorem takeWhile_eq_replicate (x : Nat) : ∀ (xs : List Nat) (k : Nat), k ≤ (xs.takeWhile (· == x)).length →
    xs.take k = List.replicate k x := by
  intro xs
  induction xs with
  | nil => intro k hk; simp at hk; subst hk; rfl
  | cons y ys ih =>
    intro k hk
    cases k with
    | zero => rfl
    | succ k =>
      by_cases hy : (y == x) = true
      · simp only [List.takeWhile_cons, hy, if_true] at hk
        simp only [List.length_cons] at hk
        have := ih k (by omega)
        have hyx : y = x := by simpa using hy
        simp [List.take_succ_cons, this, List.replicate_succ, hyx]
      · simp only [List.takeWhile_cons, hy] at hk
        simp at hk

theorem rlPacketsGo_spec : ∀ (fuel : Nat) (data : List Nat), data.length < fuel →
    rlExpand (rlPacketsGo fuel data) = data ∧ ∀ p ∈ rlPacketsGo fuel data, p.valid = true := by
  intro fuel
  induction fuel with
  | zero => intro data h; omega
  | succ fuel ih =>
    intro data h
    cases data with
    | nil => simp [rlPacketsGo, rlExpand]
    | cons x xs =>
      simp only [List.length_cons] at h
      have hk : min 127 (xs.takeWhile (· == x)).length ≤ (xs.takeWhile (· == x)).length := Nat.min_le_right _ _
      generalize hkk : min 127 (xs.takeWhile (· == x)).length = k at hk
      have hk127 : k ≤ 127 := by rw [← hkk]; exact Nat.min_le_left _ _
      have htake := takeWhile_eq_replicate x xs k hk
      have hdl : (xs.drop k).length < fuel := by simp; omega
      obtain ⟨ih1, ih2⟩ := ih (xs.drop k) hdl
      simp only [rlPacketsGo, hkk]
      constructor
      · simp only [rlExpand, List.flatMap_cons] at ih1 ⊢
        rw [ih1]
        by_cases h0 : k = 0
        · subst h0; simp [Packet.expand]
        · rw [if_neg h0]
          simp only [Packet.expand, List.replicate_succ, List.cons_append]
          rw [← htake, List.take_append_drop]
      · intro p hp
        simp only [List.mem_cons] at hp
        rcases hp with rfl | hp
        · by_cases h0 : k = 0
          · subst h0; simp [Packet.valid]
          · rw [if_neg h0]; simp [Packet.valid]; omega
        · exact ih2 p hp

theorem rlPackets_expand (data : List Nat) : rlExpand (rlPackets data) = data :=
  (rlPacketsGo_spec _ data (Nat.lt_succ_self _)).1

theorem rlPackets_valid (data : List Nat) : ∀ p ∈ rlPackets data, p.valid = true :=
  (rlPacketsGo_spec _ data (Nat.lt_succ_self _)).2

end OxiVerif.Flt
