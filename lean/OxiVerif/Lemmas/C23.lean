/-
Helper lemmas for C23 / C05 / C06 about the reference definitions in `Spec/Crypto*.lean`.
-/
import OxiVerif.Spec.CryptoPdf
import OxiVerif.Spec.CryptoVectors
set_option linter.unusedSimpArgs false
set_option linter.unusedVariables false
namespace OxiVerif.Crypto


theorem xor_cancel (a k : UInt8) : (a ^^^ k) ^^^ k = a := by
  rw [UInt8.xor_assoc, UInt8.xor_self, UInt8.xor_zero]

theorem prga_involutive (st : Rc4State) (d : Bytes) : prga st (prga st d) = d := by
  induction d generalizing st with
  | nil => rfl
  | cons b rest ih => simp [prga, xor_cancel, ih]

theorem prga_length (st : Rc4State) (d : Bytes) : (prga st d).length = d.length := by
  induction d generalizing st with
  | nil => rfl
  | cons b rest ih => simp [prga, ih]

theorem rc4_involutive (k d : Bytes) : rc4 k (rc4 k d) = d := prga_involutive _ _
theorem rc4_length (k d : Bytes) : (rc4 k d).length = d.length := prga_length _ _

theorem swapIfInBounds_perm (xs : Array UInt8) (i j : Nat) : (xs.swapIfInBounds i j).Perm xs := by
  unfold Array.swapIfInBounds
  split
  · split
    · exact Array.swap_perm _ _
    · exact Array.Perm.refl _
  · exact Array.Perm.refl _

theorem ksa_fold_perm (key : Array UInt8) (l : List Nat) (st : Array UInt8 × Nat) :
    (l.foldl (ksaStep key) st).1.Perm st.1 := by
  induction l generalizing st with
  | nil => exact Array.Perm.refl _
  | cons i rest ih =>
    simp only [List.foldl_cons]
    exact (ih _).trans (swapIfInBounds_perm _ _ _)

theorem ksa_perm (key : Bytes) : (ksa key).Perm rc4Identity := ksa_fold_perm _ _ _



theorem xorBytes_length (a b : Bytes) : (xorBytes a b).length = min a.length b.length := by
  simp [xorBytes]

theorem xorBytes_cancel (a b : Bytes) (h : a.length ≤ b.length) : xorBytes (xorBytes a b) b = a := by
  induction a generalizing b with
  | nil => simp [xorBytes]
  | cons x xs ih =>
    cases b with
    | nil => simp at h
    | cons y ys =>
      simp only [List.length_cons, Nat.add_le_add_iff_right] at h
      have := ih ys h
      simp only [xorBytes] at this ⊢
      simp [xor_cancel, this]

/-- a pair of block functions that are mutually inverse on 16-byte blocks -/
def BlockInverse (E D : Bytes → Bytes) : Prop :=
  ∀ b : Bytes, b.length = 16 → (E b).length = 16 ∧ D (E b) = b

theorem cbcGo_roundtrip (E D : Bytes → Bytes) (h : BlockInverse E D) (n : Nat) (prev data : Bytes)
    (hp : prev.length = 16) (hd : data.length = 16 * n) :
    cbcDecGo D n prev (cbcEncGo E n prev data) = data := by
  induction n generalizing prev data with
  | zero => simp at hd; simp [cbcDecGo, hd]
  | succ n ih =>
    have ht : (data.take 16).length = 16 := by simp; omega
    have hx : (xorBytes (data.take 16) prev).length = 16 := by rw [xorBytes_length]; omega
    obtain ⟨hl, hinv⟩ := h _ hx
    simp only [cbcEncGo, cbcDecGo]
    rw [List.take_left' hl, List.drop_left' hl, hinv, xorBytes_cancel _ _ (by omega),
      ih _ _ hl (by simp; omega), List.take_append_drop]

theorem cbcEncGo_length (E D : Bytes → Bytes) (h : BlockInverse E D) (n : Nat) (prev data : Bytes)
    (hp : prev.length = 16) (hd : data.length = 16 * n) :
    (cbcEncGo E n prev data).length = 16 * n := by
  induction n generalizing prev data with
  | zero => simp [cbcEncGo]
  | succ n ih =>
    have hx : (xorBytes (data.take 16) prev).length = 16 := by rw [xorBytes_length]; simp; omega
    obtain ⟨hl, _⟩ := h _ hx
    simp only [cbcEncGo, List.length_append, hl]
    rw [ih _ _ hl (by simp; omega)]; omega

theorem cbc_roundtrip (E D : Bytes → Bytes) (h : BlockInverse E D) (iv data : Bytes)
    (hiv : iv.length = 16) (hd : data.length % 16 = 0) :
    cbcDec D iv (cbcEnc E iv data) = data := by
  have hd' : data.length = 16 * (data.length / 16) := by omega
  unfold cbcDec cbcEnc
  rw [cbcEncGo_length E D h _ _ _ hiv hd']
  have : 16 * (data.length / 16) / 16 = data.length / 16 := by omega
  rw [this]
  exact cbcGo_roundtrip E D h _ _ _ hiv hd'

theorem cbcEnc_length (E D : Bytes → Bytes) (h : BlockInverse E D) (iv data : Bytes)
    (hiv : iv.length = 16) (hd : data.length % 16 = 0) : (cbcEnc E iv data).length = data.length := by
  have hd' : data.length = 16 * (data.length / 16) := by omega
  unfold cbcEnc
  rw [cbcEncGo_length E D h _ _ _ hiv hd']; omega

theorem pkcs7Pad_length (d : Bytes) : (pkcs7Pad d).length % 16 = 0 ∧ d.length < (pkcs7Pad d).length ∧
    (pkcs7Pad d).length ≤ d.length + 16 := by
  simp only [pkcs7Pad, List.length_append, List.length_replicate]
  omega

theorem pkcs7_unpad_pad (d : Bytes) : pkcs7Unpad (pkcs7Pad d) = some d := by
  have hk : 1 ≤ 16 - d.length % 16 ∧ 16 - d.length % 16 ≤ 16 := by omega
  generalize hkdef : 16 - d.length % 16 = k at hk
  have hlen := pkcs7Pad_length d
  have hpl : (pkcs7Pad d).length = d.length + k := by simp [pkcs7Pad, hkdef]
  have hpad : pkcs7Pad d = d ++ List.replicate k (UInt8.ofNat k) := by simp [pkcs7Pad, hkdef]
  have hkn : (UInt8.ofNat k).toNat = k := by
    simp [UInt8.toNat_ofNat']; omega
  have hlast : ((pkcs7Pad d).getLast?.getD 0) = UInt8.ofNat k := by
    rw [hpad, List.getLast?_append, List.getLast?_replicate, if_neg (by omega)]
    simp
  unfold pkcs7Unpad
  simp only [hlast, hkn]
  rw [if_neg (by omega), if_neg (by omega)]
  rw [hpl]
  have h1 : d.length + k - k = d.length := by omega
  rw [h1, hpad, List.drop_left, List.take_left]
  simp



/-- undoing a left fold of involutions by the right fold over the same list -/
theorem foldr_foldl_cancel {α β} (f : β → α → α) (hf : ∀ b a, f b (f b a) = a) (l : List β) (x : α) :
    l.foldr f (l.foldl (fun a b => f b a) x) = x := by
  induction l generalizing x with
  | nil => rfl
  | cons b rest ih => simp only [List.foldl_cons, List.foldr_cons, ih, hf]

theorem rc4Unchain_chain (k d : Bytes) : rc4Unchain k (rc4Chain k d) = d := by
  unfold rc4Unchain rc4Chain
  exact foldr_foldl_cancel (fun i d => rc4 (xorKey k (i + 1)) d) (fun _ _ => rc4_involutive _ _) _ _

theorem rc4Chain_length (k d : Bytes) : (rc4Chain k d).length = d.length := by
  unfold rc4Chain
  generalize List.range 19 = l
  induction l generalizing d with
  | nil => rfl
  | cons i rest ih => simp only [List.foldl_cons]; rw [ih, rc4_length]

theorem padPassword_length (pw : Bytes) : (padPassword pw).length = 32 := by
  simp [padPassword, pwPadding]

theorem padPassword_idem (pw : Bytes) : padPassword (padPassword pw) = padPassword pw := by
  have h := padPassword_length pw
  unfold padPassword at h ⊢
  rw [List.take_append_of_le_length (by omega), List.take_of_length_le (by omega)]

theorem alg3_length (rev n : Nat) (o u : Bytes) : (alg3 rev n o u).length = 32 := by
  unfold alg3
  simp only
  split <;> simp [rc4Chain_length, rc4_length, padPassword_length]

/-- Algorithm 7 (a)–(b) undoes Algorithm 3: the padded user password comes back -/
theorem alg7recover_alg3 (rev n : Nat) (ownerPw userPw : Bytes) :
    alg7recover rev n ownerPw (alg3 rev n ownerPw userPw) = padPassword userPw := by
  have hl := alg3_length rev n ownerPw userPw
  unfold alg7recover
  rw [List.take_of_length_le (by omega)]
  unfold alg3
  simp only
  split
  · rw [rc4Unchain_chain, rc4_involutive]
  · rw [rc4_involutive]

theorem alg2_padded (rev n : Nat) (pw o : Bytes) (p : Nat) (id : Bytes) (em : Bool) :
    alg2 rev n (padPassword pw) o p id em = alg2 rev n pw o p id em := by
  unfold alg2; rw [padPassword_idem]

theorem alg6_padded (rev n : Nat) (pw o u : Bytes) (p : Nat) (id : Bytes) (em : Bool) :
    alg6 rev n (padPassword pw) o u p id em = alg6 rev n pw o u p id em := by
  unfold alg6; rw [alg2_padded]

theorem alg4_length (k : Bytes) : (alg4 k).length = 32 := by simp [alg4, rc4_length, pwPadding]

/-- Algorithm 6 accepts the password the /U entry was made from, and returns the file key -/
theorem alg6_accepts (rev n : Nat) (pw o : Bytes) (p : Nat) (id : Bytes) (em : Bool)
    (h5 : rev ≠ 2 → (alg5core (alg2 rev n pw o p id em) id).length = 16) :
    alg6 rev n pw o (computeU rev n pw o p id em) p id em = some (alg2 rev n pw o p id em) := by
  unfold alg6 computeU
  by_cases h : rev = 2
  · simp only [h, if_true]
    rw [List.take_of_length_le (by rw [alg4_length]; omega)]
    simp [alg4_length]
  · simp only [h, if_false]
    have := h5 h
    unfold alg5
    rw [List.take_left' this]
    simp [this]

theorem alg7_accepts (rev n : Nat) (opw upw : Bytes) (p : Nat) (id : Bytes) (em : Bool)
    (h5 : rev ≠ 2 → (alg5core (alg2 rev n upw (alg3 rev n opw upw) p id em) id).length = 16) :
    alg7 rev n opw (alg3 rev n opw upw) (computeU rev n upw (alg3 rev n opw upw) p id em) p id em
      = some (alg2 rev n upw (alg3 rev n opw upw) p id em) := by
  unfold alg7
  rw [alg7recover_alg3, alg6_padded]
  exact alg6_accepts rev n upw _ p id em h5

/-! 2.B -/
theorem beNat_mod3 (l : Bytes) : beNat l % 3 = (l.map UInt8.toNat).sum % 3 := by
  unfold beNat
  suffices h : ∀ acc, (l.foldl (fun acc b => acc * 256 + b.toNat) acc) % 3 = (acc + (l.map UInt8.toNat).sum) % 3 by
    simpa using h 0
  induction l with
  | nil => intro acc; simp
  | cons b rest ih => intro acc; simp only [List.foldl_cons, List.map_cons, List.sum_cons]; rw [ih]; omega

theorem alg2bRound_last_lt (pw u k : Bytes) : (alg2bRound pw u k).2 < 256 := by
  unfold alg2bRound
  exact UInt8.toNat_lt _

/-- once `round + fuel ≥ 287` the fuel is never exhausted: more fuel changes nothing -/
theorem alg2bLoop_fuel (pw u : Bytes) (f1 f2 round : Nat) (k : Bytes)
    (h1 : round + f1 ≥ 287) (h2 : round + f2 ≥ 287) (hr : round ≤ 286) :
    alg2bLoop pw u f1 round k = alg2bLoop pw u f2 round k := by
  induction f1 generalizing f2 round k with
  | zero => omega
  | succ f1 ih =>
    cases f2 with
    | zero => omega
    | succ f2 =>
      simp only [alg2bLoop]
      split
      · rfl
      · rename_i hc
        have hlt := alg2bRound_last_lt pw u k
        have : round + 1 ≤ 286 := by
          by_cases h : round + 1 ≤ 286
          · exact h
          · exfalso; apply hc; omega
        exact ih f2 (round + 1) _ (by omega) (by omega) this

theorem alg2bLoop_rounds (pw u : Bytes) (f round : Nat) (k : Bytes) (h1 : round + f ≥ 287) (hr : round ≤ 286) :
    (alg2bLoop pw u f round k).2 ≤ 287 ∧ 64 ≤ (alg2bLoop pw u f round k).2 := by
  induction f generalizing round k with
  | zero => omega
  | succ f ih =>
    simp only [alg2bLoop]
    split
    · simp; omega
    · rename_i hc
      have hlt := alg2bRound_last_lt pw u k
      have : round + 1 ≤ 286 := by
        by_cases h : round + 1 ≤ 286
        · exact h
        · exfalso; apply hc; omega
      exact ih (round + 1) _ (by omega) this


end OxiVerif.Crypto
