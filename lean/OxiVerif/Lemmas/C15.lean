import OxiVerif.Model.C15
import OxiVerif.Model.C15Meta
import OxiVerif.Lemmas.C14
set_option linter.unusedSimpArgs false
set_option linter.unusedVariables false
/-! Helper lemmas for C15. -/
namespace OxiVerif.C15
open OxiVerif.C14

/-! ### the heading stack -/

abbrev Title := Nat × Str

/-- the stack after a sequence of titles -/
def stackOf (ts : List Title) : Stack := ts.foldl (fun st t => pushTitle st t.1 t.2) []

/-- SPEC: a title is still open when no later title has a level ≤ its own -/
def isOpen (t : Title) (later : List Title) : Bool := later.all fun u => t.1 < u.1

def openTitles : List Title → List Title
  | [] => []
  | t :: rest => (if isOpen t rest then [t] else []) ++ openTitles rest

theorem stackOf_snoc (ts : List Title) (t : Title) :
    stackOf (ts ++ [t]) = pushTitle (stackOf ts) t.1 t.2 := by
  simp [stackOf, List.foldl_append]

theorem openTitles_snoc (ts : List Title) (u : Title) :
    openTitles (ts ++ [u]) = (openTitles ts).filter (fun p => p.1 < u.1) ++ [u] := by
  induction ts with
  | nil => simp [openTitles, isOpen]
  | cons t r ih =>
    simp only [List.cons_append, openTitles, ih, List.filter_append]
    have : isOpen t (r ++ [u]) = (isOpen t r && decide (t.1 < u.1)) := by
      simp [isOpen, List.all_append]
    rw [this]
    by_cases h1 : isOpen t r = true <;> by_cases h2 : t.1 < u.1 <;> simp [h1, h2]

theorem stackOf_eq_openTitles (ts : List Title) : stackOf ts = openTitles ts := by
  have : ∀ n (ts : List Title), ts.length = n → stackOf ts = openTitles ts := by
    intro n
    induction n with
    | zero => intro ts h; have : ts = [] := List.length_eq_zero_iff.1 h; subst this; rfl
    | succ n ih =>
      intro ts h
      have hne : ts ≠ [] := by intro h0; simp [h0] at h
      obtain ⟨r, u, rfl⟩ : ∃ r u, ts = r ++ [u] := ⟨ts.dropLast, ts.getLast hne, (List.dropLast_concat_getLast hne).symm⟩
      have hr : r.length = n := by simp at h; omega
      rw [stackOf_snoc, openTitles_snoc, ih r hr]; rfl
  exact this _ ts rfl

theorem pushTitle_sorted (st : Stack) (lvl : Nat) (tx : Str)
    (h : (st.map (·.1)).Pairwise (· < ·)) : ((pushTitle st lvl tx).map (·.1)).Pairwise (· < ·) := by
  unfold pushTitle
  rw [List.map_append, List.pairwise_append]
  refine ⟨?_, by simp, ?_⟩
  · exact List.Pairwise.sublist (List.Sublist.map _ List.filter_sublist) h
  · intro a ha b hb
    simp at hb; subst hb
    obtain ⟨p, hp, rfl⟩ := List.mem_map.1 ha
    have := (List.mem_filter.1 hp).2
    simpa using this

/-- the title entries (level, text) of an element list -/
def titlesOf (levelOf : Elem → Nat) (els : List Elem) : List Title :=
  els.filterMap fun e => if e.isTitle then some (levelOf e, e.text) else none

theorem titlesOf_snoc (levelOf : Elem → Nat) (pre : List Elem) (e : Elem) :
    titlesOf levelOf (pre ++ [e]) =
      titlesOf levelOf pre ++ (if e.isTitle then [(levelOf e, e.text)] else []) := by
  unfold titlesOf
  rw [List.filterMap_append]
  by_cases h : e.isTitle = true <;> simp [h]

/-- SPEC of the heading pass: every element gets the titles still open after the prefix that ends
with itself -/
def specAssign (levelOf : Elem → Nat) : List Elem → List Elem → List Elem
  | _, [] => []
  | pre, e :: rest =>
    setPath e (openTitles (titlesOf levelOf (pre ++ [e]))) :: specAssign levelOf (pre ++ [e]) rest

theorem assignFrom_eq_spec (levelOf : Elem → Nat) (els pre : List Elem) :
    assignFrom levelOf (stackOf (titlesOf levelOf pre)) els = specAssign levelOf pre els := by
  induction els generalizing pre with
  | nil => rfl
  | cons e rest ih =>
    simp only [assignFrom, specAssign]
    have hst : (if e.isTitle = true then pushTitle (stackOf (titlesOf levelOf pre)) (levelOf e) e.text
        else stackOf (titlesOf levelOf pre)) = stackOf (titlesOf levelOf (pre ++ [e])) := by
      rw [titlesOf_snoc]
      by_cases h : e.isTitle = true
      · simp [h, stackOf_snoc]
      · simp [h]
    rw [hst, ih (pre ++ [e]), stackOf_eq_openTitles]

/-! ### the document-level pass overwrites the per-page passes -/

theorem setPath_erase (e : Elem) (st : Stack) : setPath (erasePath e) st = setPath e st := rfl
theorem erase_setPath (e : Elem) (st : Stack) : erasePath (setPath e st) = erasePath e := rfl
theorem erase_isTitle (e : Elem) : (erasePath e).isTitle = e.isTitle := rfl
theorem erase_text (e : Elem) : (erasePath e).text = e.text := rfl

/-- the pass reads nothing of what it overwrites -/
theorem assignFrom_erase (levelOf : Elem → Nat) (hl : ∀ e, levelOf (erasePath e) = levelOf e)
    (st : Stack) (l : List Elem) :
    assignFrom levelOf st (l.map erasePath) = assignFrom levelOf st l := by
  induction l generalizing st with
  | nil => rfl
  | cons e r ih =>
    simp only [List.map_cons, assignFrom, erase_isTitle, erase_text, hl, setPath_erase, ih]

theorem assignFrom_map_erase (levelOf : Elem → Nat) (st : Stack) (l : List Elem) :
    (assignFrom levelOf st l).map erasePath = l.map erasePath := by
  induction l generalizing st with
  | nil => rfl
  | cons e r ih => simp only [assignFrom, List.map_cons, erase_setPath, ih]

theorem splitPages_flatten (els : List Elem) : (splitPages els).flatten = els := by
  induction els with
  | nil => rfl
  | cons e r ih =>
    simp only [splitPages]
    split
    · rename_i f g more h
      rw [h] at ih
      split <;> simp [← ih]
    · rename_i h
      simp [ih]

theorem assignPerPage_map_erase (levelOf : Elem → Nat) (els : List Elem) :
    (assignPerPage levelOf els).map erasePath = els.map erasePath := by
  unfold assignPerPage
  have : ∀ pages : List (List Elem),
      (pages.flatMap (assignHeadingPaths levelOf)).map erasePath = pages.flatten.map erasePath := by
    intro pages
    induction pages with
    | nil => rfl
    | cons p r ih =>
      simp only [List.flatMap_cons, List.map_append, List.flatten_cons, ih, assignHeadingPaths,
        assignFrom_map_erase]
  rw [this, splitPages_flatten]

/-! ### `collect_pages` -/

theorem mem_insertAsc (p x : Nat) (l : List Nat) : x ∈ insertAsc p l ↔ x = p ∨ x ∈ l := by
  induction l with
  | nil => simp [insertAsc]
  | cons a r ih =>
    unfold insertAsc
    split
    · simp
    · simp [ih]; constructor
      · rintro (h | h | h) <;> simp [h]
      · rintro (h | h | h) <;> simp [h]

theorem mem_sortAsc (x : Nat) (l : List Nat) : x ∈ sortAsc l ↔ x ∈ l := by
  induction l with
  | nil => simp [sortAsc]
  | cons a r ih =>
    have : sortAsc (a :: r) = insertAsc a (sortAsc r) := rfl
    rw [this, mem_insertAsc, ih]; simp

theorem sorted_insertAsc (p : Nat) (l : List Nat) (hs : l.Pairwise (· < ·)) (hn : p ∉ l) :
    (insertAsc p l).Pairwise (· < ·) := by
  induction l with
  | nil => simp [insertAsc]
  | cons a r ih =>
    have hpa : p ≠ a := by intro h; apply hn; simp [h]
    have hpr : p ∉ r := by intro h; apply hn; simp [h]
    rw [List.pairwise_cons] at hs
    unfold insertAsc
    split
    · rename_i hle
      have hlt : p < a := by omega
      rw [List.pairwise_cons]
      refine ⟨?_, List.pairwise_cons.2 hs⟩
      intro b hb
      rcases List.mem_cons.1 hb with h | h
      · omega
      · have := hs.1 b h; omega
    · rename_i hle
      rw [List.pairwise_cons]
      refine ⟨?_, ih hs.2 hpr⟩
      intro b hb
      rcases (mem_insertAsc p b r).1 hb with h | h
      · omega
      · exact hs.1 b h

theorem sorted_sortAsc (l : List Nat) (hn : l.Nodup) : (sortAsc l).Pairwise (· < ·) := by
  induction l with
  | nil => simp [sortAsc]
  | cons a r ih =>
    have : sortAsc (a :: r) = insertAsc a (sortAsc r) := rfl
    rw [this]
    rw [List.nodup_cons] at hn
    exact sorted_insertAsc a _ (ih hn.2) (by rw [mem_sortAsc]; exact hn.1)

theorem mem_dedupFirst (x : Nat) (seen l : List Nat) :
    x ∈ dedupFirst seen l ↔ x ∈ l ∧ x ∉ seen := by
  induction l generalizing seen with
  | nil => simp [dedupFirst]
  | cons a r ih =>
    unfold dedupFirst
    split
    · rename_i h
      have ha : a ∈ seen := by simpa using h
      rw [ih]; constructor
      · rintro ⟨h1, h2⟩; exact ⟨by simp [h1], h2⟩
      · rintro ⟨h1, h2⟩
        rcases List.mem_cons.1 h1 with h | h
        · subst h; exact absurd ha h2
        · exact ⟨h, h2⟩
    · rename_i h
      have ha : a ∉ seen := by simpa using h
      rw [List.mem_cons, ih]; constructor
      · rintro (h | ⟨h1, h2⟩)
        · subst h; exact ⟨by simp, ha⟩
        · exact ⟨by simp [h1], fun h3 => h2 (by simp [h3])⟩
      · rintro ⟨h1, h2⟩
        by_cases hx : x = a
        · exact Or.inl hx
        · right
          rcases List.mem_cons.1 h1 with h | h
          · exact absurd h hx
          · exact ⟨h, by simp [hx, h2]⟩

theorem nodup_dedupFirst (seen l : List Nat) : (dedupFirst seen l).Nodup := by
  induction l generalizing seen with
  | nil => simp [dedupFirst]
  | cons a r ih =>
    unfold dedupFirst
    split
    · exact ih seen
    · rw [List.nodup_cons]
      refine ⟨?_, ih _⟩
      rw [mem_dedupFirst]; simp

/-! ### ids and links -/

theorem linkFrom_ids (p : Option Str) (cs : List RagChunk) :
    (linkFrom p cs).map (·.chunkId) = cs.map (·.chunkId) := by
  induction cs generalizing p with
  | nil => rfl
  | cons c r ih => simp [linkFrom, ih]

theorem linkFrom_prev (p : Option Str) (cs : List RagChunk) :
    (linkFrom p cs).map (·.prev) = (p :: cs.map (fun c => some c.chunkId)).take cs.length := by
  induction cs generalizing p with
  | nil => rfl
  | cons c r ih => simp [linkFrom, ih]

theorem linkFrom_next (p : Option Str) (cs : List RagChunk) :
    (linkFrom p cs).map (·.next) =
      (cs.map (fun c => some c.chunkId)).drop 1 ++ (if cs.isEmpty then [] else [none]) := by
  induction cs generalizing p with
  | nil => rfl
  | cons c r ih =>
    cases r with
    | nil => simp [linkFrom]
    | cons d r' =>
      have := ih (some c.chunkId)
      simp only [linkFrom, List.map_cons] at this ⊢
      simp [this]

theorem linkFrom_core (p : Option Str) (cs : List RagChunk) :
    (linkFrom p cs).map (fun r => (r.index, r.text, r.fullText, r.pages, r.tokenEstimate, r.oversized, r.headingPath, r.heading)) =
      cs.map (fun r => (r.index, r.text, r.fullText, r.pages, r.tokenEstimate, r.oversized, r.headingPath, r.heading)) := by
  induction cs generalizing p with
  | nil => rfl
  | cons c r ih => simp [linkFrom, ih]

theorem mapIdxFrom_map {β : Type} (f : Nat → Chunk → RagChunk) (g : RagChunk → β) (k : Nat) (cs : List Chunk) :
    (mapIdxFrom f k cs).map g = (cs.zip (List.range' k cs.length)).map (fun x => g (f x.2 x.1)) := by
  induction cs generalizing k with
  | nil => rfl
  | cons c r ih => simp [mapIdxFrom, ih, List.range'_succ]

/-! ### metadata -/

theorem dedupFirst_all_seen (seen l : List Nat) (h : ∀ x ∈ l, x ∈ seen) : dedupFirst seen l = [] := by
  induction l with
  | nil => rfl
  | cons p r ih =>
    have hp : seen.contains p = true := by simpa using h p (by simp)
    simp only [dedupFirst, hp, if_true]
    exact ih (fun x hx => h x (by simp [hx]))

theorem flags_fold (es : List Elem) (a : Flags) :
    es.foldl (fun (a : Flags) e =>
      ({ hasTable := a.hasTable || e.kind == .table,
         hasList := a.hasList || e.kind == .listItem,
         hasCode := a.hasCode || e.kind == .codeBlock,
         headingOnly := a.headingOnly && e.kind == .title } : Flags)) a =
      { hasTable := a.hasTable || es.any (·.kind == .table),
        hasList := a.hasList || es.any (·.kind == .listItem),
        hasCode := a.hasCode || es.any (·.kind == .codeBlock),
        headingOnly := a.headingOnly && es.all (·.kind == .title) } := by
  induction es generalizing a with
  | nil => simp
  | cons e r ih => simp only [List.foldl_cons, ih, List.any_cons, List.all_cons, Bool.or_assoc, Bool.and_assoc]

end OxiVerif.C15
