import OxiVerif.Model.C01Xref
/-!
Helper lemmas for C01: a small calculus for "`Outcome` is / is not a panic" through `>>=`, the
ASCII85 group sum, the predictor sizing.
-/
namespace OxiVerif.C01

namespace Outcome

@[simp] theorem isPanic_ok {α} (a : α) : (Outcome.ok a).isPanic = false := rfl
@[simp] theorem isPanic_err {α} : (Outcome.err : Outcome α).isPanic = false := rfl
@[simp] theorem isPanic_panic {α} (k : PK) : (Outcome.panic k : Outcome α).isPanic = true := rfl
@[simp] theorem isPanic_diverge {α} : (Outcome.diverge : Outcome α).isPanic = false := rfl
@[simp] theorem isPanic_pure {α} (a : α) : (pure a : Outcome α).isPanic = false := rfl
@[simp] theorem pure_eq_ok {α} (a : α) : (pure a : Outcome α) = .ok a := rfl

/-- a bind panics iff its first part panics or its continuation does -/
theorem isPanic_bind {α β} (x : Outcome α) (f : α → Outcome β) :
    (x >>= f).isPanic = true ↔ x.isPanic = true ∨ ∃ a, x = .ok a ∧ (f a).isPanic = true := by
  cases x <;> simp [Bind.bind, Outcome.bind, isPanic]

theorem not_isPanic_bind {α β} (x : Outcome α) (f : α → Outcome β)
    (hx : x.isPanic = false) (hf : ∀ a, x = .ok a → (f a).isPanic = false) :
    (x >>= f).isPanic = false := by
  cases x with
  | ok a => exact hf a rfl
  | err => rfl
  | panic k => simp [isPanic] at hx
  | diverge => rfl

end Outcome

open Outcome

/-! ### checked arithmetic -/

theorem mulU_isPanic (m a b : Nat) : (mulU m a b).isPanic = true ↔ m ≤ a * b := by
  unfold mulU; by_cases h : a * b < m <;> simp [h] <;> omega

theorem mulU_eq_ok (m a b v : Nat) : mulU m a b = .ok v ↔ a * b < m ∧ v = a * b := by
  unfold mulU; by_cases h : a * b < m <;> simp [h, eq_comm]

theorem addU_isPanic (m a b : Nat) : (addU m a b).isPanic = true ↔ m ≤ a + b := by
  unfold addU; by_cases h : a + b < m <;> simp [h] <;> omega

theorem addU_eq_ok (m a b v : Nat) : addU m a b = .ok v ↔ a + b < m ∧ v = a + b := by
  unfold addU; by_cases h : a + b < m <;> simp [h, eq_comm]

@[simp] theorem ckMul_isPanic (a b : Nat) : (ckMul a b).isPanic = false := by
  unfold ckMul; by_cases h : a * b < USIZE <;> simp [h]

@[simp] theorem ckAdd_isPanic (a b : Nat) : (ckAdd a b).isPanic = false := by
  unfold ckAdd; by_cases h : a + b < USIZE <;> simp [h]

theorem ckMul_eq_ok (a b v : Nat) : ckMul a b = .ok v ↔ a * b < USIZE ∧ v = a * b := by
  unfold ckMul; by_cases h : a * b < USIZE <;> simp [h, eq_comm]

theorem ckAdd_eq_ok (a b v : Nat) : ckAdd a b = .ok v ↔ a + b < USIZE ∧ v = a + b := by
  unfold ckAdd; by_cases h : a + b < USIZE <;> simp [h, eq_comm]

/-! ### ASCII85 group sum -/

/-- spec-side value of the characters `g` placed at positions `i, i+1, …` of a group -/
def gsum : Nat → List Nat → Nat
  | _, [] => 0
  | i, c :: rest => (c - 33) * pow85 i + gsum (i + 1) rest

/-- `groupSum` panics iff the running total leaves `u32`; otherwise it returns the total.
Holds for groups of any length and any character values. -/
theorem groupSum_spec (g : List Nat) : ∀ (i acc : Nat), acc < U32 →
    ((groupSum i acc g).isPanic = true ↔ U32 ≤ acc + gsum i g) ∧
    (acc + gsum i g < U32 → groupSum i acc g = .ok (acc + gsum i g)) := by
  induction g with
  | nil => intro i acc h; simp [groupSum, gsum]; omega
  | cons c rest ih =>
    intro i acc h
    simp only [groupSum, gsum]
    by_cases h1 : (c - 33) * pow85 i < U32
    · by_cases h2 : acc + (c - 33) * pow85 i < U32
      · have e1 : mulU U32 (c - 33) (pow85 i) = .ok ((c - 33) * pow85 i) := by simp [mulU, h1]
        have e2 : addU U32 acc ((c - 33) * pow85 i) = .ok (acc + (c - 33) * pow85 i) := by simp [addU, h2]
        rw [e1, Outcome.bind_ok, e2, Outcome.bind_ok]
        have := ih (i + 1) (acc + (c - 33) * pow85 i) h2
        rw [Nat.add_assoc] at this
        exact this
      · have e1 : mulU U32 (c - 33) (pow85 i) = .ok ((c - 33) * pow85 i) := by simp [mulU, h1]
        have e2 : addU U32 acc ((c - 33) * pow85 i) = .panic .add := by simp [addU, h2]
        rw [e1, Outcome.bind_ok, e2, Outcome.bind_panic]
        constructor
        · simp; omega
        · intro h3; omega
    · have e1 : mulU U32 (c - 33) (pow85 i) = .panic .mul := by simp [mulU, h1]
      rw [e1, Outcome.bind_panic]
      constructor
      · simp; omega
      · intro h3; omega

end OxiVerif.C01
