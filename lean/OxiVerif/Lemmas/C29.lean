import OxiVerif.Model.C29
set_option linter.unusedSimpArgs false
/-! Helper lemmas for C29 (LRU refinement). -/
namespace OxiVerif.C29

def keys (m : List (Nat × Nat)) : List Nat := m.map Prod.fst

structure Inv (s : Impl) : Prop where
  orderNodup : s.order.Nodup
  keysNodup : (keys s.map).Nodup
  mem_iff : ∀ k, k ∈ s.order ↔ k ∈ keys s.map
  size_le : s.map.length ≤ s.cap
  len_eq : s.order.length = s.map.length

theorem lookup_isSome_iff (k : Nat) (m : List (Nat × Nat)) :
    (lookup k m).isSome ↔ k ∈ keys m := by
  induction m with
  | nil => simp [lookup, keys]
  | cons p r ih =>
    obtain ⟨k', v⟩ := p
    by_cases h : k' = k <;> simp_all [lookup, keys] 
    omega

theorem lookup_none_iff (k : Nat) (m : List (Nat × Nat)) :
    lookup k m = none ↔ k ∉ keys m := by
  rw [← lookup_isSome_iff]; cases lookup k m <;> simp

theorem lookup_insertKV_self (k v : Nat) (m : List (Nat × Nat)) :
    lookup k (insertKV k v m) = some v := by
  induction m with
  | nil => simp [insertKV, lookup]
  | cons p r ih =>
    obtain ⟨k', v'⟩ := p
    by_cases h : k' = k <;> simp_all [insertKV, lookup]

theorem lookup_insertKV_ne (k v k' : Nat) (m : List (Nat × Nat)) (h : k' ≠ k) :
    lookup k' (insertKV k v m) = lookup k' m := by
  induction m with
  | nil => simp [insertKV, lookup]; omega
  | cons p r ih =>
    obtain ⟨k'', v''⟩ := p
    by_cases h2 : k'' = k
    · subst h2; simp [insertKV, lookup]; rw [if_neg (Ne.symm h), if_neg (Ne.symm h)]
    · simp [insertKV, lookup, h2, ih]

theorem lookup_removeK_ne (k k' : Nat) (m : List (Nat × Nat)) (h : k' ≠ k) :
    lookup k' (removeK k m) = lookup k' m := by
  induction m with
  | nil => simp [removeK, lookup]
  | cons p r ih =>
    obtain ⟨k'', v''⟩ := p
    simp only [removeK, List.filter_cons] at *
    by_cases h2 : k'' = k
    · subst h2; simp [lookup, ih]; omega
    · simp [lookup, h2, ih]

theorem lookup_removeK_self (k : Nat) (m : List (Nat × Nat)) :
    lookup k (removeK k m) = none := by
  induction m with
  | nil => simp [removeK, lookup]
  | cons p r ih =>
    obtain ⟨k'', v''⟩ := p
    simp only [removeK, List.filter_cons] at *
    by_cases h2 : k'' = k
    · subst h2; simp [ih]
    · simp [lookup, h2, ih]

end OxiVerif.C29

namespace OxiVerif.C29

def pairOf (m : List (Nat × Nat)) (k : Nat) : Option (Nat × Nat) :=
  (lookup k m).map (fun v => (k, v))

theorem abs_items (s : Impl) : (abs s).items = s.order.filterMap (pairOf s.map) := rfl

theorem filterMap_filter_ne (m : List (Nat × Nat)) (k : Nat) (order : List Nat) :
    (order.filter (· != k)).filterMap (pairOf m) = removeK k (order.filterMap (pairOf m)) := by
  induction order with
  | nil => simp [removeK]
  | cons a r ih =>
    by_cases h : a = k
    · subst h
      cases hl : lookup a m <;> simp_all [pairOf, removeK, List.filter_cons]
    · cases hl : lookup a m <;> simp_all [pairOf, removeK, List.filter_cons]

theorem filterMap_congr' (m1 m2 : List (Nat × Nat)) (order : List Nat)
    (h : ∀ k ∈ order, lookup k m1 = lookup k m2) :
    order.filterMap (pairOf m1) = order.filterMap (pairOf m2) := by
  induction order with
  | nil => rfl
  | cons a r ih =>
    have h1 : lookup a m1 = lookup a m2 := h a (by simp)
    have h2 := ih (fun k hk => h k (by simp [hk]))
    rw [List.filterMap_cons, List.filterMap_cons, h2]
    simp [pairOf, h1]

theorem filterMap_total (m : List (Nat × Nat)) (order : List Nat)
    (h : ∀ k ∈ order, k ∈ keys m) :
    order.filterMap (pairOf m) = order.map (fun k => (k, (lookup k m).getD 0)) := by
  induction order with
  | nil => rfl
  | cons a r ih =>
    have ha : (lookup a m).isSome := (lookup_isSome_iff a m).2 (h a (by simp))
    have h2 := ih (fun k hk => h k (by simp [hk]))
    cases hl : lookup a m with
    | none => simp [hl] at ha
    | some v => simp [List.filterMap_cons, pairOf, hl]; simpa [pairOf] using h2

theorem lookup_filterMap (m : List (Nat × Nat)) (k : Nat) (order : List Nat) :
    lookup k (order.filterMap (pairOf m)) = if k ∈ order then lookup k m else none := by
  induction order with
  | nil => simp [lookup]
  | cons a r ih =>
    cases hl : lookup a m with
    | none =>
      by_cases h : a = k
      · subst h; simp [List.filterMap_cons, pairOf, hl, ih]
      · simp [List.filterMap_cons, pairOf, hl, ih]; 
        have : ¬ k = a := fun e => h e.symm
        simp [this]
    | some v =>
      by_cases h : a = k
      · subst h; simp [List.filterMap_cons, pairOf, hl, lookup]
      · have : ¬ k = a := fun e => h e.symm
        simp [List.filterMap_cons, pairOf, hl, lookup, h, this]
        simpa [pairOf] using ih

theorem removeK_not_mem (m : List (Nat × Nat)) (k : Nat) (order : List Nat) (h : k ∉ order) :
    removeK k (order.filterMap (pairOf m)) = order.filterMap (pairOf m) := by
  rw [← filterMap_filter_ne]
  congr 1
  apply List.filter_eq_self.2
  intro a ha
  have : a ≠ k := fun e => h (e ▸ ha)
  simp [this]

theorem keys_insertKV_mem (k v : Nat) (m : List (Nat × Nat)) (h : k ∈ keys m) :
    keys (insertKV k v m) = keys m := by
  induction m with
  | nil => simp [keys] at h
  | cons p r ih =>
    obtain ⟨k', v'⟩ := p
    by_cases h2 : k' = k
    · subst h2; simp [insertKV, keys]
    · have : k ∈ keys r := by simp [keys] at h ⊢; rcases h with h | h; exact absurd h.symm h2; exact h
      have ih' := ih this
      simp [insertKV, h2]; simp [keys] at ih' ⊢; exact ih'

theorem keys_insertKV_not_mem (k v : Nat) (m : List (Nat × Nat)) (h : k ∉ keys m) :
    keys (insertKV k v m) = keys m ++ [k] := by
  induction m with
  | nil => simp [keys, insertKV]
  | cons p r ih =>
    obtain ⟨k', v'⟩ := p
    have h2 : ¬ k' = k := by intro e; apply h; simp [keys, e]
    have : k ∉ keys r := by intro e; apply h; simp [keys] at e ⊢; exact Or.inr e
    have ih' := ih this
    simp [insertKV, h2]; simp [keys] at ih' ⊢; exact ih'

theorem keys_removeK (k : Nat) (m : List (Nat × Nat)) :
    keys (removeK k m) = (keys m).filter (· != k) := by
  induction m with
  | nil => rfl
  | cons p r ih =>
    obtain ⟨k', v'⟩ := p
    by_cases h2 : k' = k <;> simp_all [removeK, keys, List.filter_cons]

theorem length_filter_ne_of_nodup (l : List Nat) (k : Nat) (hn : l.Nodup) (hk : k ∈ l) :
    (l.filter (· != k)).length + 1 = l.length := by
  induction l with
  | nil => simp at hk
  | cons a r ih =>
    have hn' := List.nodup_cons.1 hn
    by_cases h : a = k
    · subst h
      have : r.filter (· != a) = r := by
        apply List.filter_eq_self.2; intro b hb
        have : b ≠ a := fun e => hn'.1 (e ▸ hb)
        simp [this]
      simp [List.filter_cons, this]
    · have hk' : k ∈ r := by simp at hk; rcases hk with e | e; exact absurd e.symm h; exact e
      have := ih hn'.2 hk'
      simp [List.filter_cons, h]; omega

end OxiVerif.C29
