import OxiVerif.Lemmas.C07
/-!
C07 helper lemmas, TIFF predictor 2 with 8 bits per component: `apply_tiff_predictor`
(Model/C08.lean `tiffPredictor`) inverts the reference encoder `tiffEnc`, every geometry, every length
(incl. a trailing partial row, which both sides leave alone).
-/
namespace OxiVerif.Flt
open OxiVerif.Codec

/-- the per-row map of `tiffEnc` -/
def tiffEncRows (rb columns colors : Nat) (fuel : Nat) (data : List Nat) : List Nat :=
  ((chunk rb fuel data).map fun row => if row.length < rb then row else tiffRow columns colors 8 row).flatten

theorem tiffRows_tiffEncRows (rb columns colors samples : Nat) (hrb : 0 < rb) :
    ∀ (fuel : Nat) (data : List Nat) (f2 : Nat), data.length < fuel → data.length < f2 → Bytes data →
      tiffRows rb colors samples 8 f2 (tiffEncRows rb columns colors fuel data) = data ∧
      (tiffEncRows rb columns colors fuel data).length = data.length := by
  intro fuel
  induction fuel with
  | zero => intro data _ h; omega
  | succ fuel ih =>
    intro data f2 hf hf2 hb
    obtain ⟨f2, rfl⟩ : ∃ k, f2 = k + 1 := ⟨f2 - 1, by omega⟩
    unfold tiffEncRows
    simp only [chunk]
    by_cases he : data.isEmpty = true
    · have : data = [] := by simpa using he
      subst this
      simp [tiffRows]; omega
    · have hne : data ≠ [] := by simpa using he
      rw [if_neg (by simp [he]; omega)]
      simp only [List.map_cons, List.flatten_cons]
      by_cases hlt : data.length < rb
      · have htake : data.take rb = data := List.take_of_length_le (by omega)
        have hdrop : data.drop rb = [] := List.drop_of_length_le (by omega)
        have hch : chunk rb fuel ([] : List Nat) = [] := by cases fuel <;> simp [chunk]
        rw [htake, hdrop, hch, if_pos hlt]
        simp [tiffRows, hlt]
      · have hlen : (data.take rb).length = rb := by simp [List.length_take]; omega
        rw [if_neg (by omega)]
        have hdl : (data.drop rb).length < fuel := by simp; omega
        have hdl2 : (data.drop rb).length < f2 := by simp; omega
        obtain ⟨ih1, ih2⟩ := ih (data.drop rb) f2 hdl hdl2 (hb.drop rb)
        unfold tiffEncRows at ih1 ih2
        have hrow : (tiffRow columns colors 8 (data.take rb)).length = rb := by
          simp [tiffRow, hlen]
        constructor
        · simp only [tiffRows]
          rw [if_neg (by simp [hrow])]
          rw [List.take_append_of_le_length (by omega), List.take_of_length_le (by omega),
            List.drop_append_of_le_length (by omega), List.drop_of_length_le (by omega), List.nil_append, ih1]
          simp only [tiffUnRow, tiffRow, if_true]
          rw [unfilterRow_filterRow _ _ _ _ (hb.take rb), List.take_append_drop]
        · rw [List.length_append, ih2, hrow]
          simp; omega

theorem tiffEnc8_eq (columns colors : Nat) (data : List Nat) (h : rowBytes columns colors 8 ≠ 0) :
    tiffEnc columns colors 8 data = tiffEncRows (rowBytes columns colors 8) columns colors (data.length + 1) data := by
  unfold tiffEnc tiffEncRows
  simp only [h, if_false]

/-- **TIFF predictor 2, 8 bits per component**: `apply_tiff_predictor` inverts the reference encoder -/
theorem tiffPredictor_tiffEnc8 (columns colors : Nat) (d : Dict)
    (hc : d.columns = .int columns) (hk : d.colors = .int colors) (hb : d.bpc = .int 8)
    (hcol : columns < two64) (hcolr : colors < two64)
    (hfit : columns * colors * 8 + 7 < two64) (data : List Nat) (hbytes : Bytes data) :
    tiffPredictor (tiffEnc columns colors 8 data) d = .ok data := by
  have h8 : asUsize ((8 : Nat) : Int) = 8 := asUsize_ofNat 8 (by unfold two64; omega)
  unfold tiffPredictor
  simp only [hc, hk, hb, PVal.asInt, Option.getD_some, asUsize_ofNat _ hcol, asUsize_ofNat _ hcolr]
  rw [show ((8 : Int)) = ((8 : Nat) : Int) from rfl, h8]
  rw [if_neg (by simp), if_neg (by omega), if_neg (by omega), if_neg (by omega)]
  have hrb : (columns * colors * 8 + 7) / 8 = rowBytes columns colors 8 := rfl
  rw [hrb]
  by_cases h0 : rowBytes columns colors 8 = 0
  · rw [if_pos h0]
    unfold tiffEnc
    simp only [h0, if_true]
  · rw [if_neg h0, tiffEnc8_eq _ _ _ h0]
    have := tiffRows_tiffEncRows (rowBytes columns colors 8) columns colors (columns * colors) (by omega)
      (data.length + 1) data ((tiffEncRows (rowBytes columns colors 8) columns colors (data.length + 1) data).length + 1)
      (Nat.lt_succ_self _)
    have hlen := (tiffRows_tiffEncRows (rowBytes columns colors 8) columns colors (columns * colors) (by omega)
      (data.length + 1) data (data.length + 1) (Nat.lt_succ_self _) (Nat.lt_succ_self _) hbytes).2
    rw [(this (by rw [hlen]; exact Nat.lt_succ_self _) hbytes).1]

end OxiVerif.Flt
