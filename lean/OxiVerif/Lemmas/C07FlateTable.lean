import OxiVerif.Model.C07Inflate
/-!
C07: the fixed literal/length Huffman table of RFC 1951 §3.2.6 as `mkHuff` builds it, evaluated once by
the kernel (a finite table).
-/
namespace OxiVerif.Inflate

/-! ### the fixed table, evaluated once -/

theorem fixedLit_count :
    fixedLit.count = #[0, 0, 0, 0, 0, 0, 0, 24, 152, 112, 0, 0, 0, 0, 0, 0] := by decide +kernel

/-- symbols ordered by (code length, value): 256–279 (7 bits), 0–143 and 280–287 (8 bits), 144–255 (9 bits) -/
def fixedSyms : Array Nat := #[256, 257, 258, 259, 260, 261, 262, 263, 264, 265, 266, 267, 268, 269, 270, 271, 272, 273, 274, 275, 276, 277, 278, 279, 0, 1, 2, 3, 4, 5, 6, 7, 8, 9, 10, 11, 12, 13, 14, 15, 16, 17, 18, 19, 20, 21, 22, 23, 24, 25, 26, 27, 28, 29, 30, 31, 32, 33, 34, 35, 36, 37, 38, 39, 40, 41, 42, 43, 44, 45, 46, 47, 48, 49, 50, 51, 52, 53, 54, 55, 56, 57, 58, 59, 60, 61, 62, 63, 64, 65, 66, 67, 68, 69, 70, 71, 72, 73, 74, 75, 76, 77, 78, 79, 80, 81, 82, 83, 84, 85, 86, 87, 88, 89, 90, 91, 92, 93, 94, 95, 96, 97, 98, 99, 100, 101, 102, 103, 104, 105, 106, 107, 108, 109, 110, 111, 112, 113, 114, 115, 116, 117, 118, 119, 120, 121, 122, 123, 124, 125, 126, 127, 128, 129, 130, 131, 132, 133, 134, 135, 136, 137, 138, 139, 140, 141, 142, 143, 280, 281, 282, 283, 284, 285, 286, 287, 144, 145, 146, 147, 148, 149, 150, 151, 152, 153, 154, 155, 156, 157, 158, 159, 160, 161, 162, 163, 164, 165, 166, 167, 168, 169, 170, 171, 172, 173, 174, 175, 176, 177, 178, 179, 180, 181, 182, 183, 184, 185, 186, 187, 188, 189, 190, 191, 192, 193, 194, 195, 196, 197, 198, 199, 200, 201, 202, 203, 204, 205, 206, 207, 208, 209, 210, 211, 212, 213, 214, 215, 216, 217, 218, 219, 220, 221, 222, 223, 224, 225, 226, 227, 228, 229, 230, 231, 232, 233, 234, 235, 236, 237, 238, 239, 240, 241, 242, 243, 244, 245, 246, 247, 248, 249, 250, 251, 252, 253, 254, 255]

theorem fixedLit_symbol : fixedLit.symbol = fixedSyms := by decide +kernel

theorem fixedLit_sym_eob : fixedLit.symbol.getD 0 0 = 256 := by rw [fixedLit_symbol]; decide +kernel

theorem fixedLit_sym8 : ∀ j, j < 144 → fixedLit.symbol.getD (24 + j) 0 = j := by
  rw [fixedLit_symbol]; decide +kernel

theorem fixedLit_sym9 : ∀ j, j < 112 → fixedLit.symbol.getD (176 + j) 0 = 144 + j := by
  rw [fixedLit_symbol]; decide +kernel

end OxiVerif.Inflate
