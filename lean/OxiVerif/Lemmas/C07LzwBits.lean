import OxiVerif.Lemmas.C07
/-!
C07 helper lemmas, LZW layer 1 (bit packing): `LzwBitReader::read_bits` (Model/C08.lean `readBits`)
reads back, code by code, what the reference packer (Spec/C07Codecs.lean `lzwPack`) wrote, for every
sequence of (code, width) pairs with `1 ≤ width ≤ 16` and `code < 2^width`.

The reader is byte/offset based (it takes up to `8 - bit_pos` bits per turn with shifts and masks), the
packer is a bit list cut into bytes; the bridge is `stream r` = the bits the reader has not consumed.
-/
namespace OxiVerif.Flt
open OxiVerif.Codec

/-! ### values of bit lists -/

theorem foldl_bits (bs : List Bool) (acc : Nat) :
    bs.foldl (fun acc b => acc * 2 + (if b then 1 else 0)) acc = acc * 2 ^ bs.length + bitsToByte bs := by
  induction bs generalizing acc with
  | nil => simp [bitsToByte]
  | cons b bs ih =>
    simp only [List.foldl_cons, List.length_cons, bitsToByte]
    rw [ih, ih (0 * 2 + _)]
    rw [Nat.pow_succ, Nat.zero_mul, Nat.zero_add, Nat.add_mul, Nat.mul_assoc, Nat.mul_comm 2]
    omega

theorem bitsToByte_cons (b : Bool) (bs : List Bool) :
    bitsToByte (b :: bs) = (if b then 1 else 0) * 2 ^ bs.length + bitsToByte bs := by
  simp only [bitsToByte, List.foldl_cons]
  rw [foldl_bits]
  simp [bitsToByte]

theorem bitsToByte_append (a b : List Bool) : bitsToByte (a ++ b) = bitsToByte a * 2 ^ b.length + bitsToByte b := by
  simp only [bitsToByte, List.foldl_append]
  rw [foldl_bits]
  simp [bitsToByte]

theorem bitsToByte_lt (bs : List Bool) : bitsToByte bs < 2 ^ bs.length := by
  induction bs with
  | nil => simp [bitsToByte]
  | cons b bs ih =>
    rw [bitsToByte_cons, List.length_cons, Nat.pow_succ]
    cases b <;> simp <;> omega

@[simp] theorem codeBits_length (w c : Nat) : (codeBits w c).length = w := by
  induction w with
  | zero => rfl
  | succ w ih => simp [codeBits, ih]

/-- the bits `p … p+k-1` (from the most significant) of the `w`-bit representation of `x` -/
theorem bitsToByte_codeBits_slice : ∀ (w x p k : Nat), p + k ≤ w →
    bitsToByte (((codeBits w x).drop p).take k) = x / 2 ^ (w - p - k) % 2 ^ k := by
  intro w
  induction w with
  | zero =>
    intro x p k h
    have hp : p = 0 := by omega
    have hk : k = 0 := by omega
    subst hp; subst hk
    simp [codeBits, bitsToByte, Nat.mod_one]
  | succ w ih =>
    intro x p k h
    cases p with
    | succ p =>
      simp only [codeBits, List.drop_succ_cons]
      rw [ih x p k (by omega)]
      congr 2
      congr 1
      omega
    | zero =>
      cases k with
      | zero => simp [bitsToByte, Nat.mod_one]
      | succ k =>
        simp only [codeBits, List.drop_zero, List.take_succ_cons]
        rw [bitsToByte_cons]
        have hlen : ((codeBits w x).take k).length = k := by simp [List.length_take]; omega
        have ih0 := ih x 0 k (by omega)
        simp only [List.drop_zero, Nat.sub_zero] at ih0
        rw [hlen, ih0]
        have e1 : w + 1 - 0 - (k + 1) = w - k := by omega
        rw [e1]
        have hw : 2 ^ w = 2 ^ (w - k) * 2 ^ k := by rw [← Nat.pow_add]; congr 1; omega
        have hdiv : x / 2 ^ w = x / 2 ^ (w - k) / 2 ^ k := by rw [hw, Nat.div_div_eq_div_mul]
        rw [Nat.mod_pow_succ, hdiv]
        generalize x / 2 ^ (w - k) = y
        have hb : (if (y / 2 ^ k % 2 == 1) = true then 1 else 0) = y / 2 ^ k % 2 := by
          have : y / 2 ^ k % 2 < 2 := Nat.mod_lt _ (by omega)
          by_cases h1 : y / 2 ^ k % 2 = 1
          · simp [h1]
          · have h0 : y / 2 ^ k % 2 = 0 := by omega
            simp [h0]
        rw [hb, Nat.mul_comm]
        omega

theorem bitsToByte_codeBits (w c : Nat) (hc : c < 2 ^ w) : bitsToByte (codeBits w c) = c := by
  have := bitsToByte_codeBits_slice w c 0 w (by omega)
  simp only [List.drop_zero, Nat.sub_zero, Nat.sub_self, Nat.pow_zero, Nat.div_one] at this
  rw [List.take_of_length_le (by simp)] at this
  rw [this, Nat.mod_eq_of_lt hc]

/-- a bit list of length `w` is the `w`-bit representation of its value -/
theorem codeBits_bitsToByte : ∀ (bs : List Bool), codeBits bs.length (bitsToByte bs) = bs := by
  intro bs
  induction bs with
  | nil => rfl
  | cons b bs ih =>
    simp only [List.length_cons, codeBits]
    have hlt := bitsToByte_lt bs
    rw [bitsToByte_cons]
    have hdiv : ((if b then 1 else 0) * 2 ^ bs.length + bitsToByte bs) / 2 ^ bs.length = (if b then 1 else 0) := by
      rw [Nat.add_comm, Nat.add_mul_div_right _ _ (Nat.pow_pos (by omega)), Nat.div_eq_of_lt hlt,
        Nat.zero_add]
    have hrest : codeBits bs.length ((if b then 1 else 0) * 2 ^ bs.length + bitsToByte bs) = bs := by
      have key : ∀ (w y z : Nat), codeBits w (z * 2 ^ w + y) = codeBits w y := by
        intro w
        induction w with
        | zero => intro y z; rfl
        | succ w ihw =>
          intro y z
          simp only [codeBits]
          have e : z * 2 ^ (w + 1) + y = (z * 2) * 2 ^ w + y := by rw [Nat.pow_succ, Nat.mul_assoc, Nat.mul_comm 2]
          rw [e, ihw y (z * 2)]
          congr 2
          rw [Nat.add_comm, Nat.add_mul_div_right _ _ (Nat.pow_pos (by omega))]
          omega
      rw [key, ih]
    rw [hdiv, hrest]
    cases b <;> simp

/-! ### the reader -/

/-- the bits a reader has not consumed yet -/
def stream (r : BitReader) : List Bool := (r.data.flatMap byteBits).drop r.bitPos

/-- reader invariant: offset within the byte, bytes are bytes -/
def BitReader.WF (r : BitReader) : Prop := r.bitPos < 8 ∧ Bytes r.data

theorem byteBits_length (b : Nat) : (byteBits b).length = 8 := by simp [byteBits]

theorem stream_cons (byte : Nat) (tl : List Nat) (p : Nat) (hp : p ≤ 8) :
    stream ⟨byte :: tl, p⟩ = (byteBits byte).drop p ++ tl.flatMap byteBits := by
  simp only [stream, List.flatMap_cons]
  rw [List.drop_append_of_le_length (by rw [byteBits_length]; exact hp)]

/-- the loop of `read_bits`: from a reader whose unread bits start with `bs` (exactly the bits still
wanted), the loop returns the accumulated value extended by `bs` and a reader positioned after them -/
theorem readBitsGo_spec : ∀ (fuel : Nat) (r : BitReader) (n bitsRead result : Nat) (bs rest : List Bool),
    r.WF → stream r = bs ++ rest → bitsRead + bs.length = n → bs.length ≤ fuel →
    ∃ r', readBitsGo fuel r n bitsRead result = some (result * 2 ^ bs.length + bitsToByte bs, r') ∧
      r'.WF ∧ stream r' = rest := by
  intro fuel
  induction fuel with
  | zero =>
    intro r n bitsRead result bs rest hwf hs hn hf
    have : bs = [] := by simpa using hf
    subst this
    refine ⟨r, ?_, hwf, by simpa using hs⟩
    simp only [readBitsGo, List.length_nil, Nat.add_zero] at hn ⊢
    rw [if_neg (by omega)]
    simp [bitsToByte]
  | succ fuel ih =>
    intro r n bitsRead result bs rest hwf hs hn hf
    by_cases hdone : bs = []
    · subst hdone
      refine ⟨r, ?_, hwf, by simpa using hs⟩
      simp only [readBitsGo, List.length_nil, Nat.add_zero] at hn ⊢
      rw [if_neg (by omega)]
      simp [bitsToByte]
    · have hpos : 0 < bs.length := by cases bs with | nil => exact absurd rfl hdone | cons _ _ => simp
      obtain ⟨hp, hbytes⟩ := hwf
      -- the reader has a current byte
      cases hd : r.data with
      | nil =>
        have : stream r = [] := by simp [stream, hd]
        rw [this] at hs
        have := congrArg List.length hs
        simp at this; omega
      | cons byte tl =>
        have hr : r = ⟨byte :: tl, r.bitPos⟩ := by cases r; simp_all
        have hb256 : byte < 256 := hbytes byte (by rw [hd]; simp)
        have htl : Bytes tl := fun x hx => hbytes x (by rw [hd]; simp [hx])
        generalize hpp : r.bitPos = p at *
        rw [hr, stream_cons _ _ _ (by omega)] at hs
        -- the chunk taken this turn
        let k := min (n - bitsRead) (8 - p)
        have hk : k = min bs.length (8 - p) := by show min (n - bitsRead) (8 - p) = _; congr 1; omega
        have hk1 : 1 ≤ k := by rw [hk]; omega
        have hk8 : k ≤ 8 - p := by rw [hk]; exact Nat.min_le_right _ _
        have hkb : k ≤ bs.length := by rw [hk]; exact Nat.min_le_left _ _
        have hdl : ((byteBits byte).drop p).length = 8 - p := by simp [byteBits]
        -- bs = first k bits of the byte's remainder ++ bs'
        have hbs1 : bs.take k = ((byteBits byte).drop p).take k := by
          have := congrArg (List.take k) hs
          rw [List.take_append_of_le_length (by omega), List.take_append_of_le_length (by omega)] at this
          exact this.symm
        have hval : byte / 2 ^ (8 - p - k) % 256 % (2 ^ k - 1 + 1) = bitsToByte (bs.take k) := by
          rw [hbs1]
          have := bitsToByte_codeBits_slice 8 byte p k (by omega)
          rw [show byteBits byte = codeBits 8 byte from rfl, this]
          have h2k : 2 ^ k - 1 + 1 = 2 ^ k := by
            have : 0 < 2 ^ k := Nat.pow_pos (by omega)
            omega
          have hlt : byte / 2 ^ (8 - p - k) < 256 := Nat.lt_of_le_of_lt (Nat.div_le_self _ _) hb256
          rw [h2k, Nat.mod_eq_of_lt hlt]
        -- the next reader
        let r' : BitReader := if p + k ≥ 8 then { data := tl, bitPos := 0 } else { data := byte :: tl, bitPos := p + k }
        have hwf' : r'.WF := by
          show (if p + k ≥ 8 then _ else _ : BitReader).WF
          split
          · exact ⟨by simp, htl⟩
          · exact ⟨by simp; omega, by rw [← hd]; exact hbytes⟩
        have hs' : stream r' = bs.drop k ++ rest := by
          have hdrop := congrArg (List.drop k) hs
          rw [List.drop_append_of_le_length (by omega), List.drop_append_of_le_length (by omega),
            List.drop_drop] at hdrop
          show stream (if p + k ≥ 8 then _ else _) = _
          split
          · rename_i hge
            have : (byteBits byte).drop (p + k) = [] := List.drop_of_length_le (by rw [byteBits_length]; omega)
            rw [this, List.nil_append] at hdrop
            simp only [stream, List.drop_zero]
            exact hdrop
          · rw [stream_cons _ _ _ (by omega)]
            exact hdrop
        obtain ⟨r'', hgo, hwf'', hs''⟩ := ih r' n (bitsRead + k)
          (result * 2 ^ k + bitsToByte (bs.take k)) (bs.drop k) rest hwf' hs'
          (by simp [List.length_drop]; omega) (by simp [List.length_drop]; omega)
        refine ⟨r'', ?_, hwf'', hs''⟩
        rw [hr]
        simp only [readBitsGo]
        rw [if_pos (by omega)]
        show readBitsGo fuel r' n (bitsRead + k) (result * 2 ^ k + byte / 2 ^ (8 - p - k) % 256 % (2 ^ k - 1 + 1)) = _
        rw [hval, hgo]
        congr 2
        have happ := bitsToByte_append (bs.take k) (bs.drop k)
        rw [List.take_append_drop] at happ
        rw [happ]
        have hl : (bs.drop k).length = bs.length - k := by simp
        have hpow : 2 ^ bs.length = 2 ^ k * 2 ^ (bs.length - k) := by rw [← Nat.pow_add]; congr 1; omega
        rw [hl, hpow, Nat.add_mul, Nat.mul_assoc]
        omega

/-- **`read_bits` reads back one packed code** -/
theorem readBits_spec (r : BitReader) (w c : Nat) (rest : List Bool) (hw : 1 ≤ w ∧ w ≤ 16) (hc : c < 2 ^ w)
    (hwf : r.WF) (hs : stream r = codeBits w c ++ rest) :
    ∃ r', readBits r w = some (c, r') ∧ r'.WF ∧ stream r' = rest := by
  obtain ⟨r', h, hwf', hs'⟩ := readBitsGo_spec w r w 0 0 (codeBits w c) rest hwf hs (by simp) (by simp)
  refine ⟨r', ?_, hwf', hs'⟩
  unfold readBits
  rw [if_neg (by omega), h, bitsToByte_codeBits w c hc]
  simp

/-! ### the packer -/

theorem packBits_spec : ∀ (fuel : Nat) (bs : List Bool), bs.length < fuel →
    (∃ pad, (packBits fuel bs).flatMap byteBits = bs ++ List.replicate pad false) ∧ Bytes (packBits fuel bs) := by
  intro fuel
  induction fuel with
  | zero => intro bs h; omega
  | succ fuel ih =>
    intro bs hf
    simp only [packBits]
    by_cases he : bs.isEmpty = true
    · have : bs = [] := by simpa using he
      subst this
      exact ⟨⟨0, by simp⟩, by simp [Bytes]⟩
    · simp only [he, Bool.false_eq_true, if_false]
      have hne : bs ≠ [] := by simpa using he
      have hchunk : (bs.take 8 ++ List.replicate (8 - (bs.take 8).length) false).length = 8 := by
        simp [List.length_take]; omega
      have hbyte : byteBits (bitsToByte (bs.take 8 ++ List.replicate (8 - (bs.take 8).length) false)) =
          bs.take 8 ++ List.replicate (8 - (bs.take 8).length) false := by
        have := codeBits_bitsToByte (bs.take 8 ++ List.replicate (8 - (bs.take 8).length) false)
        rw [hchunk] at this
        exact this
      have hlt : bitsToByte (bs.take 8 ++ List.replicate (8 - (bs.take 8).length) false) < 256 := by
        have := bitsToByte_lt (bs.take 8 ++ List.replicate (8 - (bs.take 8).length) false)
        rw [hchunk] at this
        exact this
      by_cases h8 : bs.length ≥ 8
      · have hpos : 0 < bs.length := by omega
        obtain ⟨⟨pad, hpad⟩, hb⟩ := ih (bs.drop 8) (by simp; omega)
        refine ⟨⟨pad, ?_⟩, ?_⟩
        · simp only [List.flatMap_cons, hbyte, hpad]
          have : (bs.take 8).length = 8 := by simp [List.length_take]; omega
          simp only [this, Nat.sub_self, List.replicate_zero, List.append_nil]
          rw [← List.append_assoc, List.take_append_drop]
        · rw [Bytes.cons]; exact ⟨hlt, hb⟩
      · have hdrop : bs.drop 8 = [] := List.drop_of_length_le (by omega)
        have htake : bs.take 8 = bs := List.take_of_length_le (by omega)
        have hnil : packBits fuel ([] : List Bool) = [] := by cases fuel <;> simp [packBits]
        refine ⟨⟨8 - bs.length, ?_⟩, ?_⟩
        · rw [htake] at hbyte
          simp only [List.flatMap_cons, hdrop, hnil, htake, hbyte]
          simp
        · rw [hdrop, hnil, Bytes.cons]; exact ⟨hlt, by simp [Bytes]⟩

/-- the packed bytes, seen from a fresh reader, are the code bits followed by zero padding -/
theorem lzwPack_stream (codes : List (Nat × Nat)) :
    (∃ pad, stream ⟨lzwPack codes, 0⟩ = (codes.flatMap fun (c, w) => codeBits w c) ++ List.replicate pad false) ∧
    (BitReader.mk (lzwPack codes) 0).WF := by
  unfold lzwPack
  obtain ⟨⟨pad, hpad⟩, hb⟩ := packBits_spec ((codes.flatMap fun (c, w) => codeBits w c).length + 1)
    (codes.flatMap fun (c, w) => codeBits w c) (Nat.lt_succ_self _)
  exact ⟨⟨pad, by simpa [stream] using hpad⟩, ⟨by simp, hb⟩⟩

end OxiVerif.Flt
