import OxiVerif.Lemmas.C01Filters
/-!
Helper lemmas for C01 about `Model/C01Lexer.lean`: every reader returns a remainder that is no
longer than its input and never panics; `next_token` on a non-empty input consumes at least one
byte; its self-call depth is at most the input length + 1.
-/
namespace OxiVerif.C01
open Outcome

theorem readWord_len : ∀ inp : Bytes, (readWord inp).2.length ≤ inp.length
  | [] => by simp [readWord]
  | b :: rest => by
    have ih := readWord_len rest
    unfold readWord
    by_cases h : isDelim b = true
    · simp [h]
    · simp only [h]; simp; omega

theorem readComment_len : ∀ inp : Bytes, (readComment inp).length ≤ inp.length
  | [] => by simp [readComment]
  | b :: rest => by
    have ih := readComment_len rest
    unfold readComment
    by_cases h : (b == 10 || b == 13) = true
    · simp [h]
    · simp only [h]; simp; omega

theorem takeDigits_len : ∀ inp : Bytes, (takeDigits inp).2.length ≤ inp.length
  | [] => by simp [takeDigits]
  | b :: rest => by
    have ih := takeDigits_len rest
    unfold takeDigits
    by_cases h : isDigit b = true
    · simp only [h]; simp; omega
    · simp [h]

/-- "`x` does not panic and, when it returns `(v, r)`, `r` is no longer than `n`" -/
def Shrinks {α} (x : Outcome (α × Bytes)) (n : Nat) : Prop :=
  x.fine = true ∧ ∀ v r, x = .ok (v, r) → r.length ≤ n

theorem Shrinks.mono {α} {x : Outcome (α × Bytes)} {n m : Nat} (h : Shrinks x n) (hm : n ≤ m) :
    Shrinks x m := ⟨h.1, fun v r e => Nat.le_trans (h.2 v r e) hm⟩

theorem shrinks_err {α} (n : Nat) : Shrinks (Outcome.err : Outcome (α × Bytes)) n :=
  ⟨rfl, fun _ _ e => by cases e⟩

theorem shrinks_ok {α} (v : α) (r : Bytes) (n : Nat) (h : r.length ≤ n) :
    Shrinks (Outcome.ok (v, r)) n :=
  ⟨rfl, fun _ _ e => by cases e; exact h⟩

/-- mapping the value of a shrinking result -/
theorem shrinks_map {α β} (x : Outcome (α × Bytes)) (f : α → Bytes → Outcome (β × Bytes)) (n : Nat)
    (hx : Shrinks x n) (hf : ∀ v r, r.length ≤ n → Shrinks (f v r) n) :
    Shrinks (x >>= fun p => f p.1 p.2) n := by
  cases x with
  | ok p => obtain ⟨v, r⟩ := p; exact hf v r (hx.2 v r rfl)
  | err => exact shrinks_err n
  | panic k => have := hx.1; simp [Outcome.fine] at this
  | diverge => have := hx.1; simp [Outcome.fine] at this

theorem readName_shrinks : ∀ inp : Bytes, Shrinks (readName inp) inp.length
  | [] => by unfold readName; exact shrinks_ok _ _ _ (Nat.le_refl _)
  | [b] => by
    unfold readName
    by_cases h : isDelim b = true
    · simp only [h, if_true]; exact shrinks_ok _ _ _ (Nat.le_refl _)
    · simp only [h]
      by_cases h2 : (b == 35) = true
      · simp only [h2, if_true]; exact shrinks_err _
      · simp only [h2]
        have ih := readName_shrinks []
        refine (shrinks_map (readName []) (fun n r => pure (b :: n, r)) _ ih ?_).mono (by simp)
        intro v r hr; exact shrinks_ok _ _ _ hr
  | [b, c] => by
    unfold readName
    by_cases h : isDelim b = true
    · simp only [h, if_true]; exact shrinks_ok _ _ _ (Nat.le_refl _)
    · simp only [h]
      by_cases h2 : (b == 35) = true
      · simp only [h2, if_true]; exact shrinks_err _
      · simp only [h2]
        have ih := readName_shrinks [c]
        refine (shrinks_map (readName [c]) (fun n r => pure (b :: n, r)) _ ih ?_).mono (by simp)
        intro v r hr; exact shrinks_ok _ _ _ hr
  | b :: h1 :: h2 :: rest' => by
    unfold readName
    by_cases h : isDelim b = true
    · simp only [h, if_true]; exact shrinks_ok _ _ _ (Nat.le_refl _)
    · simp only [h]
      by_cases hb : (b == 35) = true
      · simp only [hb, if_true]
        cases hx : hexByte? h1 h2 with
        | none => exact shrinks_err _
        | some v =>
          have ih := readName_shrinks rest'
          refine (shrinks_map (readName rest') (fun n r => pure (v :: n, r)) _ ih ?_).mono (by simp; omega)
          intro v r hr; exact shrinks_ok _ _ _ hr
      · simp only [hb]
        have ih := readName_shrinks (h1 :: h2 :: rest')
        refine (shrinks_map (readName (h1 :: h2 :: rest')) (fun n r => pure (b :: n, r)) _ ih ?_).mono (by simp)
        intro v r hr; exact shrinks_ok _ _ _ hr

/-! ### literal strings: the `u16` octal accumulator never overflows -/

/-- invariant of the octal-escape state: at most three digits are ever accumulated -/
def LitWf : LitMode → Prop
  | .oct v k => (k = 2 ∧ v < 8) ∨ (k = 1 ∧ v < 64) ∨ (k = 0 ∧ v < 512)
  | _ => True

theorem litNormalStep_wf (b d : Nat) (acc : Bytes) : LitWf (litNormalStep b d acc).1 := by
  unfold litNormalStep
  by_cases h1 : (b == 92) = true
  · simp [h1, LitWf]
  · by_cases h2 : (b == 40) = true
    · simp [h1, h2, LitWf]
    · by_cases h3 : (b == 41) = true
      · simp [h1, h2, h3, LitWf]
      · simp [h1, h2, h3, LitWf]

theorem readLit_shrinks (l : Bool) : ∀ (inp : Bytes) (mode : LitMode) (d : Nat) (acc : Bytes),
    LitWf mode → Shrinks (readLit l inp mode d acc) inp.length
  | [], mode, d, acc, _ => by
    cases mode <;> rw [readLit] <;> cases l <;>
      first
        | exact shrinks_err _
        | exact shrinks_ok _ _ _ (Nat.le_refl _)
        | (intro v k e; cases e)
  | b :: rest, .normal, d, acc, _ => by
    rw [readLit]
    have hw := litNormalStep_wf b d acc
    rcases hp : litNormalStep b d acc with ⟨m, d', acc'⟩
    rw [hp] at hw
    simp only
    by_cases h0 : (d' == 0) = true
    · simp only [h0, if_true]; exact shrinks_ok _ _ _ (by simp)
    · simp only [h0]
      exact (readLit_shrinks l rest m d' acc' hw).mono (by simp)
  | b :: rest, .esc, d, acc, _ => by
    rw [readLit]
    by_cases h : isOct b = true
    · simp only [h, if_true]
      refine (readLit_shrinks l rest (.oct (b - 48) 2) d acc ?_).mono (by simp)
      simp only [isOct, Bool.and_eq_true, decide_eq_true_eq] at h
      left; omega
    · simp only [h]
      exact (readLit_shrinks l rest .normal d (acc ++ [escMap b]) trivial).mono (by simp)
  | b :: rest, .oct v k, d, acc, hw => by
    rw [readLit]
    by_cases h : k > 0 ∧ isOct b = true
    · simp only [h, and_self, if_true]
      have hb : b - 48 < 8 := by
        have := h.2
        simp only [isOct, Bool.and_eq_true, decide_eq_true_eq] at this
        omega
      have hv : v < 64 ∧ (k = 2 → v < 8) := by
        rcases hw with ⟨hk, hv⟩ | ⟨hk, hv⟩ | ⟨hk, hv⟩
        · exact ⟨by omega, fun _ => hv⟩
        · exact ⟨hv, fun h2 => by omega⟩
        · omega
      have hU : U16 = 65536 := by decide
      have e1 : mulU U16 v 8 = .ok (v * 8) := by rw [mulU, hU, if_pos (by omega)]
      have e2 : addU U16 (v * 8) (b - 48) = .ok (v * 8 + (b - 48)) := by rw [addU, hU, if_pos (by omega)]
      rw [e1, Outcome.bind_ok, e2, Outcome.bind_ok]
      refine (readLit_shrinks l rest (.oct (v * 8 + (b - 48)) (k - 1)) d acc ?_).mono (by simp)
      rcases hw with ⟨hk, hv'⟩ | ⟨hk, hv'⟩ | ⟨hk, hv'⟩
      · right; left; omega
      · right; right; omega
      · omega
    · simp only [h, if_false]
      have hw2 := litNormalStep_wf b d (acc ++ [v % 256])
      rcases hp : litNormalStep b d (acc ++ [v % 256]) with ⟨m, d', acc'⟩
      rw [hp] at hw2
      simp only
      by_cases h0 : (d' == 0) = true
      · simp only [h0, if_true]; exact shrinks_ok _ _ _ (by simp)
      · simp only [h0]
        exact (readLit_shrinks l rest m d' acc' hw2).mono (by simp)

theorem readHexStr_shrinks (l : Bool) : ∀ (inp acc : Bytes), Shrinks (readHexStr l inp acc) inp.length
  | [], acc => by
    rw [readHexStr]
    cases l
    · exact shrinks_err _
    · exact shrinks_ok _ _ _ (Nat.le_refl _)
  | b :: rest, acc => by
    rw [readHexStr]
    have ih1 := (readHexStr_shrinks l rest (acc ++ [b])).mono (m := (b :: rest).length) (by simp)
    have ih2 := (readHexStr_shrinks l rest acc).mono (m := (b :: rest).length) (by simp)
    by_cases h1 : (b == 62) = true
    · simp only [h1, if_true]; exact shrinks_ok _ _ _ (by simp)
    · simp only [h1]
      by_cases h2 : (hexVal? b).isSome = true
      · simp only [h2, if_true]; exact ih1
      · simp only [h2]
        by_cases h3 : isWs b = true
        · simp only [h3, if_true]; exact ih2
        · simp only [h3]
          cases l
          · exact shrinks_err _
          · exact ih2

/-! ### numbers -/

theorem numSign_len (inp : Bytes) : (numSign inp).2.2.length ≤ inp.length := by
  unfold numSign; split <;> simp

theorem numFrac_len (inp : Bytes) : (numFrac inp).2.2.length ≤ inp.length := by
  unfold numFrac
  split
  · rename_i r; have := takeDigits_len r; simp; omega
  · simp

theorem numExp_len (inp : Bytes) : (numExp inp).2.2.length ≤ inp.length := by
  unfold numExp
  split
  · simp
  · rename_i e r
    by_cases h : (e == 101 || e == 69) = true
    · simp only [h, if_true]
      split
      · rename_i r'; have := takeDigits_len r'; simp; omega
      · rename_i r'; have := takeDigits_len r'; simp; omega
      · have := takeDigits_len r; simp; omega
    · simp [h]

theorem readNumber_shrinks (inp : Bytes) : Shrinks (readNumber inp) inp.length := by
  have h1 := numSign_len inp
  have h2 := takeDigits_len (numSign inp).2.2
  have h3 := numFrac_len (takeDigits (numSign inp).2.2).2
  have h4 := numExp_len (numFrac (takeDigits (numSign inp).2.2).2).2.2
  have hle : (numExp (numFrac (takeDigits (numSign inp).2.2).2).2.2).2.2.length ≤ inp.length := by omega
  unfold readNumber
  simp only
  repeat' split
  all_goals first | exact shrinks_err _ | exact shrinks_ok _ _ _ hle

theorem readWord_consumes (b : Nat) (rest : Bytes) (h : isDelim b = false) :
    (readWord (b :: rest)).2.length ≤ rest.length := by
  have := readWord_len rest
  unfold readWord
  simp [h]; exact this

theorem isDelim_of_alpha (b : Nat) (h : isAlpha b = true) : isDelim b = false := by
  simp only [isAlpha, Bool.or_eq_true, Bool.and_eq_true, decide_eq_true_eq] at h
  simp only [isDelim, isWs, Bool.or_eq_false_iff, beq_eq_false_iff_ne, ne_eq]
  omega

/-- a number token always consumes its first byte (sign, digit or period) -/
theorem readNumber_consumes (b : Nat) (rest : Bytes)
    (hb : (b == 43 || b == 45 || isDigit b || b == 46) = true) :
    Shrinks (readNumber (b :: rest)) rest.length := by
  have h4 := numExp_len (numFrac (takeDigits (numSign (b :: rest)).2.2).2).2.2
  have h3 := numFrac_len (takeDigits (numSign (b :: rest)).2.2).2
  have key : (numFrac (takeDigits (numSign (b :: rest)).2.2).2).2.2.length ≤ rest.length := by
    have td := takeDigits_len rest
    simp only [Bool.or_eq_true, beq_iff_eq] at hb
    rcases hb with ((hb | hb) | hb) | hb
    · subst hb
      have e : numSign (43 :: rest) = (false, true, rest) := rfl
      rw [e] at h3 ⊢
      simp only at h3 ⊢
      omega
    · subst hb
      have e : numSign (45 :: rest) = (true, true, rest) := rfl
      rw [e] at h3 ⊢
      simp only at h3 ⊢
      omega
    · have hd : 48 ≤ b := by
        simp only [isDigit, Bool.and_eq_true, decide_eq_true_eq] at hb; omega
      have e : numSign (b :: rest) = (false, false, b :: rest) := by
        unfold numSign
        split
        · rename_i r heq; cases heq; omega
        · rename_i r heq; cases heq; omega
        · rfl
      have e2 : takeDigits (b :: rest) = (b :: (takeDigits rest).1, (takeDigits rest).2) := by
        rw [takeDigits]; simp [hb]
      rw [e] at h3 ⊢
      simp only at h3 ⊢
      rw [e2] at h3 ⊢
      simp only at h3 ⊢
      omega
    · subst hb
      have e : numSign (46 :: rest) = (false, false, 46 :: rest) := rfl
      have e2 : takeDigits (46 :: rest) = ([], 46 :: rest) := by
        rw [takeDigits]; simp [isDigit]
      have e3 : numFrac (46 :: rest) = (true, (takeDigits rest).1, (takeDigits rest).2) := rfl
      rw [e]; simp only; rw [e2]; simp only; rw [e3]; simp only; exact td
  have hle : (numExp (numFrac (takeDigits (numSign (b :: rest)).2.2).2).2.2).2.2.length ≤ rest.length := by
    omega
  unfold readNumber
  simp only
  repeat' split
  all_goals first | exact shrinks_err _ | exact shrinks_ok _ _ _ hle

/-! ### `next_token` -/

/-- what every `next_token` result satisfies relative to a bound `n` on the remaining input -/
def GoodLex (n : Nat) (r : LexRes) : Prop :=
  r.rest.length ≤ n ∧ r.depth ≤ n + 2 ∧ r.tok.fine = true

theorem goodLex_lexOf (x : Outcome (Tok × Bytes)) (n : Nat) (h : Shrinks x n) : GoodLex n (lexOf x) := by
  cases x with
  | ok p => obtain ⟨t, r⟩ := p; exact ⟨h.2 t r rfl, by simp [lexOf], rfl⟩
  | err => exact ⟨by simp [lexOf], by simp [lexOf], rfl⟩
  | panic k => have := h.1; simp [Outcome.fine] at this
  | diverge => have := h.1; simp [Outcome.fine] at this

theorem shrinks_bind_tok {β} (x : Outcome Tok) (f : Tok → Outcome (β × Bytes)) (n : Nat)
    (hx : x.fine = true) (hf : ∀ t, Shrinks (f t) n) : Shrinks (x >>= f) n := by
  cases x with
  | ok t => exact hf t
  | err => exact shrinks_err n
  | panic k => simp [Outcome.fine] at hx
  | diverge => simp [Outcome.fine] at hx

theorem keywordTok_np (w : Bytes) : (keywordTok w).fine = true := by
  unfold keywordTok
  repeat' split
  all_goals rfl

theorem nextToken_good (o : LexOpts) : ∀ inp : Bytes,
    (nextToken o inp).rest.length ≤ inp.length - 1 ∧ (nextToken o inp).depth ≤ inp.length + 1 ∧
      (nextToken o inp).tok.fine = true
  | [] => by simp [nextToken, Outcome.fine]
  | b :: rest => by
    have ih := nextToken_good o rest
    have hrec : GoodLex rest.length (nextToken o rest) := ⟨by omega, by omega, ih.2.2⟩
    suffices h : GoodLex rest.length (nextToken o (b :: rest)) by
      exact ⟨by simpa using h.1, by have := h.2.1; simp; omega, h.2.2⟩
    have hw := readWord_len (b :: rest)
    have hgoodErr : GoodLex rest.length ⟨Outcome.err, [], 1⟩ := ⟨by simp, by simp, rfl⟩
    unfold nextToken
    by_cases c1 : isWs b = true
    · rw [if_pos c1]; exact hrec
    rw [if_neg c1]
    by_cases c2 : (b == 37) = true
    · rw [if_pos c2]; exact ⟨readComment_len rest, by simp, rfl⟩
    rw [if_neg c2]
    by_cases c3 : (b == 47) = true
    · rw [if_pos c3]
      apply goodLex_lexOf
      exact shrinks_map (readName rest) (fun n r => pure (Tok.name n, r)) _ (readName_shrinks rest)
        (fun v r hr => shrinks_ok _ _ _ hr)
    rw [if_neg c3]
    by_cases c4 : (b == 40) = true
    · rw [if_pos c4]
      apply goodLex_lexOf
      exact shrinks_map (readLit o.lenientSyntax rest .normal 1 []) (fun s r => pure (Tok.str s, r)) _
        (readLit_shrinks _ rest .normal 1 [] trivial) (fun v r hr => shrinks_ok _ _ _ hr)
    rw [if_neg c4]
    by_cases c5 : (b == 60) = true
    · rw [if_pos c5]
      split
      · exact ⟨by simp, by simp, rfl⟩
      · apply goodLex_lexOf
        exact shrinks_map (readHexStr o.lenientSyntax rest []) (fun s r => pure (Tok.str s, r)) _
          (readHexStr_shrinks _ rest []) (fun v r hr => shrinks_ok _ _ _ hr)
    rw [if_neg c5]
    by_cases c6 : (b == 62) = true
    · rw [if_pos c6]
      split
      · exact ⟨by simp, by simp, rfl⟩
      · exact hgoodErr
    rw [if_neg c6]
    by_cases c7 : (b == 91) = true
    · rw [if_pos c7]; exact ⟨by simp, by simp, rfl⟩
    rw [if_neg c7]
    by_cases c8 : (b == 93) = true
    · rw [if_pos c8]; exact ⟨by simp, by simp, rfl⟩
    rw [if_neg c8]
    by_cases c9 : (b == 116 || b == 102 || b == 110) = true
    · rw [if_pos c9]
      split
      rename_i w r heq
      have hr : r.length ≤ rest.length := by
        have : r = (readWord (b :: rest)).2 := by rw [heq]
        rw [this]
        apply readWord_consumes
        simp only [Bool.or_eq_true, beq_iff_eq] at c9
        rcases c9 with (c9 | c9) | c9 <;> subst c9 <;> decide
      apply goodLex_lexOf
      exact shrinks_bind_tok _ _ _ (keywordTok_np _) (fun t => shrinks_ok _ _ _ hr)
    rw [if_neg c9]
    by_cases c10 : (b == 43 || b == 45 || isDigit b || b == 46) = true
    · rw [if_pos c10]
      apply goodLex_lexOf
      exact readNumber_consumes b rest c10
    rw [if_neg c10]
    by_cases c11 : (b == 82) = true
    · rw [if_pos c11]; exact ⟨by simp, by simp, rfl⟩
    rw [if_neg c11]
    by_cases c12 : isAlpha b = true
    · rw [if_pos c12]
      split
      rename_i w r heq
      have hr : r.length ≤ rest.length := by
        have : r = (readWord (b :: rest)).2 := by rw [heq]
        rw [this]
        exact readWord_consumes b rest (isDelim_of_alpha b c12)
      apply goodLex_lexOf
      refine shrinks_bind_tok _ _ _ (keywordTok_np _) (fun t => ?_)
      split
      · exact shrinks_err _
      · exact shrinks_err _
      · exact shrinks_ok _ _ _ hr
    rw [if_neg c12]
    by_cases c13 : (b == 59) = true
    · rw [if_pos c13]; exact hrec
    rw [if_neg c13]
    by_cases c14 : isProblematic o b = true
    · rw [if_pos c14]
      by_cases c15 : o.lenientEncoding = true
      · rw [if_pos c15]
        by_cases c16 : (dropWs rest).isEmpty = true
        · rw [if_pos c16]; exact hgoodErr
        · rw [if_neg c16]; exact hrec
      · rw [if_neg c15]; exact hgoodErr
    rw [if_neg c14]
    by_cases c17 : o.lenientSyntax = true
    · rw [if_pos c17]; exact hrec
    · rw [if_neg c17]; exact hgoodErr

theorem lexOf_depth (x : Outcome (Tok × Bytes)) : (lexOf x).depth = 1 := by
  cases x with
  | ok p => obtain ⟨t, r⟩ := p; rfl
  | err => rfl
  | panic k => rfl
  | diverge => rfl

/-- one activation: the skips of `next_token` are iterations of its loop, not calls -/
theorem nextToken_depth (o : LexOpts) : ∀ inp : Bytes, (nextToken o inp).depth = 1
  | [] => rfl
  | b :: rest => by
    have ih := nextToken_depth o rest
    unfold nextToken
    by_cases c1 : isWs b = true
    · rw [if_pos c1]; exact ih
    rw [if_neg c1]
    by_cases c2 : (b == 37) = true
    · rw [if_pos c2]
    rw [if_neg c2]
    by_cases c3 : (b == 47) = true
    · rw [if_pos c3]; exact lexOf_depth _
    rw [if_neg c3]
    by_cases c4 : (b == 40) = true
    · rw [if_pos c4]; exact lexOf_depth _
    rw [if_neg c4]
    by_cases c5 : (b == 60) = true
    · rw [if_pos c5]; split <;> first | rfl | exact lexOf_depth _
    rw [if_neg c5]
    by_cases c6 : (b == 62) = true
    · rw [if_pos c6]; split <;> rfl
    rw [if_neg c6]
    by_cases c7 : (b == 91) = true
    · rw [if_pos c7]
    rw [if_neg c7]
    by_cases c8 : (b == 93) = true
    · rw [if_pos c8]
    rw [if_neg c8]
    by_cases c9 : (b == 116 || b == 102 || b == 110) = true
    · rw [if_pos c9]; split; exact lexOf_depth _
    rw [if_neg c9]
    by_cases c10 : (b == 43 || b == 45 || isDigit b || b == 46) = true
    · rw [if_pos c10]; exact lexOf_depth _
    rw [if_neg c10]
    by_cases c11 : (b == 82) = true
    · rw [if_pos c11]
    rw [if_neg c11]
    by_cases c12 : isAlpha b = true
    · rw [if_pos c12]; split; exact lexOf_depth _
    rw [if_neg c12]
    by_cases c13 : (b == 59) = true
    · rw [if_pos c13]; exact ih
    rw [if_neg c13]
    by_cases c14 : isProblematic o b = true
    · rw [if_pos c14]
      by_cases c15 : o.lenientEncoding = true
      · rw [if_pos c15]
        by_cases c16 : (dropWs rest).isEmpty = true
        · rw [if_pos c16]
        · rw [if_neg c16]; exact ih
      · rw [if_neg c15]
    rw [if_neg c14]
    by_cases c17 : o.lenientSyntax = true
    · rw [if_pos c17]; exact ih
    · rw [if_neg c17]

/-- `fine` excludes panics -/
theorem fine_not_panic {α} (x : Outcome α) (h : x.fine = true) : x.isPanic = false := by
  cases x <;> simp_all [Outcome.fine]

/-! ### the token loop never runs out of fuel: every token consumes at least one byte -/

theorem lexAll_fine (o : LexOpts) : ∀ (fuel : Nat) (inp : Bytes) (acc : List Tok) (d : Nat),
    inp.length < fuel → (lexAll o fuel inp acc d).2.1.fine = true
  | 0, inp, acc, d, h => by omega
  | fuel + 1, inp, acc, d, h => by
    have hg := nextToken_good o inp
    rw [lexAll]
    cases ht : (nextToken o inp).tok with
    | ok t =>
      cases inp with
      | nil =>
        have : (nextToken o []).tok = .ok .eof := rfl
        rw [this] at ht; cases ht; rfl
      | cons b rest =>
        have hlen : (nextToken o (b :: rest)).rest.length < fuel := by
          have := hg.1; simp at this h; omega
        cases t <;> first | rfl | exact lexAll_fine o fuel _ _ _ hlen
    | err => rfl
    | panic k => have := hg.2.2; rw [ht] at this; simp [Outcome.fine] at this
    | diverge => have := hg.2.2; rw [ht] at this; simp [Outcome.fine] at this

theorem lexAll_depth (o : LexOpts) : ∀ (fuel : Nat) (inp : Bytes) (acc : List Tok) (d : Nat),
    (lexAll o fuel inp acc d).2.2 ≤ max d (inp.length + 1)
  | 0, inp, acc, d => by rw [lexAll]; exact Nat.le_max_left _ _
  | fuel + 1, inp, acc, d => by
    have hg := nextToken_good o inp
    rw [lexAll]
    have hd : max d (nextToken o inp).depth ≤ max d (inp.length + 1) := by omega
    cases ht : (nextToken o inp).tok with
    | ok t =>
      have ih := lexAll_depth o fuel (nextToken o inp).rest (t :: acc) (max d (nextToken o inp).depth)
      have hl : (nextToken o inp).rest.length ≤ inp.length := by have := hg.1; omega
      cases t <;> first | exact hd | (simp only; omega)
    | err => exact hd
    | panic k => exact hd
    | diverge => exact hd

end OxiVerif.C01
