import OxiVerif.Lemmas.C01Filters
/-!
Helper lemmas for C01 about `Model/C01Lexer.lean`: every reader returns a remainder that is no
longer than its input and never panics; `next_token` on a non-empty input consumes at least one
byte; its self-call depth is at most the input length + 1.
-/
namespace OxiVerif.C01
open Outcome

theorem readWord_len : ∀ inp : Bytes, (readWord inp).2.length ≤ inp.length
  | [] => by simp [readWord]
  | b :: rest => by
    have ih := readWord_len rest
    unfold readWord
    by_cases h : isDelim b = true
    · simp [h]
    · simp only [h]; simp; omega

theorem readComment_len : ∀ inp : Bytes, (readComment inp).length ≤ inp.length
  | [] => by simp [readComment]
  | b :: rest => by
    have ih := readComment_len rest
    unfold readComment
    by_cases h : (b == 10 || b == 13) = true
    · simp [h]
    · simp only [h]; simp; omega

theorem takeDigits_len : ∀ inp : Bytes, (takeDigits inp).2.length ≤ inp.length
  | [] => by simp [takeDigits]
  | b :: rest => by
    have ih := takeDigits_len rest
    unfold takeDigits
    by_cases h : isDigit b = true
    · simp only [h]; simp; omega
    · simp [h]

/-- "`x` does not panic and, when it returns `(v, r)`, `r` is no longer than `n`" -/
def Shrinks {α} (x : Outcome (α × Bytes)) (n : Nat) : Prop :=
  x.isPanic = false ∧ ∀ v r, x = .ok (v, r) → r.length ≤ n

theorem Shrinks.mono {α} {x : Outcome (α × Bytes)} {n m : Nat} (h : Shrinks x n) (hm : n ≤ m) :
    Shrinks x m := ⟨h.1, fun v r e => Nat.le_trans (h.2 v r e) hm⟩

theorem shrinks_err {α} (n : Nat) : Shrinks (Outcome.err : Outcome (α × Bytes)) n :=
  ⟨rfl, fun _ _ e => by cases e⟩

theorem shrinks_ok {α} (v : α) (r : Bytes) (n : Nat) (h : r.length ≤ n) :
    Shrinks (Outcome.ok (v, r)) n :=
  ⟨rfl, fun _ _ e => by cases e; exact h⟩

/-- mapping the value of a shrinking result -/
theorem shrinks_map {α β} (x : Outcome (α × Bytes)) (f : α → Bytes → Outcome (β × Bytes)) (n : Nat)
    (hx : Shrinks x n) (hf : ∀ v r, r.length ≤ n → Shrinks (f v r) n) :
    Shrinks (x >>= fun p => f p.1 p.2) n := by
  cases x with
  | ok p => obtain ⟨v, r⟩ := p; exact hf v r (hx.2 v r rfl)
  | err => exact shrinks_err n
  | panic k => have := hx.1; simp at this
  | diverge => exact ⟨rfl, fun _ _ e => by cases e⟩

theorem readName_shrinks : ∀ inp : Bytes, Shrinks (readName inp) inp.length
  | [] => by unfold readName; exact shrinks_ok _ _ _ (Nat.le_refl _)
  | [b] => by
    unfold readName
    by_cases h : isDelim b = true
    · simp only [h, if_true]; exact shrinks_ok _ _ _ (Nat.le_refl _)
    · simp only [h]
      by_cases h2 : (b == 35) = true
      · simp only [h2, if_true]; exact shrinks_err _
      · simp only [h2]
        have ih := readName_shrinks []
        refine (shrinks_map (readName []) (fun n r => pure (b :: n, r)) _ ih ?_).mono (by simp)
        intro v r hr; exact shrinks_ok _ _ _ hr
  | [b, c] => by
    unfold readName
    by_cases h : isDelim b = true
    · simp only [h, if_true]; exact shrinks_ok _ _ _ (Nat.le_refl _)
    · simp only [h]
      by_cases h2 : (b == 35) = true
      · simp only [h2, if_true]; exact shrinks_err _
      · simp only [h2]
        have ih := readName_shrinks [c]
        refine (shrinks_map (readName [c]) (fun n r => pure (b :: n, r)) _ ih ?_).mono (by simp)
        intro v r hr; exact shrinks_ok _ _ _ hr
  | b :: h1 :: h2 :: rest' => by
    unfold readName
    by_cases h : isDelim b = true
    · simp only [h, if_true]; exact shrinks_ok _ _ _ (Nat.le_refl _)
    · simp only [h]
      by_cases hb : (b == 35) = true
      · simp only [hb, if_true]
        cases hx : hexByte? h1 h2 with
        | none => exact shrinks_err _
        | some v =>
          have ih := readName_shrinks rest'
          refine (shrinks_map (readName rest') (fun n r => pure (v :: n, r)) _ ih ?_).mono (by simp; omega)
          intro v r hr; exact shrinks_ok _ _ _ hr
      · simp only [hb]
        have ih := readName_shrinks (h1 :: h2 :: rest')
        refine (shrinks_map (readName (h1 :: h2 :: rest')) (fun n r => pure (b :: n, r)) _ ih ?_).mono (by simp)
        intro v r hr; exact shrinks_ok _ _ _ hr

/-! ### literal strings: the `u16` octal accumulator never overflows -/

/-- invariant of the octal-escape state: at most three digits are ever accumulated -/
def LitWf : LitMode → Prop
  | .oct v k => (k = 2 ∧ v < 8) ∨ (k = 1 ∧ v < 64) ∨ (k = 0 ∧ v < 512)
  | _ => True

theorem litNormalStep_wf (b d : Nat) (acc : Bytes) : LitWf (litNormalStep b d acc).1 := by
  unfold litNormalStep
  by_cases h1 : (b == 92) = true
  · simp [h1, LitWf]
  · by_cases h2 : (b == 40) = true
    · simp [h1, h2, LitWf]
    · by_cases h3 : (b == 41) = true
      · simp [h1, h2, h3, LitWf]
      · simp [h1, h2, h3, LitWf]

theorem readLit_shrinks (l : Bool) : ∀ (inp : Bytes) (mode : LitMode) (d : Nat) (acc : Bytes),
    LitWf mode → Shrinks (readLit l inp mode d acc) inp.length
  | [], mode, d, acc, _ => by
    cases mode <;> rw [readLit] <;> cases l <;>
      first
        | exact shrinks_err _
        | exact shrinks_ok _ _ _ (Nat.le_refl _)
        | (intro v k e; cases e)
  | b :: rest, .normal, d, acc, _ => by
    rw [readLit]
    have hw := litNormalStep_wf b d acc
    rcases hp : litNormalStep b d acc with ⟨m, d', acc'⟩
    rw [hp] at hw
    simp only
    by_cases h0 : (d' == 0) = true
    · simp only [h0, if_true]; exact shrinks_ok _ _ _ (by simp)
    · simp only [h0]
      exact (readLit_shrinks l rest m d' acc' hw).mono (by simp)
  | b :: rest, .esc, d, acc, _ => by
    rw [readLit]
    by_cases h : isOct b = true
    · simp only [h, if_true]
      refine (readLit_shrinks l rest (.oct (b - 48) 2) d acc ?_).mono (by simp)
      simp only [isOct, Bool.and_eq_true, decide_eq_true_eq] at h
      left; omega
    · simp only [h]
      exact (readLit_shrinks l rest .normal d (acc ++ [escMap b]) trivial).mono (by simp)
  | b :: rest, .oct v k, d, acc, hw => by
    rw [readLit]
    by_cases h : k > 0 ∧ isOct b = true
    · simp only [h, and_self, if_true]
      have hb : b - 48 < 8 := by
        have := h.2
        simp only [isOct, Bool.and_eq_true, decide_eq_true_eq] at this
        omega
      have hv : v < 64 ∧ (k = 2 → v < 8) := by
        rcases hw with ⟨hk, hv⟩ | ⟨hk, hv⟩ | ⟨hk, hv⟩
        · exact ⟨by omega, fun _ => hv⟩
        · exact ⟨hv, fun h2 => by omega⟩
        · omega
      have hU : U16 = 65536 := by decide
      have e1 : mulU U16 v 8 = .ok (v * 8) := by rw [mulU, hU, if_pos (by omega)]
      have e2 : addU U16 (v * 8) (b - 48) = .ok (v * 8 + (b - 48)) := by rw [addU, hU, if_pos (by omega)]
      rw [e1, Outcome.bind_ok, e2, Outcome.bind_ok]
      refine (readLit_shrinks l rest (.oct (v * 8 + (b - 48)) (k - 1)) d acc ?_).mono (by simp)
      rcases hw with ⟨hk, hv'⟩ | ⟨hk, hv'⟩ | ⟨hk, hv'⟩
      · right; left; omega
      · right; right; omega
      · omega
    · simp only [h, if_false]
      have hw2 := litNormalStep_wf b d (acc ++ [v % 256])
      rcases hp : litNormalStep b d (acc ++ [v % 256]) with ⟨m, d', acc'⟩
      rw [hp] at hw2
      simp only
      by_cases h0 : (d' == 0) = true
      · simp only [h0, if_true]; exact shrinks_ok _ _ _ (by simp)
      · simp only [h0]
        exact (readLit_shrinks l rest m d' acc' hw2).mono (by simp)

theorem readHexStr_shrinks (l : Bool) : ∀ (inp acc : Bytes), Shrinks (readHexStr l inp acc) inp.length
  | [], acc => by
    rw [readHexStr]
    cases l
    · exact shrinks_err _
    · exact shrinks_ok _ _ _ (Nat.le_refl _)
  | b :: rest, acc => by
    rw [readHexStr]
    have ih1 := (readHexStr_shrinks l rest (acc ++ [b])).mono (m := (b :: rest).length) (by simp)
    have ih2 := (readHexStr_shrinks l rest acc).mono (m := (b :: rest).length) (by simp)
    by_cases h1 : (b == 62) = true
    · simp only [h1, if_true]; exact shrinks_ok _ _ _ (by simp)
    · simp only [h1]
      by_cases h2 : (hexVal? b).isSome = true
      · simp only [h2, if_true]; exact ih1
      · simp only [h2]
        by_cases h3 : isWs b = true
        · simp only [h3, if_true]; exact ih2
        · simp only [h3]
          cases l
          · exact shrinks_err _
          · exact ih2

/-! ### numbers -/

theorem numSign_len (inp : Bytes) : (numSign inp).2.2.length ≤ inp.length := by
  unfold numSign; split <;> simp

theorem numFrac_len (inp : Bytes) : (numFrac inp).2.2.length ≤ inp.length := by
  unfold numFrac
  split
  · rename_i r; have := takeDigits_len r; simp; omega
  · simp

theorem numExp_len (inp : Bytes) : (numExp inp).2.2.length ≤ inp.length := by
  unfold numExp
  split
  · simp
  · rename_i e r
    by_cases h : (e == 101 || e == 69) = true
    · simp only [h, if_true]
      split
      · rename_i r'; have := takeDigits_len r'; simp; omega
      · rename_i r'; have := takeDigits_len r'; simp; omega
      · have := takeDigits_len r; simp; omega
    · simp [h]

theorem readNumber_shrinks (inp : Bytes) : Shrinks (readNumber inp) inp.length := by
  have h1 := numSign_len inp
  have h2 := takeDigits_len (numSign inp).2.2
  have h3 := numFrac_len (takeDigits (numSign inp).2.2).2
  have h4 := numExp_len (numFrac (takeDigits (numSign inp).2.2).2).2.2
  have hle : (numExp (numFrac (takeDigits (numSign inp).2.2).2).2.2).2.2.length ≤ inp.length := by omega
  unfold readNumber
  simp only
  repeat' split
  all_goals first | exact shrinks_err _ | exact shrinks_ok _ _ _ hle

end OxiVerif.C01
