/-
Axiom audit: lists every theorem declared in a given module together with the axioms it
depends on. tools/check.py generates a two-line file
    import OxiVerif.Props.Cxx
    #eval OxiVerif.auditModule `OxiVerif.Props.Cxx
and parses the output, so the obligation count is measured from the environment.
-/
import Lean
open Lean Elab Command

namespace OxiVerif

def auditModule (mod : Name) : CommandElabM Unit := do
  let env ← getEnv
  let some idx := env.getModuleIdx? mod
    | throwError "module {mod} not imported"
  let mut names : Array Name := #[]
  for (n, ci) in env.constants.toList do
    if env.getModuleIdxFor? n == some idx then
      match ci with
      | .thmInfo _ =>
        if !n.isInternal && !n.hasMacroScopes then names := names.push n
      | _ => pure ()
  let sorted := names.qsort (fun a b => a.toString < b.toString)
  for n in sorted do
    let axs ← Lean.collectAxioms n
    let axs := axs.qsort (fun a b => a.toString < b.toString)
    logInfo m!"AUDIT {n} :: {String.intercalate "," (axs.toList.map toString)}"

end OxiVerif
