/-
Line-protocol driver shared by every per-property executable `drv_cxx`.

Input  (stdin) : one case per line, `REQ<TAB>IMPL` (IMPL = canonical answer of the real code)
Output (stdout): one line per case, `MODEL<TAB>ORACLE`
  MODEL  = the model's canonical answer for REQ (compared by tools/check.py with IMPL)
  ORACLE = `ok` | `fail:<reason>` | `na`   (the property's spec-side predicate evaluated on IMPL)

Import-free (core only) so that the executable links.
-/
namespace OxiVerif

def hexDigit (n : Nat) : Char :=
  if n < 10 then Char.ofNat (48 + n) else Char.ofNat (87 + n)

def hexOfBytes (bs : List Nat) : String :=
  String.ofList (bs.flatMap fun b => [hexDigit ((b / 16) % 16), hexDigit (b % 16)])

def hexVal? (c : Char) : Option Nat :=
  let n := c.toNat
  if 48 ≤ n ∧ n ≤ 57 then some (n - 48)
  else if 97 ≤ n ∧ n ≤ 102 then some (n - 87)
  else if 65 ≤ n ∧ n ≤ 70 then some (n - 55)
  else none

def bytesOfHexChars : List Char → Option (List Nat)
  | [] => some []
  | [_] => none
  | a :: b :: rest =>
    match hexVal? a, hexVal? b, bytesOfHexChars rest with
    | some x, some y, some r => some ((x * 16 + y) :: r)
    | _, _, _ => none

/-- `-` denotes the empty byte string (so that fields are never empty). -/
def bytesOfHex? (s : String) : Option (List Nat) :=
  if s = "-" then some [] else bytesOfHexChars s.toList

def hexField (bs : List Nat) : String :=
  if bs.isEmpty then "-" else hexOfBytes bs

def splitTab (s : String) : List String := s.splitOn "\t"

def stripEol (s : String) : String :=
  let cs := s.toList.reverse
  let cs := match cs with
    | '\n' :: r => r
    | r => r
  let cs := match cs with
    | '\r' :: r => r
    | r => r
  String.ofList cs.reverse

partial def driverLoop (h : IO.FS.Stream) (out : IO.FS.Stream)
    (handle : String → String → String × String) : IO Unit := do
  let line ← h.getLine
  if line.isEmpty then
    out.flush
    return ()
  let line := stripEol line
  let (req, impl) := match splitTab line with
    | [r] => (r, "")
    | r :: i :: _ => (r, i)
    | [] => ("", "")
  let (m, o) := handle req impl
  out.putStrLn (m ++ "\t" ++ o)
  driverLoop h out handle

def runDriver (handle : String → String → String × String) : IO Unit := do
  driverLoop (← IO.getStdin) (← IO.getStdout) handle

end OxiVerif
