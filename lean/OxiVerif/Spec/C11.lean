/-
C11 — reference semantics: which characters a page SHOWS.

Written from ISO 32000-1, not from the code:
  §9.4.3  text-showing operators `Tj`, `'`, `"`, `TJ` show the glyphs selected by the codes of
          their string operands in the CURRENT FONT; numbers in a `TJ` array show nothing.
  §9.3.1/§8.4.4  the font is part of the graphics state: set by `Tf`, saved by `q`, restored by `Q`.
  §9.4.1  text-showing operators appear only inside `BT … ET`; text objects do not nest.
  §8.10.1 `Do` of a form XObject = `q`, concatenate `/Matrix`, paint the form's content with the
          form's own resources, `Q`.
  §9.6.6 / Annex D  WinAnsiEncoding (codes 0x20–0xFF) for the simple fonts;
  §9.10.2–3  ToUnicode CMap (`bfchar`, `bfrange`) for the composite fonts, destinations UTF-16BE.
  §14.6   marked-content sequences (`BMC`/`BDC` … `EMC`) are balanced inside one content stream;
  §14.8.2.2 artifacts are not part of the page's real content;
  §14.9.4 `/ActualText` is the replacement text for the whole content it encloses.

`shown` returns the shown runs (one per string operand / ActualText scope), or `none` when the
input is outside what the property speaks about (malformed stream, code without a character,
documented implementation limits: form nesting > 12, `q` nesting > 1024).
Import-free.
-/
import OxiVerif.Model.C11
namespace OxiVerif.C11.Spec
open OxiVerif.C11

/-- Annex D, WinAnsiEncoding, non-white-space codes with one unambiguous character. -/
def winansi (b : Nat) : Option Nat :=
  match b with
  | 0x80 => some 0x20AC | 0x82 => some 0x201A | 0x83 => some 0x0192 | 0x84 => some 0x201E
  | 0x85 => some 0x2026 | 0x86 => some 0x2020 | 0x87 => some 0x2021 | 0x88 => some 0x02C6
  | 0x89 => some 0x2030 | 0x8A => some 0x0160 | 0x8B => some 0x2039 | 0x8C => some 0x0152
  | 0x8E => some 0x017D | 0x91 => some 0x2018 | 0x92 => some 0x2019 | 0x93 => some 0x201C
  | 0x94 => some 0x201D | 0x95 => some 0x2022 | 0x96 => some 0x2013 | 0x97 => some 0x2014
  | 0x98 => some 0x02DC | 0x99 => some 0x2122 | 0x9A => some 0x0161 | 0x9B => some 0x203A
  | 0x9C => some 0x0153 | 0x9E => some 0x017E | 0x9F => some 0x0178
  | b =>
    if (0x20 ≤ b && b ≤ 0x7E) || (0xA0 ≤ b && b ≤ 0xFF && b != 0xAD) then some b else none

/-- ToUnicode lookup of one 2-byte code (explicit `bfchar` before `bfrange`). -/
def toUnicode (base n : Nat) (extras : List (Nat × List Nat)) (code : Nat) : Option (List Nat) :=
  (match lookupAssoc code extras with
  | some units => utf16Dec units
  | none => if 1 ≤ code && code ≤ n then utf16Dec [(base + (code - 1)) % 65536] else none).bind
  -- an entry with an empty destination defines no character for the code
  fun s => if s.isEmpty then none else some s

def codes2 : List Nat → Option (List Nat)
  | [] => some []
  | [_] => none
  | a :: b :: r => (codes2 r).map (fun t => (a * 256 + b) :: t)

/-- characters of one string operand in a font; `none` = some code has no character -/
def chars (f : Font) (bs : List Nat) : Option (List Nat) :=
  let r := match f with
    | .simple => bs.mapM winansi
    | .type0 base n extras => (codes2 bs).bind fun cs => (cs.mapM (toUnicode base n extras)).map List.flatten
  r.bind fun s => if s.any isControl then none else some s

structure ATScope where
  text : List Nat
  depth : Nat          -- marked-content depth at which the scope was opened (global count)
  shown : Bool         -- some real (non-artifact) text was shown inside
  artifact : Bool      -- the scope lies in / is an artifact
  deriving Repr

structure SSt where
  font : Option Font := none
  saved : List (Option Font × Bool) := []
  qDepth : Nat := 0               -- total nesting of `q` (all streams), for the documented cap
  mc : List Bool := []            -- artifact flags of the open scopes (all streams)
  mcLocal : Nat := 0              -- scopes opened by the current stream
  atx : Option ATScope := none     -- the outermost open `/ActualText` scope
  inText : Bool := false
  runs : List (List Nat) := []    -- reversed
  ok : Bool := true
  why : String := ""              -- first reason for leaving the property's domain
  nestedAT : Bool := false        -- an `/ActualText` scope was opened inside another one
  fontLocal : Bool := true        -- the font in force was selected by the stream being painted
  inherited : Bool := false       -- a form showed text in the font inherited from its caller
  deriving Repr

def bad (r : String) (s : SSt) : SSt := if s.ok then { s with ok := false, why := r } else s

/-- bookkeeping for the listed defects: which of them the operand exercises -/
def flagS (f : Font) (bs : List Nat) (s : SSt) : SSt :=
  if !s.fontLocal && !bs.isEmpty then { s with inherited := true } else s

/-- the characters `cs` are shown: dropped inside an artifact, absorbed by an open `/ActualText`
    scope, or a run of their own -/
def emitS (ia : Bool) (cs : List Nat) (s : SSt) : SSt :=
  if s.mc.any id && !ia then s
  else match s.atx with
    | some a => if cs.isEmpty then s else { s with atx := some { a with shown := true } }
    | none => { s with runs := cs :: s.runs }

def showS (ia : Bool) (bs : List Nat) (s : SSt) : SSt :=
  if !s.inText then bad "show-outside-text-object" s else
  match s.font with
  | none => bad "show-without-font" s
  | some f =>
    match chars f bs with
    | none => bad "code-without-character" (flagS f bs s)
    | some cs => emitS ia cs (flagS f bs s)

def openScope (art : Bool) (actual : Option (List Nat)) (s : SSt) : SSt :=
  let inArt := art || s.mc.any id
  let at2 := match s.atx, actual with
    | none, some t => some { text := t, depth := s.mc.length, shown := false, artifact := inArt }
    | a, _ => a
  { s with mc := art :: s.mc, mcLocal := s.mcLocal + 1, atx := at2,
           nestedAT := s.nestedAT || (s.atx.isSome && actual.isSome) }

def closeScope (ia : Bool) (s : SSt) : SSt :=
  if s.mcLocal == 0 then bad "EMC-without-open-scope" s else
  match s.mc with
  | [] => bad "EMC-without-open-scope" s
  | _ :: rest =>
    let s1 := { s with mc := rest, mcLocal := s.mcLocal - 1 }
    match s.atx with
    | some a =>
      if a.depth == rest.length then
        let s2 := { s1 with atx := none }
        if a.shown && (!a.artifact || ia) then { s2 with runs := a.text :: s2.runs } else s2
      else s1
    | none => s1

def stepS (P : Prog) (ia : Bool) (fmap : List Nat) (op : Op) (s : SSt) : SSt :=
  match op with
  | .bt => if s.inText then bad "nested-BT" s else { s with inText := true }
  | .et => if s.inText then { s with inText := false } else bad "ET-without-BT" s
  | .tf nm =>
    (match fmap[nm]? with
    | some g => (match P.fonts[g]? with
      | some f => { s with font := some f, fontLocal := true }
      | none => bad "Tf-unknown-font" s)
    | none => bad "Tf-unknown-font" s)
  | .q =>
    if s.qDepth ≥ MAX_DEPTH then bad "q-nesting-over-1024" s
    else { s with saved := (s.font, s.fontLocal) :: s.saved, qDepth := s.qDepth + 1 }
  | .Q =>
    (match s.saved with
    | (f, l) :: r => { s with font := f, fontLocal := l, saved := r, qDepth := s.qDepth - 1 }
    | [] => bad "Q-without-q" s)
  | .tj bs => showS ia bs s
  | .quote bs => showS ia bs s
  | .tjArr items =>
    if !s.inText then bad "show-outside-text-object" s else
    items.foldl (fun s it => match it with
      | .str bs => showS ia bs s
      | .num => s) s
  | .bmc art => openScope art none s
  | .bdc art actual => openScope art actual s
  | .emc => closeScope ia s
  | .doX _ => s
  | .other => s

def runS (P : Prog) (ia : Bool) (call : Nat → SSt → SSt) (fmap xmap : List Nat) :
    List Op → SSt → SSt
  | [], s => s
  | op :: rest, s =>
    let s1 := match op with
      | .doX nm =>
        -- Table 51: `Do` is not allowed inside a text object
        if s.inText then bad "Do-inside-text-object" s else
        (match xmap[nm]? with
        | some j => call j s
        | none => s)
      | op => stepS P ia fmap op s
    runS P ia call fmap xmap rest s1

/-- §8.10.1: paint a form inside an implicit `q … Q`; its marked content must balance. -/
def levelS (P : Prog) (ia : Bool) : Nat → Nat → SSt → SSt
  | 0, _, s => bad "form-nesting-over-12" s          -- deeper than the documented guard (or cyclic)
  | d + 1, j, s =>
    match P.streams[j]? with
    | none => s
    | some st =>
      let sub := { s with saved := [], qDepth := 0, mcLocal := 0, inText := false, fontLocal := false }
      let out := runS P ia (levelS P ia d) st.fmap st.xmap st.ops sub
      let out := if out.mcLocal != 0 || out.inText then bad "form-leaves-scope-or-text-object-open" out else out
      { out with font := s.font, fontLocal := s.fontLocal, saved := s.saved, qDepth := s.qDepth,
                 mcLocal := s.mcLocal, inText := s.inText }

/-- final state of the reference run over the page -/
def run (P : Prog) (ia : Bool) : SSt :=
  match P.streams[0]? with
  | none => bad "no-page" {}
  | some st =>
    let out := runS P ia (levelS P ia MAX_XOBJECT_DEPTH) st.fmap st.xmap st.ops {}
    if out.mcLocal != 0 || out.inText then bad "page-leaves-scope-or-text-object-open" out else out

/-- The runs the page shows, in painting order; `none` = outside the property. -/
def shown (P : Prog) (ia : Bool) : Option (List (List Nat)) :=
  let out := run P ia
  if out.ok then some out.runs.reverse else none

end OxiVerif.C11.Spec
