/-
C06 — the independent implementation: a reader (and the per-object writer) of encrypted PDF files
written from the standards only.  It shares no code with the crate and none with its models:

  * ISO 32000-1 §7.5 file structure, as far as needed to enumerate the indirect objects of a
    single-revision file: `n g obj … endobj` bodies in file order, streams delimited by a direct
    `/Length`, the `trailer` dictionary or (§7.5.8) the dictionary of the `/Type /XRef` stream,
    object streams (§7.5.7, unfiltered) expanded through their `/N` `/First` header
  * §7.6.1: every string and stream of every indirect object is encrypted, EXCEPT the values of
    the encryption dictionary, the trailer `/ID`, cross-reference streams, and strings inside
    object streams (the object stream as a whole is encrypted instead)
  * §7.6.2 Algorithm 1 / 1.A, §7.6.3 Algorithms 2–7, ISO 32000-2 §7.6.4 Algorithms 2.A/2.B/8–13:
    `Spec/CryptoPdf.lean`
  * §7.6.5 crypt filters: `/StmF` `/StrF` `/CF … /CFM` (`None`→RC4 for V<4, `V2`, `AESV2`, `AESV3`,
    `Identity`), `/EncryptMetadata false` (the `/Type /Metadata` stream stays clear), an explicit
    `/Crypt` filter with `/DecodeParms /Name` (default `Identity`) overrides `/StmF`

Objects are `Spec.Syntax.Obj`; bytes are `Nat`s in the file, `UInt8` in the ciphers.
-/
import OxiVerif.Spec.Syntax
import OxiVerif.Spec.CryptoPdf
namespace OxiVerif.C06
open OxiVerif.Spec.Syntax OxiVerif.Crypto

abbrev NBytes := List Nat

def kw (s : String) : NBytes := s.toList.map Char.toNat

/-- an indirect object: value, stream data (if it is a stream), and whether it was stored in an
object stream -/
structure IObj where
  num : Nat
  gen : Nat
  val : Obj
  data : Option NBytes
  inStm : Bool
deriving Inhabited

def dget (kvs : List (NBytes × Obj)) (k : String) : Option Obj :=
  (kvs.find? fun e => e.1 == kw k).map (·.2)

def entriesOf : Obj → List (NBytes × Obj)
  | .dict kvs => kvs
  | _ => []

def oget (o : Obj) (k : String) : Option Obj := dget (entriesOf o) k

def isName (o : Option Obj) (n : String) : Bool :=
  match o with
  | some (.name b) => b == kw n
  | _ => false

/-! ## §7.5 file structure: the bodies in file order -/

inductive Item where
  | obj (o : IObj)
  | trailer (d : Obj)
  | startxref (n : Nat)

/-- after the value of an indirect object: `endobj`, or `stream` EOL data `endstream` `endobj` -/
def readTail (val : Obj) (rest : NBytes) : Option (Option NBytes × NBytes) :=
  let (t, r1) := takeRegular (skip false rest)
  if t == kw "endobj" then some (none, r1)
  else if t == kw "stream" then
    -- §7.3.8.1: the keyword is followed by CR LF or LF
    let r2? : Option NBytes := match r1 with
      | 13 :: 10 :: r => some r
      | 10 :: r => some r
      | _ => none
    match r2?, oget val "Length" with
    | some r2, some (.int n) =>
      let n := n.toNat
      if r2.length < n then none
      else
        let data := r2.take n
        let (t2, r3) := takeRegular (skip false (r2.drop n))
        let (t3, r4) := takeRegular (skip false r3)
        if t2 == kw "endstream" ∧ t3 == kw "endobj" then some (some data, r4) else none
    | _, _ => none
  else none

/-- skip the entries of a classic cross-reference section up to the keyword `trailer` -/
def skipXref : Nat → NBytes → Option NBytes
  | 0, _ => none
  | fuel + 1, inp =>
    let (t, r) := takeRegular (skip false inp)
    if t.isEmpty then none
    else if t == kw "trailer" then some r
    else skipXref fuel r

def scan : Nat → NBytes → List Item → Option (List Item)
  | 0, _, _ => none
  | fuel + 1, inp, acc =>
    match skip false inp with
    | [] => some acc.reverse
    | r =>
      let (t, r1) := takeRegular r
      if t.isEmpty then none
      else if t == kw "xref" then
        match skipXref r1.length r1 with
        | some r2 =>
          match read r2 with
          | some (d, r3) => scan fuel r3 (.trailer d :: acc)
          | none => none
        | none => none
      else if t == kw "startxref" then
        let (t2, r2) := takeRegular (skip false r1)
        if !t2.isEmpty ∧ allDigits t2 then scan fuel r2 (.startxref (digitsVal t2 0) :: acc) else none
      else if allDigits t then
        let (t2, r2) := takeRegular (skip false r1)
        let (t3, r3) := takeRegular (skip false r2)
        if !t2.isEmpty ∧ allDigits t2 ∧ t3 == kw "obj" then
          match read r3 with
          | some (v, r4) =>
            match readTail v r4 with
            | some (data, r5) =>
              scan fuel r5 (.obj ⟨digitsVal t 0, digitsVal t2 0, v, data, false⟩ :: acc)
            | none => none
          | none => none
        else none
      else none

structure File where
  objs : List IObj
  trailer : Obj

def findObj (objs : List IObj) (n : Nat) : Option IObj := objs.find? fun o => o.num == n

/-- the file's objects and the dictionary that plays the role of the trailer -/
def parseFile (bytes : NBytes) : Except String File :=
  match scan (bytes.length + 1) bytes [] with
  | none => .error "syntax"
  | some items =>
    let objs := items.filterMap fun i => match i with | .obj o => some o | _ => none
    let trailers := items.filterMap fun i => match i with | .trailer d => some d | _ => none
    match trailers.getLast? with
    | some t => .ok ⟨objs, t⟩
    | none =>
      match (objs.filter fun o => isName (oget o.val "Type") "XRef").getLast? with
      | some x => .ok ⟨objs, x.val⟩
      | none => .error "no-trailer"

/-! ## §7.6 the encryption dictionary -/

structure Enc where
  objNum : Option Nat      -- the /Encrypt object (none: a direct dictionary)
  v : Nat
  r : Nat
  n : Nat                  -- key length in bytes
  o : Bytes
  u : Bytes
  oe : Bytes
  ue : Bytes
  perms : Bytes
  p : Nat                  -- /P as an unsigned 32-bit number
  em : Bool                -- /EncryptMetadata
  stmM : Nat               -- 0 Identity, 1 RC4, 2 AESV2, 3 AESV3
  strM : Nat
  cf : List (NBytes × Nat) -- named crypt filters
  id0 : Bytes

def strOf (o : Option Obj) : Option Bytes :=
  match o with
  | some (.str b) => some (bytesOfNats b)
  | some (.hexstr b) => some (bytesOfNats b)
  | _ => none

def natOf (o : Option Obj) : Option Nat :=
  match o with
  | some (.int i) => if i ≥ 0 then some i.toNat else none
  | _ => none

def methodOfCfm (o : Option Obj) : Nat :=
  if isName o "V2" then 1 else if isName o "AESV2" then 2 else if isName o "AESV3" then 3 else 0

def filterMethod (cf : List (NBytes × Nat)) (name : Option Obj) : Nat :=
  match name with
  | some (.name n) => if n == kw "Identity" then 0 else ((cf.find? fun e => e.1 == n).map (·.2)).getD 0
  | _ => 0   -- §7.6.5: the default of /StmF and /StrF is Identity

def parseEnc (f : File) : Except String (Option Enc) :=
  match oget f.trailer "Encrypt" with
  | none => .ok none
  | some e =>
    let (objNum, dict?) : Option Nat × Option Obj := match e with
      | .ref n _ => (some n, (findObj f.objs n).map (·.val))
      | .dict kvs => (none, some (.dict kvs))
      | _ => (none, none)
    match dict? with
    | none => .error "encrypt-dict-missing"
    | some d =>
      if !isName (oget d "Filter") "Standard" then .error "filter-not-standard"
      else
        match natOf (oget d "V"), natOf (oget d "R"), strOf (oget d "O"), strOf (oget d "U"), oget d "P" with
        | some v, some r, some o, some u, some (.int p) =>
          let id0 := match oget f.trailer "ID" with
            | some (.arr (x :: _)) => (strOf (some x)).getD []
            | _ => []
          let n := if v == 1 then 5 else if v == 4 then 16 else if v == 5 then 32
            else ((natOf (oget d "Length")).getD 40) / 8
          let cf : List (NBytes × Nat) := match oget d "CF" with
            | some (.dict kvs) => kvs.map fun (k, fd) => (k, methodOfCfm (oget fd "CFM"))
            | _ => []
          let em := match oget d "EncryptMetadata" with
            | some (.bool b) => b
            | _ => true
          let (stmM, strM) := if v < 4 then (1, 1) else (filterMethod cf (oget d "StmF"), filterMethod cf (oget d "StrF"))
          .ok (some { objNum, v, r, n, o, u, oe := (strOf (oget d "OE")).getD [], ue := (strOf (oget d "UE")).getD [],
                      perms := (strOf (oget d "Perms")).getD [], p := (p % 4294967296).toNat, em, stmM, strM, cf, id0 })
        | _, _, _, _, _ => .error "encrypt-dict-entries"

/-! ## authentication (passwords are byte strings) -/

def supported (e : Enc) : Bool :=
  (e.r == 2 || e.r == 3 || e.r == 4 || e.r == 5 || e.r == 6) && 5 ≤ e.n && (e.n ≤ 16 || e.n == 32)

def authUser (e : Enc) (pw : Bytes) : Option Bytes :=
  if e.r ≤ 4 then alg6 e.r e.n pw e.o e.u e.p e.id0 e.em
  else alg11 e.r (pw.take 127) e.u e.ue

def authOwner (e : Enc) (pw : Bytes) : Option Bytes :=
  if e.r ≤ 4 then alg7 e.r e.n pw e.o e.u e.p e.id0 e.em
  else alg12 e.r (pw.take 127) e.o e.u e.oe

/-- Algorithm 2.A (f) / 13: `/Perms` decrypts to `/P`, the EncryptMetadata flag and "adb" -/
def permsOk (e : Enc) (key : Bytes) : Bool :=
  if e.r ≤ 4 then true
  else match alg13 key e.perms with
    | some (p4, em) => p4 == le32OfNat e.p && em == e.em
    | none => false

/-- what a viewer does with one password: user first, then owner -/
def unlock (e : Enc) (pw : Bytes) : Option Bytes :=
  match authUser e pw with
  | some k => some k
  | none => authOwner e pw

/-! ## §7.6.1 / §7.6.2: decryption and encryption of one indirect object -/

mutual
/-- every string of an object value through `f` (`none` when `f` fails) -/
def decTree (f : NBytes → Option NBytes) : Obj → Option Obj
  | .str b => (f b).map .str
  | .hexstr b => (f b).map .hexstr
  | .arr l => (decList f l).map .arr
  | .dict l => (decEntries f l).map .dict
  | o => some o
def decList (f : NBytes → Option NBytes) : List Obj → Option (List Obj)
  | [] => some []
  | o :: r =>
    match decTree f o, decList f r with
    | some o', some r' => some (o' :: r')
    | _, _ => none
def decEntries (f : NBytes → Option NBytes) : List (NBytes × Obj) → Option (List (NBytes × Obj))
  | [] => some []
  | (k, v) :: r =>
    match decTree f v, decEntries f r with
    | some v', some r' => some ((k, v') :: r')
    | _, _ => none
end

mutual
/-- the writer side: every string of an object value through `g` -/
def encTree (g : NBytes → NBytes) : Obj → Obj
  | .str b => .str (g b)
  | .hexstr b => .hexstr (g b)
  | .arr l => .arr (encList g l)
  | .dict l => .dict (encEntries g l)
  | o => o
def encList (g : NBytes → NBytes) : List Obj → List Obj
  | [] => []
  | o :: r => encTree g o :: encList g r
def encEntries (g : NBytes → NBytes) : List (NBytes × Obj) → List (NBytes × Obj)
  | [] => []
  | (k, v) :: r => (k, encTree g v) :: encEntries g r
end

/-- Algorithm 1 / 1.A on `Nat` bytes; method 0 = Identity -/
def decBytes (m : Nat) (key : Bytes) (num gen : Nat) (b : NBytes) : Option NBytes :=
  if m == 0 then some b else (decryptData m key num gen (bytesOfNats b)).map natsOfBytes

def encBytes (m : Nat) (key : Bytes) (num gen : Nat) (iv : Bytes) (b : NBytes) : NBytes :=
  if m == 0 then b else natsOfBytes (encryptData m key num gen iv (bytesOfNats b))

def filterNames (o : Option Obj) : List NBytes :=
  match o with
  | some (.name n) => [n]
  | some (.arr l) => l.filterMap fun x => match x with | .name n => some n | _ => none
  | _ => []

/-- the crypt filter method that applies to a stream (§7.6.5, §7.5.8.2, Table 20 EncryptMetadata) -/
def streamMethod (e : Enc) (dict : Obj) : Nat :=
  if isName (oget dict "Type") "XRef" then 0
  else if !e.em && isName (oget dict "Type") "Metadata" then 0
  else if (filterNames (oget dict "Filter")).contains (kw "Crypt") then
    let parms : Option Obj := match oget dict "DecodeParms" with
      | some (.dict kvs) => some (.dict kvs)
      | some (.arr l) => l.find? fun x => match x with | .dict kvs => (dget kvs "Name").isSome | _ => false
      | _ => none
    match parms with
    | some p => filterMethod e.cf (oget p "Name")
    | none => 0     -- Table 14: the default /Name of a Crypt filter is Identity
  else e.stmM

/-- one indirect object as the reader hands it out -/
def decryptIObj (e : Enc) (key : Bytes) (o : IObj) : Option IObj :=
  if e.objNum == some o.num then some o            -- the encryption dictionary itself
  else if isName (oget o.val "Type") "XRef" ∧ o.data.isSome then some o
  else
    match decTree (decBytes e.strM key o.num o.gen) o.val with
    | none => none
    | some v =>
      match o.data with
      | none => some { o with val := v }
      | some d =>
        match decBytes (streamMethod e o.val) key o.num o.gen d with
        | some d' => some { o with val := v, data := some d' }
        | none => none

/-- the writer side of `decryptIObj` for an ordinary object (`iv` for every string and the stream) -/
def encryptIObj (e : Enc) (key : Bytes) (iv : Bytes) (o : IObj) : IObj :=
  { o with val := encTree (encBytes e.strM key o.num o.gen iv) o.val,
           data := o.data.map (encBytes (streamMethod e o.val) key o.num o.gen iv) }

/-! ## §7.5.7 object streams -/

def readPairs : Nat → NBytes → Option (List (Nat × Nat))
  | 0, _ => some []
  | k + 1, inp =>
    let (a, r1) := takeRegular (skip false inp)
    let (b, r2) := takeRegular (skip false r1)
    if !a.isEmpty ∧ allDigits a ∧ !b.isEmpty ∧ allDigits b then
      match readPairs k r2 with
      | some l => some ((digitsVal a 0, digitsVal b 0) :: l)
      | none => none
    else none

def expandObjStm (o : IObj) : Except String (List IObj) :=
  if !isName (oget o.val "Type") "ObjStm" then .ok []
  else
    match o.data, natOf (oget o.val "N"), natOf (oget o.val "First") with
    | some d, some n, some first =>
      if (oget o.val "Filter").isSome then .error "objstm-filter-unsupported"
      else
        match readPairs n d with
        | none => .error "objstm-header"
        | some pairs =>
          pairs.foldr (fun (num, off) acc =>
            match acc, read (d.drop (first + off)) with
            | .ok l, some (v, _) => .ok (⟨num, 0, v, none, true⟩ :: l)
            | .ok _, none => .error "objstm-member"
            | e, _ => e) (.ok [])
    | _, _, _ => .error "objstm-dict"

/-- all objects of a file after decryption with `key` (top-level objects in file order, then the
members of the object streams) -/
def decryptFile (f : File) (e : Enc) (key : Bytes) : Except String (List IObj) :=
  match f.objs.mapM (decryptIObj e key) with
  | none => .error "decrypt"
  | some top =>
    match top.mapM expandObjStm with
    | .ok ls => .ok (top ++ ls.flatten)
    | .error m => .error m

def plainObjects (f : File) : Except String (List IObj) :=
  match f.objs.mapM expandObjStm with
  | .ok ls => .ok (f.objs ++ ls.flatten)
  | .error m => .error m

end OxiVerif.C06
