import OxiVerif.Spec.Syntax
/-!
# Spec.C09Stream — ISO 32000-1:2008 §7.3.8.1, stream objects, an independent reader

"A stream shall consist of a dictionary followed by zero or more bytes bracketed between the
keywords `stream` (followed by newline) and `endstream`.  The keyword `stream` that follows the
stream dictionary shall be followed by an end-of-line marker consisting of either a CARRIAGE
RETURN and a LINE FEED or just a LINE FEED, and **not by a CARRIAGE RETURN alone**.  The sequence
of bytes that make up a stream lie between the end-of-line marker following the `stream` keyword
and the `endstream` keyword; the stream dictionary specifies the exact number of bytes.  There
should be an end-of-line marker after the data and before `endstream`; this marker shall not be
included in the stream length."  Written from that text, not from the library.  Import-free
apart from `Spec.Syntax`.
-/
namespace OxiVerif.Spec.Stream
open OxiVerif.Spec.Syntax

def kwStream : List Nat := [115, 116, 114, 101, 97, 109]
def kwEndstream : List Nat := [101, 110, 100, 115, 116, 114, 101, 97, 109]
def lengthKey : List Nat := [76, 101, 110, 103, 116, 104]

/-- the value of the (single) entry with this key; a repeated key is an error -/
def lookupUnique (k : List Nat) : List (List Nat × Obj) → Option Obj
  | [] => none
  | (k', v) :: rest =>
    if k' == k then (if rest.any (fun kv => kv.1 == k) then none else some v)
    else lookupUnique k rest

/-- the end-of-line marker after the keyword `stream`: CR LF or LF, not CR alone -/
def eolAfterStream : List Nat → Option (List Nat)
  | 13 :: 10 :: r => some r
  | 10 :: r => some r
  | _ => none

/-- the optional end-of-line marker before `endstream` (CR LF, LF or CR) -/
def optEol : List Nat → List Nat
  | 13 :: 10 :: r => r
  | 10 :: r => r
  | 13 :: r => r
  | l => l

/-- the payload: after the keyword `stream`, exactly `n` bytes, an optional end-of-line marker,
    the keyword `endstream` as a complete token -/
def readPayload (n : Nat) (inp : List Nat) : Option (List Nat × List Nat) :=
  match eolAfterStream inp with
  | none => none
  | some r =>
    if r.length < n then none
    else
      let (t, rest) := takeRegular (optEol (r.drop n))
      if t == kwEndstream then some (r.take n, rest) else none

/-- a stream object: dictionary, keyword `stream`, payload of `/Length` bytes, `endstream` -/
def readStream (inp : List Nat) : Option (List (List Nat × Obj) × List Nat × List Nat) :=
  match read inp with
  | some (.dict kvs, r) =>
    let (t, r2) := takeRegular (skip false r)
    if t == kwStream then
      match lookupUnique lengthKey kvs with
      | some (.int n) =>
        if n < 0 then none
        else
          match readPayload n.toNat r2 with
          | some (d, rest) => some (kvs, d, rest)
          | none => none
      | _ => none
    else none
  | _ => none

end OxiVerif.Spec.Stream
