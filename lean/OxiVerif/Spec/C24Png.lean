/-
Reference PNG *encoder* and pixel semantics, written from the PNG specification
(W3C PNG 2nd ed. / ISO 15948): §5.2 signature, §5.3 chunk layout, §5.5 + Annex D CRC-32,
§9 filtering (filter types 0–4, Paeth predictor), §8.2 Adam7 interlacing, §10 zlib container with
*stored* deflate blocks (RFC 1950 header/Adler-32, RFC 1951 §3.2.4), §11.2 IHDR/PLTE/IDAT/IEND,
§11.3.2.1 tRNS.  Import-free; executable.  Bytes are `Nat`s < 256.

It has two uses:
 * the driver re-encodes every generated image description with `encodePng` and compares with the
   file bytes the Rust harness produced (so the harness's encoder is itself checked);
 * `expectedPixels` is what an independent PNG decoder delivers for the description: per pixel
   the colour samples and the alpha sample, each with the maximum value of its scale.
-/
namespace OxiVerif.Spec.C24Png

/-! ### CRC-32 (Annex D) and Adler-32 (RFC 1950 §8.2) -/

def crcStep (c : Nat) : Nat :=
  if c % 2 = 1 then (c / 2) ^^^ 0xEDB88320 else c / 2

def crcByte (c b : Nat) : Nat :=
  let c := c ^^^ b
  crcStep (crcStep (crcStep (crcStep (crcStep (crcStep (crcStep (crcStep c)))))))

def crc32 (bs : List Nat) : Nat :=
  (bs.foldl crcByte 0xFFFFFFFF) ^^^ 0xFFFFFFFF

def adler32 (bs : List Nat) : Nat :=
  let (a, b) := bs.foldl (fun (p : Nat × Nat) x =>
    let a := (p.1 + x) % 65521
    (a, (p.2 + a) % 65521)) (1, 0)
  b * 65536 + a

def be32 (n : Nat) : List Nat :=
  [(n / 16777216) % 256, (n / 65536) % 256, (n / 256) % 256, n % 256]

def be16 (n : Nat) : List Nat := [(n / 256) % 256, n % 256]

def le16 (n : Nat) : List Nat := [n % 256, (n / 256) % 256]

/-! ### §9 filtering -/

/-- Paeth predictor (§9.4), on naturals. -/
def paeth (a b c : Nat) : Nat :=
  let p : Int := (a : Int) + b - c
  let pa := (p - a).natAbs
  let pb := (p - b).natAbs
  let pc := (p - c).natAbs
  if pa ≤ pb ∧ pa ≤ pc then a else if pb ≤ pc then b else c

/-- the predicted value for filter type `ft` from left `a`, above `b`, upper-left `c` -/
def predictor (ft a b c : Nat) : Nat :=
  match ft with
  | 0 => 0
  | 1 => a
  | 2 => b
  | 3 => (a + b) / 2
  | _ => paeth a b c

/-- Filter one scanline.  `doneRev` = the already visited bytes of the current scanline (reversed),
`prevRev` = the already visited bytes of the previous scanline (reversed), so that the byte `bpp`
positions to the left is at index `bpp-1` (and absent, hence 0, for the first `bpp` bytes). -/
def filterGo (ft bpp : Nat) : List Nat → List Nat → List Nat → List Nat → List Nat
  | [], _, _, _ => []
  | x :: xs, prev, doneRev, prevRev =>
    let b := prev.headD 0
    let a := doneRev.getD (bpp - 1) 0
    let c := prevRev.getD (bpp - 1) 0
    ((x + 256 - predictor ft a b c % 256) % 256) ::
      filterGo ft bpp xs prev.tail (x :: doneRev) (b :: prevRev)

def filterRow (ft bpp : Nat) (prev cur : List Nat) : List Nat :=
  filterGo ft bpp cur prev [] []

/-- Filter a list of scanlines: each scanline is preceded by its filter-type byte; the scanline
above the first one is all zero. -/
def filterRows (bpp : Nat) : List Nat → List (List Nat) → List Nat → List Nat
  | ft :: fts, row :: rows, prev =>
    ft :: (filterRow ft bpp prev row ++ filterRows bpp fts rows row)
  | _, _, _ => []

/-! ### image descriptions -/

structure Desc where
  w : Nat
  h : Nat
  depth : Nat
  ct : Nat
  il : Nat
  filters : List Nat
  plte : Option (List Nat)
  trns : Option (List Nat)
  splits : List Nat
  /-- `some blk` = stored deflate blocks of at most `blk` bytes; `none` = compressed by flate2 -/
  stored : Option Nat
  anc : List Char
  /-- `h` packed scanlines of `rowBytes` bytes, unfiltered, not interlaced -/
  rows : List Nat
  deriving Repr

def channels (ct : Nat) : Nat :=
  match ct with
  | 2 => 3
  | 4 => 2
  | 6 => 4
  | _ => 1

def Desc.pixelBits (d : Desc) : Nat := d.depth * channels d.ct

/-- bytes of one packed scanline of `w` pixels (§7.2) -/
def rowBytesOf (w pixelBits : Nat) : Nat := (w * pixelBits + 7) / 8

def Desc.rowBytes (d : Desc) : Nat := rowBytesOf d.w d.pixelBits

/-- filter unit: bytes per complete pixel, rounded up to 1 (§9.2) -/
def Desc.bpp (d : Desc) : Nat := max 1 (d.pixelBits / 8)

/-- colour type / bit depth combinations of Table 11.1, tRNS/PLTE constraints of §11 -/
def Desc.valid (d : Desc) : Bool :=
  d.w ≥ 1 && d.h ≥ 1 && d.il ≤ 1 &&
  (match d.ct with
   | 0 => d.depth ∈ [1, 2, 4, 8, 16]
   | 3 => d.depth ∈ [1, 2, 4, 8]
   | 2 | 4 | 6 => d.depth ∈ [8, 16]
   | _ => false) &&
  d.rows.length = d.h * d.rowBytes &&
  d.rows.all (· < 256) &&
  (match d.plte with
   | some p => p.length % 3 = 0 && p.length ≥ 3 && p.length ≤ 768 && d.ct ∈ [2, 3, 6] &&
               (d.ct != 3 || p.length / 3 ≤ 2 ^ d.depth)
   | none => d.ct != 3) &&
  (match d.trns with
   | none => true
   | some t =>
     match d.ct with
     | 0 => t.length = 2
     | 2 => t.length = 6
     | 3 => t.length ≤ (d.plte.getD []).length / 3
     | _ => false)

/-! ### bits -/

def bitsOfByte (b : Nat) : List Bool :=
  [b / 128 % 2 = 1, b / 64 % 2 = 1, b / 32 % 2 = 1, b / 16 % 2 = 1,
   b / 8 % 2 = 1, b / 4 % 2 = 1, b / 2 % 2 = 1, b % 2 = 1]

def bitsOf (bs : List Nat) : List Bool := bs.flatMap bitsOfByte

def natOfBits (bs : List Bool) : Nat := bs.foldl (fun n b => 2 * n + (if b then 1 else 0)) 0

/-- pack bits MSB-first, zero padding in the last byte -/
def packBits (fuel : Nat) (bs : List Bool) : List Nat :=
  match fuel, bs with
  | _, [] => []
  | 0, _ => []
  | fuel + 1, bs => natOfBits ((bs.take 8) ++ List.replicate (8 - (bs.take 8).length) false) ::
      packBits fuel (bs.drop 8)

def chunksOf (n : Nat) (fuel : Nat) (xs : List α) : List (List α) :=
  match fuel, xs with
  | _, [] => []
  | 0, _ => []
  | fuel + 1, xs => xs.take n :: chunksOf n fuel (xs.drop n)

def Desc.scanlines (d : Desc) : List (List Nat) :=
  if d.rowBytes = 0 then List.replicate d.h [] else chunksOf d.rowBytes d.h d.rows

/-! ### §8.2 Adam7 -/

def adam7 : List (Nat × Nat × Nat × Nat) :=
  [(0, 0, 8, 8), (4, 0, 8, 8), (0, 4, 4, 8), (2, 0, 4, 4), (0, 2, 2, 4), (1, 0, 2, 2), (0, 1, 1, 2)]

/-- indices `s, s+d, s+2d, … < n` -/
def strided (s d n : Nat) : List Nat :=
  (List.range n).filter (fun i => i ≥ s ∧ (i - s) % d = 0)

/-- the reduced images: one list of scanlines per non-empty pass -/
def Desc.subImages (d : Desc) : List (List (List Nat)) :=
  if d.il = 0 then [d.scanlines]
  else
    let lines := d.scanlines
    let pb := d.pixelBits
    adam7.filterMap fun (xs, ys, dx, dy) =>
      if d.w ≤ xs ∨ d.h ≤ ys then none
      else
        some ((strided ys dy d.h).map fun y =>
          let bits := bitsOf (lines.getD y [])
          let sel := (strided xs dx d.w).flatMap fun x => (bits.drop (x * pb)).take pb
          packBits (sel.length + 1) sel)

def cycleTake (n : Nat) (xs : List Nat) : List Nat :=
  if xs.isEmpty then List.replicate n 0
  else (List.range n).map fun i => xs.getD (i % xs.length) 0

/-- the filtered scanline stream = what zlib compresses (§9, §10) -/
def Desc.filteredStream (d : Desc) : List Nat :=
  let subs := d.subImages
  let total := (subs.map List.length).foldl (· + ·) 0
  let fts := cycleTake total d.filters
  let rec go (subs : List (List (List Nat))) (fts : List Nat) : List Nat :=
    match subs with
    | [] => []
    | pass :: rest =>
      let n := pass.length
      let zero := List.replicate ((pass.headD []).length) 0
      filterRows d.bpp (fts.take n) pass zero ++ go rest (fts.drop n)
  go subs fts

/-! ### zlib with stored blocks -/

def storedBlocks (blk : Nat) (fuel : Nat) (data : List Nat) : List Nat :=
  match fuel with
  | 0 => []
  | fuel + 1 =>
    let c := data.take blk
    let rest := data.drop blk
    let final := if rest.isEmpty then 1 else 0
    let l := c.length
    [final] ++ le16 l ++ le16 (65535 - l) ++ c ++
      (if rest.isEmpty then [] else storedBlocks blk fuel rest)

def zlibStored (blk : Nat) (data : List Nat) : List Nat :=
  let blk := max 1 (min blk 65535)
  [0x78, 0x01] ++ storedBlocks blk (data.length + 1) data ++ be32 (adler32 data)

/-! ### chunks and the file -/

def tagOf (s : String) : List Nat := s.toList.map Char.toNat

def chunk (tag : String) (data : List Nat) : List Nat :=
  let td := tagOf tag ++ data
  be32 data.length ++ td ++ be32 (crc32 td)

def signature : List Nat := [0x89, 0x50, 0x4E, 0x47, 0x0D, 0x0A, 0x1A, 0x0A]

def idatChunks (fuel : Nat) (splits : List Nat) (z : List Nat) (wrote : Bool) : List Nat :=
  match fuel, splits with
  | _, [] => if !z.isEmpty || !wrote then chunk "IDAT" z else []
  | 0, _ => []
  | fuel + 1, s :: ss =>
    if s = 0 ∨ z.isEmpty then idatChunks fuel ss z wrote
    else chunk "IDAT" (z.take s) ++ idatChunks fuel ss (z.drop s) true

/-- everything of the file except the IDAT payload, which is a parameter -/
def Desc.encodeWith (d : Desc) (z : List Nat) : List Nat :=
  signature ++
  chunk "IHDR" (be32 d.w ++ be32 d.h ++ [d.depth, d.ct, 0, 0, d.il]) ++
  (if d.anc.contains 'g' then chunk "gAMA" [0, 0, 0xB1, 0x8F] else []) ++
  (match d.plte with | some p => chunk "PLTE" p | none => []) ++
  (if d.anc.contains 'k' then chunk "bKGD" [0, 0] else []) ++
  (match d.trns with | some t => chunk "tRNS" t | none => []) ++
  (if d.anc.contains 'e' then chunk "IDAT" [] else []) ++
  idatChunks (d.splits.length + 1) d.splits z false ++
  (if d.anc.contains 'e' then chunk "IDAT" [] else []) ++
  (if d.anc.contains 't' then chunk "tEXt" (tagOf "Comment" ++ [0] ++ tagOf "c24") else []) ++
  chunk "IEND" [] ++
  (if d.anc.contains 'z' then tagOf "trailing" else [])

/-- the reference encoding (stored blocks) -/
def Desc.encode (d : Desc) : List Nat :=
  d.encodeWith (zlibStored (d.stored.getD 65535) d.filteredStream)

/-! ### pixel semantics (what an independent decoder delivers) -/

structure Pixel where
  /-- colour samples with the maximum of their scale -/
  comps : List Nat
  cmax : Nat
  alpha : Nat
  amax : Nat
  deriving Repr, BEq, DecidableEq

def samplesOfRow (depth n : Nat) (row : List Nat) : List Nat :=
  let bits := bitsOf row
  (List.range n).map fun i => natOfBits ((bits.drop (i * depth)).take depth)

def pixelOf (d : Desc) (s : List Nat) : Pixel :=
  let m := 2 ^ d.depth - 1
  match d.ct with
  | 0 =>
    let key := match d.trns with
      | some [a, b] => some (a * 256 + b)
      | _ => none
    { comps := s, cmax := m, alpha := if key = some (s.headD 0) then 0 else 1, amax := 1 }
  | 2 =>
    let key := match d.trns with
      | some [a, b, c, e, f, g] => some [a * 256 + b, c * 256 + e, f * 256 + g]
      | _ => none
    { comps := s, cmax := m, alpha := if key = some s then 0 else 1, amax := 1 }
  | 3 =>
    let i := s.headD 0
    let p := d.plte.getD []
    { comps := [p.getD (3 * i) 0, p.getD (3 * i + 1) 0, p.getD (3 * i + 2) 0], cmax := 255,
      alpha := (d.trns.getD []).getD i 255, amax := 255 }
  | 4 => { comps := s.take 1, cmax := m, alpha := s.getD 1 0, amax := m }
  | _ => { comps := s.take 3, cmax := m, alpha := s.getD 3 0, amax := m }

def Desc.expectedPixels (d : Desc) : List Pixel :=
  let ch := channels d.ct
  d.scanlines.flatMap fun row =>
    let ss := samplesOfRow d.depth (d.w * ch) row
    (chunksOf ch d.w ss).map (pixelOf d)

end OxiVerif.Spec.C24Png
