/-
RC4 (as in "Applied Cryptography" / the 1994 posting; RFC 6229 test vectors) — reference
definition, executable, import-free.  The state is (S, i, j) with S an array of 256 bytes.
-/
import OxiVerif.Spec.CryptoHash
namespace OxiVerif.Crypto

def rc4Identity : Array UInt8 := ((List.range 256).map UInt8.ofNat).toArray

/-- one step of the key-scheduling loop: j := j + S[i] + key[i mod keylen]; swap S[i], S[j] -/
def ksaStep (key : Array UInt8) (st : Array UInt8 × Nat) (i : Nat) : Array UInt8 × Nat :=
  let j := (st.2 + (st.1[i]!).toNat + (key[i % key.size]!).toNat) % 256
  (st.1.swapIfInBounds i j, j)

def ksa (key : Bytes) : Array UInt8 :=
  ((List.range 256).foldl (ksaStep key.toArray) (rc4Identity, 0)).1

structure Rc4State where
  s : Array UInt8
  i : Nat
  j : Nat

/-- one step of the pseudo-random generation algorithm: next state and keystream byte -/
def prgaStep (st : Rc4State) : Rc4State × UInt8 :=
  let i := (st.i + 1) % 256
  let j := (st.j + (st.s[i]!).toNat) % 256
  let s := st.s.swapIfInBounds i j
  (⟨s, i, j⟩, s[((s[i]!).toNat + (s[j]!).toNat) % 256]!)

def prga (st : Rc4State) : Bytes → Bytes
  | [] => []
  | b :: rest =>
    let r := prgaStep st
    (b ^^^ r.2) :: prga r.1 rest

def rc4Init (key : Bytes) : Rc4State := ⟨ksa key, 0, 0⟩

/-- RC4 encryption = decryption of `data` under `key` (`key` non-empty, at most 256 bytes). -/
def rc4 (key data : Bytes) : Bytes := prga (rc4Init key) data

end OxiVerif.Crypto
