import OxiVerif.Spec.Syntax
/-!
# Spec.C10File — a small *independent* PDF file reader (ISO 32000-1 §7.5), used by the C10 and C13
oracles to recover values from the bytes the real writer produced.

Strict and minimal, written from the standard, no recovery:
* §7.5.5  `startxref` — the last one in the file gives the offset of the newest cross-reference section;
* §7.5.4  classic cross-reference sections (`xref`, subsections `first count`, 20-byte entries read as
          three white-space separated tokens), `trailer` dictionary;
* §7.5.6  incremental updates: `/Prev` chain, the newest entry for an object number wins;
* §7.3.10 indirect objects `n g obj … endobj` read with `Spec.Syntax.readObj`;
* §7.3.8  streams: `stream` EOL, `/Length` bytes (direct or indirect), no filters applied.
Cross-reference *streams* and object streams are not handled (the harnesses write classic files).
Bytes are `Nat`, the file is an `Array Nat`.
-/
namespace OxiVerif.PdfFile
open OxiVerif.Spec.Syntax

def slice (a : Array Nat) (i j : Nat) : List Nat := (a.extract i j).toList

def matchAt (a : Array Nat) (i : Nat) (pat : Array Nat) : Bool :=
  i + pat.size ≤ a.size && (List.range pat.size).all fun k => a[i + k]! == pat[k]!

/-- largest `j ≤ i` with `pat` at `j` -/
def findLastFrom (a : Array Nat) (pat : Array Nat) : Nat → Option Nat
  | 0 => if matchAt a 0 pat then some 0 else none
  | i + 1 => if matchAt a (i + 1) pat then some (i + 1) else findLastFrom a pat i

def kwStartxref : List Nat := [115, 116, 97, 114, 116, 120, 114, 101, 102]
def kwXref : List Nat := [120, 114, 101, 102]
def kwTrailer : List Nat := [116, 114, 97, 105, 108, 101, 114]
def kwObj : List Nat := [111, 98, 106]
def kwStream : List Nat := [115, 116, 114, 101, 97, 109]

/-- next regular-character token -/
def tok (inp : List Nat) : List Nat × List Nat := takeRegular (skip false inp)

def natTok (inp : List Nat) : Option (Nat × List Nat) :=
  let (t, r) := tok inp
  if !t.isEmpty && allDigits t then some (digitsVal t 0, r) else none

structure XEntry where
  num : Nat
  off : Nat
  gen : Nat
  inUse : Bool
  deriving Repr, Inhabited

/-- `count` entries of one subsection -/
def readEntries : Nat → Nat → List Nat → Option (List XEntry × List Nat)
  | 0, _, inp => some ([], inp)
  | c + 1, num, inp =>
    match natTok inp with
    | none => none
    | some (off, r1) =>
      match natTok r1 with
      | none => none
      | some (gen, r2) =>
        let (k, r3) := tok r2
        if k == [110] || k == [102] then
          match readEntries c (num + 1) r3 with
          | some (es, rest) => some ({ num, off, gen, inUse := k == [110] } :: es, rest)
          | none => none
        else none

/-- subsections up to `trailer`, then the trailer dictionary -/
def readSubsections : Nat → List Nat → Option (List XEntry × Obj)
  | 0, _ => none
  | fuel + 1, inp =>
    let (t, r) := tok inp
    if t == kwTrailer then
      match read r with
      | some (.dict kvs, _) => some ([], .dict kvs)
      | _ => none
    else if !t.isEmpty && allDigits t then
      match natTok r with
      | none => none
      | some (count, r2) =>
        match readEntries count (digitsVal t 0) r2 with
        | none => none
        | some (es, r3) =>
          match readSubsections fuel r3 with
          | some (es', tr) => some (es ++ es', tr)
          | none => none
    else none

def dictGet : List (List Nat × Obj) → List Nat → Option Obj
  | [], _ => none
  | (k, v) :: r, key => if k == key then some v else dictGet r key

def Obj.get (o : Obj) (key : String) : Option Obj :=
  match o with
  | .dict kvs => dictGet kvs (key.toUTF8.toList.map (·.toNat))
  | _ => none

/-- sections newest first: entries and trailers along the `/Prev` chain -/
def readChain (a : Array Nat) : Nat → Nat → Option (List XEntry × List Obj)
  | 0, _ => none
  | fuel + 1, off =>
    let (t, r) := tok (slice a off a.size)
    if t != kwXref then none else
    match readSubsections (a.size + 2) r with
    | none => none
    | some (es, tr) =>
      match Obj.get tr "Prev" with
      | some (.int p) =>
        match readChain a fuel p.toNat with
        | some (es', trs) => some (es ++ es', tr :: trs)
        | none => none
      | some _ => none
      | none => some (es, [tr])

structure File where
  bytes : Array Nat
  entries : List XEntry      -- newest first
  trailer : Obj              -- newest trailer
  deriving Inhabited

def openFile (bytes : List Nat) : Option File :=
  let a := bytes.toArray
  match findLastFrom a kwStartxref.toArray a.size with
  | none => none
  | some p =>
    match natTok (slice a (p + 9) a.size) with
    | none => none
    | some (off, _) =>
      match readChain a 64 off with
      | some (es, tr :: _) => some { bytes := a, entries := es, trailer := tr }
      | _ => none

def File.entry (f : File) (n : Nat) : Option XEntry := f.entries.find? fun e => e.num == n

/-- where the object that starts at `off` must have ended: the next larger recorded offset -/
def File.extentEnd (f : File) (off : Nat) : Nat :=
  f.entries.foldl (fun m e => if e.inUse && off < e.off && e.off < m then e.off else m) f.bytes.size

/-- the indirect object `n`: its value and, for a stream, the absolute offset of the data -/
def File.objAt (f : File) (n : Nat) : Option (Obj × Option Nat) :=
  match f.entry n with
  | none => none
  | some e =>
    if !e.inUse then none else
    let w := slice f.bytes e.off (f.extentEnd e.off)
    match natTok w with
    | none => none
    | some (n', r1) =>
      if n' != n then none else
      match natTok r1 with
      | none => none
      | some (_, r2) =>
        let (k, r3) := tok r2
        if k != kwObj then none else
        match read r3 with
        | none => none
        | some (o, r4) =>
          let (k2, r5) := tok r4
          if k2 == kwStream then
            -- §7.3.8.1: `stream` is followed by CR LF or LF
            let r6 := match r5 with
              | 13 :: 10 :: r => r
              | 10 :: r => r
              | r => r
            some (o, some (e.off + (w.length - r6.length)))
          else some (o, none)

def File.obj (f : File) (n : Nat) : Option Obj := (f.objAt n).map (·.1)

/-- follow a reference once (a reference to a reference is not valid in a file this reader accepts) -/
def File.resolve (f : File) (o : Obj) : Option Obj :=
  match o with
  | .ref n _ => f.obj n
  | o => some o

def File.getR (f : File) (o : Obj) (key : String) : Option Obj :=
  match Obj.get o key with
  | some v => f.resolve v
  | none => none

/-- the data of stream object `n` (raw, exactly `/Length` bytes) together with its dictionary -/
def File.stream (f : File) (n : Nat) : Option (Obj × List Nat) :=
  match f.objAt n with
  | some (d, some p) =>
    match f.getR d "Length" with
    | some (.int l) => if p + l.toNat ≤ f.bytes.size then some (d, slice f.bytes p (p + l.toNat)) else none
    | _ => none
  | _ => none

/-- walk `/Key1 /Key2 …` from an object, resolving references at every step -/
def File.path (f : File) (o : Obj) : List String → Option Obj
  | [] => some o
  | k :: ks =>
    match f.getR o k with
    | some v => f.path v ks
    | none => none

def File.root (f : File) : Option Obj := f.getR f.trailer "Root"

def Obj.arrElems : Obj → List Obj
  | .arr xs => xs
  | _ => []

def nameIs (o : Option Obj) (s : String) : Bool :=
  match o with
  | some (.name n) => n == s.toUTF8.toList.map (·.toNat)
  | _ => false

/-- the leaf page dictionaries in document order (bounded depth) -/
def File.pagesFrom (f : File) : Nat → Obj → List Obj
  | 0, _ => []
  | fuel + 1, node =>
    if nameIs (Obj.get node "Type") "Page" then [node] else
    match f.getR node "Kids" with
    | some (.arr ks) => ks.flatMap fun k => match f.resolve k with
      | some d => f.pagesFrom fuel d
      | none => []
    | _ => []

def File.pages (f : File) : List Obj :=
  match f.root with
  | some r => match f.getR r "Pages" with
    | some p => f.pagesFrom 16 p
    | none => []
  | none => []

end OxiVerif.PdfFile
