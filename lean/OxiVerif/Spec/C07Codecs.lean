/-
C07 — reference ENCODERS, written from the standards, not from the library:
  ISO 32000-1 §7.4.2 ASCIIHexDecode, §7.4.3 ASCII85Decode, §7.4.5 RunLengthDecode,
  §7.4.4 LZWDecode (both /EarlyChange values), §7.4.4.4 + PNG (ISO 15948) §9 filter types 0–4,
  TIFF 6.0 §14 horizontal differencing (Predictor 2), RFC 1950/1951 zlib with stored blocks.
Each has a twin in harness/src/c07_codecs.rs; the C07 driver compares them on every case.
Import-free (core Lean only).
-/
namespace OxiVerif.Codec

/-! ## ASCIIHex -/

def hexDigit (upper : Bool) (n : Nat) : Nat :=
  if n < 10 then 48 + n else if upper then 55 + n else 87 + n

/-- two digits per byte, no EOD -/
def hexEnc (upper : Bool) : List Nat → List Nat
  | [] => []
  | b :: bs => hexDigit upper (b / 16) :: hexDigit upper (b % 16) :: hexEnc upper bs

/-! ## ASCII85 -/

/-- the five base-85 digits of `v`, most significant first, by repeated division (least significant
digit first: `x % 85`, `x /= 85`), each offset by `!` = 33 -/
def a85Digits (v : Nat) : List Nat :=
  [v / 85 / 85 / 85 / 85 % 85 + 33, v / 85 / 85 / 85 % 85 + 33, v / 85 / 85 % 85 + 33, v / 85 % 85 + 33,
   v % 85 + 33]

def be32 (a b c d : Nat) : Nat := ((a * 256 + b) * 256 + c) * 256 + d

/-- groups of four bytes → five digits (`z` for an all-zero group); a final group of n < 4 bytes is
padded with zeros and its first n+1 digits are written.  No EOD here. -/
def a85Enc : List Nat → List Nat
  | a :: b :: c :: d :: rest =>
    (if be32 a b c d = 0 then [122] else a85Digits (be32 a b c d)) ++ a85Enc rest
  | [a, b, c] => (a85Digits (be32 a b c 0)).take 4
  | [a, b] => (a85Digits (be32 a b 0 0)).take 3
  | [a] => (a85Digits (be32 a 0 0 0)).take 2
  | [] => []

/-! ## white space (deterministic sprinkling, so that harness and driver agree) -/

/-- insert `ws[(i / every) % ws.length]` before the byte with index `i` whenever
`i % every = every - 1`; `every = 0` inserts nothing -/
def sprinkleGo (every : Nat) (ws : List Nat) : Nat → List Nat → List Nat
  | _, [] => []
  | i, b :: bs =>
    if every ≠ 0 ∧ i % every = every - 1 then
      ws.getD ((i / every) % ws.length) 32 :: b :: sprinkleGo every ws (i + 1) bs
    else b :: sprinkleGo every ws (i + 1) bs

def sprinkle (every : Nat) (ws : List Nat) (bs : List Nat) : List Nat := sprinkleGo every ws 0 bs

/-- ISO 32000-1 Table 1 -/
def pdfWhiteSpace : List Nat := [0, 9, 10, 12, 13, 32]
/-- the same without NUL -/
def asciiWhiteSpace : List Nat := [9, 10, 12, 13, 32]

/-! ## RunLength -/

inductive Packet where
  | lit (bs : List Nat)      -- 1 … 128 bytes copied literally, length byte = len - 1
  | run (n : Nat) (b : Nat)  -- 2 … 128 copies, length byte = 257 - n
  deriving Repr, DecidableEq

def Packet.valid : Packet → Bool
  | .lit bs => 1 ≤ bs.length && bs.length ≤ 128
  | .run n _ => 2 ≤ n && n ≤ 128

def Packet.bytes : Packet → List Nat
  | .lit bs => (bs.length - 1) :: bs
  | .run n b => [257 - n, b]

def Packet.expand : Packet → List Nat
  | .lit bs => bs
  | .run n b => List.replicate n b

/-- packets followed by the EOD byte 128 -/
def rlSerialize (ps : List Packet) : List Nat := ps.flatMap Packet.bytes ++ [128]

def rlExpand (ps : List Packet) : List Nat := ps.flatMap Packet.expand

/-- a reference RunLength packetiser: the longest run (at most 128) of the next byte becomes a run
packet when it has at least two bytes, a one-byte literal packet otherwise.  (`fuel` > length.) -/
def rlPacketsGo : Nat → List Nat → List Packet
  | 0, _ => []
  | _ + 1, [] => []
  | fuel + 1, x :: xs =>
    let k := min 127 (xs.takeWhile (· == x)).length
    (if k = 0 then Packet.lit [x] else Packet.run (k + 1) x) :: rlPacketsGo fuel (xs.drop k)

def rlPackets (data : List Nat) : List Packet := rlPacketsGo (data.length + 1) data

/-- the reference RunLength encoder -/
def rlEnc (data : List Nat) : List Nat := rlSerialize (rlPackets data)

/-! ## LZW -/

/-- encoder table: for every code the list of (next byte, code of the extended string) -/
abbrev Trie := Array (List (Nat × Nat))

def trieEmpty : Trie := Array.replicate 4096 []

def trieFind (t : Trie) (code byte : Nat) : Option Nat :=
  ((t.getD code []).find? (fun p => p.1 == byte)).map (·.2)

def trieAdd (t : Trie) (code byte new : Nat) : Trie :=
  t.setIfInBounds code ((byte, new) :: t.getD code [])

structure EncSt where
  trie : Trie
  nx : Nat              -- next free code
  w : Nat               -- current code width
  cur : Option Nat      -- code of the string matched so far

/-- after a data code has been written: the width grows as soon as the next free code reaches
`2^w - 1` (EarlyChange 1) resp. `2^w` (EarlyChange 0), up to 12 bits -/
def widthAfter (early : Bool) (nx w : Nat) : Nat :=
  if nx ≥ 2 ^ w - (if early then 1 else 0) ∧ w < 12 then w + 1 else w

/-- The reference encoder, tail-recursive (inputs of tens of kilobytes): `acc` = codes emitted so far,
most recent first.  `clearAt` = value of the next free code at which the encoder issues Clear (0: never,
the table stays full at 4096 entries).  Returns (code, width) pairs in stream order. -/
def lzwGoAcc (early : Bool) (clearAt : Nat) : EncSt → List (Nat × Nat) → List Nat → List (Nat × Nat)
  | st, acc, [] =>
    match st.cur with
    | some cur => ((257, widthAfter early st.nx st.w) :: (cur, st.w) :: acc).reverse
    | none => ((257, st.w) :: acc).reverse
  | st, acc, c :: rest =>
    match st.cur with
    | none => lzwGoAcc early clearAt { st with cur := some c } acc rest
    | some cur =>
      match trieFind st.trie cur c with
      | some code => lzwGoAcc early clearAt { st with cur := some code } acc rest
      | none =>
        let w := widthAfter early st.nx st.w
        let tn := if st.nx < 4096 then (trieAdd st.trie cur c st.nx, st.nx + 1) else (st.trie, st.nx)
        if clearAt ≠ 0 ∧ tn.2 ≥ clearAt then
          lzwGoAcc early clearAt { trie := trieEmpty, nx := 258, w := 9, cur := some c } ((256, w) :: (cur, st.w) :: acc) rest
        else lzwGoAcc early clearAt { trie := tn.1, nx := tn.2, w := w, cur := some c } ((cur, st.w) :: acc) rest

def lzwCodes (early : Bool) (clearAt : Nat) (data : List Nat) : List (Nat × Nat) :=
  lzwGoAcc early clearAt { trie := trieEmpty, nx := 258, w := 9, cur := none } [(256, 9)] data

/-- the same encoder written as a forward recursion (the form the round-trip proof works on;
`lzwCodes_eq_spec` in Lemmas/C07Lzw.lean shows the two agree): codes emitted from state `st` for the
remaining input -/
def lzwGoEnc (early : Bool) (clearAt : Nat) : EncSt → List Nat → List (Nat × Nat)
  | st, [] =>
    match st.cur with
    | some cur => [(cur, st.w), (257, widthAfter early st.nx st.w)]
    | none => [(257, st.w)]
  | st, c :: rest =>
    match st.cur with
    | none => lzwGoEnc early clearAt { st with cur := some c } rest
    | some cur =>
      match trieFind st.trie cur c with
      | some code => lzwGoEnc early clearAt { st with cur := some code } rest
      | none =>
        let w := widthAfter early st.nx st.w
        let tn := if st.nx < 4096 then (trieAdd st.trie cur c st.nx, st.nx + 1) else (st.trie, st.nx)
        if clearAt ≠ 0 ∧ tn.2 ≥ clearAt then
          (cur, st.w) :: (256, w) :: lzwGoEnc early clearAt { trie := trieEmpty, nx := 258, w := 9, cur := some c } rest
        else (cur, st.w) :: lzwGoEnc early clearAt { trie := tn.1, nx := tn.2, w := w, cur := some c } rest

def lzwCodesSpec (early : Bool) (clearAt : Nat) (data : List Nat) : List (Nat × Nat) :=
  (256, 9) :: lzwGoEnc early clearAt { trie := trieEmpty, nx := 258, w := 9, cur := none } data

/-- `w` bits of `code`, most significant first -/
def codeBits : Nat → Nat → List Bool
  | 0, _ => []
  | w + 1, code => (code / 2 ^ w % 2 == 1) :: codeBits w code

def bitsToByte (bs : List Bool) : Nat := bs.foldl (fun acc b => acc * 2 + (if b then 1 else 0)) 0

/-- MSB-first bytes, the last one padded with zero bits -/
def packBits : Nat → List Bool → List Nat
  | 0, _ => []
  | fuel + 1, bs =>
    if bs.isEmpty then []
    else bitsToByte ((bs.take 8) ++ List.replicate (8 - (bs.take 8).length) false) :: packBits fuel (bs.drop 8)

def lzwPack (codes : List (Nat × Nat)) : List Nat :=
  let bits := codes.flatMap fun (c, w) => codeBits w c
  packBits (bits.length + 1) bits

def lzwEnc (early : Bool) (clearAt : Nat) (data : List Nat) : List Nat :=
  lzwPack (lzwCodes early clearAt data)

/-! ## PNG filters (ISO 15948 §9.2 – 9.4) -/

/-- §9.4 -/
def paethSpec (a b c : Nat) : Nat :=
  let p : Int := (a : Int) + b - c
  let pa := (p - a).natAbs
  let pb := (p - b).natAbs
  let pc := (p - c).natAbs
  if pa ≤ pb ∧ pa ≤ pc then a else if pb ≤ pc then b else c

/-- prediction for the byte at index `i` of a row: `a` = byte `bpp` to the left in the raw row,
`b` = byte above, `c` = byte above-left (0 outside the image) -/
def predSpec (t bpp : Nat) (prev : List Nat) (rawSeen : Array Nat) : Nat :=
  let i := rawSeen.size
  let a := if i < bpp then 0 else rawSeen.getD (i - bpp) 0
  let b := prev.getD i 0
  let c := if i < bpp then 0 else prev.getD (i - bpp) 0
  match t with
  | 0 => 0
  | 1 => a
  | 2 => b
  | 3 => (a + b) / 2
  | _ => paethSpec a b c

def filterGo (t bpp : Nat) (prev : List Nat) : Array Nat → List Nat → List Nat
  | _, [] => []
  | seen, x :: xs => (x + 256 - predSpec t bpp prev seen % 256) % 256 :: filterGo t bpp prev (seen.push x) xs

/-- Filt(x) = Orig(x) − Pred(x) mod 256 along one row -/
def filterRow (t bpp : Nat) (prev row : List Nat) : List Nat := filterGo t bpp prev #[] row

/-- rows of `rb` bytes, row r filtered with type `types[r % types.length]`, each preceded by its type -/
def pngEncGo (rb bpp : Nat) (types : List Nat) : Nat → Nat → List Nat → List Nat → List Nat
  | 0, _, _, _ => []
  | fuel + 1, r, prev, data =>
    if data.isEmpty then []
    else
      let t := types.getD (r % types.length) 0
      let row := data.take rb
      t :: filterRow t bpp prev row ++ pngEncGo rb bpp types fuel (r + 1) row (data.drop rb)

def pngEnc (rb bpp : Nat) (types : List Nat) (data : List Nat) : List Nat :=
  if rb = 0 then [] else pngEncGo rb bpp types (data.length + 1) 0 [] data

def rowBytes (columns colors bpc : Nat) : Nat := (columns * colors * bpc + 7) / 8
def pngBpp (colors bpc : Nat) : Nat := max 1 ((colors * bpc + 7) / 8)

/-! ## TIFF predictor 2 -/

def byteBits (b : Nat) : List Bool := codeBits 8 b

def chunk {α} (k : Nat) : Nat → List α → List (List α)
  | 0, _ => []
  | fuel + 1, l => if l.isEmpty ∨ k = 0 then [] else l.take k :: chunk k fuel (l.drop k)

/-- horizontal differencing of one row of `columns * colors` samples of `bpc` bits (pad bits kept);
general form on the bit string -/
def tiffRowBits (columns colors bpc : Nat) (row : List Nat) : List Nat :=
  let bits := row.flatMap byteBits
  let nS := columns * colors
  let samples := ((chunk bpc (nS + 1) (bits.take (nS * bpc))).map bitsToByte).toArray
  let diff := (List.range nS).map fun j =>
    if j < colors then samples.getD j 0
    else (samples.getD j 0 + 2 ^ bpc - samples.getD (j - colors) 0) % 2 ^ bpc
  let outBits := diff.flatMap (codeBits bpc) ++ bits.drop (nS * bpc)
  (chunk 8 (row.length + 1) outBits).map bitsToByte

/-- TIFF 6.0 §14.  With 8 bits per component a sample is a byte and "the difference to the same
component of the pixel to the left" is written directly on the bytes (this is the recurrence of the
PNG Sub filter with a stride of `colors` bytes); other depths use the bit-string form.  (The Rust twin
`tiff2_encode` uses one sample-based loop for all depths; the driver compares the two.) -/
def tiffRow (columns colors bpc : Nat) (row : List Nat) : List Nat :=
  if bpc = 8 then filterRow 1 colors [] row else tiffRowBits columns colors bpc row

def tiffEnc (columns colors bpc : Nat) (data : List Nat) : List Nat :=
  let rb := rowBytes columns colors bpc
  if rb = 0 then data
  else ((chunk rb (data.length + 1) data).map fun row =>
    if row.length < rb then row else tiffRow columns colors bpc row).flatten

/-! ## zlib, stored blocks -/

def adler32 (data : List Nat) : Nat :=
  let (a, b) := data.foldl (fun (ab : Nat × Nat) x =>
    let a := (ab.1 + x) % 65521
    (a, (ab.2 + a) % 65521)) (1, 0)
  b * 65536 + a

def le16 (n : Nat) : List Nat := [n % 256, n / 256 % 256]

def storedBlocks (block : Nat) : Nat → List Nat → List Nat
  | 0, _ => []
  | fuel + 1, data =>
    let c := data.take block
    let rest := data.drop block
    (if rest.isEmpty then 1 else 0) :: le16 c.length ++ le16 (65535 - c.length) ++ c ++
      (if rest.isEmpty then [] else storedBlocks block fuel rest)

/-- RFC 1950 header 78 01, RFC 1951 stored blocks of at most `block` (1 … 65535) bytes, Adler-32 -/
def zlibStored (block : Nat) (data : List Nat) : List Nat :=
  let block := max 1 (min block 65535)
  let a := adler32 data
  [0x78, 0x01] ++ storedBlocks block (data.length + 1) data ++
    [a / 16777216 % 256, a / 65536 % 256, a / 256 % 256, a % 256]

/-! ## zlib, one fixed-Huffman block of literals (RFC 1951 §3.2.6) -/

/-- the fixed code of a literal byte: (code, length) -/
def fixedLitCode (b : Nat) : Nat × Nat := if b < 144 then (48 + b, 8) else (256 + b, 9)

/-- the bits of the block in stream order: BFINAL = 1, BTYPE = 01 (least significant bit first), every
literal's Huffman code (most significant bit first), end-of-block `0000000` -/
def fixedBits (data : List Nat) : List Bool :=
  [true, true, false] ++ data.flatMap (fun b => codeBits (fixedLitCode b).2 (fixedLitCode b).1) ++
    List.replicate 7 false

/-- bits → bytes, first bit = least significant bit of the first byte, zero padding (RFC 1951 §3.1.1) -/
def packBitsLE : Nat → List Bool → List Nat
  | 0, _ => []
  | fuel + 1, bs =>
    if bs.isEmpty then []
    else bitsToByte ((bs.take 8) ++ List.replicate (8 - (bs.take 8).length) false).reverse :: packBitsLE fuel (bs.drop 8)

/-- RFC 1950 header 78 01, one final fixed-Huffman block holding every byte as a literal, Adler-32 -/
def zlibFixed (data : List Nat) : List Nat :=
  let a := adler32 data
  [0x78, 0x01] ++ packBitsLE ((fixedBits data).length + 1) (fixedBits data) ++
    [a / 16777216 % 256, a / 65536 % 256, a / 256 % 256, a % 256]

end OxiVerif.Codec
