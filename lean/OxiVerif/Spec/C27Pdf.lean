/-!
# A small independent reader for PDF object syntax (ISO 32000-1 §7.2–§7.3)

Written from the text of the standard, not from the library: white-space, delimiters, names with
`#xx`, literal strings (balanced parentheses, all escapes, EOL normalisation, line continuation,
octal), hex strings, numbers, arrays, dictionaries, indirect references.  Used by the C27 and
C28 oracles to read what the real writer put into a file.  Import-free.
-/
namespace OxiVerif.PdfMini

inductive Tok
  | dictOpen | dictClose | arrOpen | arrClose
  | name (bs : List Nat)
  | int (i : Int)
  | real (bs : List Nat)
  | str (bs : List Nat)
  | kw (bs : List Nat)
  deriving DecidableEq, Repr, Inhabited

inductive PVal
  | int (i : Int)
  | real (bs : List Nat)
  | name (bs : List Nat)
  | str (bs : List Nat)
  | ref (n g : Nat)
  | arr (vs : List PVal)
  | dict (kvs : List (List Nat × PVal))
  | kw (bs : List Nat)
  deriving Repr, Inhabited

def isWhite (b : Nat) : Bool := b = 0 ∨ b = 9 ∨ b = 10 ∨ b = 12 ∨ b = 13 ∨ b = 32

def isDelim (b : Nat) : Bool :=
  b = 40 ∨ b = 41 ∨ b = 60 ∨ b = 62 ∨ b = 91 ∨ b = 93 ∨ b = 123 ∨ b = 125 ∨ b = 47 ∨ b = 37

def isRegular (b : Nat) : Bool := !isWhite b && !isDelim b

def hexv (b : Nat) : Option Nat :=
  if 48 ≤ b ∧ b ≤ 57 then some (b - 48)
  else if 97 ≤ b ∧ b ≤ 102 then some (b - 87)
  else if 65 ≤ b ∧ b ≤ 70 then some (b - 55)
  else none

def isOct (b : Nat) : Bool := 48 ≤ b && b ≤ 55

/-- literal string body after the opening parenthesis; `depth` = open parentheses -/
def litString : Nat → List Nat → Nat → List Nat → Option (List Nat × List Nat)
  | 0, _, _, _ => none
  | _ + 1, [], _, _ => none
  | fuel + 1, 41 :: r, depth, acc =>
    if depth = 0 then some (acc.reverse, r) else litString fuel r (depth - 1) (41 :: acc)
  | fuel + 1, 40 :: r, depth, acc => litString fuel r (depth + 1) (40 :: acc)
  | fuel + 1, 13 :: 10 :: r, depth, acc => litString fuel r depth (10 :: acc)
  | fuel + 1, 13 :: r, depth, acc => litString fuel r depth (10 :: acc)
  | fuel + 1, 92 :: r, depth, acc =>
    match r with
    | [] => none
    | 110 :: r' => litString fuel r' depth (10 :: acc)
    | 114 :: r' => litString fuel r' depth (13 :: acc)
    | 116 :: r' => litString fuel r' depth (9 :: acc)
    | 98 :: r' => litString fuel r' depth (8 :: acc)
    | 102 :: r' => litString fuel r' depth (12 :: acc)
    | 13 :: 10 :: r' => litString fuel r' depth acc
    | 13 :: r' => litString fuel r' depth acc
    | 10 :: r' => litString fuel r' depth acc
    | c :: r' =>
      if isOct c then
        match r' with
        | d :: r'' =>
          if isOct d then
            match r'' with
            | e :: r''' =>
              if isOct e then
                litString fuel r''' depth ((((c - 48) * 64 + (d - 48) * 8 + (e - 48)) % 256) :: acc)
              else litString fuel r'' depth (((c - 48) * 8 + (d - 48)) :: acc)
            | [] => litString fuel r'' depth (((c - 48) * 8 + (d - 48)) :: acc)
          else litString fuel r' depth ((c - 48) :: acc)
        | [] => litString fuel r' depth ((c - 48) :: acc)
      else litString fuel r' depth (c :: acc)
  | fuel + 1, b :: r, depth, acc => litString fuel r depth (b :: acc)

/-- hex string body after `<` -/
def hexString : Nat → List Nat → Option Nat → List Nat → Option (List Nat × List Nat)
  | 0, _, _, _ => none
  | _ + 1, [], _, _ => none
  | fuel + 1, b :: r, pending, acc =>
    if b = 62 then
      match pending with
      | some h => some ((h * 16 :: acc).reverse, r)
      | none => some (acc.reverse, r)
    else if isWhite b then hexString fuel r pending acc
    else match hexv b with
      | none => none
      | some v =>
        match pending with
        | some h => hexString fuel r none ((h * 16 + v) :: acc)
        | none => hexString fuel r (some v) acc

def takeRegular : List Nat → List Nat → List Nat × List Nat
  | [], acc => (acc.reverse, [])
  | b :: r, acc => if isRegular b then takeRegular r (b :: acc) else (acc.reverse, b :: r)

/-- `#xx` escapes inside a name -/
def unescapeName : List Nat → List Nat
  | 35 :: a :: b :: r =>
    match hexv a, hexv b with
    | some x, some y => (x * 16 + y) :: unescapeName r
    | _, _ => 35 :: unescapeName (a :: b :: r)
  | c :: r => c :: unescapeName r
  | [] => []

def digitsVal : List Nat → Option Nat
  | [] => none
  | ds => ds.foldl (fun a d => match a with
      | some v => if 48 ≤ d ∧ d ≤ 57 then some (v * 10 + (d - 48)) else none
      | none => none) (some 0)

def intOfBytes (bs : List Nat) : Option Int :=
  match bs with
  | 45 :: r => (digitsVal r).map fun v => - (v : Int)
  | 43 :: r => (digitsVal r).map fun v => (v : Int)
  | r => (digitsVal r).map fun v => (v : Int)

def isNumberish (bs : List Nat) : Bool :=
  bs.all (fun b => (48 ≤ b && b ≤ 57) || b = 43 || b = 45 || b = 46) && bs.any (fun b => 48 ≤ b && b ≤ 57)

def skipLine : List Nat → List Nat
  | [] => []
  | b :: r => if b = 10 ∨ b = 13 then r else skipLine r

def tokenize : Nat → List Nat → List Tok → Option (List Tok)
  | 0, _, _ => none
  | _ + 1, [], acc => some acc.reverse
  | fuel + 1, b :: r, acc =>
    if isWhite b then tokenize fuel r acc
    else if b = 37 then tokenize fuel (skipLine r) acc
    else if b = 60 then
      match r with
      | 60 :: r' => tokenize fuel r' (.dictOpen :: acc)
      | _ => match hexString (r.length + 1) r none [] with
        | some (s, r') => tokenize fuel r' (.str s :: acc)
        | none => none
    else if b = 62 then
      match r with
      | 62 :: r' => tokenize fuel r' (.dictClose :: acc)
      | _ => none
    else if b = 91 then tokenize fuel r (.arrOpen :: acc)
    else if b = 93 then tokenize fuel r (.arrClose :: acc)
    else if b = 40 then
      match litString (r.length + 1) r 0 [] with
      | some (s, r') => tokenize fuel r' (.str s :: acc)
      | none => none
    else if b = 47 then
      let (n, r') := takeRegular r []
      tokenize fuel r' (.name (unescapeName n) :: acc)
    else if isRegular b then
      let (w, r') := takeRegular (b :: r) []
      if isNumberish w then
        match intOfBytes w with
        | some i => tokenize fuel r' (.int i :: acc)
        | none => tokenize fuel r' (.real w :: acc)
      else tokenize fuel r' (.kw w :: acc)
    else none

def pairUp : List PVal → Option (List (List Nat × PVal))
  | [] => some []
  | .name k :: v :: r => (pairUp r).map ((k, v) :: ·)
  | _ => none

/-- closer: 0 = end of input, 1 = `]`, 2 = `>>`.  Returns the values (in order) and the rest. -/
def parseSeq : Nat → List Tok → List PVal → Nat → Option (List PVal × List Tok)
  | 0, _, _, _ => none
  | _ + 1, [], acc, closer => if closer = 0 then some (acc.reverse, []) else none
  | fuel + 1, t :: r, acc, closer =>
    match t with
    | .arrClose => if closer = 1 then some (acc.reverse, r) else none
    | .dictClose => if closer = 2 then some (acc.reverse, r) else none
    | .arrOpen =>
      match parseSeq fuel r [] 1 with
      | some (vs, r') => parseSeq fuel r' (.arr vs :: acc) closer
      | none => none
    | .dictOpen =>
      match parseSeq fuel r [] 2 with
      | some (vs, r') =>
        match pairUp vs with
        | some kvs => parseSeq fuel r' (.dict kvs :: acc) closer
        | none => none
      | none => none
    | .int i => parseSeq fuel r (.int i :: acc) closer
    | .real b => parseSeq fuel r (.real b :: acc) closer
    | .name b => parseSeq fuel r (.name b :: acc) closer
    | .str b => parseSeq fuel r (.str b :: acc) closer
    | .kw w =>
      if w = [82] then
        match acc with
        | .int g :: .int n :: acc' =>
          if 0 ≤ g ∧ 0 ≤ n then parseSeq fuel r (.ref n.toNat g.toNat :: acc') closer else none
        | _ => none
      else parseSeq fuel r (.kw w :: acc) closer

/-- all objects in a byte string, in order -/
def parseAll (bs : List Nat) : Option (List PVal) :=
  match tokenize (bs.length + 1) bs [] with
  | none => none
  | some toks =>
    match parseSeq (toks.length + 1) toks [] 0 with
    | some (vs, _) => some vs
    | none => none

def lookup (k : String) : List (List Nat × PVal) → Option PVal
  | [] => none
  | (k', v) :: r => if k' = k.toList.map Char.toNat then some v else lookup k r

/-- a key occurring twice makes a dictionary ill-formed for our purposes -/
def keysDistinct : List (List Nat × PVal) → Bool
  | [] => true
  | (k, _) :: r => !(r.any (fun e => e.1 = k)) && keysDistinct r

end OxiVerif.PdfMini
