import OxiVerif.Spec.C10File
/-!
# Spec.C13Read — an independent text extractor / font inspector for the C13 oracle

Written from the standards, independent of the writer model:
* ISO 32000-1 §9.10.3 + Adobe TN 5014: ToUnicode CMaps — `begincodespacerange`, `beginbfchar`
  (`<src> <dst>`), `beginbfrange` (`<lo> <hi> <dst>` ⇒ `lo+k ↦ dst+k`, big-endian with carry;
  `<lo> <hi> [<d0> <d1> …]`); the constraint "the last byte of dst ≤ 255 − (hi − lo)" is reported
  separately (`lowByteOverflow`);
* §9.4.3 / §9.7.6.2: `Tf` selects the font, `Tj` / `'` / `"` / `TJ` show strings; a Type0 font with
  `/Encoding /Identity-H` reads 2-byte codes;
* §9.7.4.3: `/W` (`c [w …]`, `c1 c2 w`), `/DW`; §9.7.4.2 `/CIDToGIDMap` streams;
* OpenType: table directory, `head.unitsPerEm`, `maxp.numGlyphs`, `hhea.numberOfHMetrics`, `hmtx`.
-/
namespace OxiVerif.C13Read
open OxiVerif.Spec.Syntax OxiVerif.PdfFile

/-! ## CMap text -/

inductive T where
  | hex (b : List Nat)
  | open_ | close
  | word (w : List Nat)
  deriving Repr, DecidableEq, Inhabited

def isWs (b : Nat) : Bool := b == 32 || b == 10 || b == 13 || b == 9 || b == 12 || b == 0

def hexBytes : List Nat → Option Nat → List Nat
  | [], some h => [h * 16]
  | [], none => []
  | c :: r, p =>
    match hexVal c with
    | none => hexBytes r p
    | some v => match p with
      | none => hexBytes r (some v)
      | some h => (h * 16 + v) :: hexBytes r none

def tokens : Nat → List Nat → List T
  | 0, _ => []
  | _, [] => []
  | fuel + 1, b :: r =>
    if isWs b then tokens fuel r
    else if b == 60 then
      match r with
      | 60 :: r' => .word [60, 60] :: tokens fuel r'
      | _ =>
        let body := r.takeWhile (· != 62)
        .hex (hexBytes body none) :: tokens fuel (r.drop (body.length + 1))
    else if b == 62 then tokens fuel r
    else if b == 91 then .open_ :: tokens fuel r
    else if b == 93 then .close :: tokens fuel r
    else if b == 37 then tokens fuel (r.dropWhile fun c => c != 10 && c != 13)
    else if b == 40 then tokens fuel (r.dropWhile (· != 41)).tail      -- (Adobe) etc.: no nesting in these files
    else
      let rest := r.takeWhile fun c => !isWs c && c != 60 && c != 62 && c != 91 && c != 93 && c != 40 && c != 47
      .word (b :: rest) :: tokens fuel (r.drop rest.length)

structure ToUni where
  chars : List (List Nat × List Nat) := []
  ranges : List (List Nat × List Nat × List Nat) := []
  arrays : List (List Nat × List Nat × List (List Nat)) := []
  deriving Repr, Inhabited

def w (s : String) : List Nat := s.toUTF8.toList.map (·.toNat)

def takeArr : List T → List (List Nat) × List T
  | .hex b :: r => let (a, rest) := takeArr r; (b :: a, rest)
  | .close :: r => ([], r)
  | _ :: r => takeArr r
  | [] => ([], [])

def sectChar : Nat → List T → ToUni → List T × ToUni
  | 0, ts, m => (ts, m)
  | fuel + 1, .hex a :: .hex b :: r, m => sectChar fuel r { m with chars := m.chars ++ [(a, b)] }
  | _, ts, m => (ts, m)

def sectRange : Nat → List T → ToUni → List T × ToUni
  | 0, ts, m => (ts, m)
  | fuel + 1, .hex a :: .hex b :: .hex d :: r, m => sectRange fuel r { m with ranges := m.ranges ++ [(a, b, d)] }
  | fuel + 1, .hex a :: .hex b :: .open_ :: r, m =>
    let (ds, rest) := takeArr r
    sectRange fuel rest { m with arrays := m.arrays ++ [(a, b, ds)] }
  | _, ts, m => (ts, m)

def parseT : Nat → List T → ToUni → ToUni
  | 0, _, m => m
  | _, [], m => m
  | fuel + 1, .word x :: r, m =>
    if x == w "beginbfchar" then let (r', m') := sectChar fuel r m; parseT fuel r' m'
    else if x == w "beginbfrange" then let (r', m') := sectRange fuel r m; parseT fuel r' m'
    else parseT fuel r m
  | fuel + 1, _ :: r, m => parseT fuel r m

def parseToUnicode (text : List Nat) : ToUni :=
  let ts := tokens (text.length + 1) text
  parseT (ts.length + 1) ts {}

def num (bs : List Nat) : Nat := bs.foldl (fun a b => a * 256 + b) 0
def toBE : Nat → Nat → List Nat
  | _, 0 => []
  | v, n + 1 => toBE (v / 256) n ++ [v % 256]

/-- every destination some entry gives the code -/
def ToUni.defines (m : ToUni) (c : List Nat) : List (List Nat) :=
  (m.chars.filterMap fun (s, d) => if s == c then some d else none) ++
  (m.ranges.filterMap fun (lo, hi, d) =>
    if c.length == lo.length && c.length == hi.length && num lo ≤ num c && num c ≤ num hi then
      some (toBE ((num d + (num c - num lo)) % 256 ^ d.length) d.length) else none) ++
  (m.arrays.filterMap fun (lo, hi, ds) =>
    if c.length == lo.length && c.length == hi.length && num lo ≤ num c && num c ≤ num hi then
      ds[num c - num lo]? else none)

/-- §9.10.3: "the value of the last byte in the string shall be ≤ 255 − (srcCode2 − srcCode1)" -/
def ToUni.lowByteOverflow (m : ToUni) : List (List Nat × List Nat × List Nat) :=
  m.ranges.filter fun (lo, hi, d) => d.getLast?.getD 0 + (num hi - num lo) > 255

/-! ## content stream: the shown strings with their font resource names -/

def showOps : List CTok → List Obj → Option (List Nat) → List (List Nat × List Nat)
  | [], _, _ => []
  | .operand o :: r, st, f => showOps r (o :: st) f
  | .operator k :: r, st, f =>
    if k == w "Tf" then
      match st with
      | _ :: .name n :: _ => showOps r [] (some n)
      | _ => showOps r [] f
    else if k == w "Tj" || k == w "'" || k == w "\"" then
      match st, f with
      | .str s :: _, some fn => (fn, s) :: showOps r [] f
      | _, _ => showOps r [] f
    else if k == w "TJ" then
      match st, f with
      | .arr xs :: _, some fn => (fn, xs.flatMap fun | .str s => s | _ => []) :: showOps r [] f
      | _, _ => showOps r [] f
    else showOps r [] f

def pairs : List Nat → List (List Nat)
  | a :: b :: r => [a, b] :: pairs r
  | [a] => [[a]]
  | [] => []

def units : List Nat → List Nat
  | a :: b :: r => (a * 256 + b) :: units r
  | _ => []

/-! ## /W -/

def wLookup : Nat → List Obj → Nat → Option Int
  | 0, _, _ => none
  | fuel + 1, .int c :: .arr ws :: r, x =>
    if c.toNat ≤ x ∧ x < c.toNat + ws.length then
      match ws[x - c.toNat]? with
      | some (.int v) => some v
      | _ => none
    else wLookup fuel r x
  | fuel + 1, .int a :: .int b :: .int v :: r, x => if a.toNat ≤ x ∧ x ≤ b.toNat then some v else wLookup fuel r x
  | _, _, _ => none

/-! ## sfnt -/

def u16 (a : Array Nat) (o : Nat) : Option Nat :=
  match a[o]?, a[o + 1]? with
  | some x, some y => some (x * 256 + y)
  | _, _ => none
def u32 (a : Array Nat) (o : Nat) : Option Nat :=
  match u16 a o, u16 a (o + 2) with
  | some x, some y => some (x * 65536 + y)
  | _, _ => none

def findTable (a : Array Nat) (tag : String) : Option Nat :=
  match u16 a 4 with
  | none => none
  | some n =>
    (List.range n).findSome? fun i =>
      let r := 12 + 16 * i
      if (a.extract r (r + 4)).toList == w tag then u32 a (r + 8) else none

structure SfntFacts where
  numGlyphs : Nat
  upem : Nat
  nhm : Nat
  hmtx : Nat
  deriving Repr

def sfntFacts (a : Array Nat) : Option SfntFacts := do
  let maxp ← findTable a "maxp"
  let head ← findTable a "head"
  let hhea ← findTable a "hhea"
  let hmtx ← findTable a "hmtx"
  let ng ← u16 a (maxp + 4)
  let upem ← u16 a (head + 18)
  let nhm ← u16 a (hhea + 34)
  pure { numGlyphs := ng, upem, nhm, hmtx }

def SfntFacts.advance (s : SfntFacts) (a : Array Nat) (g : Nat) : Option Nat :=
  if g ≥ s.numGlyphs || s.nhm == 0 then none else u16 a (s.hmtx + 4 * (if g < s.nhm then g else s.nhm - 1))

end OxiVerif.C13Read
