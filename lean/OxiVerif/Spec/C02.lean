import OxiVerif.Spec.Syntax
/-!
# Spec.C02 — an independent reading of a PDF object graph as a list of pages

Written from ISO 32000-1 (not from the library): §7.7.2 the catalog's `/Pages`, §7.7.3.2 page
tree nodes (`/Type /Pages`, `/Kids` in order, depth first), §7.7.3.3 page objects (`/MediaBox`,
`/Rotate` — both inheritable, §7.7.3.4 — `/Contents` a stream or an array of streams whose data
are concatenated, `/Resources` → `/XObject`), §7.8.2 content streams (operands precede the
operator), §8.9.5 image dictionaries.  The object graph comes from the strict scanner
(`harness/src/bin/c03/scan.rs`: file structure, cross-reference data, object streams, Flate) and
`Spec.Syntax.read` (object syntax).  Import-free apart from `Spec.Syntax`.
-/
namespace OxiVerif.Spec.C02
open OxiVerif.Spec.Syntax (Obj CTok)

abbrev Bytes := List Nat

inductive SObj where
  | plain (o : Obj)
  | stream (dict : Obj) (data : Bytes)
  deriving Repr, Inhabited

abbrev SGraph := List (Nat × SObj)

def bytesOf (s : String) : Bytes := s.toUTF8.toList.map (·.toNat)

def lookup (g : SGraph) (n : Nat) : Option SObj :=
  match g.find? (fun e => e.1 == n) with
  | some e => some e.2
  | none => none

def dictGet (k : Bytes) : List (Bytes × Obj) → Option Obj
  | [] => none
  | (k', v) :: r => if k == k' then some v else dictGet k r

def getKey (o : Obj) (k : String) : Option Obj :=
  match o with
  | .dict kvs => dictGet (bytesOf k) kvs
  | _ => none

/-- follow indirect references (§7.3.10); a reference to a missing object is `null` -/
def deref (g : SGraph) : Nat → Obj → Option SObj
  | 0, _ => none
  | fuel + 1, .ref n _ =>
    match lookup g n with
    | some (.plain o) => deref g fuel o
    | some s => some s
    | none => some (.plain .null)
  | _, o => some (.plain o)

def derefDict (g : SGraph) (o : Obj) : Option Obj :=
  match deref g (g.length + 1) o with
  | some (.plain (.dict kvs)) => some (.dict kvs)
  | some (.stream d _) => some d
  | _ => none

def isName (o : Option Obj) (s : String) : Bool :=
  match o with
  | some (.name n) => n == bytesOf s
  | _ => false

/-- inheritable attributes handed down the tree -/
structure Inh where
  mediaBox : Option Obj := none
  rotate : Option Obj := none
  resources : Option Obj := none
  deriving Inhabited

structure Leaf where
  dict : Obj
  inh : Inh
  deriving Inhabited

def pick (own inh : Option Obj) : Option Obj :=
  match own with
  | some v => some v
  | none => inh

mutual
/-- depth-first, `/Kids` in order (§7.7.3.2); `none` = malformed tree or fuel (cycle) -/
def walk (g : SGraph) : Nat → Inh → Obj → Option (List Leaf)
  | 0, _, _ => none
  | fuel + 1, inh, node =>
    match derefDict g node with
    | none => none
    | some d =>
      let inh' : Inh := { mediaBox := pick (getKey d "MediaBox") inh.mediaBox,
                          rotate := pick (getKey d "Rotate") inh.rotate,
                          resources := pick (getKey d "Resources") inh.resources }
      if isName (getKey d "Type") "Pages" then
        match (getKey d "Kids").bind (fun k => deref g (g.length + 1) k) with
        | some (.plain (.arr kids)) => walkKids g fuel inh' kids
        | _ => none
      else if isName (getKey d "Type") "Page" then some [{ dict := d, inh := inh' }]
      else none
def walkKids (g : SGraph) : Nat → Inh → List Obj → Option (List Leaf)
  | 0, _, _ => none
  | _, _, [] => some []
  | fuel + 1, inh, k :: r =>
    match walk g fuel inh k, walkKids g fuel inh r with
    | some a, some b => some (a ++ b)
    | _, _ => none
end

/-- the page objects of the document in page order -/
def pagesOf (g : SGraph) (root : Nat) : Option (List Leaf) :=
  match derefDict g (.ref root 0) with
  | none => none
  | some cat =>
    if !isName (getKey cat "Type") "Catalog" then none
    else match getKey cat "Pages" with
      | none => none
      | some p => walk g (2 * g.length + 2) {} p

/-! ## one page -/

structure Op where
  kw : Bytes
  args : List Obj
  deriving Repr, Inhabited

/-- §7.8.2: operands accumulate until an operator keyword -/
def groupOps : List CTok → List Obj → List Op
  | [], _ => []
  | .operand o :: r, acc => groupOps r (acc ++ [o])
  | .operator k :: r, acc => { kw := k, args := acc } :: groupOps r []

/-- data of `/Contents`: one stream, or an array of streams taken as one stream with white
    space between the parts (§7.7.3.3 Table 30) -/
def contentData (g : SGraph) (page : Obj) : Option Bytes :=
  match getKey page "Contents" with
  | none => some []
  | some c =>
    match deref g (g.length + 1) c with
    | some (.stream _ data) => some data
    | some (.plain (.arr xs)) =>
      xs.foldr (fun o acc => match deref g (g.length + 1) o, acc with
        | some (.stream _ d), some rest => some (d ++ 10 :: rest)
        | _, _ => none) (some [])
    | _ => none

def pageOps (g : SGraph) (page : Obj) : Option (List Op) :=
  match contentData g page with
  | none => none
  | some data => (Spec.Syntax.readContent data).map fun ts => groupOps ts []

structure Img where
  name : Bytes
  dict : Obj
  data : Bytes
  deriving Repr, Inhabited

def ltBytes : Bytes → Bytes → Bool
  | [], [] => false
  | [], _ :: _ => true
  | _ :: _, [] => false
  | a :: as, b :: bs => if a < b then true else if b < a then false else ltBytes as bs

def insertImg (i : Img) : List Img → List Img
  | [] => [i]
  | a :: r => if ltBytes i.name a.name then i :: a :: r else a :: insertImg i r

/-- the image XObjects of the page's resources (§8.9.5), sorted by resource name -/
def pageImages (g : SGraph) (l : Leaf) : Option (List Img) :=
  match l.inh.resources with
  | none => some []
  | some r =>
    match derefDict g r with
    | none => none
    | some rd =>
      match getKey rd "XObject" with
      | none => some []
      | some x =>
        match derefDict g x with
        | some (.dict kvs) =>
          kvs.foldr (fun e acc =>
            match deref g (g.length + 1) e.2, acc with
            | some (.stream d data), some rest =>
              if isName (getKey d "Subtype") "Image" then some (insertImg { name := e.1, dict := d, data := data } rest)
              else some rest
            | _, _ => none) (some [])
        | _ => none

end OxiVerif.Spec.C02
