/-
Published test vectors for `Spec/Crypto*.lean`, checked when this module is built (`#guard`
evaluates the compiled definitions).  MD5: RFC 1321 A.5; SHA-2: FIPS 180-4 / NIST examples;
AES: FIPS-197 Appendix C.1, C.3; CBC: NIST SP 800-38A F.2.1, F.2.5; RC4: the classic
"Key"/"Wiki"/"Secret" vectors.
-/
import OxiVerif.Spec.CryptoPdf
import OxiVerif.Base.Driver
namespace OxiVerif.Crypto

def hx (b : Bytes) : String := hexOfBytes (natsOfBytes b)
def uh (s : String) : Bytes := bytesOfNats ((bytesOfHex? s).getD [])
def s2b (s : String) : Bytes := s.toUTF8.toList

#guard hx (md5 (s2b "")) = "d41d8cd98f00b204e9800998ecf8427e"
#guard hx (md5 (s2b "abc")) = "900150983cd24fb0d6963f7d28e17f72"
#guard hx (md5 (s2b "12345678901234567890123456789012345678901234567890123456789012345678901234567890")) = "57edf4a22be3c955ac49da2e2107b67a"
#guard hx (sha256 (s2b "abc")) = "ba7816bf8f01cfea414140de5dae2223b00361a396177a9cb410ff61f20015ad"
#guard hx (sha256 (s2b "abcdbcdecdefdefgefghfghighijhijkijkljklmklmnlmnomnopnopq")) = "248d6a61d20638b8e5c026930c3e6039a33ce45964ff2167f6ecedd419db06c1"
#guard hx (sha384 (s2b "abc")) = "cb00753f45a35e8bb5a03d699ac65007272c32ab0eded1631a8b605a43ff5bed8086072ba1e7cc2358baeca134c825a7"
#guard hx (sha512 (s2b "abc")) = "ddaf35a193617abacc417349ae20413112e6fa4e89a97ea20a9eeee64b55d39a2192992a274fc1a836ba3c23a3feebbd454d4423643ce80e2a9ac94fa54ca49f"
#guard hx (sha512 (s2b "abcdefghbcdefghicdefghijdefghijkefghijklfghijklmghijklmnhijklmnoijklmnopjklmnopqklmnopqrlmnopqrsmnopqrstnopqrstu")) = "8e959b75dae313da8cf4f72814fc143f8f7779c6eb9f7fa17299aeadb6889018501d289e4900f7e4331b99dec4b5433ac7d329eeb6dd26545e96e55b874be909"
#guard (aesEcbEnc (uh "000102030405060708090a0b0c0d0e0f") (uh "00112233445566778899aabbccddeeff")).map hx = some "69c4e0d86a7b0430d8cdb78070b4c55a"
#guard (aesEcbEnc (uh "000102030405060708090a0b0c0d0e0f101112131415161718191a1b1c1d1e1f") (uh "00112233445566778899aabbccddeeff")).map hx = some "8ea2b7ca516745bfeafc49904b496089"
#guard (aesEcbDec (uh "000102030405060708090a0b0c0d0e0f") (uh "69c4e0d86a7b0430d8cdb78070b4c55a")).map hx = some "00112233445566778899aabbccddeeff"
#guard (aesEcbDec (uh "000102030405060708090a0b0c0d0e0f101112131415161718191a1b1c1d1e1f") (uh "8ea2b7ca516745bfeafc49904b496089")).map hx = some "00112233445566778899aabbccddeeff"
#guard (aesCbcRawEnc (uh "2b7e151628aed2a6abf7158809cf4f3c") (uh "000102030405060708090a0b0c0d0e0f") (uh "6bc1bee22e409f96e93d7e117393172aae2d8a571e03ac9c9eb76fac45af8e51")).map hx = some "7649abac8119b246cee98e9b12e9197d5086cb9b507219ee95db113a917678b2"
#guard (aesCbcRawDec (uh "2b7e151628aed2a6abf7158809cf4f3c") (uh "000102030405060708090a0b0c0d0e0f") (uh "7649abac8119b246cee98e9b12e9197d5086cb9b507219ee95db113a917678b2")).map hx = some "6bc1bee22e409f96e93d7e117393172aae2d8a571e03ac9c9eb76fac45af8e51"
#guard (aesCbcRawEnc (uh "603deb1015ca71be2b73aef0857d77811f352c073b6108d72d9810a30914dff4") (uh "000102030405060708090a0b0c0d0e0f") (uh "6bc1bee22e409f96e93d7e117393172aae2d8a571e03ac9c9eb76fac45af8e51")).map hx = some "f58c4c04d6e5f1ba779eabfb5f7bfbd69cfc4e967edb808d679f777bc6702c7d"
#guard hx (rc4 (s2b "Key") (s2b "Plaintext")) = "bbf316e8d940af0ad3"
#guard hx (rc4 (s2b "Wiki") (s2b "pedia")) = "1021bf0420"
#guard hx (rc4 (s2b "Secret") (s2b "Attack at dawn")) = "45a01f645fc35b383552544b9bf5"
#guard hx (pkcs7Pad (uh "0102")) = "01020e0e0e0e0e0e0e0e0e0e0e0e0e0e"
#guard (pkcs7Pad (List.replicate 16 0)).length = 32

end OxiVerif.Crypto
