/-
Reference hash functions, written from the standards, executable, import-free.
  * MD5      — RFC 1321
  * SHA-256  — FIPS 180-4 §6.2
  * SHA-384 / SHA-512 — FIPS 180-4 §6.4, §6.5
Nothing is proved about these functions (the theorems of C05/C06/C23 treat hashes as
uninterpreted); they are validated against published vectors at the end of the file and
against the RustCrypto / md5 crates on every correspondence run.
-/
namespace OxiVerif.Crypto

abbrev Bytes := List UInt8

def bytesOfNats (l : List Nat) : Bytes := l.map UInt8.ofNat
def natsOfBytes (b : Bytes) : List Nat := b.map UInt8.toNat

def md5K : Array UInt32 := #[
  0xd76aa478, 0xe8c7b756, 0x242070db, 0xc1bdceee, 0xf57c0faf, 0x4787c62a, 0xa8304613, 0xfd469501,
  0x698098d8, 0x8b44f7af, 0xffff5bb1, 0x895cd7be, 0x6b901122, 0xfd987193, 0xa679438e, 0x49b40821,
  0xf61e2562, 0xc040b340, 0x265e5a51, 0xe9b6c7aa, 0xd62f105d, 0x02441453, 0xd8a1e681, 0xe7d3fbc8,
  0x21e1cde6, 0xc33707d6, 0xf4d50d87, 0x455a14ed, 0xa9e3e905, 0xfcefa3f8, 0x676f02d9, 0x8d2a4c8a,
  0xfffa3942, 0x8771f681, 0x6d9d6122, 0xfde5380c, 0xa4beea44, 0x4bdecfa9, 0xf6bb4b60, 0xbebfbc70,
  0x289b7ec6, 0xeaa127fa, 0xd4ef3085, 0x04881d05, 0xd9d4d039, 0xe6db99e5, 0x1fa27cf8, 0xc4ac5665,
  0xf4292244, 0x432aff97, 0xab9423a7, 0xfc93a039, 0x655b59c3, 0x8f0ccc92, 0xffeff47d, 0x85845dd1,
  0x6fa87e4f, 0xfe2ce6e0, 0xa3014314, 0x4e0811a1, 0xf7537e82, 0xbd3af235, 0x2ad7d2bb, 0xeb86d391]

def md5S : Array UInt32 := #[
  7, 12, 17, 22, 7, 12, 17, 22, 7, 12, 17, 22, 7, 12, 17, 22, 5, 9, 14, 20, 5, 9, 14, 20, 5, 9, 14, 20, 5, 9, 14, 20, 4, 11, 16, 23, 4, 11, 16, 23, 4, 11, 16, 23, 4, 11, 16, 23, 6, 10, 15, 21, 6, 10, 15, 21, 6, 10, 15, 21, 6, 10, 15, 21]

def sha256K : Array UInt32 := #[
  0x428a2f98, 0x71374491, 0xb5c0fbcf, 0xe9b5dba5, 0x3956c25b, 0x59f111f1, 0x923f82a4, 0xab1c5ed5,
  0xd807aa98, 0x12835b01, 0x243185be, 0x550c7dc3, 0x72be5d74, 0x80deb1fe, 0x9bdc06a7, 0xc19bf174,
  0xe49b69c1, 0xefbe4786, 0x0fc19dc6, 0x240ca1cc, 0x2de92c6f, 0x4a7484aa, 0x5cb0a9dc, 0x76f988da,
  0x983e5152, 0xa831c66d, 0xb00327c8, 0xbf597fc7, 0xc6e00bf3, 0xd5a79147, 0x06ca6351, 0x14292967,
  0x27b70a85, 0x2e1b2138, 0x4d2c6dfc, 0x53380d13, 0x650a7354, 0x766a0abb, 0x81c2c92e, 0x92722c85,
  0xa2bfe8a1, 0xa81a664b, 0xc24b8b70, 0xc76c51a3, 0xd192e819, 0xd6990624, 0xf40e3585, 0x106aa070,
  0x19a4c116, 0x1e376c08, 0x2748774c, 0x34b0bcb5, 0x391c0cb3, 0x4ed8aa4a, 0x5b9cca4f, 0x682e6ff3,
  0x748f82ee, 0x78a5636f, 0x84c87814, 0x8cc70208, 0x90befffa, 0xa4506ceb, 0xbef9a3f7, 0xc67178f2]

def sha256H0 : Array UInt32 := #[
  0x6a09e667, 0xbb67ae85, 0x3c6ef372, 0xa54ff53a, 0x510e527f, 0x9b05688c, 0x1f83d9ab, 0x5be0cd19]

def sha512K : Array UInt64 := #[
  0x428a2f98d728ae22, 0x7137449123ef65cd, 0xb5c0fbcfec4d3b2f, 0xe9b5dba58189dbbc,
  0x3956c25bf348b538, 0x59f111f1b605d019, 0x923f82a4af194f9b, 0xab1c5ed5da6d8118,
  0xd807aa98a3030242, 0x12835b0145706fbe, 0x243185be4ee4b28c, 0x550c7dc3d5ffb4e2,
  0x72be5d74f27b896f, 0x80deb1fe3b1696b1, 0x9bdc06a725c71235, 0xc19bf174cf692694,
  0xe49b69c19ef14ad2, 0xefbe4786384f25e3, 0x0fc19dc68b8cd5b5, 0x240ca1cc77ac9c65,
  0x2de92c6f592b0275, 0x4a7484aa6ea6e483, 0x5cb0a9dcbd41fbd4, 0x76f988da831153b5,
  0x983e5152ee66dfab, 0xa831c66d2db43210, 0xb00327c898fb213f, 0xbf597fc7beef0ee4,
  0xc6e00bf33da88fc2, 0xd5a79147930aa725, 0x06ca6351e003826f, 0x142929670a0e6e70,
  0x27b70a8546d22ffc, 0x2e1b21385c26c926, 0x4d2c6dfc5ac42aed, 0x53380d139d95b3df,
  0x650a73548baf63de, 0x766a0abb3c77b2a8, 0x81c2c92e47edaee6, 0x92722c851482353b,
  0xa2bfe8a14cf10364, 0xa81a664bbc423001, 0xc24b8b70d0f89791, 0xc76c51a30654be30,
  0xd192e819d6ef5218, 0xd69906245565a910, 0xf40e35855771202a, 0x106aa07032bbd1b8,
  0x19a4c116b8d2d0c8, 0x1e376c085141ab53, 0x2748774cdf8eeb99, 0x34b0bcb5e19b48a8,
  0x391c0cb3c5c95a63, 0x4ed8aa4ae3418acb, 0x5b9cca4f7763e373, 0x682e6ff3d6b2b8a3,
  0x748f82ee5defb2fc, 0x78a5636f43172f60, 0x84c87814a1f0ab72, 0x8cc702081a6439ec,
  0x90befffa23631e28, 0xa4506cebde82bde9, 0xbef9a3f7b2c67915, 0xc67178f2e372532b,
  0xca273eceea26619c, 0xd186b8c721c0c207, 0xeada7dd6cde0eb1e, 0xf57d4f7fee6ed178,
  0x06f067aa72176fba, 0x0a637dc5a2c898a6, 0x113f9804bef90dae, 0x1b710b35131c471b,
  0x28db77f523047d84, 0x32caab7b40c72493, 0x3c9ebe0a15c9bebc, 0x431d67c49c100d4c,
  0x4cc5d4becb3e42b6, 0x597f299cfc657e2a, 0x5fcb6fab3ad6faec, 0x6c44198c4a475817]

def sha512H0 : Array UInt64 := #[
  0x6a09e667f3bcc908, 0xbb67ae8584caa73b, 0x3c6ef372fe94f82b, 0xa54ff53a5f1d36f1,
  0x510e527fade682d1, 0x9b05688c2b3e6c1f, 0x1f83d9abfb41bd6b, 0x5be0cd19137e2179]

def sha384H0 : Array UInt64 := #[
  0xcbbb9d5dc1059ed8, 0x629a292a367cd507, 0x9159015a3070dd17, 0x152fecd8f70e5939,
  0x67332667ffc00b31, 0x8eb44a8768581511, 0xdb0c2e0d64f98fa7, 0x47b5481dbefa4fa4]

@[inline] def rotl32 (x : UInt32) (n : UInt32) : UInt32 := (x <<< n) ||| (x >>> (32 - n))
@[inline] def rotr32 (x : UInt32) (n : UInt32) : UInt32 := (x >>> n) ||| (x <<< (32 - n))
@[inline] def rotr64 (x : UInt64) (n : UInt64) : UInt64 := (x >>> n) ||| (x <<< (64 - n))

/-- message ‖ 0x80 ‖ 0…0 so that the length is ≡ `resid` mod `blk`. -/
def padTo (msg : Bytes) (blk resid : Nat) : Array UInt8 :=
  let m := msg.toArray.push 0x80
  let z := (resid + blk - m.size % blk) % blk
  m ++ Array.replicate z 0

def le32At (m : Array UInt8) (o : Nat) : UInt32 :=
  (m[o]!).toUInt32 ||| ((m[o+1]!).toUInt32 <<< 8) ||| ((m[o+2]!).toUInt32 <<< 16) ||| ((m[o+3]!).toUInt32 <<< 24)

def be32At (m : Array UInt8) (o : Nat) : UInt32 :=
  ((m[o]!).toUInt32 <<< 24) ||| ((m[o+1]!).toUInt32 <<< 16) ||| ((m[o+2]!).toUInt32 <<< 8) ||| (m[o+3]!).toUInt32

def be64At (m : Array UInt8) (o : Nat) : UInt64 :=
  ((be32At m o).toUInt64 <<< 32) ||| (be32At m (o+4)).toUInt64

def le32Bytes (x : UInt32) : Bytes :=
  [x.toUInt8, (x >>> 8).toUInt8, (x >>> 16).toUInt8, (x >>> 24).toUInt8]
def be32Bytes (x : UInt32) : Bytes :=
  [(x >>> 24).toUInt8, (x >>> 16).toUInt8, (x >>> 8).toUInt8, x.toUInt8]
def be64Bytes (x : UInt64) : Bytes :=
  be32Bytes (x >>> 32).toUInt32 ++ be32Bytes x.toUInt32
def le64Bytes (x : UInt64) : Bytes :=
  le32Bytes x.toUInt32 ++ le32Bytes (x >>> 32).toUInt32

/-! ## MD5 (RFC 1321) -/

def md5Block (st : UInt32 × UInt32 × UInt32 × UInt32) (m : Array UInt8) (off : Nat) :
    UInt32 × UInt32 × UInt32 × UInt32 := Id.run do
  let (a0, b0, c0, d0) := st
  let mut a := a0
  let mut b := b0
  let mut c := c0
  let mut d := d0
  for i in [0:64] do
    let (f, g) :=
      if i < 16 then ((b &&& c) ||| ((~~~ b) &&& d), i)
      else if i < 32 then ((d &&& b) ||| ((~~~ d) &&& c), (5 * i + 1) % 16)
      else if i < 48 then (b ^^^ c ^^^ d, (3 * i + 5) % 16)
      else (c ^^^ (b ||| (~~~ d)), (7 * i) % 16)
    let f2 := f + a + md5K[i]! + le32At m (off + 4 * g)
    a := d
    d := c
    c := b
    b := b + rotl32 f2 md5S[i]!
  return (a0 + a, b0 + b, c0 + c, d0 + d)

def md5State (msg : Bytes) : UInt32 × UInt32 × UInt32 × UInt32 := Id.run do
  let m := padTo msg 64 56 ++ (le64Bytes (UInt64.ofNat (8 * msg.length))).toArray
  let mut st : UInt32 × UInt32 × UInt32 × UInt32 := (0x67452301, 0xefcdab89, 0x98badcfe, 0x10325476)
  for k in [0:m.size / 64] do
    st := md5Block st m (64 * k)
  return st

def md5 (msg : Bytes) : Bytes :=
  let st := md5State msg
  le32Bytes st.1 ++ le32Bytes st.2.1 ++ le32Bytes st.2.2.1 ++ le32Bytes st.2.2.2

/-! ## SHA-256 (FIPS 180-4 §6.2) -/

/-- eight working variables / hash words -/
structure H8 (α : Type) where
  (a b c d e f g h : α)

def sha256Block (h : H8 UInt32) (m : Array UInt8) (off : Nat) : H8 UInt32 := Id.run do
  let mut w : Array UInt32 := Array.emptyWithCapacity 64
  for t in [0:16] do
    w := w.push (be32At m (off + 4 * t))
  for t in [16:64] do
    let x := w[t-15]!
    let y := w[t-2]!
    let s0 := rotr32 x 7 ^^^ rotr32 x 18 ^^^ (x >>> 3)
    let s1 := rotr32 y 17 ^^^ rotr32 y 19 ^^^ (y >>> 10)
    w := w.push (s1 + w[t-7]! + s0 + w[t-16]!)
  let mut a := h.a
  let mut b := h.b
  let mut c := h.c
  let mut d := h.d
  let mut e := h.e
  let mut f := h.f
  let mut g := h.g
  let mut hh := h.h
  for t in [0:64] do
    let S1 := rotr32 e 6 ^^^ rotr32 e 11 ^^^ rotr32 e 25
    let ch := (e &&& f) ^^^ ((~~~ e) &&& g)
    let t1 := hh + S1 + ch + sha256K[t]! + w[t]!
    let S0 := rotr32 a 2 ^^^ rotr32 a 13 ^^^ rotr32 a 22
    let maj := (a &&& b) ^^^ (a &&& c) ^^^ (b &&& c)
    let t2 := S0 + maj
    hh := g; g := f; f := e; e := d + t1; d := c; c := b; b := a; a := t1 + t2
  return ⟨h.a + a, h.b + b, h.c + c, h.d + d, h.e + e, h.f + f, h.g + g, h.h + hh⟩

def h8OfArray {α} [Inhabited α] (x : Array α) : H8 α := ⟨x[0]!, x[1]!, x[2]!, x[3]!, x[4]!, x[5]!, x[6]!, x[7]!⟩

def sha256State (msg : Bytes) : H8 UInt32 := Id.run do
  let m := padTo msg 64 56 ++ (be64Bytes (UInt64.ofNat (8 * msg.length))).toArray
  let mut h := h8OfArray sha256H0
  for k in [0:m.size / 64] do
    h := sha256Block h m (64 * k)
  return h

def sha256 (msg : Bytes) : Bytes :=
  let h := sha256State msg
  be32Bytes h.a ++ be32Bytes h.b ++ be32Bytes h.c ++ be32Bytes h.d ++
  be32Bytes h.e ++ be32Bytes h.f ++ be32Bytes h.g ++ be32Bytes h.h

/-! ## SHA-512 / SHA-384 (FIPS 180-4 §6.4, §6.5) -/

def sha512Block (h : H8 UInt64) (m : Array UInt8) (off : Nat) : H8 UInt64 := Id.run do
  let mut w : Array UInt64 := Array.emptyWithCapacity 80
  for t in [0:16] do
    w := w.push (be64At m (off + 8 * t))
  for t in [16:80] do
    let x := w[t-15]!
    let y := w[t-2]!
    let s0 := rotr64 x 1 ^^^ rotr64 x 8 ^^^ (x >>> 7)
    let s1 := rotr64 y 19 ^^^ rotr64 y 61 ^^^ (y >>> 6)
    w := w.push (s1 + w[t-7]! + s0 + w[t-16]!)
  let mut a := h.a
  let mut b := h.b
  let mut c := h.c
  let mut d := h.d
  let mut e := h.e
  let mut f := h.f
  let mut g := h.g
  let mut hh := h.h
  for t in [0:80] do
    let S1 := rotr64 e 14 ^^^ rotr64 e 18 ^^^ rotr64 e 41
    let ch := (e &&& f) ^^^ ((~~~ e) &&& g)
    let t1 := hh + S1 + ch + sha512K[t]! + w[t]!
    let S0 := rotr64 a 28 ^^^ rotr64 a 34 ^^^ rotr64 a 39
    let maj := (a &&& b) ^^^ (a &&& c) ^^^ (b &&& c)
    let t2 := S0 + maj
    hh := g; g := f; f := e; e := d + t1; d := c; c := b; b := a; a := t1 + t2
  return ⟨h.a + a, h.b + b, h.c + c, h.d + d, h.e + e, h.f + f, h.g + g, h.h + hh⟩

def sha512Core (h0 : Array UInt64) (msg : Bytes) : H8 UInt64 := Id.run do
  -- 128-bit big-endian length; messages here are far below 2^64 bits
  let m := padTo msg 128 112 ++ (be64Bytes 0 ++ be64Bytes (UInt64.ofNat (8 * msg.length))).toArray
  let mut h := h8OfArray h0
  for k in [0:m.size / 128] do
    h := sha512Block h m (128 * k)
  return h

def sha512 (msg : Bytes) : Bytes :=
  let h := sha512Core sha512H0 msg
  be64Bytes h.a ++ be64Bytes h.b ++ be64Bytes h.c ++ be64Bytes h.d ++
  be64Bytes h.e ++ be64Bytes h.f ++ be64Bytes h.g ++ be64Bytes h.h
def sha384 (msg : Bytes) : Bytes :=
  let h := sha512Core sha384H0 msg
  be64Bytes h.a ++ be64Bytes h.b ++ be64Bytes h.c ++ be64Bytes h.d ++ be64Bytes h.e ++ be64Bytes h.f

/-! Output lengths (the only facts about the hashes used by the theorems). -/
theorem md5_length (m : Bytes) : (md5 m).length = 16 := by simp [md5, le32Bytes]
theorem sha256_length (m : Bytes) : (sha256 m).length = 32 := by simp [sha256, be32Bytes]
theorem sha384_length (m : Bytes) : (sha384 m).length = 48 := by simp [sha384, be64Bytes, be32Bytes]
theorem sha512_length (m : Bytes) : (sha512 m).length = 64 := by simp [sha512, be64Bytes, be32Bytes]

end OxiVerif.Crypto
