/-!
# Spec.Syntax — ISO 32000-1:2008 §7.2 (lexical conventions) and §7.3 (objects)

An **independent reader**, written from the text of the standard and *not* from the library.
It is deliberately strict: whatever the standard does not allow is `none`.

Bytes are `Nat`s (a byte string is a `List Nat`; nothing here needs `b < 256`, results of
`#xx` / octal escapes / hex strings are `< 256` by construction).  All functions are structurally
recursive (on the input, or on an explicit `fuel` for the object reader) so that `decide`
evaluates them in the kernel and the driver executable runs them natively.  Import-free.

Clause map
* §7.2.2 Table 1  white-space characters            → `isWhite`
* §7.2.2 Table 2  delimiter characters              → `isDelim`; everything else is *regular*
* §7.2.3          comments                          → `skip`
* §7.3.2/7.3.3    booleans, numbers                 → `classify`, `isIntTok`, `isRealTok`
* §7.3.4.2        literal strings                   → `readLit`
* §7.3.4.3        hexadecimal strings               → `readHex`
* §7.3.5          names, `#xx`                      → `readName`
* §7.3.6/7.3.7    arrays, dictionaries              → `readObj` / `readArr` / `readDict`
* §7.3.9/7.3.10   null, indirect references `n g R` → `readObj`
-/
namespace OxiVerif.Spec.Syntax

/-- A PDF object value (§7.3).  `real` keeps the decimal token as written (floats are never
    modelled); `hexstr` is only ever *written* (the writer-side distinction between a literal
    and a hexadecimal string) — every reader returns `str`. -/
inductive Obj where
  | null
  | bool (b : Bool)
  | int (i : Int)
  | real (tok : List Nat)
  | str (bs : List Nat)
  | hexstr (bs : List Nat)
  | name (bs : List Nat)
  | arr (xs : List Obj)
  | dict (kvs : List (List Nat × Obj))
  | ref (n g : Nat)
  deriving Repr, Inhabited

/-! ## §7.2.2 character classes -/

/-- Table 1: NUL, HT, LF, FF, CR, SP. -/
def isWhite (b : Nat) : Bool :=
  b == 0 || b == 9 || b == 10 || b == 12 || b == 13 || b == 32

/-- Table 2: `( ) < > [ ] { } / %`. -/
def isDelim (b : Nat) : Bool :=
  b == 40 || b == 41 || b == 60 || b == 62 || b == 91 || b == 93 || b == 123 || b == 125 ||
  b == 47 || b == 37

def isRegular (b : Nat) : Bool := !isWhite b && !isDelim b

/-- end-of-line markers: CR, LF -/
def isEol (b : Nat) : Bool := b == 10 || b == 13

def isDigit (b : Nat) : Bool := 48 ≤ b && b ≤ 57
def isOctal (b : Nat) : Bool := 48 ≤ b && b ≤ 55

def hexVal (b : Nat) : Option Nat :=
  if 48 ≤ b && b ≤ 57 then some (b - 48)
  else if 65 ≤ b && b ≤ 70 then some (b - 55)
  else if 97 ≤ b && b ≤ 102 then some (b - 87)
  else none

/-! ## §7.2.3 white space and comments -/

/-- Skip white space and comments (`%` up to, not including, the end-of-line marker — the marker
    itself is white space).  `inComment = true` while inside a comment. -/
def skip : Bool → List Nat → List Nat
  | _, [] => []
  | true, b :: r => if isEol b then skip false r else skip true r
  | false, b :: r =>
    if isWhite b then skip false r else if b == 37 then skip true r else b :: r

/-- The maximal run of regular characters at the head of the input (a "token"). -/
def takeRegular : List Nat → List Nat × List Nat
  | [] => ([], [])
  | b :: r =>
    if isRegular b then
      let (t, rest) := takeRegular r
      (b :: t, rest)
    else ([], b :: r)

/-! ## §7.3.5 names -/

def consOut (x : Nat) (t : Option (List Nat × List Nat)) : Option (List Nat × List Nat) :=
  match t with
  | some (s, rest) => some (x :: s, rest)
  | none => none

/-- reader state inside a name: plain, after `#`, after `#` and one hexadecimal digit -/
inductive NameSt where
  | plain
  | hash
  | hash1 (hi : Nat)
  deriving Repr, DecidableEq

/-- After the solidus: regular characters; `#` introduces exactly two hexadecimal digits
    (anything else after `#` is an error). -/
def readNameSt : NameSt → List Nat → Option (List Nat × List Nat)
  | .plain, [] => some ([], [])
  | .hash, [] => none
  | .hash1 _, [] => none
  | .plain, b :: r =>
    if !isRegular b then some ([], b :: r)
    else if b == 35 then readNameSt .hash r
    else consOut b (readNameSt .plain r)
  | .hash, b :: r =>
    match hexVal b with
    | some a => readNameSt (.hash1 a) r
    | none => none
  | .hash1 a, b :: r =>
    match hexVal b with
    | some c => consOut (a * 16 + c) (readNameSt .plain r)
    | none => none

def readName (inp : List Nat) : Option (List Nat × List Nat) := readNameSt .plain inp

/-! ## §7.3.4.2 literal strings -/

/-- Reader state inside a literal string. -/
inductive LitSt where
  | normal
  /-- an unescaped CR was just read (already delivered as LF): a directly following LF belongs
      to the same end-of-line marker -/
  | afterCR
  /-- a reverse solidus was just read -/
  | esc
  /-- reverse solidus + CR was just read (line continuation): a directly following LF belongs
      to the same end-of-line marker -/
  | escCR
  /-- `\d` read so far, value `v` -/
  | oct1 (v : Nat)
  /-- `\dd` read so far, value `v` -/
  | oct2 (v : Nat)
  deriving Repr, DecidableEq

/-- After the opening parenthesis; `d` = number of unescaped, still open inner parentheses.
    Table 3 escapes; `\ddd` with one to three octal digits, high-order overflow ignored;
    a reverse solidus followed by an end-of-line marker is a line continuation; a reverse
    solidus followed by anything else is ignored; an unescaped end-of-line marker (CR, LF or
    CR LF) is read as a single LF. -/
def readLit : Nat → LitSt → List Nat → Option (List Nat × List Nat)
  | _, _, [] => none
  | d, .esc, c :: r =>
    if c == 110 then consOut 10 (readLit d .normal r)
    else if c == 114 then consOut 13 (readLit d .normal r)
    else if c == 116 then consOut 9 (readLit d .normal r)
    else if c == 98 then consOut 8 (readLit d .normal r)
    else if c == 102 then consOut 12 (readLit d .normal r)
    else if c == 10 then readLit d .normal r
    else if c == 13 then readLit d .escCR r
    else if isOctal c then readLit d (.oct1 (c - 48)) r
    else consOut c (readLit d .normal r)
  | d, st, b :: r =>
    -- states other than `esc` first settle what is pending, then treat `b` as in `normal`
    let pending : Option Nat × Bool :=            -- (byte to deliver first, is `b` absorbed?)
      match st with
      | .afterCR => (none, b == 10)
      | .escCR => (none, b == 10)
      | .oct1 v => if isOctal b then (none, true) else (some v, false)
      | .oct2 v => if isOctal b then (some ((v * 8 + (b - 48)) % 256), true) else (some v, false)
      | _ => (none, false)
    let out (t : Option (List Nat × List Nat)) : Option (List Nat × List Nat) :=
      match pending.1 with
      | some x => consOut x t
      | none => t
    if pending.2 then
      match st with
      | .oct1 v => readLit d (.oct2 (v * 8 + (b - 48))) r
      | _ => out (readLit d .normal r)
    else if b == 41 then
      (if d == 0 then out (some ([], r)) else out (consOut 41 (readLit (d - 1) .normal r)))
    else if b == 40 then out (consOut 40 (readLit (d + 1) .normal r))
    else if b == 13 then out (consOut 10 (readLit d .afterCR r))
    else if b == 92 then out (readLit d .esc r)
    else out (consOut b (readLit d .normal r))

/-! ## §7.3.4.3 hexadecimal strings -/

/-- After the opening `<`.  White space is ignored, an odd final digit is padded with 0,
    any other character is an error.  `pending` = a high nibble waiting for its partner. -/
def readHex : Option Nat → List Nat → Option (List Nat × List Nat)
  | _, [] => none
  | p, b :: r =>
    if b == 62 then
      match p with
      | some h => some ([h * 16], r)
      | none => some ([], r)
    else if isWhite b then readHex p r
    else
      match hexVal b with
      | none => none
      | some v =>
        match p with
        | none => readHex (some v) r
        | some h =>
          match readHex none r with
          | some (s, rest) => some ((h * 16 + v) :: s, rest)
          | none => none

/-! ## §7.3.3 numbers -/

def allDigits : List Nat → Bool
  | [] => true
  | b :: r => isDigit b && allDigits r

def digitsVal : List Nat → Nat → Nat
  | [], acc => acc
  | b :: r, acc => digitsVal r (acc * 10 + (b - 48))

def stripSign : List Nat → Bool × List Nat
  | 43 :: r => (false, r)
  | 45 :: r => (true, r)
  | l => (false, l)

/-- integer: optional sign, one or more digits -/
def isIntTok (t : List Nat) : Bool :=
  let (_, u) := stripSign t
  !u.isEmpty && allDigits u

def intVal (t : List Nat) : Int :=
  let (neg, u) := stripSign t
  if neg then - (Int.ofNat (digitsVal u 0)) else Int.ofNat (digitsVal u 0)

/-- split at the first period -/
def splitDot : List Nat → List Nat × Option (List Nat)
  | [] => ([], none)
  | b :: r =>
    if b == 46 then ([], some r)
    else
      let (a, f) := splitDot r
      (b :: a, f)

/-- real: optional sign, digits with exactly one period, at least one digit (`34.5 -3.62 +123.6
    4. -.002 0.0`) -/
def isRealTok (t : List Nat) : Bool :=
  let (_, u) := stripSign t
  match splitDot u with
  | (a, some f) => allDigits a && allDigits f && !(a.isEmpty && f.isEmpty)
  | (_, none) => false

/-! ## §7.3 objects -/

def kwTrue : List Nat := [116, 114, 117, 101]
def kwFalse : List Nat := [102, 97, 108, 115, 101]
def kwNull : List Nat := [110, 117, 108, 108]

/-- `n g R` look-ahead (§7.3.10): after an unsigned integer token `n`, white space, an unsigned
    integer token `g`, white space, and the keyword `R` (a complete token). -/
def refAhead (rest : List Nat) : Option (Nat × List Nat) :=
  let (t2, r2) := takeRegular (skip false rest)
  if !t2.isEmpty && allDigits t2 then
    let (t3, r3) := takeRegular (skip false r2)
    if t3 == [82] then some (digitsVal t2 0, r3) else none
  else none

mutual
/-- One object at the head of the input (leading white space / comments skipped). -/
def readObj : Nat → List Nat → Option (Obj × List Nat)
  | 0, _ => none
  | fuel + 1, inp =>
    match skip false inp with
    | [] => none
    | b :: r =>
      if b == 47 then
        match readName r with
        | some (n, rest) => some (.name n, rest)
        | none => none
      else if b == 40 then
        match readLit 0 .normal r with
        | some (s, rest) => some (.str s, rest)
        | none => none
      else if b == 60 then
        match r with
        | 60 :: r' =>
          match readDict fuel r' with
          | some (kvs, rest) => some (.dict kvs, rest)
          | none => none
        | _ =>
          match readHex none r with
          | some (s, rest) => some (.str s, rest)
          | none => none
      else if b == 91 then
        match readArr fuel r with
        | some (xs, rest) => some (.arr xs, rest)
        | none => none
      else if isRegular b then
        let (t, rest) := takeRegular (b :: r)
        if t == kwTrue then some (.bool true, rest)
        else if t == kwFalse then some (.bool false, rest)
        else if t == kwNull then some (.null, rest)
        else if isIntTok t then
          if allDigits t then
            match refAhead rest with
            | some (g, rest') => some (.ref (digitsVal t 0) g, rest')
            | none => some (.int (intVal t), rest)
          else some (.int (intVal t), rest)
        else if isRealTok t then some (.real t, rest)
        else none
      else none

/-- Array elements up to the closing `]` (the opening `[` already consumed). -/
def readArr : Nat → List Nat → Option (List Obj × List Nat)
  | 0, _ => none
  | fuel + 1, inp =>
    match skip false inp with
    | [] => none
    | b :: r =>
      if b == 93 then some ([], r)
      else
        match readObj fuel (b :: r) with
        | none => none
        | some (x, rest) =>
          match readArr fuel rest with
          | some (xs, rest') => some (x :: xs, rest')
          | none => none

/-- Dictionary entries up to the closing `>>` (the opening `<<` already consumed);
    every key is a name. -/
def readDict : Nat → List Nat → Option (List (List Nat × Obj) × List Nat)
  | 0, _ => none
  | fuel + 1, inp =>
    match skip false inp with
    | [] => none
    | b :: r =>
      if b == 62 then
        match r with
        | 62 :: r' => some ([], r')
        | _ => none
      else if b == 47 then
        match readName r with
        | none => none
        | some (k, rest) =>
          match readObj fuel rest with
          | none => none
          | some (v, rest') =>
            match readDict fuel rest' with
            | some (kvs, rest'') => some ((k, v) :: kvs, rest'')
            | none => none
      else none
end

/-- Read one object; the fuel exceeds what any input can use (each unit of fuel is spent on a call
    that consumes at least one input byte or ends). -/
def read (inp : List Nat) : Option (Obj × List Nat) := readObj (2 * inp.length + 2) inp

/-! ## Content streams (§7.8.2): operands are objects, operators are keywords -/

inductive CTok where
  | operand (o : Obj)
  | operator (kw : List Nat)
  deriving Repr

/-- One lexical element of a content stream: an object (without indirect references, which are
    not allowed in content streams) or an operator keyword (a run of regular characters that is
    not a number / `true` / `false` / `null`).  Inline image data is not handled (`none` on `ID`
    is left to the caller). -/
def readCTok (inp : List Nat) : Option (Option (CTok × List Nat)) :=
  match skip false inp with
  | [] => some none
  | b :: r =>
    if b == 47 || b == 40 || b == 60 || b == 91 then
      match readObj (inp.length + 2) (b :: r) with
      | some (o, rest) => some (some (.operand o, rest))
      | none => none
    else if isRegular b then
      let (t, rest) := takeRegular (b :: r)
      if t == kwTrue then some (some (.operand (.bool true), rest))
      else if t == kwFalse then some (some (.operand (.bool false), rest))
      else if t == kwNull then some (some (.operand .null, rest))
      else if isIntTok t then some (some (.operand (.int (intVal t)), rest))
      else if isRealTok t then some (some (.operand (.real t), rest))
      else some (some (.operator t, rest))
    else none

/-- All lexical elements of a content stream (fuel = length). -/
def readContentAux : Nat → List Nat → Option (List CTok)
  | 0, _ => none
  | fuel + 1, inp =>
    match readCTok inp with
    | none => none
    | some none => some []
    | some (some (t, rest)) =>
      match readContentAux fuel rest with
      | some ts => some (t :: ts)
      | none => none

def readContent (inp : List Nat) : Option (List CTok) := readContentAux (inp.length + 1) inp

end OxiVerif.Spec.Syntax
