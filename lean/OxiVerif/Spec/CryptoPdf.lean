/-
The standard security handler, written from the standards — executable, import-free.

  * ISO 32000-1:2008 §7.6.2 Algorithm 1 (per-object key), §7.6.3.3 Algorithm 2 (file key),
    §7.6.3.4 Algorithms 3–7 (O, U, authentication) — revisions 2, 3, 4
  * ISO 32000-2:2020 §7.6.4.3 Algorithm 2.A (file key retrieval), 2.B (hash), §7.6.4.4
    Algorithms 8–13 (U/UE, O/OE, Perms, authentication) — revision 6; revision 5 (Adobe
    Supplement to ISO 32000, ExtensionLevel 3) is the same with `hash = SHA-256(pw‖salt‖udata)`
  * Algorithm 1.A (AESV3: the file key is the object key)

Passwords are byte strings here: the caller has already applied the password encoding the
revision asks for (PDFDocEncoding for R2–R4, SASLprep/UTF-8 truncated to 127 bytes for R5/R6).
-/
import OxiVerif.Spec.CryptoRc4
import OxiVerif.Spec.CryptoAes
namespace OxiVerif.Crypto

/-- §7.6.3.3 Algorithm 2 step (a): the 32-byte padding string -/
def pwPadding : Bytes := [
  0x28, 0xBF, 0x4E, 0x5E, 0x4E, 0x75, 0x8A, 0x41, 0x64, 0x00, 0x4E, 0x56, 0xFF, 0xFA, 0x01, 0x08,
  0x2E, 0x2E, 0x00, 0xB6, 0xD0, 0x68, 0x3E, 0x80, 0x2F, 0x0C, 0xA9, 0xFE, 0x64, 0x53, 0x69, 0x7A]

/-- Algorithm 2 (a): truncate to 32 bytes or pad with the leading bytes of the padding string -/
def padPassword (pw : Bytes) : Bytes := (pw ++ pwPadding).take 32

/-- 32-bit little-endian bytes of the permission word (a `Nat` below 2^32) -/
def le32OfNat (p : Nat) : Bytes :=
  [UInt8.ofNat p, UInt8.ofNat (p / 256), UInt8.ofNat (p / 65536), UInt8.ofNat (p / 16777216)]

/-- `f` applied `n` times -/
def iter {α} (f : α → α) : Nat → α → α
  | 0, x => x
  | n + 1, x => iter f n (f x)

/-- Algorithm 1: key for one indirect object (`aes` adds the "sAlT" suffix, §7.6.2 (b)/(c)). -/
def objectKey (fileKey : Bytes) (num gen : Nat) (aes : Bool) : Bytes :=
  let d := fileKey ++ [UInt8.ofNat num, UInt8.ofNat (num / 256), UInt8.ofNat (num / 65536)]
    ++ [UInt8.ofNat gen, UInt8.ofNat (gen / 256)]
    ++ (if aes then [0x73, 0x41, 0x6C, 0x54] else [])
  (md5 d).take (min (fileKey.length + 5) 16)

/-- Algorithm 2: file encryption key for revisions 2–4. `n` = key length in bytes. -/
def alg2 (rev n : Nat) (pw o : Bytes) (p : Nat) (id0 : Bytes) (encryptMetadata : Bool) : Bytes :=
  let d := padPassword pw ++ o ++ le32OfNat p ++ id0
    ++ (if rev ≥ 4 ∧ !encryptMetadata then [0xFF, 0xFF, 0xFF, 0xFF] else [])
  let h := md5 d
  let h := if rev ≥ 3 then iter (fun h => md5 (h.take n)) 50 h else h
  h.take n

def xorKey (key : Bytes) (i : Nat) : Bytes := key.map (· ^^^ UInt8.ofNat i)

/-- the 19 further RC4 passes of Algorithms 3 (g) and 5 (e): keys `key ⊕ 1 … key ⊕ 19` -/
def rc4Chain (key : Bytes) (data : Bytes) : Bytes :=
  (List.range 19).foldl (fun d i => rc4 (xorKey key (i + 1)) d) data

/-- Algorithm 7 (b): the same passes undone, keys `key ⊕ 19 … key ⊕ 1` (the caller adds `key ⊕ 0`). -/
def rc4Unchain (key : Bytes) (data : Bytes) : Bytes :=
  (List.range 19).foldr (fun i d => rc4 (xorKey key (i + 1)) d) data

/-- Algorithm 3 steps (a)–(d): RC4 key from the owner password -/
def ownerKey (rev n : Nat) (ownerPw : Bytes) : Bytes :=
  let h := md5 (padPassword ownerPw)
  let h := if rev ≥ 3 then iter md5 50 h else h
  h.take n

/-- Algorithm 3: the /O entry -/
def alg3 (rev n : Nat) (ownerPw userPw : Bytes) : Bytes :=
  let k := ownerKey rev n ownerPw
  let c := rc4 k (padPassword userPw)
  if rev ≥ 3 then rc4Chain k c else c

/-- Algorithm 4: /U for revision 2 -/
def alg4 (key : Bytes) : Bytes := rc4 key pwPadding

/-- Algorithm 5 (a)–(e): the 16 significant bytes of /U for revisions 3 and 4 -/
def alg5core (key id0 : Bytes) : Bytes := rc4Chain key (rc4 key (md5 (pwPadding ++ id0)))

/-- Algorithm 5 with 16 bytes of (here: zero) arbitrary padding -/
def alg5 (key id0 : Bytes) : Bytes := alg5core key id0 ++ List.replicate 16 0

/-- Algorithms 4/5 from a password -/
def computeU (rev n : Nat) (pw o : Bytes) (p : Nat) (id0 : Bytes) (em : Bool) : Bytes :=
  let key := alg2 rev n pw o p id0 em
  if rev = 2 then alg4 key else alg5 key id0

/-- Algorithm 6: authenticate the user password; the file key on success -/
def alg6 (rev n : Nat) (pw o u : Bytes) (p : Nat) (id0 : Bytes) (em : Bool) : Option Bytes :=
  let key := alg2 rev n pw o p id0 em
  if rev = 2 then (if alg4 key = u.take 32 ∧ u.length ≥ 32 then some key else none)
  else (if alg5core key id0 = u.take 16 ∧ u.length ≥ 16 then some key else none)

/-- Algorithm 7 (a)–(b): the (padded) user password recovered from /O -/
def alg7recover (rev n : Nat) (ownerPw o : Bytes) : Bytes :=
  let k := ownerKey rev n ownerPw
  if rev ≥ 3 then rc4 k (rc4Unchain k (o.take 32)) else rc4 k (o.take 32)

/-- Algorithm 7: authenticate the owner password; the file key on success -/
def alg7 (rev n : Nat) (ownerPw o u : Bytes) (p : Nat) (id0 : Bytes) (em : Bool) : Option Bytes :=
  alg6 rev n (alg7recover rev n ownerPw o) o u p id0 em

/-! ### Revision 5 / 6 -/

/-- the first 16 bytes of `e` read as a big-endian integer -/
def beNat (l : Bytes) : Nat := l.foldl (fun acc b => acc * 256 + b.toNat) 0

def repeat64 (unit : Bytes) : Bytes := (List.replicate 64 unit).flatten

/-- One round of Algorithm 2.B (steps a–d): new K and the last byte of E. -/
def alg2bRound (pw udata k : Bytes) : Bytes × Nat :=
  let k1 := repeat64 (pw ++ k ++ udata)
  let e := (aesCbcRawEnc (k.take 16) ((k.drop 16).take 16) k1).getD []
  let k' := match beNat (e.take 16) % 3 with
    | 0 => sha256 e
    | 1 => sha384 e
    | _ => sha512 e
  (k', (e.getLast?.getD 0).toNat)

/-- Rounds of Algorithm 2.B. `round` counts completed rounds; after round number `i` (counted
from 1) with i ≥ 64 the loop stops when the last byte of E is ≤ i − 32. `fuel` bounds the
number of further rounds; `alg2bLoop_fuel` (Props/C23) shows 288 is never exhausted. -/
def alg2bLoop (pw udata : Bytes) : Nat → Nat → Bytes → Bytes × Nat
  | 0, round, k => (k, round)
  | fuel + 1, round, k =>
    let r := alg2bRound pw udata k
    let round' := round + 1
    if round' ≥ 64 ∧ r.2 ≤ round' - 32 then (r.1, round')
    else alg2bLoop pw udata fuel round' r.1

/-- Algorithm 2.B: the 32-byte hash of revision 6. `udata` is empty or the 48-byte /U. -/
def alg2b (pw salt udata : Bytes) : Bytes :=
  let u := udata.take 48
  ((alg2bLoop pw u 288 0 (sha256 (pw ++ salt ++ u))).1).take 32

/-- number of rounds Algorithm 2.B takes (for the evidence / generator tags) -/
def alg2bRounds (pw salt udata : Bytes) : Nat :=
  let u := udata.take 48
  (alg2bLoop pw u 288 0 (sha256 (pw ++ salt ++ u))).2

/-- the revision-5 hash (Adobe Supplement, ExtensionLevel 3) -/
def hashR5 (pw salt udata : Bytes) : Bytes := sha256 (pw ++ salt ++ udata.take 48)

def hashFor (rev : Nat) : Bytes → Bytes → Bytes → Bytes := if rev = 5 then hashR5 else alg2b

def zeroIv : Bytes := List.replicate 16 0

def vSalt (e : Bytes) : Bytes := (e.drop 32).take 8
def kSalt (e : Bytes) : Bytes := (e.drop 40).take 8

/-- Algorithm 8 (a): /U from the password and the two salts -/
def alg8U (rev : Nat) (pw vs ks : Bytes) : Bytes := hashFor rev pw vs [] ++ vs ++ ks
/-- Algorithm 8 (b): /UE -/
def alg8UE (rev : Nat) (pw ks fileKey : Bytes) : Bytes :=
  (aesCbcRawEnc (hashFor rev pw ks []) zeroIv fileKey).getD []
/-- Algorithm 9 (a): /O -/
def alg9O (rev : Nat) (pw vs ks u : Bytes) : Bytes := hashFor rev pw vs u ++ vs ++ ks
/-- Algorithm 9 (b): /OE -/
def alg9OE (rev : Nat) (pw ks u fileKey : Bytes) : Bytes :=
  (aesCbcRawEnc (hashFor rev pw ks u) zeroIv fileKey).getD []
/-- Algorithm 10: /Perms (`rnd` = the four random bytes 12–15) -/
def permsPlain (p : Nat) (em : Bool) (rnd : Bytes) : Bytes :=
  le32OfNat p ++ [0xFF, 0xFF, 0xFF, 0xFF] ++ [if em then 0x54 else 0x46] ++ [0x61, 0x64, 0x62] ++ rnd.take 4
def alg10 (p : Nat) (em : Bool) (rnd fileKey : Bytes) : Bytes :=
  (aesEcbEnc fileKey (permsPlain p em rnd)).getD []

/-- Algorithm 11 + 2.A (e): authenticate the user password, recover the file key from /UE -/
def alg11 (rev : Nat) (pw u ue : Bytes) : Option Bytes :=
  let u := u.take 48
  if u.length = 48 ∧ hashFor rev pw (vSalt u) [] = u.take 32 then
    aesCbcRawDec (hashFor rev pw (kSalt u) []) zeroIv ue
  else none

/-- Algorithm 12 + 2.A (c): authenticate the owner password, recover the file key from /OE -/
def alg12 (rev : Nat) (pw o u oe : Bytes) : Option Bytes :=
  let o := o.take 48
  let u := u.take 48
  if o.length = 48 ∧ u.length = 48 ∧ hashFor rev pw (vSalt o) u = o.take 32 then
    aesCbcRawDec (hashFor rev pw (kSalt o) u) zeroIv oe
  else none

/-- Algorithm 13: decrypt /Perms; `some (P, EncryptMetadata)` when bytes 9–11 are "adb". -/
def alg13 (fileKey perms : Bytes) : Option (Bytes × Bool) :=
  match aesEcbDec fileKey perms with
  | some d =>
    if d.length = 16 ∧ (d.drop 9).take 3 = [0x61, 0x64, 0x62] then
      some (d.take 4, (d.drop 8).head? = some 0x54)
    else none
  | none => none

/-- Algorithm 1 / 1.A dispatch for one string or stream. `cfm`: 1 = RC4 (V2 or V1/V2 without
crypt filters), 2 = AESV2, 3 = AESV3. For AES the input/output carries the 16-byte IV prefix. -/
def decryptData (cfm : Nat) (fileKey : Bytes) (num gen : Nat) (data : Bytes) : Option Bytes :=
  if cfm = 1 then some (rc4 (objectKey fileKey num gen false) data)
  else
    let k := if cfm = 2 then objectKey fileKey num gen true else fileKey
    if data.length < 16 then none else aesCbcPadDec k (data.take 16) (data.drop 16)

def encryptData (cfm : Nat) (fileKey : Bytes) (num gen : Nat) (iv data : Bytes) : Bytes :=
  if cfm = 1 then rc4 (objectKey fileKey num gen false) data
  else
    let k := if cfm = 2 then objectKey fileKey num gen true else fileKey
    iv ++ (aesCbcPadEnc k iv data).getD []

end OxiVerif.Crypto
