import OxiVerif.Model.C18
/-!
Specification side of C18 (also used by C16 for the source document): an independent, strict,
TOP-DOWN document-order traversal of a page tree (ISO 32000-1 §7.7.3.2–7.7.3.4: depth-first over
/Kids, inheritable attributes MediaBox / CropBox / Rotate / Resources passed down).  `none` = the
tree is not strictly well-formed and the strict reading does not pronounce on it.
-/
namespace OxiVerif.C18


structure SPage where
  id : Nat
  mb : Option (List Int)
  cb : Option (List Int)
  rot : Int
  res : Option (List String)
  /-- the same page as seen by a reader that ignores indirect attribute values -/
  mbU : Option (List Int) := none
  cbU : Option (List Int) := none
  rotU : Int := 0
  viaRef : Bool := false

structure Env where
  mb : Option (List Int) := none
  cb : Option (List Int) := none
  rot : Option Int := none
  res : Option (List String) := none
  /-- what a reader that does NOT follow indirect MediaBox / CropBox / Rotate values computes:
  the key counts as set (it shadows the ancestors) but its value is unreadable → default -/
  mbU : Option (List Int) := none
  cbU : Option (List Int) := none
  rotU : Option Int := none
  viaRef : Bool := false

/-- typed value of an attribute, `none` = not a direct, well-typed value (the strict reading
does not pronounce on such trees) -/
def boxVal : Raw → Option (List Int)
  | .nums xs => if xs.length = 4 then xs.mapM id else none
  | _ => none

def rotVal : Raw → Option Int
  | .int i => if -2147483648 ≤ i ∧ i < 2147483648 then some i else none
  | _ => none

def resVal (g : Graph) : Raw → Option (List String)
  | .keys ks => some ks
  | .ref n => match g.get n with
    | .raw (.keys ks) => some ks
    | _ => none
  | _ => none

def kidsStrict (g : Graph) : Kids → Option (List Nat)
  | .direct es => es.mapM fun e => match e with | .ref n => some n | .junk => none
  | .ref n => match g.get n with
    | .arr es => es.mapM fun e => match e with | .ref n => some n | .junk => none
    | _ => none
  | _ => none

/-- an attribute value may be given indirectly (ISO 32000-1 §7.3.10: any object may be) -/
def deref (g : Graph) : Raw → Raw
  | .ref n => match g.get n with
    | .raw r => r
    | _ => .junk
  | r => r

def isRef : Option Raw → Bool
  | some (.ref _) => true
  | _ => false

def updEnv (g : Graph) (d : Dict) (e : Env) : Option Env := do
  let mb ← match d.mb with | none => some e.mb | some v => (boxVal (deref g v)).map some
  let cb ← match d.cb with | none => some e.cb | some v => (boxVal (deref g v)).map some
  let rot ← match d.rot with | none => some e.rot | some v => (rotVal (deref g v)).map some
  let mbU := match d.mb with | none => e.mbU | some v => if isRef (some v) then some [0, 0, 1224, 1584] else boxVal v
  let cbU := match d.cb with | none => e.cbU | some v => if isRef (some v) then none else boxVal v
  let rotU := match d.rot with | none => e.rotU | some v => if isRef (some v) then some 0 else rotVal v
  let via := e.viaRef || isRef d.mb || isRef d.cb || isRef d.rot
  let res ← match d.res with | none => some e.res | some v => (resVal g v).map some
  pure { mb := mb, cb := cb, rot := rot, res := res, mbU := mbU, cbU := cbU, rotU := rotU, viaRef := via }

mutual
  /-- strict top-down traversal; state = ids already seen; `none` = not strictly well-formed -/
  def specNode (g : Graph) (fuel : Nat) (id : Nat) (parent : Option Nat) (env : Env)
      (seen : List Nat) : Option (List SPage × List Nat) :=
    match fuel with
    | 0 => none
    | fuel + 1 =>
      if id ∈ seen then none else
      match g.get id with
      | .dict d =>
        if d.parent != parent then none else
        match updEnv g d env with
        | none => none
        | some env' =>
          match d.ty with
          | .page =>
            some ([{ id := id, mb := env'.mb, cb := env'.cb, rot := env'.rot.getD 0, res := env'.res,
                     mbU := env'.mbU, cbU := env'.cbU, rotU := env'.rotU.getD 0, viaRef := env'.viaRef }], id :: seen)
          | .pages =>
            match kidsStrict g d.kids with
            | none => none
            | some ks => specKids g fuel ks id env' (id :: seen)
          | _ => none
      | _ => none
  def specKids (g : Graph) (fuel : Nat) (ks : List Nat) (parent : Nat) (env : Env)
      (seen : List Nat) : Option (List SPage × List Nat) :=
    match fuel with
    | 0 => none
    | fuel + 1 =>
      match ks with
      | [] => some ([], seen)
      | k :: rest =>
        match specNode g fuel k (some parent) env seen with
        | none => none
        | some (ps, seen') =>
          match specKids g fuel rest parent env seen' with
          | none => none
          | some (qs, seen'') => some (ps ++ qs, seen'')
end

/-- all ids reachable from the root through /Kids references (any typing), root included -/
def reach (g : Graph) : Nat → List Nat → List Nat → List Nat
  | 0, _, seen => seen
  | _, [], seen => seen
  | fuel + 1, n :: st, seen =>
    if n ∈ seen then reach g fuel st seen else
    match g.get n with
    | .dict d =>
      let ks := match d.kids with
        | .direct es => refsOf es
        | .ref m => match g.get m with | .arr es => refsOf es | _ => []
        | _ => []
      reach g fuel (ks ++ st) (n :: seen)
    | _ => reach g fuel st (n :: seen)

def totalKids (g : Graph) : Nat :=
  g.foldl (fun acc e => acc + match e.2 with
    | .dict d => (match d.kids with | .direct es => es.length | _ => 0)
    | .arr es => es.length
    | _ => 0) 0


end OxiVerif.C18
