/-
C03 — spec-side readers written from ISO 32000-1 §7.5.7 (object streams), §7.5.8 (cross-reference
streams) and RFC 1950 §2.2 (zlib header), used by the C03 oracle and as the right-hand side of
the round-trip theorems (builder b0320).  Import-free apart from the model's `Entry` type.
-/
import OxiVerif.Model.C03
namespace OxiVerif.C03

/-- §7.5.8.2: a field of `w` bytes is an unsigned big-endian integer; `w = 0` reads 0 -/
def readField : Nat → List Nat → Option (Nat × List Nat)
  | 0, l => some (0, l)
  | w + 1, b :: l => (readField w l).map fun p => (b * 256 ^ w + p.1, p.2)
  | _ + 1, [] => none

def entryOfType (t a b : Nat) : Option Entry :=
  if t = 0 then some (.free a b) else if t = 1 then some (.inUse a b)
  else if t = 2 then some (.compressed a b) else none

/-- §7.5.8.3: `n` entries of widths `w`; the data must be consumed exactly -/
def decodeEntries (w : Nat × Nat × Nat) : Nat → List Nat → Option (List Entry)
  | 0, [] => some []
  | 0, _ :: _ => none
  | n + 1, l =>
    match readField w.1 l with
    | none => none
    | some (t, l) =>
      match readField w.2.1 l with
      | none => none
      | some (a, l) =>
        match readField w.2.2 l with
        | none => none
        | some (b, l) =>
          match entryOfType t a b, decodeEntries w n l with
          | some e, some r => some (e :: r)
          | _, _ => none

/-- RFC 1950 §2.2: CM = 8 (deflate), CINFO ≤ 7, FCHECK makes CMF·256+FLG a multiple of 31 -/
def zlibHeaderOk : List Nat → Bool
  | cmf :: flg :: _ => cmf % 16 == 8 && cmf / 16 ≤ 7 && (cmf * 256 + flg) % 31 == 0
  | _ => false

/-- an unsigned decimal integer token -/
def readUInt (l : List Nat) : Option (Nat × List Nat) :=
  let ds := l.takeWhile (fun c => 48 ≤ c && c ≤ 57)
  if ds.isEmpty then none else some (ds.foldl (fun a c => a * 10 + (c - 48)) 0, l.drop ds.length)

/-- §7.5.7: the first /First bytes hold N pairs `number offset` separated by white space
(strict: exactly one SPACE after each integer, which is what the writer emits) -/
def readPairs : Nat → List Nat → Option (List (Nat × Nat))
  | 0, _ => some []
  | n + 1, l =>
    match readUInt l with
    | some (a, 32 :: l) =>
      match readUInt l with
      | some (b, 32 :: l) => (readPairs n l).map fun r => (a, b) :: r
      | _ => none
    | _ => none

end OxiVerif.C03
