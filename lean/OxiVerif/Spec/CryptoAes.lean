/-
AES (FIPS-197) block cipher, ECB, CBC and PKCS#7 padding — reference definitions written from
the standards, executable, import-free.

The block is a structure of sixteen bytes (`Blk`, byte `b(r+4c)` = state row r, column c, the
FIPS-197 input order), so that ShiftRows / MixColumns are explicit field permutations /
GF(2^8) combinations and one block costs a handful of allocations in the compiled driver.
CBC and the padding are parametric in the block functions `E D : Bytes → Bytes`, which is what
the round-trip theorems quantify over.
-/
import OxiVerif.Spec.CryptoHash
namespace OxiVerif.Crypto

def sboxTab : Array UInt8 := #[
  0x63, 0x7c, 0x77, 0x7b, 0xf2, 0x6b, 0x6f, 0xc5,
  0x30, 0x01, 0x67, 0x2b, 0xfe, 0xd7, 0xab, 0x76,
  0xca, 0x82, 0xc9, 0x7d, 0xfa, 0x59, 0x47, 0xf0,
  0xad, 0xd4, 0xa2, 0xaf, 0x9c, 0xa4, 0x72, 0xc0,
  0xb7, 0xfd, 0x93, 0x26, 0x36, 0x3f, 0xf7, 0xcc,
  0x34, 0xa5, 0xe5, 0xf1, 0x71, 0xd8, 0x31, 0x15,
  0x04, 0xc7, 0x23, 0xc3, 0x18, 0x96, 0x05, 0x9a,
  0x07, 0x12, 0x80, 0xe2, 0xeb, 0x27, 0xb2, 0x75,
  0x09, 0x83, 0x2c, 0x1a, 0x1b, 0x6e, 0x5a, 0xa0,
  0x52, 0x3b, 0xd6, 0xb3, 0x29, 0xe3, 0x2f, 0x84,
  0x53, 0xd1, 0x00, 0xed, 0x20, 0xfc, 0xb1, 0x5b,
  0x6a, 0xcb, 0xbe, 0x39, 0x4a, 0x4c, 0x58, 0xcf,
  0xd0, 0xef, 0xaa, 0xfb, 0x43, 0x4d, 0x33, 0x85,
  0x45, 0xf9, 0x02, 0x7f, 0x50, 0x3c, 0x9f, 0xa8,
  0x51, 0xa3, 0x40, 0x8f, 0x92, 0x9d, 0x38, 0xf5,
  0xbc, 0xb6, 0xda, 0x21, 0x10, 0xff, 0xf3, 0xd2,
  0xcd, 0x0c, 0x13, 0xec, 0x5f, 0x97, 0x44, 0x17,
  0xc4, 0xa7, 0x7e, 0x3d, 0x64, 0x5d, 0x19, 0x73,
  0x60, 0x81, 0x4f, 0xdc, 0x22, 0x2a, 0x90, 0x88,
  0x46, 0xee, 0xb8, 0x14, 0xde, 0x5e, 0x0b, 0xdb,
  0xe0, 0x32, 0x3a, 0x0a, 0x49, 0x06, 0x24, 0x5c,
  0xc2, 0xd3, 0xac, 0x62, 0x91, 0x95, 0xe4, 0x79,
  0xe7, 0xc8, 0x37, 0x6d, 0x8d, 0xd5, 0x4e, 0xa9,
  0x6c, 0x56, 0xf4, 0xea, 0x65, 0x7a, 0xae, 0x08,
  0xba, 0x78, 0x25, 0x2e, 0x1c, 0xa6, 0xb4, 0xc6,
  0xe8, 0xdd, 0x74, 0x1f, 0x4b, 0xbd, 0x8b, 0x8a,
  0x70, 0x3e, 0xb5, 0x66, 0x48, 0x03, 0xf6, 0x0e,
  0x61, 0x35, 0x57, 0xb9, 0x86, 0xc1, 0x1d, 0x9e,
  0xe1, 0xf8, 0x98, 0x11, 0x69, 0xd9, 0x8e, 0x94,
  0x9b, 0x1e, 0x87, 0xe9, 0xce, 0x55, 0x28, 0xdf,
  0x8c, 0xa1, 0x89, 0x0d, 0xbf, 0xe6, 0x42, 0x68,
  0x41, 0x99, 0x2d, 0x0f, 0xb0, 0x54, 0xbb, 0x16]

def invSboxTab : Array UInt8 := #[
  0x52, 0x09, 0x6a, 0xd5, 0x30, 0x36, 0xa5, 0x38,
  0xbf, 0x40, 0xa3, 0x9e, 0x81, 0xf3, 0xd7, 0xfb,
  0x7c, 0xe3, 0x39, 0x82, 0x9b, 0x2f, 0xff, 0x87,
  0x34, 0x8e, 0x43, 0x44, 0xc4, 0xde, 0xe9, 0xcb,
  0x54, 0x7b, 0x94, 0x32, 0xa6, 0xc2, 0x23, 0x3d,
  0xee, 0x4c, 0x95, 0x0b, 0x42, 0xfa, 0xc3, 0x4e,
  0x08, 0x2e, 0xa1, 0x66, 0x28, 0xd9, 0x24, 0xb2,
  0x76, 0x5b, 0xa2, 0x49, 0x6d, 0x8b, 0xd1, 0x25,
  0x72, 0xf8, 0xf6, 0x64, 0x86, 0x68, 0x98, 0x16,
  0xd4, 0xa4, 0x5c, 0xcc, 0x5d, 0x65, 0xb6, 0x92,
  0x6c, 0x70, 0x48, 0x50, 0xfd, 0xed, 0xb9, 0xda,
  0x5e, 0x15, 0x46, 0x57, 0xa7, 0x8d, 0x9d, 0x84,
  0x90, 0xd8, 0xab, 0x00, 0x8c, 0xbc, 0xd3, 0x0a,
  0xf7, 0xe4, 0x58, 0x05, 0xb8, 0xb3, 0x45, 0x06,
  0xd0, 0x2c, 0x1e, 0x8f, 0xca, 0x3f, 0x0f, 0x02,
  0xc1, 0xaf, 0xbd, 0x03, 0x01, 0x13, 0x8a, 0x6b,
  0x3a, 0x91, 0x11, 0x41, 0x4f, 0x67, 0xdc, 0xea,
  0x97, 0xf2, 0xcf, 0xce, 0xf0, 0xb4, 0xe6, 0x73,
  0x96, 0xac, 0x74, 0x22, 0xe7, 0xad, 0x35, 0x85,
  0xe2, 0xf9, 0x37, 0xe8, 0x1c, 0x75, 0xdf, 0x6e,
  0x47, 0xf1, 0x1a, 0x71, 0x1d, 0x29, 0xc5, 0x89,
  0x6f, 0xb7, 0x62, 0x0e, 0xaa, 0x18, 0xbe, 0x1b,
  0xfc, 0x56, 0x3e, 0x4b, 0xc6, 0xd2, 0x79, 0x20,
  0x9a, 0xdb, 0xc0, 0xfe, 0x78, 0xcd, 0x5a, 0xf4,
  0x1f, 0xdd, 0xa8, 0x33, 0x88, 0x07, 0xc7, 0x31,
  0xb1, 0x12, 0x10, 0x59, 0x27, 0x80, 0xec, 0x5f,
  0x60, 0x51, 0x7f, 0xa9, 0x19, 0xb5, 0x4a, 0x0d,
  0x2d, 0xe5, 0x7a, 0x9f, 0x93, 0xc9, 0x9c, 0xef,
  0xa0, 0xe0, 0x3b, 0x4d, 0xae, 0x2a, 0xf5, 0xb0,
  0xc8, 0xeb, 0xbb, 0x3c, 0x83, 0x53, 0x99, 0x61,
  0x17, 0x2b, 0x04, 0x7e, 0xba, 0x77, 0xd6, 0x26,
  0xe1, 0x69, 0x14, 0x63, 0x55, 0x21, 0x0c, 0x7d]

@[inline] def subByte (x : UInt8) : UInt8 := sboxTab[x.toNat]!
@[inline] def invSubByte (x : UInt8) : UInt8 := invSboxTab[x.toNat]!

/-- multiplication by `x` in GF(2^8) modulo x^8+x^4+x^3+x+1 (FIPS-197 §4.2.1) -/
@[inline] def xtime (x : UInt8) : UInt8 := (x <<< 1) ^^^ (if x &&& 0x80 = 0 then 0 else 0x1b)
@[inline] def m2 (x : UInt8) : UInt8 := xtime x
@[inline] def m3 (x : UInt8) : UInt8 := xtime x ^^^ x
@[inline] def m4 (x : UInt8) : UInt8 := xtime (xtime x)
@[inline] def m8 (x : UInt8) : UInt8 := xtime (xtime (xtime x))
@[inline] def m9 (x : UInt8) : UInt8 := m8 x ^^^ x
@[inline] def m11 (x : UInt8) : UInt8 := m8 x ^^^ m2 x ^^^ x
@[inline] def m13 (x : UInt8) : UInt8 := m8 x ^^^ m4 x ^^^ x
@[inline] def m14 (x : UInt8) : UInt8 := m8 x ^^^ m4 x ^^^ m2 x

structure Blk where
  (b0 b1 b2 b3 b4 b5 b6 b7 b8 b9 b10 b11 b12 b13 b14 b15 : UInt8)
deriving DecidableEq, Repr

namespace Blk
def ofBytes : Bytes → Blk
  | [a0, a1, a2, a3, a4, a5, a6, a7, a8, a9, a10, a11, a12, a13, a14, a15] => ⟨a0, a1, a2, a3, a4, a5, a6, a7, a8, a9, a10, a11, a12, a13, a14, a15⟩
  | _ => ⟨0, 0, 0, 0, 0, 0, 0, 0, 0, 0, 0, 0, 0, 0, 0, 0⟩
def toBytes (s : Blk) : Bytes := [s.b0, s.b1, s.b2, s.b3, s.b4, s.b5, s.b6, s.b7, s.b8, s.b9, s.b10, s.b11, s.b12, s.b13, s.b14, s.b15]
def map (f : UInt8 → UInt8) (s : Blk) : Blk := ⟨f s.b0, f s.b1, f s.b2, f s.b3, f s.b4, f s.b5, f s.b6, f s.b7, f s.b8, f s.b9, f s.b10, f s.b11, f s.b12, f s.b13, f s.b14, f s.b15⟩
def xor (s k : Blk) : Blk := ⟨s.b0 ^^^ k.b0, s.b1 ^^^ k.b1, s.b2 ^^^ k.b2, s.b3 ^^^ k.b3, s.b4 ^^^ k.b4, s.b5 ^^^ k.b5, s.b6 ^^^ k.b6, s.b7 ^^^ k.b7, s.b8 ^^^ k.b8, s.b9 ^^^ k.b9, s.b10 ^^^ k.b10, s.b11 ^^^ k.b11, s.b12 ^^^ k.b12, s.b13 ^^^ k.b13, s.b14 ^^^ k.b14, s.b15 ^^^ k.b15⟩
/-- ShiftRows (§5.1.2): row r is rotated left by r -/
def shiftRows (s : Blk) : Blk := ⟨s.b0, s.b5, s.b10, s.b15, s.b4, s.b9, s.b14, s.b3, s.b8, s.b13, s.b2, s.b7, s.b12, s.b1, s.b6, s.b11⟩
def invShiftRows (s : Blk) : Blk := ⟨s.b0, s.b13, s.b10, s.b7, s.b4, s.b1, s.b14, s.b11, s.b8, s.b5, s.b2, s.b15, s.b12, s.b9, s.b6, s.b3⟩
/-- MixColumns (§5.1.3) -/
def mixColumns (s : Blk) : Blk :=
  ⟨m2 s.b0 ^^^ m3 s.b1 ^^^ s.b2 ^^^ s.b3,
   s.b0 ^^^ m2 s.b1 ^^^ m3 s.b2 ^^^ s.b3,
   s.b0 ^^^ s.b1 ^^^ m2 s.b2 ^^^ m3 s.b3,
   m3 s.b0 ^^^ s.b1 ^^^ s.b2 ^^^ m2 s.b3,
   m2 s.b4 ^^^ m3 s.b5 ^^^ s.b6 ^^^ s.b7,
   s.b4 ^^^ m2 s.b5 ^^^ m3 s.b6 ^^^ s.b7,
   s.b4 ^^^ s.b5 ^^^ m2 s.b6 ^^^ m3 s.b7,
   m3 s.b4 ^^^ s.b5 ^^^ s.b6 ^^^ m2 s.b7,
   m2 s.b8 ^^^ m3 s.b9 ^^^ s.b10 ^^^ s.b11,
   s.b8 ^^^ m2 s.b9 ^^^ m3 s.b10 ^^^ s.b11,
   s.b8 ^^^ s.b9 ^^^ m2 s.b10 ^^^ m3 s.b11,
   m3 s.b8 ^^^ s.b9 ^^^ s.b10 ^^^ m2 s.b11,
   m2 s.b12 ^^^ m3 s.b13 ^^^ s.b14 ^^^ s.b15,
   s.b12 ^^^ m2 s.b13 ^^^ m3 s.b14 ^^^ s.b15,
   s.b12 ^^^ s.b13 ^^^ m2 s.b14 ^^^ m3 s.b15,
   m3 s.b12 ^^^ s.b13 ^^^ s.b14 ^^^ m2 s.b15⟩
/-- InvMixColumns (§5.3.3) -/
def invMixColumns (s : Blk) : Blk :=
  ⟨m14 s.b0 ^^^ m11 s.b1 ^^^ m13 s.b2 ^^^ m9 s.b3,
   m9 s.b0 ^^^ m14 s.b1 ^^^ m11 s.b2 ^^^ m13 s.b3,
   m13 s.b0 ^^^ m9 s.b1 ^^^ m14 s.b2 ^^^ m11 s.b3,
   m11 s.b0 ^^^ m13 s.b1 ^^^ m9 s.b2 ^^^ m14 s.b3,
   m14 s.b4 ^^^ m11 s.b5 ^^^ m13 s.b6 ^^^ m9 s.b7,
   m9 s.b4 ^^^ m14 s.b5 ^^^ m11 s.b6 ^^^ m13 s.b7,
   m13 s.b4 ^^^ m9 s.b5 ^^^ m14 s.b6 ^^^ m11 s.b7,
   m11 s.b4 ^^^ m13 s.b5 ^^^ m9 s.b6 ^^^ m14 s.b7,
   m14 s.b8 ^^^ m11 s.b9 ^^^ m13 s.b10 ^^^ m9 s.b11,
   m9 s.b8 ^^^ m14 s.b9 ^^^ m11 s.b10 ^^^ m13 s.b11,
   m13 s.b8 ^^^ m9 s.b9 ^^^ m14 s.b10 ^^^ m11 s.b11,
   m11 s.b8 ^^^ m13 s.b9 ^^^ m9 s.b10 ^^^ m14 s.b11,
   m14 s.b12 ^^^ m11 s.b13 ^^^ m13 s.b14 ^^^ m9 s.b15,
   m9 s.b12 ^^^ m14 s.b13 ^^^ m11 s.b14 ^^^ m13 s.b15,
   m13 s.b12 ^^^ m9 s.b13 ^^^ m14 s.b14 ^^^ m11 s.b15,
   m11 s.b12 ^^^ m13 s.b13 ^^^ m9 s.b14 ^^^ m14 s.b15⟩
def subBytes (s : Blk) : Blk := s.map subByte
def invSubBytes (s : Blk) : Blk := s.map invSubByte
end Blk

/-! ### Key expansion (§5.2) -/

abbrev Word := UInt8 × UInt8 × UInt8 × UInt8
def Word.xor (a b : Word) : Word := (a.1 ^^^ b.1, a.2.1 ^^^ b.2.1, a.2.2.1 ^^^ b.2.2.1, a.2.2.2 ^^^ b.2.2.2)
def subWord (a : Word) : Word := (subByte a.1, subByte a.2.1, subByte a.2.2.1, subByte a.2.2.2)
def rotWord (a : Word) : Word := (a.2.1, a.2.2.1, a.2.2.2, a.1)

def rconTab : Array UInt8 := #[0x00, 0x01, 0x02, 0x04, 0x08, 0x10, 0x20, 0x40, 0x80, 0x1b, 0x36]

def wordsOfKey : Bytes → List Word
  | a :: b :: c :: d :: r => (a, b, c, d) :: wordsOfKey r
  | _ => []

/-- `w[i]` for i = nk … total-1 appended to `w` (an `Array` for O(1) back references). -/
def expandWords (nk total : Nat) (w0 : Array Word) : Array Word := Id.run do
  let mut w := w0
  for i in [nk:total] do
    let mut t := w[i-1]!
    if i % nk = 0 then
      t := (subWord (rotWord t)).xor (rconTab[i / nk]!, 0, 0, 0)
    else if nk > 6 ∧ i % nk = 4 then
      t := subWord t
    w := w.push ((w[i-nk]!).xor t)
  return w

def blkOfWords (a b c d : Word) : Blk :=
  ⟨a.1, a.2.1, a.2.2.1, a.2.2.2, b.1, b.2.1, b.2.2.1, b.2.2.2,
   c.1, c.2.1, c.2.2.1, c.2.2.2, d.1, d.2.1, d.2.2.1, d.2.2.2⟩

structure KeySched where
  first : Blk
  mids : List Blk
  last : Blk

/-- Round keys for a 16- (AES-128) or 32-byte (AES-256) key; `none` for any other length. -/
def keySched (key : Bytes) : Option KeySched :=
  let nk := key.length / 4
  if key.length = 16 ∨ key.length = 32 then
    let nr := nk + 6
    let w := expandWords nk (4 * (nr + 1)) (wordsOfKey key).toArray
    let rk := fun (r : Nat) => blkOfWords w[4*r]! w[4*r+1]! w[4*r+2]! w[4*r+3]!
    some ⟨rk 0, (List.range (nr - 1)).map (fun r => rk (r + 1)), rk nr⟩
  else none

/-! ### Cipher / InvCipher (§5.1, §5.3) -/

def encRound (s k : Blk) : Blk := (s.subBytes.shiftRows.mixColumns).xor k
def decRound (k s : Blk) : Blk := (s.xor k).invMixColumns.invShiftRows.invSubBytes
def encFinal (s k : Blk) : Blk := (s.subBytes.shiftRows).xor k
def decFinal (k s : Blk) : Blk := (s.xor k).invShiftRows.invSubBytes

def cipher (ks : KeySched) (x : Blk) : Blk :=
  encFinal (ks.mids.foldl encRound (x.xor ks.first)) ks.last

def invCipher (ks : KeySched) (y : Blk) : Blk :=
  (ks.mids.foldr decRound (decFinal ks.last y)).xor ks.first

/-- One-block functions on byte strings (`E`/`D` of the CBC definitions). A byte string that
is not 16 bytes long is read as the zero block (never happens under `cbcEnc`/`ecb`). -/
def aesEncBlock (ks : KeySched) (b : Bytes) : Bytes := (cipher ks (Blk.ofBytes b)).toBytes
def aesDecBlock (ks : KeySched) (b : Bytes) : Bytes := (invCipher ks (Blk.ofBytes b)).toBytes

/-! ### Modes: ECB, CBC (NIST SP 800-38A §6.1, §6.2), PKCS#7 (RFC 5652 §6.3) -/

def xorBytes (a b : Bytes) : Bytes := List.zipWith (· ^^^ ·) a b

/-- ECB over the first `n` whole blocks of `data`. -/
def ecbGo (F : Bytes → Bytes) : Nat → Bytes → Bytes
  | 0, _ => []
  | n + 1, data => F (data.take 16) ++ ecbGo F n (data.drop 16)
def ecb (F : Bytes → Bytes) (data : Bytes) : Bytes := ecbGo F (data.length / 16) data

def cbcEncGo (E : Bytes → Bytes) : Nat → Bytes → Bytes → Bytes
  | 0, _, _ => []
  | n + 1, prev, data =>
    let c := E (xorBytes (data.take 16) prev)
    c ++ cbcEncGo E n c (data.drop 16)
/-- CBC encryption of the whole blocks of `data` (no padding). -/
def cbcEnc (E : Bytes → Bytes) (iv data : Bytes) : Bytes := cbcEncGo E (data.length / 16) iv data

def cbcDecGo (D : Bytes → Bytes) : Nat → Bytes → Bytes → Bytes
  | 0, _, _ => []
  | n + 1, prev, data =>
    let c := data.take 16
    xorBytes (D c) prev ++ cbcDecGo D n c (data.drop 16)
def cbcDec (D : Bytes → Bytes) (iv data : Bytes) : Bytes := cbcDecGo D (data.length / 16) iv data

/-- PKCS#7 for 16-byte blocks: always adds 1…16 bytes, each equal to the number added. -/
def pkcs7Pad (d : Bytes) : Bytes :=
  let k := 16 - d.length % 16
  d ++ List.replicate k (UInt8.ofNat k)

/-- Strict inverse: `none` unless the length is a positive multiple of 16, the last byte `k`
is in 1…16 and the last `k` bytes all equal `k`. -/
def pkcs7Unpad (d : Bytes) : Option Bytes :=
  if d.length = 0 ∨ d.length % 16 ≠ 0 then none
  else
    let k := (d.getLast?.getD 0).toNat
    if k = 0 ∨ k > 16 then none
    else if (d.drop (d.length - k)).all (· = UInt8.ofNat k) then some (d.take (d.length - k))
    else none

/-- AES-CBC with PKCS#7 as used for PDF strings and streams (without the IV prefix). -/
def aesCbcPadEnc (key iv data : Bytes) : Option Bytes :=
  (keySched key).map fun ks => cbcEnc (aesEncBlock ks) iv (pkcs7Pad data)
def aesCbcPadDec (key iv data : Bytes) : Option Bytes :=
  match keySched key with
  | none => none
  | some ks => if data.length % 16 ≠ 0 then none else pkcs7Unpad (cbcDec (aesDecBlock ks) iv data)
def aesCbcRawEnc (key iv data : Bytes) : Option Bytes :=
  (keySched key).map fun ks => cbcEnc (aesEncBlock ks) iv data
def aesCbcRawDec (key iv data : Bytes) : Option Bytes :=
  (keySched key).map fun ks => cbcDec (aesDecBlock ks) iv data
def aesEcbEnc (key data : Bytes) : Option Bytes :=
  (keySched key).map fun ks => ecb (aesEncBlock ks) data
def aesEcbDec (key data : Bytes) : Option Bytes :=
  (keySched key).map fun ks => ecb (aesDecBlock ks) data

end OxiVerif.Crypto
